-- Root of the `VectorModel` library: see DESIGN.md section 8 for the layout.
import VectorModel.Prim.Keys
