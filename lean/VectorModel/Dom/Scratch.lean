import VectorModel.Gen.Dom.All
import VectorModel.Refine.SpatialAcc
namespace VR
open VK Spec Real

theorem dom_planar_unit (k : Az) (a b : ℝ) (h : 0 < rhoOf k a b) : planar_unit.evalDom k a b := by
  cases k
  · simp only [planar_unit.evalDom, planar_unit.xy.Dom, planar_rho.xy.Dom, planar_rho.xy]
    have h' : 0 < sqrt (a ^ 2 + b ^ 2) := h
    trace_state
    sorry
  · trivial
end VR
