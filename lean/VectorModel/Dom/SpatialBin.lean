/-
Regularity ("Dom") theorems for the binary / vector-valued spatial (3D) compute modules
`add`, `subtract`, `dot`, `cross`, `scale`, `unit`, `deltaangle`, `deltaeta`, `deltaR`, `deltaR2`,
`equal`, `not_equal`, `isclose`, `is_parallel`, `is_antiparallel`, `is_perpendicular`.

Method: regularity of the accessors / converters (`spatial_z`, `spatial_mag`, `spatial_eta`) is proved ONCE per operand
key (section "per-operand"), every 36-key module is then assembled by a combinator after `cases` on the four keys.

Theorems named `dom_<module>` have EXACTLY the hypotheses of the refinement theorem of the module; theorems named
`dom_<module>_partial` need an EXTRA HYPOTHESIS (documented at the theorem): the refinement theorem holds at inputs where
the real code hits a singularity.
-/
import VectorModel.Dom.Basic
import VectorModel.Refine.SpatialBin
import VectorModel.Refine.SpatialRot
import VectorModel.Refine.Equal
import VectorModel.Props.C12
import VectorModel.Props.C13

namespace VR
open VK Spec Real

/-! ### shared elementary facts -/
namespace D

theorem two_pi_ne_zero : (2 : ℝ) * π ≠ 0 := by positivity

theorem tan_ne_zero_of {c : ℝ} (hs : sin c ≠ 0) (hc : cos c ≠ 0) : tan c ≠ 0 := by
  rw [Real.tan_eq_sin_div_cos]; exact div_ne_zero hs hc

/-- `θ(η) = 2 arctan e^{-η}` has `cos θ = tanh η`, zero exactly at `η = 0` -/
theorem cos_theta_of_eta_ne_zero {e : ℝ} (he : e ≠ 0) : cos ((2.0 : ℝ) * arctan (exp (-e))) ≠ 0 := by
  have h2 : (2.0 : ℝ) = 2 := by norm_num
  rw [h2, L.cos_two_arctan_exp_neg]
  exact div_ne_zero (fun h => he (Real.sinh_eq_zero.mp h)) (Real.cosh_pos e).ne'

theorem sin_theta_of_eta_ne_zero (e : ℝ) : sin ((2.0 : ℝ) * arctan (exp (-e))) ≠ 0 := by
  have h2 : (2.0 : ℝ) = 2 := by norm_num
  rw [h2, L.sin_two_arctan_exp_neg]
  exact one_div_ne_zero (Real.cosh_pos e).ne'

/-- the regularity condition of `ρ / tan θ` -/
theorem z_theta {c : ℝ} (hc : cos c ≠ 0) (hs : sin c ≠ 0) : cos c ≠ 0 ∧ tan c ≠ 0 := ⟨hc, tan_ne_zero_of hs hc⟩

/-- the regularity condition of `1 / (tan θ₁ tan θ₂)` -/
theorem dot_theta_theta {t1 t2 : ℝ} (h1 : cos t1 ≠ 0 ∧ tan t1 ≠ 0) (h2 : cos t2 ≠ 0 ∧ tan t2 ≠ 0) :
    cos t1 ≠ 0 ∧ cos t2 ≠ 0 ∧ tan t1 * tan t2 ≠ 0 := ⟨h1.1, h2.1, mul_ne_zero h1.2 h2.2⟩

theorem clamp_mem (x : ℝ) : -1 ≤ max (-1) (min 1 x) ∧ max (-1) (min 1 x) ≤ 1 :=
  ⟨le_max_left _ _, max_le (by norm_num) (min_le_left _ _)⟩

/-- `-1 ≤ z / √(s + z²) ≤ 1` -/
theorem ratio_mem {s z : ℝ} (hs : 0 ≤ s) (hm : sqrt (s + z ^ 2) ≠ 0) :
    -1 ≤ z / sqrt (s + z ^ 2) ∧ z / sqrt (s + z ^ 2) ≤ 1 := by
  have hp : 0 < sqrt (s + z ^ 2) := lt_of_le_of_ne (Real.sqrt_nonneg _) (Ne.symm hm)
  have hz : |z| ≤ sqrt (s + z ^ 2) := Real.abs_le_sqrt (by nlinarith)
  have := abs_le.mp hz
  constructor
  · rw [le_div_iff₀ hp]; linarith
  · rw [div_le_one hp]; linarith

end D

/-! ### per-operand regularity of the accessors / converters -/

/-- `z` (all six keys): `ρ / tan θ` needs `cos θ ≠ 0` (for `tan`) AND `sin θ ≠ 0` (for the division) -/
theorem dom_spatial_z_operand (k0 : Az) (k1 : Lon) (a b c : ℝ) (ht : TanOK k1 c) (hs : SinOK k1 c) :
    spatial_z.evalDom k0 k1 a b c := by
  cases k0 <;> cases k1 <;> simp only [dd_spatial_z, dd_planar_rho, d_planar_rho2]
  · exact ⟨D.sumsq_nonneg a b, D.z_theta ht hs⟩
  · exact D.sumsq_nonneg a b
  · exact D.z_theta ht hs

/-- `mag` (all six keys): `ρ / |sin θ|` needs `sin θ ≠ 0` -/
theorem dom_spatial_mag_operand (k0 : Az) (k1 : Lon) (a b c : ℝ) (hs : SinOK k1 c) :
    spatial_mag.evalDom k0 k1 a b c := by
  cases k0 <;> cases k1 <;> simp only [dd_spatial_mag, d_spatial_mag2]
  · exact D.sumsq3_nonneg a b c
  · exact ⟨D.sumsq_nonneg a b, abs_ne_zero.mpr hs⟩
  · exact ⟨(Real.exp_pos _).ne', D.sumsq_nonneg a b⟩
  · positivity
  · exact abs_ne_zero.mpr hs
  · exact (Real.exp_pos _).ne'

/-- `mag ≠ 0` for a non-zero representable operand -/
theorem spatial_mag_ne_zero (k0 : Az) (k1 : Lon) (a b c : ℝ) (h2 : Canon2 k0 a b) (hs : SinOK k1 c)
    (hm : 0 < mag2Of k0 k1 a b c) : spatial_mag.eval k0 k1 a b c ≠ 0 := by
  rw [refine_spatial_mag k0 k1 a b c h2 hs]
  exact (Real.sqrt_pos.mpr hm).ne'

/-! ### dot -/

/-- the two keys of `dot` that go through `θ(η) = 2 arctan e^{-η}` and then divide by `tan θ(η)`: singular at `η = 0` -/
def DotEtaOK : Az → Lon → Az → Lon → ℝ → ℝ → Prop
  | .rhophi, .eta, .rhophi, .theta, c, _ => c ≠ 0
  | .rhophi, .theta, .rhophi, .eta, _, f => f ≠ 0
  | _, _, _, _, _, _ => True

/-- EXTRA HYPOTHESIS: `hs1`/`hs2` (`sin θ ≠ 0` for every θ operand: the code computes `ρ / tan θ`, and `tan θ = 0` at
`θ = 0, π`, where `refine_spatial_dot` (only `TanOK`) is proved with Lean's `1 / 0 = 0`), and `he` (`η ≠ 0` for the keys
`rhophi_eta_rhophi_theta` / `rhophi_theta_rhophi_eta`, which compute `tan (2 arctan e^{-η})`, i.e. `tan (π/2)` at `η = 0`). -/
theorem dom_spatial_dot_partial (k0 : Az) (k1 : Lon) (k2 : Az) (k3 : Lon) (a0 a1 a2 a3 a4 a5 : ℝ)
    (h1 : TanOK k1 a2) (h2 : TanOK k3 a5)
    (hs1 : SinOK k1 a2) (hs2 : SinOK k3 a5) (he : DotEtaOK k0 k1 k2 k3 a2 a5) :
    spatial_dot.evalDom k0 k1 k2 k3 a0 a1 a2 a3 a4 a5 := by
  have z1 := dom_spatial_z_operand k0 k1 a0 a1 a2 h1 hs1
  have z2 := dom_spatial_z_operand k2 k3 a3 a4 a5 h2 hs2
  cases k0 <;> cases k2 <;> cases k1 <;> cases k3 <;> simp only [spatial_z.evalDom] at z1 z2 <;>
    simp only [dd_spatial_dot] <;>
    first
      | trivial
      | exact z1
      | exact z2
      | exact ⟨z1, z2⟩
      | exact D.dot_theta_theta z1 z2
      | exact D.dot_theta_theta z1
          ⟨D.cos_theta_of_eta_ne_zero he, D.tan_ne_zero_of (D.sin_theta_of_eta_ne_zero _) (D.cos_theta_of_eta_ne_zero he)⟩
      | exact D.dot_theta_theta
          ⟨D.cos_theta_of_eta_ne_zero he, D.tan_ne_zero_of (D.sin_theta_of_eta_ne_zero _) (D.cos_theta_of_eta_ne_zero he)⟩ z2
      | exact ⟨(Real.exp_pos _).ne', (Real.exp_pos _).ne'⟩


example : TanOK .theta 1 ∧ SinOK .theta 1 ∧ DotEtaOK .rhophi .eta .rhophi .theta 1 1 :=
  ⟨ne_of_gt cos_one_pos, (sin_pos_of_pos_of_lt_pi one_pos (by linarith [two_le_pi])).ne', one_ne_zero⟩

/-! ### cross -/

/-- EXTRA HYPOTHESIS: `hs1`/`hs2` (`sin θ ≠ 0` for every θ operand, all 20 keys with a θ operand: the converter computes
`ρ / tan θ`; `refine_spatial_cross` assumes only `TanOK`). -/
theorem dom_spatial_cross_partial (k0 : Az) (k1 : Lon) (k2 : Az) (k3 : Lon) (a0 a1 a2 a3 a4 a5 : ℝ)
    (h1 : TanOK k1 a2) (h2 : TanOK k3 a5) (hs1 : SinOK k1 a2) (hs2 : SinOK k3 a5) :
    spatial_cross.evalDom k0 k1 k2 k3 a0 a1 a2 a3 a4 a5 := by
  have z1 := dom_spatial_z_operand k0 k1 a0 a1 a2 h1 hs1
  have z2 := dom_spatial_z_operand k2 k3 a3 a4 a5 h2 hs2
  cases k0 <;> cases k2 <;> cases k1 <;> cases k3 <;> simp only [spatial_z.evalDom] at z1 z2 <;>
    simp only [dd_spatial_cross] <;> trivial

/-! ### scale -/

/-- `scale` is regular everywhere (the only partial primitive is `% (2π)`) -/
theorem dom_spatial_scale (k0 : Az) (k1 : Lon) (f a b c : ℝ) (_h : ThetaRange k1 c) :
    spatial_scale.evalDom k0 k1 f a b c := by
  cases k0 <;> cases k1 <;> simp only [dd_spatial_scale] <;> exact D.two_pi_ne_zero

example : ThetaRange .theta 1 := ⟨by norm_num, by linarith [Real.one_le_pi_div_two, Real.pi_pos]⟩

/-! ### unit -/

theorem dom_spatial_unit (k0 : Az) (k1 : Lon) (a b c : ℝ) (h : Canon3 k0 k1 a b c) (hm : 0 < mag2Of k0 k1 a b c) :
    spatial_unit.evalDom k0 k1 a b c := by
  have hs := Spec.SinOK_of_canonLon h.2
  have md := dom_spatial_mag_operand k0 k1 a b c hs
  have mn := spatial_mag_ne_zero k0 k1 a b c h.1 hs hm
  cases k0 <;> cases k1 <;> simp only [spatial_mag.evalDom, spatial_mag.eval] at md mn <;>
    simp only [dd_spatial_unit] <;> exact ⟨md, mn⟩

example : Canon3 .rhophi .eta 1 0 0 ∧ 0 < mag2Of .rhophi .eta 1 0 0 := by
  refine ⟨⟨by norm_num [Canon2], by norm_num [CanonLon, rhoOf]⟩, ?_⟩
  norm_num [mag2Of, xOf, yOf, zOf, rhoOf]

/-! ### deltaangle -/

private theorem sinOK_of_imp {k : Lon} {c : ℝ} (h : k = .theta → sin c ≠ 0) : SinOK k c := by
  cases k
  · trivial
  · exact h rfl
  · trivial

/-- EXTRA HYPOTHESIS: `hm1`/`hm2` (both operands non-zero: the code divides `dot` by `|p₁|` and by `|p₂|`; for every key;
`refine_spatial_deltaangle` holds for a zero operand only through Lean's `x / 0 = 0`), and `he` (`η ≠ 0` for the keys
`rhophi_eta_rhophi_theta` / `rhophi_theta_rhophi_eta`, inherited from `dot`: `tan (2 arctan e^{-η})` at `η = 0`). -/
theorem dom_spatial_deltaangle_partial (k0 : Az) (k1 : Lon) (k2 : Az) (k3 : Lon) (a b c d e f : ℝ)
    (hc1 : Canon2 k0 a b) (hc2 : Canon2 k2 d e) (ht1 : TanOK k1 c) (ht2 : TanOK k3 f)
    (hs1 : k1 = .theta → sin c ≠ 0) (hs2 : k3 = .theta → sin f ≠ 0)
    (hm1 : 0 < mag2Of k0 k1 a b c) (hm2 : 0 < mag2Of k2 k3 d e f) (he : DotEtaOK k0 k1 k2 k3 c f) :
    spatial_deltaangle.evalDom k0 k1 k2 k3 a b c d e f := by
  have s1 := sinOK_of_imp hs1
  have s2 := sinOK_of_imp hs2
  have m1 := dom_spatial_mag_operand k0 k1 a b c s1
  have m2 := dom_spatial_mag_operand k2 k3 d e f s2
  have n1 := spatial_mag_ne_zero k0 k1 a b c hc1 s1 hm1
  have n2 := spatial_mag_ne_zero k2 k3 d e f hc2 s2 hm2
  have dd := dom_spatial_dot_partial k0 k1 k2 k3 a b c d e f ht1 ht2 s1 s2 he
  cases k0 <;> cases k2 <;> cases k1 <;> cases k3 <;>
    simp only [spatial_mag.evalDom, spatial_mag.eval, spatial_dot.evalDom] at m1 m2 n1 n2 dd <;>
    simp only [dd_spatial_deltaangle] <;>
    first
      | exact ⟨m1, m2, dd, n1, n2, D.clamp_mem _⟩
      | exact ⟨m1, m2, n1, n2, D.clamp_mem _⟩

/-- the same under the hypotheses of `refine_spatial_deltaangle_canon` (same EXTRA HYPOTHESES) -/
theorem dom_spatial_deltaangle_canon_partial (k0 : Az) (k1 : Lon) (k2 : Az) (k3 : Lon) (a b c d e f : ℝ)
    (hc1 : Canon3 k0 k1 a b c) (hc2 : Canon3 k2 k3 d e f) (ht1 : TanOK k1 c) (ht2 : TanOK k3 f)
    (hm1 : 0 < mag2Of k0 k1 a b c) (hm2 : 0 < mag2Of k2 k3 d e f) (he : DotEtaOK k0 k1 k2 k3 c f) :
    spatial_deltaangle.evalDom k0 k1 k2 k3 a b c d e f := by
  refine dom_spatial_deltaangle_partial k0 k1 k2 k3 a b c d e f hc1.1 hc2.1 ht1 ht2 ?_ ?_ hm1 hm2 he
  · rintro rfl; exact (sin_pos_of_pos_of_lt_pi hc1.2.2.1 hc1.2.2.2).ne'
  · rintro rfl; exact (sin_pos_of_pos_of_lt_pi hc2.2.2.1 hc2.2.2.2).ne'

example : Canon2 .rhophi 2 7 ∧ Canon2 .xy 3 4 ∧ TanOK .theta 1 ∧ TanOK .z 5 ∧ ((Lon.theta = .theta) → sin (1 : ℝ) ≠ 0)
    ∧ 0 < mag2Of .rhophi .theta 2 7 1 ∧ 0 < mag2Of .xy .z 3 4 5 ∧ DotEtaOK .rhophi .theta .xy .z 1 5 := by
  have hs : 0 < sin (1 : ℝ) := sin_pos_of_pos_of_lt_pi one_pos (by linarith [two_le_pi])
  refine ⟨by norm_num [Canon2], trivial, ne_of_gt cos_one_pos, trivial, fun _ => hs.ne', ?_, ?_, trivial⟩
  · rw [Spec.mag2Of_eq]
    have : (0 : ℝ) < rhoOf .rhophi 2 7 := by norm_num [rhoOf]
    positivity
  · norm_num [mag2Of, xOf, yOf, zOf]

/-! ### deltaeta, deltaR2, deltaR -/

theorem dom_spatial_deltaeta (k0 : Az) (k1 : Lon) (k2 : Az) (k3 : Lon) (a b c d e f : ℝ)
    (hr1 : 0 < rhoOf k0 a b) (hr2 : 0 < rhoOf k2 d e)
    (h1 : CanonLon k0 k1 a b c) (h2 : CanonLon k2 k3 d e f) :
    spatial_deltaeta.evalDom k0 k1 k2 k3 a b c d e f := by
  have e1 := dom_spatial_eta k0 k1 a b c h1 hr1
  have e2 := dom_spatial_eta k2 k3 d e f h2 hr2
  cases k0 <;> cases k2 <;> cases k1 <;> cases k3 <;> simp only [spatial_eta.evalDom] at e1 e2 <;>
    simp only [dd_spatial_deltaeta] <;>
    first
      | exact ⟨e1, e2⟩
      | exact e1
      | exact e2

theorem dom_spatial_deltaR2 (k0 : Az) (k1 : Lon) (k2 : Az) (k3 : Lon) (a b c d e f : ℝ)
    (hr1 : 0 < rhoOf k0 a b) (hr2 : 0 < rhoOf k2 d e)
    (h1 : CanonLon k0 k1 a b c) (h2 : CanonLon k2 k3 d e f) :
    spatial_deltaR2.evalDom k0 k1 k2 k3 a b c d e f := by
  have de := dom_spatial_deltaeta k0 k1 k2 k3 a b c d e f hr1 hr2 h1 h2
  cases k0 <;> cases k2 <;> cases k1 <;> cases k3 <;> simp only [spatial_deltaeta.evalDom] at de <;>
    simp only [dd_spatial_deltaR2, dd_planar_deltaphi] <;>
    first
      | exact ⟨D.two_pi_ne_zero, de⟩
      | exact D.two_pi_ne_zero

/-- hypotheses: those of `refine_spatial_deltaR_key` (= those of `refine_spatial_deltaR2`).  The structural theorem
`refine_spatial_deltaR` (`deltaR = √deltaR2`, no hypotheses) says nothing about the denotation and is NOT regular on the
z axis (`ρ = 0`: `arcsinh (z / ρ)`). -/
theorem dom_spatial_deltaR (k0 : Az) (k1 : Lon) (k2 : Az) (k3 : Lon) (a b c d e f : ℝ)
    (hr1 : 0 < rhoOf k0 a b) (hr2 : 0 < rhoOf k2 d e)
    (h1 : CanonLon k0 k1 a b c) (h2 : CanonLon k2 k3 d e f) :
    spatial_deltaR.evalDom k0 k1 k2 k3 a b c d e f := by
  have d2 := dom_spatial_deltaR2 k0 k1 k2 k3 a b c d e f hr1 hr2 h1 h2
  have nn : 0 ≤ spatial_deltaR2.eval k0 k1 k2 k3 a b c d e f := by
    rw [refine_spatial_deltaR2 k0 k1 k2 k3 a b c d e f hr1 hr2 h1 h2]; positivity
  cases k0 <;> cases k2 <;> cases k1 <;> cases k3 <;>
    simp only [spatial_deltaR2.evalDom, spatial_deltaR2.eval] at d2 nn <;>
    simp only [dd_spatial_deltaR] <;> exact ⟨d2, nn⟩

example : 0 < rhoOf .xy 3 4 ∧ 0 < rhoOf .rhophi 2 7 ∧ CanonLon .xy .theta 3 4 1 ∧ CanonLon .rhophi .eta 2 7 (-1) := by
  have h : 0 < rhoOf .xy 3 4 := L.sqrt_sumsq_pos (Or.inl (by norm_num))
  have h' : 0 < rhoOf .rhophi 2 7 := by norm_num [rhoOf]
  exact ⟨h, h', ⟨h, one_pos, by linarith [two_le_pi]⟩, h'⟩

/-! ### equal, not_equal, isclose

Every variant converts at most ONE operand: a θ/η operand to `z` (`spatial_z`) when the other stores `z`, a θ operand to `η`
(`spatial_eta`) when the other stores `η`. -/

/-- regularity of the θ → η conversion of a θ operand (`True` for the other keys, which are never converted to η) -/
private def EtaOfTheta (k0 : Az) : Lon → ℝ → ℝ → ℝ → Prop
  | .theta, a, b, c => spatial_eta.evalDom k0 .theta a b c
  | _, _, _, _ => True

private theorem eta_of_theta_operand (k0 : Az) (k1 : Lon) (a b c : ℝ) (h : CanonLon k0 k1 a b c) :
    EtaOfTheta k0 k1 a b c := by
  cases k1
  · trivial
  · cases k0 <;> simp only [EtaOfTheta, dd_spatial_eta] <;>
      exact ⟨(D.cos_half_pos h.2.1 h.2.2).ne', D.tan_half_pos h.2.1 h.2.2⟩
  · trivial

/-- the common regularity statement behind `equal`, `not_equal`, `isclose` -/
private theorem cmp_operands (k0 : Az) (k1 : Lon) (k2 : Az) (k3 : Lon) (a0 a1 a2 a3 a4 a5 : ℝ)
    (c1 : CanonLon k0 k1 a0 a1 a2) (c2 : CanonLon k2 k3 a3 a4 a5) (t1 : TanOK k1 a2) (t2 : TanOK k3 a5) :
    (spatial_z.evalDom k0 k1 a0 a1 a2 ∧ spatial_z.evalDom k2 k3 a3 a4 a5) ∧
    EtaOfTheta k0 k1 a0 a1 a2 ∧ EtaOfTheta k2 k3 a3 a4 a5 :=
  ⟨⟨dom_spatial_z_operand k0 k1 a0 a1 a2 t1 (Spec.SinOK_of_canonLon c1),
    dom_spatial_z_operand k2 k3 a3 a4 a5 t2 (Spec.SinOK_of_canonLon c2)⟩,
   eta_of_theta_operand k0 k1 a0 a1 a2 c1, eta_of_theta_operand k2 k3 a3 a4 a5 c2⟩

theorem dom_spatial_equal (k0 : Az) (k1 : Lon) (k2 : Az) (k3 : Lon) (a0 a1 a2 a3 a4 a5 : ℝ)
    (c1 : Canon3 k0 k1 a0 a1 a2) (c2 : Canon3 k2 k3 a3 a4 a5) (t1 : TanOK k1 a2) (t2 : TanOK k3 a5)
    (_h : spatial_equal.eval k0 k1 k2 k3 a0 a1 a2 a3 a4 a5) :
    spatial_equal.evalDom k0 k1 k2 k3 a0 a1 a2 a3 a4 a5 := by
  obtain ⟨⟨z1, z2⟩, e1, e2⟩ := cmp_operands k0 k1 k2 k3 a0 a1 a2 a3 a4 a5 c1.2 c2.2 t1 t2
  cases k0 <;> cases k2 <;> cases k1 <;> cases k3 <;>
    simp only [spatial_z.evalDom, EtaOfTheta, spatial_eta.evalDom] at z1 z2 e1 e2 <;>
    simp only [dd_spatial_equal] <;> trivial

theorem dom_spatial_not_equal (k0 : Az) (k1 : Lon) (k2 : Az) (k3 : Lon) (a0 a1 a2 a3 a4 a5 : ℝ)
    (c1 : Canon3 k0 k1 a0 a1 a2) (c2 : Canon3 k2 k3 a3 a4 a5) (t1 : TanOK k1 a2) (t2 : TanOK k3 a5)
    (_h : ¬ cart3 k0 k1 a0 a1 a2 = cart3 k2 k3 a3 a4 a5) :
    spatial_not_equal.evalDom k0 k1 k2 k3 a0 a1 a2 a3 a4 a5 := by
  obtain ⟨⟨z1, z2⟩, e1, e2⟩ := cmp_operands k0 k1 k2 k3 a0 a1 a2 a3 a4 a5 c1.2 c2.2 t1 t2
  cases k0 <;> cases k2 <;> cases k1 <;> cases k3 <;>
    simp only [spatial_z.evalDom, EtaOfTheta, spatial_eta.evalDom] at z1 z2 e1 e2 <;>
    simp only [dd_spatial_not_equal] <;> trivial

example : Canon3 .rhophi .theta 2 1 1 ∧ Canon3 .xy .eta 3 4 0 ∧ TanOK .theta 1 ∧ TanOK .eta 0 := by
  have h : 0 < rhoOf .xy 3 4 := L.sqrt_sumsq_pos (Or.inl (by norm_num))
  refine ⟨⟨by norm_num [Canon2], ⟨by norm_num [rhoOf], one_pos, by linarith [two_le_pi]⟩⟩, ⟨trivial, h⟩,
    ne_of_gt cos_one_pos, trivial⟩

/-- `isclose` between operands of the SAME coordinate system (the setting of `c12_spatial_isclose_same` / `_refl`) compares
the stored coordinates: no partial primitive at all -/
theorem dom_spatial_isclose_same (k0 : Az) (k1 : Lon) (r t e a0 a1 a2 b0 b1 b2 : ℝ) :
    spatial_isclose.evalDom k0 k1 k0 k1 r t e a0 a1 a2 b0 b1 b2 := by
  induction k0 <;> induction k1 <;> simp only [dd_spatial_isclose]

/-- EXTRA HYPOTHESIS: `c1`, `c2`, `t1`, `t2` (those of `refine_spatial_equal`).  The `c12_spatial_isclose_of_eq` / `_mono` /
`c08_spatial_isclose_iff_equal` theorems are stated for all 36 key pairs with NO hypothesis on the operands (they are
propositional consequences of the definitions), but the mixed keys convert a θ operand with `ρ / tan θ` (θ against `z`:
needs `cos θ ≠ 0`, `sin θ ≠ 0`) or `-log tan (θ/2)` (θ against η: needs `0 < θ < π`). -/
theorem dom_spatial_isclose_partial (k0 : Az) (k1 : Lon) (k2 : Az) (k3 : Lon) (r t e a0 a1 a2 a3 a4 a5 : ℝ)
    (c1 : Canon3 k0 k1 a0 a1 a2) (c2 : Canon3 k2 k3 a3 a4 a5) (t1 : TanOK k1 a2) (t2 : TanOK k3 a5) :
    spatial_isclose.evalDom k0 k1 k2 k3 r t e a0 a1 a2 a3 a4 a5 := by
  obtain ⟨⟨z1, z2⟩, e1, e2⟩ := cmp_operands k0 k1 k2 k3 a0 a1 a2 a3 a4 a5 c1.2 c2.2 t1 t2
  cases k0 <;> cases k2 <;> cases k1 <;> cases k3 <;>
    simp only [spatial_z.evalDom, EtaOfTheta, spatial_eta.evalDom] at z1 z2 e1 e2 <;>
    simp only [dd_spatial_isclose] <;> trivial

/-! ### is_parallel, is_antiparallel, is_perpendicular

`dot` against `|tol|`-scaled `mag · mag` (no division): regular wherever `dot` and both `mag` are. -/

/-- EXTRA HYPOTHESIS: `h1`, `h2`, `hs1`, `hs2`, `he` (all of them: `c13_spatial_is_parallel_iff` is a definitional unfolding
with no hypothesis).  θ operands need `cos θ ≠ 0` and `sin θ ≠ 0` (`ρ / tan θ` in `dot`, `ρ / |sin θ|` in `mag`); the keys
`rhophi_eta_rhophi_theta` / `rhophi_theta_rhophi_eta` need `η ≠ 0` (inherited from `dot`). -/
theorem dom_spatial_is_parallel_partial (k0 : Az) (k1 : Lon) (k2 : Az) (k3 : Lon) (tol a0 a1 a2 b0 b1 b2 : ℝ)
    (h1 : TanOK k1 a2) (h2 : TanOK k3 b2) (hs1 : SinOK k1 a2) (hs2 : SinOK k3 b2) (he : DotEtaOK k0 k1 k2 k3 a2 b2) :
    spatial_is_parallel.evalDom k0 k1 k2 k3 tol a0 a1 a2 b0 b1 b2 := by
  have m1 := dom_spatial_mag_operand k0 k1 a0 a1 a2 hs1
  have m2 := dom_spatial_mag_operand k2 k3 b0 b1 b2 hs2
  have dd := dom_spatial_dot_partial k0 k1 k2 k3 a0 a1 a2 b0 b1 b2 h1 h2 hs1 hs2 he
  cases k0 <;> cases k2 <;> cases k1 <;> cases k3 <;>
    simp only [spatial_mag.evalDom, spatial_dot.evalDom] at m1 m2 dd <;>
    simp only [dd_spatial_is_parallel] <;>
    first
      | exact ⟨dd, m1, m2⟩
      | exact ⟨m1, m2⟩

/-- EXTRA HYPOTHESIS: as for `dom_spatial_is_parallel_partial` -/
theorem dom_spatial_is_antiparallel_partial (k0 : Az) (k1 : Lon) (k2 : Az) (k3 : Lon) (tol a0 a1 a2 b0 b1 b2 : ℝ)
    (h1 : TanOK k1 a2) (h2 : TanOK k3 b2) (hs1 : SinOK k1 a2) (hs2 : SinOK k3 b2) (he : DotEtaOK k0 k1 k2 k3 a2 b2) :
    spatial_is_antiparallel.evalDom k0 k1 k2 k3 tol a0 a1 a2 b0 b1 b2 := by
  have m1 := dom_spatial_mag_operand k0 k1 a0 a1 a2 hs1
  have m2 := dom_spatial_mag_operand k2 k3 b0 b1 b2 hs2
  have dd := dom_spatial_dot_partial k0 k1 k2 k3 a0 a1 a2 b0 b1 b2 h1 h2 hs1 hs2 he
  cases k0 <;> cases k2 <;> cases k1 <;> cases k3 <;>
    simp only [spatial_mag.evalDom, spatial_dot.evalDom] at m1 m2 dd <;>
    simp only [dd_spatial_is_antiparallel] <;>
    first
      | exact ⟨dd, m1, m2⟩
      | exact ⟨m1, m2⟩

/-- EXTRA HYPOTHESIS: as for `dom_spatial_is_parallel_partial` -/
theorem dom_spatial_is_perpendicular_partial (k0 : Az) (k1 : Lon) (k2 : Az) (k3 : Lon) (tol a0 a1 a2 b0 b1 b2 : ℝ)
    (h1 : TanOK k1 a2) (h2 : TanOK k3 b2) (hs1 : SinOK k1 a2) (hs2 : SinOK k3 b2) (he : DotEtaOK k0 k1 k2 k3 a2 b2) :
    spatial_is_perpendicular.evalDom k0 k1 k2 k3 tol a0 a1 a2 b0 b1 b2 := by
  have m1 := dom_spatial_mag_operand k0 k1 a0 a1 a2 hs1
  have m2 := dom_spatial_mag_operand k2 k3 b0 b1 b2 hs2
  have dd := dom_spatial_dot_partial k0 k1 k2 k3 a0 a1 a2 b0 b1 b2 h1 h2 hs1 hs2 he
  cases k0 <;> cases k2 <;> cases k1 <;> cases k3 <;>
    simp only [spatial_mag.evalDom, spatial_dot.evalDom] at m1 m2 dd <;>
    simp only [dd_spatial_is_perpendicular] <;>
    first
      | exact ⟨dd, m1, m2⟩
      | exact ⟨m1, m2⟩

example : TanOK .theta 1 ∧ TanOK .eta 2 ∧ SinOK .theta 1 ∧ SinOK .eta 2 ∧ DotEtaOK .rhophi .theta .rhophi .eta 1 2 :=
  ⟨ne_of_gt cos_one_pos, trivial, (sin_pos_of_pos_of_lt_pi one_pos (by linarith [two_le_pi])).ne', trivial,
    two_ne_zero⟩

/-! ### add / subtract

31 keys convert the operands to `x, y, z` (only `spatial_z` is partial); the 5 same-system keys re-encode the longitudinal
coordinate of the sum (`spatial_theta.*_z`, `spatial_eta.*_z`), regular because the result is off the z axis
(`Representable3`). -/

private theorem theta_xy_z_dom (x y z : ℝ) (h : 0 < x ^ 2 + y ^ 2) : spatial_theta.xy_z.Dom x y z := by
  simp only [dd_spatial_theta, dd_spatial_costheta, dd_spatial_mag, d_spatial_costheta, d_spatial_mag, d_spatial_mag2,
    P.nanToNum_eq]
  have hm : sqrt (x ^ 2 + y ^ 2 + z ^ 2) ≠ 0 := (Real.sqrt_pos.mpr (by positivity)).ne'
  exact ⟨⟨by positivity, hm⟩, D.ratio_mem h.le hm⟩

private theorem theta_rhophi_z_dom (r p z : ℝ) (h : 0 < r) : spatial_theta.rhophi_z.Dom r p z := by
  simp only [dd_spatial_theta, dd_spatial_costheta, dd_spatial_mag, d_spatial_costheta, d_spatial_mag, d_spatial_mag2,
    P.nanToNum_eq]
  have hm : sqrt (r ^ 2 + z ^ 2) ≠ 0 := (Real.sqrt_pos.mpr (by positivity)).ne'
  exact ⟨⟨by positivity, hm⟩, D.ratio_mem (sq_nonneg r) hm⟩

private theorem eta_xy_z_dom (x y z : ℝ) (h : 0 < x ^ 2 + y ^ 2) : spatial_eta.xy_z.Dom x y z := by
  simp only [dd_spatial_eta]
  exact ⟨h.le, (Real.sqrt_pos.mpr h).ne'⟩

private theorem eta_rhophi_z_dom (r p z : ℝ) (h : 0 < r) : spatial_eta.rhophi_z.Dom r p z := by
  simp only [dd_spatial_eta]
  exact h.ne'

private theorem polar_pos' {r p X Y : ℝ} (h0 : 0 ≤ r) (hx : r * cos p = X) (hy : r * sin p = Y)
    (h : 0 < X ^ 2 + Y ^ 2) : 0 < r := by
  rcases h0.lt_or_eq with h0 | h0
  · exact h0
  · subst h0; rw [← hx, ← hy] at h; simp at h

/-- the polar sum is regular, and off the origin when the exact sum is -/
private theorem padd_polar_dom (r1 p1 r2 p2 : ℝ) :
    planar_add.rhophi_rhophi.Dom r1 p1 r2 p2 ∧
    (0 < (r1 * cos p1 + r2 * cos p2) ^ 2 + (r1 * sin p1 + r2 * sin p2) ^ 2 →
      0 < (planar_add.rhophi_rhophi r1 p1 r2 p2).1) := by
  refine ⟨?_, fun hpos => ?_⟩
  · simp only [dd_planar_add]
    exact ⟨by positivity, D.two_pi_ne_zero⟩
  · have h := refine_planar_add .rhophi .rhophi r1 p1 r2 p2
    simp only [planar_add.eval, planar_add.ret, interp2, retAz, Option.map, add2, cart2, xOf, yOf, Option.some.injEq,
      Prod.mk.injEq] at h
    exact polar_pos' (Real.sqrt_nonneg _) h.1 h.2 hpos

private theorem psub_polar_dom (r1 p1 r2 p2 : ℝ) :
    planar_subtract.rhophi_rhophi.Dom r1 p1 r2 p2 ∧
    (0 < (r1 * cos p1 - r2 * cos p2) ^ 2 + (r1 * sin p1 - r2 * sin p2) ^ 2 →
      0 < (planar_subtract.rhophi_rhophi r1 p1 r2 p2).1) := by
  refine ⟨?_, fun hpos => ?_⟩
  · simp only [dd_planar_subtract]
    exact ⟨by positivity, D.two_pi_ne_zero⟩
  · have h := refine_planar_subtract .rhophi .rhophi r1 p1 r2 p2
    simp only [planar_subtract.eval, planar_subtract.ret, interp2, retAz, Option.map, sub2, cart2, xOf, yOf,
      Option.some.injEq, Prod.mk.injEq] at h
    exact polar_pos' (Real.sqrt_nonneg _) h.1 h.2 hpos

/-- EXTRA HYPOTHESIS: `hs1`/`hs2` (`sin θ ≠ 0` for every θ operand, all 20 keys with a θ operand: the converter computes
`ρ / tan θ`; `refine_spatial_add` assumes only `TanOK`, and holds at `θ = 0, π` through Lean's `1 / 0 = 0`). -/
theorem dom_spatial_add_partial (k0 : Az) (k1 : Lon) (k2 : Az) (k3 : Lon) (a0 a1 a2 a3 a4 a5 : ℝ)
    (h1 : TanOK k1 a2) (h2 : TanOK k3 a5)
    (hrep : Representable3 (spatial_add.ret k0 k1 k2 k3) (add3 (cart3 k0 k1 a0 a1 a2) (cart3 k2 k3 a3 a4 a5)))
    (hs1 : SinOK k1 a2) (hs2 : SinOK k3 a5) :
    spatial_add.evalDom k0 k1 k2 k3 a0 a1 a2 a3 a4 a5 := by
  have z1 := dom_spatial_z_operand k0 k1 a0 a1 a2 h1 hs1
  have z2 := dom_spatial_z_operand k2 k3 a3 a4 a5 h2 hs2
  cases k0 <;> cases k2 <;> cases k1 <;> cases k3 <;> simp only [spatial_z.evalDom] at z1 z2 <;>
    simp only [dd_spatial_add]
  all_goals try trivial
  all_goals simp only [Representable3, spatial_add.ret, retLon, add3, cart3, xOf, yOf, Option.some.injEq, reduceCtorEq,
    false_or] at hrep
  · exact ⟨z1, z2, theta_xy_z_dom _ _ _ hrep⟩
  · exact ⟨z1, z2, eta_xy_z_dom _ _ _ hrep⟩
  · exact (padd_polar_dom a0 a1 a3 a4).1
  · obtain ⟨hd, hp⟩ := padd_polar_dom a0 a1 a3 a4
    exact ⟨hd, z1, z2, theta_rhophi_z_dom _ _ _ (hp hrep)⟩
  · obtain ⟨hd, hp⟩ := padd_polar_dom a0 a1 a3 a4
    exact ⟨hd, eta_rhophi_z_dom _ _ _ (hp hrep)⟩

/-- EXTRA HYPOTHESIS: `hs1`/`hs2`, as for `dom_spatial_add_partial` -/
theorem dom_spatial_subtract_partial (k0 : Az) (k1 : Lon) (k2 : Az) (k3 : Lon) (a0 a1 a2 a3 a4 a5 : ℝ)
    (h1 : TanOK k1 a2) (h2 : TanOK k3 a5)
    (hrep : Representable3 (spatial_subtract.ret k0 k1 k2 k3) (sub3 (cart3 k0 k1 a0 a1 a2) (cart3 k2 k3 a3 a4 a5)))
    (hs1 : SinOK k1 a2) (hs2 : SinOK k3 a5) :
    spatial_subtract.evalDom k0 k1 k2 k3 a0 a1 a2 a3 a4 a5 := by
  have z1 := dom_spatial_z_operand k0 k1 a0 a1 a2 h1 hs1
  have z2 := dom_spatial_z_operand k2 k3 a3 a4 a5 h2 hs2
  cases k0 <;> cases k2 <;> cases k1 <;> cases k3 <;> simp only [spatial_z.evalDom] at z1 z2 <;>
    simp only [dd_spatial_subtract]
  all_goals try trivial
  all_goals simp only [Representable3, spatial_subtract.ret, retLon, sub3, cart3, xOf, yOf, Option.some.injEq,
    reduceCtorEq, false_or] at hrep
  · exact ⟨z1, z2, theta_xy_z_dom _ _ _ hrep⟩
  · exact ⟨z1, z2, eta_xy_z_dom _ _ _ hrep⟩
  · exact (psub_polar_dom a0 a1 a3 a4).1
  · obtain ⟨hd, hp⟩ := psub_polar_dom a0 a1 a3 a4
    exact ⟨hd, z1, z2, theta_rhophi_z_dom _ _ _ (hp hrep)⟩
  · obtain ⟨hd, hp⟩ := psub_polar_dom a0 a1 a3 a4
    exact ⟨hd, eta_rhophi_z_dom _ _ _ (hp hrep)⟩

example : TanOK .theta 1 ∧ SinOK .theta 1 ∧ Representable3 (spatial_add.ret .xy .theta .xy .theta)
    (add3 (cart3 .xy .theta 1 0 1) (cart3 .xy .theta 1 0 1)) :=
  ⟨ne_of_gt cos_one_pos, (sin_pos_of_pos_of_lt_pi one_pos (by linarith [two_le_pi])).ne',
    Or.inr (by norm_num [add3, cart3, xOf, yOf])⟩

/-! ### the EXTRA HYPOTHESES are necessary: inputs satisfying the refinement hypotheses at which the code is singular -/

/-- `θ = 0` satisfies `TanOK` (`cos 0 = 1`) but `ρ / tan 0` divides by zero (real code: `dot = inf`; `refine_spatial_dot`
claims `1`) -/
theorem dom_spatial_dot_needs_sinOK :
    TanOK .theta 0 ∧ TanOK .z 1 ∧ ¬ spatial_dot.evalDom .xy .theta .xy .z 1 0 0 1 0 1 := by
  refine ⟨by simp [TanOK], trivial, ?_⟩
  simp only [dd_spatial_dot, dd_spatial_z]
  intro h
  exact h.2.2 Real.tan_zero

/-- `η = 0` against a θ operand in polar azimuth: `tan (2 arctan e^0) = tan (π/2)` (real code: finite, because the float
nearest to `π/2` has a finite tangent; removable, like `TanOK`) -/
theorem dom_spatial_dot_needs_etaOK :
    TanOK .eta 0 ∧ TanOK .theta 1 ∧ SinOK .theta 1 ∧ ¬ spatial_dot.evalDom .rhophi .eta .rhophi .theta 1 0 0 1 0 1 := by
  refine ⟨trivial, ne_of_gt cos_one_pos, (sin_pos_of_pos_of_lt_pi one_pos (by linarith [two_le_pi])).ne', ?_⟩
  simp only [dd_spatial_dot, d_spatial_theta]
  intro h
  apply h.1
  have e : (2.0 : ℝ) * arctan (exp (-0)) = π / 2 := by
    have h2 : (2.0 : ℝ) = 2 := by norm_num
    rw [h2, neg_zero, Real.exp_zero, Real.arctan_one]; ring
  rw [e, Real.cos_pi_div_two]

/-- a zero operand satisfies every hypothesis of `refine_spatial_deltaangle` but `dot / |p₁|` divides by zero (real code:
`nan`; the refinement theorem claims `arccos 0 = π/2`) -/
theorem dom_spatial_deltaangle_needs_nonzero :
    Canon2 .xy 0 0 ∧ TanOK .z 0 ∧ ¬ spatial_deltaangle.evalDom .xy .z .xy .z 0 0 0 1 0 0 := by
  refine ⟨trivial, trivial, ?_⟩
  simp only [dd_spatial_deltaangle, d_spatial_mag, d_spatial_mag2]
  intro h
  apply h.2.2.1
  norm_num

end VR
