/-
Regularity ("Dom") theorems, shared lemmas and two worked examples.

For every compute function `f` the translator generates `f.Dom args : Prop` (Gen/Dom): the conjunction of the
side-conditions of every partial primitive application in `f` and its callees (`b ≠ 0` for `a / b`, `0 ≤ a` for `sqrt a`,
`cos a ≠ 0` for `tan a`, `0 < a` for `log a`, `-1 ≤ a ≤ 1` for `arccos a`, `0 < a` for `a ** -0.5`).  The theorems
`dom_<module>` state that under the SAME hypotheses as the refinement theorem `refine_<module>` the variant found under
EVERY key is regular: no IEEE exceptional value arises in exact arithmetic and none of Lean's totalised values
(`x / 0 = 0`, `√(-1) = 0`, `log 0 = 0`, `arccos 2 = 0`) is ever consulted by the refinement proofs.
-/
import VectorModel.Gen.Dom.All
import VectorModel.Spec.Basic
import VectorModel.Refine.SpatialAcc

namespace VR
open VK Spec Real

namespace D

theorem sqrt_ne_zero_of_rhoOf_xy {a b : ℝ} (h : 0 < rhoOf .xy a b) : sqrt (a ^ 2 + b ^ 2) ≠ 0 := h.ne'
theorem sumsq_pos_of_rhoOf_xy {a b : ℝ} (h : 0 < rhoOf .xy a b) : 0 < a ^ 2 + b ^ 2 := Real.sqrt_pos.mp h
theorem sumsq_nonneg (a b : ℝ) : 0 ≤ a ^ 2 + b ^ 2 := by positivity
theorem sumsq3_nonneg (a b c : ℝ) : 0 ≤ a ^ 2 + b ^ 2 + c ^ 2 := by positivity

/-- `0 < θ < π` puts `θ/2` strictly inside the first quadrant -/
theorem cos_half_pos {c : ℝ} (h0 : 0 < c) (h1 : c < π) : 0 < cos (0.5 * c) :=
  Real.cos_pos_of_mem_Ioo ⟨by linarith [Real.pi_pos], by linarith⟩
theorem sin_half_pos {c : ℝ} (h0 : 0 < c) (h1 : c < π) : 0 < sin (0.5 * c) :=
  Real.sin_pos_of_pos_of_lt_pi (by linarith) (by linarith [Real.pi_pos])
theorem tan_half_pos {c : ℝ} (h0 : 0 < c) (h1 : c < π) : 0 < tan (0.5 * c) := by
  rw [Real.tan_eq_sin_div_cos]; exact div_pos (sin_half_pos h0 h1) (cos_half_pos h0 h1)

end D

/-! ### worked examples -/

theorem dom_planar_unit (k : Az) (a b : ℝ) (h : 0 < rhoOf k a b) : planar_unit.evalDom k a b := by
  cases k
  · simp only [dd_planar_unit, dd_planar_rho, d_planar_rho, d_planar_rho2]
    exact ⟨D.sumsq_nonneg a b, D.sqrt_ne_zero_of_rhoOf_xy h⟩
  · trivial

/-- `eta` is regular off the z axis (`CanonLon` supplies `0 < ρ` for θ/η storage, `hr` for z storage) -/
theorem dom_spatial_eta (k0 : Az) (k1 : Lon) (a b c : ℝ) (h : CanonLon k0 k1 a b c) (hr : 0 < rhoOf k0 a b) :
    spatial_eta.evalDom k0 k1 a b c := by
  cases k0 <;> cases k1 <;> simp only [dd_spatial_eta]
  · exact ⟨D.sumsq_nonneg a b, D.sqrt_ne_zero_of_rhoOf_xy hr⟩
  · exact ⟨(D.cos_half_pos h.2.1 h.2.2).ne', D.tan_half_pos h.2.1 h.2.2⟩
  · exact (show (0:ℝ) < a from hr).ne'
  · exact ⟨(D.cos_half_pos h.2.1 h.2.2).ne', D.tan_half_pos h.2.1 h.2.2⟩

example : CanonLon .rhophi .theta 2 1 1 ∧ 0 < rhoOf .rhophi 2 1 :=
  ⟨⟨by norm_num [rhoOf], by norm_num, by linarith [Real.one_le_pi_div_two]⟩, by norm_num [rhoOf]⟩

end VR
