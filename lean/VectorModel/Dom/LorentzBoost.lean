/-
Regularity ("Dom") theorems for the Lorentz boosts:
`boostX/Y/Z_beta`, `boostX/Y/Z_gamma` (12 keys each), `boost_beta3` (72 keys), `boost_p4` (144 keys).

Hypotheses are those of the C01 + C02 refinement theorems `refine_lorentz_boost…_spec` of `Refine/LorentzBin.lean`
(the relational C01 theorems `refine_lorentz_boost…` compare two evaluations of the same code and carry no condition on
the boost parameter at all).  The compute layer returns the boosted vector in CARTESIAN spatial components (`x, y, z`
plus `t`, or the stored `tau`), so no side-condition on the boosted vector arises here.

Findings (see the `…_partial` theorems): `refine_lorentz_boost_beta3_spec` has no `SinOK` for either operand and
`refine_lorentz_boost_p4_spec` none for the FIRST operand, although a θ-stored operand is converted by `z = ρ / tan θ`,
which divides by zero at `θ = 0, π` (where `TanOK`, i.e. `cos θ ≠ 0`, holds).
-/
import VectorModel.Dom.Basic
import VectorModel.Refine.LorentzBin
import Mathlib.Tactic.Positivity
import Mathlib.Tactic.Linarith

namespace VR
open VK Spec Real

namespace D

theorem one_sub_sq_pos {β : ℝ} (h : |β| < 1) : 0 < 1 - β ^ 2 := by
  have h0 := abs_nonneg β
  have : β ^ 2 < 1 := by rw [← sq_abs]; nlinarith
  linarith

theorem abs_sq_sub_one_nonneg {γ : ℝ} (h : 1 ≤ |γ|) : 0 ≤ |γ| ^ 2 - 1 := by nlinarith

/-- `spatial_z` is regular when `cos θ ≠ 0` (the code takes `tan θ`) and `sin θ ≠ 0` (it divides by `tan θ`) -/
theorem spatial_z_dom (k0 : Az) (k1 : Lon) (a b c : ℝ) (h : TanOK k1 c) (hs : SinOK k1 c) :
    spatial_z.evalDom k0 k1 a b c := by
  cases k0 <;> cases k1 <;> simp only [dd_spatial_z, dd_planar_rho, d_planar_rho2]
  · exact ⟨sumsq_nonneg a b, h, by rw [Real.tan_eq_sin_div_cos]; exact div_ne_zero hs h⟩
  · exact sumsq_nonneg a b
  · exact ⟨h, by rw [Real.tan_eq_sin_div_cos]; exact div_ne_zero hs h⟩

/-- `spatial_mag2` is regular when `sin θ ≠ 0` -/
theorem spatial_mag2_dom (k0 : Az) (k1 : Lon) (a b c : ℝ) (hs : SinOK k1 c) :
    spatial_mag2.evalDom k0 k1 a b c := by
  cases k0 <;> cases k1 <;> simp only [dd_spatial_mag2]
  · exact pow_ne_zero 2 hs
  · exact (Real.exp_pos _).ne'
  · exact pow_ne_zero 2 hs
  · exact (Real.exp_pos _).ne'

/-- `lorentz_t` is regular when `sin θ ≠ 0` (the radicand is clamped by `maximum(·, 0)`) -/
theorem lorentz_t_dom (k0 : Az) (k1 : Lon) (k2 : Tmp) (a b c d : ℝ) (hs : SinOK k1 c) :
    lorentz_t.evalDom k0 k1 k2 a b c d := by
  have hm := spatial_mag2_dom k0 k1 a b c hs
  cases k0 <;> cases k1 <;> cases k2 <;> simp only [spatial_mag2.evalDom] at hm <;>
    simp only [dd_lorentz_t, dd_lorentz_t2, d_lorentz_t2] <;>
    first
      | trivial
      | exact le_max_right _ _
      | exact ⟨hm, le_max_right _ _⟩

/-- squared length of the Cartesian components computed by the code = `mag2Of` of the storage -/
theorem cart_sumsq (k0 : Az) (k1 : Lon) (a b c : ℝ) (h : TanOK k1 c) :
    planar_x.eval k0 a b ^ 2 + planar_y.eval k0 a b ^ 2 + spatial_z.eval k0 k1 a b c ^ 2 = mag2Of k0 k1 a b c := by
  rw [refine_planar_x, refine_planar_y, refine_spatial_z k0 k1 a b c h]; rfl

theorem tOf_tau_sq (k0 : Az) (k1 : Lon) (a b c d : ℝ) : tOf k0 k1 .tau a b c d ^ 2 - mag2Of k0 k1 a b c = d ^ 2 := by
  have h0 : 0 ≤ mag2Of k0 k1 a b c := by unfold mag2Of; positivity
  have : tOf k0 k1 .tau a b c d = sqrt (d ^ 2 + mag2Of k0 k1 a b c) := by cases k0 <;> cases k1 <;> rfl
  rw [this, sq_sqrt (by positivity)]; ring

/-- `lorentz_t.xy_z_tau` takes the square root of a quantity clamped by `maximum(·, 0)` -/
theorem transform4D_cartesian_tau_dom (xx xy xz xt yx yy yz yt zx zy zz zt x y z tau : ℝ) :
    lorentz_transform4D.cartesian_tau.Dom xx xy xz xt yx yy yz yt zx zy zz zt x y z tau := by
  simp only [lorentz_transform4D.cartesian_tau.Dom, lorentz_t.xy_z_tau.Dom, lorentz_t2.xy_z_tau]
  exact le_max_right _ _

/-- the kernel of `boost_beta3` is regular for a subluminal velocity: `√(1 − β²) > 0`, `1 + γ > 0` -/
theorem beta3_core_t (x1 y1 z1 t1 bx by' bz : ℝ) (h : bx ^ 2 + by' ^ 2 + bz ^ 2 < 1) :
    lorentz_boost_beta3.cartesian_t.Dom x1 y1 z1 t1 bx by' bz := by
  have hp : 0 < 1 - (bx ^ 2 + by' ^ 2 + bz ^ 2) := by linarith
  have hs := Real.sqrt_pos.mpr hp
  simp only [lorentz_boost_beta3.cartesian_t.Dom]
  exact ⟨hp.le, hs.ne', by positivity⟩

theorem beta3_core_tau (x1 y1 z1 tau1 bx by' bz : ℝ) (h : bx ^ 2 + by' ^ 2 + bz ^ 2 < 1) :
    lorentz_boost_beta3.cartesian_tau.Dom x1 y1 z1 tau1 bx by' bz := by
  have hp : 0 < 1 - (bx ^ 2 + by' ^ 2 + bz ^ 2) := by linarith
  have hs := Real.sqrt_pos.mpr hp
  simp only [lorentz_boost_beta3.cartesian_tau.Dom]
  exact ⟨hp.le, hs.ne', by positivity, transform4D_cartesian_tau_dom _ _ _ _ _ _ _ _ _ _ _ _ _ _ _ _⟩

/-- the kernel of `boost_p4` is regular for a booster with positive mass and non-negative energy:
`mass ≠ 0`, `mass² (γ + 1) ≠ 0` -/
theorem p4_core_t (x1 y1 z1 t1 E m m2 x2 y2 z2 : ℝ) (hm : 0 < m) (hm2 : 0 < m2) (hE : 0 ≤ E) :
    lorentz_boost_p4.cartesian_t.Dom x1 y1 z1 t1 E m m2 x2 y2 z2 := by
  have hg : 0 ≤ E / m := div_nonneg hE hm.le
  simp only [lorentz_boost_p4.cartesian_t.Dom]
  exact ⟨hm.ne', mul_ne_zero hm2.ne' (by linarith)⟩

theorem p4_core_tau (x1 y1 z1 tau1 E m m2 x2 y2 z2 : ℝ) (hm : 0 < m) (hm2 : 0 < m2) (hE : 0 ≤ E) :
    lorentz_boost_p4.cartesian_tau.Dom x1 y1 z1 tau1 E m m2 x2 y2 z2 := by
  have hg : 0 ≤ E / m := div_nonneg hE hm.le
  simp only [lorentz_boost_p4.cartesian_tau.Dom]
  exact ⟨hm.ne', mul_ne_zero hm2.ne' (by linarith), transform4D_cartesian_tau_dom _ _ _ _ _ _ _ _ _ _ _ _ _ _ _ _⟩

/-- `boost_beta3`, Cartesian first operand (12 keys) -/
theorem beta3_cart (k2 : Tmp) (k3 : Az) (k4 : Lon) (x1 y1 z1 d a4 a5 a6 : ℝ)
    (h2 : TanOK k4 a6) (hs2 : SinOK k4 a6) (hβ : mag2Of k3 k4 a4 a5 a6 < 1) :
    lorentz_boost_beta3.evalDom .xy .z k2 k3 k4 x1 y1 z1 d a4 a5 a6 := by
  have hZ := spatial_z_dom k3 k4 a4 a5 a6 h2 hs2
  rw [← cart_sumsq k3 k4 a4 a5 a6 h2] at hβ
  cases k2
  · have C := beta3_core_t x1 y1 z1 d _ _ _ hβ
    cases k3 <;> cases k4 <;> first | exact C | exact ⟨hZ, C⟩
  · have C := beta3_core_tau x1 y1 z1 d _ _ _ hβ
    cases k3 <;> cases k4 <;> first | exact C | exact ⟨hZ, C⟩

/-- `boost_p4`, Cartesian first operand (24 keys) -/
theorem p4_cart (k2 : Tmp) (k3 : Az) (k4 : Lon) (k5 : Tmp) (x1 y1 z1 d a4 a5 a6 a7 : ℝ)
    (h2 : TanOK k4 a6) (hs2 : SinOK k4 a6) (hd2 : CanonTmp k5 a7)
    (hm : 0 < tOf k3 k4 k5 a4 a5 a6 a7 ^ 2 - mag2Of k3 k4 a4 a5 a6) (ht : 0 < tOf k3 k4 k5 a4 a5 a6 a7) :
    lorentz_boost_p4.evalDom .xy .z k2 k3 k4 k5 x1 y1 z1 d a4 a5 a6 a7 := by
  have hM := spatial_mag2_dom k3 k4 a4 a5 a6 hs2
  have hZ := spatial_z_dom k3 k4 a4 a5 a6 h2 hs2
  have hmag := refine_spatial_mag2 k3 k4 a4 a5 a6 hs2
  have hmag0 : 0 ≤ spatial_mag2.eval k3 k4 a4 a5 a6 := by rw [hmag]; unfold mag2Of; positivity
  cases k5
  · rw [tOf_t] at hm ht
    rw [← hmag] at hm
    have hA := hm.le
    have hs := Real.sqrt_pos.mpr hm
    cases k2
    · have C := fun x2 y2 z2 => p4_core_t x1 y1 z1 d a7 _ _ x2 y2 z2 hs hm ht.le
      cases k3 <;> cases k4 <;> first | exact ⟨hA, C _ _ _⟩ | exact ⟨hM, hA, C _ _ _⟩ | exact ⟨hM, hA, hZ, C _ _ _⟩
    · have C := fun x2 y2 z2 => p4_core_tau x1 y1 z1 d a7 _ _ x2 y2 z2 hs hm ht.le
      cases k3 <;> cases k4 <;> first | exact ⟨hA, C _ _ _⟩ | exact ⟨hM, hA, C _ _ _⟩ | exact ⟨hM, hA, hZ, C _ _ _⟩
  · rw [tOf_tau_sq] at hm
    have h7 : 0 < a7 := lt_of_le_of_ne hd2 (fun h => by rw [← h] at hm; norm_num at hm)
    have hA : 0 ≤ a7 ^ 2 + spatial_mag2.eval k3 k4 a4 a5 a6 := by positivity
    have hE := Real.sqrt_nonneg (a7 ^ 2 + spatial_mag2.eval k3 k4 a4 a5 a6)
    cases k2
    · have C := fun x2 y2 z2 => p4_core_t x1 y1 z1 d _ a7 _ x2 y2 z2 h7 hm hE
      cases k3 <;> cases k4 <;> first | exact ⟨hA, C _ _ _⟩ | exact ⟨hM, hA, C _ _ _⟩ | exact ⟨hM, hA, hZ, C _ _ _⟩
    · have C := fun x2 y2 z2 => p4_core_tau x1 y1 z1 d _ a7 _ x2 y2 z2 h7 hm hE
      cases k3 <;> cases k4 <;> first | exact ⟨hA, C _ _ _⟩ | exact ⟨hM, hA, C _ _ _⟩ | exact ⟨hM, hA, hZ, C _ _ _⟩

end D

/-! ### boosts along a coordinate axis (hypotheses of `refine_lorentz_boost{X,Y,Z}_{beta,gamma}_spec`) -/

theorem dom_lorentz_boostX_beta (k0 : Az) (k1 : Lon) (k2 : Tmp) (β a b c d : ℝ)
    (h : TanOK k1 c) (hs : SinOK k1 c) (_hd : CanonTmp k2 d) (hβ : |β| < 1) :
    lorentz_boostX_beta.evalDom k0 k1 k2 β a b c d := by
  have hb := D.one_sub_sq_pos hβ
  have hz := D.spatial_z_dom k0 k1 a b c h hs
  have hT := D.lorentz_t_dom k0 k1 k2 a b c d hs
  cases k0 <;> cases k1 <;> cases k2 <;> simp only [dd_lorentz_boostX_beta] <;>
    first | exact hb | exact ⟨hb, hz⟩ | exact ⟨hb, hT⟩ | exact ⟨hb, hz, hT⟩

theorem dom_lorentz_boostY_beta (k0 : Az) (k1 : Lon) (k2 : Tmp) (β a b c d : ℝ)
    (h : TanOK k1 c) (hs : SinOK k1 c) (_hd : CanonTmp k2 d) (hβ : |β| < 1) :
    lorentz_boostY_beta.evalDom k0 k1 k2 β a b c d := by
  have hb := D.one_sub_sq_pos hβ
  have hz := D.spatial_z_dom k0 k1 a b c h hs
  have hT := D.lorentz_t_dom k0 k1 k2 a b c d hs
  cases k0 <;> cases k1 <;> cases k2 <;> simp only [dd_lorentz_boostY_beta] <;>
    first | exact hb | exact ⟨hb, hz⟩ | exact ⟨hb, hT⟩ | exact ⟨hb, hz, hT⟩

theorem dom_lorentz_boostZ_beta (k0 : Az) (k1 : Lon) (k2 : Tmp) (β a b c d : ℝ)
    (h : TanOK k1 c) (hs : SinOK k1 c) (_hd : CanonTmp k2 d) (hβ : |β| < 1) :
    lorentz_boostZ_beta.evalDom k0 k1 k2 β a b c d := by
  have hb := D.one_sub_sq_pos hβ
  have hz := D.spatial_z_dom k0 k1 a b c h hs
  have hT := D.lorentz_t_dom k0 k1 k2 a b c d hs
  cases k0 <;> cases k1 <;> cases k2 <;> simp only [dd_lorentz_boostZ_beta] <;>
    first | exact hb | exact ⟨hb, hz⟩ | exact ⟨hb, hT⟩ | exact ⟨hb, hz, hT⟩

theorem dom_lorentz_boostX_gamma (k0 : Az) (k1 : Lon) (k2 : Tmp) (γ a b c d : ℝ)
    (h : TanOK k1 c) (hs : SinOK k1 c) (_hd : CanonTmp k2 d) (hγ : 1 ≤ |γ|) :
    lorentz_boostX_gamma.evalDom k0 k1 k2 γ a b c d := by
  have hb := D.abs_sq_sub_one_nonneg hγ
  have hz := D.spatial_z_dom k0 k1 a b c h hs
  have hT := D.lorentz_t_dom k0 k1 k2 a b c d hs
  cases k0 <;> cases k1 <;> cases k2 <;> simp only [dd_lorentz_boostX_gamma] <;>
    first | exact hb | exact ⟨hb, hz⟩ | exact ⟨hb, hT⟩ | exact ⟨hb, hz, hT⟩

theorem dom_lorentz_boostY_gamma (k0 : Az) (k1 : Lon) (k2 : Tmp) (γ a b c d : ℝ)
    (h : TanOK k1 c) (hs : SinOK k1 c) (_hd : CanonTmp k2 d) (hγ : 1 ≤ |γ|) :
    lorentz_boostY_gamma.evalDom k0 k1 k2 γ a b c d := by
  have hb := D.abs_sq_sub_one_nonneg hγ
  have hz := D.spatial_z_dom k0 k1 a b c h hs
  have hT := D.lorentz_t_dom k0 k1 k2 a b c d hs
  cases k0 <;> cases k1 <;> cases k2 <;> simp only [dd_lorentz_boostY_gamma] <;>
    first | exact hb | exact ⟨hb, hz⟩ | exact ⟨hb, hT⟩ | exact ⟨hb, hz, hT⟩

theorem dom_lorentz_boostZ_gamma (k0 : Az) (k1 : Lon) (k2 : Tmp) (γ a b c d : ℝ)
    (h : TanOK k1 c) (hs : SinOK k1 c) (_hd : CanonTmp k2 d) (hγ : 1 ≤ |γ|) :
    lorentz_boostZ_gamma.evalDom k0 k1 k2 γ a b c d := by
  have hb := D.abs_sq_sub_one_nonneg hγ
  have hz := D.spatial_z_dom k0 k1 a b c h hs
  have hT := D.lorentz_t_dom k0 k1 k2 a b c d hs
  cases k0 <;> cases k1 <;> cases k2 <;> simp only [dd_lorentz_boostZ_gamma] <;>
    first | exact hb | exact ⟨hb, hz⟩ | exact ⟨hb, hT⟩ | exact ⟨hb, hz, hT⟩

example : TanOK .theta 1 ∧ SinOK .theta 1 ∧ CanonTmp .tau 2 ∧ |(1 / 2 : ℝ)| < 1 ∧ (1 : ℝ) ≤ |(-2)| := by
  refine ⟨ne_of_gt cos_one_pos, (sin_pos_of_pos_of_lt_pi one_pos (by linarith [two_le_pi])).ne', ?_, ?_, ?_⟩
  · show (0 : ℝ) ≤ 2; norm_num
  · rw [abs_of_pos] <;> norm_num
  · rw [abs_of_neg] <;> norm_num

/-! ### boost_beta3 (72 keys) -/

/-- EXTRA HYPOTHESIS: `hs1 : SinOK k1 a2` and `hs2 : SinOK k4 a6` (`sin θ ≠ 0` for a θ-stored operand), which
`refine_lorentz_boost_beta3_spec` does not have.  Every key with `k1 = .theta` or `k4 = .theta` needs it: the operand is
converted by `spatial_z.*_theta`, `z = ρ / tan θ`, and `tan θ = 0` at `θ = 0, π` although `TanOK` (`cos θ ≠ 0`) holds.
See `dom_lorentz_boost_beta3_fails`. -/
theorem dom_lorentz_boost_beta3_partial (k0 : Az) (k1 : Lon) (k2 : Tmp) (k3 : Az) (k4 : Lon) (a0 a1 a2 a3 a4 a5 a6 : ℝ)
    (h1 : TanOK k1 a2) (h2 : TanOK k4 a6) (_hd : CanonTmp k2 a3) (hβ : mag2Of k3 k4 a4 a5 a6 < 1)
    (hs1 : SinOK k1 a2) (hs2 : SinOK k4 a6) :
    lorentz_boost_beta3.evalDom k0 k1 k2 k3 k4 a0 a1 a2 a3 a4 a5 a6 := by
  have hz1 := D.spatial_z_dom k0 k1 a0 a1 a2 h1 hs1
  have hB := D.beta3_cart k2 k3 k4 (planar_x.eval k0 a0 a1) (planar_y.eval k0 a0 a1) (spatial_z.eval k0 k1 a0 a1 a2) a3
    a4 a5 a6 h2 hs2 hβ
  cases k0 <;> cases k1 <;> cases k2 <;> cases k3 <;> cases k4 <;> first | exact ⟨hz1, hB⟩ | exact hB

/-- the hypotheses of `refine_lorentz_boost_beta3_spec` alone do not give regularity: at `(ρ, φ, θ, t) = (1, 0, 0, 5)`
boosted by `β = (1/2, 0, 0)` the code evaluates `1 / tan 0` -/
theorem dom_lorentz_boost_beta3_fails :
    TanOK .theta 0 ∧ TanOK .z 0 ∧ CanonTmp .t 5 ∧ mag2Of .xy .z (1 / 2) 0 0 < 1
      ∧ ¬ lorentz_boost_beta3.evalDom .rhophi .theta .t .xy .z 1 0 0 5 (1 / 2) 0 0 := by
  refine ⟨by simp [TanOK], trivial, trivial, by norm_num [mag2Of, xOf, yOf, zOf], ?_⟩
  intro h
  simp only [lorentz_boost_beta3.evalDom, lorentz_boost_beta3.k_rhophi_theta_t_xy_z.Dom, dd_spatial_z] at h
  exact h.1.2 Real.tan_zero

example : TanOK .theta 1 ∧ TanOK .eta 2 ∧ CanonTmp .tau 1 ∧ mag2Of .xy .z (1 / 2) 0 0 < 1 ∧ SinOK .theta 1 ∧ SinOK .eta 2 :=
  ⟨ne_of_gt cos_one_pos, trivial, by show (0 : ℝ) ≤ 1; norm_num, by norm_num [mag2Of, xOf, yOf, zOf],
    (sin_pos_of_pos_of_lt_pi one_pos (by linarith [two_le_pi])).ne', trivial⟩

/-! ### boost_p4 (144 keys) -/

/-- EXTRA HYPOTHESIS: `hs1 : SinOK k1 a2` (`sin θ ≠ 0` for a θ-stored FIRST operand), which
`refine_lorentz_boost_p4_spec` does not have (it has `SinOK` for the booster only).  Every key with `k1 = .theta` needs
it: the operand is converted by `z = ρ / tan θ`.  See `dom_lorentz_boost_p4_fails`. -/
theorem dom_lorentz_boost_p4_partial (k0 : Az) (k1 : Lon) (k2 : Tmp) (k3 : Az) (k4 : Lon) (k5 : Tmp)
    (a0 a1 a2 a3 a4 a5 a6 a7 : ℝ) (h1 : TanOK k1 a2) (h2 : TanOK k4 a6) (hs2 : SinOK k4 a6)
    (_hd1 : CanonTmp k2 a3) (hd2 : CanonTmp k5 a7)
    (hm : 0 < tOf k3 k4 k5 a4 a5 a6 a7 ^ 2 - mag2Of k3 k4 a4 a5 a6) (ht : 0 < tOf k3 k4 k5 a4 a5 a6 a7)
    (hs1 : SinOK k1 a2) :
    lorentz_boost_p4.evalDom k0 k1 k2 k3 k4 k5 a0 a1 a2 a3 a4 a5 a6 a7 := by
  have hz1 := D.spatial_z_dom k0 k1 a0 a1 a2 h1 hs1
  have hB := D.p4_cart k2 k3 k4 k5 (planar_x.eval k0 a0 a1) (planar_y.eval k0 a0 a1) (spatial_z.eval k0 k1 a0 a1 a2) a3
    a4 a5 a6 a7 h2 hs2 hd2 hm ht
  cases k0 <;> cases k1 <;> cases k2 <;> cases k3 <;> cases k4 <;> cases k5 <;> first | exact ⟨hz1, hB⟩ | exact hB

/-- the hypotheses of `refine_lorentz_boost_p4_spec` alone do not give regularity: at `(ρ, φ, θ, t) = (1, 0, 0, 5)`
boosted by `p = (0, 0, 3, 5)` the code evaluates `1 / tan 0` -/
theorem dom_lorentz_boost_p4_fails :
    TanOK .theta 0 ∧ TanOK .z 3 ∧ SinOK .z 3 ∧ CanonTmp .t 5 ∧ CanonTmp .t 5
      ∧ 0 < tOf .xy .z .t 0 0 3 5 ^ 2 - mag2Of .xy .z 0 0 3 ∧ 0 < tOf .xy .z .t 0 0 3 5
      ∧ ¬ lorentz_boost_p4.evalDom .rhophi .theta .t .xy .z .t 1 0 0 5 0 0 3 5 := by
  refine ⟨by simp [TanOK], trivial, trivial, trivial, trivial, by norm_num [tOf, mag2Of, xOf, yOf, zOf],
    by norm_num [tOf], ?_⟩
  intro h
  simp only [lorentz_boost_p4.evalDom, lorentz_boost_p4.k_rhophi_theta_t_xy_z_t.Dom, dd_spatial_z] at h
  exact h.1.2 Real.tan_zero

example : TanOK .theta 1 ∧ TanOK .eta 2 ∧ SinOK .eta 2 ∧ CanonTmp .tau 1 ∧ CanonTmp .tau 1
    ∧ 0 < tOf .xy .eta .tau 1 0 2 1 ^ 2 - mag2Of .xy .eta 1 0 2 ∧ 0 < tOf .xy .eta .tau 1 0 2 1 ∧ SinOK .theta 1 := by
  have h0 : (0 : ℝ) ≤ 1 := by norm_num
  refine ⟨ne_of_gt cos_one_pos, trivial, trivial, h0, h0, ?_, ?_, (sin_pos_of_pos_of_lt_pi one_pos (by linarith [two_le_pi])).ne'⟩
  · rw [D.tOf_tau_sq]; norm_num
  · have : 0 ≤ mag2Of .xy .eta 1 0 2 := by unfold mag2Of; positivity
    show 0 < sqrt (1 ^ 2 + mag2Of .xy .eta 1 0 2)
    positivity

end VR
