/-
Regularity ("Dom") theorems for the spatial accessors (`z`, `theta`, `costheta`, `cottheta`, `mag`, `mag2`; `eta` is in
Dom/Basic.lean) and for ALL planar compute modules.  Each `dom_<module>` has exactly the hypotheses of `refine_<module>`
(Refine/SpatialZ.lean, Refine/SpatialAcc.lean, Refine/Planar.lean, Refine/Equal.lean, Props/C12.lean, Props/C13.lean).
Where those hypotheses do not exclude a singular point of the code the theorem is named `…_partial` and carries a documented
EXTRA HYPOTHESIS.
-/
import VectorModel.Dom.Basic
import VectorModel.Refine.Planar
import VectorModel.Refine.SpatialZ
import VectorModel.Refine.SpatialAcc

namespace VR
open VK Spec Real

namespace D

private theorem tan_ne_zero_of {c : ℝ} (hs : sin c ≠ 0) (hc : cos c ≠ 0) : tan c ≠ 0 := by
  rw [Real.tan_eq_sin_div_cos]; exact div_ne_zero hs hc

/-- `-1 ≤ z / √(s + z²) ≤ 1` for `0 ≤ s` (also at the origin, where Lean's `0 / 0 = 0`; the callers exclude it separately) -/
private theorem ratio_mem {s z : ℝ} (hs : 0 ≤ s) : -1 ≤ z / sqrt (s + z ^ 2) ∧ z / sqrt (s + z ^ 2) ≤ 1 := by
  have hz : |z| ≤ sqrt (s + z ^ 2) := Real.abs_le_sqrt (by nlinarith)
  have h := abs_le.mp ((abs_div z _).le.trans (div_le_one_of_le₀ (by rwa [abs_of_nonneg (Real.sqrt_nonneg _)])
    (abs_nonneg _)))
  exact h

/-- `cos (2 arctan e^{-η}) ≠ 0` exactly off the transverse plane `η = 0` -/
theorem cos_two_arctan_exp_neg_ne_zero {e : ℝ} (he : e ≠ 0) : cos (2 * arctan (exp (-e))) ≠ 0 := by
  rw [L.cos_two_arctan_exp_neg]
  exact div_ne_zero (fun h => he (Real.sinh_eq_zero.mp h)) (Real.cosh_pos e).ne'

theorem sin_two_arctan_exp_neg_ne_zero (e : ℝ) : sin (2 * arctan (exp (-e))) ≠ 0 := by
  rw [L.sin_two_arctan_exp_neg]
  exact div_ne_zero one_ne_zero (Real.cosh_pos e).ne'

end D

/-! ## spatial accessors -/

/-- `mag2`: `sin² θ ≠ 0` for θ storage, `e^{-η} ≠ 0` always -/
theorem dom_spatial_mag2 (k0 : Az) (k1 : Lon) (a b c : ℝ) (h : SinOK k1 c) : spatial_mag2.evalDom k0 k1 a b c := by
  cases k0 <;> cases k1 <;> simp only [dd_spatial_mag2] <;>
    first
      | trivial
      | exact pow_ne_zero 2 h
      | exact (Real.exp_pos _).ne'

/-- `mag` (hypotheses of `refine_spatial_mag`) -/
theorem dom_spatial_mag (k0 : Az) (k1 : Lon) (a b c : ℝ) (_h2 : Canon2 k0 a b) (h : SinOK k1 c) :
    spatial_mag.evalDom k0 k1 a b c := by
  cases k0 <;> cases k1 <;> simp only [dd_spatial_mag, d_spatial_mag2]
  · positivity
  · exact ⟨D.sumsq_nonneg a b, abs_ne_zero.mpr h⟩
  · exact ⟨(Real.exp_pos _).ne', D.sumsq_nonneg a b⟩
  · positivity
  · exact abs_ne_zero.mpr h
  · exact (Real.exp_pos _).ne'

/-- `mag` (hypotheses of `refine_spatial_mag_canon`) -/
theorem dom_spatial_mag_canon (k0 : Az) (k1 : Lon) (a b c : ℝ) (h : Canon3 k0 k1 a b c) :
    spatial_mag.evalDom k0 k1 a b c :=
  dom_spatial_mag k0 k1 a b c h.1 (Spec.SinOK_of_canonLon h.2)

/-- `costheta` is regular away from the origin (`z / |p|` for z storage; θ/η storage apply total functions) -/
theorem dom_spatial_costheta (k0 : Az) (k1 : Lon) (a b c : ℝ) (_h : Canon3 k0 k1 a b c)
    (hm : 0 < mag2Of k0 k1 a b c) : spatial_costheta.evalDom k0 k1 a b c := by
  cases k0 <;> cases k1 <;> simp only [dd_spatial_costheta, dd_spatial_mag, d_spatial_mag, d_spatial_mag2]
  · simp only [mag2Of, xOf, yOf, zOf] at hm
    exact ⟨hm.le, (Real.sqrt_pos.mpr hm).ne'⟩
  · rw [Spec.mag2Of_eq] at hm
    simp only [rhoOf, zOf] at hm
    exact ⟨hm.le, (Real.sqrt_pos.mpr hm).ne'⟩

/-- `theta` is regular away from the origin (`arccos (z / |p|)` for z storage) -/
theorem dom_spatial_theta (k0 : Az) (k1 : Lon) (a b c : ℝ) (_h : Canon3 k0 k1 a b c)
    (hm : 0 < mag2Of k0 k1 a b c) : spatial_theta.evalDom k0 k1 a b c := by
  cases k0 <;> cases k1 <;>
    simp only [dd_spatial_theta, dd_spatial_costheta, dd_spatial_mag, d_spatial_costheta, d_spatial_mag, d_spatial_mag2,
      P.nanToNum_eq]
  · simp only [mag2Of, xOf, yOf, zOf] at hm
    exact ⟨⟨hm.le, (Real.sqrt_pos.mpr hm).ne'⟩, D.ratio_mem (D.sumsq_nonneg a b)⟩
  · rw [Spec.mag2Of_eq] at hm
    simp only [rhoOf, zOf] at hm
    exact ⟨⟨hm.le, (Real.sqrt_pos.mpr hm).ne'⟩, D.ratio_mem (sq_nonneg a)⟩

example : Canon3 .xy .z 0 0 1 ∧ 0 < mag2Of .xy .z 0 0 1 :=
  ⟨⟨trivial, trivial⟩, by norm_num [mag2Of, xOf, yOf, zOf]⟩

/-- `z` is regular for every key once `sin θ ≠ 0` is added for θ storage.

EXTRA HYPOTHESIS `hs : SinOK k1 c` (`sin θ ≠ 0`, needed by the keys `(xy, theta)` and `(rhophi, theta)`): the code computes
`ρ / tan θ`; `refine_spatial_z` assumes only `TanOK` (`cos θ ≠ 0`), which does not exclude `θ = 0`, where `tan θ = 0` and the real
code divides by zero (`vector.obj(rho=1, phi=0, theta=0).z = inf`), while the refinement theorem, read with Lean's `1 / 0 = 0`,
claims `z = ρ·(cos 0 / sin 0) = 0`.  `θ = 0` is outside the representable domain `CanonLon` (`0 < θ < π`), and `CanonLon`
implies `SinOK` (`Spec.SinOK_of_canonLon`). -/
theorem dom_spatial_z_partial (k0 : Az) (k1 : Lon) (a b c : ℝ) (h : TanOK k1 c) (hs : SinOK k1 c) :
    spatial_z.evalDom k0 k1 a b c := by
  cases k0 <;> cases k1 <;> simp only [dd_spatial_z, dd_planar_rho, d_planar_rho2]
  · exact ⟨D.sumsq_nonneg a b, h, D.tan_ne_zero_of hs h⟩
  · exact D.sumsq_nonneg a b
  · exact ⟨h, D.tan_ne_zero_of hs h⟩

/-- the same under the representable-domain hypothesis used by the binary spatial refinement theorems -/
theorem dom_spatial_z_canon (k0 : Az) (k1 : Lon) (a b c : ℝ) (h : TanOK k1 c) (hc : CanonLon k0 k1 a b c) :
    spatial_z.evalDom k0 k1 a b c :=
  dom_spatial_z_partial k0 k1 a b c h (Spec.SinOK_of_canonLon hc)

private theorem two_pt_zero : (2.0 : ℝ) = 2 := by norm_num

/-- `cottheta` is regular for every key once `sin θ ≠ 0` (θ storage) and `η ≠ 0` (η storage) are added.

EXTRA HYPOTHESIS `hs : SinOK k1 c` (keys `(·, theta)`): the code computes `1 / tan θ`; `refine_spatial_cottheta` assumes `0 < ρ`
and `TanOK` (`cos θ ≠ 0`) only, which admit `θ = 0` where the real code divides by zero
(`vector.obj(rho=1, phi=0, theta=0).cottheta = inf`; the theorem, with Lean's `1 / 0 = 0`, claims `0`).
EXTRA HYPOTHESIS `he : k1 = .eta → c ≠ 0` (keys `(·, eta)`): the code computes `1 / tan (2 arctan e^{-η})`; at `η = 0` the argument is
exactly `π/2`, the pole of `tan` (`cos = 0`).  `TanOK` is `True` for η storage, so the refinement hypotheses admit `η = 0`; the
theorem claims `cot θ = sinh 0 = 0` there (Lean: `tan (π/2) = 0`, `1 / 0 = 0`), the real code returns
`vector.obj(rho=1, phi=0, eta=0).cottheta = 6.123233995736766e-17` (`1 / tan(fl(π/2))`).  Same removable singularity as `TanOK`,
but not recorded in the hypotheses for η storage. -/
theorem dom_spatial_cottheta_partial (k0 : Az) (k1 : Lon) (a b c : ℝ) (hr : 0 < rhoOf k0 a b) (ht : TanOK k1 c)
    (hs : SinOK k1 c) (he : k1 = .eta → c ≠ 0) : spatial_cottheta.evalDom k0 k1 a b c := by
  cases k0 <;> cases k1 <;>
    simp only [dd_spatial_cottheta, dd_planar_rho, d_planar_rho, d_planar_rho2, d_spatial_theta, two_pt_zero]
  · exact ⟨D.sumsq_nonneg a b, D.sqrt_ne_zero_of_rhoOf_xy hr⟩
  · exact ⟨ht, D.tan_ne_zero_of hs ht⟩
  · exact ⟨D.cos_two_arctan_exp_neg_ne_zero (he rfl),
      D.tan_ne_zero_of (D.sin_two_arctan_exp_neg_ne_zero c) (D.cos_two_arctan_exp_neg_ne_zero (he rfl))⟩
  · exact (show (0:ℝ) < a from hr).ne'
  · exact ⟨ht, D.tan_ne_zero_of hs ht⟩
  · exact ⟨D.cos_two_arctan_exp_neg_ne_zero (he rfl),
      D.tan_ne_zero_of (D.sin_two_arctan_exp_neg_ne_zero c) (D.cos_two_arctan_exp_neg_ne_zero (he rfl))⟩

example : 0 < rhoOf .rhophi 1 0 ∧ TanOK .theta 1 ∧ SinOK .theta 1 ∧ ((Lon.theta = .eta) → (1:ℝ) ≠ 0) :=
  ⟨by norm_num [rhoOf], Real.cos_one_pos.ne',
   (Real.sin_pos_of_pos_of_lt_pi one_pos (by linarith [Real.two_le_pi])).ne', fun _ => one_ne_zero⟩

/-- the refinement hypotheses of `refine_spatial_z` alone do not give regularity: `TanOK .theta 0` holds, `tan 0 = 0` -/
example : TanOK .theta 0 ∧ ¬ spatial_z.evalDom .rhophi .theta 1 0 0 := by
  refine ⟨by simp [TanOK], ?_⟩
  simp only [dd_spatial_z]
  exact fun h => h.2 Real.tan_zero

/-- the refinement hypotheses of `refine_spatial_cottheta` alone do not give regularity at `η = 0` (`θ = π/2`) -/
example : 0 < rhoOf .rhophi 1 0 ∧ TanOK .eta 0 ∧ ¬ spatial_cottheta.evalDom .rhophi .eta 1 0 0 := by
  refine ⟨by norm_num [rhoOf], trivial, ?_⟩
  simp only [dd_spatial_cottheta, d_spatial_theta, two_pt_zero]
  intro h
  apply h.1
  show cos (2 * arctan (exp (-0))) = 0
  rw [neg_zero, Real.exp_zero, Real.arctan_one, show 2 * (π / 4) = π / 2 by ring, Real.cos_pi_div_two]

/-! ## planar modules

`planar_unit` is in Dom/Basic.lean.  The only partial primitives in the planar compute layer are `sqrt (x² + y²)` and
`% (2π)` (in `rectify`), both regular everywhere, so no planar module needs more than its refinement hypotheses (none, mostly). -/

namespace D
private theorem two_pi_ne_zero : (2 : ℝ) * π ≠ 0 := by positivity
end D

theorem dom_planar_x (k : Az) (a b : ℝ) : planar_x.evalDom k a b := by
  cases k <;> simp only [dd_planar_x]

theorem dom_planar_y (k : Az) (a b : ℝ) : planar_y.evalDom k a b := by
  cases k <;> simp only [dd_planar_y]

theorem dom_planar_rho (k : Az) (a b : ℝ) : planar_rho.evalDom k a b := by
  cases k <;> simp only [dd_planar_rho, d_planar_rho2]
  exact D.sumsq_nonneg a b

theorem dom_planar_rho2 (k : Az) (a b : ℝ) : planar_rho2.evalDom k a b := by
  cases k <;> simp only [dd_planar_rho2]

theorem dom_planar_phi (k : Az) (a b : ℝ) (_h : 0 < rhoOf k a b) (_hp : CanonPhi k a b) : planar_phi.evalDom k a b := by
  cases k <;> simp only [dd_planar_phi]

theorem dom_planar_dot (k0 k1 : Az) (a0 a1 a2 a3 : ℝ) : planar_dot.evalDom k0 k1 a0 a1 a2 a3 := by
  cases k0 <;> cases k1 <;> simp only [dd_planar_dot]

theorem dom_planar_add (k0 k1 : Az) (a0 a1 a2 a3 : ℝ) : planar_add.evalDom k0 k1 a0 a1 a2 a3 := by
  cases k0 <;> cases k1 <;> simp only [dd_planar_add]
  exact ⟨by positivity, D.two_pi_ne_zero⟩

theorem dom_planar_subtract (k0 k1 : Az) (a0 a1 a2 a3 : ℝ) : planar_subtract.evalDom k0 k1 a0 a1 a2 a3 := by
  cases k0 <;> cases k1 <;> simp only [dd_planar_subtract]
  exact ⟨by positivity, D.two_pi_ne_zero⟩

theorem dom_planar_scale (k : Az) (f a b : ℝ) : planar_scale.evalDom k f a b := by
  cases k <;> simp only [dd_planar_scale]
  exact D.two_pi_ne_zero

theorem dom_planar_rotateZ (k : Az) (ang a b : ℝ) : planar_rotateZ.evalDom k ang a b := by
  cases k <;> simp only [dd_planar_rotateZ]
  exact D.two_pi_ne_zero

theorem dom_planar_transform2D (k : Az) (xx xy yx yy a b : ℝ) : planar_transform2D.evalDom k xx xy yx yy a b := by
  cases k <;> simp only [dd_planar_transform2D]

theorem dom_planar_deltaphi (k0 k1 : Az) (a0 a1 a2 a3 : ℝ) : planar_deltaphi.evalDom k0 k1 a0 a1 a2 a3 := by
  cases k0 <;> cases k1 <;> simp only [dd_planar_deltaphi] <;> exact D.two_pi_ne_zero

/-- hypothesis of `refine_planar_equal` -/
theorem dom_planar_equal (k0 k1 : Az) (a0 a1 a2 a3 : ℝ) (_h : planar_equal.eval k0 k1 a0 a1 a2 a3) :
    planar_equal.evalDom k0 k1 a0 a1 a2 a3 := by
  cases k0 <;> cases k1 <;> simp only [dd_planar_equal]

/-- hypothesis of `refine_planar_not_equal` -/
theorem dom_planar_not_equal (k0 k1 : Az) (a0 a1 a2 a3 : ℝ) (_h : ¬ cart2 k0 a0 a1 = cart2 k1 a2 a3) :
    planar_not_equal.evalDom k0 k1 a0 a1 a2 a3 := by
  cases k0 <;> cases k1 <;> simp only [dd_planar_not_equal]

/-- `c12_planar_isclose_same` / `c12_planar_isclose_mono` (no hypotheses on the operands) -/
theorem dom_planar_isclose (k0 k1 : Az) (r t e a0 a1 a2 a3 : ℝ) : planar_isclose.evalDom k0 k1 r t e a0 a1 a2 a3 := by
  cases k0 <;> cases k1 <;> simp only [dd_planar_isclose]

/-- `c13_planar_is_parallel_iff` (no hypotheses): only `sqrt (x² + y²)` of Cartesian operands -/
theorem dom_planar_is_parallel (k0 k1 : Az) (tol a0 a1 b0 b1 : ℝ) : planar_is_parallel.evalDom k0 k1 tol a0 a1 b0 b1 := by
  cases k0 <;> cases k1 <;> simp only [dd_planar_is_parallel, dd_planar_rho, d_planar_rho2] <;>
    first
      | exact ⟨D.sumsq_nonneg _ _, D.sumsq_nonneg _ _⟩
      | exact D.sumsq_nonneg _ _

theorem dom_planar_is_antiparallel (k0 k1 : Az) (tol a0 a1 b0 b1 : ℝ) :
    planar_is_antiparallel.evalDom k0 k1 tol a0 a1 b0 b1 := by
  cases k0 <;> cases k1 <;> simp only [dd_planar_is_antiparallel, dd_planar_rho, d_planar_rho2] <;>
    first
      | exact ⟨D.sumsq_nonneg _ _, D.sumsq_nonneg _ _⟩
      | exact D.sumsq_nonneg _ _

theorem dom_planar_is_perpendicular (k0 k1 : Az) (tol a0 a1 b0 b1 : ℝ) :
    planar_is_perpendicular.evalDom k0 k1 tol a0 a1 b0 b1 := by
  cases k0 <;> cases k1 <;> simp only [dd_planar_is_perpendicular, dd_planar_rho, d_planar_rho2] <;>
    first
      | exact ⟨D.sumsq_nonneg _ _, D.sumsq_nonneg _ _⟩
      | exact D.sumsq_nonneg _ _

example : 0 < rhoOf .rhophi 2 1 ∧ CanonPhi .rhophi 2 1 :=
  ⟨by norm_num [rhoOf], by linarith [Real.pi_pos], by linarith [Real.two_le_pi]⟩
example : planar_equal.eval .xy .xy 1 2 1 2 := by simp only [d_planar_equal]; exact ⟨trivial, trivial⟩
example : ¬ cart2 .xy 1 2 = cart2 .xy 2 2 := by simp [cart2, xOf, yOf]

end VR
