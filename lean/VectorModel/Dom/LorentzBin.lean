/-
Regularity ("Dom") theorems for the binary Lorentz (4D) compute modules with 144 keys
`add`, `subtract`, `dot`, `equal`, `not_equal`, `isclose`, `deltaRapidityPhi`, `deltaRapidityPhi2`.

Every generated variant `k_<key1>_<key2>` calls the spatial variant of the same operation on the spatial parts and the
temporal accessor `lorentz_t` of each operand.  Method: regularity of the callees is proved ONCE per operand
(`LB.z_op`, `LB.t_op`, `LB.etaTheta_op`, `LB.rap_op`) or once per spatial key pair (`LB.spatial_*_dom`, 36 keys), and each
144-key module is assembled by one combinator after `cases` on the six keys.

Theorems named `dom_<module>` have EXACTLY the hypotheses of the refinement theorem of the module; theorems named
`dom_<module>_partial` need an EXTRA HYPOTHESIS (documented at the theorem).

All auxiliary facts live in the namespace `VR.LB` (nothing is added to `VR.D`, sibling files define their own lemmas there).
-/
import VectorModel.Dom.Basic
import VectorModel.Refine.LorentzBin
import VectorModel.Refine.Equal
import VectorModel.Props.C12

namespace VR
open VK Spec Real

namespace LB

/-! ### elementary facts -/

theorem two_pi_ne_zero : (2 : ℝ) * π ≠ 0 := by positivity

theorem tan_ne_zero {c : ℝ} (hc : cos c ≠ 0) (hs : sin c ≠ 0) : tan c ≠ 0 := by
  rw [Real.tan_eq_sin_div_cos]; exact div_ne_zero hs hc

/-- the regularity condition of `ρ / tan θ` -/
theorem z_theta {c : ℝ} (hc : cos c ≠ 0) (hs : sin c ≠ 0) : cos c ≠ 0 ∧ tan c ≠ 0 := ⟨hc, tan_ne_zero hc hs⟩

/-- `θ(η) = 2 arctan e^{-η}` has `cos θ = tanh η`, zero exactly at `η = 0` -/
theorem cos_theta_of_eta_ne_zero {e : ℝ} (he : e ≠ 0) : cos ((2.0 : ℝ) * arctan (exp (-e))) ≠ 0 := by
  have h2 : (2.0 : ℝ) = 2 := by norm_num
  rw [h2, L.cos_two_arctan_exp_neg]
  exact div_ne_zero (fun h => he (Real.sinh_eq_zero.mp h)) (Real.cosh_pos e).ne'

theorem sin_theta_of_eta_ne_zero (e : ℝ) : sin ((2.0 : ℝ) * arctan (exp (-e))) ≠ 0 := by
  have h2 : (2.0 : ℝ) = 2 := by norm_num
  rw [h2, L.sin_two_arctan_exp_neg]
  exact one_div_ne_zero (Real.cosh_pos e).ne'

theorem z_theta_of_eta {e : ℝ} (he : e ≠ 0) :
    cos ((2.0 : ℝ) * arctan (exp (-e))) ≠ 0 ∧ tan ((2.0 : ℝ) * arctan (exp (-e))) ≠ 0 :=
  z_theta (cos_theta_of_eta_ne_zero he) (sin_theta_of_eta_ne_zero e)

/-- the regularity condition of `1 / (tan θ₁ tan θ₂)` -/
theorem dot_theta_theta {t1 t2 : ℝ} (h1 : cos t1 ≠ 0 ∧ tan t1 ≠ 0) (h2 : cos t2 ≠ 0 ∧ tan t2 ≠ 0) :
    cos t1 ≠ 0 ∧ cos t2 ≠ 0 ∧ tan t1 * tan t2 ≠ 0 := ⟨h1.1, h2.1, mul_ne_zero h1.2 h2.2⟩

/-! ### per-operand regularity of the callees -/

/-- `z` (all six keys): `ρ / tan θ` needs `cos θ ≠ 0` (for `tan`) and `sin θ ≠ 0` (for the division) -/
theorem z_op (k0 : Az) (k1 : Lon) (a b c : ℝ) (ht : TanOK k1 c) (hs : SinOK k1 c) :
    spatial_z.evalDom k0 k1 a b c := by
  cases k0 <;> cases k1 <;> simp only [dd_spatial_z, dd_planar_rho, d_planar_rho2]
  · exact ⟨D.sumsq_nonneg a b, z_theta ht hs⟩
  · exact D.sumsq_nonneg a b
  · exact z_theta ht hs

/-- `|p|²` (all six keys): `ρ² / sin² θ` needs `sin θ ≠ 0` -/
theorem mag2_op (k0 : Az) (k1 : Lon) (a b c : ℝ) (hs : SinOK k1 c) : spatial_mag2.evalDom k0 k1 a b c := by
  cases k0 <;> cases k1 <;> simp only [dd_spatial_mag2] <;>
    first | trivial | exact pow_ne_zero 2 hs | exact (Real.exp_pos _).ne'

/-- `t` (all twelve keys): for `τ` storage `t = √(max (±τ² + |p|²) 0)`, regular as soon as `|p|²` is (`SinOK`) -/
theorem t_op (k0 : Az) (k1 : Lon) (k2 : Tmp) (a b c d : ℝ) (hs : SinOK k1 c) :
    lorentz_t.evalDom k0 k1 k2 a b c d := by
  have hm := mag2_op k0 k1 a b c hs
  cases k0 <;> cases k1 <;> cases k2 <;> simp only [spatial_mag2.evalDom] at hm <;>
    simp only [dd_lorentz_t, dd_lorentz_t2, d_lorentz_t2] <;>
    first | trivial | exact le_max_right _ _ | exact ⟨hm, le_max_right _ _⟩

/-! ### dot -/

/-- the two key pairs of `dot` that go through `θ(η) = 2 arctan e^{-η}` and then divide by `tan θ(η)`: singular at `η = 0` -/
def DotEtaOK : Az → Lon → Az → Lon → ℝ → ℝ → Prop
  | .rhophi, .eta, .rhophi, .theta, c, _ => c ≠ 0
  | .rhophi, .theta, .rhophi, .eta, _, f => f ≠ 0
  | _, _, _, _, _, _ => True

theorem spatial_dot_dom (k0 : Az) (k1 : Lon) (k2 : Az) (k3 : Lon) (a0 a1 a2 a3 a4 a5 : ℝ)
    (h1 : TanOK k1 a2) (h2 : TanOK k3 a5) (hs1 : SinOK k1 a2) (hs2 : SinOK k3 a5)
    (he : DotEtaOK k0 k1 k2 k3 a2 a5) :
    spatial_dot.evalDom k0 k1 k2 k3 a0 a1 a2 a3 a4 a5 := by
  have z1 := z_op k0 k1 a0 a1 a2 h1 hs1
  have z2 := z_op k2 k3 a3 a4 a5 h2 hs2
  cases k0 <;> cases k2 <;> cases k1 <;> cases k3 <;> simp only [spatial_z.evalDom] at z1 z2 <;>
    simp only [dd_spatial_dot] <;>
    first
      | trivial
      | exact z1
      | exact z2
      | exact ⟨z1, z2⟩
      | exact dot_theta_theta z1 z2
      | exact dot_theta_theta z1 (z_theta_of_eta he)
      | exact dot_theta_theta (z_theta_of_eta he) z2
      | exact ⟨(Real.exp_pos _).ne', (Real.exp_pos _).ne'⟩

/-- combinator: a `lorentz_dot` variant is regular when the temporal accessors of both operands and the spatial `dot`
variant are -/
theorem lorentz_dot_of (k0 : Az) (k1 : Lon) (k2 : Tmp) (k3 : Az) (k4 : Lon) (k5 : Tmp) (a0 a1 a2 a3 a4 a5 a6 a7 : ℝ)
    (t1 : lorentz_t.evalDom k0 k1 k2 a0 a1 a2 a3) (t2 : lorentz_t.evalDom k3 k4 k5 a4 a5 a6 a7)
    (s : spatial_dot.evalDom k0 k1 k3 k4 a0 a1 a2 a4 a5 a6) :
    lorentz_dot.evalDom k0 k1 k2 k3 k4 k5 a0 a1 a2 a3 a4 a5 a6 a7 := by
  cases k0 <;> cases k1 <;> cases k2 <;> cases k3 <;> cases k4 <;> cases k5 <;>
    simp only [dd_lorentz_dot] <;> trivial

/-! ### converters of a Cartesian / cylindrical result back to `θ` / `η` (used by `add`, `subtract` for like keys) -/

/-- `-1 ≤ z / √(s + z²) ≤ 1` -/
theorem ratio_mem {s z : ℝ} (hs : 0 < s) : -1 ≤ z / sqrt (s + z ^ 2) ∧ z / sqrt (s + z ^ 2) ≤ 1 := by
  have hp : 0 < sqrt (s + z ^ 2) := Real.sqrt_pos.mpr (by positivity)
  have hz : |z| ≤ sqrt (s + z ^ 2) := Real.abs_le_sqrt (by nlinarith)
  have := abs_le.mp hz
  constructor
  · rw [le_div_iff₀ hp]; linarith
  · rw [div_le_one hp]; linarith

theorem theta_xy_z (x y z : ℝ) (h : 0 < x ^ 2 + y ^ 2) : spatial_theta.xy_z.Dom x y z := by
  simp only [dd_spatial_theta, dd_spatial_costheta, dd_spatial_mag, d_spatial_costheta, d_spatial_mag, d_spatial_mag2,
    P.nanToNum_eq]
  exact ⟨⟨by positivity, (Real.sqrt_pos.mpr (by positivity)).ne'⟩, ratio_mem h⟩

theorem theta_rhophi_z (r p z : ℝ) (h : 0 < r) : spatial_theta.rhophi_z.Dom r p z := by
  simp only [dd_spatial_theta, dd_spatial_costheta, dd_spatial_mag, d_spatial_costheta, d_spatial_mag, d_spatial_mag2,
    P.nanToNum_eq]
  exact ⟨⟨by positivity, (Real.sqrt_pos.mpr (by positivity)).ne'⟩, ratio_mem (by positivity)⟩

theorem eta_xy_z (x y z : ℝ) (h : 0 < x ^ 2 + y ^ 2) : spatial_eta.xy_z.Dom x y z := by
  simp only [dd_spatial_eta]
  exact ⟨h.le, (Real.sqrt_pos.mpr h).ne'⟩

theorem eta_rhophi_z (r p z : ℝ) (h : 0 < r) : spatial_eta.rhophi_z.Dom r p z := by
  simp only [dd_spatial_eta]
  exact h.ne'

theorem padd_dom (r1 p1 r2 p2 : ℝ) : planar_add.rhophi_rhophi.Dom r1 p1 r2 p2 := by
  simp only [dd_planar_add]
  exact ⟨by positivity, two_pi_ne_zero⟩

theorem psub_dom (r1 p1 r2 p2 : ℝ) : planar_subtract.rhophi_rhophi.Dom r1 p1 r2 p2 := by
  simp only [dd_planar_subtract]
  exact ⟨by positivity, two_pi_ne_zero⟩

/-- `τ` of a `t`-stored vector (all six spatial keys): `copysign(√|t² − |p|²|, …)`, regular as soon as `|p|²` is -/
theorem tau_t_op (k0 : Az) (k1 : Lon) (a b c T : ℝ) (hs : SinOK k1 c) : lorentz_tau.evalDom k0 k1 .t a b c T := by
  have hm := mag2_op k0 k1 a b c hs
  cases k0 <;> cases k1 <;> simp only [spatial_mag2.evalDom] at hm <;>
    simp only [dd_lorentz_tau, dd_lorentz_tau2] <;>
    first | exact abs_nonneg _ | exact ⟨hm, abs_nonneg _⟩

/-! ### add, subtract -/

theorem spatial_add_dom (k0 : Az) (k1 : Lon) (k2 : Az) (k3 : Lon) (a0 a1 a2 a3 a4 a5 : ℝ)
    (h1 : TanOK k1 a2) (h2 : TanOK k3 a5) (hs1 : SinOK k1 a2) (hs2 : SinOK k3 a5)
    (hrep : Representable3 (spatial_add.ret k0 k1 k2 k3) (add3 (cart3 k0 k1 a0 a1 a2) (cart3 k2 k3 a3 a4 a5))) :
    spatial_add.evalDom k0 k1 k2 k3 a0 a1 a2 a3 a4 a5 := by
  have z1 := z_op k0 k1 a0 a1 a2 h1 hs1
  have z2 := z_op k2 k3 a3 a4 a5 h2 hs2
  cases k0 <;> cases k2 <;> cases k1 <;> cases k3 <;> simp only [spatial_z.evalDom] at z1 z2 <;>
    simp only [dd_spatial_add] <;>
    first
      | trivial
      | exact padd_dom _ _ _ _
      | (simp only [Representable3, spatial_add.ret, retLon, add3, cart3, Option.some.injEq, reduceCtorEq, false_or]
          at hrep
         first
          | exact ⟨z1, z2, theta_xy_z _ _ _ hrep⟩
          | exact ⟨z1, z2, eta_xy_z _ _ _ hrep⟩
          | exact ⟨padd_dom _ _ _ _, z1, z2, theta_rhophi_z _ _ _ (planar_add_rho_pos _ _ _ _ hrep)⟩
          | exact ⟨padd_dom _ _ _ _, eta_rhophi_z _ _ _ (planar_add_rho_pos _ _ _ _ hrep)⟩)

/-- combinator: a `lorentz_add` variant is regular when the temporal accessors of both operands, the spatial `add`
variant and (for `τ ⊕ τ`, whose result is stored as `τ`) the `τ` accessor applied to the result are -/
theorem lorentz_add_of (k0 : Az) (k1 : Lon) (k2 : Tmp) (k3 : Az) (k4 : Lon) (k5 : Tmp) (a0 a1 a2 a3 a4 a5 a6 a7 : ℝ)
    (t1 : lorentz_t.evalDom k0 k1 k2 a0 a1 a2 a3) (t2 : lorentz_t.evalDom k3 k4 k5 a4 a5 a6 a7)
    (s : spatial_add.evalDom k0 k1 k3 k4 a0 a1 a2 a4 a5 a6)
    (r : lorentz_tau.evalDom (azOfRet (spatial_add.ret k0 k1 k3 k4)) (lonOfRet (spatial_add.ret k0 k1 k3 k4)) .t
      (spatial_add.eval k0 k1 k3 k4 a0 a1 a2 a4 a5 a6).1 (spatial_add.eval k0 k1 k3 k4 a0 a1 a2 a4 a5 a6).2.1
      (spatial_add.eval k0 k1 k3 k4 a0 a1 a2 a4 a5 a6).2.2
      (lorentz_t.eval k0 k1 k2 a0 a1 a2 a3 + lorentz_t.eval k3 k4 k5 a4 a5 a6 a7)) :
    lorentz_add.evalDom k0 k1 k2 k3 k4 k5 a0 a1 a2 a3 a4 a5 a6 a7 := by
  cases k0 <;> cases k1 <;> cases k2 <;> cases k3 <;> cases k4 <;> cases k5 <;>
    simp only [dd_lorentz_add] <;> trivial

theorem spatial_subtract_dom (k0 : Az) (k1 : Lon) (k2 : Az) (k3 : Lon) (a0 a1 a2 a3 a4 a5 : ℝ)
    (h1 : TanOK k1 a2) (h2 : TanOK k3 a5) (hs1 : SinOK k1 a2) (hs2 : SinOK k3 a5)
    (hrep : Representable3 (spatial_subtract.ret k0 k1 k2 k3) (sub3 (cart3 k0 k1 a0 a1 a2) (cart3 k2 k3 a3 a4 a5))) :
    spatial_subtract.evalDom k0 k1 k2 k3 a0 a1 a2 a3 a4 a5 := by
  have z1 := z_op k0 k1 a0 a1 a2 h1 hs1
  have z2 := z_op k2 k3 a3 a4 a5 h2 hs2
  cases k0 <;> cases k2 <;> cases k1 <;> cases k3 <;> simp only [spatial_z.evalDom] at z1 z2 <;>
    simp only [dd_spatial_subtract] <;>
    first
      | trivial
      | exact psub_dom _ _ _ _
      | (simp only [Representable3, spatial_subtract.ret, retLon, sub3, cart3, Option.some.injEq, reduceCtorEq, false_or]
          at hrep
         first
          | exact ⟨z1, z2, theta_xy_z _ _ _ hrep⟩
          | exact ⟨z1, z2, eta_xy_z _ _ _ hrep⟩
          | exact ⟨psub_dom _ _ _ _, z1, z2, theta_rhophi_z _ _ _ (planar_subtract_rho_pos _ _ _ _ hrep)⟩
          | exact ⟨psub_dom _ _ _ _, eta_rhophi_z _ _ _ (planar_subtract_rho_pos _ _ _ _ hrep)⟩)

/-- combinator: a `lorentz_subtract` variant is regular when the temporal accessors of both operands, the spatial `subtract`
variant and (for `τ ⊕ τ`, whose result is stored as `τ`) the `τ` accessor applied to the result are -/
theorem lorentz_subtract_of (k0 : Az) (k1 : Lon) (k2 : Tmp) (k3 : Az) (k4 : Lon) (k5 : Tmp) (a0 a1 a2 a3 a4 a5 a6 a7 : ℝ)
    (t1 : lorentz_t.evalDom k0 k1 k2 a0 a1 a2 a3) (t2 : lorentz_t.evalDom k3 k4 k5 a4 a5 a6 a7)
    (s : spatial_subtract.evalDom k0 k1 k3 k4 a0 a1 a2 a4 a5 a6)
    (r : lorentz_tau.evalDom (azOfRet (spatial_subtract.ret k0 k1 k3 k4)) (lonOfRet (spatial_subtract.ret k0 k1 k3 k4)) .t
      (spatial_subtract.eval k0 k1 k3 k4 a0 a1 a2 a4 a5 a6).1 (spatial_subtract.eval k0 k1 k3 k4 a0 a1 a2 a4 a5 a6).2.1
      (spatial_subtract.eval k0 k1 k3 k4 a0 a1 a2 a4 a5 a6).2.2
      (lorentz_t.eval k0 k1 k2 a0 a1 a2 a3 - lorentz_t.eval k3 k4 k5 a4 a5 a6 a7)) :
    lorentz_subtract.evalDom k0 k1 k2 k3 k4 k5 a0 a1 a2 a3 a4 a5 a6 a7 := by
  cases k0 <;> cases k1 <;> cases k2 <;> cases k3 <;> cases k4 <;> cases k5 <;>
    simp only [dd_lorentz_subtract] <;> trivial

/-! ### equal, not_equal, isclose -/

/-- `η` from `θ` storage, `−log tan(θ/2)`: regular for `0 < θ < π` -/
theorem etaTheta_op (k0 : Az) (k1 : Lon) (a b c : ℝ) (h : CanonLon k0 k1 a b c) (hk : k1 = .theta) :
    spatial_eta.evalDom k0 k1 a b c := by
  subst hk
  cases k0 <;> simp only [dd_spatial_eta] <;>
    exact ⟨(D.cos_half_pos h.2.1 h.2.2).ne', D.tan_half_pos h.2.1 h.2.2⟩

theorem spatial_equal_dom (k0 : Az) (k1 : Lon) (k2 : Az) (k3 : Lon) (a0 a1 a2 a3 a4 a5 : ℝ)
    (c1 : CanonLon k0 k1 a0 a1 a2) (c2 : CanonLon k2 k3 a3 a4 a5) (t1 : TanOK k1 a2) (t2 : TanOK k3 a5) :
    spatial_equal.evalDom k0 k1 k2 k3 a0 a1 a2 a3 a4 a5 := by
  have z1 := z_op k0 k1 a0 a1 a2 t1 (Spec.SinOK_of_canonLon c1)
  have z2 := z_op k2 k3 a3 a4 a5 t2 (Spec.SinOK_of_canonLon c2)
  have e1 := etaTheta_op k0 k1 a0 a1 a2 c1
  have e2 := etaTheta_op k2 k3 a3 a4 a5 c2
  cases k0 <;> cases k2 <;> cases k1 <;> cases k3 <;> simp only [spatial_z.evalDom] at z1 z2 <;>
    simp only [dd_spatial_equal] <;>
    first
      | trivial
      | exact e1 rfl
      | exact e2 rfl

/-- combinator: a `lorentz_equal` variant is regular when the temporal accessors of both operands and the spatial
`equal` variant are -/
theorem lorentz_equal_of (k0 : Az) (k1 : Lon) (k2 : Tmp) (k3 : Az) (k4 : Lon) (k5 : Tmp)
    (a0 a1 a2 a3 a4 a5 a6 a7 : ℝ)
    (t1 : lorentz_t.evalDom k0 k1 k2 a0 a1 a2 a3) (t2 : lorentz_t.evalDom k3 k4 k5 a4 a5 a6 a7)
    (s : spatial_equal.evalDom k0 k1 k3 k4 a0 a1 a2 a4 a5 a6) :
    lorentz_equal.evalDom k0 k1 k2 k3 k4 k5 a0 a1 a2 a3 a4 a5 a6 a7 := by
  cases k0 <;> cases k1 <;> cases k2 <;> cases k3 <;> cases k4 <;> cases k5 <;>
    simp only [dd_lorentz_equal] <;> trivial

theorem spatial_not_equal_dom (k0 : Az) (k1 : Lon) (k2 : Az) (k3 : Lon) (a0 a1 a2 a3 a4 a5 : ℝ)
    (c1 : CanonLon k0 k1 a0 a1 a2) (c2 : CanonLon k2 k3 a3 a4 a5) (t1 : TanOK k1 a2) (t2 : TanOK k3 a5) :
    spatial_not_equal.evalDom k0 k1 k2 k3 a0 a1 a2 a3 a4 a5 := by
  have z1 := z_op k0 k1 a0 a1 a2 t1 (Spec.SinOK_of_canonLon c1)
  have z2 := z_op k2 k3 a3 a4 a5 t2 (Spec.SinOK_of_canonLon c2)
  have e1 := etaTheta_op k0 k1 a0 a1 a2 c1
  have e2 := etaTheta_op k2 k3 a3 a4 a5 c2
  cases k0 <;> cases k2 <;> cases k1 <;> cases k3 <;> simp only [spatial_z.evalDom] at z1 z2 <;>
    simp only [dd_spatial_not_equal] <;>
    first
      | trivial
      | exact e1 rfl
      | exact e2 rfl

/-- combinator: a `lorentz_not_equal` variant is regular when the temporal accessors of both operands and the spatial
`not_equal` variant are -/
theorem lorentz_not_equal_of (k0 : Az) (k1 : Lon) (k2 : Tmp) (k3 : Az) (k4 : Lon) (k5 : Tmp)
    (a0 a1 a2 a3 a4 a5 a6 a7 : ℝ)
    (t1 : lorentz_t.evalDom k0 k1 k2 a0 a1 a2 a3) (t2 : lorentz_t.evalDom k3 k4 k5 a4 a5 a6 a7)
    (s : spatial_not_equal.evalDom k0 k1 k3 k4 a0 a1 a2 a4 a5 a6) :
    lorentz_not_equal.evalDom k0 k1 k2 k3 k4 k5 a0 a1 a2 a3 a4 a5 a6 a7 := by
  cases k0 <;> cases k1 <;> cases k2 <;> cases k3 <;> cases k4 <;> cases k5 <;>
    simp only [dd_lorentz_not_equal] <;> trivial

theorem spatial_isclose_dom (k0 : Az) (k1 : Lon) (k2 : Az) (k3 : Lon) (r t e a0 a1 a2 a3 a4 a5 : ℝ)
    (c1 : CanonLon k0 k1 a0 a1 a2) (c2 : CanonLon k2 k3 a3 a4 a5) (t1 : TanOK k1 a2) (t2 : TanOK k3 a5) :
    spatial_isclose.evalDom k0 k1 k2 k3 r t e a0 a1 a2 a3 a4 a5 := by
  have z1 := z_op k0 k1 a0 a1 a2 t1 (Spec.SinOK_of_canonLon c1)
  have z2 := z_op k2 k3 a3 a4 a5 t2 (Spec.SinOK_of_canonLon c2)
  have e1 := etaTheta_op k0 k1 a0 a1 a2 c1
  have e2 := etaTheta_op k2 k3 a3 a4 a5 c2
  cases k0 <;> cases k2 <;> cases k1 <;> cases k3 <;> simp only [spatial_z.evalDom] at z1 z2 <;>
    simp only [dd_spatial_isclose] <;>
    first
      | trivial
      | exact e1 rfl
      | exact e2 rfl

/-- combinator: a `lorentz_isclose` variant is regular when the temporal accessors of both operands and the spatial
`isclose` variant are -/
theorem lorentz_isclose_of (k0 : Az) (k1 : Lon) (k2 : Tmp) (k3 : Az) (k4 : Lon) (k5 : Tmp)
    (r t e a0 a1 a2 a3 a4 a5 a6 a7 : ℝ)
    (t1 : lorentz_t.evalDom k0 k1 k2 a0 a1 a2 a3) (t2 : lorentz_t.evalDom k3 k4 k5 a4 a5 a6 a7)
    (s : spatial_isclose.evalDom k0 k1 k3 k4 r t e a0 a1 a2 a4 a5 a6) :
    lorentz_isclose.evalDom k0 k1 k2 k3 k4 k5 r t e a0 a1 a2 a3 a4 a5 a6 a7 := by
  cases k0 <;> cases k1 <;> cases k2 <;> cases k3 <;> cases k4 <;> cases k5 <;>
    simp only [dd_lorentz_isclose] <;> trivial

/-! ### deltaRapidityPhi2, deltaRapidityPhi -/

/-- the regularity condition of `½ log((t + z) / (t − z))` -/
theorem rap_core {t z : ℝ} (h : |z| < t) : t - z ≠ 0 ∧ 0 < (t + z) / (t - z) := by
  have := abs_lt.mp h
  have hm : 0 < t - z := by linarith
  exact ⟨hm.ne', div_pos (by linarith) hm⟩

/-- rapidity (all twelve keys): regular when `|z| < t` for the denoted components -/
theorem rap_op (k0 : Az) (k1 : Lon) (k2 : Tmp) (a b c d : ℝ) (h : TanOK k1 c) (hs : SinOK k1 c) (hd : CanonTmp k2 d)
    (hz : |zOf k0 k1 a b c| < tOf k0 k1 k2 a b c d) : lorentz_rapidity.evalDom k0 k1 k2 a b c d := by
  have z := z_op k0 k1 a b c h hs
  have t := t_op k0 k1 k2 a b c d hs
  have core : lorentz_t.eval k0 k1 k2 a b c d - spatial_z.eval k0 k1 a b c ≠ 0 ∧
      0 < (lorentz_t.eval k0 k1 k2 a b c d + spatial_z.eval k0 k1 a b c)
        / (lorentz_t.eval k0 k1 k2 a b c d - spatial_z.eval k0 k1 a b c) := by
    rw [lorentz_t_eq_tOf k0 k1 k2 a b c d hs hd, refine_spatial_z k0 k1 a b c h]
    exact rap_core hz
  cases k0 <;> cases k1 <;> cases k2 <;> simp only [spatial_z.evalDom, lorentz_t.evalDom] at z t <;>
    simp only [dd_lorentz_rapidity] <;>
    first
      | exact core
      | exact ⟨z, core⟩
      | exact ⟨t, core⟩
      | exact ⟨z, t, core⟩

theorem deltaphi_dom (k0 k1 : Az) (a0 a1 a2 a3 : ℝ) : planar_deltaphi.evalDom k0 k1 a0 a1 a2 a3 := by
  cases k0 <;> cases k1 <;> simp only [dd_planar_deltaphi] <;> exact two_pi_ne_zero

/-- combinator: a `lorentz_deltaRapidityPhi2` variant is regular when `deltaphi` and both rapidities are -/
theorem lorentz_deltaRapidityPhi2_of (k0 : Az) (k1 : Lon) (k2 : Tmp) (k3 : Az) (k4 : Lon) (k5 : Tmp)
    (a0 a1 a2 a3 a4 a5 a6 a7 : ℝ)
    (p : planar_deltaphi.evalDom k0 k3 a0 a1 a4 a5)
    (r1 : lorentz_rapidity.evalDom k0 k1 k2 a0 a1 a2 a3) (r2 : lorentz_rapidity.evalDom k3 k4 k5 a4 a5 a6 a7) :
    lorentz_deltaRapidityPhi2.evalDom k0 k1 k2 k3 k4 k5 a0 a1 a2 a3 a4 a5 a6 a7 := by
  cases k0 <;> cases k1 <;> cases k2 <;> cases k3 <;> cases k4 <;> cases k5 <;>
    simp only [dd_lorentz_deltaRapidityPhi2] <;> exact ⟨p, r1, r2⟩

/-- combinator: `deltaRapidityPhi = √deltaRapidityPhi2` is regular when `deltaRapidityPhi2` is (a sum of two squares) -/
theorem lorentz_deltaRapidityPhi_of (k0 : Az) (k1 : Lon) (k2 : Tmp) (k3 : Az) (k4 : Lon) (k5 : Tmp)
    (a0 a1 a2 a3 a4 a5 a6 a7 : ℝ)
    (d2 : lorentz_deltaRapidityPhi2.evalDom k0 k1 k2 k3 k4 k5 a0 a1 a2 a3 a4 a5 a6 a7) :
    lorentz_deltaRapidityPhi.evalDom k0 k1 k2 k3 k4 k5 a0 a1 a2 a3 a4 a5 a6 a7 := by
  have v : 0 ≤ lorentz_deltaRapidityPhi2.eval k0 k1 k2 k3 k4 k5 a0 a1 a2 a3 a4 a5 a6 a7 := by
    rw [lorentz_deltaRapidityPhi2_eval_eq]; positivity
  cases k0 <;> cases k1 <;> cases k2 <;> cases k3 <;> cases k4 <;> cases k5 <;>
    simp only [dd_lorentz_deltaRapidityPhi] <;> exact ⟨d2, v⟩

end LB

/-! ## the theorems -/

/-! ### dot -/

/-- EXTRA HYPOTHESIS: `he` (`η ≠ 0` for the η operand of the key pairs `(rhophi, eta, _) × (rhophi, theta, _)` and
`(rhophi, theta, _) × (rhophi, eta, _)`, 8 of the 144 keys).  The spatial variants `rhophi_eta_rhophi_theta` /
`rhophi_theta_rhophi_eta` convert `η` to `θ(η) = 2 arctan e^{-η}` and then compute `1 / (tan θ(η) · tan θ₂)`; at `η = 0`
this is `tan (π/2)` exactly.  `refine_lorentz_dot` (hypotheses `TanOK`, `SinOK`, `CanonTmp` only; `TanOK .eta _ = True`)
holds there because Lean's `tan (π/2) = 0` and `1 / 0 = 0` happen to give the right value `cot (π/2) = 0`.  (In floating
point `2 * arctan 1.0` is not exactly `π/2`, `tan` returns `1.6e16` and the real code returns the correct finite value.) -/
theorem dom_lorentz_dot_partial (k0 : Az) (k1 : Lon) (k2 : Tmp) (k3 : Az) (k4 : Lon) (k5 : Tmp)
    (a0 a1 a2 a3 a4 a5 a6 a7 : ℝ) (h1 : TanOK k1 a2) (h2 : TanOK k4 a6) (hs1 : SinOK k1 a2) (hs2 : SinOK k4 a6)
    (_hd1 : CanonTmp k2 a3) (_hd2 : CanonTmp k5 a7) (he : LB.DotEtaOK k0 k1 k3 k4 a2 a6) :
    lorentz_dot.evalDom k0 k1 k2 k3 k4 k5 a0 a1 a2 a3 a4 a5 a6 a7 :=
  LB.lorentz_dot_of k0 k1 k2 k3 k4 k5 a0 a1 a2 a3 a4 a5 a6 a7 (LB.t_op k0 k1 k2 a0 a1 a2 a3 hs1)
    (LB.t_op k3 k4 k5 a4 a5 a6 a7 hs2) (LB.spatial_dot_dom k0 k1 k3 k4 a0 a1 a2 a4 a5 a6 h1 h2 hs1 hs2 he)

/-- the extra hypothesis is needed: at `η₁ = 0` all hypotheses of `refine_lorentz_dot` hold but the variant
`k_rhophi_eta_t_rhophi_theta_t` evaluates `tan (π/2)` -/
theorem dom_lorentz_dot_singular :
    (TanOK .eta 0 ∧ TanOK .theta 1 ∧ SinOK .eta 0 ∧ SinOK .theta 1 ∧ CanonTmp .t 1 ∧ CanonTmp .t 1) ∧
      ¬ lorentz_dot.evalDom .rhophi .eta .t .rhophi .theta .t 1 0 0 1 1 0 1 1 := by
  refine ⟨⟨trivial, ne_of_gt cos_one_pos, trivial,
    (sin_pos_of_pos_of_lt_pi one_pos (by linarith [two_le_pi])).ne', trivial, trivial⟩, ?_⟩
  simp only [dd_lorentz_dot, dd_spatial_dot, d_spatial_theta]
  intro h
  apply h.1
  have h2 : (2.0 : ℝ) = 2 := by norm_num
  rw [h2, L.cos_two_arctan_exp_neg, Real.sinh_zero, zero_div]

example : TanOK .theta 1 ∧ SinOK .theta 1 ∧ CanonTmp .tau 2 ∧ LB.DotEtaOK .rhophi .eta .rhophi .theta 1 1 :=
  ⟨ne_of_gt cos_one_pos, (sin_pos_of_pos_of_lt_pi one_pos (by linarith [two_le_pi])).ne',
    by show (0 : ℝ) ≤ 2; norm_num, one_ne_zero⟩

/-! ### add, subtract -/

theorem dom_lorentz_add (k0 : Az) (k1 : Lon) (k2 : Tmp) (k3 : Az) (k4 : Lon) (k5 : Tmp) (a0 a1 a2 a3 a4 a5 a6 a7 : ℝ)
    (h1 : TanOK k1 a2) (h2 : TanOK k4 a6) (hs1 : SinOK k1 a2) (hs2 : SinOK k4 a6)
    (_hd1 : CanonTmp k2 a3) (_hd2 : CanonTmp k5 a7)
    (hrep : Representable3 (spatial_add.ret k0 k1 k3 k4) (add3 (cart3 k0 k1 a0 a1 a2) (cart3 k3 k4 a4 a5 a6))) :
    lorentz_add.evalDom k0 k1 k2 k3 k4 k5 a0 a1 a2 a3 a4 a5 a6 a7 :=
  LB.lorentz_add_of k0 k1 k2 k3 k4 k5 a0 a1 a2 a3 a4 a5 a6 a7 (LB.t_op k0 k1 k2 a0 a1 a2 a3 hs1)
    (LB.t_op k3 k4 k5 a4 a5 a6 a7 hs2) (LB.spatial_add_dom k0 k1 k3 k4 a0 a1 a2 a4 a5 a6 h1 h2 hs1 hs2 hrep)
    (LB.tau_t_op _ _ _ _ _ _ (spatial_add_sinOK k0 k1 k3 k4 a0 a1 a2 a4 a5 a6 hrep))

theorem dom_lorentz_subtract (k0 : Az) (k1 : Lon) (k2 : Tmp) (k3 : Az) (k4 : Lon) (k5 : Tmp)
    (a0 a1 a2 a3 a4 a5 a6 a7 : ℝ)
    (h1 : TanOK k1 a2) (h2 : TanOK k4 a6) (hs1 : SinOK k1 a2) (hs2 : SinOK k4 a6)
    (_hd1 : CanonTmp k2 a3) (_hd2 : CanonTmp k5 a7)
    (hrep : Representable3 (spatial_subtract.ret k0 k1 k3 k4) (sub3 (cart3 k0 k1 a0 a1 a2) (cart3 k3 k4 a4 a5 a6)))
    (_hc : k2 = .tau → k5 = .tau →
      0 ≤ tOf k0 k1 k2 a0 a1 a2 a3 - tOf k3 k4 k5 a4 a5 a6 a7 ∧
      (xOf k0 a0 a1 - xOf k3 a4 a5) ^ 2 + (yOf k0 a0 a1 - yOf k3 a4 a5) ^ 2 + (zOf k0 k1 a0 a1 a2 - zOf k3 k4 a4 a5 a6) ^ 2
        ≤ (tOf k0 k1 k2 a0 a1 a2 a3 - tOf k3 k4 k5 a4 a5 a6 a7) ^ 2) :
    lorentz_subtract.evalDom k0 k1 k2 k3 k4 k5 a0 a1 a2 a3 a4 a5 a6 a7 :=
  LB.lorentz_subtract_of k0 k1 k2 k3 k4 k5 a0 a1 a2 a3 a4 a5 a6 a7 (LB.t_op k0 k1 k2 a0 a1 a2 a3 hs1)
    (LB.t_op k3 k4 k5 a4 a5 a6 a7 hs2) (LB.spatial_subtract_dom k0 k1 k3 k4 a0 a1 a2 a4 a5 a6 h1 h2 hs1 hs2 hrep)
    (LB.tau_t_op _ _ _ _ _ _ (spatial_subtract_sinOK k0 k1 k3 k4 a0 a1 a2 a4 a5 a6 hrep))

example : TanOK .theta 1 ∧ SinOK .theta 1 ∧ CanonTmp .tau 2 ∧
    Representable3 (spatial_add.ret .xy .theta .xy .theta) (add3 (cart3 .xy .theta 1 0 1) (cart3 .xy .theta 1 0 1)) := by
  refine ⟨ne_of_gt cos_one_pos, (sin_pos_of_pos_of_lt_pi one_pos (by linarith [two_le_pi])).ne',
    by show (0 : ℝ) ≤ 2; norm_num, Or.inr ?_⟩
  norm_num [add3, cart3, xOf, yOf]

/-! ### equal, not_equal, isclose -/

theorem dom_lorentz_equal (k0 : Az) (k1 : Lon) (k2 : Tmp) (k3 : Az) (k4 : Lon) (k5 : Tmp)
    (a0 a1 a2 a3 a4 a5 a6 a7 : ℝ)
    (c1 : Canon4 k0 k1 k2 a0 a1 a2 a3) (c2 : Canon4 k3 k4 k5 a4 a5 a6 a7) (t1 : TanOK k1 a2) (t2 : TanOK k4 a6)
    (_h : lorentz_equal.eval k0 k1 k2 k3 k4 k5 a0 a1 a2 a3 a4 a5 a6 a7) :
    lorentz_equal.evalDom k0 k1 k2 k3 k4 k5 a0 a1 a2 a3 a4 a5 a6 a7 :=
  LB.lorentz_equal_of k0 k1 k2 k3 k4 k5 a0 a1 a2 a3 a4 a5 a6 a7
    (LB.t_op k0 k1 k2 a0 a1 a2 a3 (Spec.SinOK_of_canonLon c1.1.2))
    (LB.t_op k3 k4 k5 a4 a5 a6 a7 (Spec.SinOK_of_canonLon c2.1.2))
    (LB.spatial_equal_dom k0 k1 k3 k4 a0 a1 a2 a4 a5 a6 c1.1.2 c2.1.2 t1 t2)

theorem dom_lorentz_not_equal (k0 : Az) (k1 : Lon) (k2 : Tmp) (k3 : Az) (k4 : Lon) (k5 : Tmp)
    (a0 a1 a2 a3 a4 a5 a6 a7 : ℝ)
    (c1 : Canon4 k0 k1 k2 a0 a1 a2 a3) (c2 : Canon4 k3 k4 k5 a4 a5 a6 a7) (t1 : TanOK k1 a2) (t2 : TanOK k4 a6)
    (_h : ¬ cart4 k0 k1 k2 a0 a1 a2 a3 = cart4 k3 k4 k5 a4 a5 a6 a7) :
    lorentz_not_equal.evalDom k0 k1 k2 k3 k4 k5 a0 a1 a2 a3 a4 a5 a6 a7 :=
  LB.lorentz_not_equal_of k0 k1 k2 k3 k4 k5 a0 a1 a2 a3 a4 a5 a6 a7
    (LB.t_op k0 k1 k2 a0 a1 a2 a3 (Spec.SinOK_of_canonLon c1.1.2))
    (LB.t_op k3 k4 k5 a4 a5 a6 a7 (Spec.SinOK_of_canonLon c2.1.2))
    (LB.spatial_not_equal_dom k0 k1 k3 k4 a0 a1 a2 a4 a5 a6 c1.1.2 c2.1.2 t1 t2)

/-- `isclose` between operands of the SAME coordinate system (the setting of `c12_lorentz_isclose_same` and
`c12_lorentz_isclose_refl`, no hypothesis on the operands) compares the stored coordinates directly: `evalDom` is `True` -/
theorem dom_lorentz_isclose_same (k0 : Az) (k1 : Lon) (k2 : Tmp) (r t e a0 a1 a2 a3 b0 b1 b2 b3 : ℝ) :
    lorentz_isclose.evalDom k0 k1 k2 k0 k1 k2 r t e a0 a1 a2 a3 b0 b1 b2 b3 := by
  induction k0 <;> induction k1 <;> induction k2 <;> simp only [dd_lorentz_isclose, dd_spatial_isclose]

/-- EXTRA HYPOTHESIS: `c1`, `c2`, `t1`, `t2` (those of `refine_lorentz_equal`).  There is no refinement theorem for
`isclose` between different coordinate systems; the theorems `c12_lorentz_isclose_of_eq` / `c12_lorentz_isclose_mono` are
stated for all 144 key pairs with NO hypothesis on the operands (`_hr`, `_ht` are the hypotheses of `…_of_eq` on the
tolerances).  They are implications between two evaluations of the same conversions, so they are true also where a
conversion is singular (e.g. `θ = 0` converted to `η = −log tan 0`), but only by using the same totalised value on both
sides; regularity needs the representability of both operands. -/
theorem dom_lorentz_isclose_partial (k0 : Az) (k1 : Lon) (k2 : Tmp) (k3 : Az) (k4 : Lon) (k5 : Tmp)
    (r t e a0 a1 a2 a3 a4 a5 a6 a7 : ℝ) (_hr : 0 ≤ r) (_ht : 0 ≤ t)
    (c1 : Canon4 k0 k1 k2 a0 a1 a2 a3) (c2 : Canon4 k3 k4 k5 a4 a5 a6 a7) (t1 : TanOK k1 a2) (t2 : TanOK k4 a6) :
    lorentz_isclose.evalDom k0 k1 k2 k3 k4 k5 r t e a0 a1 a2 a3 a4 a5 a6 a7 :=
  LB.lorentz_isclose_of k0 k1 k2 k3 k4 k5 r t e a0 a1 a2 a3 a4 a5 a6 a7
    (LB.t_op k0 k1 k2 a0 a1 a2 a3 (Spec.SinOK_of_canonLon c1.1.2))
    (LB.t_op k3 k4 k5 a4 a5 a6 a7 (Spec.SinOK_of_canonLon c2.1.2))
    (LB.spatial_isclose_dom k0 k1 k3 k4 r t e a0 a1 a2 a4 a5 a6 c1.1.2 c2.1.2 t1 t2)

example : Canon4 .rhophi .eta .tau 1 0 0 2 ∧ TanOK .eta 0 := by
  refine ⟨⟨⟨by norm_num [Canon2], by norm_num [CanonLon, rhoOf]⟩, ?_⟩, trivial⟩
  show (0 : ℝ) ≤ 2; norm_num

/-! ### deltaRapidityPhi2, deltaRapidityPhi -/

theorem dom_lorentz_deltaRapidityPhi2 (k0 : Az) (k1 : Lon) (k2 : Tmp) (k3 : Az) (k4 : Lon) (k5 : Tmp)
    (a0 a1 a2 a3 a4 a5 a6 a7 : ℝ)
    (h1 : TanOK k1 a2) (h2 : TanOK k4 a6) (hs1 : SinOK k1 a2) (hs2 : SinOK k4 a6)
    (hd1 : CanonTmp k2 a3) (hd2 : CanonTmp k5 a7)
    (hz1 : |zOf k0 k1 a0 a1 a2| < tOf k0 k1 k2 a0 a1 a2 a3) (hz2 : |zOf k3 k4 a4 a5 a6| < tOf k3 k4 k5 a4 a5 a6 a7) :
    lorentz_deltaRapidityPhi2.evalDom k0 k1 k2 k3 k4 k5 a0 a1 a2 a3 a4 a5 a6 a7 :=
  LB.lorentz_deltaRapidityPhi2_of k0 k1 k2 k3 k4 k5 a0 a1 a2 a3 a4 a5 a6 a7 (LB.deltaphi_dom k0 k3 a0 a1 a4 a5)
    (LB.rap_op k0 k1 k2 a0 a1 a2 a3 h1 hs1 hd1 hz1) (LB.rap_op k3 k4 k5 a4 a5 a6 a7 h2 hs2 hd2 hz2)

theorem dom_lorentz_deltaRapidityPhi (k0 : Az) (k1 : Lon) (k2 : Tmp) (k3 : Az) (k4 : Lon) (k5 : Tmp)
    (a0 a1 a2 a3 a4 a5 a6 a7 : ℝ)
    (h1 : TanOK k1 a2) (h2 : TanOK k4 a6) (hs1 : SinOK k1 a2) (hs2 : SinOK k4 a6)
    (hd1 : CanonTmp k2 a3) (hd2 : CanonTmp k5 a7)
    (hz1 : |zOf k0 k1 a0 a1 a2| < tOf k0 k1 k2 a0 a1 a2 a3) (hz2 : |zOf k3 k4 a4 a5 a6| < tOf k3 k4 k5 a4 a5 a6 a7) :
    lorentz_deltaRapidityPhi.evalDom k0 k1 k2 k3 k4 k5 a0 a1 a2 a3 a4 a5 a6 a7 :=
  LB.lorentz_deltaRapidityPhi_of k0 k1 k2 k3 k4 k5 a0 a1 a2 a3 a4 a5 a6 a7
    (dom_lorentz_deltaRapidityPhi2 k0 k1 k2 k3 k4 k5 a0 a1 a2 a3 a4 a5 a6 a7 h1 h2 hs1 hs2 hd1 hd2 hz1 hz2)

example : |zOf .xy .z 0 0 1| < tOf .xy .z .t 0 0 1 2 := by norm_num [zOf, tOf]


end VR
