/-
Regularity ("Dom") theorems for the spatial rotation / transform modules
`rotateX`, `rotateY`, `rotate_axis`, `rotate_euler` (72 keys), `rotate_quaternion`, `transform3D`.

Every non-Cartesian variant of these modules converts its operand(s) to Cartesian components with the accessors
`planar_x`, `planar_y`, `spatial_z` and then applies the Cartesian variant; all results are Cartesian `(xy, z)`.  The only
partial primitives are therefore
* `ρ / tan θ` in `spatial_z.*_theta` (side-conditions `cos θ ≠ 0`, `tan θ ≠ 0`),
* `√(x² + y²)` in `spatial_z.xy_*` (side-condition `0 ≤ x² + y²`, always true),
* the normalisation `u / √(ux² + uy² + uz²)` of the axis in `rotate_axis.cartesian`.

FINDINGS.  The refinement theorems of these modules (`refine_spatial_rotateX`, …, `refine_spatial_rotate_axis` in
Refine/SpatialRot.lean) carry only `TanOK k1 c` (`cos θ ≠ 0`).  That does NOT imply `tan θ ≠ 0`: at `θ = 0` (and `θ = π`)
the code divides by `tan θ = 0`.  And `refine_spatial_rotate_axis` admits the zero vector as axis, where the code divides
by `√0 = 0`.  Hence all six theorems below are `…_partial`, with the extra hypotheses spelt out.
-/
import VectorModel.Dom.Basic
import VectorModel.Refine.SpatialRot

namespace VR
open VK Spec Real

namespace D

/-- `tan θ ≠ 0` needs BOTH `cos θ ≠ 0` and `sin θ ≠ 0` -/
theorem tan_ne_zero {c : ℝ} (hc : cos c ≠ 0) (hs : sin c ≠ 0) : tan c ≠ 0 := by
  rw [Real.tan_eq_sin_div_cos]; exact div_ne_zero hs hc

/-- `CanonLon` supplies `sin θ ≠ 0` for θ storage -/
theorem sin_ne_zero_of_canonLon {k0 : Az} {k1 : Lon} {a b c : ℝ} (h : CanonLon k0 k1 a b c) :
    k1 = .theta → sin c ≠ 0 := by
  rintro rfl; exact (Real.sin_pos_of_pos_of_lt_pi h.2.1 h.2.2).ne'

end D

/-! ### the converter `spatial_z` (proved locally; `Dom/Planar.lean` is being written concurrently) -/

/-- `spatial_z` is regular when `cos θ ≠ 0` AND `sin θ ≠ 0` for θ storage (nothing is needed for z / η storage) -/
private theorem dom_z (k0 : Az) (k1 : Lon) (a b c : ℝ) (h : TanOK k1 c) (hs : k1 = .theta → sin c ≠ 0) :
    spatial_z.evalDom k0 k1 a b c := by
  cases k0 <;> cases k1 <;> simp only [dd_spatial_z, dd_planar_rho, d_planar_rho2]
  · exact ⟨D.sumsq_nonneg a b, h, D.tan_ne_zero h (hs rfl)⟩
  · exact D.sumsq_nonneg a b
  · exact ⟨h, D.tan_ne_zero h (hs rfl)⟩

/-! ### rotateX, rotateY, rotate_quaternion, transform3D, rotate_euler: `evalDom` is that of `spatial_z` on the operand -/

/-- EXTRA HYPOTHESIS: `hs : k1 = .theta → sin c ≠ 0`.  Needed by the keys `(xy, theta)` and `(rhophi, theta)`, whose
variants compute `z = ρ / tan θ`: `refine_spatial_rotateX` assumes only `TanOK k1 c` (`cos θ ≠ 0`), which holds at `θ = 0`
where `tan θ = 0`.  There the real code returns `z = +inf` for `ρ > 0` (e.g. `rho=1, phi=0, theta=0`, angle 0.3 gives
`(1, -inf, inf)`), whereas the refinement theorem, through Lean's `1 / 0 = 0`, claims `rotX` of `(1, 0, 0)`. -/
theorem dom_spatial_rotateX_partial (k0 : Az) (k1 : Lon) (ang a b c : ℝ) (h : TanOK k1 c)
    (hs : k1 = .theta → sin c ≠ 0) :
    spatial_rotateX.evalDom k0 k1 ang a b c := by
  have hz := dom_z k0 k1 a b c h hs
  cases k0 <;> cases k1 <;> exact hz

/-- the same under the representable-domain hypothesis `CanonLon` (which gives `0 < θ < π`) -/
theorem dom_spatial_rotateX_canon (k0 : Az) (k1 : Lon) (ang a b c : ℝ) (h : TanOK k1 c)
    (hc : CanonLon k0 k1 a b c) :
    spatial_rotateX.evalDom k0 k1 ang a b c :=
  dom_spatial_rotateX_partial k0 k1 ang a b c h (D.sin_ne_zero_of_canonLon hc)

/-- EXTRA HYPOTHESIS: `hs : k1 = .theta → sin c ≠ 0` (keys `(xy, theta)`, `(rhophi, theta)`; `z = ρ / tan θ` at `θ = 0`,
see `dom_spatial_rotateX_partial`).  Real code at `rho=1, phi=0, theta=0`, angle 0.3: `(inf, 0, inf)`. -/
theorem dom_spatial_rotateY_partial (k0 : Az) (k1 : Lon) (ang a b c : ℝ) (h : TanOK k1 c)
    (hs : k1 = .theta → sin c ≠ 0) :
    spatial_rotateY.evalDom k0 k1 ang a b c := by
  have hz := dom_z k0 k1 a b c h hs
  cases k0 <;> cases k1 <;> exact hz

theorem dom_spatial_rotateY_canon (k0 : Az) (k1 : Lon) (ang a b c : ℝ) (h : TanOK k1 c)
    (hc : CanonLon k0 k1 a b c) :
    spatial_rotateY.evalDom k0 k1 ang a b c :=
  dom_spatial_rotateY_partial k0 k1 ang a b c h (D.sin_ne_zero_of_canonLon hc)

/-- EXTRA HYPOTHESIS: `hs : k1 = .theta → sin c ≠ 0` (keys `(xy, theta)`, `(rhophi, theta)`; `z = ρ / tan θ` at `θ = 0`).
Real code at `rho=1, phi=0, theta=0` with the identity quaternion `(1, 0, 0, 0)`: `(nan, nan, inf)`; the refinement
theorem claims the Cartesian formula on `(1, 0, 0)`. -/
theorem dom_spatial_rotate_quaternion_partial (k0 : Az) (k1 : Lon) (u i j k a b c : ℝ) (h : TanOK k1 c)
    (hs : k1 = .theta → sin c ≠ 0) :
    spatial_rotate_quaternion.evalDom k0 k1 u i j k a b c := by
  have hz := dom_z k0 k1 a b c h hs
  cases k0 <;> cases k1 <;> exact hz

theorem dom_spatial_rotate_quaternion_canon (k0 : Az) (k1 : Lon) (u i j k a b c : ℝ) (h : TanOK k1 c)
    (hc : CanonLon k0 k1 a b c) :
    spatial_rotate_quaternion.evalDom k0 k1 u i j k a b c :=
  dom_spatial_rotate_quaternion_partial k0 k1 u i j k a b c h (D.sin_ne_zero_of_canonLon hc)

/-- EXTRA HYPOTHESIS: `hs : k1 = .theta → sin c ≠ 0` (keys `(xy, theta)`, `(rhophi, theta)`; `z = ρ / tan θ` at `θ = 0`).
Real code at `rho=1, phi=0, theta=0` with the identity matrix: `(nan, nan, inf)`; `refine_spatial_transform3D_interp`
claims `(1, 0, 0)`. -/
theorem dom_spatial_transform3D_partial (k0 : Az) (k1 : Lon) (xx xy xz yx yy yz zx zy zz a b c : ℝ)
    (h : TanOK k1 c) (hs : k1 = .theta → sin c ≠ 0) :
    spatial_transform3D.evalDom k0 k1 xx xy xz yx yy yz zx zy zz a b c := by
  have hz := dom_z k0 k1 a b c h hs
  cases k0 <;> cases k1 <;> exact hz

theorem dom_spatial_transform3D_canon (k0 : Az) (k1 : Lon) (xx xy xz yx yy yz zx zy zz a b c : ℝ)
    (h : TanOK k1 c) (hc : CanonLon k0 k1 a b c) :
    spatial_transform3D.evalDom k0 k1 xx xy xz yx yy yz zx zy zz a b c :=
  dom_spatial_transform3D_partial k0 k1 xx xy xz yx yy yz zx zy zz a b c h (D.sin_ne_zero_of_canonLon hc)

/-- EXTRA HYPOTHESIS: `hs : k1 = .theta → sin c ≠ 0` (the 24 keys `(xy | rhophi, theta, order)`; `z = ρ / tan θ` at
`θ = 0`).  Real code at `rho=1, phi=0, theta=0`, angles `(0.1, 0.2, 0.3)`, order `zxz`: `(inf, inf, inf)`. -/
theorem dom_spatial_rotate_euler_partial (k0 : Az) (k1 : Lon) (o : Ord) (phi theta psi a b c : ℝ)
    (h : TanOK k1 c) (hs : k1 = .theta → sin c ≠ 0) :
    spatial_rotate_euler.evalDom k0 k1 o phi theta psi a b c := by
  have hz := dom_z k0 k1 a b c h hs
  cases k0 <;> cases k1 <;> cases o <;> exact hz

theorem dom_spatial_rotate_euler_canon (k0 : Az) (k1 : Lon) (o : Ord) (phi theta psi a b c : ℝ)
    (h : TanOK k1 c) (hc : CanonLon k0 k1 a b c) :
    spatial_rotate_euler.evalDom k0 k1 o phi theta psi a b c :=
  dom_spatial_rotate_euler_partial k0 k1 o phi theta psi a b c h (D.sin_ne_zero_of_canonLon hc)

/-- the hypotheses (original + extra) are satisfiable for θ storage, and `CanonLon` too -/
example : TanOK .theta 1 ∧ ((Lon.theta = .theta) → sin (1 : ℝ) ≠ 0) ∧ CanonLon .rhophi .theta 2 1 1 :=
  ⟨ne_of_gt cos_one_pos, fun _ => (sin_pos_of_pos_of_lt_pi one_pos (by linarith [two_le_pi])).ne',
    ⟨by norm_num [rhoOf], by norm_num, by linarith [two_le_pi]⟩⟩

/-- the ORIGINAL hypothesis alone is satisfied at the singular point `θ = 0`, where the side-condition fails -/
example : TanOK .theta 0 ∧ ¬ spatial_rotateX.evalDom .rhophi .theta 0.3 1 0 0 := by
  refine ⟨by simp [TanOK], ?_⟩
  simp only [dd_spatial_rotateX, dd_spatial_z]
  simp

/-! ### rotate_axis (36 keys: axis × vector) -/

/-- the Cartesian variant normalises the axis: regular iff the axis is not the zero vector -/
private theorem dom_axis_cart (ang x1 y1 z1 x2 y2 z2 : ℝ) (hu : 0 < x1 ^ 2 + y1 ^ 2 + z1 ^ 2) :
    spatial_rotate_axis.cartesian.Dom ang x1 y1 z1 x2 y2 z2 := by
  simp only [dd_spatial_rotate_axis]
  exact ⟨hu.le, (Real.sqrt_pos.mpr hu).ne'⟩

/-- EXTRA HYPOTHESES (`refine_spatial_rotate_axis` has only `h1`, `h2`):
* `hu : 0 < mag2Of k0 k1 a b c` — ALL 36 keys: `rotate_axis.cartesian` divides the axis by its length
  `√(ux² + uy² + uz²)`.  At the zero axis the real code returns `(nan, nan, nan)` (`x=1,y=2,z=3` about `x=0,y=0,z=0`);
  the refinement theorem (C01: every key equals the Cartesian key on the denotations) holds there only because both
  sides consult Lean's `u / 0 = 0`.  The C10 theorems (`c10_rotate_axis_dot`, `…_eval_dot`, …) do carry this hypothesis.
* `hs1 : k1 = .theta → sin c ≠ 0`, `hs2 : k3 = .theta → sin f ≠ 0` — the keys with θ storage for the axis resp. the
  vector: `z = ρ / tan θ` at `θ = 0` (`cos θ ≠ 0` does not exclude it).  Real code, axis `rho=1, phi=0, theta=0`:
  `(nan, nan, nan)`. -/
theorem dom_spatial_rotate_axis_partial (k0 : Az) (k1 : Lon) (k2 : Az) (k3 : Lon) (ang a b c d e f : ℝ)
    (h1 : TanOK k1 c) (h2 : TanOK k3 f)
    (hu : 0 < mag2Of k0 k1 a b c) (hs1 : k1 = .theta → sin c ≠ 0) (hs2 : k3 = .theta → sin f ≠ 0) :
    spatial_rotate_axis.evalDom k0 k1 k2 k3 ang a b c d e f := by
  have hz1 := dom_z k0 k1 a b c h1 hs1
  have hz2 := dom_z k2 k3 d e f h2 hs2
  have hc : spatial_rotate_axis.cartesian.Dom ang (planar_x.eval k0 a b) (planar_y.eval k0 a b)
      (spatial_z.eval k0 k1 a b c) (planar_x.eval k2 d e) (planar_y.eval k2 d e) (spatial_z.eval k2 k3 d e f) := by
    apply dom_axis_cart
    rw [refine_spatial_z k0 k1 a b c h1]
    have ex : planar_x.eval k0 a b = xOf k0 a b := by cases k0 <;> rfl
    have ey : planar_y.eval k0 a b = yOf k0 a b := by cases k0 <;> rfl
    rw [ex, ey]
    exact hu
  cases k0 <;> cases k1 <;> cases k2 <;> cases k3 <;>
    first | exact hc | exact ⟨hz1, hc⟩ | exact ⟨hz2, hc⟩ | exact ⟨hz1, hz2, hc⟩

/-- under the representable-domain hypotheses: `CanonLon` gives `sin θ ≠ 0`; the non-zero axis is still needed
(`CanonLon` gives `0 < ρ` for θ/η storage only) -/
theorem dom_spatial_rotate_axis_canon (k0 : Az) (k1 : Lon) (k2 : Az) (k3 : Lon) (ang a b c d e f : ℝ)
    (h1 : TanOK k1 c) (h2 : TanOK k3 f)
    (hu : 0 < mag2Of k0 k1 a b c) (hc1 : CanonLon k0 k1 a b c) (hc2 : CanonLon k2 k3 d e f) :
    spatial_rotate_axis.evalDom k0 k1 k2 k3 ang a b c d e f :=
  dom_spatial_rotate_axis_partial k0 k1 k2 k3 ang a b c d e f h1 h2 hu
    (D.sin_ne_zero_of_canonLon hc1) (D.sin_ne_zero_of_canonLon hc2)

/-- the hypotheses are satisfiable (η-stored axis, θ-stored vector) -/
example : TanOK .eta 0 ∧ TanOK .theta 1 ∧ 0 < mag2Of .rhophi .eta 2 1 0 ∧ ((Lon.theta = .theta) → sin (1 : ℝ) ≠ 0) := by
  refine ⟨trivial, ne_of_gt cos_one_pos, ?_, fun _ => (sin_pos_of_pos_of_lt_pi one_pos (by linarith [two_le_pi])).ne'⟩
  simp only [mag2Of, xOf, yOf, zOf, rhoOf, sinh_zero, mul_zero]
  have := cos_sq_add_sin_sq (1 : ℝ)
  nlinarith [sq_nonneg (cos (1:ℝ)), sq_nonneg (sin (1:ℝ))]

/-- the ORIGINAL hypotheses alone are satisfied at the zero axis, where the side-condition fails -/
example : TanOK .z 0 ∧ TanOK .z 3 ∧ ¬ spatial_rotate_axis.evalDom .xy .z .xy .z 0.3 0 0 0 1 2 3 := by
  refine ⟨trivial, trivial, ?_⟩
  simp only [dd_spatial_rotate_axis]
  simp

end VR
