/-
Regularity ("Dom") theorems for the Lorentz accessor modules and the unary Lorentz operations:
under the hypotheses of the refinement theorem `refine_lorentz_<module>` the variant found under EVERY key applies no
partial primitive (`/`, `sqrt`, `log`, `tan`, …) at a singular point.
-/
import VectorModel.Dom.Basic
import VectorModel.Refine.LorentzAcc
import VectorModel.Refine.LorentzBin
import VectorModel.Props.C13

namespace VR
open VK Spec Real

namespace D

/-- the spatial `mag2` variants are regular on representable longitudinal storage (`sin θ ≠ 0`) -/
theorem mag2Dom_of_canonLon (k0 : Az) (k1 : Lon) (a b c : ℝ) (h : CanonLon k0 k1 a b c) :
    spatial_mag2.evalDom k0 k1 a b c := by
  cases k0 <;> cases k1 <;> simp only [dd_spatial_mag2]
  · exact pow_ne_zero 2 (Spec.sin_pos_of_canonLon h).ne'
  · exact (exp_pos _).ne'
  · exact pow_ne_zero 2 (Spec.sin_pos_of_canonLon h).ne'
  · exact (exp_pos _).ne'

/-- … and already under `SinOK` (`sin θ ≠ 0` for θ storage) -/
theorem mag2Dom_of_sinOK (k0 : Az) (k1 : Lon) (a b c : ℝ) (h : SinOK k1 c) :
    spatial_mag2.evalDom k0 k1 a b c := by
  cases k0 <;> cases k1 <;> simp only [dd_spatial_mag2]
  · exact pow_ne_zero 2 h
  · exact (exp_pos _).ne'
  · exact pow_ne_zero 2 h
  · exact (exp_pos _).ne'

/-- the spatial `mag` variants are regular when `sin θ ≠ 0` -/
theorem magDom_of_sinOK (k0 : Az) (k1 : Lon) (a b c : ℝ) (h : SinOK k1 c) :
    spatial_mag.evalDom k0 k1 a b c := by
  cases k0 <;> cases k1 <;> simp only [dd_spatial_mag, d_spatial_mag2]
  · positivity
  · exact ⟨by positivity, abs_ne_zero.mpr h⟩
  · exact ⟨(exp_pos _).ne', by positivity⟩
  · positivity
  · exact abs_ne_zero.mpr h
  · exact (exp_pos _).ne'

/-- the `z` converters are regular when `cos θ ≠ 0` (`tan θ` defined) and `sin θ ≠ 0` (`tan θ ≠ 0`) -/
theorem zDom_of_tanOK_sinOK (k0 : Az) (k1 : Lon) (a b c : ℝ) (ht : TanOK k1 c) (hs : SinOK k1 c) :
    spatial_z.evalDom k0 k1 a b c := by
  have tan_ne : k1 = .theta → tan c ≠ 0 := by
    intro e; subst e
    rw [Real.tan_eq_sin_div_cos]; exact div_ne_zero hs ht
  cases k0 <;> cases k1 <;> simp only [dd_spatial_z, dd_planar_rho, d_planar_rho2]
  · exact ⟨by positivity, ht, tan_ne rfl⟩
  · positivity
  · exact ⟨ht, tan_ne rfl⟩

/-- `t` is regular for every key when `sin θ ≠ 0`: the argument of the square root is a `max(·, 0)` -/
theorem tDom_of_sinOK (k0 : Az) (k1 : Lon) (k2 : Tmp) (a b c d : ℝ) (h : SinOK k1 c) :
    lorentz_t.evalDom k0 k1 k2 a b c d := by
  have hm := mag2Dom_of_sinOK k0 k1 a b c h
  cases k0 <;> cases k1 <;> cases k2 <;>
    first
    | exact And.intro hm (le_max_right _ _)
    | exact le_max_right _ _
    | trivial

/-- the side-conditions of `½ log((t + z)/(t − z))` -/
theorem rapidity_core {t z : ℝ} (h : |z| < t) : t - z ≠ 0 ∧ 0 < (t + z) / (t - z) := by
  have h1 := (abs_lt.mp h).1
  have h2 := (abs_lt.mp h).2
  exact ⟨(sub_pos.mpr h2).ne', div_pos (by linarith) (by linarith)⟩

end D

/-! ### t2, t, tau2, tau -/

theorem dom_lorentz_t2 (k0 : Az) (k1 : Lon) (k2 : Tmp) (a b c d : ℝ)
    (h : CanonLon k0 k1 a b c) (_hd : CanonTmp k2 d) :
    lorentz_t2.evalDom k0 k1 k2 a b c d := by
  have hm := D.mag2Dom_of_canonLon k0 k1 a b c h
  cases k0 <;> cases k1 <;> cases k2 <;> first | exact hm | trivial

theorem dom_lorentz_t (k0 : Az) (k1 : Lon) (k2 : Tmp) (a b c d : ℝ)
    (h : CanonLon k0 k1 a b c) (hd : CanonTmp k2 d) :
    lorentz_t.evalDom k0 k1 k2 a b c d := by
  have h2 := dom_lorentz_t2 k0 k1 k2 a b c d h hd
  have hv : 0 ≤ lorentz_t2.eval k0 k1 k2 a b c d := by
    rw [refine_lorentz_t2 k0 k1 k2 a b c d h hd]; positivity
  cases k0 <;> cases k1 <;> cases k2 <;> first | exact ⟨h2, hv⟩ | exact hv | trivial

theorem dom_lorentz_tau2 (k0 : Az) (k1 : Lon) (k2 : Tmp) (a b c d : ℝ)
    (h : CanonLon k0 k1 a b c) (_hd : CanonTmp k2 d) :
    lorentz_tau2.evalDom k0 k1 k2 a b c d := by
  have hm := D.mag2Dom_of_canonLon k0 k1 a b c h
  cases k0 <;> cases k1 <;> cases k2 <;> first | exact hm | trivial

theorem dom_lorentz_tau (k0 : Az) (k1 : Lon) (k2 : Tmp) (a b c d : ℝ)
    (h : CanonLon k0 k1 a b c) (hd : CanonTmp k2 d) :
    lorentz_tau.evalDom k0 k1 k2 a b c d := by
  have h2 := dom_lorentz_tau2 k0 k1 k2 a b c d h hd
  cases k0 <;> cases k1 <;> cases k2 <;>
    first | exact ⟨h2, abs_nonneg _⟩ | exact abs_nonneg _ | trivial

example : CanonLon .xy .theta 1 0 1 ∧ CanonTmp .tau 2 := by
  refine ⟨⟨?_, by norm_num, ?_⟩, ?_⟩
  · show 0 < sqrt ((1 : ℝ) ^ 2 + 0 ^ 2); norm_num
  · linarith [Real.one_le_pi_div_two]
  · show (0 : ℝ) ≤ 2; norm_num

/-! ### beta, gamma, rapidity -/

theorem dom_lorentz_beta (k0 : Az) (k1 : Lon) (k2 : Tmp) (a b c d : ℝ)
    (h : Canon3 k0 k1 a b c) (hd : CanonTmp k2 d) (ht : tOf k0 k1 k2 a b c d ≠ 0) :
    lorentz_beta.evalDom k0 k1 k2 a b c d := by
  have hs := Spec.SinOK_of_canonLon h.2
  have magdom := D.magDom_of_sinOK k0 k1 a b c hs
  have tdom := D.tDom_of_sinOK k0 k1 k2 a b c d hs
  have tne : lorentz_t.eval k0 k1 k2 a b c d ≠ 0 := by
    rw [refine_lorentz_t k0 k1 k2 a b c d h.2 hd]; exact ht
  cases k0 <;> cases k1 <;> cases k2 <;>
    first
    | exact And.intro magdom tne
    | exact And.intro magdom (And.intro tdom tne)

theorem dom_lorentz_gamma (k0 : Az) (k1 : Lon) (k2 : Tmp) (a b c d : ℝ)
    (h : CanonLon k0 k1 a b c) (hd : CanonTmp k2 d)
    (hs : 0 < tOf k0 k1 k2 a b c d ^ 2 - mag2Of k0 k1 a b c) :
    lorentz_gamma.evalDom k0 k1 k2 a b c d := by
  have taudom := dom_lorentz_tau k0 k1 k2 a b c d h hd
  have tdom := dom_lorentz_t k0 k1 k2 a b c d h hd
  have taune : lorentz_tau.eval k0 k1 k2 a b c d ≠ 0 := by
    rw [refine_lorentz_tau_pos k0 k1 k2 a b c d h hd hs]; exact (sqrt_pos.mpr hs).ne'
  cases k0 <;> cases k1 <;> cases k2 <;>
    first
    | exact And.intro taudom taune
    | exact And.intro tdom taune

theorem dom_lorentz_rapidity (k0 : Az) (k1 : Lon) (k2 : Tmp) (a b c d : ℝ)
    (h : CanonLon k0 k1 a b c) (htan : TanOK k1 c) (hd : CanonTmp k2 d)
    (hz : |zOf k0 k1 a b c| < tOf k0 k1 k2 a b c d) :
    lorentz_rapidity.evalDom k0 k1 k2 a b c d := by
  have zdom := D.zDom_of_tanOK_sinOK k0 k1 a b c htan (Spec.SinOK_of_canonLon h)
  have tdom := dom_lorentz_t k0 k1 k2 a b c d h hd
  rw [← refine_lorentz_t k0 k1 k2 a b c d h hd, ← refine_spatial_z k0 k1 a b c htan] at hz
  have rap := D.rapidity_core hz
  cases k0 <;> cases k1 <;> cases k2 <;>
    first
    | exact rap
    | exact And.intro zdom rap
    | exact And.intro tdom rap
    | exact And.intro zdom (And.intro tdom rap)

example : Canon3 .rhophi .eta 1 0 0 ∧ CanonTmp .t 2 ∧ tOf .rhophi .eta .t 1 0 0 2 ≠ 0
    ∧ 0 < tOf .rhophi .eta .t 1 0 0 2 ^ 2 - mag2Of .rhophi .eta 1 0 0
    ∧ |zOf .rhophi .eta 1 0 0| < tOf .rhophi .eta .t 1 0 0 2 := by
  simp [Canon3, Canon2, CanonLon, CanonTmp, tOf, mag2Of, xOf, yOf, zOf, rhoOf]

/-! ### Et2, Et -/

/-- the `t`-keyed variants of `Et2` at an arbitrary time argument -/
private theorem Et2_core_dom (k0 : Az) (k1 : Lon) (a b c t : ℝ) (hm : 0 < mag2Of k0 k1 a b c) :
    lorentz_Et2.evalDom k0 k1 .t a b c t := by
  rw [Spec.mag2Of_eq] at hm
  have he : exp (-c) ≠ 0 ∧ exp (-c) + 1 / exp (-c) ≠ 0 :=
    ⟨(exp_pos _).ne', by have := exp_pos (-c); positivity⟩
  cases k0 <;> cases k1 <;> simp only [dd_lorentz_Et2, rhoOf, zOf, L.sq_sqrt_sumsq] at hm ⊢
  · exact hm.ne'
  · exact he
  · exact hm.ne'
  · exact he

theorem dom_lorentz_Et2 (k0 : Az) (k1 : Lon) (k2 : Tmp) (a b c d : ℝ)
    (h : CanonLon k0 k1 a b c) (hd : CanonTmp k2 d) (hm : 0 < mag2Of k0 k1 a b c) :
    lorentz_Et2.evalDom k0 k1 k2 a b c d := by
  have tdom := dom_lorentz_t k0 k1 k2 a b c d h hd
  have core := Et2_core_dom k0 k1 a b c (lorentz_t.eval k0 k1 k2 a b c d) hm
  cases k0 <;> cases k1 <;> cases k2 <;>
    first
    | exact core
    | exact tdom
    | exact And.intro tdom core

/-- the `t`-keyed variants of `Et` at an arbitrary time argument -/
private theorem Et_core_dom (k0 : Az) (k1 : Lon) (a b c t : ℝ) (hm : 0 < mag2Of k0 k1 a b c) :
    lorentz_Et.evalDom k0 k1 .t a b c t := by
  have h2 := Et2_core_dom k0 k1 a b c t hm
  rw [Spec.mag2Of_eq] at hm
  have he : exp (-c) ≠ 0 ∧ exp (-c) + 1 / exp (-c) ≠ 0 :=
    ⟨(exp_pos _).ne', by have := exp_pos (-c); positivity⟩
  cases k0 <;> cases k1 <;> simp only [dd_lorentz_Et, rhoOf, zOf, L.sq_sqrt_sumsq] at hm ⊢
  · refine ⟨h2, ?_⟩
    simp only [d_lorentz_Et2]
    exact div_nonneg (by positivity) hm.le
  · exact he
  · exact ⟨hm.le, (sqrt_pos.mpr hm).ne'⟩
  · exact he

theorem dom_lorentz_Et (k0 : Az) (k1 : Lon) (k2 : Tmp) (a b c d : ℝ)
    (h : Canon3 k0 k1 a b c) (hd : CanonTmp k2 d) (hm : 0 < mag2Of k0 k1 a b c)
    (_ht : 0 ≤ tOf k0 k1 k2 a b c d) :
    lorentz_Et.evalDom k0 k1 k2 a b c d := by
  have tdom := dom_lorentz_t k0 k1 k2 a b c d h.2 hd
  have core := Et_core_dom k0 k1 a b c (lorentz_t.eval k0 k1 k2 a b c d) hm
  cases k0 <;> cases k1 <;> cases k2 <;>
    first
    | exact core
    | exact tdom
    | exact And.intro tdom core

example : Canon3 .rhophi .z 1 0 0 ∧ CanonTmp .t 2 ∧ 0 < mag2Of .rhophi .z 1 0 0
    ∧ 0 ≤ tOf .rhophi .z .t 1 0 0 2 := by
  simp [Canon3, Canon2, CanonLon, CanonTmp, tOf, mag2Of, xOf, yOf, zOf]

/-! ### Mt2, Mt

FINDING.  `refine_lorentz_Mt2` / `refine_lorentz_Mt` assume only `TanOK k1 c` (`cos θ ≠ 0`) and `CanonTmp k2 d`.  For the keys
`(_, θ, t)` the code computes `z = ρ / tan θ`; `tan θ ≠ 0` needs `sin θ ≠ 0`, which those hypotheses do not grant.  At
`θ = 0` (e.g. `x = 1, y = 0, θ = 0, t = 2`) the real code returns `z = inf`, `Mt2 = -inf`, `Mt = nan`, whereas the refinement
theorems (through Lean's `ρ / 0 = 0` on the code side and `cos 0 / sin 0 = 0` on the specification side) claim `Mt2 = 4`,
`Mt = 2`. -/

/-- EXTRA HYPOTHESIS: `hsin : k2 = .t → SinOK k1 c` (`sin θ ≠ 0` for the keys `(xy|rhophi, theta, t)`), needed because these
variants divide by `tan θ` (`z = ρ / tan θ`); `refine_lorentz_Mt2` has only `TanOK` (`cos θ ≠ 0`). The `tau`-keyed variants
(`max(τ² + ρ², 0)`) are regular without it. -/
theorem dom_lorentz_Mt2_partial (k0 : Az) (k1 : Lon) (k2 : Tmp) (a b c d : ℝ)
    (htan : TanOK k1 c) (_hd : CanonTmp k2 d) (hsin : k2 = .t → SinOK k1 c) :
    lorentz_Mt2.evalDom k0 k1 k2 a b c d := by
  cases k2
  · have zdom := D.zDom_of_tanOK_sinOK k0 k1 a b c htan (hsin rfl)
    -- `lorentz_Mt2.evalDom k0 k1 .t` is `spatial_z.evalDom k0 k1` (`True` for the keys without a conversion)
    cases k0 <;> cases k1 <;> exact zdom
  · cases k0 <;> cases k1 <;> trivial

/-- EXTRA HYPOTHESIS: `hsin : k2 = .t → SinOK k1 c`, as for `dom_lorentz_Mt2_partial` (`Mt = √Mt2` calls the same
`z = ρ / tan θ`). -/
theorem dom_lorentz_Mt_partial (k0 : Az) (k1 : Lon) (k2 : Tmp) (a b c d : ℝ)
    (htan : TanOK k1 c) (hd : CanonTmp k2 d)
    (hs : 0 ≤ tOf k0 k1 k2 a b c d ^ 2 - zOf k0 k1 a b c ^ 2) (hsin : k2 = .t → SinOK k1 c) :
    lorentz_Mt.evalDom k0 k1 k2 a b c d := by
  have m2dom := dom_lorentz_Mt2_partial k0 k1 k2 a b c d htan hd hsin
  rw [← refine_lorentz_Mt2 k0 k1 k2 a b c d htan hd] at hs
  cases k0 <;> cases k1 <;> cases k2 <;>
    first
    | exact hs
    | exact And.intro m2dom hs

example : TanOK .theta 1 ∧ CanonTmp .t 1 ∧ (Tmp.t = .t → SinOK .theta 1)
    ∧ 0 ≤ tOf .xy .z .t 1 0 0 1 ^ 2 - zOf .xy .z 1 0 0 ^ 2 := by
  refine ⟨ne_of_gt cos_one_pos, trivial,
    fun _ => (sin_pos_of_pos_of_lt_pi one_pos (by linarith [two_le_pi])).ne', ?_⟩
  simp [tOf, zOf]

/-- the counterexample point satisfies the hypotheses of `refine_lorentz_Mt2` / `refine_lorentz_Mt`, and the side-condition
`tan θ ≠ 0` of `z = ρ / tan θ` fails there -/
example : TanOK .theta 0 ∧ CanonTmp .t 2 ∧ 0 ≤ tOf .xy .theta .t 1 0 0 2 ^ 2 - zOf .xy .theta 1 0 0 ^ 2
    ∧ ¬ lorentz_Mt2.evalDom .xy .theta .t 1 0 0 2 := by
  refine ⟨by simp [TanOK], trivial, by simp [tOf, zOf], ?_⟩
  simp [dd_lorentz_Mt2, dd_spatial_z]

/-! ### is_timelike, is_lightlike, is_spacelike

The three predicates threshold the Minkowski self-product `lorentz_dot.eval k k v v` (`c13_is_…_iff_dot`, a definitional
unfolding without hypotheses that consults no value).  The theorems that give them a VALUE are
`c13_causal_classes_t_keys` (hypothesis `hθ`) and `c13_causal_classes_tau_keys` (hypotheses `hθ`, `0 ≤ tau`); their
hypotheses are the ones used here (`CanonTmp k2 a3` is `0 ≤ a3` for τ storage and `True` for t storage). -/

/-- regularity of the spatial self-product -/
private theorem dotSelf_dom (k0 : Az) (k1 : Lon) (a0 a1 a2 : ℝ)
    (hθ : k1 = .theta → Real.sin a2 ≠ 0 ∧ Real.cos a2 ≠ 0) :
    spatial_dot.evalDom k0 k1 k0 k1 a0 a1 a2 a0 a1 a2 := by
  have hs : SinOK k1 a2 := by
    cases k1
    · trivial
    · exact (hθ rfl).1
    · trivial
  have ht : TanOK k1 a2 := by
    cases k1
    · trivial
    · exact (hθ rfl).2
    · trivial
  have zdom := D.zDom_of_tanOK_sinOK k0 k1 a0 a1 a2 ht hs
  induction k0 <;> induction k1 <;> simp only [dd_spatial_dot]
  · exact ⟨zdom, zdom⟩
  · exact ⟨zdom, zdom⟩
  · have z' : cos a2 ≠ 0 ∧ tan a2 ≠ 0 := zdom
    exact ⟨z'.1, z'.1, mul_ne_zero z'.2 z'.2⟩
  · exact ⟨(exp_pos _).ne', (exp_pos _).ne'⟩

theorem dom_lorentz_is_timelike (k0 : Az) (k1 : Lon) (k2 : Tmp) (tol a0 a1 a2 a3 : ℝ)
    (hθ : k1 = .theta → Real.sin a2 ≠ 0 ∧ Real.cos a2 ≠ 0) (_htau : CanonTmp k2 a3) :
    lorentz_is_timelike.evalDom k0 k1 k2 tol a0 a1 a2 a3 := by
  have hs : SinOK k1 a2 := by
    cases k1
    · trivial
    · exact (hθ rfl).1
    · trivial
  have dotdom := dotSelf_dom k0 k1 a0 a1 a2 hθ
  have tdom := D.tDom_of_sinOK k0 k1 k2 a0 a1 a2 a3 hs
  induction k0 <;> induction k1 <;> induction k2 <;>
    first
    | exact dotdom
    | exact And.intro tdom tdom
    | exact And.intro tdom (And.intro tdom dotdom)

theorem dom_lorentz_is_lightlike (k0 : Az) (k1 : Lon) (k2 : Tmp) (tol a0 a1 a2 a3 : ℝ)
    (hθ : k1 = .theta → Real.sin a2 ≠ 0 ∧ Real.cos a2 ≠ 0) (_htau : CanonTmp k2 a3) :
    lorentz_is_lightlike.evalDom k0 k1 k2 tol a0 a1 a2 a3 := by
  have hs : SinOK k1 a2 := by
    cases k1
    · trivial
    · exact (hθ rfl).1
    · trivial
  have dotdom := dotSelf_dom k0 k1 a0 a1 a2 hθ
  have tdom := D.tDom_of_sinOK k0 k1 k2 a0 a1 a2 a3 hs
  induction k0 <;> induction k1 <;> induction k2 <;>
    first
    | exact dotdom
    | exact And.intro tdom tdom
    | exact And.intro tdom (And.intro tdom dotdom)

theorem dom_lorentz_is_spacelike (k0 : Az) (k1 : Lon) (k2 : Tmp) (tol a0 a1 a2 a3 : ℝ)
    (hθ : k1 = .theta → Real.sin a2 ≠ 0 ∧ Real.cos a2 ≠ 0) (_htau : CanonTmp k2 a3) :
    lorentz_is_spacelike.evalDom k0 k1 k2 tol a0 a1 a2 a3 := by
  have hs : SinOK k1 a2 := by
    cases k1
    · trivial
    · exact (hθ rfl).1
    · trivial
  have dotdom := dotSelf_dom k0 k1 a0 a1 a2 hθ
  have tdom := D.tDom_of_sinOK k0 k1 k2 a0 a1 a2 a3 hs
  induction k0 <;> induction k1 <;> induction k2 <;>
    first
    | exact dotdom
    | exact And.intro tdom tdom
    | exact And.intro tdom (And.intro tdom dotdom)

example : (Lon.theta = .theta → Real.sin (Real.pi / 4) ≠ 0 ∧ Real.cos (Real.pi / 4) ≠ 0) ∧ CanonTmp .tau 1 := by
  refine ⟨fun _ => ?_, by show (0 : ℝ) ≤ 1; norm_num⟩
  rw [Real.sin_pi_div_four, Real.cos_pi_div_four]
  have : (0 : ℝ) < √2 / 2 := by positivity
  exact ⟨this.ne', this.ne'⟩

/-! ### to_beta3 -/

/-- hypotheses of `refine_lorentz_to_beta3_ne_zero` (`_hpos`, which that theorem needs for the VALUE of the `(x, y, θ|η)`
variants at negative `t`, plays no role for regularity) -/
theorem dom_lorentz_to_beta3 (k0 : Az) (k1 : Lon) (k2 : Tmp) (a b c d : ℝ)
    (h : CanonLon k0 k1 a b c) (hd : CanonTmp k2 d) (ht : tOf k0 k1 k2 a b c d ≠ 0)
    (_hpos : k0 = .xy → k1 = .z ∨ 0 < tOf k0 k1 k2 a b c d) :
    lorentz_to_beta3.evalDom k0 k1 k2 a b c d := by
  have tdom := dom_lorentz_t k0 k1 k2 a b c d h hd
  have tne : lorentz_t.eval k0 k1 k2 a b c d ≠ 0 := by
    rw [refine_lorentz_t k0 k1 k2 a b c d h hd]; exact ht
  cases k0 <;> cases k1 <;> cases k2 <;>
    first
    | exact tne
    | exact And.intro tdom tne

/-- hypotheses of `refine_lorentz_to_beta3_partial` -/
theorem dom_lorentz_to_beta3_pos (k0 : Az) (k1 : Lon) (k2 : Tmp) (a b c d : ℝ)
    (h : CanonLon k0 k1 a b c) (hd : CanonTmp k2 d) (ht : 0 < tOf k0 k1 k2 a b c d) :
    lorentz_to_beta3.evalDom k0 k1 k2 a b c d :=
  dom_lorentz_to_beta3 k0 k1 k2 a b c d h hd ht.ne' (fun _ => Or.inr ht)

example : CanonLon .xy .eta 1 0 1 ∧ CanonTmp .t 2 ∧ 0 < tOf .xy .eta .t 1 0 1 2 := by
  simp [CanonLon, CanonTmp, rhoOf, tOf]

/-! ### unit, scale, transform4D -/

theorem dom_lorentz_unit (k0 : Az) (k1 : Lon) (k2 : Tmp) (a b c d : ℝ) (hs : SinOK k1 c) (hd : CanonTmp k2 d)
    (hm : tOf k0 k1 k2 a b c d ^ 2 - mag2Of k0 k1 a b c ≠ 0) :
    lorentz_unit.evalDom k0 k1 k2 a b c d := by
  cases k2
  · have m2 := D.mag2Dom_of_sinOK k0 k1 a b c hs
    rw [tOf_t, ← lorentz_tau2_t_eq k0 k1 a b c d hs] at hm
    have hn : sqrt |lorentz_tau2.eval k0 k1 .t a b c d| ≠ 0 := (sqrt_pos.mpr (abs_pos.mpr hm)).ne'
    cases k0 <;> cases k1 <;>
      first
      | exact And.intro (abs_nonneg _) hn
      | exact And.intro m2 (And.intro (abs_nonneg _) hn)
  · have hd0 : |d| ≠ 0 := by
      intro e
      apply hm
      rw [abs_eq_zero] at e
      rw [tOf_tau_eq, e, sq_sqrt (by positivity)]
      unfold mag2Of; ring
    cases k0 <;> cases k1 <;> exact hd0

example : SinOK .theta 1 ∧ CanonTmp .t 1 ∧ tOf .xy .z .t 0 0 0 1 ^ 2 - mag2Of .xy .z 0 0 0 ≠ 0 := by
  refine ⟨(sin_pos_of_pos_of_lt_pi one_pos (by linarith [two_le_pi])).ne', trivial, ?_⟩
  norm_num [tOf, mag2Of, xOf, yOf, zOf]

/-- the only partial primitive in `scale` is the `% (2π)` of the azimuth rectification (polar azimuth storage) -/
theorem dom_lorentz_scale (k0 : Az) (k1 : Lon) (k2 : Tmp) (f a b c d : ℝ) (_h : ThetaRange k1 c)
    (_hf : k2 = .tau → 0 ≤ f) :
    lorentz_scale.evalDom k0 k1 k2 f a b c d := by
  have h2pi : (2 : ℝ) * π ≠ 0 := by positivity
  cases k0 <;> cases k1 <;> cases k2 <;> simp only [dd_lorentz_scale, dd_spatial_scale] <;> exact h2pi

example : ThetaRange .theta 1 ∧ (Tmp.tau = .tau → (0 : ℝ) ≤ 2) :=
  ⟨⟨by norm_num, by linarith [two_le_pi]⟩, fun _ => by norm_num⟩

theorem dom_lorentz_transform4D (k0 : Az) (k1 : Lon) (k2 : Tmp)
    (xx xy xz xt yx yy yz yt zx zy zz zt tx ty tz tt a b c d : ℝ)
    (h : TanOK k1 c) (hs : SinOK k1 c) (_hd : CanonTmp k2 d) :
    lorentz_transform4D.evalDom k0 k1 k2 xx xy xz xt yx yy yz yt zx zy zz zt tx ty tz tt a b c d := by
  have zdom := D.zDom_of_tanOK_sinOK k0 k1 a b c h hs
  have tdom := D.tDom_of_sinOK k0 k1 k2 a b c d hs
  cases k0 <;> cases k1 <;> cases k2 <;>
    first
    | exact zdom
    | exact tdom
    | exact And.intro zdom tdom

example : TanOK .theta 1 ∧ SinOK .theta 1 ∧ CanonTmp .tau 2 :=
  ⟨ne_of_gt cos_one_pos, (sin_pos_of_pos_of_lt_pi one_pos (by linarith [two_le_pi])).ne', by show (0 : ℝ) ≤ 2; norm_num⟩

end VR
