/-
Line-protocol driver for the constructor model (`Glue/Ctor.lean`, property C06).

  request : `<ctor> <comma-separated names>`      (names in call / dict / field order; may be empty)
            `<ctor>` ∈ obj, Vector2D, Vector3D, Vector4D, Momentum2D, Momentum3D, Momentum4D, array, zip, Array
  answer  : `ok <g|m> <dim> <az> <lon|-> <tmp|-> | <name filling each stored slot, comma separated> | <extra names, comma separated or ->`
            or the name of the exception (`TypeError`, `ValueError`).
  A name outside the 19 recognised ones is allowed (it sets the `other` bit of the name set; the array constructors
  carry it along as an extra field: `array` after the recognised extras, `zip`/`Array` in field order).
  `selfcheck` / `selfcheck <lo> <hi>` : compares the grouped model with the literal transcriptions (`VG.Seq`) of the same
  source lines — on every name set with at most 5 names plus every 61st other one, resp. on all sets with mask in [lo, hi)
  (each in `_coordinate_order` and reversed) — and prints the number of disagreements (the full range takes ~25 min interpreted).

Run:  cd /verif/lean && lake env lean --run VectorModel/Driver/Ctor.lean
-/
import VectorModel.Glue.Ctor
open VG VK

def commaOr (l : List String) : String := if l.isEmpty then "-" else ",".intercalate l

def showRes (r : CtorRes) (extra : List String) : String :=
  let lon := match r.lon with | some (c, _) => c.str | none => "-"
  let tmp := match r.tmp with | some (c, _) => c.str | none => "-"
  s!"ok {if r.mom then "m" else "g"} {r.dim} {r.az.str} {lon} {tmp} | {",".intercalate (r.fillers.map CN.str)} | {commaOr extra}"

def showE (extra : List String) : Except CtorErr CtorRes → String
  | .ok r => showRes r extra
  | .error e => e.str

def answer (line : String) : String :=
  let line := line.trimAscii.toString
  if line.startsWith "selfcheck" then
    -- `selfcheck`           : every name set with at most 5 names, and every 61st of the others
    -- `selfcheck <lo> <hi>` : every name set with mask in [lo, hi)   (masks: bit i = i-th name of `_coordinate_order`; hi ≤ 524288)
    let args := (line.splitOn " ").filterMap String.toNat?
    let (nchecked, bad) := match args with
      | [lo, hi] => Seq.selfcheck lo (min hi (2^19)) (fun _ => true)
      | _ => Seq.selfcheck 0 (2^19) (fun k => Seq.popcount k ≤ 5 || k % 61 == 0)
    s!"selfcheck {nchecked} comparisons, {bad.length} disagreements" ++
      (if bad.isEmpty then "" else "\n" ++ "\n".intercalate (bad.take 20))
  else
  let (ctor, rest) := match line.splitOn " " with
    | [] => ("", "")
    | c :: r => (c, "".intercalate r)
  let strs := (rest.splitOn ",").map (fun s => s.trimAscii.toString) |>.filter (· ≠ "")
  let known := strs.filterMap CN.ofStr?
  let unknown := strs.filter (fun s => (CN.ofStr? s).isNone)
  let n : NS := { NS.ofList known with other := !unknown.isEmpty }
  match ctor with
  | "obj" => showE [] (objB n)
  | "Vector2D" => showE [] (classB 2 false n)
  | "Vector3D" => showE [] (classB 3 false n)
  | "Vector4D" => showE [] (classB 4 false n)
  | "Momentum2D" => showE [] (classB 2 true n)
  | "Momentum3D" => showE [] (classB 3 true n)
  | "Momentum4D" => showE [] (classB 4 true n)
  | "array" =>
    (match npB n with
     | .ok r => showRes r ((npExtra n r).map CN.str ++ unknown)
     | .error e => e.str)
  | "zip" | "Array" =>
    (match akB n with
     | .ok (r, _) => showRes r (strs.filter (fun s => !(r.fillers.map CN.str).contains s))
     | .error e => e.str)
  | _ => "BadRequest"

partial def loop (h : IO.FS.Stream) (out : IO.FS.Stream) : IO Unit := do
  let line ← h.getLine
  if line.isEmpty then return ()
  if line.trimAscii.toString.isEmpty then loop h out else
  out.putStrLn (answer line)
  out.flush
  loop h out

def main : IO Unit := do loop (← IO.getStdin) (← IO.getStdout)
