/-
Line-protocol driver: the glue model (`Glue/Methods.lean`) on top of the
generated executable compute layer, at `Sym`.  One request per line:
    C <method> <self> <args…>      public property / method / conversion
    O <operator> <self> <args…>    operator
    J <method> <self> <args…>      the same property / method in numba-COMPILED code (`Glue/Numba.lean`)
    W <declared result> <self> <0|1>  `_wrap_result` called directly with raw tuple r0..r3 (e.g. `W az=xy,lon=eta,none A.m:rhophi:z:t:1 1`)
vector token  `<g|m>:<az>:<lon|->:<tmp|->:<index>`   (coordinates are the variables x<i>, y<i>, …)
argument tokens  `v=<vector>`  `s=<var>`  `i=<int>`  `f=<mantissa>e<exp>`  `o=<string>`  `k=<kw>=<scalar token>`
Answer: `-> <g|m><dim> <az> <lon|-> <tmp|-> :: e1 | e2 | …`  |  `-> <expr>`  |  `!! <ErrorKind>`
Run: lake env lean --run VectorModel/Driver/GlueSym.lean < requests
-/
import VectorModel.Gen.Exec.All
import VectorModel.Exec.Sym
import VectorModel.Glue.Methods
import VectorModel.Glue.Numba
set_option linter.deprecated false
open VK VE VG

def K : Consts Sym where
  negOne := .app "neg" [.nat 1]
  zeroF := .sci 0 false 0
  zeroI := .nat 0
  tol := .sci 1 true 5
  rtol := .sci 1 true 5
  atol := .sci 1 true 8
  bFalse := .app "bFalse" []

def A : Arith Sym where
  inv f := .app "div" [.nat 1, f]
  pow a b := .app "pow" [a, b]
  quarter := .sci 25 true 2
  sixth := .sci 16666666666666666 true 17
  isTwo p := p == .nat 2

def ev : Ev Sym Sym := fun m k a => Compute.eval (S := Sym) m k a

def parseAz : String → Option Az | "xy" => some .xy | "rhophi" => some .rhophi | _ => none
def parseLon : String → Option (Option Lon)
  | "-" => some none | "z" => some (some .z) | "theta" => some (some .theta) | "eta" => some (some .eta) | _ => none
def parseTmp : String → Option (Option Tmp)
  | "-" => some none | "t" => some (some .t) | "tau" => some (some .tau) | _ => none

def parseVec (tok0 : String) : Option (Vec Sym) :=
  -- optional backend prefix `N.` (NumPy) / `A.` (Awkward array) / `R.` (Awkward record) / `S.` (SymPy)
  let (be, tok) : Backend × String := match tok0.splitOn "." with
    | ["N", r] => (.np, r) | ["A", r] => (.ak, r) | ["R", r] => (.ak, r) | ["S", r] => (.sym, r) | _ => (.obj, tok0)
  match tok.splitOn ":" with
  | [fl, az, lon, tmp, idx] => do
    let az ← parseAz az
    let lon ← parseLon lon
    let tmp ← parseTmp tmp
    let names := az.names ++ (lon.toList.map Lon.str) ++ (tmp.toList.map Tmp.str)
    some ⟨{ be, mom := fl == "m", az, lon, tmp }, names.map fun n => Sym.var (n ++ idx)⟩
  | _ => none

def parseScalar (tok : String) : Option Sym :=
  match tok.splitOn "=" with
  | ["s", n] => some (.var n)
  | ["i", n] => match n.toInt? with
    | some i => some (if i < 0 then .app "neg" [.nat i.natAbs] else .nat i.natAbs)
    | none => none
  | ["f", n] =>
    -- canonical `<mantissa>e<exp>` (mantissa may be negative)
    match n.splitOn "e" with
    | [m, e] => match m.toInt?, e.toInt? with
      | some mi, some ei =>
        let lit := Sym.sci mi.natAbs (ei < 0) ei.natAbs
        some (if mi < 0 then .app "neg" [lit] else lit)
      | _, _ => none
    | _ => none
  | _ => none

def parseArg (tok : String) : Option (Arg Sym) :=
  if tok.startsWith "v=" then (parseVec (tok.drop 2).toString).map Arg.v
  else if tok.startsWith "o=" then some (.str (tok.drop 2).toString)
  else if tok.startsWith "k=" then
    match ((tok.drop 2).toString).splitOn "=" with
    | k :: rest => (parseScalar ("=".intercalate rest)).map (Arg.kw k)
    | _ => none
  else (parseScalar tok).map Arg.sc

def describe : Except Err (Res Sym Sym) → String
  | .error e => "!! " ++ e.str
  | .ok (.scalar s) => "-> " ++ s.str
  | .ok (.truth b) => "-> " ++ Sym.str b
  | .ok (.vec v) =>
    let t := v.ty
    s!"-> {match t.be with | .obj => "" | .np => "N." | .ak => "A." | .sym => "S."}{if t.mom then "m" else "g"}{t.dim} {t.az.str} {(t.lon.map Lon.str).getD "-"} {(t.tmp.map Tmp.str).getD "-"} :: "
      ++ " | ".intercalate (v.c.map Sym.str)

def iopOf : String → Option IOp
  | "add" => some .add | "sub" => some .sub | "mul" => some .mul | "truediv" => some .div | _ => none

def parseStep (ty : VT) (tok : String) : Option (Step Sym) :=
  match tok.splitOn "/" with
  | ["set", n, a] => (parseScalar a).map (stepOfSet ty n)
  | ["iop", op, a] =>
    match iopOf op, parseArg a with
    | some o, some (.v w) => some (.iopV o w)
    | some o, some (.sc f) => some (.iopS o f)
    | _, _ => none
  | _ => none

def describeVec (v : Vec Sym) : String := describe (.ok (.vec v))

/-- one declared result part of a `W` (direct `_wrap_result`) request: `az=xy` `lon=eta` `tmp=tau` `none` -/
def parseRP (tok : String) : Option RP :=
  match tok.splitOn "=" with
  | ["az", a] => (parseAz a).map RP.az
  | ["lon", "z"] => some (.lon .z) | ["lon", "theta"] => some (.lon .theta) | ["lon", "eta"] => some (.lon .eta)
  | ["tmp", "t"] => some (.tmp .t) | ["tmp", "tau"] => some (.tmp .tau)
  | ["none"] => some .none
  | _ => none

def answer (line : String) : String :=
  match (line.trimAscii.toString.splitOn " ").filter (· ≠ "") with
  | "H" :: self :: steps =>
    match parseVec self with
    | none => "bad-op"
    | some v =>
    match steps.mapM (parseStep v.ty) with
    | none => "bad-op"
    | some sts =>
      " ;; ".intercalate ((run ev K A v sts).map fun (v', e) =>
        match e with | some e => "!! " ++ e.str ++ " " ++ describeVec v' | none => describeVec v')
  | ["W", spec, self, flag] =>
    -- `_wrap_result` called directly: declared result `spec`, raw tuple r0 r1 r2 r3, handler `self`, momentum flag of the class passed in
    match parseVec self, (spec.splitOn ",").mapM parseRP with
    | some v, some parts =>
      describe ((wrapVec v v.ty.be (flag == "1") [Sym.var "r0", Sym.var "r1", Sym.var "r2", Sym.var "r3"] parts).map Res.vec)
    | _, _ => "bad-op"
  | kind :: meth :: self :: rest =>
    match parseVec self, rest.mapM parseArg with
    | some v, some args =>
      if kind == "C" then describe (call ev K A meth v args)
      else if kind == "O" then describe (operator ev K A meth v args)
      else if kind == "J" then describe (numbaCall ev K A meth v args)
      else "bad-op"
    | _, _ => "bad-op"
  | _ => "bad-op"

partial def loop (h : IO.FS.Stream) (out : IO.FS.Stream) : IO Unit := do
  let line ← h.getLine
  if line.isEmpty then return ()
  out.putStrLn (answer line)
  loop h out

def main : IO Unit := do loop (← IO.getStdin) (← IO.getStdout)
