/-
Line-protocol driver for the ufunc routing model (`Glue/Ufunc.lean`, property C05 / C03).

  one request per line in, one answer per line out.

  <ufunc> <outs> <kind> [<kind> …]        what the caller of `numpy.<ufunc>(*inputs[, out=…])` gets (`VU.numpyDispatch`)
  table <be> <ufunc> <outs> <kind> …       what `__array_ufunc__` of backend <be> (ob | np | sy | ak) returns (`VU.tableOf`)
  op <pyop> <kind> [<kind>]                the Python operator form (`VU.pyRoute`); pyop: eq ne abs add sub mul neg pos truediv
                                           pow matmul iadd isub imul itruediv
  akkeys                                   the whole Awkward registry, `;`-separated `ufunc:El,El=><route>`

      ufunc : absolute add subtract multiply negative positive true_divide power square sqrt cbrt matmul equal not_equal
              | any other name (`sin`, `maximum`, …) = an unsupported ufunc
      kind  : <be><dim><fl>  be: ob | np | ak | sy, dim: 2 | 3 | 4, fl: g | m      e.g. `np3m`, `ob2g`, `ak4m`, `sy4g`
              | s (a number) | a (a plain array of numbers)
      outs  : <n>  n outputs of the handler's backend (0 = no `out=`)   |   out=<kind>,<kind>… explicit output kinds

  answers (canonical one-line form of `VU.Route`)
      call <op> self=<i> args=<src>,… [fills=<n>]    op: add sub mul matmul eq ne (the operator whose body the called method
                                                     is); src: in<i> | inv<i> (1 / inputs[i]) | neg1 (-1) | `-` (none)
      identity self=<i>
      value <acc> self=<i>                            acc: rho mag tau rho2 mag2 tau2
      pow <acc> self=<i> exp=<in<i> | 0.25 | 1/6>
      iftwo in<i> ? (<route>) : (<route>)              `ifpytwo`: the test is "a Python int / float equal to 2" (ndarray.__pow__)
      plain (no vector operand: NumPy's own loop) | none | typeError | valueError | indexError | assertionError | notImplemented | bad-request

Run:  cd /verif/lean && lake env lean --run VectorModel/Driver/Ufunc.lean < requests.txt
-/
import VectorModel.Glue.Ufunc
open VU VG

set_option linter.deprecated false
set_option linter.unusedVariables false

def ufunc? (s : String) : Ufunc :=
  match Ufunc.all.find? (fun u => u.name == s && u != .other) with
  | some u => u
  | none => if s == "divide" then .true_divide else .other

def pyop? (s : String) : Option PyOp := PyOp.all.find? (·.name == s)

def be? (s : String) : Option Backend :=
  if s == "ob" then some .obj else if s == "np" then some .np else if s == "ak" then some .ak
  else if s == "sy" then some .sym else none

def kind? (s : String) : Option OpK :=
  if s == "s" then some .scalar
  else if s == "a" then some .array
  else match s.toList with
    | [b1, b2, d, f] =>
      let dim := if d == '2' then some 2 else if d == '3' then some 3 else if d == '4' then some 4 else none
      let mom := if f == 'm' then some true else if f == 'g' then some false else none
      match be? (String.mk [b1, b2]), dim, mom with
      | some b, some d, some m => some (.vec b d m)
      | _, _, _ => none
    | _ => none

/-- `<n>`: n outputs of the handler's backend; `out=k,k`: explicit -/
def outs? (s : String) (ins : List OpK) : Option (List OpK) :=
  if s.startsWith "out=" then
    let body := (s.drop 4).toString
    if body.isEmpty then some [] else (body.splitOn ",").mapM kind?
  else match s.toNat? with
    | some n =>
      match handlerBe ins with
      | some h => some (List.replicate n (.vec h 2 false))
      | none => if n == 0 then some [] else none
    | none => none

def accStr : Acc → String
  | .rho => "rho" | .mag => "mag" | .tau => "tau" | .rho2 => "rho2" | .mag2 => "mag2" | .tau2 => "tau2"
  | a => "acc:" ++ toString (repr a)

def srcStr : ArgSrc → String
  | .input i => "in" ++ toString i
  | .inv i => "inv" ++ toString i
  | .negOne => "neg1"

def expoStr : Expo → String
  | .input i => "in" ++ toString i
  | .quarter => "0.25"
  | .sixth => "1/6"

def routeStr : Route → String
  | .call m i args n =>
    "call " ++ m.op ++ " self=" ++ toString i ++ " args=" ++ (if args.isEmpty then "-" else ",".intercalate (args.map srcStr))
      ++ (if n == 0 then "" else " fills=" ++ toString n)
  | .identity i => "identity self=" ++ toString i
  | .valueOf a i => "value " ++ accStr a ++ " self=" ++ toString i
  | .valuePow a i e => "pow " ++ accStr a ++ " self=" ++ toString i ++ " exp=" ++ expoStr e
  | .ifTwo j p t e => (if p then "ifpytwo in" else "iftwo in") ++ toString j ++ " ? (" ++ routeStr t ++ ") : (" ++ routeStr e ++ ")"
  | .plain => "plain"
  | .returnsNone => "none"
  | .typeError => "typeError"
  | .valueError => "valueError"
  | .indexError => "indexError"
  | .assertionError => "assertionError"
  | .notImplemented => "notImplemented"

def keysLine : String :=
  ";".intercalate (akTable.map fun e => e.1.name ++ ":" ++ ",".intercalate (e.2.1.map KeyEl.str) ++ "=>" ++ routeStr e.2.2)

def answer (line : String) : String :=
  match (line.splitOn " ").filter (· ≠ "") with
  | ["akkeys"] => keysLine
  | "op" :: o :: ks =>
    match pyop? o, ks.mapM kind? with
    | some o, some ks => routeStr (pyRoute o ks)
    | _, _ => "bad-request"
  | "table" :: b :: u :: o :: ks =>
    match be? b, ks.mapM kind? with
    | some b, some ks =>
      match outs? o ks with
      | some os => routeStr (tableOf b (ufunc? u) ks os)
      | none => "bad-request"
    | _, _ => "bad-request"
  | u :: o :: ks =>
    match ks.mapM kind? with
    | some ks =>
      match outs? o ks with
      | some os => routeStr (numpyDispatch (ufunc? u) ks os)
      | none => "bad-request"
    | none => "bad-request"
  | _ => "bad-request"

partial def loop (h : IO.FS.Stream) (out : IO.FS.Stream) : IO Unit := do
  let line ← h.getLine
  if line.isEmpty then return ()
  let line := line.trimAscii.toString
  if line.isEmpty then loop h out else
    out.putStrLn (answer line)
    loop h out

def main : IO Unit := do
  loop (← IO.getStdin) (← IO.getStdout)
  (← IO.getStdout).flush
