/-
Line-protocol driver for the axis model of the reducers (`Glue/Reduce.lean`, property C17), at integer Cartesian components
(an element = `dim` integers `x y [z [t]]`).

  one request per line in, one answer per line out.

  np <op> <fl><dim> <form> <shape> <axis> <kd> <ints…>
      op    : sum | count_nonzero | count
      fl    : g | m (generic / momentum),  dim : 2 | 3 | 4
      form  : any token naming the Python spelling (`numpy.sum-kw`, `method-pos`, …); EVERY spelling means the same thing, and an
              omitted axis (`default`) is `None` in every spelling
      shape : `6`, `2x3`, `2x1x3`, `-` for 0-d; the request carries product(shape)·dim integers, C order
      axis  : default | None | <int> | t:<i,j,…>   (`t:` is the empty tuple)
      kd    : 0 | 1
  ak <op> <fl><dim> <form> <layout> <axis> <kd> <ints…>
      layout: f<n>                       flat array of n vectors
              j<c1,c2,…>                 jagged: lists of c1, c2, … vectors (`j-`: no list at all)
              k<o1,o2,…>/<c1,c2,…>       doubly jagged: the lists c1, c2, … grouped o1, o2, … at a time (`-` for none)
      axis  : default | None | <int> | t:<…> (a tuple is an error for Awkward)

  answers
      np sum            : `<Class> <shape> x:y:z x:y:z …`        Class = VectorNumpy3D | MomentumNumpy3D …
      np count_nonzero  : `int64 - n`  (0-d result) | `ndarray <shape> n n …`
      ak sum            : `<Class> <nested>`     Class = VectorRecord2D … (a single vector) | VectorArray2D | MomentumArray2D …
                          nested: `x:y` | `[…,…]`
      ak count_nonzero / count : `int64 n` | `Array <nested>`
      `err <Exception>` | `bad-request`

Run:  cd /verif/lean && lake env lean --run VectorModel/Driver/Reduce.lean < requests.txt
-/
import VectorModel.Glue.Reduce
open VRed

set_option linter.deprecated false
set_option linter.unusedVariables false

def csv (s : String) : List String := if s == "-" || s == "" then [] else s.splitOn ","

def nats? (s : String) : Option (List Nat) := (csv s).mapM String.toNat?

def ints? (s : String) : Option (List Int) := (csv s).mapM String.toInt?

def shape? (s : String) : Option (List Nat) := if s == "-" then some [] else (s.splitOn "x").mapM String.toNat?

def showShape (sh : List Nat) : String := if sh.isEmpty then "-" else "x".intercalate (sh.map toString)

/-- `some none`: omitted -/
def axis? (s : String) : Option (Option AxisSpec) :=
  if s == "default" then some none
  else if s == "None" then some (some .none)
  else if s.startsWith "t:" then (ints? (s.drop 2).toString).map fun ks => some (.many ks)
  else s.toInt?.map fun k => some (.one k)

def kd? (s : String) : Option Bool := if s == "1" then some true else if s == "0" then some false else none

def flDim? (s : String) : Option (Bool × Nat) :=
  match s.toList with
  | [f, d] =>
    let mom := if f == 'm' then some true else if f == 'g' then some false else none
    let dim := if d == '2' then some 2 else if d == '3' then some 3 else if d == '4' then some 4 else none
    match mom, dim with
    | some m, some d => some (m, d)
    | _, _ => none
  | _ => none

/-- cut a flat list into pieces of the given lengths -/
def cut {β : Type} : List Nat → List β → List (List β)
  | [], _ => []
  | c :: cs, l => l.take c :: cut cs (l.drop c)

def chunk {β : Type} (k : Nat) (n : Nat) (l : List β) : List (List β) := cut (List.replicate n k) l

def sum (l : List Nat) : Nat := l.foldr (· + ·) 0

def showVec (v : List Int) : String := ":".intercalate (v.map toString)

def bracket (l : List String) : String := "[" ++ ",".intercalate l ++ "]"

def showRes {β : Type} (f : β → String) : JRes β → String
  | .d0 x => f x
  | .d1 l => bracket (l.map f)
  | .d2 l => bracket (l.map fun r => bracket (r.map f))
  | .d3 l => bracket (l.map fun m => bracket (m.map fun r => bracket (r.map f)))

def isD0 {β : Type} : JRes β → Bool
  | .d0 _ => true
  | _ => false

def clsName (mom : Bool) (kind : String) (dim : Nat) : String :=
  (if mom then "Momentum" else "Vector") ++ kind ++ toString dim ++ "D"

/-- the omitted axis is `None`, whatever the spelling (`numpy.sum`, `ndarray.sum`, `numpy.count_nonzero`, `ak.sum`, `ak.count`,
`ak.count_nonzero` all default to `axis=None`) -/
def axisOf (form : String) (ax : Option AxisSpec) : AxisSpec := ax.getD .none

def answerNp (op : String) (mom : Bool) (dim : Nat) (form : String) (sh : List Nat) (ax : Option AxisSpec) (kd : Bool)
    (vals : List Int) : String :=
  let n := prod sh
  if vals.length ≠ n * dim then "bad-request" else
  let a : Arr (List Int) := ⟨sh, chunk dim n vals⟩
  let ax := axisOf form ax
  if op == "sum" then
    match sumArr (vzero dim) vadd ax kd a with
    | .error e => "err " ++ e.str
    | .ok r => " ".intercalate ([clsName mom "Numpy" dim, showShape r.shape] ++ r.data.map showVec)
  else if op == "count_nonzero" || op == "count" then
    let res := if op == "count" then countArr ax kd a else countNonzeroArr vnonzero ax kd a
    match res with
    | .error e => "err " ++ e.str
    | .ok r => " ".intercalate ([if r.shape.isEmpty then "int64" else "ndarray", showShape r.shape] ++ r.data.map toString)
  else "bad-request"

def layout? (s : String) (dim : Nat) (vals : List Int) : Option (JArr (List Int)) :=
  let tag := s.take 1 |>.toString
  let rest := s.drop 1 |>.toString
  if tag == "f" then do
    let n ← rest.toNat?
    if vals.length ≠ n * dim then none else some (.d1 (chunk dim n vals))
  else if tag == "j" then do
    let cs ← nats? rest
    if vals.length ≠ sum cs * dim then none else some (.d2 (cut cs (chunk dim (sum cs) vals)))
  else if tag == "k" then
    match rest.splitOn "/" with
    | [o, c] => do
      let os ← nats? o
      let cs ← nats? c
      if vals.length ≠ sum cs * dim || sum os ≠ cs.length then none
      else some (.d3 (cut os (cut cs (chunk dim (sum cs) vals))))
    | _ => none
  else none

def akAxisOf (ax : Option AxisSpec) : Except Err (Option Int) :=
  match ax with
  | none => .ok none
  | some .none => .ok none
  | some (.one k) => .ok (some k)
  | some (.many _) => .error .valueError      -- "Invalid axis=(…)"

def answerAk (op : String) (mom : Bool) (dim : Nat) (form : String) (lay : String) (ax : Option AxisSpec) (kd : Bool)
    (vals : List Int) : String :=
  match layout? lay dim vals with
  | none => "bad-request"
  | some a =>
    match akAxisOf ax with
    | .error e => "err " ++ e.str
    | .ok ax =>
      if op == "sum" then
        match akSum (vzero dim) vadd ax kd a with
        | .error e => "err " ++ e.str
        | .ok r => clsName mom (if isD0 r then "Record" else "Array") dim ++ " " ++ showRes showVec r
      else if op == "count_nonzero" || op == "count" then
        let res := if op == "count" then akCount ax kd a else akCountNonzero vnonzero ax kd a
        match res with
        | .error e => "err " ++ e.str
        | .ok r => (if isD0 r then "int64" else "Array") ++ " " ++ showRes toString r
      else "bad-request"

def answer (line : String) : String :=
  match (line.splitOn " ").filter (· ≠ "") with
  | be :: op :: fd :: form :: lay :: ax :: kd :: rest =>
    match flDim? fd, axis? ax, kd? kd, rest.mapM String.toInt? with
    | some (mom, dim), some ax, some kd, some vals =>
      if be == "np" then
        match shape? lay with
        | some sh => answerNp op mom dim form sh ax kd vals
        | none => "bad-request"
      else if be == "ak" then answerAk op mom dim form lay ax kd vals
      else "bad-request"
    | _, _, _, _ => "bad-request"
  | _ => "bad-request"

partial def loop (h : IO.FS.Stream) (out : IO.FS.Stream) : IO Unit := do
  let line ← h.getLine
  if line.isEmpty then return ()
  let line := line.trimAscii.toString
  if line.isEmpty then loop h out else
    out.putStrLn (answer line)
    loop h out

def main : IO Unit := do
  loop (← IO.getStdin) (← IO.getStdout)
  (← IO.getStdout).flush
