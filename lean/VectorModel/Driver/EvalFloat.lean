/-
Line-protocol driver: evaluate dispatch entries of the generated executable
model at IEEE double.  One request per line:
    <module> <key atoms, comma separated> <arg bits (decimal UInt64), space separated>
One answer per line: `v <bits> <bits> ...` | `b 0|1` | `none`.
Run: lake env lean --run VectorModel/Driver/EvalFloat.lean < requests
-/
import VectorModel.Gen.Exec.All
import VectorModel.Exec.FloatInst
set_option linter.deprecated false
open VK VE

def parseKA (s : String) : Option KA :=
  match s with
  | "xy" => some (.az .xy) | "rhophi" => some (.az .rhophi)
  | "z" => some (.lon .z) | "theta" => some (.lon .theta) | "eta" => some (.lon .eta)
  | "t" => some (.tmp .t) | "tau" => some (.tmp .tau)
  | o => (Ord.all.find? (fun x => x.str == o)).map KA.ord

def modOf (s : String) : Option ModuleId := ModuleId.all.find? (fun m => m.str == s)

def answer (line : String) : String :=
  match (line.trimAscii.toString.splitOn " ").filter (· ≠ "") with
  | m :: k :: args =>
    match modOf m, (k.splitOn ",").mapM parseKA, args.mapM String.toNat? with
    | some m, some key, some bits =>
      match Compute.eval (S := Float) m key (bits.map fun b => Float.ofBits b.toUInt64) with
      | some (.vals l, _) => "v " ++ " ".intercalate (l.map fun x => toString x.toBits.toNat)
      | some (.truth b, _) => if b then "b 1" else "b 0"
      | none => "none"
    | _, _, _ => "bad-op"
  | _ => "bad-op"

partial def loop (h : IO.FS.Stream) (out : IO.FS.Stream) : IO Unit := do
  let line ← h.getLine
  if line.isEmpty then return ()
  out.putStrLn (answer line)
  loop h out

def main : IO Unit := do loop (← IO.getStdin) (← IO.getStdout)
