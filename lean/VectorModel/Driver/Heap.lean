/-
Line-protocol driver for the heap model of NumPy vector arrays (`Glue/Heap.lean`, properties C19 / C16), at `α := Int`.

  one operation per line in, one answer per line out.  Integers may be negative; `_` stands for Python's `None` in slices.

  new v <m|g> <f1,f2,…> <shape> <n·k row-major ints>  v = vector.array(records, dtype=[(f1, float), …]).reshape(shape)
                                                      (field names: the generic dtype names, ANY order, extras allowed;
                                                       shape: `6`, `2x3`, `2x1x3`, `-` for 0-d; n = product)
  slice v w <lo|_> <hi|_> <stp|_>                     w = v[lo:hi:stp]
  reshape v w <shape>                                 w = v.reshape(shape)
  transpose v w                                       w = v.T
  sub v w <i,j,…|-> <0|1>                             w = v[i, j, …]   (1: with a trailing Ellipsis, w = v[i, j, …, ...])
  imul v k | iadd v w | isub v w                      v *= k | v += w | v -= w
  mask v w <0/1 string|->                             w = v[numpy.array(bits, bool)]
  fancy v w <i,j,…|->                                 w = v[numpy.array([i, j, …], int)]
  view v w | copy v w | deepcopy v w | pickle v w
  int v <i,j,…|->                                     v[i, j, …]   (`-`: v[()])
  get v name                                          v[name]
  set v name <x,y,…|->                                v[name] = [x, y, …]
  setslice v lo hi srclo                              v[lo:hi] = v[srclo:srclo+(hi-lo)]
  setelems v <lo|_> <hi|_> w <slo|_> <shi|_>          v[lo:hi] = w[slo:shi]
  del v
  dump                                                the whole state
  reset                                               forget everything (between histories)

  answers: `ok` | `vals 1,2,3` | `elem MomentumObject3D x,y,z 1,2,3` | `arr <Class> <shape>` | `err <Exception>` | `bad-op`
           dump: `v=<Class>;<fields>;<shape>;<records r1/r2/… in C order>;<name:column name:column …> | … # a~b c~d`
                 (variables sorted by name; after `#` the pairs of variables whose arrays share memory)

Run:  cd /verif/lean && lake env lean --run VectorModel/Driver/Heap.lean < ops.txt
-/
import VectorModel.Glue.Heap
open VH

set_option linter.deprecated false
set_option linter.unusedVariables false

def optInt? (s : String) : Option (Option Int) := if s == "_" then some none else s.toInt?.map some

def csv (s : String) : List String := if s == "-" then [] else s.splitOn ","

def ints? (s : String) : Option (List Int) := (csv s).mapM String.toInt?

def bits? (s : String) : Option (List Bool) :=
  if s == "-" then some [] else s.toList.mapM fun c => if c == '1' then some true else if c == '0' then some false else none

def shape? (s : String) : Option (List Nat) := if s == "-" then some [] else (s.splitOn "x").mapM String.toNat?

def showShape (sh : List Nat) : String := if sh.isEmpty then "-" else "x".intercalate (sh.map toString)

def chunks {β : Type} (k : Nat) : Nat → List β → List (List β)
  | 0, _ => []
  | n + 1, l => l.take k :: chunks k n (l.drop k)

def validName (s : String) : Bool := !s.isEmpty && s.all Char.isAlphanum

def parse (line : String) : Option (Op Int) :=
  match (line.splitOn " ").filter (· ≠ "") with
  | "new" :: v :: fl :: fs :: sh :: rest => do
    let mom ← if fl == "m" then some true else if fl == "g" then some false else none
    let sh ← shape? sh
    let n := prod sh
    let fields := csv fs
    let vals ← rest.mapM String.toInt?
    if !validName v || vals.length ≠ n * fields.length || fields.isEmpty then none
    else some (.new v ⟨mom, fields⟩ sh (chunks fields.length n vals))
  | ["reshape", v, w, sh] => do if !validName w then none else some (.reshape v w (← shape? sh))
  | ["transpose", v, w] => if !validName w then none else some (.transpose v w)
  | ["sub", v, w, is, e] => do
    let ell ← if e == "1" then some true else if e == "0" then some false else none
    if !validName w then none else some (.sub v w (← ints? is) ell)
  | ["imul", v, k] => do some (Op.iscale v (← k.toInt?))
  | ["iadd", v, w] => some (Op.iadd v w)
  | ["isub", v, w] => some (Op.isub v w)
  | ["slice", v, w, lo, hi, stp] => do
    if !validName w then none else some (.slice v w (← optInt? lo) (← optInt? hi) (← optInt? stp))
  | ["mask", v, w, b] => do if !validName w then none else some (.mask v w (← bits? b))
  | ["fancy", v, w, is] => do if !validName w then none else some (.fancy v w (← ints? is))
  | ["view", v, w] => if !validName w then none else some (.view v w)
  | ["copy", v, w] => if !validName w then none else some (.copy v w)
  | ["deepcopy", v, w] => if !validName w then none else some (.deepcopy v w)
  | ["pickle", v, w] => if !validName w then none else some (.pickle v w)
  | ["int", v, is] => do some (.intIndex v (← ints? is))
  | ["get", v, name] => some (.getName v name)
  | ["set", v, name, vals] => do some (.setName v name (← ints? vals))
  | ["setslice", v, lo, hi, src] => do some (.setSlice v (← lo.toInt?) (← hi.toInt?) (← src.toInt?))
  | ["setelems", v, lo, hi, w, slo, shi] => do
    some (.setElems v (← optInt? lo) (← optInt? hi) w (← optInt? slo) (← optInt? shi))
  | ["del", v] => some (.del v)
  | ["dump"] => some .dump
  | _ => none

def showInts (l : List Int) : String := ",".intercalate (l.map toString)

def showOpts (l : List (Option Int)) : String :=
  ",".intercalate (l.map fun | some x => toString x | none => "?")

def showShown (x : Shown Int) : String :=
  s!"{x.name}={x.ty.tag};{",".intercalate x.ty.fields};{showShape x.shape};{"/".intercalate (x.recs.map showInts)};" ++
    " ".intercalate (x.cols.map fun (n, c) => s!"{n}:{showOpts c}")

def showOut : Out Int → String
  | .ok => "ok"
  | .vals l => "vals " ++ showOpts l
  | .elem ty rec => s!"elem {ty.objTag} {",".intercalate ty.coords} {showInts rec}"
  | .arr ty sh => s!"arr {ty.tag} {showShape sh}"
  | .err e => "err " ++ e.str
  | .dump vars shares =>
    " | ".intercalate (vars.map showShown) ++ " # " ++ " ".intercalate (shares.map fun (a, b) => s!"{a}~{b}")

partial def loop (h : IO.FS.Stream) (out : IO.FS.Stream) (s : State Int) : IO Unit := do
  let line ← h.getLine
  if line.isEmpty then return ()
  let line := line.trimAscii.toString
  if line.isEmpty then loop h out s else
  if line == "reset" then
    out.putStrLn "ok"
    loop h out State.empty
  else
    match parse line with
    | none =>
      out.putStrLn "bad-op"
      loop h out s
    | some op =>
      let (s', o) := step s op
      out.putStrLn (showOut o)
      loop h out s'

def main : IO Unit := do
  loop (← IO.getStdin) (← IO.getStdout) State.empty
  (← IO.getStdout).flush
