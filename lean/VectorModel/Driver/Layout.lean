/-
Line-protocol driver: the Awkward LAYOUT model (`Glue/Awkward.lean`: `Layout`, `Layout.map`, `Layout.zipWith`,
`Rec`, `carry`, `unaryOp`, `binaryOp`, `arrayUnary`, `arrayBinary`) lifted over the method layer
(`Glue/Methods.lean`: `VG.call`) on top of the generated executable compute layer at `Sym` (leaf values are
placeholders: only the SHAPE of the prediction is printed).

One request per line (tokens separated by blanks; `[` and `]` may be glued to their neighbours):

    <method> <vtype 1> <layout 1> [ <vtype 2> <layout 2> | [kw:<name>] <scalar layout> ] x=<extras 1> [x=<extras 2>]

* vtype          `<g|m>:<az>:<lon|->:<tmp|->`                      (flavor and stored coordinate system)
* layout         S-expression over `r` (a record of an Awkward array / an `ak.Record`), `o` (a vector OBJECT: only
                 as a whole operand), `_` (missing value), `[ … ]` (list), e.g. `[[r r] [] [r _ r]]`
* scalar layout  the same over `s` (a number): `s` alone is a plain Python number
* extras         comma-separated names of the other fields of the operand (`x=` = none)

Answer (one line), the model's prediction:

    !! <ErrorKind>
    <scalar|truth|vector> <record name|-> <coordinate fields,|-> | <carried extra fields,|-> | <structure>

where the structure is the S-expression of `Layout.shape` of the result with leaf `s` (number), `b` (truth value),
`r` (record): `Layout.render` of `Props/C18Layout.lean`, so that what is printed is covered by the theorems there
(`c18l_unary_structure`, `c18l_binary_structure`, `c18l_scalar_structure`, `c18l_secondary_structure`: the printed
structure is the operand's, resp. `Layout.bcast` of the operands' structures).  The header (kind, record name,
fields) is the value of the operation on ONE record of the declared type (so that it is defined for arrays without
records); every record of the result is checked against it (`LEAVES-DIFFER` otherwise).

Which lifting is used:
* no second operand          `arrayUnary (call m · [])`
* scalar(-array) argument    `(Layout.zipWith (fun r s => unaryOp (call m · [s]) r) arr arg).sequence`
                             (= `arrayUnary` when the argument is a plain number: `c18_zipWith_leaf_right`)
* vector operand, methods treating both on an equal footing (`num_vecargs = 2`)
                             `arrayBinary (fun a b => call m a [b])`
* vector operand, secondary (`boost_p4`, `boost_beta3`, `boost`, `boostCM_of*`: `num_vecargs = 1` in their `dispatch`;
  `rotate_axis` is of this kind too but needs a vector AND a scalar argument, which a request cannot express)
                             `(Layout.zipWith (fun a b => unaryOp (call m · [b.v]) a') A B).sequence`, `a'` = `a` with the
                             extra fields of the HANDLER (the first operand of highest backend priority)

Run: lake build VectorModel.Props.C18Layout && lake env lean --run VectorModel/Driver/Layout.lean < requests
-/
import VectorModel.Gen.Exec.All
import VectorModel.Exec.Sym
import VectorModel.Glue.Methods
import VectorModel.Glue.Awkward
import VectorModel.Props.C18Layout
set_option linter.deprecated false
set_option linter.unusedVariables false
open VK VE VG

namespace LayoutDriver

def K : Consts Sym where
  negOne := .app "neg" [.nat 1]
  zeroF := .sci 0 false 0
  zeroI := .nat 0
  tol := .sci 1 true 5
  rtol := .sci 1 true 5
  atol := .sci 1 true 8
  bFalse := .app "bFalse" []

def A : Arith Sym where
  inv f := .app "div" [.nat 1, f]
  pow a b := .app "pow" [a, b]
  quarter := .sci 25 true 2
  sixth := .sci 16666666666666666 true 17
  isTwo p := p == .nat 2

def ev : Ev Sym Sym := fun m k a => Compute.eval (S := Sym) m k a

/-! ### parsing -/

def parseAz : String → Option Az | "xy" => some .xy | "rhophi" => some .rhophi | _ => none
def parseLon : String → Option (Option Lon)
  | "-" => some none | "z" => some (some .z) | "theta" => some (some .theta) | "eta" => some (some .eta) | _ => none
def parseTmp : String → Option (Option Tmp)
  | "-" => some none | "t" => some (some .t) | "tau" => some (some .tau) | _ => none

/-- `<g|m>:<az>:<lon|->:<tmp|->` (backend filled in per leaf) -/
def parseVT (tok : String) : Option VT :=
  match tok.splitOn ":" with
  | [fl, az, lon, tmp] =>
    if fl != "g" && fl != "m" then none else do
    let az ← parseAz az
    let lon ← parseLon lon
    let tmp ← parseTmp tmp
    -- a temporal coordinate only on top of a longitudinal one
    if tmp.isSome && lon.isNone then none else
    some { be := .ak, mom := fl == "m", az, lon, tmp }
  | _ => none

def tokenize (line : String) : List String :=
  let s := (line.replace "[" " [ ").replace "]" " ] "
  (s.trimAscii.toString.splitOn " ").filter (· ≠ "")

mutual
/-- S-expression over the leaves recognised by `leafOf`, `_`, `[ … ]` -/
partial def parseLayout {α : Type} (leafOf : String → Option α) : List String → Option (Layout α × List String)
  | "[" :: rest => parseItems leafOf rest []
  | "_" :: rest => some (.none, rest)
  | t :: rest => (leafOf t).map fun a => (.leaf a, rest)
  | [] => none
partial def parseItems {α : Type} (leafOf : String → Option α) :
    List String → List (Layout α) → Option (Layout α × List String)
  | "]" :: rest, acc => some (.list acc.reverse, rest)
  | toks, acc =>
    match parseLayout leafOf toks with
    | some (l, rest) => parseItems leafOf rest (l :: acc)
    | none => none
end

/-- one record of the declared type: coordinates and extra fields are placeholders named after the fields -/
def mkRec (ty : VT) (be : Backend) (tag : String) (extras : List String) : Rec Sym :=
  ⟨⟨{ ty with be }, ty.coordNames.map fun n => Sym.var (n ++ tag)⟩, extras.map fun n => (n, Sym.var (n ++ tag))⟩

def vecLeaf (ty : VT) (tag : String) (extras : List String) : String → Option (Rec Sym)
  | "r" => some (mkRec ty .ak tag extras)
  | "o" => some (mkRec ty .obj tag [])
  | _ => none

def scalarLeaf : String → Option Sym
  | "s" => some (Sym.var "a")
  | _ => none

def parseExtras (tok : String) : Option (List String) :=
  if tok.startsWith "x=" then some (((tok.drop 2).toString.splitOn ",").filter (· ≠ "")) else none

/-! ### rendering -/

def recordName (t : VT) : String := (if t.mom then "Momentum" else "Vector") ++ toString t.dim ++ "D"

def commaOrDash (l : List String) : String := if l.isEmpty then "-" else ",".intercalate l

/-- header of one record-level result: kind, record name, coordinate fields | carried extra fields; and the leaf letter -/
def header : RRes Sym Sym → String × String
  | .scalar _ => ("scalar - - | -", "s")
  | .truth _ => ("truth - - | -", "b")
  | .vrec r =>
    (s!"vector {recordName r.v.ty} {commaOrDash r.v.ty.coordNames} | {commaOrDash (r.extra.map (·.1))}", "r")

def describe (rep : Except Err (RRes Sym Sym)) (out : Except Err (Layout (RRes Sym Sym))) : String :=
  match rep, out with
  | .error e, _ => "!! " ++ e.str
  | _, .error e => "!! " ++ e.str
  | .ok h, .ok l =>
    let (hd, leaf) := header h
    if l.leaves.all (fun x => (header x).1 == hd) then hd ++ " | " ++ l.render leaf
    else "LEAVES-DIFFER " ++ hd

/-! ### the liftings -/

/-- methods whose second vector operand is secondary (`num_vecargs = 1` in their `dispatch`) -/
def secondary : List String :=
  ["boost_p4", "boost_beta3", "boost", "boostCM_of_p4", "boostCM_of_beta3", "boostCM_of", "rotate_axis"]

/-- the operand whose extra fields a `num_vecargs = 1` operation on two vectors carries: the handler -/
def withHandlerExtras (a b : Rec Sym) : Rec Sym :=
  if b.v.ty.be.prio > a.v.ty.be.prio then ⟨a.v, b.extra⟩ else a

def opUnary (meth : String) : Vec Sym → Except Err (Res Sym Sym) := fun v => call ev K A meth v []

def opScalar (meth : String) (kw : Option String) (r : Rec Sym) (s : Sym) : Except Err (RRes Sym Sym) :=
  unaryOp (fun v => call ev K A meth v [match kw with | some k => Arg.kw k s | none => Arg.sc s]) r

def opBinary (meth : String) : Vec Sym → Vec Sym → Except Err (Res Sym Sym) := fun a b => call ev K A meth a [.v b]

def opSecondary (meth : String) (a b : Rec Sym) : Except Err (RRes Sym Sym) :=
  unaryOp (fun v => call ev K A meth v [.v b.v]) (withHandlerExtras a b)

/-- backend of a whole operand: an object only when the operand is the single leaf `o` -/
def repOf (ty : VT) (l : Layout (Rec Sym)) (tag : String) (extras : List String) : Rec Sym :=
  match l with
  | .leaf a => a
  | _ => mkRec ty .ak tag extras

def answer (line : String) : String :=
  match tokenize line with
  | meth :: vt1 :: rest =>
    match parseVT vt1 with
    | none => "bad-request vtype1"
    | some ty1 =>
    -- the extras come last: find them first (they are needed to build the leaves)
    let xs := rest.filterMap parseExtras
    let body := rest.filter (fun t => (parseExtras t).isNone)
    match xs with
    | [] => "bad-request extras"
    | ex1 :: xrest =>
    let ex2 := xrest.headD []
    match parseLayout (vecLeaf ty1 "1" ex1) body with
    | none => "bad-request layout1"
    | some (l1, rest1) =>
    let rep1 := repOf ty1 l1 "1" ex1
    match rest1 with
    | [] =>
      describe (unaryOp (opUnary meth) rep1) (arrayUnary (opUnary meth) l1)
    | t :: rest2 =>
      match parseVT t with
      | some ty2 =>
        match parseLayout (vecLeaf ty2 "2" ex2) rest2 with
        | some (l2, []) =>
          let rep2 := repOf ty2 l2 "2" ex2
          if secondary.contains meth then
            describe (opSecondary meth rep1 rep2) (Layout.zipWith (opSecondary meth) l1 l2).sequence
          else
            describe (binaryOp (opBinary meth) rep1 rep2) (arrayBinary (opBinary meth) l1 l2)
        | _ => "bad-request layout2"
      | none =>
        let (kw, toks) : Option String × List String :=
          if t.startsWith "kw:" then (some (t.drop 3).toString, rest2) else (none, t :: rest2)
        match parseLayout scalarLeaf toks with
        | some (sl, []) =>
          describe (opScalar meth kw rep1 (Sym.var "a")) (Layout.zipWith (opScalar meth kw) l1 sl).sequence
        | _ => "bad-request scalar-layout"
  | _ => "bad-request"

partial def loop (h : IO.FS.Stream) (out : IO.FS.Stream) : IO Unit := do
  let line ← h.getLine
  if line.isEmpty then return ()
  out.putStrLn (answer line)
  loop h out

end LayoutDriver

def main : IO Unit := do LayoutDriver.loop (← IO.getStdin) (← IO.getStdout)
