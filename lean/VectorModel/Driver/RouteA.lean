/-
Route A of the translator validation (DESIGN.md 3.3): evaluate every dispatch
entry of the generated executable model at `Sym` and print one line per entry:
  <module>:<key>\t<component trees joined by |>\t<declared result>
Run: lake env lean --run VectorModel/Driver/RouteA.lean
-/
import VectorModel.Gen.Exec.All
import VectorModel.Exec.Sym
set_option linter.deprecated false
open VK VE

/-- symbolic arguments for a key: scalars s0.., then coordinates named after the key (x1,y1,theta1,...) -/
def symArgs (nscalar : Nat) (key : List KA) : List Sym :=
  let sc := (List.range nscalar).map fun i => Sym.var s!"s{i}"
  let rec go (ks : List KA) (idx : Nat) (acc : List Sym) : List Sym :=
    match ks with
    | [] => acc
    | k :: rest =>
      let idx' := match k with | .az _ => idx + 1 | _ => idx
      go rest idx' (acc ++ k.names.map fun n => Sym.var s!"{n}{idx'}")
  sc ++ go key 0 []

def main : IO Unit := do
  let out ← IO.getStdout
  for m in ModuleId.all do
    let info := m.info
    for (key, ret) in m.table do
      let args := symArgs info.nscalar key
      let keyS := ",".intercalate (key.map KA.str)
      match Compute.eval (S := Sym) m key args with
      | some (.vals l, r) =>
        out.putStrLn s!"{m.str}:{keyS}\t{"|".intercalate (l.map Sym.str)}\t{r.str}"
      | some (.truth b, r) =>
        out.putStrLn s!"{m.str}:{keyS}\t{Sym.str b}\t{r.str}"
      | none => out.putStrLn s!"{m.str}:{keyS}\tNONE\t{ret.str}"
