/-
Line-protocol driver for the field-lookup model (`Glue/Fields.lean`, properties C14 / C07 / C18), at integer values.

  one request per line in, one answer per line out.

  <view> <mom 0|1> <dim 2|3|4> name=int[:dtype],name=int[:dtype],…        (`-` for a record without fields)
      view : read  the interpreter (`readRec`)
             nb    the compiled view with dtypes (`nbReadRecD`; the dtype tag defaults to `i`, any token is a dtype)
             nbv   the compiled view, values only (`nbReadRec`)
  answers
      ok <az> <v1> <v2> [<lon> <v3> [<tmp> <v4>]]      az = xy | rhophi, lon = z | theta | eta, tmp = t | tau
      err <kind>                                        kind = valueError | typingError | assertionError | keyError
      bad-request

Run:  cd /verif/lean && lake env lean --run VectorModel/Driver/Fields.lean < requests.txt
-/
import VectorModel.Glue.Fields
open VG VK

set_option linter.deprecated false
set_option linter.unusedVariables false

/-- a stored value: the integer and its dtype tag -/
abbrev Val := Int × String

def field? (s : String) : Option (String × Val) :=
  match s.splitOn "=" with
  | [n, v] =>
    match v.splitOn ":" with
    | [i] => i.toInt?.map fun k => (n, (k, "i"))
    | [i, d] => i.toInt?.map fun k => (n, (k, d))
    | _ => none
  | _ => none

def fields? (s : String) : Option (List (String × Val)) :=
  if s == "-" then some [] else (s.splitOn ",").mapM field?

def showStored (r : Stored Val) : String :=
  let az := [r.az.1.str, toString r.az.2.1.1, toString r.az.2.2.1]
  let lon := match r.lon with | some l => [l.1.str, toString l.2.1] | none => []
  let tmp := match r.tmp with | some t => [t.1.str, toString t.2.1] | none => []
  " ".intercalate (["ok"] ++ az ++ lon ++ tmp)

def showRes : Except FErr (Stored Val) → String
  | .ok r => showStored r
  | .error e => "err " ++ e.str

def answer (line : String) : String :=
  match (line.splitOn " ").filter (· ≠ "") with
  | [view, mom, dim, fs] =>
    let mom? := if mom == "1" then some true else if mom == "0" then some false else none
    let dim? := if dim == "2" then some 2 else if dim == "3" then some 3 else if dim == "4" then some 4 else none
    match mom?, dim?, fields? fs with
    | some m, some d, some fs =>
      if view == "read" then showRes (readRec m d fs)
      else if view == "nb" then showRes (nbReadRecD (fun v : Val => v.2) m d fs)
      else if view == "nbv" then showRes (nbReadRec m d fs)
      else "bad-request"
    | _, _, _ => "bad-request"
  | _ => "bad-request"

partial def loop (h : IO.FS.Stream) (out : IO.FS.Stream) : IO Unit := do
  let line ← h.getLine
  if line.isEmpty then return ()
  let line := line.trimAscii.toString
  if line.isEmpty then loop h out else
    out.putStrLn (answer line)
    loop h out

def main : IO Unit := do
  loop (← IO.getStdin) (← IO.getStdout)
  (← IO.getStdout).flush
