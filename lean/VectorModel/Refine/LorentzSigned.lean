/-
Refinement theorems for the Lorentz (4D) compute modules under the SIGNED-τ reading of `Spec/SignedTau.lean`
(theorem suffix `_signed`): a τ-stored vector `(a, b, c, τ)` denotes `t = √(copysign(τ², τ) + |p|²)`; `τ < 0` encodes a
SPACE-LIKE vector with `t ≥ 0`. The theorems of `Refine/LorentzAcc.lean` / `Refine/LorentzBin.lean` assume
`CanonTmp` (`0 ≤ τ`); here the hypothesis is `CanonTmpS` (`0 ≤ copysign(τ², τ) + |p|²`, i.e. every `τ ≥ 0` and those
`τ < 0` with `τ² ≤ |p|²`), so space-like τ-stored vectors are covered.

Families: (a) accessors `t2, t, tau2, tau` (+ `Mt2`), (b) `is_timelike / is_lightlike / is_spacelike` on τ keys,
(c) `dot` (144 keys), (d) `add`, `subtract`, `scale`, `unit`, (e) `boost_beta3`, `boost_p4` with a τ-stored first operand,
(f) a kernel-checked storage dependence of `Mt2` for space-like vectors with `t < |z|`.
-/
import VectorModel.Spec.Basic
import VectorModel.Spec.SignedTau
import VectorModel.Spec.LorentzBin
import VectorModel.Lemmas.Real
import VectorModel.Refine.SpatialAcc
import VectorModel.Refine.SpatialBin
import VectorModel.Refine.LorentzAcc
import VectorModel.Refine.LorentzBin
import VectorModel.Gen.Real.lorentz_is_timelike
import VectorModel.Gen.Real.lorentz_is_lightlike
import VectorModel.Gen.Real.lorentz_is_spacelike
import VectorModel.Gen.Real.lorentz_Mt2
import Mathlib.Tactic.NormNum
import Mathlib.Tactic.Positivity

namespace VR
open VK Spec Real

/-! ### (a) accessors `t2`, `t`, `tau2`, `tau` -/

/-- all τ-keys of `lorentz_t2`: `max(copysign(τ²,τ) + |p|², 0)` on the denotation -/
theorem lorentz_t2_tau_eq (k0 : Az) (k1 : Lon) (a b c d : ℝ) (hs : SinOK k1 c) :
    lorentz_t2.eval k0 k1 .tau a b c d = max (tau2S d + mag2Of k0 k1 a b c) 0 := by
  have hm := refine_spatial_mag2 k0 k1 a b c hs
  cases k0 <;> cases k1 <;> simp only [spatial_mag2.eval] at hm <;>
    simp only [d_lorentz_t2, d_lorentz_tau2, hm] <;> rfl

/-- `t2` is the square of the denoted time component (signed τ; from `SinOK`) -/
theorem lorentz_t2_eq_tOfS_sq (k0 : Az) (k1 : Lon) (k2 : Tmp) (a b c d : ℝ)
    (hs : SinOK k1 c) (hd : CanonTmpS k0 k1 k2 a b c d) :
    lorentz_t2.eval k0 k1 k2 a b c d = tOfS k0 k1 k2 a b c d ^ 2 := by
  cases k2
  · cases k0 <;> cases k1 <;> rfl
  · rw [lorentz_t2_tau_eq k0 k1 a b c d hs, tOfS_tau_sq k0 k1 a b c d hd,
      max_eq_left ((canonTmpS_tau k0 k1 a b c d).mp hd)]

/-- `t` is the denoted time component `√(copysign(τ²,τ) + |p|²)` (signed τ; from `SinOK`) -/
theorem lorentz_t_eq_tOfS (k0 : Az) (k1 : Lon) (k2 : Tmp) (a b c d : ℝ)
    (hs : SinOK k1 c) (hd : CanonTmpS k0 k1 k2 a b c d) :
    lorentz_t.eval k0 k1 k2 a b c d = tOfS k0 k1 k2 a b c d := by
  cases k2
  · cases k0 <;> cases k1 <;> rfl
  · rw [lorentz_t_tau_eq k0 k1 a b c d hs, tOfS_tau]
    have h0 := (canonTmpS_tau k0 k1 a b c d).mp hd
    show sqrt (max (tau2S d + mag2Of k0 k1 a b c) 0) = _
    rw [max_eq_left h0]

/-- `tau2 = t² − |p|²` (signed τ; from `SinOK`); for τ storage this is the stored signed square -/
theorem lorentz_tau2_eq_signed (k0 : Az) (k1 : Lon) (k2 : Tmp) (a b c d : ℝ)
    (hs : SinOK k1 c) (hd : CanonTmpS k0 k1 k2 a b c d) :
    lorentz_tau2.eval k0 k1 k2 a b c d = tOfS k0 k1 k2 a b c d ^ 2 - mag2Of k0 k1 a b c := by
  cases k2
  · rw [lorentz_tau2_t_eq k0 k1 a b c d hs, tOfS_t]
  · rw [tOfS_sq_sub_mag2 k0 k1 a b c d hd]
    cases k0 <;> cases k1 <;> rfl

/-- for τ storage `tau2` is the signed square of the stored τ (no hypothesis) -/
theorem lorentz_tau2_of_tau_signed (k0 : Az) (k1 : Lon) (a b c d : ℝ) :
    lorentz_tau2.eval k0 k1 .tau a b c d = tau2S d := by
  cases k0 <;> cases k1 <;> rfl

private theorem copysign_sqrt_abs' (s : ℝ) : P.copysign (sqrt |s|) s = Real.sign s * sqrt |s| := by
  unfold P.copysign
  rcases lt_trichotomy s 0 with hs | hs | hs
  · rw [if_neg (not_le.mpr hs), Real.sign_of_neg hs, abs_of_nonneg (sqrt_nonneg _)]; ring
  · subst hs; simp
  · rw [if_pos (le_of_lt hs), Real.sign_of_pos hs, abs_of_nonneg (sqrt_nonneg _)]; ring

/-- `tau = sign(s)·√|s|`, `s = t² − |p|²` (signed τ; from `SinOK`): reading τ back from a τ-stored vector returns the
stored SIGNED value -/
theorem lorentz_tau_eq_signed (k0 : Az) (k1 : Lon) (k2 : Tmp) (a b c d : ℝ)
    (hs : SinOK k1 c) (hd : CanonTmpS k0 k1 k2 a b c d) :
    lorentz_tau.eval k0 k1 k2 a b c d
      = Real.sign (tOfS k0 k1 k2 a b c d ^ 2 - mag2Of k0 k1 a b c)
        * sqrt |tOfS k0 k1 k2 a b c d ^ 2 - mag2Of k0 k1 a b c| := by
  cases k2
  · rw [lorentz_tau_t_eq k0 k1 a b c d hs, tOfS_t, copysign_sqrt_abs']
  · rw [refine_lorentz_tau_of_tau, tOfS_sq_sub_mag2 k0 k1 a b c d hd, sign_mul_sqrt_abs_tau2S]

/-- `t2` is the square of the time component, signed τ. -/
theorem refine_lorentz_t2_signed (k0 : Az) (k1 : Lon) (k2 : Tmp) (a b c d : ℝ)
    (h : CanonLon k0 k1 a b c) (hd : CanonTmpS k0 k1 k2 a b c d) :
    lorentz_t2.eval k0 k1 k2 a b c d = tOfS k0 k1 k2 a b c d ^ 2 :=
  lorentz_t2_eq_tOfS_sq k0 k1 k2 a b c d (Spec.SinOK_of_canonLon h) hd

/-- `t` is the time component, signed τ: `√(τ² + |p|²)` for `τ ≥ 0`, `√(|p|² − τ²)` for `τ < 0`. -/
theorem refine_lorentz_t_signed (k0 : Az) (k1 : Lon) (k2 : Tmp) (a b c d : ℝ)
    (h : CanonLon k0 k1 a b c) (hd : CanonTmpS k0 k1 k2 a b c d) :
    lorentz_t.eval k0 k1 k2 a b c d = tOfS k0 k1 k2 a b c d :=
  lorentz_t_eq_tOfS k0 k1 k2 a b c d (Spec.SinOK_of_canonLon h) hd

/-- `tau2 = t² − |p|²`, signed τ. -/
theorem refine_lorentz_tau2_signed (k0 : Az) (k1 : Lon) (k2 : Tmp) (a b c d : ℝ)
    (h : CanonLon k0 k1 a b c) (hd : CanonTmpS k0 k1 k2 a b c d) :
    lorentz_tau2.eval k0 k1 k2 a b c d = tOfS k0 k1 k2 a b c d ^ 2 - mag2Of k0 k1 a b c :=
  lorentz_tau2_eq_signed k0 k1 k2 a b c d (Spec.SinOK_of_canonLon h) hd

/-- `tau = sign(s)·√|s|` with `s = t² − |p|²`, signed τ. -/
theorem refine_lorentz_tau_signed (k0 : Az) (k1 : Lon) (k2 : Tmp) (a b c d : ℝ)
    (h : CanonLon k0 k1 a b c) (hd : CanonTmpS k0 k1 k2 a b c d) :
    lorentz_tau.eval k0 k1 k2 a b c d
      = Real.sign (tOfS k0 k1 k2 a b c d ^ 2 - mag2Of k0 k1 a b c)
        * sqrt |tOfS k0 k1 k2 a b c d ^ 2 - mag2Of k0 k1 a b c| :=
  lorentz_tau_eq_signed k0 k1 k2 a b c d (Spec.SinOK_of_canonLon h) hd

/-- round trip τ → t → τ: recomputing τ from the denoted `(p, t)` of a τ-stored vector returns the stored signed τ -/
theorem refine_lorentz_tau_roundtrip_signed (k0 : Az) (k1 : Lon) (a b c d : ℝ)
    (h : CanonLon k0 k1 a b c) (hd : CanonTmpS k0 k1 .tau a b c d) :
    lorentz_tau.eval k0 k1 .t a b c (lorentz_t.eval k0 k1 .tau a b c d) = d := by
  have hs := Spec.SinOK_of_canonLon h
  rw [lorentz_t_eq_tOfS k0 k1 .tau a b c d hs hd, lorentz_tau_t_eq k0 k1 a b c _ hs,
    tOfS_sq_sub_mag2 k0 k1 a b c d hd, copysign_sqrt_abs', sign_mul_sqrt_abs_tau2S]

/-- the space-like τ-stored point `(x, y, z, τ) = (3, 0, 0, −2)`: `t = √5` -/
private theorem ex_canon : CanonLon .xy .z 3 0 0 ∧ TanOK .z 0 ∧ SinOK .z 0 ∧ CanonTmpS .xy .z .tau 3 0 0 (-2) := by
  refine ⟨trivial, trivial, trivial, ?_⟩
  show 0 ≤ tau2S (-2) + mag2Of .xy .z 3 0 0
  rw [tau2S_of_neg (by norm_num)]; norm_num [mag2Of, xOf, yOf, zOf]

example : CanonLon .xy .z 3 0 0 ∧ CanonTmpS .xy .z .tau 3 0 0 (-2) := ⟨ex_canon.1, ex_canon.2.2.2⟩

example : lorentz_t.eval .xy .z .tau 3 0 0 (-2) = sqrt 5 ∧ lorentz_tau.eval .xy .z .t 3 0 0 (sqrt 5) = -2 := by
  have ht : lorentz_t.eval .xy .z .tau 3 0 0 (-2) = sqrt 5 := by
    rw [refine_lorentz_t_signed _ _ _ _ _ _ _ ex_canon.1 ex_canon.2.2.2, tOfS_tau, tau2S_of_neg (by norm_num)]
    norm_num [mag2Of, xOf, yOf, zOf]
  refine ⟨ht, ?_⟩
  rw [← ht]
  exact refine_lorentz_tau_roundtrip_signed .xy .z 3 0 0 (-2) ex_canon.1 ex_canon.2.2.2

/-! ### `Mt2` on τ keys: `max(t² − z², 0)` — equal to `t² − z²` only when that is non-negative -/

/-- τ keys of `Mt2` compute `max(t² − z², 0)` of the denotation (signed τ) -/
theorem refine_lorentz_Mt2_tau_signed (k0 : Az) (k1 : Lon) (a b c d : ℝ) (hd : CanonTmpS k0 k1 .tau a b c d) :
    lorentz_Mt2.eval k0 k1 .tau a b c d = max (tOfS k0 k1 .tau a b c d ^ 2 - zOf k0 k1 a b c ^ 2) 0 := by
  rw [tOfS_tau_sq k0 k1 a b c d hd, Spec.mag2Of_eq]
  cases k0 <;> cases k1 <;>
    simp only [d_lorentz_Mt2, d_lorentz_tau2, rhoOf, L.sq_sqrt_sumsq] <;>
    (congr 1; unfold tau2S; ring)

/-- `Mt2 = t² − z²` for every key when `|z| ≤ t` (signed τ); see `lorentz_Mt2_spacelike_storage_dependent` for `t < |z|` -/
theorem refine_lorentz_Mt2_signed_partial (k0 : Az) (k1 : Lon) (k2 : Tmp) (a b c d : ℝ)
    (htan : TanOK k1 c) (hd : CanonTmpS k0 k1 k2 a b c d)
    (hz : k2 = .tau → 0 ≤ tOfS k0 k1 k2 a b c d ^ 2 - zOf k0 k1 a b c ^ 2) :
    lorentz_Mt2.eval k0 k1 k2 a b c d = tOfS k0 k1 k2 a b c d ^ 2 - zOf k0 k1 a b c ^ 2 := by
  cases k2
  · have := refine_lorentz_Mt2 k0 k1 .t a b c d htan trivial
    rw [this, tOfS_t]
    cases k0 <;> cases k1 <;> rfl
  · rw [refine_lorentz_Mt2_tau_signed k0 k1 a b c d hd, max_eq_left (hz rfl)]

/-! ### (c) dot: the Minkowski product of the signed-τ denotations (144 keys) -/

/-- `dot` computes the Minkowski product of the denotations for all 144 keys, signed τ on both operands -/
theorem refine_lorentz_dot_signed (k0 : Az) (k1 : Lon) (k2 : Tmp) (k3 : Az) (k4 : Lon) (k5 : Tmp)
    (a0 a1 a2 a3 a4 a5 a6 a7 : ℝ) (h1 : TanOK k1 a2) (h2 : TanOK k4 a6) (hs1 : SinOK k1 a2) (hs2 : SinOK k4 a6)
    (hd1 : CanonTmpS k0 k1 k2 a0 a1 a2 a3) (hd2 : CanonTmpS k3 k4 k5 a4 a5 a6 a7) :
    lorentz_dot.eval k0 k1 k2 k3 k4 k5 a0 a1 a2 a3 a4 a5 a6 a7
      = mdot (cart4S k0 k1 k2 a0 a1 a2 a3) (cart4S k3 k4 k5 a4 a5 a6 a7) := by
  rw [lorentz_dot_eval_eq, lorentz_t_eq_tOfS k0 k1 k2 a0 a1 a2 a3 hs1 hd1,
    lorentz_t_eq_tOfS k3 k4 k5 a4 a5 a6 a7 hs2 hd2, refine_spatial_dot k0 k1 k3 k4 a0 a1 a2 a4 a5 a6 h1 h2]
  simp only [mdot, dot3, cart3, cart4S]
  ring

/-- the self product of a τ-stored vector is the signed square of the stored τ -/
theorem refine_lorentz_dot_self_tau_signed (k0 : Az) (k1 : Lon) (a0 a1 a2 tau : ℝ)
    (h1 : TanOK k1 a2) (hs1 : SinOK k1 a2) (hd : CanonTmpS k0 k1 .tau a0 a1 a2 tau) :
    lorentz_dot.eval k0 k1 .tau k0 k1 .tau a0 a1 a2 tau a0 a1 a2 tau = tau2S tau := by
  rw [refine_lorentz_dot_signed k0 k1 .tau k0 k1 .tau a0 a1 a2 tau a0 a1 a2 tau h1 h1 hs1 hs1 hd hd,
    ← tOfS_sq_sub_mag2 k0 k1 a0 a1 a2 tau hd]
  simp only [mdot, cart4S, mag2Of]
  ring

example : lorentz_dot.eval .xy .z .tau .xy .z .tau 3 0 0 (-2) 3 0 0 (-2) = -4 := by
  rw [refine_lorentz_dot_self_tau_signed .xy .z 3 0 0 (-2) trivial trivial ex_canon.2.2.2, tau2S_of_neg (by norm_num)]
  norm_num

/-! ### (b) causal classification of τ-stored vectors by the sign of the stored τ -/

private theorem is_timelike_iff_dot (k0 : Az) (k1 : Lon) (k2 : Tmp) (tol a1 a2 a3 a4 : ℝ) :
    lorentz_is_timelike.eval k0 k1 k2 tol a1 a2 a3 a4 ↔
      lorentz_dot.eval k0 k1 k2 k0 k1 k2 a1 a2 a3 a4 a1 a2 a3 a4 > |tol| := by
  induction k0 <;> induction k1 <;> induction k2 <;> exact Iff.rfl

private theorem is_lightlike_iff_dot (k0 : Az) (k1 : Lon) (k2 : Tmp) (tol a1 a2 a3 a4 : ℝ) :
    lorentz_is_lightlike.eval k0 k1 k2 tol a1 a2 a3 a4 ↔
      |lorentz_dot.eval k0 k1 k2 k0 k1 k2 a1 a2 a3 a4 a1 a2 a3 a4| < |tol| := by
  induction k0 <;> induction k1 <;> induction k2 <;> exact Iff.rfl

private theorem is_spacelike_iff_dot (k0 : Az) (k1 : Lon) (k2 : Tmp) (tol a1 a2 a3 a4 : ℝ) :
    lorentz_is_spacelike.eval k0 k1 k2 tol a1 a2 a3 a4 ↔
      lorentz_dot.eval k0 k1 k2 k0 k1 k2 a1 a2 a3 a4 a1 a2 a3 a4 < -|tol| := by
  induction k0 <;> induction k1 <;> induction k2 <;> exact Iff.rfl

/-- τ keys, signed τ: time-like ⇔ `τ > 0` and `τ² > |tol|` -/
theorem refine_lorentz_is_timelike_tau_signed (k0 : Az) (k1 : Lon) (tol a0 a1 a2 tau : ℝ)
    (h1 : TanOK k1 a2) (hs1 : SinOK k1 a2) (hd : CanonTmpS k0 k1 .tau a0 a1 a2 tau) :
    lorentz_is_timelike.eval k0 k1 .tau tol a0 a1 a2 tau ↔ 0 < tau ∧ tau ^ 2 > |tol| := by
  rw [is_timelike_iff_dot, refine_lorentz_dot_self_tau_signed k0 k1 a0 a1 a2 tau h1 hs1 hd]
  have ht := abs_nonneg tol
  constructor
  · intro h
    have hp : 0 < tau := tau2S_pos_iff.mp (lt_of_le_of_lt ht h)
    rw [tau2S_of_nonneg hp.le] at h
    exact ⟨hp, h⟩
  · rintro ⟨hp, h⟩
    rw [tau2S_of_nonneg hp.le]; exact h

/-- τ keys, signed τ: space-like ⇔ `τ < 0` and `τ² > |tol|` -/
theorem refine_lorentz_is_spacelike_tau_signed (k0 : Az) (k1 : Lon) (tol a0 a1 a2 tau : ℝ)
    (h1 : TanOK k1 a2) (hs1 : SinOK k1 a2) (hd : CanonTmpS k0 k1 .tau a0 a1 a2 tau) :
    lorentz_is_spacelike.eval k0 k1 .tau tol a0 a1 a2 tau ↔ tau < 0 ∧ tau ^ 2 > |tol| := by
  rw [is_spacelike_iff_dot, refine_lorentz_dot_self_tau_signed k0 k1 a0 a1 a2 tau h1 hs1 hd]
  have ht := abs_nonneg tol
  constructor
  · intro h
    have hp : tau < 0 := tau2S_neg_iff.mp (by linarith)
    rw [tau2S_of_neg hp] at h
    exact ⟨hp, by linarith⟩
  · rintro ⟨hp, h⟩
    rw [tau2S_of_neg hp]; linarith

/-- τ keys, signed τ: light-like (within tolerance) ⇔ `τ² < |tol|`, whatever the sign of τ -/
theorem refine_lorentz_is_lightlike_tau_signed (k0 : Az) (k1 : Lon) (tol a0 a1 a2 tau : ℝ)
    (h1 : TanOK k1 a2) (hs1 : SinOK k1 a2) (hd : CanonTmpS k0 k1 .tau a0 a1 a2 tau) :
    lorentz_is_lightlike.eval k0 k1 .tau tol a0 a1 a2 tau ↔ tau ^ 2 < |tol| := by
  rw [is_lightlike_iff_dot, refine_lorentz_dot_self_tau_signed k0 k1 a0 a1 a2 tau h1 hs1 hd, abs_tau2S]

/-- with zero tolerance the classes are exactly the signs of the stored τ -/
theorem refine_lorentz_causal_classes_tau_signed_tol_zero (k0 : Az) (k1 : Lon) (a0 a1 a2 tau : ℝ)
    (h1 : TanOK k1 a2) (hs1 : SinOK k1 a2) (hd : CanonTmpS k0 k1 .tau a0 a1 a2 tau) :
    (lorentz_is_timelike.eval k0 k1 .tau 0 a0 a1 a2 tau ↔ 0 < tau) ∧
    (lorentz_is_spacelike.eval k0 k1 .tau 0 a0 a1 a2 tau ↔ tau < 0) ∧
    ¬ lorentz_is_lightlike.eval k0 k1 .tau 0 a0 a1 a2 tau := by
  rw [refine_lorentz_is_timelike_tau_signed k0 k1 0 a0 a1 a2 tau h1 hs1 hd,
    refine_lorentz_is_spacelike_tau_signed k0 k1 0 a0 a1 a2 tau h1 hs1 hd,
    refine_lorentz_is_lightlike_tau_signed k0 k1 0 a0 a1 a2 tau h1 hs1 hd, abs_zero]
  refine ⟨⟨fun h => h.1, fun h => ⟨h, by positivity⟩⟩, ⟨fun h => h.1, fun h => ⟨h, sq_pos_of_ne_zero (ne_of_lt h)⟩⟩, ?_⟩
  exact not_lt.mpr (sq_nonneg tau)

example : lorentz_is_spacelike.eval .xy .z .tau 1 3 0 0 (-2) ∧ ¬ lorentz_is_timelike.eval .xy .z .tau 1 3 0 0 (-2) := by
  rw [refine_lorentz_is_spacelike_tau_signed .xy .z 1 3 0 0 (-2) trivial trivial ex_canon.2.2.2,
    refine_lorentz_is_timelike_tau_signed .xy .z 1 3 0 0 (-2) trivial trivial ex_canon.2.2.2]
  norm_num

/-! ### (d) add / subtract (144 keys each), scale, unit — signed τ

For the 36 τ,τ keys `add` / `subtract` return `τ' = lorentz_tau(result, t₁ ± t₂)`, which is SIGNED: under the signed
reading the result denotes the exact sum whenever `0 ≤ t₁ ± t₂` — for `add` always (τ-stored operands have `t ≥ 0`),
with no causality requirement on the sum. -/

/-- the signed square of `copysign(√|s|, s)` is `s` -/
theorem tau2S_copysign_sqrt_abs (s : ℝ) : tau2S (P.copysign (sqrt |s|) s) = s := by
  unfold P.copysign
  rcases le_or_gt 0 s with h | h
  · rw [if_pos h, abs_of_nonneg (sqrt_nonneg _), tau2S_of_nonneg (sqrt_nonneg _), abs_of_nonneg h, sq_sqrt h]
  · have hp : 0 < sqrt |s| := sqrt_pos.mpr (abs_pos.mpr (ne_of_lt h))
    rw [if_neg (not_le.mpr h), abs_of_nonneg (sqrt_nonneg _), tau2S_of_neg (by linarith), neg_sq, sq_sqrt (abs_nonneg _),
      abs_of_neg h]
    ring

/-- a result stored as (spatial part denoting `P`, `τ' = tau(…, T)`) denotes `(P, T)` under the signed reading as soon as
`0 ≤ T` (compare `cart4_tau_of_causal`, which needs `(P, T)` causal) -/
theorem cart4S_tau_of_nonneg (az : Az) (lon : Lon) (a b c T : ℝ) (q : ℝ × ℝ × ℝ) (hA : cart3 az lon a b c = q)
    (hs : SinOK lon c) (hT : 0 ≤ T) :
    cart4S az lon .tau a b c (lorentz_tau.eval az lon .t a b c T) = (q.1, q.2.1, q.2.2, T) := by
  subst hA
  have ht : tOfS az lon .tau a b c (lorentz_tau.eval az lon .t a b c T) = T := by
    rw [tOfS_tau, lorentz_tau_t_eq az lon a b c T hs, tau2S_copysign_sqrt_abs, sub_add_cancel, sqrt_sq hT]
  simp only [cart4S, cart3, ht]

/-- … and the stored `τ'` is representable -/
theorem canonTmpS_tau_of_t (az : Az) (lon : Lon) (a b c T : ℝ) (hs : SinOK lon c) :
    CanonTmpS az lon .tau a b c (lorentz_tau.eval az lon .t a b c T) := by
  rw [canonTmpS_tau, lorentz_tau_t_eq az lon a b c T hs, tau2S_copysign_sqrt_abs, sub_add_cancel]
  positivity

/-- `add` denotes the sum of the denoted 4-vectors (signed τ), for all 144 keys. -/
theorem refine_lorentz_add_signed (k0 : Az) (k1 : Lon) (k2 : Tmp) (k3 : Az) (k4 : Lon) (k5 : Tmp)
    (a0 a1 a2 a3 a4 a5 a6 a7 : ℝ)
    (h1 : TanOK k1 a2) (h2 : TanOK k4 a6) (hs1 : SinOK k1 a2) (hs2 : SinOK k4 a6)
    (hd1 : CanonTmpS k0 k1 k2 a0 a1 a2 a3) (hd2 : CanonTmpS k3 k4 k5 a4 a5 a6 a7)
    (hrep : Representable3 (spatial_add.ret k0 k1 k3 k4) (add3 (cart3 k0 k1 a0 a1 a2) (cart3 k3 k4 a4 a5 a6))) :
    interp4S (lorentz_add.ret k0 k1 k2 k3 k4 k5) (lorentz_add.eval k0 k1 k2 k3 k4 k5 a0 a1 a2 a3 a4 a5 a6 a7)
      = some (add4 (cart4S k0 k1 k2 a0 a1 a2 a3) (cart4S k3 k4 k5 a4 a5 a6 a7)) := by
  have hS := refine_spatial_add k0 k1 k3 k4 a0 a1 a2 a4 a5 a6 h1 h2 hrep
  have hso := spatial_add_sinOK k0 k1 k3 k4 a0 a1 a2 a4 a5 a6 hrep
  rw [spatial_add_ret_eq, interp3_same, Option.some.injEq] at hS
  rw [lorentz_add_eval_eq, lorentz_add_ret_eq, interp4S_same,
    lorentz_t_eq_tOfS k0 k1 k2 a0 a1 a2 a3 hs1 hd1, lorentz_t_eq_tOfS k3 k4 k5 a4 a5 a6 a7 hs2 hd2]
  apply congrArg some
  generalize azOfRet (spatial_add.ret k0 k1 k3 k4) = az at hS hso ⊢
  generalize lonOfRet (spatial_add.ret k0 k1 k3 k4) = lon at hS hso ⊢
  generalize spatial_add.eval k0 k1 k3 k4 a0 a1 a2 a4 a5 a6 = A at hS hso ⊢
  have hxyz := hS
  simp only [cart3, add3, Prod.mk.injEq] at hxyz
  obtain ⟨hx, hy, hz⟩ := hxyz
  cases k2 <;> cases k5
  case tau.tau =>
    simp only []
    rw [cart4S_tau_of_nonneg az lon _ _ _ _ _ hS hso
      (add_nonneg (tOfS_tau_nonneg k0 k1 a0 a1 a2 a3) (tOfS_tau_nonneg k3 k4 a4 a5 a6 a7))]
    simp only [add4, add3, cart4S, cart3]
  all_goals simp only [cart4S, add4, tOfS_t, hx, hy, hz]

/-- `subtract` denotes the difference of the denoted 4-vectors (signed τ), for all 144 keys. For the 36 τ,τ keys the
result is τ-stored, hence needs `t₁ − t₂ ≥ 0` — but, unlike the unsigned reading, NOT a causal difference. -/
theorem refine_lorentz_subtract_signed (k0 : Az) (k1 : Lon) (k2 : Tmp) (k3 : Az) (k4 : Lon) (k5 : Tmp)
    (a0 a1 a2 a3 a4 a5 a6 a7 : ℝ)
    (h1 : TanOK k1 a2) (h2 : TanOK k4 a6) (hs1 : SinOK k1 a2) (hs2 : SinOK k4 a6)
    (hd1 : CanonTmpS k0 k1 k2 a0 a1 a2 a3) (hd2 : CanonTmpS k3 k4 k5 a4 a5 a6 a7)
    (hrep : Representable3 (spatial_subtract.ret k0 k1 k3 k4) (sub3 (cart3 k0 k1 a0 a1 a2) (cart3 k3 k4 a4 a5 a6)))
    (hc : k2 = .tau → k5 = .tau → 0 ≤ tOfS k0 k1 k2 a0 a1 a2 a3 - tOfS k3 k4 k5 a4 a5 a6 a7) :
    interp4S (lorentz_subtract.ret k0 k1 k2 k3 k4 k5) (lorentz_subtract.eval k0 k1 k2 k3 k4 k5 a0 a1 a2 a3 a4 a5 a6 a7)
      = some (sub4 (cart4S k0 k1 k2 a0 a1 a2 a3) (cart4S k3 k4 k5 a4 a5 a6 a7)) := by
  have hS := refine_spatial_subtract k0 k1 k3 k4 a0 a1 a2 a4 a5 a6 h1 h2 hrep
  have hso := spatial_subtract_sinOK k0 k1 k3 k4 a0 a1 a2 a4 a5 a6 hrep
  rw [spatial_subtract_ret_eq, interp3_same, Option.some.injEq] at hS
  rw [lorentz_subtract_eval_eq, lorentz_subtract_ret_eq, interp4S_same,
    lorentz_t_eq_tOfS k0 k1 k2 a0 a1 a2 a3 hs1 hd1, lorentz_t_eq_tOfS k3 k4 k5 a4 a5 a6 a7 hs2 hd2]
  apply congrArg some
  generalize azOfRet (spatial_subtract.ret k0 k1 k3 k4) = az at hS hso ⊢
  generalize lonOfRet (spatial_subtract.ret k0 k1 k3 k4) = lon at hS hso ⊢
  generalize spatial_subtract.eval k0 k1 k3 k4 a0 a1 a2 a4 a5 a6 = A at hS hso ⊢
  have hxyz := hS
  simp only [cart3, sub3, Prod.mk.injEq] at hxyz
  obtain ⟨hx, hy, hz⟩ := hxyz
  cases k2 <;> cases k5
  case tau.tau =>
    simp only []
    rw [cart4S_tau_of_nonneg az lon _ _ _ _ _ hS hso (hc rfl rfl)]
    simp only [sub4, sub3, cart4S, cart3]
  all_goals simp only [cart4S, sub4, tOfS_t, hx, hy, hz]

/-- two space-like τ-stored operands `(3,0,0,τ=−2)`, `(0,3,0,τ=−2)`: hypotheses of `add` hold -/
example : Representable3 (spatial_add.ret .xy .z .xy .z) (add3 (cart3 .xy .z 3 0 0) (cart3 .xy .z 0 3 0))
    ∧ CanonTmpS .xy .z .tau 3 0 0 (-2) ∧ CanonTmpS .xy .z .tau 0 3 0 (-2) := by
  refine ⟨Or.inl rfl, ex_canon.2.2.2, ?_⟩
  show 0 ≤ tau2S (-2) + mag2Of .xy .z 0 3 0
  rw [tau2S_of_neg (by norm_num)]; norm_num [mag2Of, xOf, yOf, zOf]

/-- a 4-vector whose stored spatial part denotes `f·p` and whose stored temporal coordinate is `f·d` denotes `f·(p, t)`
under the signed reading; for τ storage this needs `0 ≤ f` (τ scales by `f`, its sign is kept) -/
theorem cart4S_of_scaled (k0 : Az) (k1 : Lon) (k2 : Tmp) (f a b c d a' b' c' : ℝ)
    (hC : cart3 k0 k1 a' b' c' = smul3 f (cart3 k0 k1 a b c)) (hf : k2 = .tau → 0 ≤ f) :
    cart4S k0 k1 k2 a' b' c' (d * f) = smul4 f (cart4S k0 k1 k2 a b c d) := by
  simp only [cart3, smul3, Prod.mk.injEq] at hC
  obtain ⟨hx, hy, hz⟩ := hC
  cases k2
  · simp only [cart4S, smul4, tOfS_t, hx, hy, hz, mul_comm d f]
  · have h0 := hf rfl
    have hm : mag2Of k0 k1 a' b' c' = f ^ 2 * mag2Of k0 k1 a b c := by
      unfold mag2Of; rw [hx, hy, hz]; ring
    have ht : tOfS k0 k1 .tau a' b' c' (d * f) = f * tOfS k0 k1 .tau a b c d := by
      rw [tOfS_tau, tOfS_tau, tau2S_mul_of_nonneg d f h0, hm, ← mul_add, sqrt_mul (sq_nonneg f), sqrt_sq h0]
    simp only [cart4S, smul4, hx, hy, hz, ht]

/-- `scale` multiplies the denoted 4-vector by the factor (signed τ); for τ storage only for `0 ≤ f`. -/
theorem refine_lorentz_scale_signed (k0 : Az) (k1 : Lon) (k2 : Tmp) (f a b c d : ℝ) (h : ThetaRange k1 c)
    (_hd : CanonTmpS k0 k1 k2 a b c d) (hf : k2 = .tau → 0 ≤ f) :
    interp4S (lorentz_scale.ret k0 k1 k2) (lorentz_scale.eval k0 k1 k2 f a b c d)
      = some (smul4 f (cart4S k0 k1 k2 a b c d)) := by
  have hS := refine_spatial_scale k0 k1 f a b c h
  have hr : spatial_scale.ret k0 k1 = Ret.vec [RP.az k0, RP.lon k1] := by cases k0 <;> cases k1 <;> rfl
  have hr4 : lorentz_scale.ret k0 k1 k2 = Ret.vec [RP.az k0, RP.lon k1, RP.tmp k2] := by
    cases k0 <;> cases k1 <;> cases k2 <;> rfl
  rw [hr, interp3_same, Option.some.injEq] at hS
  rw [hr4, interp4S_same, lorentz_scale_eval_eq]
  exact congrArg some (cart4S_of_scaled k0 k1 k2 f a b c d _ _ _ hS hf)

/-- τ keys of `scale`: the stored τ is multiplied by the factor (so for `k > 0` its sign is kept), and the result is
representable when the operand is -/
theorem refine_lorentz_scale_tau_stored_signed (k0 : Az) (k1 : Lon) (f a b c d : ℝ) (h : ThetaRange k1 c)
    (hd : CanonTmpS k0 k1 .tau a b c d) (hf : 0 ≤ f) :
    let r := lorentz_scale.eval k0 k1 .tau f a b c d
    r.2.2.2 = d * f ∧ CanonTmpS k0 k1 .tau r.1 r.2.1 r.2.2.1 r.2.2.2 := by
  have hS := refine_spatial_scale k0 k1 f a b c h
  have hr : spatial_scale.ret k0 k1 = Ret.vec [RP.az k0, RP.lon k1] := by cases k0 <;> cases k1 <;> rfl
  rw [hr, interp3_same, Option.some.injEq] at hS
  simp only [cart3, smul3, Prod.mk.injEq] at hS
  obtain ⟨hx, hy, hz⟩ := hS
  rw [lorentz_scale_eval_eq]
  refine ⟨rfl, ?_⟩
  simp only []
  rw [canonTmpS_tau, tau2S_mul_of_nonneg d f hf]
  have hm : mag2Of k0 k1 (spatial_scale.eval k0 k1 f a b c).1 (spatial_scale.eval k0 k1 f a b c).2.1
      (spatial_scale.eval k0 k1 f a b c).2.2 = f ^ 2 * mag2Of k0 k1 a b c := by
    unfold mag2Of; rw [hx, hy, hz]; ring
  rw [hm, ← mul_add]
  exact mul_nonneg (sq_nonneg f) ((canonTmpS_tau k0 k1 a b c d).mp hd)

example : ThetaRange .z 0 ∧ CanonTmpS .xy .z .tau 3 0 0 (-2) ∧ (0 : ℝ) ≤ 2 := ⟨trivial, ex_canon.2.2.2, by norm_num⟩

/-- `unit` divides the denoted 4-vector by `√|t² − |p|²|` (signed τ), for every key, provided the vector is not
light-like; a space-like τ-stored vector gets `τ' = −1` -/
theorem refine_lorentz_unit_signed (k0 : Az) (k1 : Lon) (k2 : Tmp) (a b c d : ℝ) (hs : SinOK k1 c)
    (hd : CanonTmpS k0 k1 k2 a b c d) (hm : tOfS k0 k1 k2 a b c d ^ 2 - mag2Of k0 k1 a b c ≠ 0) :
    interp4S (lorentz_unit.ret k0 k1 k2) (lorentz_unit.eval k0 k1 k2 a b c d)
      = some (smul4 (1 / sqrt |tOfS k0 k1 k2 a b c d ^ 2 - mag2Of k0 k1 a b c|) (cart4S k0 k1 k2 a b c d)) := by
  have hr4 : lorentz_unit.ret k0 k1 k2 = Ret.vec [RP.az k0, RP.lon k1, RP.tmp k2] := by
    cases k0 <;> cases k1 <;> cases k2 <;> rfl
  have hn : 0 < sqrt |tOfS k0 k1 k2 a b c d ^ 2 - mag2Of k0 k1 a b c| := sqrt_pos.mpr (abs_pos.mpr hm)
  have hnorm : unitNorm k0 k1 k2 a b c d = sqrt |tOfS k0 k1 k2 a b c d ^ 2 - mag2Of k0 k1 a b c| := by
    cases k2
    · simp only [unitNorm, lorentz_tau2_t_eq k0 k1 a b c d hs, tOfS_t]
    · simp only [unitNorm]
      rw [tOfS_sq_sub_mag2 k0 k1 a b c d hd, abs_tau2S, sqrt_sq_eq_abs]
  have hlast : unitLast k0 k1 k2 a b c d = d * (1 / unitNorm k0 k1 k2 a b c d) := by
    cases k2
    · simp only [unitLast]; ring
    · have hd0 : d ≠ 0 := by
        intro e; rw [tOfS_sq_sub_mag2 k0 k1 a b c d hd, e] at hm
        exact hm tau2S_zero
      simp only [unitLast, unitNorm, P.copysign, abs_one]
      rcases lt_or_gt_of_ne hd0 with hneg | hpos
      · rw [if_neg (not_le.mpr hneg), abs_of_neg hneg]
        field_simp
      · rw [if_pos hpos.le, abs_of_pos hpos]
        field_simp
  rw [hr4, interp4S_same, lorentz_unit_eval_eq, hlast]
  apply congrArg some
  rw [← hnorm] at hn ⊢
  generalize unitNorm k0 k1 k2 a b c d = n at hn ⊢
  exact cart4S_of_scaled k0 k1 k2 (1 / n) a b c d _ _ _ (cart3_div k0 k1 a b c n hn) (fun _ => by positivity)

/-- τ keys of `unit`: the stored temporal coordinate of the result is `copysign(1, τ)` -/
theorem refine_lorentz_unit_tau_stored_signed (k0 : Az) (k1 : Lon) (a b c d : ℝ) :
    (lorentz_unit.eval k0 k1 .tau a b c d).2.2.2 = P.copysign 1 d := by
  cases k0 <;> cases k1 <;> rfl

example : SinOK .z 0 ∧ CanonTmpS .xy .z .tau 3 0 0 (-2)
    ∧ tOfS .xy .z .tau 3 0 0 (-2) ^ 2 - mag2Of .xy .z 3 0 0 ≠ 0 := by
  refine ⟨trivial, ex_canon.2.2.2, ?_⟩
  rw [tOfS_sq_sub_mag2 _ _ _ _ _ _ ex_canon.2.2.2, tau2S_of_neg (by norm_num)]; norm_num

/-! ### (e) general boosts of a τ-stored first operand with signed τ

The τ-variants compute the spatial part from `(x, y, z, lorentz_t(…))` and return the STORED τ unchanged. Under the
signed reading this denotes the boosted 4-vector whenever the boosted time component is `≥ 0` (a boost can make the time
component of a SPACE-LIKE vector negative, which τ storage cannot represent): the invariant `t² − |p|²` is preserved,
so `√(τ²ₛ + |p'|²) = |t'|`. -/

/-- `boostU_time` without `0 ≤ s`: the boosted time component must be assumed non-negative -/
theorem L.boostU_time_signed (G ux uy uz x y z T s : ℝ) (hG : G ^ 2 = 1 + (ux ^ 2 + uy ^ 2 + uz ^ 2)) (hG0 : 0 < G)
    (hT : T ^ 2 = s + (x ^ 2 + y ^ 2 + z ^ 2)) (h0 : 0 ≤ (ux * x + uy * y + uz * z) + G * T) :
    sqrt (s + ((x + ((ux * x + uy * y + uz * z) / (G + 1) + T) * ux) ^ 2
      + (y + ((ux * x + uy * y + uz * z) / (G + 1) + T) * uy) ^ 2
      + (z + ((ux * x + uy * y + uz * z) / (G + 1) + T) * uz) ^ 2)) = (ux * x + uy * y + uz * z) + G * T := by
  have hG1 : G + 1 ≠ 0 := by positivity
  have key : ((ux * x + uy * y + uz * z) + G * T) ^ 2 = s + ((x + ((ux * x + uy * y + uz * z) / (G + 1) + T) * ux) ^ 2
      + (y + ((ux * x + uy * y + uz * z) / (G + 1) + T) * uy) ^ 2
      + (z + ((ux * x + uy * y + uz * z) / (G + 1) + T) * uz) ^ 2) := by
    field_simp
    linear_combination (G + 1) ^ 2 * hT + ((ux * x + uy * y + uz * z) + T * (G + 1)) ^ 2 * hG
  rw [← key, sqrt_sq h0]

theorem tOfS_cart (k0 : Az) (k1 : Lon) (k2 : Tmp) (a b c d : ℝ) :
    tOfS .xy .z k2 (xOf k0 a b) (yOf k0 a b) (zOf k0 k1 a b c) d = tOfS k0 k1 k2 a b c d := by
  cases k2 <;> cases k0 <;> cases k1 <;> rfl

theorem canonTmpS_cart (k0 : Az) (k1 : Lon) (k2 : Tmp) (a b c d : ℝ) :
    CanonTmpS .xy .z k2 (xOf k0 a b) (yOf k0 a b) (zOf k0 k1 a b c) d ↔ CanonTmpS k0 k1 k2 a b c d := by
  cases k2 <;> cases k0 <;> cases k1 <;> exact Iff.rfl

theorem cart4S_cart (k0 : Az) (k1 : Lon) (k2 : Tmp) (a b c d : ℝ) :
    cart4S .xy .z k2 (xOf k0 a b) (yOf k0 a b) (zOf k0 k1 a b c) d = cart4S k0 k1 k2 a b c d := by
  simp only [cart4S, tOfS_cart]; rfl

theorem tOfS_xyz_tau_sq (x y z τ : ℝ) (hc : CanonTmpS .xy .z .tau x y z τ) :
    tOfS .xy .z .tau x y z τ ^ 2 = tau2S τ + (x ^ 2 + y ^ 2 + z ^ 2) := by
  rw [tOfS_tau_sq _ _ _ _ _ _ hc]; simp only [mag2Of, xOf, yOf, zOf]

/-! #### boost_beta3 (τ-stored first operand: 36 keys) -/

theorem lorentz_boost_beta3_ret_eq (k0 : Az) (k1 : Lon) (k2 : Tmp) (k3 : Az) (k4 : Lon) :
    lorentz_boost_beta3.ret k0 k1 k2 k3 k4 = Ret.vec [RP.az .xy, RP.lon .z, RP.tmp k2] := by
  cases k0 <;> cases k1 <;> cases k2 <;> cases k3 <;> cases k4 <;> rfl

set_option maxHeartbeats 400000 in
set_option linter.unusedSimpArgs false in
/-- raw C01 for the τ keys of `boost_beta3`: the same tuple as the all-Cartesian τ key on the denotations -/
theorem lorentz_boost_beta3_tau_conv (k0 : Az) (k1 : Lon) (k3 : Az) (k4 : Lon) (a0 a1 a2 a3 a4 a5 a6 : ℝ)
    (h1 : TanOK k1 a2) (h2 : TanOK k4 a6) :
    lorentz_boost_beta3.eval k0 k1 .tau k3 k4 a0 a1 a2 a3 a4 a5 a6
      = lorentz_boost_beta3.eval .xy .z .tau .xy .z (xOf k0 a0 a1) (yOf k0 a0 a1) (zOf k0 k1 a0 a1 a2) a3
          (xOf k3 a4 a5) (yOf k3 a4 a5) (zOf k3 k4 a4 a5 a6) := by
  have hz1 := refine_spatial_z k0 k1 a0 a1 a2 h1
  have hz2 := refine_spatial_z k3 k4 a4 a5 a6 h2
  cases k0 <;> cases k1 <;> cases k3 <;> cases k4 <;> simp only [spatial_z.eval] at hz1 hz2 <;>
    simp only [d_lorentz_boost_beta3,
      hz1, hz2, conv_x_rhophi, conv_y_rhophi, conv_x_xy, conv_y_xy, conv_z_xy_z] <;>
    simp only [xOf, yOf, zOf]

/-- the all-Cartesian τ key: spatial part of the Cartesian-`t` key applied to `(x, y, z, t)`, `t` the signed-τ time
component, and the stored τ passed through — no assumption on the boost vector, none on the sign of the boosted time -/
theorem lorentz_boost_beta3_tau_cart_signed (x y z τ bx by' bz : ℝ) (hc : CanonTmpS .xy .z .tau x y z τ) :
    lorentz_boost_beta3.eval .xy .z .tau .xy .z x y z τ bx by' bz
      = ((lorentz_boost_beta3.eval .xy .z .t .xy .z x y z (tOfS .xy .z .tau x y z τ) bx by' bz).1,
         (lorentz_boost_beta3.eval .xy .z .t .xy .z x y z (tOfS .xy .z .tau x y z τ) bx by' bz).2.1,
         (lorentz_boost_beta3.eval .xy .z .t .xy .z x y z (tOfS .xy .z .tau x y z τ) bx by' bz).2.2.1, τ) := by
  have hT : lorentz_t.xy_z_tau x y z τ = tOfS .xy .z .tau x y z τ := lorentz_t_eq_tOfS .xy .z .tau x y z τ trivial hc
  simp only [d_lorentz_boost_beta3, d_lorentz_transform4D, planar_x.xy, planar_y.xy, spatial_z.xy_z, hT]

/-- τ keys of `boost_beta3`, signed τ, any boost vector: the spatial part is that of the Cartesian-`t` result on the
denotation `(x, y, z, tOfS)` … -/
theorem refine_lorentz_boost_beta3_tau_spatial_signed (k0 : Az) (k1 : Lon) (k3 : Az) (k4 : Lon)
    (a0 a1 a2 a3 a4 a5 a6 : ℝ) (h1 : TanOK k1 a2) (h2 : TanOK k4 a6) (hd : CanonTmpS k0 k1 .tau a0 a1 a2 a3) :
    let r := lorentz_boost_beta3.eval k0 k1 .tau k3 k4 a0 a1 a2 a3 a4 a5 a6
    let r' := lorentz_boost_beta3.eval .xy .z .t .xy .z (xOf k0 a0 a1) (yOf k0 a0 a1) (zOf k0 k1 a0 a1 a2)
      (tOfS k0 k1 .tau a0 a1 a2 a3) (xOf k3 a4 a5) (yOf k3 a4 a5) (zOf k3 k4 a4 a5 a6)
    interp3 (lorentz_boost_beta3.ret k0 k1 .tau k3 k4) (r.1, r.2.1, r.2.2.1) = some (r'.1, r'.2.1, r'.2.2.1) := by
  rw [lorentz_boost_beta3_tau_conv k0 k1 k3 k4 a0 a1 a2 a3 a4 a5 a6 h1 h2,
    lorentz_boost_beta3_tau_cart_signed _ _ _ a3 _ _ _ ((canonTmpS_cart k0 k1 .tau a0 a1 a2 a3).mpr hd), tOfS_cart,
    lorentz_boost_beta3_ret_eq]
  rfl

/-- … and the returned τ is the stored (signed) τ: `refine_lorentz_boost_beta3_tau_stored`. -/
theorem refine_lorentz_boost_beta3_tau_stored_signed (k0 : Az) (k1 : Lon) (k3 : Az) (k4 : Lon) (a0 a1 a2 a3 a4 a5 a6 : ℝ) :
    (lorentz_boost_beta3.eval k0 k1 .tau k3 k4 a0 a1 a2 a3 a4 a5 a6).2.2.2 = a3 :=
  refine_lorentz_boost_beta3_tau_stored k0 k1 k3 k4 a0 a1 a2 a3 a4 a5 a6

/-- the all-Cartesian τ key denotes the general boost of the signed-τ denotation, when the boosted time is `≥ 0` -/
theorem refine_lorentz_boost_beta3_tau_signed (x y z τ bx by' bz : ℝ) (hβ : bx ^ 2 + by' ^ 2 + bz ^ 2 < 1)
    (hc : CanonTmpS .xy .z .tau x y z τ)
    (h0 : 0 ≤ (boostU (1 / sqrt (1 - (bx ^ 2 + by' ^ 2 + bz ^ 2))) (1 / sqrt (1 - (bx ^ 2 + by' ^ 2 + bz ^ 2)) * bx)
          (1 / sqrt (1 - (bx ^ 2 + by' ^ 2 + bz ^ 2)) * by') (1 / sqrt (1 - (bx ^ 2 + by' ^ 2 + bz ^ 2)) * bz)
          (x, y, z, tOfS .xy .z .tau x y z τ)).2.2.2) :
    interp4S (lorentz_boost_beta3.ret .xy .z .tau .xy .z) (lorentz_boost_beta3.eval .xy .z .tau .xy .z x y z τ bx by' bz)
      = some (boostU (1 / sqrt (1 - (bx ^ 2 + by' ^ 2 + bz ^ 2))) (1 / sqrt (1 - (bx ^ 2 + by' ^ 2 + bz ^ 2)) * bx)
          (1 / sqrt (1 - (bx ^ 2 + by' ^ 2 + bz ^ 2)) * by') (1 / sqrt (1 - (bx ^ 2 + by' ^ 2 + bz ^ 2)) * bz)
          (x, y, z, tOfS .xy .z .tau x y z τ)) := by
  have hpos : 0 < 1 - (bx ^ 2 + by' ^ 2 + bz ^ 2) := by linarith
  have hs0 : 0 < sqrt (1 - (bx ^ 2 + by' ^ 2 + bz ^ 2)) := sqrt_pos.mpr hpos
  have hs2 : sqrt (1 - (bx ^ 2 + by' ^ 2 + bz ^ 2)) ^ 2 = 1 - (bx ^ 2 + by' ^ 2 + bz ^ 2) := sq_sqrt hpos.le
  have hG0 : 0 < 1 / sqrt (1 - (bx ^ 2 + by' ^ 2 + bz ^ 2)) := by positivity
  have hG : (1 / sqrt (1 - (bx ^ 2 + by' ^ 2 + bz ^ 2))) ^ 2 = 1 + ((1 / sqrt (1 - (bx ^ 2 + by' ^ 2 + bz ^ 2)) * bx) ^ 2
      + (1 / sqrt (1 - (bx ^ 2 + by' ^ 2 + bz ^ 2)) * by') ^ 2 + (1 / sqrt (1 - (bx ^ 2 + by' ^ 2 + bz ^ 2)) * bz) ^ 2) := by
    field_simp
    linear_combination -hs2
  have hTsq := tOfS_xyz_tau_sq x y z τ hc
  simp only [boostU] at h0
  have e := L.boostU_time_signed _ _ _ _ x y z _ (tau2S τ) hG hG0 hTsq h0
  rw [lorentz_boost_beta3_tau_cart_signed x y z τ bx by' bz hc, refine_lorentz_boost_beta3_cart_t,
    lorentz_boost_beta3_ret_eq, interp4S_same]
  generalize tOfS .xy .z .tau x y z τ = T at e ⊢
  simp only [boostU, cart4S, xOf, yOf, zOf, Option.some.injEq, Prod.mk.injEq, true_and]
  rw [← e, tOfS_tau]
  simp only [mag2Of, xOf, yOf, zOf]

/-- C01 + C02 for `boost_beta3`, signed τ: every key denotes the general boost of the denotation; for a τ-stored first
operand provided the boosted time component is `≥ 0` -/
theorem refine_lorentz_boost_beta3_spec_signed (k0 : Az) (k1 : Lon) (k2 : Tmp) (k3 : Az) (k4 : Lon)
    (a0 a1 a2 a3 a4 a5 a6 : ℝ) (h1 : TanOK k1 a2) (h2 : TanOK k4 a6) (hd : CanonTmpS k0 k1 k2 a0 a1 a2 a3)
    (hβ : mag2Of k3 k4 a4 a5 a6 < 1)
    (h0 : k2 = .tau → 0 ≤ (boostU (1 / sqrt (1 - mag2Of k3 k4 a4 a5 a6)) (1 / sqrt (1 - mag2Of k3 k4 a4 a5 a6) * xOf k3 a4 a5)
          (1 / sqrt (1 - mag2Of k3 k4 a4 a5 a6) * yOf k3 a4 a5) (1 / sqrt (1 - mag2Of k3 k4 a4 a5 a6) * zOf k3 k4 a4 a5 a6)
          (cart4S k0 k1 k2 a0 a1 a2 a3)).2.2.2) :
    interp4S (lorentz_boost_beta3.ret k0 k1 k2 k3 k4) (lorentz_boost_beta3.eval k0 k1 k2 k3 k4 a0 a1 a2 a3 a4 a5 a6)
      = some (boostU (1 / sqrt (1 - mag2Of k3 k4 a4 a5 a6)) (1 / sqrt (1 - mag2Of k3 k4 a4 a5 a6) * xOf k3 a4 a5)
          (1 / sqrt (1 - mag2Of k3 k4 a4 a5 a6) * yOf k3 a4 a5) (1 / sqrt (1 - mag2Of k3 k4 a4 a5 a6) * zOf k3 k4 a4 a5 a6)
          (cart4S k0 k1 k2 a0 a1 a2 a3)) := by
  cases k2
  · have e := refine_lorentz_boost_beta3_spec k0 k1 .t k3 k4 a0 a1 a2 a3 a4 a5 a6 h1 h2 trivial hβ
    rw [lorentz_boost_beta3_ret_eq] at e ⊢
    rw [cart4S_t, ← e]; rfl
  · have h0' := h0 rfl
    rw [← cart4S_cart] at h0' ⊢
    rw [lorentz_boost_beta3_tau_conv k0 k1 k3 k4 a0 a1 a2 a3 a4 a5 a6 h1 h2,
      lorentz_boost_beta3_ret_eq k0 k1 .tau k3 k4, ← lorentz_boost_beta3_ret_eq .xy .z .tau .xy .z]
    exact refine_lorentz_boost_beta3_tau_signed _ _ _ a3 _ _ _ hβ ((canonTmpS_cart k0 k1 .tau a0 a1 a2 a3).mpr hd) h0'

/-- the space-like τ-stored point `(3, 0, 0, τ = −2)` (`t = √5`) boosted with `β = (1/2, 0, 0)`:
`t' = γ(t + β x) ≥ 0` -/
example : mag2Of .xy .z (1 / 2) 0 0 < 1 ∧ CanonTmpS .xy .z .tau 3 0 0 (-2) ∧
    0 ≤ (boostU (1 / sqrt (1 - mag2Of .xy .z (1 / 2) 0 0)) (1 / sqrt (1 - mag2Of .xy .z (1 / 2) 0 0) * xOf .xy (1 / 2) 0)
          (1 / sqrt (1 - mag2Of .xy .z (1 / 2) 0 0) * yOf .xy (1 / 2) 0) (1 / sqrt (1 - mag2Of .xy .z (1 / 2) 0 0) * zOf .xy .z (1 / 2) 0 0)
          (cart4S .xy .z .tau 3 0 0 (-2))).2.2.2 := by
  refine ⟨by norm_num [mag2Of, xOf, yOf, zOf], ex_canon.2.2.2, ?_⟩
  have := tOfS_tau_nonneg .xy .z 3 0 0 (-2)
  simp only [boostU, cart4S, xOf, yOf, zOf]
  positivity

/-- the hypothesis "boosted time `≥ 0`" is needed: the space-like τ-stored point `(3, 0, 0, τ = −2)` (`t = √5`) boosted
with `β = (−9/10, 0, 0)` has `t' = γ(√5 − 2.7) < 0`; the τ-stored result denotes `|t'|`, not `t'`. -/
theorem lorentz_boost_beta3_spacelike_negative_time :
    CanonTmpS .xy .z .tau 3 0 0 (-2) ∧ mag2Of .xy .z (-9 / 10) 0 0 < 1 ∧
    interp4S (lorentz_boost_beta3.ret .xy .z .tau .xy .z) (lorentz_boost_beta3.eval .xy .z .tau .xy .z 3 0 0 (-2) (-9 / 10) 0 0)
      ≠ some (boostU (1 / sqrt (1 - mag2Of .xy .z (-9 / 10) 0 0)) (1 / sqrt (1 - mag2Of .xy .z (-9 / 10) 0 0) * xOf .xy (-9 / 10) 0)
          (1 / sqrt (1 - mag2Of .xy .z (-9 / 10) 0 0) * yOf .xy (-9 / 10) 0)
          (1 / sqrt (1 - mag2Of .xy .z (-9 / 10) 0 0) * zOf .xy .z (-9 / 10) 0 0) (cart4S .xy .z .tau 3 0 0 (-2))) := by
  refine ⟨ex_canon.2.2.2, by norm_num [mag2Of, xOf, yOf, zOf], ?_⟩
  rw [lorentz_boost_beta3_ret_eq, interp4S_same]
  intro h
  have h4 := congrArg (fun v : ℝ × ℝ × ℝ × ℝ => v.2.2.2) (Option.some.inj h)
  simp only [cart4S, boostU, xOf, yOf, zOf] at h4
  have hl := tOfS_tau_nonneg .xy .z (lorentz_boost_beta3.eval .xy .z .tau .xy .z 3 0 0 (-2) (-9 / 10) 0 0).1
    (lorentz_boost_beta3.eval .xy .z .tau .xy .z 3 0 0 (-2) (-9 / 10) 0 0).2.1
    (lorentz_boost_beta3.eval .xy .z .tau .xy .z 3 0 0 (-2) (-9 / 10) 0 0).2.2.1
    (lorentz_boost_beta3.eval .xy .z .tau .xy .z 3 0 0 (-2) (-9 / 10) 0 0).2.2.2
  rw [h4] at hl
  have hT : tOfS .xy .z .tau 3 0 0 (-2) = sqrt 5 := by
    rw [tOfS_tau, tau2S_of_neg (by norm_num)]; norm_num [mag2Of, xOf, yOf, zOf]
  have h5 : sqrt 5 < 27 / 10 := by
    rw [sqrt_lt' (by norm_num)]; norm_num
  have hm : mag2Of .xy .z (-9 / 10) 0 0 = 81 / 100 := by norm_num [mag2Of, xOf, yOf, zOf]
  rw [hT, hm] at hl
  have hg : 0 < 1 / sqrt (1 - 81 / 100 : ℝ) := by
    have : (0 : ℝ) < 1 - 81 / 100 := by norm_num
    positivity
  have : 1 / sqrt (1 - 81 / 100 : ℝ) * (-9 / 10) * 3 + 1 / sqrt (1 - 81 / 100 : ℝ) * 0 * 0 + 1 / sqrt (1 - 81 / 100 : ℝ) * 0 * 0
      + 1 / sqrt (1 - 81 / 100 : ℝ) * sqrt 5 = 1 / sqrt (1 - 81 / 100 : ℝ) * (sqrt 5 - 27 / 10) := by ring
  rw [this] at hl
  have : 1 / sqrt (1 - 81 / 100 : ℝ) * (sqrt 5 - 27 / 10) < 0 := mul_neg_of_pos_of_neg hg (by linarith)
  linarith

/-! #### boost_p4 (τ-stored first operand: 72 keys) -/

theorem lorentz_boost_p4_ret_eq (k0 : Az) (k1 : Lon) (k2 : Tmp) (k3 : Az) (k4 : Lon) (k5 : Tmp) :
    lorentz_boost_p4.ret k0 k1 k2 k3 k4 k5 = Ret.vec [RP.az .xy, RP.lon .z, RP.tmp k2] := by
  cases k0 <;> cases k1 <;> cases k2 <;> cases k3 <;> cases k4 <;> cases k5 <;> rfl

set_option maxHeartbeats 400000 in
set_option linter.unusedSimpArgs false in
/-- raw C01 for the τ keys of `boost_p4`: the same tuple as the all-Cartesian key of the same temporal kinds -/
theorem lorentz_boost_p4_tau_conv (k0 : Az) (k1 : Lon) (k3 : Az) (k4 : Lon) (k5 : Tmp)
    (a0 a1 a2 a3 a4 a5 a6 a7 : ℝ) (h1 : TanOK k1 a2) (h2 : TanOK k4 a6) (hs2 : SinOK k4 a6) :
    lorentz_boost_p4.eval k0 k1 .tau k3 k4 k5 a0 a1 a2 a3 a4 a5 a6 a7
      = lorentz_boost_p4.eval .xy .z .tau .xy .z k5 (xOf k0 a0 a1) (yOf k0 a0 a1) (zOf k0 k1 a0 a1 a2) a3
          (xOf k3 a4 a5) (yOf k3 a4 a5) (zOf k3 k4 a4 a5 a6) a7 := by
  have hz1 := refine_spatial_z k0 k1 a0 a1 a2 h1
  have hz2 := refine_spatial_z k3 k4 a4 a5 a6 h2
  have hm := refine_spatial_mag2 k3 k4 a4 a5 a6 hs2
  cases k0 <;> cases k1 <;> cases k3 <;> cases k4 <;> cases k5 <;>
    simp only [spatial_z.eval, spatial_mag2.eval] at hz1 hz2 hm <;>
    simp only [d_lorentz_boost_p4, hz1, hz2, hm, conv_x_rhophi, conv_y_rhophi, conv_x_xy, conv_y_xy, conv_z_xy_z] <;>
    simp only [spatial_mag2.xy_z, mag2Of, xOf, yOf, zOf]

/-- the all-Cartesian τ,`t` key: spatial part of the Cartesian-`t`,`t` key applied to `(x₁, y₁, z₁, t₁)`, `t₁` the signed-τ
time component, and the stored τ passed through — no assumption on the boost vector -/
theorem lorentz_boost_p4_tau_cart_signed (x1 y1 z1 τ1 x2 y2 z2 t2 : ℝ) (hc : CanonTmpS .xy .z .tau x1 y1 z1 τ1) :
    lorentz_boost_p4.eval .xy .z .tau .xy .z .t x1 y1 z1 τ1 x2 y2 z2 t2
      = ((lorentz_boost_p4.eval .xy .z .t .xy .z .t x1 y1 z1 (tOfS .xy .z .tau x1 y1 z1 τ1) x2 y2 z2 t2).1,
         (lorentz_boost_p4.eval .xy .z .t .xy .z .t x1 y1 z1 (tOfS .xy .z .tau x1 y1 z1 τ1) x2 y2 z2 t2).2.1,
         (lorentz_boost_p4.eval .xy .z .t .xy .z .t x1 y1 z1 (tOfS .xy .z .tau x1 y1 z1 τ1) x2 y2 z2 t2).2.2.1, τ1) := by
  have hT : lorentz_t.xy_z_tau x1 y1 z1 τ1 = tOfS .xy .z .tau x1 y1 z1 τ1 :=
    lorentz_t_eq_tOfS .xy .z .tau x1 y1 z1 τ1 trivial hc
  simp only [lorentz_boost_p4.eval, lorentz_boost_p4.k_xy_z_tau_xy_z_t, lorentz_boost_p4.cartesian_tau_xy_z_t,
    lorentz_boost_p4.cartesian_tau, lorentz_boost_p4.cartesian_t_xy_z_t, lorentz_boost_p4.cartesian_t,
    d_lorentz_transform4D, planar_x.xy, planar_y.xy, spatial_z.xy_z, hT]

/-- the all-Cartesian τ,`t` key denotes the general boost of the signed-τ denotation, when the boosted time is `≥ 0` -/
theorem refine_lorentz_boost_p4_tau1_signed (x1 y1 z1 τ1 x2 y2 z2 t2 : ℝ) (hc : CanonTmpS .xy .z .tau x1 y1 z1 τ1)
    (hM : 0 < t2 ^ 2 - (x2 ^ 2 + y2 ^ 2 + z2 ^ 2)) (ht2 : 0 < t2)
    (h0 : 0 ≤ (boostU (t2 / sqrt (t2 ^ 2 - (x2 ^ 2 + y2 ^ 2 + z2 ^ 2))) (x2 / sqrt (t2 ^ 2 - (x2 ^ 2 + y2 ^ 2 + z2 ^ 2)))
          (y2 / sqrt (t2 ^ 2 - (x2 ^ 2 + y2 ^ 2 + z2 ^ 2))) (z2 / sqrt (t2 ^ 2 - (x2 ^ 2 + y2 ^ 2 + z2 ^ 2)))
          (x1, y1, z1, tOfS .xy .z .tau x1 y1 z1 τ1)).2.2.2) :
    interp4S (lorentz_boost_p4.ret .xy .z .tau .xy .z .t) (lorentz_boost_p4.eval .xy .z .tau .xy .z .t x1 y1 z1 τ1 x2 y2 z2 t2)
      = some (boostU (t2 / sqrt (t2 ^ 2 - (x2 ^ 2 + y2 ^ 2 + z2 ^ 2))) (x2 / sqrt (t2 ^ 2 - (x2 ^ 2 + y2 ^ 2 + z2 ^ 2)))
          (y2 / sqrt (t2 ^ 2 - (x2 ^ 2 + y2 ^ 2 + z2 ^ 2))) (z2 / sqrt (t2 ^ 2 - (x2 ^ 2 + y2 ^ 2 + z2 ^ 2)))
          (x1, y1, z1, tOfS .xy .z .tau x1 y1 z1 τ1)) := by
  have hMM : t2 ^ 2 - (x2 ^ 2 + y2 ^ 2 + z2 ^ 2) = sqrt (t2 ^ 2 - (x2 ^ 2 + y2 ^ 2 + z2 ^ 2)) ^ 2 := (sq_sqrt hM.le).symm
  have hM0 : 0 < sqrt (t2 ^ 2 - (x2 ^ 2 + y2 ^ 2 + z2 ^ 2)) := sqrt_pos.mpr hM
  have hTsq := tOfS_xyz_tau_sq x1 y1 z1 τ1 hc
  rw [lorentz_boost_p4_tau_cart_signed x1 y1 z1 τ1 x2 y2 z2 t2 hc, refine_lorentz_boost_p4_cart_t _ _ _ _ _ _ _ _ hM,
    lorentz_boost_p4_ret_eq, interp4S_same]
  generalize sqrt (t2 ^ 2 - (x2 ^ 2 + y2 ^ 2 + z2 ^ 2)) = M at hMM hM0 h0 ⊢
  have hG : (t2 / M) ^ 2 = 1 + ((x2 / M) ^ 2 + (y2 / M) ^ 2 + (z2 / M) ^ 2) := by
    field_simp
    linear_combination hMM
  simp only [boostU] at h0
  have e := L.boostU_time_signed (t2 / M) (x2 / M) (y2 / M) (z2 / M) x1 y1 z1 _ (tau2S τ1) hG (by positivity) hTsq h0
  generalize tOfS .xy .z .tau x1 y1 z1 τ1 = T at e ⊢
  simp only [boostU, cart4S, xOf, yOf, zOf, Option.some.injEq, Prod.mk.injEq, true_and]
  rw [← e, tOfS_tau]
  simp only [mag2Of, xOf, yOf, zOf]

/-- C01 + C02 for `boost_p4`, signed τ on both operands: every key denotes the general boost of the first operand with
the four-velocity `p₂ / M` of the second (a physical momentum: time-like — hence `τ₂ > 0` if τ-stored — with positive
energy); for a τ-stored first operand provided the boosted time component is `≥ 0` -/
theorem refine_lorentz_boost_p4_spec_signed (k0 : Az) (k1 : Lon) (k2 : Tmp) (k3 : Az) (k4 : Lon) (k5 : Tmp)
    (a0 a1 a2 a3 a4 a5 a6 a7 : ℝ) (h1 : TanOK k1 a2) (h2 : TanOK k4 a6) (hs2 : SinOK k4 a6)
    (hd1 : CanonTmpS k0 k1 k2 a0 a1 a2 a3) (hd2 : CanonTmpS k3 k4 k5 a4 a5 a6 a7)
    (hm : 0 < tOfS k3 k4 k5 a4 a5 a6 a7 ^ 2 - mag2Of k3 k4 a4 a5 a6) (ht : 0 < tOfS k3 k4 k5 a4 a5 a6 a7)
    (h0 : k2 = .tau → 0 ≤ (boostU (tOfS k3 k4 k5 a4 a5 a6 a7 / sqrt (tOfS k3 k4 k5 a4 a5 a6 a7 ^ 2 - mag2Of k3 k4 a4 a5 a6))
          (xOf k3 a4 a5 / sqrt (tOfS k3 k4 k5 a4 a5 a6 a7 ^ 2 - mag2Of k3 k4 a4 a5 a6))
          (yOf k3 a4 a5 / sqrt (tOfS k3 k4 k5 a4 a5 a6 a7 ^ 2 - mag2Of k3 k4 a4 a5 a6))
          (zOf k3 k4 a4 a5 a6 / sqrt (tOfS k3 k4 k5 a4 a5 a6 a7 ^ 2 - mag2Of k3 k4 a4 a5 a6))
          (cart4S k0 k1 k2 a0 a1 a2 a3)).2.2.2) :
    interp4S (lorentz_boost_p4.ret k0 k1 k2 k3 k4 k5) (lorentz_boost_p4.eval k0 k1 k2 k3 k4 k5 a0 a1 a2 a3 a4 a5 a6 a7)
      = some (boostU (tOfS k3 k4 k5 a4 a5 a6 a7 / sqrt (tOfS k3 k4 k5 a4 a5 a6 a7 ^ 2 - mag2Of k3 k4 a4 a5 a6))
          (xOf k3 a4 a5 / sqrt (tOfS k3 k4 k5 a4 a5 a6 a7 ^ 2 - mag2Of k3 k4 a4 a5 a6))
          (yOf k3 a4 a5 / sqrt (tOfS k3 k4 k5 a4 a5 a6 a7 ^ 2 - mag2Of k3 k4 a4 a5 a6))
          (zOf k3 k4 a4 a5 a6 / sqrt (tOfS k3 k4 k5 a4 a5 a6 a7 ^ 2 - mag2Of k3 k4 a4 a5 a6))
          (cart4S k0 k1 k2 a0 a1 a2 a3)) := by
  -- a time-like τ-stored boost vector has `τ₂ > 0`: the unsigned reading applies to the second operand
  have hd2' : CanonTmp k5 a7 := by
    cases k5
    · trivial
    · exact ((timelike_iff_tau_pos k3 k4 a4 a5 a6 a7 hd2).mp hm).le
  have et : tOfS k3 k4 k5 a4 a5 a6 a7 = tOf k3 k4 k5 a4 a5 a6 a7 := tOfS_eq_tOf k3 k4 k5 a4 a5 a6 a7 hd2'
  rw [et] at hm ht h0 ⊢
  cases k2
  · have e := refine_lorentz_boost_p4_spec k0 k1 .t k3 k4 k5 a0 a1 a2 a3 a4 a5 a6 a7 h1 h2 hs2 trivial hd2' hm ht
    rw [lorentz_boost_p4_ret_eq] at e ⊢
    rw [cart4S_t, ← e]; rfl
  · have h0' := h0 rfl
    have hc := (canonTmpS_cart k0 k1 .tau a0 a1 a2 a3).mpr hd1
    rw [← cart4S_cart] at h0' ⊢
    rw [← tOf_cart k3 k4 k5 a4 a5 a6 a7] at hm ht h0' ⊢
    have hmag : mag2Of k3 k4 a4 a5 a6 = xOf k3 a4 a5 ^ 2 + yOf k3 a4 a5 ^ 2 + zOf k3 k4 a4 a5 a6 ^ 2 := rfl
    rw [hmag] at hm h0' ⊢
    rw [lorentz_boost_p4_tau_conv k0 k1 k3 k4 k5 a0 a1 a2 a3 a4 a5 a6 a7 h1 h2 hs2,
      lorentz_boost_p4_ret_eq k0 k1 .tau k3 k4 k5, ← lorentz_boost_p4_ret_eq .xy .z .tau .xy .z .t]
    have e5 : lorentz_boost_p4.eval .xy .z .tau .xy .z k5 (xOf k0 a0 a1) (yOf k0 a0 a1) (zOf k0 k1 a0 a1 a2) a3
          (xOf k3 a4 a5) (yOf k3 a4 a5) (zOf k3 k4 a4 a5 a6) a7
        = lorentz_boost_p4.eval .xy .z .tau .xy .z .t (xOf k0 a0 a1) (yOf k0 a0 a1) (zOf k0 k1 a0 a1 a2) a3
          (xOf k3 a4 a5) (yOf k3 a4 a5) (zOf k3 k4 a4 a5 a6)
          (tOf .xy .z k5 (xOf k3 a4 a5) (yOf k3 a4 a5) (zOf k3 k4 a4 a5 a6) a7) := by
      cases k5
      · rw [tOf_t]
      · exact refine_lorentz_boost_p4_tau2 .tau _ _ _ a3 _ _ _ a7 hd2'
    rw [e5]
    exact refine_lorentz_boost_p4_tau1_signed _ _ _ a3 _ _ _ _ hc hm ht h0'

/-- τ-stored first operand of `boost_p4`, signed τ, boost vector stored with `t`: the spatial part is that of the
Cartesian-`t`,`t` result on the denotation `(x, y, z, tOfS)` … -/
theorem refine_lorentz_boost_p4_tau_spatial_signed (k0 : Az) (k1 : Lon) (k3 : Az) (k4 : Lon)
    (a0 a1 a2 a3 a4 a5 a6 a7 : ℝ) (h1 : TanOK k1 a2) (h2 : TanOK k4 a6) (hs2 : SinOK k4 a6)
    (hd : CanonTmpS k0 k1 .tau a0 a1 a2 a3) :
    let r := lorentz_boost_p4.eval k0 k1 .tau k3 k4 .t a0 a1 a2 a3 a4 a5 a6 a7
    let r' := lorentz_boost_p4.eval .xy .z .t .xy .z .t (xOf k0 a0 a1) (yOf k0 a0 a1) (zOf k0 k1 a0 a1 a2)
      (tOfS k0 k1 .tau a0 a1 a2 a3) (xOf k3 a4 a5) (yOf k3 a4 a5) (zOf k3 k4 a4 a5 a6) a7
    interp3 (lorentz_boost_p4.ret k0 k1 .tau k3 k4 .t) (r.1, r.2.1, r.2.2.1) = some (r'.1, r'.2.1, r'.2.2.1) := by
  rw [lorentz_boost_p4_tau_conv k0 k1 k3 k4 .t a0 a1 a2 a3 a4 a5 a6 a7 h1 h2 hs2,
    lorentz_boost_p4_tau_cart_signed _ _ _ a3 _ _ _ a7 ((canonTmpS_cart k0 k1 .tau a0 a1 a2 a3).mpr hd), tOfS_cart,
    lorentz_boost_p4_ret_eq]
  rfl

/-- … and the returned τ is the stored (signed) τ: `refine_lorentz_boost_p4_tau_stored`. -/
theorem refine_lorentz_boost_p4_tau_stored_signed (k0 : Az) (k1 : Lon) (k3 : Az) (k4 : Lon) (k5 : Tmp)
    (a0 a1 a2 a3 a4 a5 a6 a7 : ℝ) :
    (lorentz_boost_p4.eval k0 k1 .tau k3 k4 k5 a0 a1 a2 a3 a4 a5 a6 a7).2.2.2 = a3 :=
  refine_lorentz_boost_p4_tau_stored k0 k1 k3 k4 k5 a0 a1 a2 a3 a4 a5 a6 a7

/-- the space-like τ-stored point `(3, 0, 0, τ = −2)` boosted by the momentum `(1, 0, 0, t = 2)`: `t' ≥ 0` -/
example : CanonTmpS .xy .z .tau 3 0 0 (-2) ∧ CanonTmpS .xy .z .t 1 0 0 2
    ∧ 0 < tOfS .xy .z .t 1 0 0 2 ^ 2 - mag2Of .xy .z 1 0 0 ∧ 0 < tOfS .xy .z .t 1 0 0 2
    ∧ 0 ≤ (boostU (tOfS .xy .z .t 1 0 0 2 / sqrt (tOfS .xy .z .t 1 0 0 2 ^ 2 - mag2Of .xy .z 1 0 0))
          (xOf .xy 1 0 / sqrt (tOfS .xy .z .t 1 0 0 2 ^ 2 - mag2Of .xy .z 1 0 0))
          (yOf .xy 1 0 / sqrt (tOfS .xy .z .t 1 0 0 2 ^ 2 - mag2Of .xy .z 1 0 0))
          (zOf .xy .z 1 0 0 / sqrt (tOfS .xy .z .t 1 0 0 2 ^ 2 - mag2Of .xy .z 1 0 0))
          (cart4S .xy .z .tau 3 0 0 (-2))).2.2.2 := by
  refine ⟨ex_canon.2.2.2, trivial, by norm_num [tOfS, mag2Of, xOf, yOf, zOf], by norm_num [tOfS], ?_⟩
  have := tOfS_tau_nonneg .xy .z 3 0 0 (-2)
  simp only [boostU, cart4S, xOf, yOf, zOf, tOfS_t]
  positivity

/-! ### (f) `Mt2` is storage dependent for space-like vectors with `t < |z|` -/

/-- The same space-like 4-vector `(x, y, z, t) = (0.9, 2.2, −2.6, 2.0)`, stored once with `t = 2` and once with
`τ = −2.9` (`τ²ₛ = t² − |p|² = −8.41`): the `t`-stored `Mt2` returns `t² − z² = −2.76 < 0`, the τ-stored one clamps
`max(τ²ₛ + x² + y², 0) = max(−2.76, 0) = 0`. -/
theorem lorentz_Mt2_spacelike_storage_dependent :
    CanonTmpS .xy .z .tau (9 / 10) (11 / 5) (-13 / 5) (-29 / 10)
    ∧ cart4S .xy .z .tau (9 / 10) (11 / 5) (-13 / 5) (-29 / 10) = cart4S .xy .z .t (9 / 10) (11 / 5) (-13 / 5) 2
    ∧ lorentz_Mt2.eval .xy .z .t (9 / 10) (11 / 5) (-13 / 5) 2 = -69 / 25
    ∧ lorentz_Mt2.eval .xy .z .tau (9 / 10) (11 / 5) (-13 / 5) (-29 / 10) = 0
    ∧ lorentz_Mt2.eval .xy .z .tau (9 / 10) (11 / 5) (-13 / 5) (-29 / 10)
        ≠ lorentz_Mt2.eval .xy .z .t (9 / 10) (11 / 5) (-13 / 5) 2 := by
  have e : tau2S (-29 / 10) + mag2Of .xy .z (9 / 10) (11 / 5) (-13 / 5) = 4 := by
    rw [tau2S_of_neg (by norm_num)]; norm_num [mag2Of, xOf, yOf, zOf]
  have hc : CanonTmpS .xy .z .tau (9 / 10) (11 / 5) (-13 / 5) (-29 / 10) := by
    show 0 ≤ tau2S (-29 / 10) + mag2Of .xy .z (9 / 10) (11 / 5) (-13 / 5)
    rw [e]; norm_num
  have ht : tOfS .xy .z .tau (9 / 10) (11 / 5) (-13 / 5) (-29 / 10) = 2 := by
    rw [tOfS_tau, e, show (4 : ℝ) = 2 ^ 2 by norm_num, sqrt_sq (by norm_num)]
  have e1 : lorentz_Mt2.eval .xy .z .t (9 / 10) (11 / 5) (-13 / 5) 2 = -69 / 25 := by
    simp only [d_lorentz_Mt2]; norm_num
  have e2 : lorentz_Mt2.eval .xy .z .tau (9 / 10) (11 / 5) (-13 / 5) (-29 / 10) = 0 := by
    rw [refine_lorentz_Mt2_tau_signed _ _ _ _ _ _ hc, ht]
    apply max_eq_right
    norm_num [zOf]
  refine ⟨hc, ?_, e1, e2, ?_⟩
  · simp only [cart4S, ht, tOfS_t]
  · rw [e1, e2]; norm_num

end VR
