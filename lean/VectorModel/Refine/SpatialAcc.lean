/-
Refinement of the 3D accessors `mag2`, `mag`, `costheta`, `cottheta`, `theta`, `eta`
(all six keys `(Az, Lon)` each) against the specification layer, and the "round-trip"
lemmas (`zOf` of a converted longitudinal coordinate) other refinement proofs rewrite with.
-/
import VectorModel.Refine.SpatialZ
import VectorModel.Gen.Real.spatial_mag2
import VectorModel.Gen.Real.spatial_mag
import VectorModel.Gen.Real.spatial_costheta__spatial_theta
import VectorModel.Gen.Real.spatial_cottheta
import VectorModel.Gen.Real.spatial_eta
import Mathlib.Tactic.NormNum

namespace VR
open VK Spec Real

/-! ### real identities -/
namespace L

/-- the code's `1/sin θ` for η storage: `½(1 + e^{-2η}) / e^{-η} = cosh η` -/
theorem invsin_eta (e : ℝ) : (0.5 : ℝ) * (1 + exp (-e) ^ 2) / exp (-e) = cosh e := by
  rw [cosh_eq, exp_neg]
  have h : exp e ≠ 0 := exp_ne_zero e
  field_simp
  ring

theorem cos_two_arctan (t : ℝ) : cos (2 * arctan t) = (1 - t ^ 2) / (1 + t ^ 2) := by
  have h : (1 + t ^ 2) ≠ 0 := by positivity
  rw [cos_two_mul, cos_sq_arctan]
  field_simp
  ring

theorem sin_two_arctan (t : ℝ) : sin (2 * arctan t) = 2 * t / (1 + t ^ 2) := by
  have h : (0 : ℝ) < 1 + t ^ 2 := by positivity
  have hs : sqrt (1 + t ^ 2) ^ 2 = 1 + t ^ 2 := Real.sq_sqrt h.le
  have hs0 : sqrt (1 + t ^ 2) ≠ 0 := (Real.sqrt_pos.mpr h).ne'
  have e : 2 * (t / sqrt (1 + t ^ 2)) * (1 / sqrt (1 + t ^ 2)) = 2 * t / sqrt (1 + t ^ 2) ^ 2 := by
    field_simp
  rw [sin_two_mul, sin_arctan, cos_arctan, e, hs]

/-- `cos(2 arctan e^{-η}) = tanh η` -/
theorem cos_two_arctan_exp_neg (e : ℝ) : cos (2 * arctan (exp (-e))) = sinh e / cosh e := by
  rw [cos_two_arctan, sinh_eq, cosh_eq, exp_neg]
  have h : exp e ≠ 0 := exp_ne_zero e
  have h2 : exp e + (exp e)⁻¹ ≠ 0 := by positivity
  have h3 : 1 + (exp e)⁻¹ ^ 2 ≠ 0 := by positivity
  field_simp

/-- `sin(2 arctan e^{-η}) = 1 / cosh η` -/
theorem sin_two_arctan_exp_neg (e : ℝ) : sin (2 * arctan (exp (-e))) = 1 / cosh e := by
  rw [sin_two_arctan, cosh_eq, exp_neg]
  have h : exp e ≠ 0 := exp_ne_zero e
  have h2 : exp e + (exp e)⁻¹ ≠ 0 := by positivity
  have h3 : 1 + (exp e)⁻¹ ^ 2 ≠ 0 := by positivity
  field_simp

theorem two_arctan_exp_neg_pos (e : ℝ) : 0 < 2 * arctan (exp (-e)) := by
  have := arctan_pos.mpr (exp_pos (-e)); linarith

theorem two_arctan_exp_neg_lt_pi (e : ℝ) : 2 * arctan (exp (-e)) < π := by
  have := arctan_lt_pi_div_two (exp (-e)); linarith

/-- for `0 < ρ`: `cos(arccos(z/√(ρ²+z²))) = z/√(ρ²+z²)` and `sin(arccos(z/√(ρ²+z²))) = ρ/√(ρ²+z²)` -/
theorem cos_arccos_ratio {r z : ℝ} (hr : 0 < r) :
    cos (arccos (z / sqrt (r ^ 2 + z ^ 2))) = z / sqrt (r ^ 2 + z ^ 2) := by
  have hm : 0 < sqrt (r ^ 2 + z ^ 2) := Real.sqrt_pos.mpr (by positivity)
  have hz : |z| ≤ sqrt (r ^ 2 + z ^ 2) := Real.abs_le_sqrt (by nlinarith)
  have := abs_le.mp hz
  apply cos_arccos
  · rw [le_div_iff₀ hm]; linarith
  · rw [div_le_one hm]; linarith

theorem sin_arccos_ratio {r z : ℝ} (hr : 0 < r) :
    sin (arccos (z / sqrt (r ^ 2 + z ^ 2))) = r / sqrt (r ^ 2 + z ^ 2) := by
  have hp : 0 < r ^ 2 + z ^ 2 := by positivity
  have hm : 0 < sqrt (r ^ 2 + z ^ 2) := Real.sqrt_pos.mpr hp
  have hs : sqrt (r ^ 2 + z ^ 2) ^ 2 = r ^ 2 + z ^ 2 := Real.sq_sqrt hp.le
  have e : 1 - (z / sqrt (r ^ 2 + z ^ 2)) ^ 2 = (r / sqrt (r ^ 2 + z ^ 2)) ^ 2 := by
    rw [div_pow, div_pow, hs]; field_simp; ring
  rw [sin_arccos, e, Real.sqrt_sq (by positivity)]

/-- `ρ · cot(arccos(z/√(ρ²+z²))) = z` for `0 < ρ` -/
theorem cot_arccos_ratio {r z : ℝ} (hr : 0 < r) :
    r * (cos (arccos (z / sqrt (r ^ 2 + z ^ 2))) / sin (arccos (z / sqrt (r ^ 2 + z ^ 2)))) = z := by
  have hm : 0 < sqrt (r ^ 2 + z ^ 2) := Real.sqrt_pos.mpr (by positivity)
  rw [cos_arccos_ratio hr, sin_arccos_ratio hr]
  field_simp

/-- `0 < arccos(z/√(ρ²+z²)) < π` for `0 < ρ` -/
theorem arccos_ratio_mem {r z : ℝ} (hr : 0 < r) :
    0 < arccos (z / sqrt (r ^ 2 + z ^ 2)) ∧ arccos (z / sqrt (r ^ 2 + z ^ 2)) < π := by
  have hp : 0 < r ^ 2 + z ^ 2 := by positivity
  have hm : 0 < sqrt (r ^ 2 + z ^ 2) := Real.sqrt_pos.mpr hp
  have hlt : |z| < sqrt (r ^ 2 + z ^ 2) := by
    rw [Real.lt_sqrt (abs_nonneg z), sq_abs]; nlinarith
  have := abs_lt.mp hlt
  constructor
  · rw [arccos_pos, div_lt_one hm]; linarith
  · rw [arccos_lt_pi, lt_div_iff₀ hm]; linarith

/-- `sinh(-log tan(θ/2)) = cot θ` for `0 < θ < π` -/
theorem sinh_neg_log_tan_half {th : ℝ} (h0 : 0 < th) (h1 : th < π) :
    sinh (-log (tan (0.5 * th))) = cos th / sin th := by
  have hs : 0 < sin (0.5 * th) := sin_pos_of_pos_of_lt_pi (by linarith) (by linarith)
  have hc : 0 < cos (0.5 * th) := cos_pos_of_mem_Ioo ⟨by linarith, by linarith⟩
  have ht : 0 < tan (0.5 * th) := by rw [tan_eq_sin_div_cos]; positivity
  have e2 : th = 2 * (0.5 * th) := by ring
  rw [sinh_eq, neg_neg, exp_neg, exp_log ht, tan_eq_sin_div_cos]
  conv_rhs => rw [e2, cos_two_mul', sin_two_mul]
  field_simp

end L

/-! ### `ρ² = x² + y²` for both azimuthal storages -/

theorem Spec.sq_xOf_add_sq_yOf (k : Az) (a b : ℝ) : xOf k a b ^ 2 + yOf k a b ^ 2 = rhoOf k a b ^ 2 := by
  cases k
  · exact (L.sq_sqrt_sumsq a b).symm
  · simp only [xOf, yOf, rhoOf]
    linear_combination (a ^ 2) * (cos_sq_add_sin_sq b)

theorem Spec.mag2Of_eq (k0 : Az) (k1 : Lon) (a b c : ℝ) :
    mag2Of k0 k1 a b c = rhoOf k0 a b ^ 2 + zOf k0 k1 a b c ^ 2 := by
  unfold mag2Of; rw [Spec.sq_xOf_add_sq_yOf]

theorem Spec.rhoOf_nonneg {k : Az} {a b : ℝ} (h : Canon2 k a b) : 0 ≤ rhoOf k a b := by
  cases k
  · exact Real.sqrt_nonneg _
  · exact h

/-- under `CanonLon` a stored θ has `0 < sin θ` -/
theorem Spec.sin_pos_of_canonLon {k : Az} {a b c : ℝ} (h : CanonLon k .theta a b c) : 0 < sin c :=
  sin_pos_of_pos_of_lt_pi h.2.1 h.2.2

/-- the hypothesis under which `ρ²/sin²θ` is the squared length: `sin θ ≠ 0` for θ storage (implied by `CanonLon`) -/
def Spec.SinOK : Lon → ℝ → Prop
  | .theta, c => sin c ≠ 0
  | _, _ => True

theorem Spec.SinOK_of_canonLon {k0 : Az} {k1 : Lon} {a b c : ℝ} (h : CanonLon k0 k1 a b c) : SinOK k1 c := by
  cases k1
  · trivial
  · exact (Spec.sin_pos_of_canonLon h).ne'
  · trivial

/-! ### mag2 -/

/-- the code's `mag2` in terms of `ρ`: one formula per longitudinal key -/
theorem spatial_mag2_eval_rho (k0 : Az) (k1 : Lon) (a b c : ℝ) :
    spatial_mag2.eval k0 k1 a b c =
      match k1 with
      | .z => rhoOf k0 a b ^ 2 + c ^ 2
      | .theta => rhoOf k0 a b ^ 2 / sin c ^ 2
      | .eta => rhoOf k0 a b ^ 2 * cosh c ^ 2 := by
  cases k0 <;> cases k1 <;>
    simp only [d_spatial_mag2, rhoOf, L.sq_sqrt_sumsq, L.invsin_eta]

theorem refine_spatial_mag2 (k0 : Az) (k1 : Lon) (a b c : ℝ) (h : SinOK k1 c) :
    spatial_mag2.eval k0 k1 a b c = mag2Of k0 k1 a b c := by
  rw [spatial_mag2_eval_rho, Spec.mag2Of_eq]
  cases k1
  · rfl
  · simp only [zOf]
    have hs : sin c ≠ 0 := h
    field_simp
    linear_combination (rhoOf k0 a b ^ 2) * (cos_sq_add_sin_sq c).symm
  · simp only [zOf]
    linear_combination (rhoOf k0 a b ^ 2) * (cosh_sq c)

example : SinOK .theta 1 := (sin_pos_of_pos_of_lt_pi one_pos (by linarith [two_le_pi])).ne'

/-! ### the other accessors in terms of `ρ` (one formula per longitudinal key; no hypotheses) -/

private theorem two_pt_zero : (2.0 : ℝ) = 2 := by norm_num

theorem spatial_mag_eval_rho (k0 : Az) (k1 : Lon) (a b c : ℝ) :
    spatial_mag.eval k0 k1 a b c =
      match k1 with
      | .z => sqrt (rhoOf k0 a b ^ 2 + c ^ 2)
      | .theta => rhoOf k0 a b / |sin c|
      | .eta => rhoOf k0 a b * cosh c := by
  cases k0 <;> cases k1 <;>
    simp only [d_spatial_mag, d_spatial_mag2, rhoOf, L.sq_sqrt_sumsq, L.invsin_eta]

theorem spatial_costheta_eval_rho (k0 : Az) (k1 : Lon) (a b c : ℝ) :
    spatial_costheta.eval k0 k1 a b c =
      match k1 with
      | .z => c / sqrt (rhoOf k0 a b ^ 2 + c ^ 2)
      | .theta => cos c
      | .eta => cos (2 * arctan (exp (-c))) := by
  cases k0 <;> cases k1 <;>
    simp only [d_spatial_costheta, d_spatial_theta, d_spatial_mag, d_spatial_mag2, P.nanToNum_eq, rhoOf,
      L.sq_sqrt_sumsq, two_pt_zero]

theorem spatial_theta_eval_rho (k0 : Az) (k1 : Lon) (a b c : ℝ) :
    spatial_theta.eval k0 k1 a b c =
      match k1 with
      | .z => arccos (c / sqrt (rhoOf k0 a b ^ 2 + c ^ 2))
      | .theta => c
      | .eta => 2 * arctan (exp (-c)) := by
  cases k0 <;> cases k1 <;>
    simp only [d_spatial_costheta, d_spatial_theta, d_spatial_mag, d_spatial_mag2, P.nanToNum_eq, rhoOf,
      L.sq_sqrt_sumsq, two_pt_zero]

theorem spatial_cottheta_eval_rho (k0 : Az) (k1 : Lon) (a b c : ℝ) :
    spatial_cottheta.eval k0 k1 a b c =
      match k1 with
      | .z => c / rhoOf k0 a b
      | .theta => 1 / tan c
      | .eta => 1 / tan (2 * arctan (exp (-c))) := by
  cases k0 <;> cases k1 <;>
    simp only [d_spatial_cottheta, d_spatial_theta, d_planar_rho, d_planar_rho2, P.nanToNum_eq, rhoOf, two_pt_zero]

theorem spatial_eta_eval_rho (k0 : Az) (k1 : Lon) (a b c : ℝ) :
    spatial_eta.eval k0 k1 a b c =
      match k1 with
      | .z => arsinh (c / rhoOf k0 a b)
      | .theta => -log (tan (0.5 * c))
      | .eta => c := by
  cases k0 <;> cases k1 <;>
    simp only [d_spatial_eta, P.nanToNum_eq, rhoOf]

/-! ### round trips: `zOf` of a converted longitudinal coordinate -/

/-- converting the longitudinal coordinate to θ (any source key) preserves the denoted `z` -/
theorem refine_spatial_theta_zOf (k0 : Az) (k1 : Lon) (a b c : ℝ) (hr : 0 < rhoOf k0 a b) :
    zOf k0 .theta a b (spatial_theta.eval k0 k1 a b c) = zOf k0 k1 a b c := by
  rw [spatial_theta_eval_rho]
  cases k1
  · exact L.cot_arccos_ratio hr
  · rfl
  · simp only [zOf]
    rw [L.cos_two_arctan_exp_neg, L.sin_two_arctan_exp_neg]
    have : cosh c ≠ 0 := (cosh_pos c).ne'
    field_simp

/-- converting the longitudinal coordinate to η (any source key) preserves the denoted `z` -/
theorem refine_spatial_eta_zOf (k0 : Az) (k1 : Lon) (a b c : ℝ) (hr : 0 < rhoOf k0 a b)
    (h : CanonLon k0 k1 a b c) :
    zOf k0 .eta a b (spatial_eta.eval k0 k1 a b c) = zOf k0 k1 a b c := by
  rw [spatial_eta_eval_rho]
  cases k1
  · simp only [zOf, sinh_arsinh]
    field_simp
  · simp only [zOf]
    rw [L.sinh_neg_log_tan_half h.2.1 h.2.2]
  · rfl

/-- the θ produced from any canonical storage is canonical: `0 < θ < π` -/
theorem refine_spatial_theta_mem (k0 : Az) (k1 : Lon) (a b c : ℝ) (hr : 0 < rhoOf k0 a b)
    (h : CanonLon k0 k1 a b c) :
    0 < spatial_theta.eval k0 k1 a b c ∧ spatial_theta.eval k0 k1 a b c < π := by
  rw [spatial_theta_eval_rho]
  cases k1
  · exact L.arccos_ratio_mem hr
  · exact h.2
  · exact ⟨L.two_arctan_exp_neg_pos c, L.two_arctan_exp_neg_lt_pi c⟩

/-- named per-variant forms of the round trips -/
theorem spatial_theta_xy_z_zOf (a b z : ℝ) (hr : 0 < rhoOf .xy a b) :
    zOf .xy .theta a b (spatial_theta.xy_z a b z) = z := refine_spatial_theta_zOf .xy .z a b z hr
theorem spatial_theta_rhophi_z_zOf (a b z : ℝ) (hr : 0 < rhoOf .rhophi a b) :
    zOf .rhophi .theta a b (spatial_theta.rhophi_z a b z) = z := refine_spatial_theta_zOf .rhophi .z a b z hr
theorem spatial_theta_xy_eta_zOf (a b e : ℝ) (hr : 0 < rhoOf .xy a b) :
    zOf .xy .theta a b (spatial_theta.xy_eta a b e) = zOf .xy .eta a b e := refine_spatial_theta_zOf .xy .eta a b e hr
theorem spatial_theta_rhophi_eta_zOf (a b e : ℝ) (hr : 0 < rhoOf .rhophi a b) :
    zOf .rhophi .theta a b (spatial_theta.rhophi_eta a b e) = zOf .rhophi .eta a b e :=
  refine_spatial_theta_zOf .rhophi .eta a b e hr
theorem spatial_eta_xy_z_zOf (a b z : ℝ) (hr : 0 < rhoOf .xy a b) :
    zOf .xy .eta a b (spatial_eta.xy_z a b z) = z := refine_spatial_eta_zOf .xy .z a b z hr trivial
theorem spatial_eta_rhophi_z_zOf (a b z : ℝ) (hr : 0 < rhoOf .rhophi a b) :
    zOf .rhophi .eta a b (spatial_eta.rhophi_z a b z) = z := refine_spatial_eta_zOf .rhophi .z a b z hr trivial
theorem spatial_eta_xy_theta_zOf (a b th : ℝ) (hr : 0 < rhoOf .xy a b) (h0 : 0 < th) (h1 : th < π) :
    zOf .xy .eta a b (spatial_eta.xy_theta a b th) = zOf .xy .theta a b th :=
  refine_spatial_eta_zOf .xy .theta a b th hr ⟨hr, h0, h1⟩
theorem spatial_eta_rhophi_theta_zOf (a b th : ℝ) (hr : 0 < rhoOf .rhophi a b) (h0 : 0 < th) (h1 : th < π) :
    zOf .rhophi .eta a b (spatial_eta.rhophi_theta a b th) = zOf .rhophi .theta a b th :=
  refine_spatial_eta_zOf .rhophi .theta a b th hr ⟨hr, h0, h1⟩

example : 0 < rhoOf .xy 3 4 ∧ CanonLon .xy .theta 3 4 1 := by
  have h : 0 < rhoOf .xy 3 4 := L.sqrt_sumsq_pos (Or.inl (by norm_num))
  exact ⟨h, h, one_pos, by linarith [two_le_pi]⟩

/-! ### mag, costheta, cottheta, theta, eta against the specification -/

/-- `mag = √(x² + y² + z²)` of the denotation, for representable azimuthal storage (`0 ≤ ρ`) and `sin θ ≠ 0` -/
theorem refine_spatial_mag (k0 : Az) (k1 : Lon) (a b c : ℝ) (h2 : Canon2 k0 a b) (h : SinOK k1 c) :
    spatial_mag.eval k0 k1 a b c = sqrt (mag2Of k0 k1 a b c) := by
  have hr := Spec.rhoOf_nonneg h2
  rw [← refine_spatial_mag2 k0 k1 a b c h, spatial_mag2_eval_rho, spatial_mag_eval_rho]
  cases k1
  · rfl
  · show rhoOf k0 a b / |sin c| = sqrt (rhoOf k0 a b ^ 2 / sin c ^ 2)
    have e : rhoOf k0 a b ^ 2 / sin c ^ 2 = (rhoOf k0 a b / |sin c|) ^ 2 := by rw [div_pow, sq_abs]
    rw [e, Real.sqrt_sq (div_nonneg hr (abs_nonneg _))]
  · show rhoOf k0 a b * cosh c = sqrt (rhoOf k0 a b ^ 2 * cosh c ^ 2)
    rw [← mul_pow, Real.sqrt_sq (mul_nonneg hr (cosh_pos c).le)]

theorem refine_spatial_mag_canon (k0 : Az) (k1 : Lon) (a b c : ℝ) (h : Canon3 k0 k1 a b c) :
    spatial_mag.eval k0 k1 a b c = sqrt (mag2Of k0 k1 a b c) :=
  refine_spatial_mag k0 k1 a b c h.1 (Spec.SinOK_of_canonLon h.2)

/-- `cos θ = z / |p|` of the denotation -/
theorem refine_spatial_costheta (k0 : Az) (k1 : Lon) (a b c : ℝ) (h : Canon3 k0 k1 a b c)
    (_hm : 0 < mag2Of k0 k1 a b c) :
    spatial_costheta.eval k0 k1 a b c = zOf k0 k1 a b c / sqrt (mag2Of k0 k1 a b c) := by
  rw [← refine_spatial_mag_canon k0 k1 a b c h, spatial_mag_eval_rho, spatial_costheta_eval_rho]
  cases k1
  · rfl
  · have hr : 0 < rhoOf k0 a b := h.2.1
    have hs : 0 < sin c := Spec.sin_pos_of_canonLon h.2
    show cos c = rhoOf k0 a b * (cos c / sin c) / (rhoOf k0 a b / |sin c|)
    rw [abs_of_pos hs]
    field_simp
  · have hr : 0 < rhoOf k0 a b := h.2
    have hc : 0 < cosh c := cosh_pos c
    show cos (2 * arctan (exp (-c))) = rhoOf k0 a b * sinh c / (rhoOf k0 a b * cosh c)
    rw [L.cos_two_arctan_exp_neg]
    field_simp

/-- `cot θ = z / ρ` of the denotation -/
theorem refine_spatial_cottheta (k0 : Az) (k1 : Lon) (a b c : ℝ) (hr : 0 < rhoOf k0 a b) (_ht : TanOK k1 c) :
    spatial_cottheta.eval k0 k1 a b c = zOf k0 k1 a b c / rhoOf k0 a b := by
  rw [spatial_cottheta_eval_rho]
  cases k1
  · rfl
  · show 1 / tan c = rhoOf k0 a b * (cos c / sin c) / rhoOf k0 a b
    rw [tan_eq_sin_div_cos, one_div_div]
    field_simp
  · show 1 / tan (2 * arctan (exp (-c))) = rhoOf k0 a b * sinh c / rhoOf k0 a b
    have hc : 0 < cosh c := cosh_pos c
    rw [tan_eq_sin_div_cos, one_div_div, L.cos_two_arctan_exp_neg, L.sin_two_arctan_exp_neg]
    field_simp

/-- `θ = arccos(z / |p|)` of the denotation -/
theorem refine_spatial_theta (k0 : Az) (k1 : Lon) (a b c : ℝ) (h : Canon3 k0 k1 a b c)
    (hm : 0 < mag2Of k0 k1 a b c) :
    spatial_theta.eval k0 k1 a b c = arccos (zOf k0 k1 a b c / sqrt (mag2Of k0 k1 a b c)) := by
  rw [← refine_spatial_costheta k0 k1 a b c h hm, spatial_costheta_eval_rho, spatial_theta_eval_rho]
  cases k1
  · rfl
  · exact (arccos_cos h.2.2.1.le h.2.2.2.le).symm
  · exact (arccos_cos (L.two_arctan_exp_neg_pos c).le (L.two_arctan_exp_neg_lt_pi c).le).symm

/-- `η = arsinh(z / ρ)` of the denotation -/
theorem refine_spatial_eta (k0 : Az) (k1 : Lon) (a b c : ℝ) (hr : 0 < rhoOf k0 a b)
    (h : CanonLon k0 k1 a b c) :
    spatial_eta.eval k0 k1 a b c = arsinh (zOf k0 k1 a b c / rhoOf k0 a b) := by
  have e := refine_spatial_eta_zOf k0 k1 a b c hr h
  change rhoOf k0 a b * sinh (spatial_eta.eval k0 k1 a b c) = _ at e
  rw [← e, mul_div_cancel_left₀ _ hr.ne', arsinh_sinh]

/-- `cos`/`sin` of the θ computed from any canonical storage off the z axis -/
theorem refine_spatial_cos_theta (k0 : Az) (k1 : Lon) (a b c : ℝ) (h2 : Canon2 k0 a b) (hr : 0 < rhoOf k0 a b)
    (h : CanonLon k0 k1 a b c) :
    cos (spatial_theta.eval k0 k1 a b c) = zOf k0 k1 a b c / sqrt (mag2Of k0 k1 a b c) := by
  have hm : 0 < mag2Of k0 k1 a b c := by rw [Spec.mag2Of_eq]; positivity
  rw [refine_spatial_theta k0 k1 a b c ⟨h2, h⟩ hm, Spec.mag2Of_eq]
  exact L.cos_arccos_ratio hr

theorem refine_spatial_sin_theta (k0 : Az) (k1 : Lon) (a b c : ℝ) (h2 : Canon2 k0 a b) (hr : 0 < rhoOf k0 a b)
    (h : CanonLon k0 k1 a b c) :
    sin (spatial_theta.eval k0 k1 a b c) = rhoOf k0 a b / sqrt (mag2Of k0 k1 a b c) := by
  have hm : 0 < mag2Of k0 k1 a b c := by rw [Spec.mag2Of_eq]; positivity
  rw [refine_spatial_theta k0 k1 a b c ⟨h2, h⟩ hm, Spec.mag2Of_eq]
  exact L.sin_arccos_ratio hr

/-- the hypotheses are satisfiable for every key at a concrete point -/
example (k1 : Lon) : Canon3 .xy k1 3 4 1 ∧ 0 < mag2Of .xy k1 3 4 1 ∧ 0 < rhoOf .xy 3 4 ∧ TanOK k1 1 := by
  have hr : 0 < rhoOf .xy 3 4 := L.sqrt_sumsq_pos (Or.inl (by norm_num))
  have hm : 0 < mag2Of .xy k1 3 4 1 := by
    rw [Spec.mag2Of_eq]; positivity
  refine ⟨⟨trivial, ?_⟩, hm, hr, ?_⟩
  · cases k1
    · trivial
    · exact ⟨hr, one_pos, by linarith [two_le_pi]⟩
    · exact hr
  · cases k1
    · trivial
    · exact ne_of_gt cos_one_pos
    · trivial

end VR
