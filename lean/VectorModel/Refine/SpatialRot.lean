/-
Refinement theorems (C01 + C02) for the spatial rotation / transform modules and
the spatial delta-modules:

* `rotateX`, `rotateY`, `rotate_axis`, `rotate_euler`, `rotate_quaternion`, `transform3D`:
  every key computes the Cartesian variant on the denotations `xOf / yOf / zOf` of the
  stored coordinates, and every declared result is Cartesian `(xy, z)`;
  `rotateX` / `rotateY` on Cartesian input are `Spec.rotX` / `Spec.rotY`.
* `deltaeta`, `deltaR2`, `deltaR`, `deltaangle`: every key computes the Cartesian-key value on
  the denotations.
-/
import VectorModel.Spec.Basic
import VectorModel.Lemmas.Real
import VectorModel.Refine.Planar
import VectorModel.Refine.SpatialZ
import VectorModel.Gen.Real.spatial_rotateX
import VectorModel.Gen.Real.spatial_rotateY
import VectorModel.Gen.Real.spatial_rotate_axis
import VectorModel.Gen.Real.spatial_rotate_euler
import VectorModel.Gen.Real.spatial_rotate_quaternion
import VectorModel.Gen.Real.spatial_transform3D
import VectorModel.Gen.Real.spatial_deltaeta
import VectorModel.Gen.Real.spatial_deltaR2
import VectorModel.Gen.Real.spatial_deltaR
import VectorModel.Gen.Real.spatial_deltaangle
import Mathlib.Analysis.SpecialFunctions.Arsinh
import Mathlib.Analysis.SpecialFunctions.Complex.Arg
import Mathlib.Tactic.NormNum

namespace VR
open VK Spec Real

/-! ### rotateX -/

/-- all declared results of `rotateX` are Cartesian -/
theorem refine_spatial_rotateX_ret (k0 : Az) (k1 : Lon) :
    spatial_rotateX.ret k0 k1 = Ret.vec [.az .xy, .lon .z] := by
  cases k0 <;> cases k1 <;> rfl

/-- C01: every key of `rotateX` is the Cartesian key on the denotations -/
theorem refine_spatial_rotateX_key (k0 : Az) (k1 : Lon) (ang a b c : ℝ) (h : TanOK k1 c) :
    spatial_rotateX.eval k0 k1 ang a b c
      = spatial_rotateX.eval .xy .z ang (xOf k0 a b) (yOf k0 a b) (zOf k0 k1 a b c) := by
  cases k0 <;> cases k1 <;> first
    | rfl
    | (simp only [spatial_rotateX.eval, spatial_rotateX.xy_theta, spatial_rotateX.rhophi_theta,
        conv_z_xy_theta _ _ _ h, conv_z_rhophi_theta _ _ _ h, conv_x_rhophi, conv_y_rhophi] <;> rfl)

/-- C02: the Cartesian key of `rotateX` is the active right-handed rotation about the x axis -/
theorem refine_spatial_rotateX_cart (ang x y z : ℝ) :
    spatial_rotateX.eval .xy .z ang x y z = rotX ang (x, y, z) := by
  simp only [d_spatial_rotateX, rotX, Prod.mk.injEq]
  refine ⟨trivial, ?_, ?_⟩ <;> ring

/-- C01 + C02 combined, through the declared result type -/
theorem refine_spatial_rotateX (k0 : Az) (k1 : Lon) (ang a b c : ℝ) (h : TanOK k1 c) :
    interp3 (spatial_rotateX.ret k0 k1) (spatial_rotateX.eval k0 k1 ang a b c)
      = some (rotX ang (cart3 k0 k1 a b c)) := by
  rw [refine_spatial_rotateX_ret, refine_spatial_rotateX_key k0 k1 ang a b c h, refine_spatial_rotateX_cart]
  rfl

example : TanOK .theta 1 ∧ TanOK .eta 0 ∧ TanOK .z 0 :=
  ⟨ne_of_gt cos_one_pos, trivial, trivial⟩

/-! ### rotateY -/

theorem refine_spatial_rotateY_ret (k0 : Az) (k1 : Lon) :
    spatial_rotateY.ret k0 k1 = Ret.vec [.az .xy, .lon .z] := by
  cases k0 <;> cases k1 <;> rfl

/-- C01: every key of `rotateY` is the Cartesian key on the denotations -/
theorem refine_spatial_rotateY_key (k0 : Az) (k1 : Lon) (ang a b c : ℝ) (h : TanOK k1 c) :
    spatial_rotateY.eval k0 k1 ang a b c
      = spatial_rotateY.eval .xy .z ang (xOf k0 a b) (yOf k0 a b) (zOf k0 k1 a b c) := by
  cases k0 <;> cases k1 <;> first
    | rfl
    | (rw [← conv_z_xy_theta _ _ _ h]; rfl)
    | (rw [← conv_z_rhophi_theta _ _ _ h]; rfl)

/-- C02: the Cartesian key of `rotateY` is the active right-handed rotation about the y axis -/
theorem refine_spatial_rotateY_cart (ang x y z : ℝ) :
    spatial_rotateY.eval .xy .z ang x y z = rotY ang (x, y, z) := by
  simp only [d_spatial_rotateY, rotY, Prod.mk.injEq]
  refine ⟨?_, trivial, ?_⟩ <;> ring

theorem refine_spatial_rotateY (k0 : Az) (k1 : Lon) (ang a b c : ℝ) (h : TanOK k1 c) :
    interp3 (spatial_rotateY.ret k0 k1) (spatial_rotateY.eval k0 k1 ang a b c)
      = some (rotY ang (cart3 k0 k1 a b c)) := by
  rw [refine_spatial_rotateY_ret, refine_spatial_rotateY_key k0 k1 ang a b c h, refine_spatial_rotateY_cart]
  rfl

/-! ### rotate_quaternion, transform3D (C01: all keys reduce to the Cartesian key) -/

theorem refine_spatial_rotate_quaternion_ret (k0 : Az) (k1 : Lon) :
    spatial_rotate_quaternion.ret k0 k1 = Ret.vec [.az .xy, .lon .z] := by
  cases k0 <;> cases k1 <;> rfl

theorem refine_spatial_rotate_quaternion (k0 : Az) (k1 : Lon) (u i j k a b c : ℝ) (h : TanOK k1 c) :
    spatial_rotate_quaternion.eval k0 k1 u i j k a b c
      = spatial_rotate_quaternion.eval .xy .z u i j k (xOf k0 a b) (yOf k0 a b) (zOf k0 k1 a b c) := by
  cases k0 <;> cases k1 <;> first
    | rfl
    | (rw [← conv_z_xy_theta _ _ _ h]; rfl)
    | (rw [← conv_z_rhophi_theta _ _ _ h]; rfl)

theorem refine_spatial_transform3D_ret (k0 : Az) (k1 : Lon) :
    spatial_transform3D.ret k0 k1 = Ret.vec [.az .xy, .lon .z] := by
  cases k0 <;> cases k1 <;> rfl

theorem refine_spatial_transform3D (k0 : Az) (k1 : Lon) (xx xy xz yx yy yz zx zy zz a b c : ℝ)
    (h : TanOK k1 c) :
    spatial_transform3D.eval k0 k1 xx xy xz yx yy yz zx zy zz a b c
      = spatial_transform3D.eval .xy .z xx xy xz yx yy yz zx zy zz
          (xOf k0 a b) (yOf k0 a b) (zOf k0 k1 a b c) := by
  cases k0 <;> cases k1 <;> first
    | rfl
    | (rw [← conv_z_xy_theta _ _ _ h]; rfl)
    | (rw [← conv_z_rhophi_theta _ _ _ h]; rfl)

/-- the Cartesian key of `transform3D` is the matrix-vector product (stated through the declared result) -/
theorem refine_spatial_transform3D_interp (k0 : Az) (k1 : Lon) (xx xy xz yx yy yz zx zy zz a b c : ℝ)
    (h : TanOK k1 c) :
    interp3 (spatial_transform3D.ret k0 k1) (spatial_transform3D.eval k0 k1 xx xy xz yx yy yz zx zy zz a b c)
      = some (xx * xOf k0 a b + xy * yOf k0 a b + xz * zOf k0 k1 a b c,
              yx * xOf k0 a b + yy * yOf k0 a b + yz * zOf k0 k1 a b c,
              zx * xOf k0 a b + zy * yOf k0 a b + zz * zOf k0 k1 a b c) := by
  rw [refine_spatial_transform3D_ret, refine_spatial_transform3D _ _ _ _ _ _ _ _ _ _ _ _ _ _ h]
  rfl

/-! ### rotate_euler (72 keys) -/

theorem refine_spatial_rotate_euler_ret (k0 : Az) (k1 : Lon) (o : Ord) :
    spatial_rotate_euler.ret k0 k1 o = Ret.vec [.az .xy, .lon .z] := by
  cases k0 <;> cases k1 <;> cases o <;> rfl

theorem refine_spatial_rotate_euler (k0 : Az) (k1 : Lon) (o : Ord) (phi theta psi a b c : ℝ)
    (h : TanOK k1 c) :
    spatial_rotate_euler.eval k0 k1 o phi theta psi a b c
      = spatial_rotate_euler.eval .xy .z o phi theta psi (xOf k0 a b) (yOf k0 a b) (zOf k0 k1 a b c) := by
  cases k0 <;> cases k1 <;> cases o <;> first
    | rfl
    | (rw [← conv_z_xy_theta _ _ _ h]; rfl)
    | (rw [← conv_z_rhophi_theta _ _ _ h]; rfl)

/-! ### rotate_axis (36 keys: axis × vector) -/

theorem refine_spatial_rotate_axis_ret (k0 : Az) (k1 : Lon) (k2 : Az) (k3 : Lon) :
    spatial_rotate_axis.ret k0 k1 k2 k3 = Ret.vec [.az .xy, .lon .z] := by
  cases k0 <;> cases k1 <;> cases k2 <;> cases k3 <;> rfl

theorem refine_spatial_rotate_axis (k0 : Az) (k1 : Lon) (k2 : Az) (k3 : Lon) (ang a b c d e f : ℝ)
    (h1 : TanOK k1 c) (h2 : TanOK k3 f) :
    spatial_rotate_axis.eval k0 k1 k2 k3 ang a b c d e f
      = spatial_rotate_axis.eval .xy .z .xy .z ang (xOf k0 a b) (yOf k0 a b) (zOf k0 k1 a b c)
          (xOf k2 d e) (yOf k2 d e) (zOf k2 k3 d e f) := by
  cases k0 <;> cases k1 <;> cases k2 <;> cases k3 <;>
    (try rw [← conv_z_xy_theta _ _ _ h1]) <;> (try rw [← conv_z_rhophi_theta _ _ _ h1]) <;>
    (try rw [← conv_z_xy_theta _ _ _ h2]) <;> (try rw [← conv_z_rhophi_theta _ _ _ h2]) <;> rfl

/-! ### real identities behind the delta modules (private; self-contained) -/

/-- `√(x² + y²) = ρ` on the denotations, for `0 ≤ ρ` -/
private theorem sqrt_xy_eq_rho (k : Az) (a b : ℝ) (h : 0 < rhoOf k a b) :
    sqrt (xOf k a b ^ 2 + yOf k a b ^ 2) = rhoOf k a b := by
  cases k
  · rfl
  · simp only [xOf, yOf, rhoOf] at h ⊢
    have e : (a * cos b) ^ 2 + (a * sin b) ^ 2 = a ^ 2 := by
      linear_combination (a ^ 2) * (cos_sq_add_sin_sq b)
    rw [e, Real.sqrt_sq h.le]

/-- `sinh(-log tan(θ/2)) = cot θ` for `0 < θ < π` -/
private theorem sinh_neg_log_tan_half {th : ℝ} (h0 : 0 < th) (h1 : th < π) :
    sinh (-log (tan (0.5 * th))) = cos th / sin th := by
  have hs : 0 < sin (0.5 * th) := sin_pos_of_pos_of_lt_pi (by linarith) (by linarith)
  have hc : 0 < cos (0.5 * th) := cos_pos_of_mem_Ioo ⟨by linarith, by linarith⟩
  have ht : 0 < tan (0.5 * th) := by rw [tan_eq_sin_div_cos]; positivity
  have e2 : th = 2 * (0.5 * th) := by ring
  rw [sinh_eq, neg_neg, exp_neg, exp_log ht, tan_eq_sin_div_cos]
  conv_rhs => rw [e2, cos_two_mul', sin_two_mul]
  field_simp

/-- the code's `rectify` is 2π-periodic -/
private theorem rectify_sub_int (p : ℝ) (n : ℤ) :
    P.mod (p - n * (2 * π) + π) (2 * π) - π = P.mod (p + π) (2 * π) - π := by
  have h2 : (2 * π) ≠ 0 := by positivity
  have e : (p - n * (2 * π) + π) / (2 * π) = (p + π) / (2 * π) - n := by
    field_simp
    ring
  unfold P.mod
  rw [e, Int.floor_sub_intCast]
  push_cast
  ring

/-- `arg (r cos p + i r sin p)` is `p` up to a multiple of 2π, for `0 < r` (no range condition on `p`) -/
private theorem arctan2_polar_mod {r : ℝ} (hr : 0 < r) (p : ℝ) :
    ∃ n : ℤ, P.arctan2 (r * sin p) (r * cos p) = p - n * (2 * π) := by
  refine ⟨toIocDiv Real.two_pi_pos (-π) p, ?_⟩
  have hq := toIocMod_mem_Ioc Real.two_pi_pos (-π) p
  have hd : toIocMod Real.two_pi_pos (-π) p = p - (toIocDiv Real.two_pi_pos (-π) p : ℤ) * (2 * π) := by
    rw [toIocMod, zsmul_eq_mul]
  set q := toIocMod Real.two_pi_pos (-π) p with hqdef
  have h2 : q ≤ π := by have := hq.2; linarith
  have hs : sin p = sin q := by rw [hd, sin_sub_int_mul_two_pi]
  have hc : cos p = cos q := by rw [hd, cos_sub_int_mul_two_pi]
  rw [hs, hc, L.arctan2_polar hr hq.1 h2, hd]

/-! ### the callees of the delta modules by key: `eta`, `deltaphi` -/

/-- `eta` of any key is `arsinh (z / ρ)` of the denotations (`0 < ρ`; θ storage: `0 < θ < π`) -/
private theorem eta_arsinh (k0 : Az) (k1 : Lon) (a b c : ℝ) (hr : 0 < rhoOf k0 a b)
    (h : CanonLon k0 k1 a b c) :
    spatial_eta.eval k0 k1 a b c = arsinh (zOf k0 k1 a b c / rhoOf k0 a b) := by
  have hr0 : rhoOf k0 a b ≠ 0 := hr.ne'
  cases k1
  · cases k0 <;> simp only [d_spatial_eta, P.nanToNum_eq, zOf, rhoOf]
  · have e : spatial_eta.eval k0 .theta a b c = -log (tan (0.5 * c)) := by
      cases k0 <;> simp only [d_spatial_eta, P.nanToNum_eq]
    rw [e]
    simp only [zOf]
    rw [mul_div_cancel_left₀ _ hr0, ← sinh_neg_log_tan_half h.2.1 h.2.2, arsinh_sinh]
  · have e : spatial_eta.eval k0 .eta a b c = c := by cases k0 <;> rfl
    rw [e]
    simp only [zOf]
    rw [mul_div_cancel_left₀ _ hr0, arsinh_sinh]

/-- C01 for `eta`: every key is the Cartesian key on the denotations -/
private theorem eta_key (k0 : Az) (k1 : Lon) (a b c : ℝ) (hr : 0 < rhoOf k0 a b)
    (h : CanonLon k0 k1 a b c) :
    spatial_eta.eval k0 k1 a b c
      = spatial_eta.eval .xy .z (xOf k0 a b) (yOf k0 a b) (zOf k0 k1 a b c) := by
  rw [eta_arsinh k0 k1 a b c hr h]
  simp only [d_spatial_eta, P.nanToNum_eq]
  rw [sqrt_xy_eq_rho k0 a b hr]

/-- `phi` of any key is `arctan2 y x` of the denotations, up to a multiple of 2π (`0 < ρ`, any stored φ) -/
private theorem phi_mod (k : Az) (a b : ℝ) (hr : 0 < rhoOf k a b) :
    ∃ n : ℤ, planar_phi.eval k a b = P.arctan2 (yOf k a b) (xOf k a b) + n * (2 * π) := by
  cases k
  · exact ⟨0, by simp only [d_planar_phi, xOf, yOf, Int.cast_zero, zero_mul, add_zero]⟩
  · obtain ⟨n, hn⟩ := arctan2_polar_mod (r := a) hr b
    refine ⟨n, ?_⟩
    simp only [d_planar_phi, xOf, yOf]
    rw [hn]; ring

/-- C01 for `deltaphi`: every key is the Cartesian key on the denotations (`0 < ρ` for both operands;
the stored φ need not be canonical because `rectify` is 2π-periodic) -/
theorem refine_spatial_deltaphi_key (k0 k2 : Az) (a b d e : ℝ) (hr1 : 0 < rhoOf k0 a b)
    (hr2 : 0 < rhoOf k2 d e) :
    planar_deltaphi.eval k0 k2 a b d e
      = planar_deltaphi.eval .xy .xy (xOf k0 a b) (yOf k0 a b) (xOf k2 d e) (yOf k2 d e) := by
  have split : ∀ (k0 k2 : Az) (a b d e : ℝ), planar_deltaphi.eval k0 k2 a b d e
      = P.mod (planar_phi.eval k0 a b - planar_phi.eval k2 d e + π) (2 * π) - π := by
    intro k0 k2 a b d e; cases k0 <;> cases k2 <;> rfl
  obtain ⟨n1, h1⟩ := phi_mod k0 a b hr1
  obtain ⟨n2, h2⟩ := phi_mod k2 d e hr2
  rw [split, split, h1, h2]
  have e1 : P.arctan2 (yOf k0 a b) (xOf k0 a b) + n1 * (2 * π) - (P.arctan2 (yOf k2 d e) (xOf k2 d e) + n2 * (2 * π))
      = (P.arctan2 (yOf k0 a b) (xOf k0 a b) - P.arctan2 (yOf k2 d e) (xOf k2 d e)) - ((n2 - n1 : ℤ) : ℝ) * (2 * π) := by
    push_cast; ring
  rw [e1, rectify_sub_int]
  rfl

/-! ### deltaeta -/

private theorem deltaeta_split (k0 : Az) (k1 : Lon) (k2 : Az) (k3 : Lon) (a b c d e f : ℝ) :
    spatial_deltaeta.eval k0 k1 k2 k3 a b c d e f
      = spatial_eta.eval k0 k1 a b c - spatial_eta.eval k2 k3 d e f := by
  cases k0 <;> cases k1 <;> cases k2 <;> cases k3 <;> rfl

/-- C02: `deltaeta` is the difference of the pseudorapidities `arsinh (z / ρ)` of the denotations -/
theorem refine_spatial_deltaeta (k0 : Az) (k1 : Lon) (k2 : Az) (k3 : Lon) (a b c d e f : ℝ)
    (hr1 : 0 < rhoOf k0 a b) (hr2 : 0 < rhoOf k2 d e)
    (h1 : CanonLon k0 k1 a b c) (h2 : CanonLon k2 k3 d e f) :
    spatial_deltaeta.eval k0 k1 k2 k3 a b c d e f
      = arsinh (zOf k0 k1 a b c / rhoOf k0 a b) - arsinh (zOf k2 k3 d e f / rhoOf k2 d e) := by
  rw [deltaeta_split, eta_arsinh k0 k1 a b c hr1 h1, eta_arsinh k2 k3 d e f hr2 h2]

/-- C01: every key of `deltaeta` is the Cartesian key on the denotations -/
theorem refine_spatial_deltaeta_key (k0 : Az) (k1 : Lon) (k2 : Az) (k3 : Lon) (a b c d e f : ℝ)
    (hr1 : 0 < rhoOf k0 a b) (hr2 : 0 < rhoOf k2 d e)
    (h1 : CanonLon k0 k1 a b c) (h2 : CanonLon k2 k3 d e f) :
    spatial_deltaeta.eval k0 k1 k2 k3 a b c d e f
      = spatial_deltaeta.eval .xy .z .xy .z (xOf k0 a b) (yOf k0 a b) (zOf k0 k1 a b c)
          (xOf k2 d e) (yOf k2 d e) (zOf k2 k3 d e f) := by
  rw [deltaeta_split, deltaeta_split, eta_key k0 k1 a b c hr1 h1, eta_key k2 k3 d e f hr2 h2]

/-! ### deltaR2, deltaR -/

private theorem deltaR2_split (k0 : Az) (k1 : Lon) (k2 : Az) (k3 : Lon) (a b c d e f : ℝ) :
    spatial_deltaR2.eval k0 k1 k2 k3 a b c d e f
      = planar_deltaphi.eval k0 k2 a b d e ^ 2 + spatial_deltaeta.eval k0 k1 k2 k3 a b c d e f ^ 2 := by
  cases k0 <;> cases k1 <;> cases k2 <;> cases k3 <;> rfl

private theorem deltaR_split (k0 : Az) (k1 : Lon) (k2 : Az) (k3 : Lon) (a b c d e f : ℝ) :
    spatial_deltaR.eval k0 k1 k2 k3 a b c d e f
      = sqrt (spatial_deltaR2.eval k0 k1 k2 k3 a b c d e f) := by
  cases k0 <;> cases k1 <;> cases k2 <;> cases k3 <;> rfl

/-- C01: every key of `deltaR2` is the Cartesian key on the denotations -/
theorem refine_spatial_deltaR2_key (k0 : Az) (k1 : Lon) (k2 : Az) (k3 : Lon) (a b c d e f : ℝ)
    (hr1 : 0 < rhoOf k0 a b) (hr2 : 0 < rhoOf k2 d e)
    (h1 : CanonLon k0 k1 a b c) (h2 : CanonLon k2 k3 d e f) :
    spatial_deltaR2.eval k0 k1 k2 k3 a b c d e f
      = spatial_deltaR2.eval .xy .z .xy .z (xOf k0 a b) (yOf k0 a b) (zOf k0 k1 a b c)
          (xOf k2 d e) (yOf k2 d e) (zOf k2 k3 d e f) := by
  rw [deltaR2_split, deltaR2_split, refine_spatial_deltaphi_key k0 k2 a b d e hr1 hr2,
    refine_spatial_deltaeta_key k0 k1 k2 k3 a b c d e f hr1 hr2 h1 h2]

/-- C02: `deltaR2 = Δφ² + Δη²` with `Δφ` the rectified difference of `arctan2 y x` and `Δη` the difference
of `arsinh (z / ρ)` of the denotations -/
theorem refine_spatial_deltaR2 (k0 : Az) (k1 : Lon) (k2 : Az) (k3 : Lon) (a b c d e f : ℝ)
    (hr1 : 0 < rhoOf k0 a b) (hr2 : 0 < rhoOf k2 d e)
    (h1 : CanonLon k0 k1 a b c) (h2 : CanonLon k2 k3 d e f) :
    spatial_deltaR2.eval k0 k1 k2 k3 a b c d e f
      = (P.mod (P.arctan2 (yOf k0 a b) (xOf k0 a b) - P.arctan2 (yOf k2 d e) (xOf k2 d e) + π) (2 * π) - π) ^ 2
        + (arsinh (zOf k0 k1 a b c / rhoOf k0 a b) - arsinh (zOf k2 k3 d e f / rhoOf k2 d e)) ^ 2 := by
  rw [deltaR2_split, refine_spatial_deltaphi_key k0 k2 a b d e hr1 hr2,
    refine_spatial_deltaeta k0 k1 k2 k3 a b c d e f hr1 hr2 h1 h2]
  rfl

/-- C01: every key of `deltaR` is the Cartesian key on the denotations -/
theorem refine_spatial_deltaR_key (k0 : Az) (k1 : Lon) (k2 : Az) (k3 : Lon) (a b c d e f : ℝ)
    (hr1 : 0 < rhoOf k0 a b) (hr2 : 0 < rhoOf k2 d e)
    (h1 : CanonLon k0 k1 a b c) (h2 : CanonLon k2 k3 d e f) :
    spatial_deltaR.eval k0 k1 k2 k3 a b c d e f
      = spatial_deltaR.eval .xy .z .xy .z (xOf k0 a b) (yOf k0 a b) (zOf k0 k1 a b c)
          (xOf k2 d e) (yOf k2 d e) (zOf k2 k3 d e f) := by
  rw [deltaR_split, deltaR_split, refine_spatial_deltaR2_key k0 k1 k2 k3 a b c d e f hr1 hr2 h1 h2]

/-- C02: `deltaR = √(deltaR2)` for every key -/
theorem refine_spatial_deltaR (k0 : Az) (k1 : Lon) (k2 : Az) (k3 : Lon) (a b c d e f : ℝ) :
    spatial_deltaR.eval k0 k1 k2 k3 a b c d e f = sqrt (spatial_deltaR2.eval k0 k1 k2 k3 a b c d e f) :=
  deltaR_split k0 k1 k2 k3 a b c d e f

/-- the hypotheses of the delta theorems are satisfiable (one θ operand, one η operand) -/
example : 0 < rhoOf .xy 3 4 ∧ 0 < rhoOf .rhophi 2 7 ∧ CanonLon .xy .theta 3 4 1 ∧ CanonLon .rhophi .eta 2 7 (-1) := by
  have h : 0 < rhoOf .xy 3 4 := L.sqrt_sumsq_pos (Or.inl (by norm_num))
  have h' : 0 < rhoOf .rhophi 2 7 := by norm_num [rhoOf]
  exact ⟨h, h', ⟨h, one_pos, by linarith [two_le_pi]⟩, h'⟩

/-! ### deltaangle = arccos (clamp (dot / |p₁| / |p₂|))

The callees `spatial_dot` and `spatial_mag` are refined by other files (Refine/SpatialBin, Refine/SpatialAcc); the two
facts needed here are re-proved privately so that this file does not depend on files still being written. -/

private theorem cot_two_arctan_exp (η : ℝ) :
    cos (2 * arctan (exp (-η))) / sin (2 * arctan (exp (-η))) = sinh η := by
  have hc : 0 < cos (arctan (exp (-η))) := cos_arctan_pos _
  have hs : sin (arctan (exp (-η))) = exp (-η) * cos (arctan (exp (-η))) := by
    have := tan_mul_cos (ne_of_gt hc)
    rw [tan_arctan] at this; exact this.symm
  rw [cos_two_mul', sin_two_mul, hs, sinh_eq]
  generalize cos (arctan (exp (-η))) = c at hc ⊢
  rw [exp_neg]
  have he : 0 < exp η := exp_pos _
  field_simp

private theorem inv_tan_mul (a b : ℝ) : 1 / (tan a * tan b) = (cos a / sin a) * (cos b / sin b) := by
  rw [tan_eq_sin_div_cos, tan_eq_sin_div_cos, one_div, mul_inv, inv_div, inv_div]

private theorem half_exp_sinh (η : ℝ) : 0.5 * (1 - exp (-η) ^ 2) / exp (-η) = sinh η := by
  rw [sinh_eq, exp_neg]
  have he : 0 < exp η := exp_pos _
  field_simp
  ring

private theorem half_exp_cosh (e : ℝ) : (0.5 : ℝ) * (1 + exp (-e) ^ 2) / exp (-e) = cosh e := by
  rw [cosh_eq, exp_neg]
  have h : exp e ≠ 0 := exp_ne_zero e
  field_simp
  ring

private theorem cot_theta_rhophi_eta (r p η : ℝ) :
    cos (spatial_theta.rhophi_eta r p η) / sin (spatial_theta.rhophi_eta r p η) = sinh η := by
  simp only [d_spatial_theta]; norm_num only; exact cot_two_arctan_exp η

/-- `dot` of every key is the Cartesian dot product of the denotations -/
private theorem dot_key (k0 : Az) (k1 : Lon) (k2 : Az) (k3 : Lon) (a0 a1 a2 a3 a4 a5 : ℝ)
    (h1 : TanOK k1 a2) (h2 : TanOK k3 a5) :
    spatial_dot.eval k0 k1 k2 k3 a0 a1 a2 a3 a4 a5 = dot3 (cart3 k0 k1 a0 a1 a2) (cart3 k2 k3 a3 a4 a5) := by
  have z1 := refine_spatial_z k0 k1 a0 a1 a2 h1
  have z2 := refine_spatial_z k2 k3 a3 a4 a5 h2
  cases k0 <;> cases k2 <;> cases k1 <;> cases k3 <;> simp only [spatial_z.eval] at z1 z2 <;>
    simp only [d_spatial_dot, conv_x_xy, conv_x_rhophi, conv_y_xy, conv_y_rhophi, z1, z2, dot3, cart3]
  all_goals simp only [inv_tan_mul, half_exp_sinh, cot_theta_rhophi_eta, xOf, yOf, zOf, rhoOf]
  all_goals try (rw [cos_sub]; ring1)

/-- `mag` of every key is `√(x² + y² + z²)` of the denotations (`0 ≤ ρ`; θ storage: `sin θ ≠ 0`) -/
private theorem mag_key (k0 : Az) (k1 : Lon) (a b c : ℝ) (h2 : Canon2 k0 a b)
    (hs : k1 = .theta → sin c ≠ 0) :
    spatial_mag.eval k0 k1 a b c = sqrt (mag2Of k0 k1 a b c) := by
  have hr : 0 ≤ rhoOf k0 a b := by
    cases k0
    · exact Real.sqrt_nonneg _
    · exact h2
  have hxy : xOf k0 a b ^ 2 + yOf k0 a b ^ 2 = rhoOf k0 a b ^ 2 := by
    cases k0
    · exact (L.sq_sqrt_sumsq a b).symm
    · simp only [xOf, yOf, rhoOf]
      linear_combination (a ^ 2) * (cos_sq_add_sin_sq b)
  have lhs : spatial_mag.eval k0 k1 a b c =
      match k1 with
      | .z => sqrt (rhoOf k0 a b ^ 2 + c ^ 2)
      | .theta => rhoOf k0 a b / |sin c|
      | .eta => rhoOf k0 a b * cosh c := by
    cases k0 <;> cases k1 <;>
      simp only [d_spatial_mag, d_spatial_mag2, rhoOf, L.sq_sqrt_sumsq, half_exp_cosh]
  rw [lhs]
  unfold mag2Of
  rw [hxy]
  cases k1
  · rfl
  · have hs' : sin c ≠ 0 := hs rfl
    simp only [zOf]
    have e : rhoOf k0 a b ^ 2 + (rhoOf k0 a b * (cos c / sin c)) ^ 2 = (rhoOf k0 a b / |sin c|) ^ 2 := by
      rw [div_pow, sq_abs]
      field_simp
      linear_combination (rhoOf k0 a b ^ 2) * (cos_sq_add_sin_sq c)
    rw [e, Real.sqrt_sq (div_nonneg hr (abs_nonneg _))]
  · simp only [zOf]
    have e : rhoOf k0 a b ^ 2 + (rhoOf k0 a b * sinh c) ^ 2 = (rhoOf k0 a b * cosh c) ^ 2 := by
      linear_combination (rhoOf k0 a b ^ 2) * (cosh_sq c).symm
    rw [e, Real.sqrt_sq (mul_nonneg hr (cosh_pos c).le)]

private theorem deltaangle_split (k0 : Az) (k1 : Lon) (k2 : Az) (k3 : Lon) (a b c d e f : ℝ) :
    spatial_deltaangle.eval k0 k1 k2 k3 a b c d e f
      = arccos (max (-1) (min 1 (spatial_dot.eval k0 k1 k2 k3 a b c d e f
          / spatial_mag.eval k0 k1 a b c / spatial_mag.eval k2 k3 d e f))) := by
  cases k0 <;> cases k1 <;> cases k2 <;> cases k3 <;> rfl

/-- C02: `deltaangle` of every key is `arccos` of the clamped normalised dot product of the denotations.
Hypotheses: `0 ≤ ρ` for polar storage, `cos θ ≠ 0` and `sin θ ≠ 0` for θ storage. -/
theorem refine_spatial_deltaangle (k0 : Az) (k1 : Lon) (k2 : Az) (k3 : Lon) (a b c d e f : ℝ)
    (hc1 : Canon2 k0 a b) (hc2 : Canon2 k2 d e) (ht1 : TanOK k1 c) (ht2 : TanOK k3 f)
    (hs1 : k1 = .theta → sin c ≠ 0) (hs2 : k3 = .theta → sin f ≠ 0) :
    spatial_deltaangle.eval k0 k1 k2 k3 a b c d e f
      = arccos (max (-1) (min 1 (dot3 (cart3 k0 k1 a b c) (cart3 k2 k3 d e f)
          / sqrt (mag2Of k0 k1 a b c) / sqrt (mag2Of k2 k3 d e f)))) := by
  rw [deltaangle_split, dot_key k0 k1 k2 k3 a b c d e f ht1 ht2, mag_key k0 k1 a b c hc1 hs1,
    mag_key k2 k3 d e f hc2 hs2]

/-- C01: every key of `deltaangle` is the Cartesian key on the denotations -/
theorem refine_spatial_deltaangle_key (k0 : Az) (k1 : Lon) (k2 : Az) (k3 : Lon) (a b c d e f : ℝ)
    (hc1 : Canon2 k0 a b) (hc2 : Canon2 k2 d e) (ht1 : TanOK k1 c) (ht2 : TanOK k3 f)
    (hs1 : k1 = .theta → sin c ≠ 0) (hs2 : k3 = .theta → sin f ≠ 0) :
    spatial_deltaangle.eval k0 k1 k2 k3 a b c d e f
      = spatial_deltaangle.eval .xy .z .xy .z (xOf k0 a b) (yOf k0 a b) (zOf k0 k1 a b c)
          (xOf k2 d e) (yOf k2 d e) (zOf k2 k3 d e f) := by
  rw [refine_spatial_deltaangle k0 k1 k2 k3 a b c d e f hc1 hc2 ht1 ht2 hs1 hs2]
  rfl

/-- the same under the representable-domain hypotheses `Canon3` (which give `0 < sin θ`, and `0 < ρ` for θ/η storage) -/
theorem refine_spatial_deltaangle_canon (k0 : Az) (k1 : Lon) (k2 : Az) (k3 : Lon) (a b c d e f : ℝ)
    (hc1 : Canon3 k0 k1 a b c) (hc2 : Canon3 k2 k3 d e f) (ht1 : TanOK k1 c) (ht2 : TanOK k3 f) :
    spatial_deltaangle.eval k0 k1 k2 k3 a b c d e f
      = spatial_deltaangle.eval .xy .z .xy .z (xOf k0 a b) (yOf k0 a b) (zOf k0 k1 a b c)
          (xOf k2 d e) (yOf k2 d e) (zOf k2 k3 d e f) := by
  refine refine_spatial_deltaangle_key k0 k1 k2 k3 a b c d e f hc1.1 hc2.1 ht1 ht2 ?_ ?_
  · rintro rfl; exact (sin_pos_of_pos_of_lt_pi hc1.2.2.1 hc1.2.2.2).ne'
  · rintro rfl; exact (sin_pos_of_pos_of_lt_pi hc2.2.2.1 hc2.2.2.2).ne'

/-- the hypotheses of `refine_spatial_deltaangle` are satisfiable (one θ operand, one polar operand on the z axis) -/
example : Canon2 .rhophi 0 7 ∧ Canon2 .xy 3 4 ∧ TanOK .theta 1 ∧ TanOK .z 5 ∧ ((Lon.theta = .theta) → sin (1 : ℝ) ≠ 0) :=
  ⟨by norm_num [Canon2], trivial, ne_of_gt cos_one_pos, trivial,
    fun _ => (sin_pos_of_pos_of_lt_pi one_pos (by linarith [two_le_pi])).ne'⟩

end VR
