/-
Refinement theorems for the planar (2D) compute modules:
for EVERY coordinate-system key, the value computed by the generated model of
the variant found under that key denotes `Spec.op` of the denotations of the
operands (C01: independence of the stored system; C02: documented definition).
-/
import VectorModel.Spec.Basic
import VectorModel.Lemmas.Real
import VectorModel.Gen.Real.planar_x
import VectorModel.Gen.Real.planar_y
import VectorModel.Gen.Real.planar_rho
import VectorModel.Gen.Real.planar_rho2
import VectorModel.Gen.Real.planar_phi
import VectorModel.Gen.Real.planar_dot
import VectorModel.Gen.Real.planar_add
import VectorModel.Gen.Real.planar_subtract
import VectorModel.Gen.Real.planar_scale
import VectorModel.Gen.Real.planar_unit
import VectorModel.Gen.Real.planar_rotateZ
import VectorModel.Gen.Real.planar_transform2D
import VectorModel.Gen.Real.planar_deltaphi

namespace VR
open VK Spec Real

/-! ### accessors -/

theorem refine_planar_x (k : Az) (a b : ℝ) : planar_x.eval k a b = xOf k a b := by
  cases k <;> rfl

theorem refine_planar_y (k : Az) (a b : ℝ) : planar_y.eval k a b = yOf k a b := by
  cases k <;> rfl

theorem refine_planar_rho (k : Az) (a b : ℝ) : planar_rho.eval k a b = rhoOf k a b := by
  cases k <;> rfl

theorem refine_planar_rho2 (k : Az) (a b : ℝ) : planar_rho2.eval k a b = xOf k a b ^ 2 + yOf k a b ^ 2 := by
  cases k
  · rfl
  · simp only [d_planar_rho2, xOf, yOf]
    linear_combination (-(a ^ 2)) * (cos_sq_add_sin_sq b)

/-- `phi` is the argument of `x + i y`; for polar storage this needs `0 < ρ` and the stored φ in `(-π, π]`. -/
theorem refine_planar_phi (k : Az) (a b : ℝ) (h : 0 < rhoOf k a b) (hp : CanonPhi k a b) :
    planar_phi.eval k a b = P.arctan2 (yOf k a b) (xOf k a b) := by
  cases k
  · rfl
  · simp only [d_planar_phi, xOf, yOf]
    exact (L.arctan2_polar h hp.1 hp.2).symm

/-! ### dot -/

theorem refine_planar_dot (k0 k1 : Az) (a0 a1 a2 a3 : ℝ) :
    planar_dot.eval k0 k1 a0 a1 a2 a3 = dot2 (cart2 k0 a0 a1) (cart2 k1 a2 a3) := by
  cases k0 <;> cases k1 <;> simp only [d_planar_dot, d_planar_x, d_planar_y, dot2, cart2, xOf, yOf]
  · rw [cos_sub]; ring

/-! ### add / subtract (the polar–polar variants are specialised formulas) -/

private theorem polar_combine (r1 p1 r2 d : ℝ) :
    let u := r2 * cos d
    let v := r2 * sin d
    let rho := sqrt ((r1 + u) ^ 2 + v ^ 2)
    let phi := P.mod (p1 + P.arctan2 v (r1 + u) + π) (2 * π) - π
    rho * cos phi = r1 * cos p1 + r2 * cos (p1 + d) ∧ rho * sin phi = r1 * sin p1 + r2 * sin (p1 + d) := by
  intro u v rho phi
  have hc := L.sqrt_mul_cos_arctan2 (r1 + u) v
  have hs := L.sqrt_mul_sin_arctan2 (r1 + u) v
  constructor
  · show rho * cos phi = _
    rw [L.cos_rectify, cos_add, cos_add]
    linear_combination (cos p1) * hc - (sin p1) * hs
  · show rho * sin phi = _
    rw [L.sin_rectify, sin_add, sin_add]
    linear_combination (sin p1) * hc + (cos p1) * hs

theorem refine_planar_add (k0 k1 : Az) (a0 a1 a2 a3 : ℝ) :
    interp2 (planar_add.ret k0 k1) (planar_add.eval k0 k1 a0 a1 a2 a3)
      = some (add2 (cart2 k0 a0 a1) (cart2 k1 a2 a3)) := by
  cases k0 <;> cases k1 <;>
    simp only [d_planar_add, d_planar_x, d_planar_y, interp2, retAz, Option.map, add2, cart2, xOf, yOf]
  · have h := polar_combine a0 a1 a2 (a3 - a1)
    simp only [add_sub_cancel] at h
    rw [h.1, h.2]

theorem refine_planar_subtract (k0 k1 : Az) (a0 a1 a2 a3 : ℝ) :
    interp2 (planar_subtract.ret k0 k1) (planar_subtract.eval k0 k1 a0 a1 a2 a3)
      = some (sub2 (cart2 k0 a0 a1) (cart2 k1 a2 a3)) := by
  cases k0 <;> cases k1 <;>
    simp only [d_planar_subtract, d_planar_x, d_planar_y, interp2, retAz, Option.map, sub2, cart2, xOf, yOf]
  · have h := polar_combine a0 a1 a2 (a3 - a1 + π)
    have e : a1 + (a3 - a1 + π) = a3 + π := by ring
    simp only [e] at h
    rw [h.1, h.2, cos_add_pi, sin_add_pi]; simp only [mul_neg, sub_eq_add_neg]

/-! ### scale, rotateZ, transform2D, unit -/

theorem refine_planar_scale (k : Az) (f a b : ℝ) :
    interp2 (planar_scale.ret k) (planar_scale.eval k f a b) = some (smul2 f (cart2 k a b)) := by
  cases k <;> simp only [d_planar_scale, interp2, retAz, Option.map, smul2, cart2, xOf, yOf]
  · simp only [mul_comm]
  · rw [L.cos_rectify, L.sin_rectify]
    rcases lt_trichotomy f 0 with hf | hf | hf
    · have hs : P.sign f = -1 := by simp [P.sign, Real.sign_of_neg hf]
      have e : b + -0.5 * (P.sign f - 1) * π = b + π := by rw [hs]; ring
      rw [e, cos_add_pi, sin_add_pi, abs_of_neg hf]
      simp only [Option.some.injEq, Prod.mk.injEq]; constructor <;> ring
    · subst hf; simp [P.sign]
    · have hs : P.sign f = 1 := by simp [P.sign, Real.sign_of_pos hf]
      have e : b + -0.5 * (P.sign f - 1) * π = b := by rw [hs]; ring
      rw [e, abs_of_pos hf]
      simp only [Option.some.injEq, Prod.mk.injEq]; constructor <;> ring

theorem refine_planar_rotateZ (k : Az) (ang a b : ℝ) :
    interp2 (planar_rotateZ.ret k) (planar_rotateZ.eval k ang a b) = some (rotZ2 ang (cart2 k a b)) := by
  cases k <;> simp only [d_planar_rotateZ, interp2, retAz, Option.map, rotZ2, cart2, xOf, yOf]
  · simp only [Option.some.injEq, Prod.mk.injEq]; constructor <;> ring
  · rw [L.cos_rectify, L.sin_rectify, cos_add, sin_add]
    simp only [Option.some.injEq, Prod.mk.injEq]; constructor <;> ring

theorem refine_planar_transform2D (k : Az) (xx xy yx yy a b : ℝ) :
    interp2 (planar_transform2D.ret k) (planar_transform2D.eval k xx xy yx yy a b)
      = some (xx * xOf k a b + xy * yOf k a b, yx * xOf k a b + yy * yOf k a b) := by
  cases k <;> simp only [d_planar_transform2D, d_planar_x, d_planar_y, interp2, retAz, Option.map, cart2, xOf, yOf]

/-- `unit` is `p / ρ`, for `ρ > 0` -/
theorem refine_planar_unit (k : Az) (a b : ℝ) (h : 0 < rhoOf k a b) :
    interp2 (planar_unit.ret k) (planar_unit.eval k a b)
      = some (xOf k a b / rhoOf k a b, yOf k a b / rhoOf k a b) := by
  cases k <;> simp only [d_planar_unit, d_planar_rho, d_planar_rho2, interp2, retAz, Option.map, cart2, xOf, yOf,
    rhoOf, P.nanToNum_eq]
  · simp only [rhoOf] at h
    have : a ≠ 0 := ne_of_gt h
    simp only [Option.some.injEq, Prod.mk.injEq]; constructor <;> field_simp

/-! ### deltaphi: in `[-π, π)` and congruent to `φ₁ − φ₂` modulo 2π -/

theorem refine_planar_deltaphi (k0 k1 : Az) (a0 a1 a2 a3 : ℝ) :
    let d := planar_deltaphi.eval k0 k1 a0 a1 a2 a3
    (-π ≤ d ∧ d < π) ∧ ∃ n : ℤ, d = planar_phi.eval k0 a0 a1 - planar_phi.eval k1 a2 a3 - n * (2 * π) := by
  intro d
  have key : ∀ p : ℝ, (-π ≤ P.mod (p + π) (2 * π) - π ∧ P.mod (p + π) (2 * π) - π < π) ∧
      ∃ n : ℤ, P.mod (p + π) (2 * π) - π = p - n * (2 * π) :=
    fun p => ⟨L.rectify_mem p, ⟨_, L.rectify_eq p⟩⟩
  cases k0 <;> cases k1 <;> exact key _

/-! non-vacuity of the hypotheses used above -/
example : 0 < rhoOf .rhophi 2 1 ∧ CanonPhi .rhophi 2 1 := by
  refine ⟨by norm_num [rhoOf], ?_, ?_⟩ <;> linarith [Real.one_le_pi_div_two, Real.pi_pos]

end VR
