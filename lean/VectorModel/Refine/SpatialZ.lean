/-
Refinement of the `z` accessor (all six keys) and the conversion lemmas every
3D/4D refinement proof rewrites with: the generated converters compute the
denotation `Spec.xOf / yOf / zOf`.
-/
import VectorModel.Refine.Planar
import VectorModel.Gen.Real.spatial_z

namespace VR
open VK Spec Real

/-- `x`/`y` converters by key (the functions the closure-generated variants capture) -/
theorem conv_x_xy (a b : ℝ) : planar_x.xy a b = xOf .xy a b := rfl
theorem conv_x_rhophi (a b : ℝ) : planar_x.rhophi a b = xOf .rhophi a b := rfl
theorem conv_y_xy (a b : ℝ) : planar_y.xy a b = yOf .xy a b := rfl
theorem conv_y_rhophi (a b : ℝ) : planar_y.rhophi a b = yOf .rhophi a b := rfl

theorem conv_z_xy_z (a b c : ℝ) : spatial_z.xy_z a b c = zOf .xy .z a b c := rfl
theorem conv_z_rhophi_z (a b c : ℝ) : spatial_z.rhophi_z a b c = zOf .rhophi .z a b c := rfl
theorem conv_z_xy_eta (a b c : ℝ) : spatial_z.xy_eta a b c = zOf .xy .eta a b c := rfl
theorem conv_z_rhophi_eta (a b c : ℝ) : spatial_z.rhophi_eta a b c = zOf .rhophi .eta a b c := rfl
/-- the code computes `ρ / tan θ`; equal to `ρ cos θ / sin θ` wherever `cos θ ≠ 0` (the hypothesis is kept in the
statement although Lean's totalised division happens to return the continuous extension at `cos θ = 0`; DESIGN.md 3.4) -/
theorem conv_z_xy_theta (a b c : ℝ) (_h : cos c ≠ 0) : spatial_z.xy_theta a b c = zOf .xy .theta a b c := by
  simp only [d_spatial_z, d_planar_rho, d_planar_rho2, P.nanToNum_eq, zOf, rhoOf, tan_eq_sin_div_cos]
  rw [div_div_eq_mul_div, mul_div_assoc]
theorem conv_z_rhophi_theta (a b c : ℝ) (_h : cos c ≠ 0) : spatial_z.rhophi_theta a b c = zOf .rhophi .theta a b c := by
  simp only [d_spatial_z, P.nanToNum_eq, zOf, rhoOf, tan_eq_sin_div_cos]
  rw [div_div_eq_mul_div, mul_div_assoc]

theorem refine_spatial_z (k0 : Az) (k1 : Lon) (a b c : ℝ) (h : TanOK k1 c) :
    spatial_z.eval k0 k1 a b c = zOf k0 k1 a b c := by
  cases k0 <;> cases k1 <;> first
    | rfl
    | exact conv_z_xy_theta a b c h
    | exact conv_z_rhophi_theta a b c h

example : TanOK .theta 1 := by
  show cos 1 ≠ 0
  exact ne_of_gt cos_one_pos

end VR
