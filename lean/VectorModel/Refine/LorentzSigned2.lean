/-
Refinement theorems for the REMAINING Lorentz (4D) compute modules under the SIGNED-τ reading of `Spec/SignedTau.lean`
(theorem suffix `_signed`; continues `Refine/LorentzSigned.lean`): a τ-stored vector `(a, b, c, τ)` denotes
`t = √(copysign(τ², τ) + |p|²)` (`tOfS`); `τ < 0` encodes a SPACE-LIKE vector with `t ≥ 0`. Hypothesis `CanonTmpS`
(`0 ≤ copysign(τ², τ) + |p|²`) replaces `CanonTmp` (`0 ≤ τ`) of `Refine/LorentzAcc.lean` / `Refine/LorentzBin.lean`.

Families: (1) `beta`, `gamma`, `rapidity`; (2) `Et2`, `Et`, `Mt`; (3) the six axis boosts `boostX/Y/Z_beta/gamma`;
(4) `transform4D`; (5) `to_beta3`, `deltaRapidityPhi2`, `deltaRapidityPhi`; (6) `equal`, `not_equal`.
-/
import VectorModel.Spec.Basic
import VectorModel.Spec.SignedTau
import VectorModel.Spec.LorentzBin
import VectorModel.Lemmas.Real
import VectorModel.Refine.SpatialAcc
import VectorModel.Refine.SpatialBin
import VectorModel.Refine.LorentzAcc
import VectorModel.Refine.LorentzBin
import VectorModel.Refine.LorentzSigned
import VectorModel.Refine.Equal
import Mathlib.Tactic.NormNum
import Mathlib.Tactic.Positivity

namespace VR
open VK Spec Real

/-- the space-like τ-stored point `(x, y, z, τ) = (3, 0, 0, −2)`: representable, `t = √5` -/
private theorem ex2_canon : CanonTmpS .xy .z .tau 3 0 0 (-2) := by
  show 0 ≤ tau2S (-2) + mag2Of .xy .z 3 0 0
  rw [tau2S_of_neg (by norm_num)]; norm_num [mag2Of, xOf, yOf, zOf]

private theorem ex2_t : tOfS .xy .z .tau 3 0 0 (-2) = sqrt 5 := by
  rw [tOfS_tau, tau2S_of_neg (by norm_num)]; norm_num [mag2Of, xOf, yOf, zOf]

private theorem sqrt5_pos : (0 : ℝ) < sqrt 5 := sqrt_pos.mpr (by norm_num)

/-! ### (1) beta, gamma, rapidity -/

/-- `beta = |p| / t` of the denotation (signed τ). A space-like τ-stored vector has `beta > 1`. -/
theorem refine_lorentz_beta_signed (k0 : Az) (k1 : Lon) (k2 : Tmp) (a b c d : ℝ)
    (h : Canon3 k0 k1 a b c) (hd : CanonTmpS k0 k1 k2 a b c d) (_ht : tOfS k0 k1 k2 a b c d ≠ 0) :
    lorentz_beta.eval k0 k1 k2 a b c d = sqrt (mag2Of k0 k1 a b c) / tOfS k0 k1 k2 a b c d := by
  have e : lorentz_beta.eval k0 k1 k2 a b c d
      = spatial_mag.eval k0 k1 a b c / lorentz_t.eval k0 k1 k2 a b c d := by
    cases k0 <;> cases k1 <;> cases k2 <;> rfl
  rw [e, refine_spatial_mag_canon k0 k1 a b c h,
    lorentz_t_eq_tOfS k0 k1 k2 a b c d (Spec.SinOK_of_canonLon h.2) hd]

example : Canon3 .xy .z 3 0 0 ∧ CanonTmpS .xy .z .tau 3 0 0 (-2) ∧ tOfS .xy .z .tau 3 0 0 (-2) ≠ 0 :=
  ⟨⟨trivial, trivial⟩, ex2_canon, by rw [ex2_t]; exact sqrt5_pos.ne'⟩

/-- at the space-like point `(3, 0, 0, τ = −2)`: `beta = 3/√5` -/
example : lorentz_beta.eval .xy .z .tau 3 0 0 (-2) = 3 / sqrt 5 := by
  rw [refine_lorentz_beta_signed .xy .z .tau 3 0 0 (-2) ⟨trivial, trivial⟩ ex2_canon
    (by rw [ex2_t]; exact sqrt5_pos.ne'), ex2_t]
  congr 1
  rw [show mag2Of .xy .z 3 0 0 = (3 : ℝ) ^ 2 by norm_num [mag2Of, xOf, yOf, zOf], sqrt_sq (by norm_num)]

/-- τ keys of `beta`, signed τ: the sign of the stored τ classifies the velocity — `beta < 1` for `τ > 0`, `beta = 1` for
`τ = 0`, `beta > 1` for `τ < 0` (and `0 ≤ beta` always) -/
theorem refine_lorentz_beta_tau_range_signed (k0 : Az) (k1 : Lon) (a b c d : ℝ)
    (h : Canon3 k0 k1 a b c) (hd : CanonTmpS k0 k1 .tau a b c d) (ht : tOfS k0 k1 .tau a b c d ≠ 0) :
    0 ≤ lorentz_beta.eval k0 k1 .tau a b c d
    ∧ (0 < d → lorentz_beta.eval k0 k1 .tau a b c d < 1)
    ∧ (d = 0 → lorentz_beta.eval k0 k1 .tau a b c d = 1)
    ∧ (d < 0 → 1 < lorentz_beta.eval k0 k1 .tau a b c d) := by
  rw [refine_lorentz_beta_signed k0 k1 .tau a b c d h hd ht]
  have hT : 0 < tOfS k0 k1 .tau a b c d := lt_of_le_of_ne (tOfS_tau_nonneg k0 k1 a b c d) (Ne.symm ht)
  have hm := mag2Of_nonneg' k0 k1 a b c
  have hc := (canonTmpS_tau k0 k1 a b c d).mp hd
  refine ⟨div_nonneg (sqrt_nonneg _) hT.le, ?_, ?_, ?_⟩
  · intro h0
    rw [div_lt_one hT, tOfS_tau]
    exact sqrt_lt_sqrt hm (by linarith [tau2S_pos_iff.mpr h0])
  · intro h0
    subst h0
    rw [tOfS_tau, tau2S_zero, zero_add] at hT ⊢
    exact div_self hT.ne'
  · intro h0
    rw [one_lt_div hT, tOfS_tau]
    exact sqrt_lt_sqrt hc (by linarith [tau2S_neg_iff.mpr h0])

/-- what `gamma` computes for EVERY key and every non-light-like vector (signed τ): `t / (sign(s)·√|s|)`, `s = t² − |p|²` —
for a space-like vector the NEGATIVE number `−t/√|s|`, consistently for `t` and τ storage -/
theorem lorentz_gamma_eq_signed (k0 : Az) (k1 : Lon) (k2 : Tmp) (a b c d : ℝ)
    (h : CanonLon k0 k1 a b c) (hd : CanonTmpS k0 k1 k2 a b c d)
    (_hs : tOfS k0 k1 k2 a b c d ^ 2 - mag2Of k0 k1 a b c ≠ 0) :
    lorentz_gamma.eval k0 k1 k2 a b c d
      = tOfS k0 k1 k2 a b c d / (Real.sign (tOfS k0 k1 k2 a b c d ^ 2 - mag2Of k0 k1 a b c)
          * sqrt |tOfS k0 k1 k2 a b c d ^ 2 - mag2Of k0 k1 a b c|) := by
  have e : lorentz_gamma.eval k0 k1 k2 a b c d
      = lorentz_t.eval k0 k1 k2 a b c d / lorentz_tau.eval k0 k1 k2 a b c d := by
    cases k0 <;> cases k1 <;> cases k2 <;> rfl
  have hs := Spec.SinOK_of_canonLon h
  rw [e, lorentz_t_eq_tOfS k0 k1 k2 a b c d hs hd, lorentz_tau_eq_signed k0 k1 k2 a b c d hs hd]

/-- `gamma = t / √(t² − |p|²)` for TIME-LIKE vectors (signed τ) -/
theorem refine_lorentz_gamma_signed (k0 : Az) (k1 : Lon) (k2 : Tmp) (a b c d : ℝ)
    (h : CanonLon k0 k1 a b c) (hd : CanonTmpS k0 k1 k2 a b c d)
    (hs : 0 < tOfS k0 k1 k2 a b c d ^ 2 - mag2Of k0 k1 a b c) :
    lorentz_gamma.eval k0 k1 k2 a b c d
      = tOfS k0 k1 k2 a b c d / sqrt (tOfS k0 k1 k2 a b c d ^ 2 - mag2Of k0 k1 a b c) := by
  rw [lorentz_gamma_eq_signed k0 k1 k2 a b c d h hd hs.ne', Real.sign_of_pos hs, abs_of_pos hs, one_mul]

/-- what the τ keys of `gamma` compute (signed τ), for every non-light-like τ-stored vector: `t / τ` with the STORED signed
τ — negative for a space-like vector -/
theorem lorentz_gamma_tau_eq_signed (k0 : Az) (k1 : Lon) (a b c d : ℝ)
    (h : CanonLon k0 k1 a b c) (hd : CanonTmpS k0 k1 .tau a b c d) (_hd0 : d ≠ 0) :
    lorentz_gamma.eval k0 k1 .tau a b c d = tOfS k0 k1 .tau a b c d / d := by
  have e : lorentz_gamma.eval k0 k1 .tau a b c d = lorentz_t.eval k0 k1 .tau a b c d / d := by
    cases k0 <;> cases k1 <;> rfl
  rw [e, lorentz_t_eq_tOfS k0 k1 .tau a b c d (Spec.SinOK_of_canonLon h) hd]

/-- τ keys of `gamma`: time-like ⇔ `0 < τ`, and then `gamma = t / τ ≥ 1` -/
theorem refine_lorentz_gamma_tau_signed (k0 : Az) (k1 : Lon) (a b c d : ℝ)
    (h : CanonLon k0 k1 a b c) (hd0 : 0 < d) :
    lorentz_gamma.eval k0 k1 .tau a b c d = tOfS k0 k1 .tau a b c d / d
      ∧ 1 ≤ lorentz_gamma.eval k0 k1 .tau a b c d := by
  have hd : CanonTmpS k0 k1 .tau a b c d :=
    CanonTmpS_of_CanonTmp k0 k1 .tau a b c d (show (0 : ℝ) ≤ d from hd0.le)
  have e := lorentz_gamma_tau_eq_signed k0 k1 a b c d h hd hd0.ne'
  refine ⟨e, ?_⟩
  rw [e, one_le_div hd0, tOfS_tau, le_sqrt' hd0, tau2S_of_nonneg hd0.le]
  linarith [mag2Of_nonneg' k0 k1 a b c]

/-- at the space-like point `(3, 0, 0, τ = −2)` the code returns the negative number `gamma = √5 / (−2)` (so does the
`t`-stored variant, by `lorentz_gamma_eq_signed`) -/
example : lorentz_gamma.eval .xy .z .tau 3 0 0 (-2) = sqrt 5 / (-2) := by
  rw [lorentz_gamma_tau_eq_signed .xy .z 3 0 0 (-2) trivial ex2_canon (by norm_num), ex2_t]

/-- `gamma` needs a time-like vector: the point `(0, 0, 0, τ = 2)` (at rest, `t = 2`) -/
example : CanonLon .xy .z 0 0 0 ∧ CanonTmpS .xy .z .tau 0 0 0 2
    ∧ 0 < tOfS .xy .z .tau 0 0 0 2 ^ 2 - mag2Of .xy .z 0 0 0 := by
  have hc : CanonTmpS .xy .z .tau 0 0 0 2 := CanonTmpS_of_CanonTmp _ _ _ _ _ _ _ (show (0 : ℝ) ≤ 2 by norm_num)
  refine ⟨trivial, hc, ?_⟩
  rw [timelike_iff_tau_pos _ _ _ _ _ _ hc]; norm_num

/-- `rapidity = ½ log((t + z)/(t − z))` for `|z| < t` (signed τ) -/
theorem refine_lorentz_rapidity_signed (k0 : Az) (k1 : Lon) (k2 : Tmp) (a b c d : ℝ)
    (htan : TanOK k1 c) (hs : SinOK k1 c) (hd : CanonTmpS k0 k1 k2 a b c d)
    (_hz : |zOf k0 k1 a b c| < tOfS k0 k1 k2 a b c d) :
    lorentz_rapidity.eval k0 k1 k2 a b c d
      = 1 / 2 * Real.log ((tOfS k0 k1 k2 a b c d + zOf k0 k1 a b c) / (tOfS k0 k1 k2 a b c d - zOf k0 k1 a b c)) := by
  have e : lorentz_rapidity.eval k0 k1 k2 a b c d
      = 0.5 * Real.log ((lorentz_t.eval k0 k1 k2 a b c d + spatial_z.eval k0 k1 a b c)
          / (lorentz_t.eval k0 k1 k2 a b c d - spatial_z.eval k0 k1 a b c)) := by
    cases k0 <;> cases k1 <;> cases k2 <;> rfl
  rw [e, lorentz_t_eq_tOfS k0 k1 k2 a b c d hs hd, refine_spatial_z k0 k1 a b c htan]
  norm_num

/-- `rapidity` of the signed-τ denotation, as `Spec.rapidityOf` -/
theorem lorentz_rapidity_eq_signed (k0 : Az) (k1 : Lon) (k2 : Tmp) (a b c d : ℝ)
    (h : TanOK k1 c) (hs : SinOK k1 c) (hd : CanonTmpS k0 k1 k2 a b c d)
    (hz : |zOf k0 k1 a b c| < tOfS k0 k1 k2 a b c d) :
    lorentz_rapidity.eval k0 k1 k2 a b c d = rapidityOf (cart4S k0 k1 k2 a b c d) := by
  rw [refine_lorentz_rapidity_signed k0 k1 k2 a b c d h hs hd hz]
  rfl

/-- the space-like point `(3, 0, 0, τ = −2)` has `z = 0 < t = √5`: rapidity defined (and `= 0`) -/
example : TanOK .z 0 ∧ SinOK .z 0 ∧ CanonTmpS .xy .z .tau 3 0 0 (-2)
    ∧ |zOf .xy .z 3 0 0| < tOfS .xy .z .tau 3 0 0 (-2) := by
  refine ⟨trivial, trivial, ex2_canon, ?_⟩
  rw [ex2_t]; simp only [zOf, abs_zero]; exact sqrt5_pos

/-! ### (2) Et2, Et, Mt -/

/-- `Et2 = t² ρ² / |p|²` (signed τ) -/
theorem refine_lorentz_Et2_signed (k0 : Az) (k1 : Lon) (k2 : Tmp) (a b c d : ℝ)
    (h : CanonLon k0 k1 a b c) (hd : CanonTmpS k0 k1 k2 a b c d) (hm : 0 < mag2Of k0 k1 a b c) :
    lorentz_Et2.eval k0 k1 k2 a b c d
      = tOfS k0 k1 k2 a b c d ^ 2 * rhoOf k0 a b ^ 2 / mag2Of k0 k1 a b c := by
  have e : lorentz_Et2.eval k0 k1 k2 a b c d
      = lorentz_Et2.eval k0 k1 .t a b c (lorentz_t.eval k0 k1 k2 a b c d) := by
    cases k0 <;> cases k1 <;> cases k2 <;> rfl
  rw [e, lorentz_t_eq_tOfS k0 k1 k2 a b c d (Spec.SinOK_of_canonLon h) hd,
    refine_lorentz_Et2 k0 k1 .t a b c _ h trivial hm, tOf_t]

/-- `Et = √Et2 = t ρ / |p|`, for `t ≥ 0` (signed τ; for τ storage `t ≥ 0` always holds) -/
theorem refine_lorentz_Et_signed (k0 : Az) (k1 : Lon) (k2 : Tmp) (a b c d : ℝ)
    (h : Canon3 k0 k1 a b c) (hd : CanonTmpS k0 k1 k2 a b c d) (hm : 0 < mag2Of k0 k1 a b c)
    (ht : k2 = .t → 0 ≤ tOfS k0 k1 k2 a b c d) :
    lorentz_Et.eval k0 k1 k2 a b c d
      = sqrt (tOfS k0 k1 k2 a b c d ^ 2 * rhoOf k0 a b ^ 2 / mag2Of k0 k1 a b c) := by
  have e : lorentz_Et.eval k0 k1 k2 a b c d
      = lorentz_Et.eval k0 k1 .t a b c (lorentz_t.eval k0 k1 k2 a b c d) := by
    cases k0 <;> cases k1 <;> cases k2 <;> rfl
  have ht' : 0 ≤ tOfS k0 k1 k2 a b c d := by
    cases k2
    · exact ht rfl
    · exact tOfS_tau_nonneg k0 k1 a b c d
  rw [e, lorentz_t_eq_tOfS k0 k1 k2 a b c d (Spec.SinOK_of_canonLon h.2) hd,
    refine_lorentz_Et k0 k1 .t a b c _ h trivial hm (by rw [tOf_t]; exact ht'), tOf_t]

example : Canon3 .xy .z 3 0 0 ∧ CanonTmpS .xy .z .tau 3 0 0 (-2) ∧ 0 < mag2Of .xy .z 3 0 0 :=
  ⟨⟨trivial, trivial⟩, ex2_canon, by norm_num [mag2Of, xOf, yOf, zOf]⟩

/-- every key of `Mt` is `√Mt2` -/
theorem lorentz_Mt_eq_sqrt_Mt2 (k0 : Az) (k1 : Lon) (k2 : Tmp) (a b c d : ℝ) :
    lorentz_Mt.eval k0 k1 k2 a b c d = sqrt (lorentz_Mt2.eval k0 k1 k2 a b c d) := by
  cases k0 <;> cases k1 <;> cases k2 <;> rfl

/-- what the τ keys of `Mt` compute (signed τ): the CLAMPED `√max(t² − z², 0)` of the denotation -/
theorem refine_lorentz_Mt_tau_signed (k0 : Az) (k1 : Lon) (a b c d : ℝ) (hd : CanonTmpS k0 k1 .tau a b c d) :
    lorentz_Mt.eval k0 k1 .tau a b c d = sqrt (max (tOfS k0 k1 .tau a b c d ^ 2 - zOf k0 k1 a b c ^ 2) 0) := by
  rw [lorentz_Mt_eq_sqrt_Mt2, refine_lorentz_Mt2_tau_signed k0 k1 a b c d hd]

/-- `Mt = √(t² − z²)` for every key when `0 ≤ t² − z²` (signed τ) -/
theorem refine_lorentz_Mt_signed (k0 : Az) (k1 : Lon) (k2 : Tmp) (a b c d : ℝ)
    (htan : TanOK k1 c) (hd : CanonTmpS k0 k1 k2 a b c d)
    (hs : 0 ≤ tOfS k0 k1 k2 a b c d ^ 2 - zOf k0 k1 a b c ^ 2) :
    lorentz_Mt.eval k0 k1 k2 a b c d = sqrt (tOfS k0 k1 k2 a b c d ^ 2 - zOf k0 k1 a b c ^ 2) := by
  rw [lorentz_Mt_eq_sqrt_Mt2, refine_lorentz_Mt2_signed_partial k0 k1 k2 a b c d htan hd (fun _ => hs)]

/-- space-like τ-stored vectors with `t < |z|`: the τ keys of `Mt` return `0` -/
theorem refine_lorentz_Mt_tau_signed_clamped (k0 : Az) (k1 : Lon) (a b c d : ℝ) (hd : CanonTmpS k0 k1 .tau a b c d)
    (hs : tOfS k0 k1 .tau a b c d ^ 2 - zOf k0 k1 a b c ^ 2 ≤ 0) :
    lorentz_Mt.eval k0 k1 .tau a b c d = 0 := by
  rw [refine_lorentz_Mt_tau_signed k0 k1 a b c d hd, max_eq_right hs, sqrt_zero]

/-- the space-like point `(3, 0, 0, τ = −2)`: `t² − z² = 5 ≥ 0` -/
example : TanOK .z 0 ∧ CanonTmpS .xy .z .tau 3 0 0 (-2)
    ∧ 0 ≤ tOfS .xy .z .tau 3 0 0 (-2) ^ 2 - zOf .xy .z 3 0 0 ^ 2 := by
  refine ⟨trivial, ex2_canon, ?_⟩
  rw [ex2_t, sq_sqrt (by norm_num)]; norm_num [zOf]

/-! ### (3) boosts along a coordinate axis of a signed-τ operand

The τ variants compute the boosted coordinate from `lorentz_t(…)` and pass the STORED τ through. Under the signed reading
the result denotes the boosted 4-vector whenever the boosted time component is `≥ 0` (a boost can make the time component
of a SPACE-LIKE vector negative, which τ storage cannot represent): the invariant is preserved, so the τ-stored result
denotes `|t'|`. -/

/-- `L.boost_time_core` without `0 ≤ s`: the boosted time component must be assumed non-negative -/
theorem L.boost_time_core_signed (g bg u T s : ℝ) (hg : g ^ 2 - bg ^ 2 = 1) (hT : T ^ 2 = s + u ^ 2)
    (h0 : 0 ≤ bg * u + g * T) : sqrt (s + (g * u + bg * T) ^ 2) = bg * u + g * T := by
  have key : (bg * u + g * T) ^ 2 = s + (g * u + bg * T) ^ 2 := by
    linear_combination (T ^ 2 - u ^ 2) * hg + hT
  rw [← key, sqrt_sq h0]

/-- … and in any case the τ-stored result denotes the ABSOLUTE VALUE of the boosted time component -/
theorem L.boost_time_core_abs (g bg u T s : ℝ) (hg : g ^ 2 - bg ^ 2 = 1) (hT : T ^ 2 = s + u ^ 2) :
    sqrt (s + (g * u + bg * T) ^ 2) = |bg * u + g * T| := by
  have key : (bg * u + g * T) ^ 2 = s + (g * u + bg * T) ^ 2 := by
    linear_combination (T ^ 2 - u ^ 2) * hg + hT
  rw [← key, sqrt_sq_eq_abs]

/-- time component of a signed-τ-stored Cartesian vector after a boost along x / y / z -/
theorem tOfS_boostX (g bg x y z τ : ℝ) (hg : g ^ 2 - bg ^ 2 = 1) (hc : CanonTmpS .xy .z .tau x y z τ)
    (h0 : 0 ≤ bg * x + g * tOfS .xy .z .tau x y z τ) :
    tOfS .xy .z .tau (g * x + bg * tOfS .xy .z .tau x y z τ) y z τ = bg * x + g * tOfS .xy .z .tau x y z τ := by
  have hT : tOfS .xy .z .tau x y z τ ^ 2 = (tau2S τ + y ^ 2 + z ^ 2) + x ^ 2 := by
    rw [tOfS_xyz_tau_sq x y z τ hc]; ring
  rw [← L.boost_time_core_signed g bg x _ (tau2S τ + y ^ 2 + z ^ 2) hg hT h0]
  generalize tOfS .xy .z .tau x y z τ = T
  rw [tOfS_tau]; simp only [mag2Of, xOf, yOf, zOf]; congr 1; ring

theorem tOfS_boostY (g bg x y z τ : ℝ) (hg : g ^ 2 - bg ^ 2 = 1) (hc : CanonTmpS .xy .z .tau x y z τ)
    (h0 : 0 ≤ bg * y + g * tOfS .xy .z .tau x y z τ) :
    tOfS .xy .z .tau x (g * y + bg * tOfS .xy .z .tau x y z τ) z τ = bg * y + g * tOfS .xy .z .tau x y z τ := by
  have hT : tOfS .xy .z .tau x y z τ ^ 2 = (tau2S τ + x ^ 2 + z ^ 2) + y ^ 2 := by
    rw [tOfS_xyz_tau_sq x y z τ hc]; ring
  rw [← L.boost_time_core_signed g bg y _ (tau2S τ + x ^ 2 + z ^ 2) hg hT h0]
  generalize tOfS .xy .z .tau x y z τ = T
  rw [tOfS_tau]; simp only [mag2Of, xOf, yOf, zOf]; congr 1; ring

theorem tOfS_boostZ (g bg x y z τ : ℝ) (hg : g ^ 2 - bg ^ 2 = 1) (hc : CanonTmpS .xy .z .tau x y z τ)
    (h0 : 0 ≤ bg * z + g * tOfS .xy .z .tau x y z τ) :
    tOfS .xy .z .tau x y (g * z + bg * tOfS .xy .z .tau x y z τ) τ = bg * z + g * tOfS .xy .z .tau x y z τ := by
  have hT : tOfS .xy .z .tau x y z τ ^ 2 = (tau2S τ + x ^ 2 + y ^ 2) + z ^ 2 := by
    rw [tOfS_xyz_tau_sq x y z τ hc]; ring
  rw [← L.boost_time_core_signed g bg z _ (tau2S τ + x ^ 2 + y ^ 2) hg hT h0]
  generalize tOfS .xy .z .tau x y z τ = T
  rw [tOfS_tau]; simp only [mag2Of, xOf, yOf, zOf]; congr 1; ring

/-- a result stored as (`boostA` of the spatial denotation, stored τ) denotes `boostA` of the signed-τ denotation when the
boosted time component is `≥ 0` -/
theorem cart4S_boostX_signed (k0 : Az) (k1 : Lon) (g bg a b c d : ℝ) (hg : g ^ 2 - bg ^ 2 = 1)
    (hd : CanonTmpS k0 k1 .tau a b c d) (h0 : 0 ≤ (boostX g bg (cart4S k0 k1 .tau a b c d)).2.2.2) :
    cart4S .xy .z .tau (g * xOf k0 a b + bg * tOfS k0 k1 .tau a b c d) (yOf k0 a b) (zOf k0 k1 a b c) d
      = boostX g bg (cart4S k0 k1 .tau a b c d) := by
  have hc := (canonTmpS_cart k0 k1 .tau a b c d).mpr hd
  have e := tOfS_boostX g bg (xOf k0 a b) (yOf k0 a b) (zOf k0 k1 a b c) d hg hc (by rw [tOfS_cart]; exact h0)
  rw [tOfS_cart] at e
  show (g * xOf k0 a b + bg * tOfS k0 k1 .tau a b c d, yOf k0 a b, zOf k0 k1 a b c,
    tOfS .xy .z .tau (g * xOf k0 a b + bg * tOfS k0 k1 .tau a b c d) (yOf k0 a b) (zOf k0 k1 a b c) d) = _
  rw [e]; rfl

theorem cart4S_boostY_signed (k0 : Az) (k1 : Lon) (g bg a b c d : ℝ) (hg : g ^ 2 - bg ^ 2 = 1)
    (hd : CanonTmpS k0 k1 .tau a b c d) (h0 : 0 ≤ (boostY g bg (cart4S k0 k1 .tau a b c d)).2.2.2) :
    cart4S .xy .z .tau (xOf k0 a b) (g * yOf k0 a b + bg * tOfS k0 k1 .tau a b c d) (zOf k0 k1 a b c) d
      = boostY g bg (cart4S k0 k1 .tau a b c d) := by
  have hc := (canonTmpS_cart k0 k1 .tau a b c d).mpr hd
  have e := tOfS_boostY g bg (xOf k0 a b) (yOf k0 a b) (zOf k0 k1 a b c) d hg hc (by rw [tOfS_cart]; exact h0)
  rw [tOfS_cart] at e
  show (xOf k0 a b, g * yOf k0 a b + bg * tOfS k0 k1 .tau a b c d, zOf k0 k1 a b c,
    tOfS .xy .z .tau (xOf k0 a b) (g * yOf k0 a b + bg * tOfS k0 k1 .tau a b c d) (zOf k0 k1 a b c) d) = _
  rw [e]; rfl

/-- for `boostZ` the azimuthal coordinates are passed through in the operand's own azimuthal system -/
theorem cart4S_boostZ_signed (k0 : Az) (k1 : Lon) (g bg a b c d : ℝ) (hg : g ^ 2 - bg ^ 2 = 1)
    (hd : CanonTmpS k0 k1 .tau a b c d) (h0 : 0 ≤ (boostZ g bg (cart4S k0 k1 .tau a b c d)).2.2.2) :
    cart4S k0 .z .tau a b (g * zOf k0 k1 a b c + bg * tOfS k0 k1 .tau a b c d) d
      = boostZ g bg (cart4S k0 k1 .tau a b c d) := by
  have hc := (canonTmpS_cart k0 k1 .tau a b c d).mpr hd
  have e := tOfS_boostZ g bg (xOf k0 a b) (yOf k0 a b) (zOf k0 k1 a b c) d hg hc (by rw [tOfS_cart]; exact h0)
  rw [tOfS_cart] at e
  have e' : tOfS k0 .z .tau a b (g * zOf k0 k1 a b c + bg * tOfS k0 k1 .tau a b c d) d
      = tOfS .xy .z .tau (xOf k0 a b) (yOf k0 a b) (g * zOf k0 k1 a b c + bg * tOfS k0 k1 .tau a b c d) d :=
    (tOfS_cart k0 .z .tau a b _ d).symm
  have ez : zOf k0 .z a b (g * zOf k0 k1 a b c + bg * tOfS k0 k1 .tau a b c d)
      = g * zOf k0 k1 a b c + bg * tOfS k0 k1 .tau a b c d := by cases k0 <;> rfl
  show (xOf k0 a b, yOf k0 a b, zOf k0 .z a b (g * zOf k0 k1 a b c + bg * tOfS k0 k1 .tau a b c d),
    tOfS k0 .z .tau a b (g * zOf k0 k1 a b c + bg * tOfS k0 k1 .tau a b c d) d) = _
  rw [ez, e', e]; rfl

/-- without the sign hypothesis: the τ-stored result denotes the ABSOLUTE VALUE of the boosted time component -/
theorem tOfS_boostX_abs (g bg x y z τ : ℝ) (hg : g ^ 2 - bg ^ 2 = 1) (hc : CanonTmpS .xy .z .tau x y z τ) :
    tOfS .xy .z .tau (g * x + bg * tOfS .xy .z .tau x y z τ) y z τ = |bg * x + g * tOfS .xy .z .tau x y z τ| := by
  have hT : tOfS .xy .z .tau x y z τ ^ 2 = (tau2S τ + y ^ 2 + z ^ 2) + x ^ 2 := by
    rw [tOfS_xyz_tau_sq x y z τ hc]; ring
  rw [← L.boost_time_core_abs g bg x _ (tau2S τ + y ^ 2 + z ^ 2) hg hT]
  generalize tOfS .xy .z .tau x y z τ = T
  rw [tOfS_tau]; simp only [mag2Of, xOf, yOf, zOf]; congr 1; ring

theorem tOfS_boostY_abs (g bg x y z τ : ℝ) (hg : g ^ 2 - bg ^ 2 = 1) (hc : CanonTmpS .xy .z .tau x y z τ) :
    tOfS .xy .z .tau x (g * y + bg * tOfS .xy .z .tau x y z τ) z τ = |bg * y + g * tOfS .xy .z .tau x y z τ| := by
  have hT : tOfS .xy .z .tau x y z τ ^ 2 = (tau2S τ + x ^ 2 + z ^ 2) + y ^ 2 := by
    rw [tOfS_xyz_tau_sq x y z τ hc]; ring
  rw [← L.boost_time_core_abs g bg y _ (tau2S τ + x ^ 2 + z ^ 2) hg hT]
  generalize tOfS .xy .z .tau x y z τ = T
  rw [tOfS_tau]; simp only [mag2Of, xOf, yOf, zOf]; congr 1; ring

theorem tOfS_boostZ_abs (g bg x y z τ : ℝ) (hg : g ^ 2 - bg ^ 2 = 1) (hc : CanonTmpS .xy .z .tau x y z τ) :
    tOfS .xy .z .tau x y (g * z + bg * tOfS .xy .z .tau x y z τ) τ = |bg * z + g * tOfS .xy .z .tau x y z τ| := by
  have hT : tOfS .xy .z .tau x y z τ ^ 2 = (tau2S τ + x ^ 2 + y ^ 2) + z ^ 2 := by
    rw [tOfS_xyz_tau_sq x y z τ hc]; ring
  rw [← L.boost_time_core_abs g bg z _ (tau2S τ + x ^ 2 + y ^ 2) hg hT]
  generalize tOfS .xy .z .tau x y z τ = T
  rw [tOfS_tau]; simp only [mag2Of, xOf, yOf, zOf]; congr 1; ring

/-- `p` with its time component replaced by its absolute value -/
def absTime (p : ℝ × ℝ × ℝ × ℝ) : ℝ × ℝ × ℝ × ℝ := (p.1, p.2.1, p.2.2.1, |p.2.2.2|)

theorem absTime_of_nonneg {p : ℝ × ℝ × ℝ × ℝ} (h : 0 ≤ p.2.2.2) : absTime p = p := by
  obtain ⟨x, y, z, t⟩ := p
  simp only [absTime, abs_of_nonneg h]

theorem cart4S_boostX_abs (k0 : Az) (k1 : Lon) (g bg a b c d : ℝ) (hg : g ^ 2 - bg ^ 2 = 1)
    (hd : CanonTmpS k0 k1 .tau a b c d) :
    cart4S .xy .z .tau (g * xOf k0 a b + bg * tOfS k0 k1 .tau a b c d) (yOf k0 a b) (zOf k0 k1 a b c) d
      = absTime (boostX g bg (cart4S k0 k1 .tau a b c d)) := by
  have hc := (canonTmpS_cart k0 k1 .tau a b c d).mpr hd
  have e := tOfS_boostX_abs g bg (xOf k0 a b) (yOf k0 a b) (zOf k0 k1 a b c) d hg hc
  rw [tOfS_cart] at e
  show (g * xOf k0 a b + bg * tOfS k0 k1 .tau a b c d, yOf k0 a b, zOf k0 k1 a b c,
    tOfS .xy .z .tau (g * xOf k0 a b + bg * tOfS k0 k1 .tau a b c d) (yOf k0 a b) (zOf k0 k1 a b c) d) = _
  rw [e]; rfl

theorem cart4S_boostY_abs (k0 : Az) (k1 : Lon) (g bg a b c d : ℝ) (hg : g ^ 2 - bg ^ 2 = 1)
    (hd : CanonTmpS k0 k1 .tau a b c d) :
    cart4S .xy .z .tau (xOf k0 a b) (g * yOf k0 a b + bg * tOfS k0 k1 .tau a b c d) (zOf k0 k1 a b c) d
      = absTime (boostY g bg (cart4S k0 k1 .tau a b c d)) := by
  have hc := (canonTmpS_cart k0 k1 .tau a b c d).mpr hd
  have e := tOfS_boostY_abs g bg (xOf k0 a b) (yOf k0 a b) (zOf k0 k1 a b c) d hg hc
  rw [tOfS_cart] at e
  show (xOf k0 a b, g * yOf k0 a b + bg * tOfS k0 k1 .tau a b c d, zOf k0 k1 a b c,
    tOfS .xy .z .tau (xOf k0 a b) (g * yOf k0 a b + bg * tOfS k0 k1 .tau a b c d) (zOf k0 k1 a b c) d) = _
  rw [e]; rfl

theorem cart4S_boostZ_abs (k0 : Az) (k1 : Lon) (g bg a b c d : ℝ) (hg : g ^ 2 - bg ^ 2 = 1)
    (hd : CanonTmpS k0 k1 .tau a b c d) :
    cart4S k0 .z .tau a b (g * zOf k0 k1 a b c + bg * tOfS k0 k1 .tau a b c d) d
      = absTime (boostZ g bg (cart4S k0 k1 .tau a b c d)) := by
  have hc := (canonTmpS_cart k0 k1 .tau a b c d).mpr hd
  have e := tOfS_boostZ_abs g bg (xOf k0 a b) (yOf k0 a b) (zOf k0 k1 a b c) d hg hc
  rw [tOfS_cart] at e
  have e' : tOfS k0 .z .tau a b (g * zOf k0 k1 a b c + bg * tOfS k0 k1 .tau a b c d) d
      = tOfS .xy .z .tau (xOf k0 a b) (yOf k0 a b) (g * zOf k0 k1 a b c + bg * tOfS k0 k1 .tau a b c d) d :=
    (tOfS_cart k0 .z .tau a b _ d).symm
  have ez : zOf k0 .z a b (g * zOf k0 k1 a b c + bg * tOfS k0 k1 .tau a b c d)
      = g * zOf k0 k1 a b c + bg * tOfS k0 k1 .tau a b c d := by cases k0 <;> rfl
  show (xOf k0 a b, yOf k0 a b, zOf k0 .z a b (g * zOf k0 k1 a b c + bg * tOfS k0 k1 .tau a b c d),
    tOfS k0 .z .tau a b (g * zOf k0 k1 a b c + bg * tOfS k0 k1 .tau a b c d) d) = _
  rw [ez, e', e]; rfl

/-! #### boostX_beta -/

theorem lorentz_boostX_beta_ret_eq (k0 : Az) (k1 : Lon) (k2 : Tmp) :
    lorentz_boostX_beta.ret k0 k1 k2 = Ret.vec [RP.az .xy, RP.lon .z, RP.tmp k2] := by
  cases k0 <;> cases k1 <;> cases k2 <;> rfl

set_option linter.unusedSimpArgs false in
/-- what the τ keys of `boostX_beta` compute (signed τ, ANY parameter): the boosted x coordinate from
`(x, tOfS)`, the other spatial coordinates and the stored τ passed through -/
theorem lorentz_boostX_beta_tau_eval_signed (k0 : Az) (k1 : Lon) (β a b c d : ℝ)
    (h : TanOK k1 c) (hs : SinOK k1 c) (hd : CanonTmpS k0 k1 .tau a b c d) :
    lorentz_boostX_beta.eval k0 k1 .tau β a b c d
      = ((P.rpow (1 - β ^ 2) (-0.5)) * xOf k0 a b + (β * P.rpow (1 - β ^ 2) (-0.5)) * tOfS k0 k1 .tau a b c d, yOf k0 a b, zOf k0 k1 a b c, d) := by
  have hz := refine_spatial_z k0 k1 a b c h
  have ht := lorentz_t_eq_tOfS k0 k1 .tau a b c d hs hd
  cases k0 <;> cases k1 <;> simp only [spatial_z.eval, lorentz_t.eval] at hz ht <;>
    simp only [d_lorentz_boostX_beta, hz, ht, conv_x_rhophi, conv_y_rhophi, conv_x_xy, conv_y_xy, conv_z_xy_z] <;>
    simp only [xOf, yOf, zOf]

/-- τ keys, ANY parameter: the spatial part is that of the boost along x of `(x, y, z, tOfS)` … -/
theorem refine_lorentz_boostX_beta_tau_spatial_signed (k0 : Az) (k1 : Lon) (β a b c d : ℝ)
    (h : TanOK k1 c) (hs : SinOK k1 c) (hd : CanonTmpS k0 k1 .tau a b c d) :
    let r := lorentz_boostX_beta.eval k0 k1 .tau β a b c d
    let r' := boostX (P.rpow (1 - β ^ 2) (-0.5)) (β * P.rpow (1 - β ^ 2) (-0.5)) (cart4S k0 k1 .tau a b c d)
    interp3 (lorentz_boostX_beta.ret k0 k1 .tau) (r.1, r.2.1, r.2.2.1) = some (r'.1, r'.2.1, r'.2.2.1) := by
  rw [lorentz_boostX_beta_tau_eval_signed k0 k1 β a b c d h hs hd, lorentz_boostX_beta_ret_eq]
  rfl

/-- … and the returned τ is the stored (signed) τ. -/
theorem refine_lorentz_boostX_beta_tau_stored_signed (k0 : Az) (k1 : Lon) (β a b c d : ℝ) :
    (lorentz_boostX_beta.eval k0 k1 .tau β a b c d).2.2.2 = d :=
  refine_lorentz_boostX_beta_tau_stored k0 k1 β a b c d

/-- τ keys of `boostX_beta`, signed τ, NO sign hypothesis: the τ-stored result denotes the boosted vector with its time
component replaced by its ABSOLUTE VALUE -/
theorem refine_lorentz_boostX_beta_tau_abs_signed (k0 : Az) (k1 : Lon) (β a b c d : ℝ)
    (h : TanOK k1 c) (hs : SinOK k1 c) (hd : CanonTmpS k0 k1 .tau a b c d) (hβ : |β| < 1) :
    interp4S (lorentz_boostX_beta.ret k0 k1 .tau) (lorentz_boostX_beta.eval k0 k1 .tau β a b c d)
      = some (absTime (boostX (P.rpow (1 - β ^ 2) (-0.5)) (β * P.rpow (1 - β ^ 2) (-0.5)) (cart4S k0 k1 .tau a b c d))) := by
  rw [lorentz_boostX_beta_tau_eval_signed k0 k1 β a b c d h hs hd, lorentz_boostX_beta_ret_eq, interp4S_same]
  exact congrArg some (cart4S_boostX_abs k0 k1 _ _ a b c d (L.gam_beta hβ).1 hd)

/-- C01 + C02 for `boostX_beta`, signed τ: every key denotes the boost along x of the denotation; for a τ-stored
operand provided the boosted time component is `≥ 0` -/
theorem refine_lorentz_boostX_beta_spec_signed (k0 : Az) (k1 : Lon) (k2 : Tmp) (β a b c d : ℝ)
    (h : TanOK k1 c) (hs : SinOK k1 c) (hd : CanonTmpS k0 k1 k2 a b c d) (hβ : |β| < 1)
    (h0 : k2 = .tau → 0 ≤ (boostX (P.rpow (1 - β ^ 2) (-0.5)) (β * P.rpow (1 - β ^ 2) (-0.5)) (cart4S k0 k1 k2 a b c d)).2.2.2) :
    interp4S (lorentz_boostX_beta.ret k0 k1 k2) (lorentz_boostX_beta.eval k0 k1 k2 β a b c d)
      = some (boostX (P.rpow (1 - β ^ 2) (-0.5)) (β * P.rpow (1 - β ^ 2) (-0.5)) (cart4S k0 k1 k2 a b c d)) := by
  cases k2
  · have e := refine_lorentz_boostX_beta_spec k0 k1 .t β a b c d h hs trivial hβ
    rw [lorentz_boostX_beta_ret_eq] at e ⊢
    rw [cart4S_t, ← e]; rfl
  · rw [lorentz_boostX_beta_tau_eval_signed k0 k1 β a b c d h hs hd, lorentz_boostX_beta_ret_eq, interp4S_same]
    exact congrArg some (cart4S_boostX_signed k0 k1 _ _ a b c d (L.gam_beta hβ).1 hd (h0 rfl))

/-! #### boostX_gamma -/

theorem lorentz_boostX_gamma_ret_eq (k0 : Az) (k1 : Lon) (k2 : Tmp) :
    lorentz_boostX_gamma.ret k0 k1 k2 = Ret.vec [RP.az .xy, RP.lon .z, RP.tmp k2] := by
  cases k0 <;> cases k1 <;> cases k2 <;> rfl

set_option linter.unusedSimpArgs false in
/-- what the τ keys of `boostX_gamma` compute (signed τ, ANY parameter): the boosted x coordinate from
`(x, tOfS)`, the other spatial coordinates and the stored τ passed through -/
theorem lorentz_boostX_gamma_tau_eval_signed (k0 : Az) (k1 : Lon) (γ a b c d : ℝ)
    (h : TanOK k1 c) (hs : SinOK k1 c) (hd : CanonTmpS k0 k1 .tau a b c d) :
    lorentz_boostX_gamma.eval k0 k1 .tau γ a b c d
      = (|γ| * xOf k0 a b + (P.copysign (sqrt (|γ| ^ 2 - 1)) γ) * tOfS k0 k1 .tau a b c d, yOf k0 a b, zOf k0 k1 a b c, d) := by
  have hz := refine_spatial_z k0 k1 a b c h
  have ht := lorentz_t_eq_tOfS k0 k1 .tau a b c d hs hd
  cases k0 <;> cases k1 <;> simp only [spatial_z.eval, lorentz_t.eval] at hz ht <;>
    simp only [d_lorentz_boostX_gamma, hz, ht, conv_x_rhophi, conv_y_rhophi, conv_x_xy, conv_y_xy, conv_z_xy_z] <;>
    simp only [xOf, yOf, zOf]

/-- τ keys, ANY parameter: the spatial part is that of the boost along x of `(x, y, z, tOfS)` … -/
theorem refine_lorentz_boostX_gamma_tau_spatial_signed (k0 : Az) (k1 : Lon) (γ a b c d : ℝ)
    (h : TanOK k1 c) (hs : SinOK k1 c) (hd : CanonTmpS k0 k1 .tau a b c d) :
    let r := lorentz_boostX_gamma.eval k0 k1 .tau γ a b c d
    let r' := boostX |γ| (P.copysign (sqrt (|γ| ^ 2 - 1)) γ) (cart4S k0 k1 .tau a b c d)
    interp3 (lorentz_boostX_gamma.ret k0 k1 .tau) (r.1, r.2.1, r.2.2.1) = some (r'.1, r'.2.1, r'.2.2.1) := by
  rw [lorentz_boostX_gamma_tau_eval_signed k0 k1 γ a b c d h hs hd, lorentz_boostX_gamma_ret_eq]
  rfl

/-- … and the returned τ is the stored (signed) τ. -/
theorem refine_lorentz_boostX_gamma_tau_stored_signed (k0 : Az) (k1 : Lon) (γ a b c d : ℝ) :
    (lorentz_boostX_gamma.eval k0 k1 .tau γ a b c d).2.2.2 = d :=
  refine_lorentz_boostX_gamma_tau_stored k0 k1 γ a b c d

/-- τ keys of `boostX_gamma`, signed τ, NO sign hypothesis: the τ-stored result denotes the boosted vector with its time
component replaced by its ABSOLUTE VALUE -/
theorem refine_lorentz_boostX_gamma_tau_abs_signed (k0 : Az) (k1 : Lon) (γ a b c d : ℝ)
    (h : TanOK k1 c) (hs : SinOK k1 c) (hd : CanonTmpS k0 k1 .tau a b c d) (hγ : 1 ≤ |γ|) :
    interp4S (lorentz_boostX_gamma.ret k0 k1 .tau) (lorentz_boostX_gamma.eval k0 k1 .tau γ a b c d)
      = some (absTime (boostX |γ| (P.copysign (sqrt (|γ| ^ 2 - 1)) γ) (cart4S k0 k1 .tau a b c d))) := by
  rw [lorentz_boostX_gamma_tau_eval_signed k0 k1 γ a b c d h hs hd, lorentz_boostX_gamma_ret_eq, interp4S_same]
  exact congrArg some (cart4S_boostX_abs k0 k1 _ _ a b c d (L.gam_gamma hγ).1 hd)

/-- C01 + C02 for `boostX_gamma`, signed τ: every key denotes the boost along x of the denotation; for a τ-stored
operand provided the boosted time component is `≥ 0` -/
theorem refine_lorentz_boostX_gamma_spec_signed (k0 : Az) (k1 : Lon) (k2 : Tmp) (γ a b c d : ℝ)
    (h : TanOK k1 c) (hs : SinOK k1 c) (hd : CanonTmpS k0 k1 k2 a b c d) (hγ : 1 ≤ |γ|)
    (h0 : k2 = .tau → 0 ≤ (boostX |γ| (P.copysign (sqrt (|γ| ^ 2 - 1)) γ) (cart4S k0 k1 k2 a b c d)).2.2.2) :
    interp4S (lorentz_boostX_gamma.ret k0 k1 k2) (lorentz_boostX_gamma.eval k0 k1 k2 γ a b c d)
      = some (boostX |γ| (P.copysign (sqrt (|γ| ^ 2 - 1)) γ) (cart4S k0 k1 k2 a b c d)) := by
  cases k2
  · have e := refine_lorentz_boostX_gamma_spec k0 k1 .t γ a b c d h hs trivial hγ
    rw [lorentz_boostX_gamma_ret_eq] at e ⊢
    rw [cart4S_t, ← e]; rfl
  · rw [lorentz_boostX_gamma_tau_eval_signed k0 k1 γ a b c d h hs hd, lorentz_boostX_gamma_ret_eq, interp4S_same]
    exact congrArg some (cart4S_boostX_signed k0 k1 _ _ a b c d (L.gam_gamma hγ).1 hd (h0 rfl))

/-! #### boostY_beta -/

theorem lorentz_boostY_beta_ret_eq (k0 : Az) (k1 : Lon) (k2 : Tmp) :
    lorentz_boostY_beta.ret k0 k1 k2 = Ret.vec [RP.az .xy, RP.lon .z, RP.tmp k2] := by
  cases k0 <;> cases k1 <;> cases k2 <;> rfl

set_option linter.unusedSimpArgs false in
/-- what the τ keys of `boostY_beta` compute (signed τ, ANY parameter): the boosted y coordinate from
`(y, tOfS)`, the other spatial coordinates and the stored τ passed through -/
theorem lorentz_boostY_beta_tau_eval_signed (k0 : Az) (k1 : Lon) (β a b c d : ℝ)
    (h : TanOK k1 c) (hs : SinOK k1 c) (hd : CanonTmpS k0 k1 .tau a b c d) :
    lorentz_boostY_beta.eval k0 k1 .tau β a b c d
      = (xOf k0 a b, (P.rpow (1 - β ^ 2) (-0.5)) * yOf k0 a b + (β * P.rpow (1 - β ^ 2) (-0.5)) * tOfS k0 k1 .tau a b c d, zOf k0 k1 a b c, d) := by
  have hz := refine_spatial_z k0 k1 a b c h
  have ht := lorentz_t_eq_tOfS k0 k1 .tau a b c d hs hd
  cases k0 <;> cases k1 <;> simp only [spatial_z.eval, lorentz_t.eval] at hz ht <;>
    simp only [d_lorentz_boostY_beta, hz, ht, conv_x_rhophi, conv_y_rhophi, conv_x_xy, conv_y_xy, conv_z_xy_z] <;>
    simp only [xOf, yOf, zOf]

/-- τ keys, ANY parameter: the spatial part is that of the boost along y of `(x, y, z, tOfS)` … -/
theorem refine_lorentz_boostY_beta_tau_spatial_signed (k0 : Az) (k1 : Lon) (β a b c d : ℝ)
    (h : TanOK k1 c) (hs : SinOK k1 c) (hd : CanonTmpS k0 k1 .tau a b c d) :
    let r := lorentz_boostY_beta.eval k0 k1 .tau β a b c d
    let r' := boostY (P.rpow (1 - β ^ 2) (-0.5)) (β * P.rpow (1 - β ^ 2) (-0.5)) (cart4S k0 k1 .tau a b c d)
    interp3 (lorentz_boostY_beta.ret k0 k1 .tau) (r.1, r.2.1, r.2.2.1) = some (r'.1, r'.2.1, r'.2.2.1) := by
  rw [lorentz_boostY_beta_tau_eval_signed k0 k1 β a b c d h hs hd, lorentz_boostY_beta_ret_eq]
  rfl

/-- … and the returned τ is the stored (signed) τ. -/
theorem refine_lorentz_boostY_beta_tau_stored_signed (k0 : Az) (k1 : Lon) (β a b c d : ℝ) :
    (lorentz_boostY_beta.eval k0 k1 .tau β a b c d).2.2.2 = d :=
  refine_lorentz_boostY_beta_tau_stored k0 k1 β a b c d

/-- τ keys of `boostY_beta`, signed τ, NO sign hypothesis: the τ-stored result denotes the boosted vector with its time
component replaced by its ABSOLUTE VALUE -/
theorem refine_lorentz_boostY_beta_tau_abs_signed (k0 : Az) (k1 : Lon) (β a b c d : ℝ)
    (h : TanOK k1 c) (hs : SinOK k1 c) (hd : CanonTmpS k0 k1 .tau a b c d) (hβ : |β| < 1) :
    interp4S (lorentz_boostY_beta.ret k0 k1 .tau) (lorentz_boostY_beta.eval k0 k1 .tau β a b c d)
      = some (absTime (boostY (P.rpow (1 - β ^ 2) (-0.5)) (β * P.rpow (1 - β ^ 2) (-0.5)) (cart4S k0 k1 .tau a b c d))) := by
  rw [lorentz_boostY_beta_tau_eval_signed k0 k1 β a b c d h hs hd, lorentz_boostY_beta_ret_eq, interp4S_same]
  exact congrArg some (cart4S_boostY_abs k0 k1 _ _ a b c d (L.gam_beta hβ).1 hd)

/-- C01 + C02 for `boostY_beta`, signed τ: every key denotes the boost along y of the denotation; for a τ-stored
operand provided the boosted time component is `≥ 0` -/
theorem refine_lorentz_boostY_beta_spec_signed (k0 : Az) (k1 : Lon) (k2 : Tmp) (β a b c d : ℝ)
    (h : TanOK k1 c) (hs : SinOK k1 c) (hd : CanonTmpS k0 k1 k2 a b c d) (hβ : |β| < 1)
    (h0 : k2 = .tau → 0 ≤ (boostY (P.rpow (1 - β ^ 2) (-0.5)) (β * P.rpow (1 - β ^ 2) (-0.5)) (cart4S k0 k1 k2 a b c d)).2.2.2) :
    interp4S (lorentz_boostY_beta.ret k0 k1 k2) (lorentz_boostY_beta.eval k0 k1 k2 β a b c d)
      = some (boostY (P.rpow (1 - β ^ 2) (-0.5)) (β * P.rpow (1 - β ^ 2) (-0.5)) (cart4S k0 k1 k2 a b c d)) := by
  cases k2
  · have e := refine_lorentz_boostY_beta_spec k0 k1 .t β a b c d h hs trivial hβ
    rw [lorentz_boostY_beta_ret_eq] at e ⊢
    rw [cart4S_t, ← e]; rfl
  · rw [lorentz_boostY_beta_tau_eval_signed k0 k1 β a b c d h hs hd, lorentz_boostY_beta_ret_eq, interp4S_same]
    exact congrArg some (cart4S_boostY_signed k0 k1 _ _ a b c d (L.gam_beta hβ).1 hd (h0 rfl))

/-! #### boostY_gamma -/

theorem lorentz_boostY_gamma_ret_eq (k0 : Az) (k1 : Lon) (k2 : Tmp) :
    lorentz_boostY_gamma.ret k0 k1 k2 = Ret.vec [RP.az .xy, RP.lon .z, RP.tmp k2] := by
  cases k0 <;> cases k1 <;> cases k2 <;> rfl

set_option linter.unusedSimpArgs false in
/-- what the τ keys of `boostY_gamma` compute (signed τ, ANY parameter): the boosted y coordinate from
`(y, tOfS)`, the other spatial coordinates and the stored τ passed through -/
theorem lorentz_boostY_gamma_tau_eval_signed (k0 : Az) (k1 : Lon) (γ a b c d : ℝ)
    (h : TanOK k1 c) (hs : SinOK k1 c) (hd : CanonTmpS k0 k1 .tau a b c d) :
    lorentz_boostY_gamma.eval k0 k1 .tau γ a b c d
      = (xOf k0 a b, |γ| * yOf k0 a b + (P.copysign (sqrt (|γ| ^ 2 - 1)) γ) * tOfS k0 k1 .tau a b c d, zOf k0 k1 a b c, d) := by
  have hz := refine_spatial_z k0 k1 a b c h
  have ht := lorentz_t_eq_tOfS k0 k1 .tau a b c d hs hd
  cases k0 <;> cases k1 <;> simp only [spatial_z.eval, lorentz_t.eval] at hz ht <;>
    simp only [d_lorentz_boostY_gamma, hz, ht, conv_x_rhophi, conv_y_rhophi, conv_x_xy, conv_y_xy, conv_z_xy_z] <;>
    simp only [xOf, yOf, zOf]

/-- τ keys, ANY parameter: the spatial part is that of the boost along y of `(x, y, z, tOfS)` … -/
theorem refine_lorentz_boostY_gamma_tau_spatial_signed (k0 : Az) (k1 : Lon) (γ a b c d : ℝ)
    (h : TanOK k1 c) (hs : SinOK k1 c) (hd : CanonTmpS k0 k1 .tau a b c d) :
    let r := lorentz_boostY_gamma.eval k0 k1 .tau γ a b c d
    let r' := boostY |γ| (P.copysign (sqrt (|γ| ^ 2 - 1)) γ) (cart4S k0 k1 .tau a b c d)
    interp3 (lorentz_boostY_gamma.ret k0 k1 .tau) (r.1, r.2.1, r.2.2.1) = some (r'.1, r'.2.1, r'.2.2.1) := by
  rw [lorentz_boostY_gamma_tau_eval_signed k0 k1 γ a b c d h hs hd, lorentz_boostY_gamma_ret_eq]
  rfl

/-- … and the returned τ is the stored (signed) τ. -/
theorem refine_lorentz_boostY_gamma_tau_stored_signed (k0 : Az) (k1 : Lon) (γ a b c d : ℝ) :
    (lorentz_boostY_gamma.eval k0 k1 .tau γ a b c d).2.2.2 = d :=
  refine_lorentz_boostY_gamma_tau_stored k0 k1 γ a b c d

/-- τ keys of `boostY_gamma`, signed τ, NO sign hypothesis: the τ-stored result denotes the boosted vector with its time
component replaced by its ABSOLUTE VALUE -/
theorem refine_lorentz_boostY_gamma_tau_abs_signed (k0 : Az) (k1 : Lon) (γ a b c d : ℝ)
    (h : TanOK k1 c) (hs : SinOK k1 c) (hd : CanonTmpS k0 k1 .tau a b c d) (hγ : 1 ≤ |γ|) :
    interp4S (lorentz_boostY_gamma.ret k0 k1 .tau) (lorentz_boostY_gamma.eval k0 k1 .tau γ a b c d)
      = some (absTime (boostY |γ| (P.copysign (sqrt (|γ| ^ 2 - 1)) γ) (cart4S k0 k1 .tau a b c d))) := by
  rw [lorentz_boostY_gamma_tau_eval_signed k0 k1 γ a b c d h hs hd, lorentz_boostY_gamma_ret_eq, interp4S_same]
  exact congrArg some (cart4S_boostY_abs k0 k1 _ _ a b c d (L.gam_gamma hγ).1 hd)

/-- C01 + C02 for `boostY_gamma`, signed τ: every key denotes the boost along y of the denotation; for a τ-stored
operand provided the boosted time component is `≥ 0` -/
theorem refine_lorentz_boostY_gamma_spec_signed (k0 : Az) (k1 : Lon) (k2 : Tmp) (γ a b c d : ℝ)
    (h : TanOK k1 c) (hs : SinOK k1 c) (hd : CanonTmpS k0 k1 k2 a b c d) (hγ : 1 ≤ |γ|)
    (h0 : k2 = .tau → 0 ≤ (boostY |γ| (P.copysign (sqrt (|γ| ^ 2 - 1)) γ) (cart4S k0 k1 k2 a b c d)).2.2.2) :
    interp4S (lorentz_boostY_gamma.ret k0 k1 k2) (lorentz_boostY_gamma.eval k0 k1 k2 γ a b c d)
      = some (boostY |γ| (P.copysign (sqrt (|γ| ^ 2 - 1)) γ) (cart4S k0 k1 k2 a b c d)) := by
  cases k2
  · have e := refine_lorentz_boostY_gamma_spec k0 k1 .t γ a b c d h hs trivial hγ
    rw [lorentz_boostY_gamma_ret_eq] at e ⊢
    rw [cart4S_t, ← e]; rfl
  · rw [lorentz_boostY_gamma_tau_eval_signed k0 k1 γ a b c d h hs hd, lorentz_boostY_gamma_ret_eq, interp4S_same]
    exact congrArg some (cart4S_boostY_signed k0 k1 _ _ a b c d (L.gam_gamma hγ).1 hd (h0 rfl))

/-! #### boostZ_beta -/

theorem lorentz_boostZ_beta_ret_eq (k0 : Az) (k1 : Lon) (k2 : Tmp) :
    lorentz_boostZ_beta.ret k0 k1 k2 = Ret.vec [RP.az k0, RP.lon .z, RP.tmp k2] := by
  cases k0 <;> cases k1 <;> cases k2 <;> rfl

set_option linter.unusedSimpArgs false in
/-- what the τ keys of `boostZ_beta` compute (signed τ, ANY parameter): the boosted z coordinate from
`(z, tOfS)`, the other spatial coordinates and the stored τ passed through -/
theorem lorentz_boostZ_beta_tau_eval_signed (k0 : Az) (k1 : Lon) (β a b c d : ℝ)
    (h : TanOK k1 c) (hs : SinOK k1 c) (hd : CanonTmpS k0 k1 .tau a b c d) :
    lorentz_boostZ_beta.eval k0 k1 .tau β a b c d
      = (a, b, (P.rpow (1 - β ^ 2) (-0.5)) * zOf k0 k1 a b c + (β * P.rpow (1 - β ^ 2) (-0.5)) * tOfS k0 k1 .tau a b c d, d) := by
  have hz := refine_spatial_z k0 k1 a b c h
  have ht := lorentz_t_eq_tOfS k0 k1 .tau a b c d hs hd
  cases k0 <;> cases k1 <;> simp only [spatial_z.eval, lorentz_t.eval] at hz ht <;>
    simp only [d_lorentz_boostZ_beta, hz, ht, conv_z_xy_z] <;>
    simp only [xOf, yOf, zOf]

/-- τ keys, ANY parameter: the spatial part is that of the boost along z of `(x, y, z, tOfS)` … -/
theorem refine_lorentz_boostZ_beta_tau_spatial_signed (k0 : Az) (k1 : Lon) (β a b c d : ℝ)
    (h : TanOK k1 c) (hs : SinOK k1 c) (hd : CanonTmpS k0 k1 .tau a b c d) :
    let r := lorentz_boostZ_beta.eval k0 k1 .tau β a b c d
    let r' := boostZ (P.rpow (1 - β ^ 2) (-0.5)) (β * P.rpow (1 - β ^ 2) (-0.5)) (cart4S k0 k1 .tau a b c d)
    interp3 (lorentz_boostZ_beta.ret k0 k1 .tau) (r.1, r.2.1, r.2.2.1) = some (r'.1, r'.2.1, r'.2.2.1) := by
  rw [lorentz_boostZ_beta_tau_eval_signed k0 k1 β a b c d h hs hd, lorentz_boostZ_beta_ret_eq]
  rfl

/-- … and the returned τ is the stored (signed) τ. -/
theorem refine_lorentz_boostZ_beta_tau_stored_signed (k0 : Az) (k1 : Lon) (β a b c d : ℝ) :
    (lorentz_boostZ_beta.eval k0 k1 .tau β a b c d).2.2.2 = d :=
  refine_lorentz_boostZ_beta_tau_stored k0 k1 β a b c d

/-- τ keys of `boostZ_beta`, signed τ, NO sign hypothesis: the τ-stored result denotes the boosted vector with its time
component replaced by its ABSOLUTE VALUE -/
theorem refine_lorentz_boostZ_beta_tau_abs_signed (k0 : Az) (k1 : Lon) (β a b c d : ℝ)
    (h : TanOK k1 c) (hs : SinOK k1 c) (hd : CanonTmpS k0 k1 .tau a b c d) (hβ : |β| < 1) :
    interp4S (lorentz_boostZ_beta.ret k0 k1 .tau) (lorentz_boostZ_beta.eval k0 k1 .tau β a b c d)
      = some (absTime (boostZ (P.rpow (1 - β ^ 2) (-0.5)) (β * P.rpow (1 - β ^ 2) (-0.5)) (cart4S k0 k1 .tau a b c d))) := by
  rw [lorentz_boostZ_beta_tau_eval_signed k0 k1 β a b c d h hs hd, lorentz_boostZ_beta_ret_eq, interp4S_same]
  exact congrArg some (cart4S_boostZ_abs k0 k1 _ _ a b c d (L.gam_beta hβ).1 hd)

/-- C01 + C02 for `boostZ_beta`, signed τ: every key denotes the boost along z of the denotation; for a τ-stored
operand provided the boosted time component is `≥ 0` -/
theorem refine_lorentz_boostZ_beta_spec_signed (k0 : Az) (k1 : Lon) (k2 : Tmp) (β a b c d : ℝ)
    (h : TanOK k1 c) (hs : SinOK k1 c) (hd : CanonTmpS k0 k1 k2 a b c d) (hβ : |β| < 1)
    (h0 : k2 = .tau → 0 ≤ (boostZ (P.rpow (1 - β ^ 2) (-0.5)) (β * P.rpow (1 - β ^ 2) (-0.5)) (cart4S k0 k1 k2 a b c d)).2.2.2) :
    interp4S (lorentz_boostZ_beta.ret k0 k1 k2) (lorentz_boostZ_beta.eval k0 k1 k2 β a b c d)
      = some (boostZ (P.rpow (1 - β ^ 2) (-0.5)) (β * P.rpow (1 - β ^ 2) (-0.5)) (cart4S k0 k1 k2 a b c d)) := by
  cases k2
  · have e := refine_lorentz_boostZ_beta_spec k0 k1 .t β a b c d h hs trivial hβ
    rw [lorentz_boostZ_beta_ret_eq] at e ⊢
    rw [cart4S_t, ← e]; rfl
  · rw [lorentz_boostZ_beta_tau_eval_signed k0 k1 β a b c d h hs hd, lorentz_boostZ_beta_ret_eq, interp4S_same]
    exact congrArg some (cart4S_boostZ_signed k0 k1 _ _ a b c d (L.gam_beta hβ).1 hd (h0 rfl))

/-! #### boostZ_gamma -/

theorem lorentz_boostZ_gamma_ret_eq (k0 : Az) (k1 : Lon) (k2 : Tmp) :
    lorentz_boostZ_gamma.ret k0 k1 k2 = Ret.vec [RP.az k0, RP.lon .z, RP.tmp k2] := by
  cases k0 <;> cases k1 <;> cases k2 <;> rfl

set_option linter.unusedSimpArgs false in
/-- what the τ keys of `boostZ_gamma` compute (signed τ, ANY parameter): the boosted z coordinate from
`(z, tOfS)`, the other spatial coordinates and the stored τ passed through -/
theorem lorentz_boostZ_gamma_tau_eval_signed (k0 : Az) (k1 : Lon) (γ a b c d : ℝ)
    (h : TanOK k1 c) (hs : SinOK k1 c) (hd : CanonTmpS k0 k1 .tau a b c d) :
    lorentz_boostZ_gamma.eval k0 k1 .tau γ a b c d
      = (a, b, |γ| * zOf k0 k1 a b c + (P.copysign (sqrt (|γ| ^ 2 - 1)) γ) * tOfS k0 k1 .tau a b c d, d) := by
  have hz := refine_spatial_z k0 k1 a b c h
  have ht := lorentz_t_eq_tOfS k0 k1 .tau a b c d hs hd
  cases k0 <;> cases k1 <;> simp only [spatial_z.eval, lorentz_t.eval] at hz ht <;>
    simp only [d_lorentz_boostZ_gamma, hz, ht, conv_z_xy_z] <;>
    simp only [xOf, yOf, zOf]

/-- τ keys, ANY parameter: the spatial part is that of the boost along z of `(x, y, z, tOfS)` … -/
theorem refine_lorentz_boostZ_gamma_tau_spatial_signed (k0 : Az) (k1 : Lon) (γ a b c d : ℝ)
    (h : TanOK k1 c) (hs : SinOK k1 c) (hd : CanonTmpS k0 k1 .tau a b c d) :
    let r := lorentz_boostZ_gamma.eval k0 k1 .tau γ a b c d
    let r' := boostZ |γ| (P.copysign (sqrt (|γ| ^ 2 - 1)) γ) (cart4S k0 k1 .tau a b c d)
    interp3 (lorentz_boostZ_gamma.ret k0 k1 .tau) (r.1, r.2.1, r.2.2.1) = some (r'.1, r'.2.1, r'.2.2.1) := by
  rw [lorentz_boostZ_gamma_tau_eval_signed k0 k1 γ a b c d h hs hd, lorentz_boostZ_gamma_ret_eq]
  rfl

/-- … and the returned τ is the stored (signed) τ. -/
theorem refine_lorentz_boostZ_gamma_tau_stored_signed (k0 : Az) (k1 : Lon) (γ a b c d : ℝ) :
    (lorentz_boostZ_gamma.eval k0 k1 .tau γ a b c d).2.2.2 = d :=
  refine_lorentz_boostZ_gamma_tau_stored k0 k1 γ a b c d

/-- τ keys of `boostZ_gamma`, signed τ, NO sign hypothesis: the τ-stored result denotes the boosted vector with its time
component replaced by its ABSOLUTE VALUE -/
theorem refine_lorentz_boostZ_gamma_tau_abs_signed (k0 : Az) (k1 : Lon) (γ a b c d : ℝ)
    (h : TanOK k1 c) (hs : SinOK k1 c) (hd : CanonTmpS k0 k1 .tau a b c d) (hγ : 1 ≤ |γ|) :
    interp4S (lorentz_boostZ_gamma.ret k0 k1 .tau) (lorentz_boostZ_gamma.eval k0 k1 .tau γ a b c d)
      = some (absTime (boostZ |γ| (P.copysign (sqrt (|γ| ^ 2 - 1)) γ) (cart4S k0 k1 .tau a b c d))) := by
  rw [lorentz_boostZ_gamma_tau_eval_signed k0 k1 γ a b c d h hs hd, lorentz_boostZ_gamma_ret_eq, interp4S_same]
  exact congrArg some (cart4S_boostZ_abs k0 k1 _ _ a b c d (L.gam_gamma hγ).1 hd)

/-- C01 + C02 for `boostZ_gamma`, signed τ: every key denotes the boost along z of the denotation; for a τ-stored
operand provided the boosted time component is `≥ 0` -/
theorem refine_lorentz_boostZ_gamma_spec_signed (k0 : Az) (k1 : Lon) (k2 : Tmp) (γ a b c d : ℝ)
    (h : TanOK k1 c) (hs : SinOK k1 c) (hd : CanonTmpS k0 k1 k2 a b c d) (hγ : 1 ≤ |γ|)
    (h0 : k2 = .tau → 0 ≤ (boostZ |γ| (P.copysign (sqrt (|γ| ^ 2 - 1)) γ) (cart4S k0 k1 k2 a b c d)).2.2.2) :
    interp4S (lorentz_boostZ_gamma.ret k0 k1 k2) (lorentz_boostZ_gamma.eval k0 k1 k2 γ a b c d)
      = some (boostZ |γ| (P.copysign (sqrt (|γ| ^ 2 - 1)) γ) (cart4S k0 k1 k2 a b c d)) := by
  cases k2
  · have e := refine_lorentz_boostZ_gamma_spec k0 k1 .t γ a b c d h hs trivial hγ
    rw [lorentz_boostZ_gamma_ret_eq] at e ⊢
    rw [cart4S_t, ← e]; rfl
  · rw [lorentz_boostZ_gamma_tau_eval_signed k0 k1 γ a b c d h hs hd, lorentz_boostZ_gamma_ret_eq, interp4S_same]
    exact congrArg some (cart4S_boostZ_signed k0 k1 _ _ a b c d (L.gam_gamma hγ).1 hd (h0 rfl))

/-! #### the hypotheses are satisfiable; the sign hypothesis is needed -/

private theorem gb_pos {β : ℝ} (h : |β| < 1) : 0 < P.rpow (1 - β ^ 2) (-0.5) := by
  have hb : β ^ 2 < 1 := by
    have := abs_nonneg β
    rw [← sq_abs]; nlinarith
  exact Real.rpow_pos_of_pos (by linarith) _

/-- the space-like τ-stored point `(3, 0, 0, τ = −2)` (`t = √5`) boosted along x, y, z with `β = 1/2`: `t' ≥ 0` -/
example : TanOK .z 0 ∧ SinOK .z 0 ∧ CanonTmpS .xy .z .tau 3 0 0 (-2) ∧ |(1 / 2 : ℝ)| < 1
    ∧ 0 ≤ (boostX (P.rpow (1 - (1 / 2 : ℝ) ^ 2) (-0.5)) ((1 / 2 : ℝ) * P.rpow (1 - (1 / 2 : ℝ) ^ 2) (-0.5))
        (cart4S .xy .z .tau 3 0 0 (-2))).2.2.2
    ∧ 0 ≤ (boostY (P.rpow (1 - (1 / 2 : ℝ) ^ 2) (-0.5)) ((1 / 2 : ℝ) * P.rpow (1 - (1 / 2 : ℝ) ^ 2) (-0.5))
        (cart4S .xy .z .tau 3 0 0 (-2))).2.2.2
    ∧ 0 ≤ (boostZ (P.rpow (1 - (1 / 2 : ℝ) ^ 2) (-0.5)) ((1 / 2 : ℝ) * P.rpow (1 - (1 / 2 : ℝ) ^ 2) (-0.5))
        (cart4S .xy .z .tau 3 0 0 (-2))).2.2.2 := by
  have hb : |(1 / 2 : ℝ)| < 1 := by rw [abs_of_pos] <;> norm_num
  have hg := gb_pos hb
  have ht := sqrt5_pos
  refine ⟨trivial, trivial, ex2_canon, hb, ?_, ?_, ?_⟩ <;>
    simp only [boostX, boostY, boostZ, cart4S, xOf, yOf, zOf, ex2_t] <;> positivity

/-- … and with `γ = −5/4` (a boost in the negative direction, `βγ = −3/4`): `t' = (5√5 − 9)/4 ≥ 0` along x -/
example : (1 : ℝ) ≤ |(-5 / 4)| ∧ 0 ≤ (boostX |(-5 / 4 : ℝ)| (P.copysign (sqrt (|(-5 / 4 : ℝ)| ^ 2 - 1)) (-5 / 4))
        (cart4S .xy .z .tau 3 0 0 (-2))).2.2.2 := by
  have h2 : |(-5 / 4 : ℝ)| = 5 / 4 := by rw [abs_of_neg] <;> norm_num
  refine ⟨by rw [h2]; norm_num, ?_⟩
  have hs : sqrt ((5 / 4 : ℝ) ^ 2 - 1) = 3 / 4 := by
    rw [show (5 / 4 : ℝ) ^ 2 - 1 = (3 / 4) ^ 2 by norm_num, sqrt_sq (by norm_num)]
  have hc : P.copysign (sqrt (|(-5 / 4 : ℝ)| ^ 2 - 1)) (-5 / 4) = -(3 / 4) := by
    unfold P.copysign
    rw [if_neg (by norm_num), h2, hs, abs_of_pos (by norm_num)]
  rw [hc, h2]
  simp only [boostX, cart4S, xOf, ex2_t]
  have p5 : (2 : ℝ) ≤ sqrt 5 := (le_sqrt' (by norm_num)).mpr (by norm_num)
  linarith

/-- the hypothesis "boosted time `≥ 0`" is needed: the space-like τ-stored point `(3, 0, 0, τ = −2)` (`t = √5`) boosted along
x with `β = −9/10` has `t' = γ(√5 − 2.7) < 0`; the τ-stored result `(x', 0, 0, τ = −2)` denotes `|t'|`, not `t'`. -/
theorem lorentz_boostX_beta_spacelike_negative_time :
    CanonTmpS .xy .z .tau 3 0 0 (-2) ∧ |(-9 / 10 : ℝ)| < 1 ∧
    interp4S (lorentz_boostX_beta.ret .xy .z .tau) (lorentz_boostX_beta.eval .xy .z .tau (-9 / 10) 3 0 0 (-2))
      ≠ some (boostX (P.rpow (1 - (-9 / 10 : ℝ) ^ 2) (-0.5)) ((-9 / 10 : ℝ) * P.rpow (1 - (-9 / 10 : ℝ) ^ 2) (-0.5))
          (cart4S .xy .z .tau 3 0 0 (-2))) := by
  have hb : |(-9 / 10 : ℝ)| < 1 := by rw [abs_of_neg] <;> norm_num
  refine ⟨ex2_canon, hb, ?_⟩
  rw [refine_lorentz_boostX_beta_tau_abs_signed .xy .z (-9 / 10) 3 0 0 (-2) trivial trivial ex2_canon hb]
  intro h
  have h4 := congrArg (fun v : ℝ × ℝ × ℝ × ℝ => v.2.2.2) (Option.some.inj h)
  simp only [absTime, boostX, cart4S, xOf, ex2_t] at h4
  have hg := gb_pos hb
  have h5 : sqrt 5 < 27 / 10 := by
    rw [sqrt_lt' (by norm_num)]; norm_num
  generalize P.rpow (1 - (-9 / 10 : ℝ) ^ 2) (-0.5) = g at h4 hg
  have hneg : -9 / 10 * g * 3 + g * sqrt 5 < 0 := by
    have : -9 / 10 * g * 3 + g * sqrt 5 = g * (sqrt 5 - 27 / 10) := by ring
    rw [this]; exact mul_neg_of_pos_of_neg hg (by linarith)
  have := abs_nonneg (-9 / 10 * g * 3 + g * sqrt 5)
  linarith

/-! ### (4) transform4D

Every key — also the τ keys — computes ALL FOUR components of the matrix product from `(x, y, z, lorentz_t(…))` and
declares a Cartesian-`t` result (the generated dispatcher does not use the `cartesian_tau` helper that would pass τ
through). So under the signed reading the result denotes the transformed denotation with no hypothesis on the matrix and
no sign condition. -/

theorem lorentz_transform4D_ret_eq (k0 : Az) (k1 : Lon) (k2 : Tmp) :
    lorentz_transform4D.ret k0 k1 k2 = Ret.vec [RP.az .xy, RP.lon .z, RP.tmp .t] := by
  cases k0 <;> cases k1 <;> cases k2 <;> rfl

set_option linter.unusedSimpArgs false in
set_option linter.unnecessarySeqFocus false in
/-- raw form: every key returns the tuple of the Cartesian-`t` key on `(x, y, z, tOfS)` -/
theorem lorentz_transform4D_eval_signed (k0 : Az) (k1 : Lon) (k2 : Tmp)
    (xx xy xz xt yx yy yz yt zx zy zz zt tx ty tz tt a b c d : ℝ)
    (h : TanOK k1 c) (hs : SinOK k1 c) (hd : CanonTmpS k0 k1 k2 a b c d) :
    lorentz_transform4D.eval k0 k1 k2 xx xy xz xt yx yy yz yt zx zy zz zt tx ty tz tt a b c d
      = transform4 xx xy xz xt yx yy yz yt zx zy zz zt tx ty tz tt (cart4S k0 k1 k2 a b c d) := by
  have hz := refine_spatial_z k0 k1 a b c h
  have ht := lorentz_t_eq_tOfS k0 k1 k2 a b c d hs hd
  cases k0 <;> cases k1 <;> cases k2 <;> simp only [spatial_z.eval, lorentz_t.eval] at hz ht <;>
    simp only [d_lorentz_transform4D, hz, ht, conv_x_rhophi, conv_y_rhophi, conv_x_xy, conv_y_xy, conv_z_xy_z,
      transform4, cart4S] <;>
    simp only [xOf, yOf, zOf, tOfS]

/-- C01 + C02 for `transform4D`, signed τ: every key denotes the matrix applied to the signed-τ denotation -/
theorem refine_lorentz_transform4D_signed (k0 : Az) (k1 : Lon) (k2 : Tmp)
    (xx xy xz xt yx yy yz yt zx zy zz zt tx ty tz tt a b c d : ℝ)
    (h : TanOK k1 c) (hs : SinOK k1 c) (hd : CanonTmpS k0 k1 k2 a b c d) :
    interp4S (lorentz_transform4D.ret k0 k1 k2)
        (lorentz_transform4D.eval k0 k1 k2 xx xy xz xt yx yy yz yt zx zy zz zt tx ty tz tt a b c d)
      = some (transform4 xx xy xz xt yx yy yz yt zx zy zz zt tx ty tz tt (cart4S k0 k1 k2 a b c d)) := by
  rw [lorentz_transform4D_eval_signed k0 k1 k2 _ _ _ _ _ _ _ _ _ _ _ _ _ _ _ _ a b c d h hs hd,
    lorentz_transform4D_ret_eq, interp4S_same]
  rfl

/-- the same through the unsigned `interp4` (the declared result is `t`-stored, for which both readings agree) -/
theorem refine_lorentz_transform4D_signed' (k0 : Az) (k1 : Lon) (k2 : Tmp)
    (xx xy xz xt yx yy yz yt zx zy zz zt tx ty tz tt a b c d : ℝ)
    (h : TanOK k1 c) (hs : SinOK k1 c) (hd : CanonTmpS k0 k1 k2 a b c d) :
    interp4 (lorentz_transform4D.ret k0 k1 k2)
        (lorentz_transform4D.eval k0 k1 k2 xx xy xz xt yx yy yz yt zx zy zz zt tx ty tz tt a b c d)
      = some (transform4 xx xy xz xt yx yy yz yt zx zy zz zt tx ty tz tt (cart4S k0 k1 k2 a b c d)) := by
  rw [lorentz_transform4D_eval_signed k0 k1 k2 _ _ _ _ _ _ _ _ _ _ _ _ _ _ _ _ a b c d h hs hd,
    lorentz_transform4D_ret_eq, interp4_same]
  rfl

example : TanOK .z 0 ∧ SinOK .z 0 ∧ CanonTmpS .xy .z .tau 3 0 0 (-2) := ⟨trivial, trivial, ex2_canon⟩

/-- in particular the boost matrix `γ = 5/3, βγ = −4/3` applied through `transform4D` to the space-like τ-stored point
`(3, 0, 0, τ = −2)` yields the NEGATIVE boosted time `t' = (5√5 − 12)/3` that the τ-passing `boostX_beta` cannot represent
(compare `lorentz_boostX_beta_spacelike_negative_time`) -/
example : (lorentz_transform4D.eval .xy .z .tau (5 / 3) 0 0 (-4 / 3) 0 1 0 0 0 0 1 0 (-4 / 3) 0 0 (5 / 3) 3 0 0 (-2)).2.2.2
      = (5 * sqrt 5 - 12) / 3
    ∧ (5 * sqrt 5 - 12) / 3 < 0 := by
  rw [lorentz_transform4D_eval_signed .xy .z .tau _ _ _ _ _ _ _ _ _ _ _ _ _ _ _ _ 3 0 0 (-2) trivial trivial ex2_canon]
  simp only [transform4, cart4S, xOf, yOf, zOf, ex2_t]
  have h5 : sqrt 5 < 12 / 5 := by
    rw [sqrt_lt' (by norm_num)]; norm_num
  constructor
  · ring
  · linarith

/-! ### (5) to_beta3, deltaRapidityPhi2, deltaRapidityPhi -/

/-- `to_beta3` is `p / t` of the signed-τ denotation for every key when `t ≠ 0`, EXCEPT that the variants storing
`(x, y, θ)` or `(x, y, η)` need `0 < t` (as in `refine_lorentz_to_beta3_ne_zero`) -/
theorem refine_lorentz_to_beta3_ne_zero_signed (k0 : Az) (k1 : Lon) (k2 : Tmp) (a b c d : ℝ)
    (h : CanonLon k0 k1 a b c) (hd : CanonTmpS k0 k1 k2 a b c d) (ht : tOfS k0 k1 k2 a b c d ≠ 0)
    (hpos : k0 = .xy → k1 = .z ∨ 0 < tOfS k0 k1 k2 a b c d) :
    interp3 (lorentz_to_beta3.ret k0 k1 k2) (lorentz_to_beta3.eval k0 k1 k2 a b c d)
      = some (xOf k0 a b / tOfS k0 k1 k2 a b c d, yOf k0 a b / tOfS k0 k1 k2 a b c d,
          zOf k0 k1 a b c / tOfS k0 k1 k2 a b c d) := by
  have e : lorentz_to_beta3.eval k0 k1 k2 a b c d
      = lorentz_to_beta3.eval k0 k1 .t a b c (lorentz_t.eval k0 k1 k2 a b c d) := by
    cases k0 <;> cases k1 <;> cases k2 <;> rfl
  have e' : lorentz_to_beta3.ret k0 k1 k2 = lorentz_to_beta3.ret k0 k1 .t := by
    cases k0 <;> cases k1 <;> cases k2 <;> rfl
  rw [e, e', lorentz_t_eq_tOfS k0 k1 k2 a b c d (Spec.SinOK_of_canonLon h) hd]
  have := refine_lorentz_to_beta3_ne_zero k0 k1 .t a b c (tOfS k0 k1 k2 a b c d) h trivial
    (by rw [tOf_t]; exact ht) (by rw [tOf_t]; exact hpos)
  rw [tOf_t] at this
  exact this

/-- `to_beta3` is `p / t` for every key when `0 < t` (signed τ) -/
theorem refine_lorentz_to_beta3_signed_partial (k0 : Az) (k1 : Lon) (k2 : Tmp) (a b c d : ℝ)
    (h : CanonLon k0 k1 a b c) (hd : CanonTmpS k0 k1 k2 a b c d) (ht : 0 < tOfS k0 k1 k2 a b c d) :
    interp3 (lorentz_to_beta3.ret k0 k1 k2) (lorentz_to_beta3.eval k0 k1 k2 a b c d)
      = some (xOf k0 a b / tOfS k0 k1 k2 a b c d, yOf k0 a b / tOfS k0 k1 k2 a b c d,
          zOf k0 k1 a b c / tOfS k0 k1 k2 a b c d) :=
  refine_lorentz_to_beta3_ne_zero_signed k0 k1 k2 a b c d h hd (ne_of_gt ht) (fun _ => Or.inr ht)

/-- τ keys of `to_beta3`: a τ-stored vector has `t ≥ 0`, so `t ≠ 0` is enough for every spatial key (signed τ) -/
theorem refine_lorentz_to_beta3_tau_signed (k0 : Az) (k1 : Lon) (a b c d : ℝ)
    (h : CanonLon k0 k1 a b c) (hd : CanonTmpS k0 k1 .tau a b c d) (ht : tOfS k0 k1 .tau a b c d ≠ 0) :
    interp3 (lorentz_to_beta3.ret k0 k1 .tau) (lorentz_to_beta3.eval k0 k1 .tau a b c d)
      = some (xOf k0 a b / tOfS k0 k1 .tau a b c d, yOf k0 a b / tOfS k0 k1 .tau a b c d,
          zOf k0 k1 a b c / tOfS k0 k1 .tau a b c d) :=
  refine_lorentz_to_beta3_signed_partial k0 k1 .tau a b c d h hd
    (lt_of_le_of_ne (tOfS_tau_nonneg k0 k1 a b c d) (Ne.symm ht))

/-- the space-like point `(3, 0, 0, τ = −2)`: `t = √5 ≠ 0`, `to_beta3 = (3/√5, 0, 0)` (superluminal) -/
example : CanonLon .xy .z 3 0 0 ∧ CanonTmpS .xy .z .tau 3 0 0 (-2) ∧ tOfS .xy .z .tau 3 0 0 (-2) ≠ 0 :=
  ⟨trivial, ex2_canon, by rw [ex2_t]; exact sqrt5_pos.ne'⟩

/-- `deltaRapidityPhi2 = Δφ² + (y₁ − y₂)²` with `y` the rapidity of the signed-τ denotations (`|z| < t`) -/
theorem refine_lorentz_deltaRapidityPhi2_signed (k0 : Az) (k1 : Lon) (k2 : Tmp) (k3 : Az) (k4 : Lon) (k5 : Tmp)
    (a0 a1 a2 a3 a4 a5 a6 a7 : ℝ)
    (h1 : TanOK k1 a2) (h2 : TanOK k4 a6) (hs1 : SinOK k1 a2) (hs2 : SinOK k4 a6)
    (hd1 : CanonTmpS k0 k1 k2 a0 a1 a2 a3) (hd2 : CanonTmpS k3 k4 k5 a4 a5 a6 a7)
    (hz1 : |zOf k0 k1 a0 a1 a2| < tOfS k0 k1 k2 a0 a1 a2 a3) (hz2 : |zOf k3 k4 a4 a5 a6| < tOfS k3 k4 k5 a4 a5 a6 a7) :
    lorentz_deltaRapidityPhi2.eval k0 k1 k2 k3 k4 k5 a0 a1 a2 a3 a4 a5 a6 a7
      = planar_deltaphi.eval k0 k3 a0 a1 a4 a5 ^ 2
        + (rapidityOf (cart4S k0 k1 k2 a0 a1 a2 a3) - rapidityOf (cart4S k3 k4 k5 a4 a5 a6 a7)) ^ 2 := by
  rw [lorentz_deltaRapidityPhi2_eval_eq, lorentz_rapidity_eq_signed k0 k1 k2 a0 a1 a2 a3 h1 hs1 hd1 hz1,
    lorentz_rapidity_eq_signed k3 k4 k5 a4 a5 a6 a7 h2 hs2 hd2 hz2]

theorem refine_lorentz_deltaRapidityPhi_signed (k0 : Az) (k1 : Lon) (k2 : Tmp) (k3 : Az) (k4 : Lon) (k5 : Tmp)
    (a0 a1 a2 a3 a4 a5 a6 a7 : ℝ)
    (h1 : TanOK k1 a2) (h2 : TanOK k4 a6) (hs1 : SinOK k1 a2) (hs2 : SinOK k4 a6)
    (hd1 : CanonTmpS k0 k1 k2 a0 a1 a2 a3) (hd2 : CanonTmpS k3 k4 k5 a4 a5 a6 a7)
    (hz1 : |zOf k0 k1 a0 a1 a2| < tOfS k0 k1 k2 a0 a1 a2 a3) (hz2 : |zOf k3 k4 a4 a5 a6| < tOfS k3 k4 k5 a4 a5 a6 a7) :
    lorentz_deltaRapidityPhi.eval k0 k1 k2 k3 k4 k5 a0 a1 a2 a3 a4 a5 a6 a7
      = sqrt (planar_deltaphi.eval k0 k3 a0 a1 a4 a5 ^ 2
        + (rapidityOf (cart4S k0 k1 k2 a0 a1 a2 a3) - rapidityOf (cart4S k3 k4 k5 a4 a5 a6 a7)) ^ 2) := by
  rw [lorentz_deltaRapidityPhi_eval_eq,
    refine_lorentz_deltaRapidityPhi2_signed k0 k1 k2 k3 k4 k5 a0 a1 a2 a3 a4 a5 a6 a7 h1 h2 hs1 hs2 hd1 hd2 hz1 hz2]

/-- two space-like τ-stored operands `(3, 0, 0, τ = −2)` and `(0, 3, 1, τ = −2)` (`t = √6 > 1 = |z|`) -/
example : CanonTmpS .xy .z .tau 3 0 0 (-2) ∧ CanonTmpS .xy .z .tau 0 3 1 (-2)
    ∧ |zOf .xy .z 3 0 0| < tOfS .xy .z .tau 3 0 0 (-2) ∧ |zOf .xy .z 0 3 1| < tOfS .xy .z .tau 0 3 1 (-2) := by
  have e : tau2S (-2) + mag2Of .xy .z 0 3 1 = 6 := by
    rw [tau2S_of_neg (by norm_num)]; norm_num [mag2Of, xOf, yOf, zOf]
  have hc : CanonTmpS .xy .z .tau 0 3 1 (-2) := by
    show 0 ≤ tau2S (-2) + mag2Of .xy .z 0 3 1
    rw [e]; norm_num
  refine ⟨ex2_canon, hc, ?_, ?_⟩
  · rw [ex2_t]; simp only [zOf, abs_zero]; exact sqrt5_pos
  · rw [tOfS_tau, e]; simp only [zOf, abs_one]
    rw [lt_sqrt (by norm_num)]; norm_num

/-! ### (6) equal / not_equal: soundness for signed-τ operands (144 keys)

Two τ-stored operands are compared on the STORED (signed) τ, a `t`- and a τ-stored one on `lorentz_t`, which is the
denoted time under `CanonTmpS`. -/

private theorem lorentz_equal_split' (k0 : Az) (k1 : Lon) (k2 : Tmp) (k3 : Az) (k4 : Lon) (k5 : Tmp)
    (a0 a1 a2 a3 a4 a5 a6 a7 : ℝ) (h : lorentz_equal.eval k0 k1 k2 k3 k4 k5 a0 a1 a2 a3 a4 a5 a6 a7) :
    (match k2, k5 with
      | .t, .t => a3 = a7
      | .tau, .tau => a3 = a7
      | _, _ => lorentz_t.eval k0 k1 k2 a0 a1 a2 a3 = lorentz_t.eval k3 k4 k5 a4 a5 a6 a7)
    ∧ spatial_equal.eval k0 k1 k3 k4 a0 a1 a2 a4 a5 a6 := by
  cases k0 <;> cases k1 <;> cases k2 <;> cases k3 <;> cases k4 <;> cases k5 <;> exact h

/-- `equal` is sound for all 144 key pairs under the signed-τ reading: operands that compare equal denote the same
4-vector -/
theorem refine_lorentz_equal_signed (k0 : Az) (k1 : Lon) (k2 : Tmp) (k3 : Az) (k4 : Lon) (k5 : Tmp)
    (a0 a1 a2 a3 a4 a5 a6 a7 : ℝ)
    (c1 : Canon3 k0 k1 a0 a1 a2) (c2 : Canon3 k3 k4 a4 a5 a6)
    (hd1 : CanonTmpS k0 k1 k2 a0 a1 a2 a3) (hd2 : CanonTmpS k3 k4 k5 a4 a5 a6 a7)
    (t1 : TanOK k1 a2) (t2 : TanOK k4 a6)
    (h : lorentz_equal.eval k0 k1 k2 k3 k4 k5 a0 a1 a2 a3 a4 a5 a6 a7) :
    cart4S k0 k1 k2 a0 a1 a2 a3 = cart4S k3 k4 k5 a4 a5 a6 a7 := by
  obtain ⟨ht, hsp⟩ := lorentz_equal_split' k0 k1 k2 k3 k4 k5 a0 a1 a2 a3 a4 a5 a6 a7 h
  have h3 := refine_spatial_equal k0 k1 k3 k4 a0 a1 a2 a4 a5 a6 c1 c2 t1 t2 hsp
  have hxyz := h3
  simp only [cart3, Prod.mk.injEq] at hxyz
  obtain ⟨hx, hy, hz⟩ := hxyz
  have s1 := Spec.SinOK_of_canonLon c1.2
  have s2 := Spec.SinOK_of_canonLon c2.2
  have e1 := lorentz_t_eq_tOfS k0 k1 k2 a0 a1 a2 a3 s1 hd1
  have e2 := lorentz_t_eq_tOfS k3 k4 k5 a4 a5 a6 a7 s2 hd2
  have hT : tOfS k0 k1 k2 a0 a1 a2 a3 = tOfS k3 k4 k5 a4 a5 a6 a7 := by
    cases k2 <;> cases k5 <;> simp only at ht
    · rw [tOfS_t, tOfS_t, ht]
    · rw [← e1, ← e2, ht]
    · rw [← e1, ← e2, ht]
    · rw [tOfS_tau, tOfS_tau, ht]
      simp only [mag2Of, hx, hy, hz]
  simp only [cart4S, hx, hy, hz, hT]

/-- operands denoting different 4-vectors (signed τ) are reported "not equal" -/
theorem refine_lorentz_not_equal_signed (k0 : Az) (k1 : Lon) (k2 : Tmp) (k3 : Az) (k4 : Lon) (k5 : Tmp)
    (a0 a1 a2 a3 a4 a5 a6 a7 : ℝ)
    (c1 : Canon3 k0 k1 a0 a1 a2) (c2 : Canon3 k3 k4 a4 a5 a6)
    (hd1 : CanonTmpS k0 k1 k2 a0 a1 a2 a3) (hd2 : CanonTmpS k3 k4 k5 a4 a5 a6 a7)
    (t1 : TanOK k1 a2) (t2 : TanOK k4 a6)
    (h : ¬ cart4S k0 k1 k2 a0 a1 a2 a3 = cart4S k3 k4 k5 a4 a5 a6 a7) :
    lorentz_not_equal.eval k0 k1 k2 k3 k4 k5 a0 a1 a2 a3 a4 a5 a6 a7 :=
  (c12_lorentz_ne_iff_not_eq k0 k1 k2 k3 k4 k5 a0 a1 a2 a3 a4 a5 a6 a7).mpr
    fun he => h (refine_lorentz_equal_signed k0 k1 k2 k3 k4 k5 a0 a1 a2 a3 a4 a5 a6 a7 c1 c2 hd1 hd2 t1 t2 he)

/-- under the signed reading the sign of the stored τ matters: `(3, 0, 0, τ = 2)` (time-like, `t = √13`) and
`(3, 0, 0, τ = −2)` (space-like, `t = √5`) denote different vectors, and are reported "not equal" -/
example : lorentz_not_equal.eval .xy .z .tau .xy .z .tau 3 0 0 2 3 0 0 (-2) := by
  have hc : CanonTmpS .xy .z .tau 3 0 0 2 := CanonTmpS_of_CanonTmp _ _ _ _ _ _ _ (show (0 : ℝ) ≤ 2 by norm_num)
  refine refine_lorentz_not_equal_signed .xy .z .tau .xy .z .tau 3 0 0 2 3 0 0 (-2) ⟨trivial, trivial⟩ ⟨trivial, trivial⟩
    hc ex2_canon trivial trivial ?_
  intro h
  have h4 := congrArg (fun v : ℝ × ℝ × ℝ × ℝ => v.2.2.2 ^ 2) h
  simp only [cart4S] at h4
  rw [tOfS_tau_sq _ _ _ _ _ _ hc, tOfS_tau_sq _ _ _ _ _ _ ex2_canon, tau2S_of_nonneg (by norm_num),
    tau2S_of_neg (by norm_num)] at h4
  norm_num at h4

/-- a space-like vector stored once with τ and once with `t` compares equal: `(3, 0, 0, τ = −2)` and `(3, 0, 0, t = √5)` -/
example : lorentz_equal.eval .xy .z .tau .xy .z .t 3 0 0 (-2) 3 0 0 (sqrt 5) := by
  have ht : lorentz_t.eval .xy .z .tau 3 0 0 (-2) = sqrt 5 := by
    rw [lorentz_t_eq_tOfS .xy .z .tau 3 0 0 (-2) trivial ex2_canon, ex2_t]
  have : lorentz_equal.eval .xy .z .tau .xy .z .t 3 0 0 (-2) 3 0 0 (sqrt 5)
      ↔ (lorentz_t.eval .xy .z .tau 3 0 0 (-2) = sqrt 5 ∧ spatial_equal.eval .xy .z .xy .z 3 0 0 3 0 0) := Iff.rfl
  rw [this, ht]
  refine ⟨rfl, ?_⟩
  simp [d_spatial_equal, d_planar_equal]

end VR
