/-
Refinement theorems for the Lorentz (4D) accessor modules
`t, t2, tau, tau2, beta, gamma, rapidity, Et, Et2, Mt, Mt2` and `to_beta3`:
for EVERY coordinate-system key the generated model computes the documented
quantity of the denotation `Spec.cart4` of the stored coordinates.
-/
import VectorModel.Spec.Basic
import VectorModel.Lemmas.Real
import VectorModel.Refine.Planar
import VectorModel.Refine.SpatialZ
import VectorModel.Gen.Real.spatial_mag2
import VectorModel.Gen.Real.spatial_mag
import VectorModel.Gen.Real.lorentz_t
import VectorModel.Gen.Real.lorentz_t2
import VectorModel.Gen.Real.lorentz_tau
import VectorModel.Gen.Real.lorentz_tau2
import VectorModel.Gen.Real.lorentz_beta
import VectorModel.Gen.Real.lorentz_gamma
import VectorModel.Gen.Real.lorentz_rapidity
import VectorModel.Gen.Real.lorentz_Et
import VectorModel.Gen.Real.lorentz_Et2
import VectorModel.Gen.Real.lorentz_Mt
import VectorModel.Gen.Real.lorentz_Mt2
import VectorModel.Gen.Real.lorentz_to_beta3
import Mathlib.Tactic.NormNum
import Mathlib.Tactic.Positivity

namespace VR
open VK Spec Real

/-! ### spatial facts needed below (local; `Refine/SpatialAcc.lean` is written independently) -/

private theorem rho2_eq (k : Az) (a b : ℝ) : xOf k a b ^ 2 + yOf k a b ^ 2 = rhoOf k a b ^ 2 := by
  cases k <;> simp only [xOf, yOf, rhoOf]
  · rw [L.sq_sqrt_sumsq]
  · linear_combination (a ^ 2) * (cos_sq_add_sin_sq b)

private theorem mag2Of_eq (k0 : Az) (k1 : Lon) (a b c : ℝ) :
    mag2Of k0 k1 a b c = rhoOf k0 a b ^ 2 + zOf k0 k1 a b c ^ 2 := by
  unfold mag2Of; rw [rho2_eq]

private theorem mag2Of_nonneg (k0 : Az) (k1 : Lon) (a b c : ℝ) : 0 ≤ mag2Of k0 k1 a b c := by
  unfold mag2Of; positivity

private theorem rhoOf_nonneg (k : Az) (a b : ℝ) (h : Canon2 k a b) : 0 ≤ rhoOf k a b := by
  cases k
  · exact sqrt_nonneg _
  · exact h

private theorem sin_ne_of_canon {c : ℝ} (h0 : 0 < c) (h1 : c < π) : sin c ≠ 0 :=
  ne_of_gt (sin_pos_of_pos_of_lt_pi h0 h1)

/-- `ρ²/sin²θ = ρ² + (ρ cot θ)²` -/
private theorem theta_id (r c : ℝ) (h : sin c ≠ 0) :
    r ^ 2 / sin c ^ 2 = r ^ 2 + (r * (cos c / sin c)) ^ 2 := by
  field_simp
  linear_combination (-(r ^ 2)) * (cos_sq_add_sin_sq c)

/-- the code's `1/sin θ` computed from η is `cosh η` -/
private theorem invsin_eq_cosh (c : ℝ) : (0.5 : ℝ) * (1 + exp (-c) ^ 2) / exp (-c) = cosh c := by
  rw [cosh_eq, exp_neg]
  have : exp c ≠ 0 := exp_ne_zero c
  field_simp
  ring

private theorem eta_id (r c : ℝ) : r ^ 2 * cosh c ^ 2 = r ^ 2 + (r * sinh c) ^ 2 := by
  rw [cosh_sq]; ring

private theorem mag2_eval (k0 : Az) (k1 : Lon) (a b c : ℝ) (h : CanonLon k0 k1 a b c) :
    spatial_mag2.eval k0 k1 a b c = mag2Of k0 k1 a b c := by
  rw [mag2Of_eq]
  cases k0 <;> cases k1 <;> simp only [d_spatial_mag2, zOf, rhoOf, invsin_eq_cosh, L.sq_sqrt_sumsq]
  · have e := theta_id (sqrt (a ^ 2 + b ^ 2)) c (sin_ne_of_canon h.2.1 h.2.2)
    rw [L.sq_sqrt_sumsq] at e; exact e
  · have e := eta_id (sqrt (a ^ 2 + b ^ 2)) c
    rw [L.sq_sqrt_sumsq] at e; exact e
  · exact theta_id _ _ (sin_ne_of_canon h.2.1 h.2.2)
  · exact eta_id _ _

private theorem mag_theta_id (r c : ℝ) (hr : 0 ≤ r) (hs : sin c ≠ 0) :
    r / |sin c| = sqrt (r ^ 2 + (r * (cos c / sin c)) ^ 2) := by
  rw [← theta_id r c hs]
  have e : r ^ 2 / sin c ^ 2 = (r / |sin c|) ^ 2 := by rw [div_pow, sq_abs]
  rw [e, sqrt_sq (div_nonneg hr (abs_nonneg _))]

private theorem mag_eta_id (r c : ℝ) (hr : 0 ≤ r) : r * cosh c = sqrt (r ^ 2 + (r * sinh c) ^ 2) := by
  rw [← eta_id r c]
  have e : r ^ 2 * cosh c ^ 2 = (r * cosh c) ^ 2 := by ring
  rw [e, sqrt_sq (mul_nonneg hr (le_of_lt (cosh_pos c)))]

private theorem mag_eval (k0 : Az) (k1 : Lon) (a b c : ℝ) (h : Canon3 k0 k1 a b c) :
    spatial_mag.eval k0 k1 a b c = sqrt (mag2Of k0 k1 a b c) := by
  have hr := rhoOf_nonneg k0 a b h.1
  have h2 := h.2
  rw [mag2Of_eq]
  cases k0 <;> cases k1 <;>
    simp only [d_spatial_mag, d_spatial_mag2, zOf, rhoOf, invsin_eq_cosh, L.sq_sqrt_sumsq] at hr ⊢
  · have e := mag_theta_id _ c hr (sin_ne_of_canon h2.2.1 h2.2.2)
    rw [L.sq_sqrt_sumsq] at e; exact e
  · have e := mag_eta_id _ c hr
    rw [L.sq_sqrt_sumsq] at e; exact e
  · exact mag_theta_id _ c hr (sin_ne_of_canon h2.2.1 h2.2.2)
  · exact mag_eta_id _ c hr

/-! ### t2, t, tau2, tau -/

/-- the code's `max(copysign(τ², τ) + |p|², 0)` is `τ² + |p|²` for representable `τ ≥ 0` -/
private theorem t2_core (d m : ℝ) (hd : 0 ≤ d) (hm : 0 ≤ m) :
    max (P.copysign (d ^ 2) d + m) 0 = d ^ 2 + m := by
  have : P.copysign (d ^ 2) d = d ^ 2 := by
    unfold P.copysign; rw [if_pos hd, abs_of_nonneg (sq_nonneg d)]
  rw [this]
  exact max_eq_left (by positivity)

private theorem tOf_tau_sq (k0 : Az) (k1 : Lon) (a b c d : ℝ) :
    tOf k0 k1 .tau a b c d ^ 2 = d ^ 2 + mag2Of k0 k1 a b c := by
  have := mag2Of_nonneg k0 k1 a b c
  cases k0 <;> cases k1 <;> exact sq_sqrt (by positivity)

/-- `t2` is the square of the time component. -/
theorem refine_lorentz_t2 (k0 : Az) (k1 : Lon) (k2 : Tmp) (a b c d : ℝ)
    (h : CanonLon k0 k1 a b c) (hd : CanonTmp k2 d) :
    lorentz_t2.eval k0 k1 k2 a b c d = tOf k0 k1 k2 a b c d ^ 2 := by
  cases k2
  · cases k0 <;> cases k1 <;> rfl
  · rw [tOf_tau_sq]
    have hm := mag2_eval k0 k1 a b c h
    have h0 := mag2Of_nonneg k0 k1 a b c
    cases k0 <;> cases k1 <;> simp only [spatial_mag2.eval] at hm <;>
      simp only [d_lorentz_t2, d_lorentz_tau2, hm] <;> exact t2_core _ _ hd h0

/-- `t` is the time component (`√(τ² + |p|²)` for τ storage with `τ ≥ 0`). -/
theorem refine_lorentz_t (k0 : Az) (k1 : Lon) (k2 : Tmp) (a b c d : ℝ)
    (h : CanonLon k0 k1 a b c) (hd : CanonTmp k2 d) :
    lorentz_t.eval k0 k1 k2 a b c d = tOf k0 k1 k2 a b c d := by
  cases k2
  · cases k0 <;> cases k1 <;> rfl
  · have e : lorentz_t.eval k0 k1 .tau a b c d = sqrt (lorentz_t2.eval k0 k1 .tau a b c d) := by
      cases k0 <;> cases k1 <;> rfl
    rw [e, refine_lorentz_t2 k0 k1 .tau a b c d h hd, tOf_tau_sq]
    cases k0 <;> cases k1 <;> rfl

/-- `tau2 = t² − |p|²` -/
theorem refine_lorentz_tau2 (k0 : Az) (k1 : Lon) (k2 : Tmp) (a b c d : ℝ)
    (h : CanonLon k0 k1 a b c) (hd : CanonTmp k2 d) :
    lorentz_tau2.eval k0 k1 k2 a b c d = tOf k0 k1 k2 a b c d ^ 2 - mag2Of k0 k1 a b c := by
  cases k2
  · have hm := mag2_eval k0 k1 a b c h
    cases k0 <;> cases k1 <;> simp only [spatial_mag2.eval] at hm <;>
      simp only [d_lorentz_tau2, hm, tOf]
  · rw [tOf_tau_sq]
    have e : lorentz_tau2.eval k0 k1 .tau a b c d = P.copysign (d ^ 2) d := by
      cases k0 <;> cases k1 <;> rfl
    have hd' : 0 ≤ d := hd
    rw [e]
    unfold P.copysign; rw [if_pos hd', abs_of_nonneg (sq_nonneg d)]; ring

private theorem copysign_sqrt_abs (s : ℝ) : P.copysign (sqrt |s|) s = Real.sign s * sqrt |s| := by
  unfold P.copysign
  rcases lt_trichotomy s 0 with hs | hs | hs
  · rw [if_neg (not_le.mpr hs), Real.sign_of_neg hs, abs_of_nonneg (sqrt_nonneg _)]; ring
  · subst hs; simp
  · rw [if_pos (le_of_lt hs), Real.sign_of_pos hs, abs_of_nonneg (sqrt_nonneg _)]; ring

/-- `tau = sign(s)·√|s|` with `s = t² − |p|²` (negative for space-like vectors) -/
theorem refine_lorentz_tau (k0 : Az) (k1 : Lon) (k2 : Tmp) (a b c d : ℝ)
    (h : CanonLon k0 k1 a b c) (hd : CanonTmp k2 d) :
    lorentz_tau.eval k0 k1 k2 a b c d
      = Real.sign (tOf k0 k1 k2 a b c d ^ 2 - mag2Of k0 k1 a b c)
        * sqrt |tOf k0 k1 k2 a b c d ^ 2 - mag2Of k0 k1 a b c| := by
  cases k2
  · have e : lorentz_tau.eval k0 k1 .t a b c d
        = P.copysign (sqrt |lorentz_tau2.eval k0 k1 .t a b c d|) (lorentz_tau2.eval k0 k1 .t a b c d) := by
      cases k0 <;> cases k1 <;> rfl
    rw [e, refine_lorentz_tau2 k0 k1 .t a b c d h hd, copysign_sqrt_abs]
  · have e : lorentz_tau.eval k0 k1 .tau a b c d = d := by cases k0 <;> cases k1 <;> rfl
    have hd' : 0 ≤ d := hd
    rw [e, tOf_tau_sq, add_sub_cancel_right, abs_of_nonneg (sq_nonneg d), sqrt_sq hd']
    rcases eq_or_lt_of_le hd' with h0 | h0
    · rw [← h0]; simp
    · rw [Real.sign_of_pos (by positivity)]; ring

/-- for τ storage, `tau` reads the stored coordinate back -/
theorem refine_lorentz_tau_of_tau (k0 : Az) (k1 : Lon) (a b c d : ℝ) :
    lorentz_tau.eval k0 k1 .tau a b c d = d := by
  cases k0 <;> cases k1 <;> rfl

/-- for time-like vectors, `tau = √(t² − |p|²)` -/
theorem refine_lorentz_tau_pos (k0 : Az) (k1 : Lon) (k2 : Tmp) (a b c d : ℝ)
    (h : CanonLon k0 k1 a b c) (hd : CanonTmp k2 d)
    (hs : 0 < tOf k0 k1 k2 a b c d ^ 2 - mag2Of k0 k1 a b c) :
    lorentz_tau.eval k0 k1 k2 a b c d = sqrt (tOf k0 k1 k2 a b c d ^ 2 - mag2Of k0 k1 a b c) := by
  rw [refine_lorentz_tau k0 k1 k2 a b c d h hd, Real.sign_of_pos hs, abs_of_pos hs, one_mul]

example : CanonLon .xy .theta 1 0 1 ∧ CanonTmp .tau 2 := by
  refine ⟨⟨?_, by norm_num, ?_⟩, ?_⟩
  · show 0 < sqrt ((1 : ℝ) ^ 2 + 0 ^ 2); norm_num
  · linarith [Real.one_le_pi_div_two]
  · show (0 : ℝ) ≤ 2; norm_num

/-! ### beta, gamma, rapidity -/

/-- `beta = |p| / t` -/
theorem refine_lorentz_beta (k0 : Az) (k1 : Lon) (k2 : Tmp) (a b c d : ℝ)
    (h : Canon3 k0 k1 a b c) (hd : CanonTmp k2 d) (_ht : tOf k0 k1 k2 a b c d ≠ 0) :
    lorentz_beta.eval k0 k1 k2 a b c d = sqrt (mag2Of k0 k1 a b c) / tOf k0 k1 k2 a b c d := by
  have e : lorentz_beta.eval k0 k1 k2 a b c d
      = spatial_mag.eval k0 k1 a b c / lorentz_t.eval k0 k1 k2 a b c d := by
    cases k0 <;> cases k1 <;> cases k2 <;> rfl
  rw [e, mag_eval k0 k1 a b c h, refine_lorentz_t k0 k1 k2 a b c d h.2 hd]

/-- `gamma = t / tau` for time-like vectors -/
theorem refine_lorentz_gamma (k0 : Az) (k1 : Lon) (k2 : Tmp) (a b c d : ℝ)
    (h : CanonLon k0 k1 a b c) (hd : CanonTmp k2 d)
    (hs : 0 < tOf k0 k1 k2 a b c d ^ 2 - mag2Of k0 k1 a b c) :
    lorentz_gamma.eval k0 k1 k2 a b c d
      = tOf k0 k1 k2 a b c d / sqrt (tOf k0 k1 k2 a b c d ^ 2 - mag2Of k0 k1 a b c) := by
  have e : lorentz_gamma.eval k0 k1 k2 a b c d
      = lorentz_t.eval k0 k1 k2 a b c d / lorentz_tau.eval k0 k1 k2 a b c d := by
    cases k0 <;> cases k1 <;> cases k2 <;> rfl
  rw [e, refine_lorentz_t k0 k1 k2 a b c d h hd, refine_lorentz_tau_pos k0 k1 k2 a b c d h hd hs]

/-- `rapidity = ½ log((t + z)/(t − z))` for `|z| < t` -/
theorem refine_lorentz_rapidity (k0 : Az) (k1 : Lon) (k2 : Tmp) (a b c d : ℝ)
    (h : CanonLon k0 k1 a b c) (htan : TanOK k1 c) (hd : CanonTmp k2 d)
    (_hz : |zOf k0 k1 a b c| < tOf k0 k1 k2 a b c d) :
    lorentz_rapidity.eval k0 k1 k2 a b c d
      = 1 / 2 * Real.log ((tOf k0 k1 k2 a b c d + zOf k0 k1 a b c) / (tOf k0 k1 k2 a b c d - zOf k0 k1 a b c)) := by
  have e : lorentz_rapidity.eval k0 k1 k2 a b c d
      = 0.5 * Real.log ((lorentz_t.eval k0 k1 k2 a b c d + spatial_z.eval k0 k1 a b c)
          / (lorentz_t.eval k0 k1 k2 a b c d - spatial_z.eval k0 k1 a b c)) := by
    cases k0 <;> cases k1 <;> cases k2 <;> rfl
  rw [e, refine_lorentz_t k0 k1 k2 a b c d h hd, refine_spatial_z k0 k1 a b c htan]
  norm_num

example : Canon3 .rhophi .eta 1 0 0 ∧ CanonTmp .t 2 ∧ tOf .rhophi .eta .t 1 0 0 2 ≠ 0
    ∧ 0 < tOf .rhophi .eta .t 1 0 0 2 ^ 2 - mag2Of .rhophi .eta 1 0 0
    ∧ |zOf .rhophi .eta 1 0 0| < tOf .rhophi .eta .t 1 0 0 2 := by
  simp [Canon3, Canon2, CanonLon, CanonTmp, tOf, mag2Of, xOf, yOf, zOf, rhoOf]

/-! ### Et2, Et -/

private theorem sech_eq (c : ℝ) : 2 / (exp (-c) + 1 / exp (-c)) = 1 / cosh c := by
  rw [cosh_eq, exp_neg]
  have : exp c ≠ 0 := exp_ne_zero c
  have : 0 < exp c + (exp c)⁻¹ := by positivity
  field_simp
  ring

private theorem Et2_theta_id (r c t : ℝ) (hr : 0 < r) (hs : sin c ≠ 0) :
    (t * sin c) ^ 2 = t ^ 2 * r ^ 2 / (r ^ 2 + (r * (cos c / sin c)) ^ 2) := by
  rw [← theta_id r c hs]
  have := ne_of_gt hr
  field_simp

private theorem Et2_eta_id (r c t : ℝ) (hr : 0 < r) :
    (t * (1 / cosh c)) ^ 2 = t ^ 2 * r ^ 2 / (r ^ 2 + (r * sinh c) ^ 2) := by
  rw [← eta_id r c]
  have := ne_of_gt hr
  have := ne_of_gt (cosh_pos c)
  field_simp

private theorem Et2_core (k0 : Az) (k1 : Lon) (a b c t : ℝ)
    (h : CanonLon k0 k1 a b c) (hm : 0 < mag2Of k0 k1 a b c) :
    lorentz_Et2.eval k0 k1 .t a b c t = t ^ 2 * rhoOf k0 a b ^ 2 / mag2Of k0 k1 a b c := by
  rw [mag2Of_eq] at hm ⊢
  cases k0 <;> cases k1 <;>
    simp only [d_lorentz_Et2, zOf, rhoOf, sech_eq, L.sq_sqrt_sumsq] at hm ⊢
  · have e := Et2_theta_id (sqrt (a ^ 2 + b ^ 2)) c t h.1 (sin_ne_of_canon h.2.1 h.2.2)
    rw [L.sq_sqrt_sumsq] at e; exact e
  · have e := Et2_eta_id (sqrt (a ^ 2 + b ^ 2)) c t h
    rw [L.sq_sqrt_sumsq] at e; exact e
  · exact Et2_theta_id _ c t h.1 (sin_ne_of_canon h.2.1 h.2.2)
  · exact Et2_eta_id _ c t h

/-- `Et2 = t² ρ² / |p|²` -/
theorem refine_lorentz_Et2 (k0 : Az) (k1 : Lon) (k2 : Tmp) (a b c d : ℝ)
    (h : CanonLon k0 k1 a b c) (hd : CanonTmp k2 d) (hm : 0 < mag2Of k0 k1 a b c) :
    lorentz_Et2.eval k0 k1 k2 a b c d
      = tOf k0 k1 k2 a b c d ^ 2 * rhoOf k0 a b ^ 2 / mag2Of k0 k1 a b c := by
  have e : lorentz_Et2.eval k0 k1 k2 a b c d
      = lorentz_Et2.eval k0 k1 .t a b c (lorentz_t.eval k0 k1 k2 a b c d) := by
    cases k0 <;> cases k1 <;> cases k2 <;> rfl
  rw [e, refine_lorentz_t k0 k1 k2 a b c d h hd, Et2_core k0 k1 a b c _ h hm]

private theorem Et_sqrt_Et2 (k0 : Az) (k1 : Lon) (a b c t : ℝ)
    (h : Canon3 k0 k1 a b c) (ht : 0 ≤ t) :
    lorentz_Et.eval k0 k1 .t a b c t = sqrt (lorentz_Et2.eval k0 k1 .t a b c t) := by
  have hr := rhoOf_nonneg k0 a b h.1
  have h2 := h.2
  cases k0 <;> cases k1 <;>
    simp only [d_lorentz_Et, d_lorentz_Et2, sech_eq, rhoOf] at hr h2 ⊢
  · exact (sqrt_sq (mul_nonneg ht (sin_pos_of_pos_of_lt_pi h2.2.1 h2.2.2).le)).symm
  · exact (sqrt_sq (mul_nonneg ht (by have := cosh_pos c; positivity))).symm
  · rw [sqrt_div' _ (by positivity), show t ^ 2 * a ^ 2 = (t * a) ^ 2 by ring, sqrt_sq (mul_nonneg ht hr)]
  · exact (sqrt_sq (mul_nonneg ht (sin_pos_of_pos_of_lt_pi h2.2.1 h2.2.2).le)).symm
  · exact (sqrt_sq (mul_nonneg ht (by have := cosh_pos c; positivity))).symm

/-- `Et = √Et2 = t ρ / |p|`, for `t ≥ 0` (for `t < 0` the variants disagree with each other, see
`lorentz_Et_neg_t_key_dependent`) -/
theorem refine_lorentz_Et (k0 : Az) (k1 : Lon) (k2 : Tmp) (a b c d : ℝ)
    (h : Canon3 k0 k1 a b c) (hd : CanonTmp k2 d) (hm : 0 < mag2Of k0 k1 a b c)
    (ht : 0 ≤ tOf k0 k1 k2 a b c d) :
    lorentz_Et.eval k0 k1 k2 a b c d
      = sqrt (tOf k0 k1 k2 a b c d ^ 2 * rhoOf k0 a b ^ 2 / mag2Of k0 k1 a b c) := by
  have e : lorentz_Et.eval k0 k1 k2 a b c d
      = lorentz_Et.eval k0 k1 .t a b c (lorentz_t.eval k0 k1 k2 a b c d) := by
    cases k0 <;> cases k1 <;> cases k2 <;> rfl
  rw [e, refine_lorentz_t k0 k1 k2 a b c d h.2 hd, Et_sqrt_Et2 k0 k1 a b c _ h ht,
    Et2_core k0 k1 a b c _ h.2 hm]

example : Canon3 .rhophi .z 1 0 0 ∧ CanonTmp .t 2 ∧ 0 < mag2Of .rhophi .z 1 0 0
    ∧ 0 ≤ tOf .rhophi .z .t 1 0 0 2 := by
  simp [Canon3, Canon2, CanonLon, CanonTmp, tOf, mag2Of, xOf, yOf, zOf]

/-! ### Mt2, Mt -/

/-- `Mt2 = t² − z²` -/
theorem refine_lorentz_Mt2 (k0 : Az) (k1 : Lon) (k2 : Tmp) (a b c d : ℝ)
    (htan : TanOK k1 c) (hd : CanonTmp k2 d) :
    lorentz_Mt2.eval k0 k1 k2 a b c d = tOf k0 k1 k2 a b c d ^ 2 - zOf k0 k1 a b c ^ 2 := by
  cases k2
  · have e : lorentz_Mt2.eval k0 k1 .t a b c d = d ^ 2 - spatial_z.eval k0 k1 a b c ^ 2 := by
      cases k0 <;> cases k1 <;> rfl
    rw [e, refine_spatial_z k0 k1 a b c htan]
    cases k0 <;> cases k1 <;> rfl
  · rw [tOf_tau_sq, mag2Of_eq]
    have hd' : 0 ≤ d := hd
    cases k0 <;> cases k1 <;>
      simp only [d_lorentz_Mt2, d_lorentz_tau2, rhoOf, L.sq_sqrt_sumsq] <;>
      (try rw [add_assoc (P.copysign (d ^ 2) d)]) <;>
      rw [t2_core _ _ hd' (by positivity)] <;> ring

/-- `Mt = √(t² − z²)` -/
theorem refine_lorentz_Mt (k0 : Az) (k1 : Lon) (k2 : Tmp) (a b c d : ℝ)
    (htan : TanOK k1 c) (hd : CanonTmp k2 d)
    (_hs : 0 ≤ tOf k0 k1 k2 a b c d ^ 2 - zOf k0 k1 a b c ^ 2) :
    lorentz_Mt.eval k0 k1 k2 a b c d = sqrt (tOf k0 k1 k2 a b c d ^ 2 - zOf k0 k1 a b c ^ 2) := by
  have e : lorentz_Mt.eval k0 k1 k2 a b c d = sqrt (lorentz_Mt2.eval k0 k1 k2 a b c d) := by
    cases k0 <;> cases k1 <;> cases k2 <;> rfl
  rw [e, refine_lorentz_Mt2 k0 k1 k2 a b c d htan hd]

example : TanOK .theta 1 ∧ CanonTmp .tau 1
    ∧ 0 ≤ tOf .xy .z .tau 1 0 0 1 ^ 2 - zOf .xy .z 1 0 0 ^ 2 := by
  refine ⟨ne_of_gt cos_one_pos, by show (0 : ℝ) ≤ 1; norm_num, ?_⟩
  rw [tOf_tau_sq]; simp [mag2Of, xOf, yOf, zOf]

/-! ### to_beta3 -/

private theorem sqrt_div_pos (a b t : ℝ) (ht : 0 < t) :
    sqrt ((a / t) ^ 2 + (b / t) ^ 2) = sqrt (a ^ 2 + b ^ 2) / t := by
  have e : (a / t) ^ 2 + (b / t) ^ 2 = (a ^ 2 + b ^ 2) / t ^ 2 := by field_simp
  rw [e, sqrt_div' _ (by positivity), sqrt_sq ht.le]

private theorem to_beta3_core (k0 : Az) (k1 : Lon) (a b c t : ℝ)
    (hpos : k0 = .xy → k1 = .z ∨ 0 < t) :
    interp3 (lorentz_to_beta3.ret k0 k1 .t) (lorentz_to_beta3.eval k0 k1 .t a b c t)
      = some (xOf k0 a b / t, yOf k0 a b / t, zOf k0 k1 a b c / t) := by
  cases k0 <;> cases k1 <;>
    simp only [d_lorentz_to_beta3, interp3, retAz, retLon, cart3, xOf, yOf, zOf, rhoOf,
      Option.some.injEq, Prod.mk.injEq]
  · have ht : 0 < t := by
      rcases hpos rfl with h | h
      · exact absurd h (by decide)
      · exact h
    rw [sqrt_div_pos a b t ht]
    exact ⟨trivial, trivial, by ring⟩
  · have ht : 0 < t := by
      rcases hpos rfl with h | h
      · exact absurd h (by decide)
      · exact h
    rw [sqrt_div_pos a b t ht]
    exact ⟨trivial, trivial, by ring⟩
  · exact ⟨by ring, by ring, trivial⟩
  · exact ⟨by ring, by ring, by ring⟩
  · exact ⟨by ring, by ring, by ring⟩

/-- `to_beta3` is `p / t` for every key when `t ≠ 0`, EXCEPT that the variants storing `(x, y, θ)` or `(x, y, η)`
need `0 < t`: they divide `x, y` by `t` but keep θ/η (see `lorentz_to_beta3_neg_t_fails`). -/
theorem refine_lorentz_to_beta3_ne_zero (k0 : Az) (k1 : Lon) (k2 : Tmp) (a b c d : ℝ)
    (h : CanonLon k0 k1 a b c) (hd : CanonTmp k2 d) (_ht : tOf k0 k1 k2 a b c d ≠ 0)
    (hpos : k0 = .xy → k1 = .z ∨ 0 < tOf k0 k1 k2 a b c d) :
    interp3 (lorentz_to_beta3.ret k0 k1 k2) (lorentz_to_beta3.eval k0 k1 k2 a b c d)
      = some (xOf k0 a b / tOf k0 k1 k2 a b c d, yOf k0 a b / tOf k0 k1 k2 a b c d,
          zOf k0 k1 a b c / tOf k0 k1 k2 a b c d) := by
  have e : lorentz_to_beta3.eval k0 k1 k2 a b c d
      = lorentz_to_beta3.eval k0 k1 .t a b c (lorentz_t.eval k0 k1 k2 a b c d) := by
    cases k0 <;> cases k1 <;> cases k2 <;> rfl
  have e' : lorentz_to_beta3.ret k0 k1 k2 = lorentz_to_beta3.ret k0 k1 .t := by
    cases k0 <;> cases k1 <;> cases k2 <;> rfl
  rw [e, e', refine_lorentz_t k0 k1 k2 a b c d h hd]
  exact to_beta3_core k0 k1 a b c _ hpos

/-- `to_beta3` is `p / t` for every key when `0 < t` (the property text grants only `t ≠ 0`). -/
theorem refine_lorentz_to_beta3_partial (k0 : Az) (k1 : Lon) (k2 : Tmp) (a b c d : ℝ)
    (h : CanonLon k0 k1 a b c) (hd : CanonTmp k2 d) (ht : 0 < tOf k0 k1 k2 a b c d) :
    interp3 (lorentz_to_beta3.ret k0 k1 k2) (lorentz_to_beta3.eval k0 k1 k2 a b c d)
      = some (xOf k0 a b / tOf k0 k1 k2 a b c d, yOf k0 a b / tOf k0 k1 k2 a b c d,
          zOf k0 k1 a b c / tOf k0 k1 k2 a b c d) :=
  refine_lorentz_to_beta3_ne_zero k0 k1 k2 a b c d h hd (ne_of_gt ht) (fun _ => Or.inr ht)

example : CanonLon .xy .eta 1 0 1 ∧ CanonTmp .t 2 ∧ 0 < tOf .xy .eta .t 1 0 1 2 := by
  simp [CanonLon, CanonTmp, rhoOf, tOf]

end VR
