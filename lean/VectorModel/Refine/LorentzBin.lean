/-
Refinement theorems for the binary / transforming Lorentz (4D) compute modules
(theorem prefix `refine_lorentz_`):

* boosts (`boostX/Y/Z_beta`, `boostX/Y/Z_gamma`, `boost_beta3`, `boost_p4`) and `transform4D` — C01: the value
  computed under EVERY coordinate-system key denotes the same Cartesian 4-vector as the Cartesian-`t` variant
  applied to the denotations of the operands;
* `dot`, `scale`, `add`, `subtract`, `unit` — C01 + C02: the value denotes `Spec.mdot / smul4 / add4 / sub4 / …`
  of the denotations.

Hypotheses: `TanOK` (the code divides by `tan θ`), `SinOK` (the code divides by `sin² θ` when it needs `|p|²` of a
θ-stored vector, i.e. for τ-stored time), `CanonTmp` (`0 ≤ τ`), and for the τ-keys of the boosts a physical boost
parameter (`|β| < 1`, `1 ≤ |γ|`): the τ-variants return the STORED τ, which denotes the boosted time component only
because a Lorentz boost preserves the invariant mass.
-/
import VectorModel.Spec.Basic
import VectorModel.Spec.LorentzBin
import VectorModel.Lemmas.Real
import VectorModel.Refine.Planar
import VectorModel.Refine.SpatialZ
import VectorModel.Refine.SpatialAcc
import VectorModel.Refine.SpatialBin
import VectorModel.Gen.Real.lorentz_t
import VectorModel.Gen.Real.lorentz_tau
import VectorModel.Gen.Real.lorentz_rapidity
import VectorModel.Gen.Real.lorentz_boostX_beta
import VectorModel.Gen.Real.lorentz_boostY_beta
import VectorModel.Gen.Real.lorentz_boostZ_beta
import VectorModel.Gen.Real.lorentz_boostX_gamma
import VectorModel.Gen.Real.lorentz_boostY_gamma
import VectorModel.Gen.Real.lorentz_boostZ_gamma
import VectorModel.Gen.Real.lorentz_transform4D
import VectorModel.Gen.Real.lorentz_boost_beta3
import VectorModel.Gen.Real.lorentz_boost_p4
import VectorModel.Gen.Real.lorentz_dot
import VectorModel.Gen.Real.lorentz_scale
import VectorModel.Gen.Real.lorentz_add
import VectorModel.Gen.Real.lorentz_subtract
import VectorModel.Gen.Real.lorentz_unit
import VectorModel.Gen.Real.lorentz_deltaRapidityPhi
import VectorModel.Gen.Real.lorentz_deltaRapidityPhi2
import Mathlib.Tactic.NormNum

namespace VR
open VK Spec Real

/-! ### auxiliary real identities -/

namespace L

/-- a boost with `γ² − (βγ)² = 1`, `|βγ| ≤ γ` maps the time component `T = √(s + u²)` to `βγ·u + γ·T ≥ 0`, and the
invariant `T² − u²` is preserved -/
theorem boost_time_core (g bg u T s : ℝ) (hg : g ^ 2 - bg ^ 2 = 1) (hg0 : |bg| ≤ g)
    (hT0 : 0 ≤ T) (hT : T ^ 2 = s + u ^ 2) (hs : 0 ≤ s) :
    sqrt (s + (g * u + bg * T) ^ 2) = bg * u + g * T := by
  have hu : |u| ≤ T := by
    apply abs_le_of_sq_le_sq _ hT0
    rw [hT]; linarith
  have h1 : |bg * u| ≤ g * T := by
    rw [abs_mul]; exact mul_le_mul hg0 hu (abs_nonneg _) (le_trans (abs_nonneg _) hg0)
  have h2 : 0 ≤ bg * u + g * T := by linarith [neg_abs_le (bg * u)]
  rw [sqrt_eq_iff_mul_self_eq (by positivity) h2]
  linear_combination (-(T ^ 2 - u ^ 2)) * hg - hT

/-- the code's `γ = (1 − β²) ** −0.5`, `βγ = β·γ` for `|β| < 1` -/
theorem gam_beta {β : ℝ} (h : |β| < 1) :
    (P.rpow (1 - β ^ 2) (-0.5)) ^ 2 - (β * P.rpow (1 - β ^ 2) (-0.5)) ^ 2 = 1
      ∧ |β * P.rpow (1 - β ^ 2) (-0.5)| ≤ P.rpow (1 - β ^ 2) (-0.5) := by
  have hb : β ^ 2 < 1 := by
    have := abs_nonneg β
    rw [← sq_abs]; nlinarith
  have hpos : 0 < 1 - β ^ 2 := by linarith
  set g := P.rpow (1 - β ^ 2) (-0.5) with hgdef
  have hg0 : 0 < g := Real.rpow_pos_of_pos hpos _
  have hg2 : g ^ 2 = (1 - β ^ 2)⁻¹ := by
    rw [hgdef]; unfold P.rpow
    show ((1 - β ^ 2) ^ (-0.5 : ℝ)) ^ 2 = _
    rw [← Real.rpow_natCast, ← Real.rpow_mul hpos.le]
    norm_num
    exact Real.rpow_neg_one _
  constructor
  · rw [mul_pow, hg2]; field_simp
  · rw [abs_mul, abs_of_pos hg0]
    nlinarith [abs_nonneg β]

/-- the code's `γ = |gamma|`, `βγ = copysign(√(γ² − 1), gamma)` for `1 ≤ |gamma|` -/
theorem gam_gamma {γ : ℝ} (h : 1 ≤ |γ|) :
    |γ| ^ 2 - (P.copysign (sqrt (|γ| ^ 2 - 1)) γ) ^ 2 = 1
      ∧ |P.copysign (sqrt (|γ| ^ 2 - 1)) γ| ≤ |γ| := by
  have h1 : 0 ≤ |γ| ^ 2 - 1 := by nlinarith
  have hc : |P.copysign (sqrt (|γ| ^ 2 - 1)) γ| = sqrt (|γ| ^ 2 - 1) := by
    unfold P.copysign; split_ifs
    · rw [abs_abs, abs_of_nonneg (sqrt_nonneg _)]
    · rw [abs_neg, abs_abs, abs_of_nonneg (sqrt_nonneg _)]
  constructor
  · rw [← sq_abs (P.copysign _ _), hc, sq_sqrt h1]; ring
  · rw [hc]; apply sqrt_le_iff.mpr; constructor
    · exact abs_nonneg _
    · linarith

/-- general boost with four-velocity `(u, G)`, `G² = 1 + |u|²`: the time component `T = √(s + |p|²)` is mapped to
`u·p + G·T ≥ 0` and the invariant `T² − |p|²` is preserved -/
theorem boostU_time (G ux uy uz x y z T s : ℝ) (hG : G ^ 2 = 1 + (ux ^ 2 + uy ^ 2 + uz ^ 2)) (hG0 : 0 < G)
    (hT0 : 0 ≤ T) (hT : T ^ 2 = s + (x ^ 2 + y ^ 2 + z ^ 2)) (hs : 0 ≤ s) :
    sqrt (s + ((x + ((ux * x + uy * y + uz * z) / (G + 1) + T) * ux) ^ 2
      + (y + ((ux * x + uy * y + uz * z) / (G + 1) + T) * uy) ^ 2
      + (z + ((ux * x + uy * y + uz * z) / (G + 1) + T) * uz) ^ 2)) = (ux * x + uy * y + uz * z) + G * T := by
  have hG1 : G + 1 ≠ 0 := by positivity
  have hcs : (ux * x + uy * y + uz * z) ^ 2 ≤ (G * T) ^ 2 := by
    have h1 : (ux * x + uy * y + uz * z) ^ 2 ≤ (ux ^ 2 + uy ^ 2 + uz ^ 2) * (x ^ 2 + y ^ 2 + z ^ 2) := by
      nlinarith [sq_nonneg (ux * y - uy * x), sq_nonneg (ux * z - uz * x), sq_nonneg (uy * z - uz * y)]
    have h2 : (ux ^ 2 + uy ^ 2 + uz ^ 2) * (x ^ 2 + y ^ 2 + z ^ 2) ≤ G ^ 2 * T ^ 2 := by
      have : x ^ 2 + y ^ 2 + z ^ 2 ≤ T ^ 2 := by linarith
      have hu : 0 ≤ ux ^ 2 + uy ^ 2 + uz ^ 2 := by positivity
      have hT2 : 0 ≤ T ^ 2 := by positivity
      nlinarith
    rw [mul_pow]; linarith
  have h0 : 0 ≤ (ux * x + uy * y + uz * z) + G * T := by
    have := abs_le_of_sq_le_sq hcs (by positivity)
    linarith [neg_abs_le (ux * x + uy * y + uz * z)]
  have key : ((ux * x + uy * y + uz * z) + G * T) ^ 2 = s + ((x + ((ux * x + uy * y + uz * z) / (G + 1) + T) * ux) ^ 2
      + (y + ((ux * x + uy * y + uz * z) / (G + 1) + T) * uy) ^ 2
      + (z + ((ux * x + uy * y + uz * z) / (G + 1) + T) * uz) ^ 2) := by
    field_simp
    linear_combination (G + 1) ^ 2 * hT + ((ux * x + uy * y + uz * z) + T * (G + 1)) ^ 2 * hG
  rw [← key, sqrt_sq h0]

end L

/-! ### the time accessor `lorentz_t` on denotations (hypotheses `SinOK`, `CanonTmp` only) -/

/-- all τ-keys of `lorentz_t`: `√max(copysign(τ²,τ) + |p|², 0)` on the denotation -/
theorem lorentz_t_tau_eq (k0 : Az) (k1 : Lon) (a b c d : ℝ) (hs : SinOK k1 c) :
    lorentz_t.eval k0 k1 .tau a b c d = sqrt (max (P.copysign (d ^ 2) d + mag2Of k0 k1 a b c) 0) := by
  have hm := refine_spatial_mag2 k0 k1 a b c hs
  cases k0 <;> cases k1 <;> simp only [spatial_mag2.eval] at hm <;>
    simp only [d_lorentz_t, d_lorentz_t2, d_lorentz_tau2, hm]

/-- every key of `lorentz_t` is the Cartesian key of the same temporal kind on the denotations -/
theorem lorentz_t_conv (k0 : Az) (k1 : Lon) (k2 : Tmp) (a b c d : ℝ) (hs : SinOK k1 c) :
    lorentz_t.eval k0 k1 k2 a b c d
      = lorentz_t.eval .xy .z k2 (xOf k0 a b) (yOf k0 a b) (zOf k0 k1 a b c) d := by
  cases k2
  · cases k0 <;> cases k1 <;> rfl
  · rw [lorentz_t_tau_eq k0 k1 a b c d hs, lorentz_t_tau_eq .xy .z _ _ _ d trivial]; rfl

/-- `lorentz_t` computes the denoted time component (like `refine_lorentz_t`, but from `SinOK` instead of `CanonLon`) -/
theorem lorentz_t_eq_tOf (k0 : Az) (k1 : Lon) (k2 : Tmp) (a b c d : ℝ) (hs : SinOK k1 c) (hd : CanonTmp k2 d) :
    lorentz_t.eval k0 k1 k2 a b c d = tOf k0 k1 k2 a b c d := by
  cases k2
  · cases k0 <;> cases k1 <;> rfl
  · have h0 : (0 : ℝ) ≤ d := hd
    rw [lorentz_t_tau_eq k0 k1 a b c d hs]
    have hm : 0 ≤ mag2Of k0 k1 a b c := by unfold mag2Of; positivity
    have : P.copysign (d ^ 2) d = d ^ 2 := by
      unfold P.copysign; rw [if_pos h0, abs_of_nonneg (by positivity)]
    rw [this, max_eq_left (by positivity)]
    cases k0 <;> cases k1 <;> rfl

theorem tOf_cart (k0 : Az) (k1 : Lon) (k2 : Tmp) (a b c d : ℝ) :
    tOf .xy .z k2 (xOf k0 a b) (yOf k0 a b) (zOf k0 k1 a b c) d = tOf k0 k1 k2 a b c d := by
  cases k2 <;> cases k0 <;> cases k1 <;> rfl

theorem tOf_t (k0 : Az) (k1 : Lon) (a b c d : ℝ) : tOf k0 k1 .t a b c d = d := by
  cases k0 <;> cases k1 <;> rfl

/-- time component of a τ-stored Cartesian vector after a boost along x / y / z -/
theorem tOf_boostX (g bg x y z τ : ℝ) (hg : g ^ 2 - bg ^ 2 = 1) (hg0 : |bg| ≤ g) :
    tOf .xy .z .tau (g * x + bg * tOf .xy .z .tau x y z τ) y z τ = bg * x + g * tOf .xy .z .tau x y z τ := by
  have hT : tOf .xy .z .tau x y z τ ^ 2 = (τ ^ 2 + y ^ 2 + z ^ 2) + x ^ 2 := by
    simp only [tOf, mag2Of, xOf, yOf, zOf]; rw [sq_sqrt (by positivity)]; ring
  rw [← L.boost_time_core g bg x _ (τ ^ 2 + y ^ 2 + z ^ 2) hg hg0 (by simp only [tOf]; exact sqrt_nonneg _) hT
    (by positivity)]
  simp only [tOf, mag2Of, xOf, yOf, zOf]; congr 1; ring

theorem tOf_boostY (g bg x y z τ : ℝ) (hg : g ^ 2 - bg ^ 2 = 1) (hg0 : |bg| ≤ g) :
    tOf .xy .z .tau x (g * y + bg * tOf .xy .z .tau x y z τ) z τ = bg * y + g * tOf .xy .z .tau x y z τ := by
  have hT : tOf .xy .z .tau x y z τ ^ 2 = (τ ^ 2 + x ^ 2 + z ^ 2) + y ^ 2 := by
    simp only [tOf, mag2Of, xOf, yOf, zOf]; rw [sq_sqrt (by positivity)]; ring
  rw [← L.boost_time_core g bg y _ (τ ^ 2 + x ^ 2 + z ^ 2) hg hg0 (by simp only [tOf]; exact sqrt_nonneg _) hT
    (by positivity)]
  simp only [tOf, mag2Of, xOf, yOf, zOf]; congr 1; ring

theorem tOf_boostZ (g bg x y z τ : ℝ) (hg : g ^ 2 - bg ^ 2 = 1) (hg0 : |bg| ≤ g) :
    tOf .xy .z .tau x y (g * z + bg * tOf .xy .z .tau x y z τ) τ = bg * z + g * tOf .xy .z .tau x y z τ := by
  have hT : tOf .xy .z .tau x y z τ ^ 2 = (τ ^ 2 + x ^ 2 + y ^ 2) + z ^ 2 := by
    simp only [tOf, mag2Of, xOf, yOf, zOf]; rw [sq_sqrt (by positivity)]; ring
  rw [← L.boost_time_core g bg z _ (τ ^ 2 + x ^ 2 + y ^ 2) hg hg0 (by simp only [tOf]; exact sqrt_nonneg _) hT
    (by positivity)]
  simp only [tOf, mag2Of, xOf, yOf, zOf]; congr 1; ring

/-! ### boosts along a coordinate axis -/

/-- C01 for `boostX_beta`, all 12 keys: same denotation as the Cartesian key of the same temporal kind. -/
theorem refine_lorentz_boostX_beta (k0 : Az) (k1 : Lon) (k2 : Tmp) (β a b c d : ℝ) (h : TanOK k1 c) (hs : SinOK k1 c) :
    interp4 (lorentz_boostX_beta.ret k0 k1 k2) (lorentz_boostX_beta.eval k0 k1 k2 β a b c d)
      = interp4 (lorentz_boostX_beta.ret .xy .z k2)
          (lorentz_boostX_beta.eval .xy .z k2 β (xOf k0 a b) (yOf k0 a b) (zOf k0 k1 a b c) d) := by
  have hz := refine_spatial_z k0 k1 a b c h
  have ht := lorentz_t_conv k0 k1 k2 a b c d hs
  cases k0 <;> cases k1 <;> cases k2 <;> simp only [spatial_z.eval, lorentz_t.eval] at hz ht <;>
    simp only [d_lorentz_boostX_beta, hz, ht, conv_x_rhophi, conv_y_rhophi, interp4, retAz, retLon, retTmp] <;>
    simp only [cart4, xOf, yOf, zOf, tOf, mag2Of, rhoOf]

/-- the Cartesian τ-key returns the stored τ; for a physical boost it denotes the boosted time component. -/
theorem refine_lorentz_boostX_beta_tau (β x y z τ : ℝ) (hβ : |β| < 1) (hτ : 0 ≤ τ) :
    interp4 (lorentz_boostX_beta.ret .xy .z .tau) (lorentz_boostX_beta.eval .xy .z .tau β x y z τ)
      = interp4 (lorentz_boostX_beta.ret .xy .z .t)
          (lorentz_boostX_beta.eval .xy .z .t β x y z (tOf .xy .z .tau x y z τ)) := by
  have hT : lorentz_t.xy_z_tau x y z τ = tOf .xy .z .tau x y z τ := lorentz_t_eq_tOf .xy .z .tau x y z τ trivial hτ
  simp only [d_lorentz_boostX_beta, hT, interp4, retAz, retLon, retTmp, cart4, xOf, yOf, zOf, tOf_t]
  rw [tOf_boostX _ _ x y z τ (L.gam_beta hβ).1 (L.gam_beta hβ).2]

/-- C01 for `boostX_beta`: every key denotes the Cartesian-`t` result on the denotation of the operand. -/
theorem refine_lorentz_boostX_beta_cart (k0 : Az) (k1 : Lon) (k2 : Tmp) (β a b c d : ℝ)
    (h : TanOK k1 c) (hs : SinOK k1 c) (hd : CanonTmp k2 d) (hβ : k2 = .tau → |β| < 1) :
    interp4 (lorentz_boostX_beta.ret k0 k1 k2) (lorentz_boostX_beta.eval k0 k1 k2 β a b c d)
      = interp4 (lorentz_boostX_beta.ret .xy .z .t)
          (lorentz_boostX_beta.eval .xy .z .t β (xOf k0 a b) (yOf k0 a b) (zOf k0 k1 a b c) (tOf k0 k1 k2 a b c d)) := by
  rw [refine_lorentz_boostX_beta k0 k1 k2 β a b c d h hs]
  cases k2
  · rw [tOf_t]
  · rw [refine_lorentz_boostX_beta_tau β _ _ _ d (hβ rfl) hd, tOf_cart]

/-- τ-keys, without any assumption on β: the spatial part is that of the Cartesian-`t` result … -/
theorem refine_lorentz_boostX_beta_tau_spatial (k0 : Az) (k1 : Lon) (β a b c d : ℝ)
    (h : TanOK k1 c) (hs : SinOK k1 c) (hd : 0 ≤ d) :
    let r := lorentz_boostX_beta.eval k0 k1 .tau β a b c d
    let r' := lorentz_boostX_beta.eval .xy .z .t β (xOf k0 a b) (yOf k0 a b) (zOf k0 k1 a b c) (tOf k0 k1 .tau a b c d)
    interp3 (lorentz_boostX_beta.ret k0 k1 .tau) (r.1, r.2.1, r.2.2.1) = some (r'.1, r'.2.1, r'.2.2.1) := by
  have hz := refine_spatial_z k0 k1 a b c h
  have ht := lorentz_t_eq_tOf k0 k1 .tau a b c d hs hd
  cases k0 <;> cases k1 <;> simp only [spatial_z.eval, lorentz_t.eval] at hz ht <;>
    simp only [d_lorentz_boostX_beta, hz, ht, conv_x_rhophi, conv_y_rhophi, interp3, retAz, retLon] <;>
    simp only [cart3, xOf, yOf, zOf, rhoOf]

/-- … and the returned τ is the stored τ. -/
theorem refine_lorentz_boostX_beta_tau_stored (k0 : Az) (k1 : Lon) (β a b c d : ℝ) :
    (lorentz_boostX_beta.eval k0 k1 .tau β a b c d).2.2.2 = d := by
  cases k0 <;> cases k1 <;> rfl

/-- C01 + C02 for `boostX_beta`: every key denotes the boost along x of the denotation. -/
theorem refine_lorentz_boostX_beta_spec (k0 : Az) (k1 : Lon) (k2 : Tmp) (β a b c d : ℝ)
    (h : TanOK k1 c) (hs : SinOK k1 c) (hd : CanonTmp k2 d) (hβ : |β| < 1) :
    interp4 (lorentz_boostX_beta.ret k0 k1 k2) (lorentz_boostX_beta.eval k0 k1 k2 β a b c d)
      = some (boostX (P.rpow (1 - β ^ 2) (-0.5)) (β * P.rpow (1 - β ^ 2) (-0.5)) (cart4 k0 k1 k2 a b c d)) := by
  rw [refine_lorentz_boostX_beta_cart k0 k1 k2 β a b c d h hs hd (fun _ => hβ)]
  rfl

/-- C01 for `boostX_gamma`, all 12 keys: same denotation as the Cartesian key of the same temporal kind. -/
theorem refine_lorentz_boostX_gamma (k0 : Az) (k1 : Lon) (k2 : Tmp) (γ a b c d : ℝ) (h : TanOK k1 c) (hs : SinOK k1 c) :
    interp4 (lorentz_boostX_gamma.ret k0 k1 k2) (lorentz_boostX_gamma.eval k0 k1 k2 γ a b c d)
      = interp4 (lorentz_boostX_gamma.ret .xy .z k2)
          (lorentz_boostX_gamma.eval .xy .z k2 γ (xOf k0 a b) (yOf k0 a b) (zOf k0 k1 a b c) d) := by
  have hz := refine_spatial_z k0 k1 a b c h
  have ht := lorentz_t_conv k0 k1 k2 a b c d hs
  cases k0 <;> cases k1 <;> cases k2 <;> simp only [spatial_z.eval, lorentz_t.eval] at hz ht <;>
    simp only [d_lorentz_boostX_gamma, hz, ht, conv_x_rhophi, conv_y_rhophi, interp4, retAz, retLon, retTmp] <;>
    simp only [cart4, xOf, yOf, zOf, tOf, mag2Of, rhoOf]

/-- the Cartesian τ-key returns the stored τ; for a physical boost it denotes the boosted time component. -/
theorem refine_lorentz_boostX_gamma_tau (γ x y z τ : ℝ) (hγ : 1 ≤ |γ|) (hτ : 0 ≤ τ) :
    interp4 (lorentz_boostX_gamma.ret .xy .z .tau) (lorentz_boostX_gamma.eval .xy .z .tau γ x y z τ)
      = interp4 (lorentz_boostX_gamma.ret .xy .z .t)
          (lorentz_boostX_gamma.eval .xy .z .t γ x y z (tOf .xy .z .tau x y z τ)) := by
  have hT : lorentz_t.xy_z_tau x y z τ = tOf .xy .z .tau x y z τ := lorentz_t_eq_tOf .xy .z .tau x y z τ trivial hτ
  simp only [d_lorentz_boostX_gamma, hT, interp4, retAz, retLon, retTmp, cart4, xOf, yOf, zOf, tOf_t]
  rw [tOf_boostX _ _ x y z τ (L.gam_gamma hγ).1 (L.gam_gamma hγ).2]

/-- C01 for `boostX_gamma`: every key denotes the Cartesian-`t` result on the denotation of the operand. -/
theorem refine_lorentz_boostX_gamma_cart (k0 : Az) (k1 : Lon) (k2 : Tmp) (γ a b c d : ℝ)
    (h : TanOK k1 c) (hs : SinOK k1 c) (hd : CanonTmp k2 d) (hγ : k2 = .tau → 1 ≤ |γ|) :
    interp4 (lorentz_boostX_gamma.ret k0 k1 k2) (lorentz_boostX_gamma.eval k0 k1 k2 γ a b c d)
      = interp4 (lorentz_boostX_gamma.ret .xy .z .t)
          (lorentz_boostX_gamma.eval .xy .z .t γ (xOf k0 a b) (yOf k0 a b) (zOf k0 k1 a b c) (tOf k0 k1 k2 a b c d)) := by
  rw [refine_lorentz_boostX_gamma k0 k1 k2 γ a b c d h hs]
  cases k2
  · rw [tOf_t]
  · rw [refine_lorentz_boostX_gamma_tau γ _ _ _ d (hγ rfl) hd, tOf_cart]

/-- τ-keys, without any assumption on γ: the spatial part is that of the Cartesian-`t` result … -/
theorem refine_lorentz_boostX_gamma_tau_spatial (k0 : Az) (k1 : Lon) (γ a b c d : ℝ)
    (h : TanOK k1 c) (hs : SinOK k1 c) (hd : 0 ≤ d) :
    let r := lorentz_boostX_gamma.eval k0 k1 .tau γ a b c d
    let r' := lorentz_boostX_gamma.eval .xy .z .t γ (xOf k0 a b) (yOf k0 a b) (zOf k0 k1 a b c) (tOf k0 k1 .tau a b c d)
    interp3 (lorentz_boostX_gamma.ret k0 k1 .tau) (r.1, r.2.1, r.2.2.1) = some (r'.1, r'.2.1, r'.2.2.1) := by
  have hz := refine_spatial_z k0 k1 a b c h
  have ht := lorentz_t_eq_tOf k0 k1 .tau a b c d hs hd
  cases k0 <;> cases k1 <;> simp only [spatial_z.eval, lorentz_t.eval] at hz ht <;>
    simp only [d_lorentz_boostX_gamma, hz, ht, conv_x_rhophi, conv_y_rhophi, interp3, retAz, retLon] <;>
    simp only [cart3, xOf, yOf, zOf, rhoOf]

/-- … and the returned τ is the stored τ. -/
theorem refine_lorentz_boostX_gamma_tau_stored (k0 : Az) (k1 : Lon) (γ a b c d : ℝ) :
    (lorentz_boostX_gamma.eval k0 k1 .tau γ a b c d).2.2.2 = d := by
  cases k0 <;> cases k1 <;> rfl

/-- C01 + C02 for `boostX_gamma`: every key denotes the boost along x of the denotation. -/
theorem refine_lorentz_boostX_gamma_spec (k0 : Az) (k1 : Lon) (k2 : Tmp) (γ a b c d : ℝ)
    (h : TanOK k1 c) (hs : SinOK k1 c) (hd : CanonTmp k2 d) (hγ : 1 ≤ |γ|) :
    interp4 (lorentz_boostX_gamma.ret k0 k1 k2) (lorentz_boostX_gamma.eval k0 k1 k2 γ a b c d)
      = some (boostX |γ| (P.copysign (sqrt (|γ| ^ 2 - 1)) γ) (cart4 k0 k1 k2 a b c d)) := by
  rw [refine_lorentz_boostX_gamma_cart k0 k1 k2 γ a b c d h hs hd (fun _ => hγ)]
  rfl

/-- C01 for `boostY_beta`, all 12 keys: same denotation as the Cartesian key of the same temporal kind. -/
theorem refine_lorentz_boostY_beta (k0 : Az) (k1 : Lon) (k2 : Tmp) (β a b c d : ℝ) (h : TanOK k1 c) (hs : SinOK k1 c) :
    interp4 (lorentz_boostY_beta.ret k0 k1 k2) (lorentz_boostY_beta.eval k0 k1 k2 β a b c d)
      = interp4 (lorentz_boostY_beta.ret .xy .z k2)
          (lorentz_boostY_beta.eval .xy .z k2 β (xOf k0 a b) (yOf k0 a b) (zOf k0 k1 a b c) d) := by
  have hz := refine_spatial_z k0 k1 a b c h
  have ht := lorentz_t_conv k0 k1 k2 a b c d hs
  cases k0 <;> cases k1 <;> cases k2 <;> simp only [spatial_z.eval, lorentz_t.eval] at hz ht <;>
    simp only [d_lorentz_boostY_beta, hz, ht, conv_x_rhophi, conv_y_rhophi, interp4, retAz, retLon, retTmp] <;>
    simp only [cart4, xOf, yOf, zOf, tOf, mag2Of, rhoOf]

/-- the Cartesian τ-key returns the stored τ; for a physical boost it denotes the boosted time component. -/
theorem refine_lorentz_boostY_beta_tau (β x y z τ : ℝ) (hβ : |β| < 1) (hτ : 0 ≤ τ) :
    interp4 (lorentz_boostY_beta.ret .xy .z .tau) (lorentz_boostY_beta.eval .xy .z .tau β x y z τ)
      = interp4 (lorentz_boostY_beta.ret .xy .z .t)
          (lorentz_boostY_beta.eval .xy .z .t β x y z (tOf .xy .z .tau x y z τ)) := by
  have hT : lorentz_t.xy_z_tau x y z τ = tOf .xy .z .tau x y z τ := lorentz_t_eq_tOf .xy .z .tau x y z τ trivial hτ
  simp only [d_lorentz_boostY_beta, hT, interp4, retAz, retLon, retTmp, cart4, xOf, yOf, zOf, tOf_t]
  rw [tOf_boostY _ _ x y z τ (L.gam_beta hβ).1 (L.gam_beta hβ).2]

/-- C01 for `boostY_beta`: every key denotes the Cartesian-`t` result on the denotation of the operand. -/
theorem refine_lorentz_boostY_beta_cart (k0 : Az) (k1 : Lon) (k2 : Tmp) (β a b c d : ℝ)
    (h : TanOK k1 c) (hs : SinOK k1 c) (hd : CanonTmp k2 d) (hβ : k2 = .tau → |β| < 1) :
    interp4 (lorentz_boostY_beta.ret k0 k1 k2) (lorentz_boostY_beta.eval k0 k1 k2 β a b c d)
      = interp4 (lorentz_boostY_beta.ret .xy .z .t)
          (lorentz_boostY_beta.eval .xy .z .t β (xOf k0 a b) (yOf k0 a b) (zOf k0 k1 a b c) (tOf k0 k1 k2 a b c d)) := by
  rw [refine_lorentz_boostY_beta k0 k1 k2 β a b c d h hs]
  cases k2
  · rw [tOf_t]
  · rw [refine_lorentz_boostY_beta_tau β _ _ _ d (hβ rfl) hd, tOf_cart]

/-- τ-keys, without any assumption on β: the spatial part is that of the Cartesian-`t` result … -/
theorem refine_lorentz_boostY_beta_tau_spatial (k0 : Az) (k1 : Lon) (β a b c d : ℝ)
    (h : TanOK k1 c) (hs : SinOK k1 c) (hd : 0 ≤ d) :
    let r := lorentz_boostY_beta.eval k0 k1 .tau β a b c d
    let r' := lorentz_boostY_beta.eval .xy .z .t β (xOf k0 a b) (yOf k0 a b) (zOf k0 k1 a b c) (tOf k0 k1 .tau a b c d)
    interp3 (lorentz_boostY_beta.ret k0 k1 .tau) (r.1, r.2.1, r.2.2.1) = some (r'.1, r'.2.1, r'.2.2.1) := by
  have hz := refine_spatial_z k0 k1 a b c h
  have ht := lorentz_t_eq_tOf k0 k1 .tau a b c d hs hd
  cases k0 <;> cases k1 <;> simp only [spatial_z.eval, lorentz_t.eval] at hz ht <;>
    simp only [d_lorentz_boostY_beta, hz, ht, conv_x_rhophi, conv_y_rhophi, interp3, retAz, retLon] <;>
    simp only [cart3, xOf, yOf, zOf, rhoOf]

/-- … and the returned τ is the stored τ. -/
theorem refine_lorentz_boostY_beta_tau_stored (k0 : Az) (k1 : Lon) (β a b c d : ℝ) :
    (lorentz_boostY_beta.eval k0 k1 .tau β a b c d).2.2.2 = d := by
  cases k0 <;> cases k1 <;> rfl

/-- C01 + C02 for `boostY_beta`: every key denotes the boost along y of the denotation. -/
theorem refine_lorentz_boostY_beta_spec (k0 : Az) (k1 : Lon) (k2 : Tmp) (β a b c d : ℝ)
    (h : TanOK k1 c) (hs : SinOK k1 c) (hd : CanonTmp k2 d) (hβ : |β| < 1) :
    interp4 (lorentz_boostY_beta.ret k0 k1 k2) (lorentz_boostY_beta.eval k0 k1 k2 β a b c d)
      = some (boostY (P.rpow (1 - β ^ 2) (-0.5)) (β * P.rpow (1 - β ^ 2) (-0.5)) (cart4 k0 k1 k2 a b c d)) := by
  rw [refine_lorentz_boostY_beta_cart k0 k1 k2 β a b c d h hs hd (fun _ => hβ)]
  rfl

/-- C01 for `boostY_gamma`, all 12 keys: same denotation as the Cartesian key of the same temporal kind. -/
theorem refine_lorentz_boostY_gamma (k0 : Az) (k1 : Lon) (k2 : Tmp) (γ a b c d : ℝ) (h : TanOK k1 c) (hs : SinOK k1 c) :
    interp4 (lorentz_boostY_gamma.ret k0 k1 k2) (lorentz_boostY_gamma.eval k0 k1 k2 γ a b c d)
      = interp4 (lorentz_boostY_gamma.ret .xy .z k2)
          (lorentz_boostY_gamma.eval .xy .z k2 γ (xOf k0 a b) (yOf k0 a b) (zOf k0 k1 a b c) d) := by
  have hz := refine_spatial_z k0 k1 a b c h
  have ht := lorentz_t_conv k0 k1 k2 a b c d hs
  cases k0 <;> cases k1 <;> cases k2 <;> simp only [spatial_z.eval, lorentz_t.eval] at hz ht <;>
    simp only [d_lorentz_boostY_gamma, hz, ht, conv_x_rhophi, conv_y_rhophi, interp4, retAz, retLon, retTmp] <;>
    simp only [cart4, xOf, yOf, zOf, tOf, mag2Of, rhoOf]

/-- the Cartesian τ-key returns the stored τ; for a physical boost it denotes the boosted time component. -/
theorem refine_lorentz_boostY_gamma_tau (γ x y z τ : ℝ) (hγ : 1 ≤ |γ|) (hτ : 0 ≤ τ) :
    interp4 (lorentz_boostY_gamma.ret .xy .z .tau) (lorentz_boostY_gamma.eval .xy .z .tau γ x y z τ)
      = interp4 (lorentz_boostY_gamma.ret .xy .z .t)
          (lorentz_boostY_gamma.eval .xy .z .t γ x y z (tOf .xy .z .tau x y z τ)) := by
  have hT : lorentz_t.xy_z_tau x y z τ = tOf .xy .z .tau x y z τ := lorentz_t_eq_tOf .xy .z .tau x y z τ trivial hτ
  simp only [d_lorentz_boostY_gamma, hT, interp4, retAz, retLon, retTmp, cart4, xOf, yOf, zOf, tOf_t]
  rw [tOf_boostY _ _ x y z τ (L.gam_gamma hγ).1 (L.gam_gamma hγ).2]

/-- C01 for `boostY_gamma`: every key denotes the Cartesian-`t` result on the denotation of the operand. -/
theorem refine_lorentz_boostY_gamma_cart (k0 : Az) (k1 : Lon) (k2 : Tmp) (γ a b c d : ℝ)
    (h : TanOK k1 c) (hs : SinOK k1 c) (hd : CanonTmp k2 d) (hγ : k2 = .tau → 1 ≤ |γ|) :
    interp4 (lorentz_boostY_gamma.ret k0 k1 k2) (lorentz_boostY_gamma.eval k0 k1 k2 γ a b c d)
      = interp4 (lorentz_boostY_gamma.ret .xy .z .t)
          (lorentz_boostY_gamma.eval .xy .z .t γ (xOf k0 a b) (yOf k0 a b) (zOf k0 k1 a b c) (tOf k0 k1 k2 a b c d)) := by
  rw [refine_lorentz_boostY_gamma k0 k1 k2 γ a b c d h hs]
  cases k2
  · rw [tOf_t]
  · rw [refine_lorentz_boostY_gamma_tau γ _ _ _ d (hγ rfl) hd, tOf_cart]

/-- τ-keys, without any assumption on γ: the spatial part is that of the Cartesian-`t` result … -/
theorem refine_lorentz_boostY_gamma_tau_spatial (k0 : Az) (k1 : Lon) (γ a b c d : ℝ)
    (h : TanOK k1 c) (hs : SinOK k1 c) (hd : 0 ≤ d) :
    let r := lorentz_boostY_gamma.eval k0 k1 .tau γ a b c d
    let r' := lorentz_boostY_gamma.eval .xy .z .t γ (xOf k0 a b) (yOf k0 a b) (zOf k0 k1 a b c) (tOf k0 k1 .tau a b c d)
    interp3 (lorentz_boostY_gamma.ret k0 k1 .tau) (r.1, r.2.1, r.2.2.1) = some (r'.1, r'.2.1, r'.2.2.1) := by
  have hz := refine_spatial_z k0 k1 a b c h
  have ht := lorentz_t_eq_tOf k0 k1 .tau a b c d hs hd
  cases k0 <;> cases k1 <;> simp only [spatial_z.eval, lorentz_t.eval] at hz ht <;>
    simp only [d_lorentz_boostY_gamma, hz, ht, conv_x_rhophi, conv_y_rhophi, interp3, retAz, retLon] <;>
    simp only [cart3, xOf, yOf, zOf, rhoOf]

/-- … and the returned τ is the stored τ. -/
theorem refine_lorentz_boostY_gamma_tau_stored (k0 : Az) (k1 : Lon) (γ a b c d : ℝ) :
    (lorentz_boostY_gamma.eval k0 k1 .tau γ a b c d).2.2.2 = d := by
  cases k0 <;> cases k1 <;> rfl

/-- C01 + C02 for `boostY_gamma`: every key denotes the boost along y of the denotation. -/
theorem refine_lorentz_boostY_gamma_spec (k0 : Az) (k1 : Lon) (k2 : Tmp) (γ a b c d : ℝ)
    (h : TanOK k1 c) (hs : SinOK k1 c) (hd : CanonTmp k2 d) (hγ : 1 ≤ |γ|) :
    interp4 (lorentz_boostY_gamma.ret k0 k1 k2) (lorentz_boostY_gamma.eval k0 k1 k2 γ a b c d)
      = some (boostY |γ| (P.copysign (sqrt (|γ| ^ 2 - 1)) γ) (cart4 k0 k1 k2 a b c d)) := by
  rw [refine_lorentz_boostY_gamma_cart k0 k1 k2 γ a b c d h hs hd (fun _ => hγ)]
  rfl

/-- C01 for `boostZ_beta`, all 12 keys: same denotation as the Cartesian key of the same temporal kind. -/
theorem refine_lorentz_boostZ_beta (k0 : Az) (k1 : Lon) (k2 : Tmp) (β a b c d : ℝ) (h : TanOK k1 c) (hs : SinOK k1 c) :
    interp4 (lorentz_boostZ_beta.ret k0 k1 k2) (lorentz_boostZ_beta.eval k0 k1 k2 β a b c d)
      = interp4 (lorentz_boostZ_beta.ret .xy .z k2)
          (lorentz_boostZ_beta.eval .xy .z k2 β (xOf k0 a b) (yOf k0 a b) (zOf k0 k1 a b c) d) := by
  have hz := refine_spatial_z k0 k1 a b c h
  have ht := lorentz_t_conv k0 k1 k2 a b c d hs
  cases k0 <;> cases k1 <;> cases k2 <;> simp only [spatial_z.eval, lorentz_t.eval] at hz ht <;>
    simp only [d_lorentz_boostZ_beta, hz, ht, interp4, retAz, retLon, retTmp] <;>
    simp only [cart4, xOf, yOf, zOf, tOf, mag2Of, rhoOf]

/-- the Cartesian τ-key returns the stored τ; for a physical boost it denotes the boosted time component. -/
theorem refine_lorentz_boostZ_beta_tau (β x y z τ : ℝ) (hβ : |β| < 1) (hτ : 0 ≤ τ) :
    interp4 (lorentz_boostZ_beta.ret .xy .z .tau) (lorentz_boostZ_beta.eval .xy .z .tau β x y z τ)
      = interp4 (lorentz_boostZ_beta.ret .xy .z .t)
          (lorentz_boostZ_beta.eval .xy .z .t β x y z (tOf .xy .z .tau x y z τ)) := by
  have hT : lorentz_t.xy_z_tau x y z τ = tOf .xy .z .tau x y z τ := lorentz_t_eq_tOf .xy .z .tau x y z τ trivial hτ
  simp only [d_lorentz_boostZ_beta, hT, interp4, retAz, retLon, retTmp, cart4, xOf, yOf, zOf, tOf_t]
  rw [tOf_boostZ _ _ x y z τ (L.gam_beta hβ).1 (L.gam_beta hβ).2]

/-- C01 for `boostZ_beta`: every key denotes the Cartesian-`t` result on the denotation of the operand. -/
theorem refine_lorentz_boostZ_beta_cart (k0 : Az) (k1 : Lon) (k2 : Tmp) (β a b c d : ℝ)
    (h : TanOK k1 c) (hs : SinOK k1 c) (hd : CanonTmp k2 d) (hβ : k2 = .tau → |β| < 1) :
    interp4 (lorentz_boostZ_beta.ret k0 k1 k2) (lorentz_boostZ_beta.eval k0 k1 k2 β a b c d)
      = interp4 (lorentz_boostZ_beta.ret .xy .z .t)
          (lorentz_boostZ_beta.eval .xy .z .t β (xOf k0 a b) (yOf k0 a b) (zOf k0 k1 a b c) (tOf k0 k1 k2 a b c d)) := by
  rw [refine_lorentz_boostZ_beta k0 k1 k2 β a b c d h hs]
  cases k2
  · rw [tOf_t]
  · rw [refine_lorentz_boostZ_beta_tau β _ _ _ d (hβ rfl) hd, tOf_cart]

/-- τ-keys, without any assumption on β: the spatial part is that of the Cartesian-`t` result … -/
theorem refine_lorentz_boostZ_beta_tau_spatial (k0 : Az) (k1 : Lon) (β a b c d : ℝ)
    (h : TanOK k1 c) (hs : SinOK k1 c) (hd : 0 ≤ d) :
    let r := lorentz_boostZ_beta.eval k0 k1 .tau β a b c d
    let r' := lorentz_boostZ_beta.eval .xy .z .t β (xOf k0 a b) (yOf k0 a b) (zOf k0 k1 a b c) (tOf k0 k1 .tau a b c d)
    interp3 (lorentz_boostZ_beta.ret k0 k1 .tau) (r.1, r.2.1, r.2.2.1) = some (r'.1, r'.2.1, r'.2.2.1) := by
  have hz := refine_spatial_z k0 k1 a b c h
  have ht := lorentz_t_eq_tOf k0 k1 .tau a b c d hs hd
  cases k0 <;> cases k1 <;> simp only [spatial_z.eval, lorentz_t.eval] at hz ht <;>
    simp only [d_lorentz_boostZ_beta, hz, ht, interp3, retAz, retLon] <;>
    simp only [cart3, xOf, yOf, zOf, rhoOf]

/-- … and the returned τ is the stored τ. -/
theorem refine_lorentz_boostZ_beta_tau_stored (k0 : Az) (k1 : Lon) (β a b c d : ℝ) :
    (lorentz_boostZ_beta.eval k0 k1 .tau β a b c d).2.2.2 = d := by
  cases k0 <;> cases k1 <;> rfl

/-- C01 + C02 for `boostZ_beta`: every key denotes the boost along z of the denotation. -/
theorem refine_lorentz_boostZ_beta_spec (k0 : Az) (k1 : Lon) (k2 : Tmp) (β a b c d : ℝ)
    (h : TanOK k1 c) (hs : SinOK k1 c) (hd : CanonTmp k2 d) (hβ : |β| < 1) :
    interp4 (lorentz_boostZ_beta.ret k0 k1 k2) (lorentz_boostZ_beta.eval k0 k1 k2 β a b c d)
      = some (boostZ (P.rpow (1 - β ^ 2) (-0.5)) (β * P.rpow (1 - β ^ 2) (-0.5)) (cart4 k0 k1 k2 a b c d)) := by
  rw [refine_lorentz_boostZ_beta_cart k0 k1 k2 β a b c d h hs hd (fun _ => hβ)]
  rfl

/-- C01 for `boostZ_gamma`, all 12 keys: same denotation as the Cartesian key of the same temporal kind. -/
theorem refine_lorentz_boostZ_gamma (k0 : Az) (k1 : Lon) (k2 : Tmp) (γ a b c d : ℝ) (h : TanOK k1 c) (hs : SinOK k1 c) :
    interp4 (lorentz_boostZ_gamma.ret k0 k1 k2) (lorentz_boostZ_gamma.eval k0 k1 k2 γ a b c d)
      = interp4 (lorentz_boostZ_gamma.ret .xy .z k2)
          (lorentz_boostZ_gamma.eval .xy .z k2 γ (xOf k0 a b) (yOf k0 a b) (zOf k0 k1 a b c) d) := by
  have hz := refine_spatial_z k0 k1 a b c h
  have ht := lorentz_t_conv k0 k1 k2 a b c d hs
  cases k0 <;> cases k1 <;> cases k2 <;> simp only [spatial_z.eval, lorentz_t.eval] at hz ht <;>
    simp only [d_lorentz_boostZ_gamma, hz, ht, interp4, retAz, retLon, retTmp] <;>
    simp only [cart4, xOf, yOf, zOf, tOf, mag2Of, rhoOf]

/-- the Cartesian τ-key returns the stored τ; for a physical boost it denotes the boosted time component. -/
theorem refine_lorentz_boostZ_gamma_tau (γ x y z τ : ℝ) (hγ : 1 ≤ |γ|) (hτ : 0 ≤ τ) :
    interp4 (lorentz_boostZ_gamma.ret .xy .z .tau) (lorentz_boostZ_gamma.eval .xy .z .tau γ x y z τ)
      = interp4 (lorentz_boostZ_gamma.ret .xy .z .t)
          (lorentz_boostZ_gamma.eval .xy .z .t γ x y z (tOf .xy .z .tau x y z τ)) := by
  have hT : lorentz_t.xy_z_tau x y z τ = tOf .xy .z .tau x y z τ := lorentz_t_eq_tOf .xy .z .tau x y z τ trivial hτ
  simp only [d_lorentz_boostZ_gamma, hT, interp4, retAz, retLon, retTmp, cart4, xOf, yOf, zOf, tOf_t]
  rw [tOf_boostZ _ _ x y z τ (L.gam_gamma hγ).1 (L.gam_gamma hγ).2]

/-- C01 for `boostZ_gamma`: every key denotes the Cartesian-`t` result on the denotation of the operand. -/
theorem refine_lorentz_boostZ_gamma_cart (k0 : Az) (k1 : Lon) (k2 : Tmp) (γ a b c d : ℝ)
    (h : TanOK k1 c) (hs : SinOK k1 c) (hd : CanonTmp k2 d) (hγ : k2 = .tau → 1 ≤ |γ|) :
    interp4 (lorentz_boostZ_gamma.ret k0 k1 k2) (lorentz_boostZ_gamma.eval k0 k1 k2 γ a b c d)
      = interp4 (lorentz_boostZ_gamma.ret .xy .z .t)
          (lorentz_boostZ_gamma.eval .xy .z .t γ (xOf k0 a b) (yOf k0 a b) (zOf k0 k1 a b c) (tOf k0 k1 k2 a b c d)) := by
  rw [refine_lorentz_boostZ_gamma k0 k1 k2 γ a b c d h hs]
  cases k2
  · rw [tOf_t]
  · rw [refine_lorentz_boostZ_gamma_tau γ _ _ _ d (hγ rfl) hd, tOf_cart]

/-- τ-keys, without any assumption on γ: the spatial part is that of the Cartesian-`t` result … -/
theorem refine_lorentz_boostZ_gamma_tau_spatial (k0 : Az) (k1 : Lon) (γ a b c d : ℝ)
    (h : TanOK k1 c) (hs : SinOK k1 c) (hd : 0 ≤ d) :
    let r := lorentz_boostZ_gamma.eval k0 k1 .tau γ a b c d
    let r' := lorentz_boostZ_gamma.eval .xy .z .t γ (xOf k0 a b) (yOf k0 a b) (zOf k0 k1 a b c) (tOf k0 k1 .tau a b c d)
    interp3 (lorentz_boostZ_gamma.ret k0 k1 .tau) (r.1, r.2.1, r.2.2.1) = some (r'.1, r'.2.1, r'.2.2.1) := by
  have hz := refine_spatial_z k0 k1 a b c h
  have ht := lorentz_t_eq_tOf k0 k1 .tau a b c d hs hd
  cases k0 <;> cases k1 <;> simp only [spatial_z.eval, lorentz_t.eval] at hz ht <;>
    simp only [d_lorentz_boostZ_gamma, hz, ht, interp3, retAz, retLon] <;>
    simp only [cart3, xOf, yOf, zOf, rhoOf]

/-- … and the returned τ is the stored τ. -/
theorem refine_lorentz_boostZ_gamma_tau_stored (k0 : Az) (k1 : Lon) (γ a b c d : ℝ) :
    (lorentz_boostZ_gamma.eval k0 k1 .tau γ a b c d).2.2.2 = d := by
  cases k0 <;> cases k1 <;> rfl

/-- C01 + C02 for `boostZ_gamma`: every key denotes the boost along z of the denotation. -/
theorem refine_lorentz_boostZ_gamma_spec (k0 : Az) (k1 : Lon) (k2 : Tmp) (γ a b c d : ℝ)
    (h : TanOK k1 c) (hs : SinOK k1 c) (hd : CanonTmp k2 d) (hγ : 1 ≤ |γ|) :
    interp4 (lorentz_boostZ_gamma.ret k0 k1 k2) (lorentz_boostZ_gamma.eval k0 k1 k2 γ a b c d)
      = some (boostZ |γ| (P.copysign (sqrt (|γ| ^ 2 - 1)) γ) (cart4 k0 k1 k2 a b c d)) := by
  rw [refine_lorentz_boostZ_gamma_cart k0 k1 k2 γ a b c d h hs hd (fun _ => hγ)]
  rfl

example : TanOK .eta 1 ∧ SinOK .eta 1 ∧ CanonTmp .tau 1 ∧ |(1 / 2 : ℝ)| < 1 ∧ (1 : ℝ) ≤ |(-2)| := by
  refine ⟨trivial, trivial, ?_, ?_, ?_⟩
  · show (0 : ℝ) ≤ 1; norm_num
  · rw [abs_of_pos] <;> norm_num
  · rw [abs_of_neg] <;> norm_num

/-! ### transform4D: every key denotes the matrix applied to the Cartesian denotation (C01 + C02) -/

set_option linter.unusedSimpArgs false in
theorem refine_lorentz_transform4D (k0 : Az) (k1 : Lon) (k2 : Tmp)
    (xx xy xz xt yx yy yz yt zx zy zz zt tx ty tz tt a b c d : ℝ)
    (h : TanOK k1 c) (hs : SinOK k1 c) (hd : CanonTmp k2 d) :
    interp4 (lorentz_transform4D.ret k0 k1 k2)
        (lorentz_transform4D.eval k0 k1 k2 xx xy xz xt yx yy yz yt zx zy zz zt tx ty tz tt a b c d)
      = some (transform4 xx xy xz xt yx yy yz yt zx zy zz zt tx ty tz tt (cart4 k0 k1 k2 a b c d)) := by
  have hz := refine_spatial_z k0 k1 a b c h
  have ht := lorentz_t_eq_tOf k0 k1 k2 a b c d hs hd
  cases k0 <;> cases k1 <;> cases k2 <;> simp only [spatial_z.eval, lorentz_t.eval] at hz ht <;>
    simp only [d_lorentz_transform4D, hz, ht, conv_x_rhophi, conv_y_rhophi, conv_x_xy, conv_y_xy,
      interp4, retAz, retLon, retTmp, transform4] <;>
    simp only [cart4, xOf, yOf, zOf, tOf, mag2Of, rhoOf]

/-- C01 form: every key equals the Cartesian-`t` key on the denotation -/
theorem refine_lorentz_transform4D_cart (k0 : Az) (k1 : Lon) (k2 : Tmp)
    (xx xy xz xt yx yy yz yt zx zy zz zt tx ty tz tt a b c d : ℝ)
    (h : TanOK k1 c) (hs : SinOK k1 c) (hd : CanonTmp k2 d) :
    interp4 (lorentz_transform4D.ret k0 k1 k2)
        (lorentz_transform4D.eval k0 k1 k2 xx xy xz xt yx yy yz yt zx zy zz zt tx ty tz tt a b c d)
      = interp4 (lorentz_transform4D.ret .xy .z .t)
        (lorentz_transform4D.eval .xy .z .t xx xy xz xt yx yy yz yt zx zy zz zt tx ty tz tt
          (xOf k0 a b) (yOf k0 a b) (zOf k0 k1 a b c) (tOf k0 k1 k2 a b c d)) := by
  rw [refine_lorentz_transform4D k0 k1 k2 _ _ _ _ _ _ _ _ _ _ _ _ _ _ _ _ a b c d h hs hd,
    refine_lorentz_transform4D .xy .z .t _ _ _ _ _ _ _ _ _ _ _ _ _ _ _ _ _ _ _ _ trivial trivial trivial]
  rfl

example : TanOK .theta 1 ∧ SinOK .theta 1 ∧ CanonTmp .tau 2 :=
  ⟨ne_of_gt cos_one_pos, (sin_pos_of_pos_of_lt_pi one_pos (by linarith [two_le_pi])).ne', by show (0 : ℝ) ≤ 2; norm_num⟩

/-! ### boost_beta3 (72 keys) -/

set_option maxHeartbeats 1000000 in
set_option linter.unusedSimpArgs false in
/-- C01 for `boost_beta3`, all 72 keys: same denotation as the all-Cartesian key of the same temporal kind. -/
theorem refine_lorentz_boost_beta3 (k0 : Az) (k1 : Lon) (k2 : Tmp) (k3 : Az) (k4 : Lon) (a0 a1 a2 a3 a4 a5 a6 : ℝ)
    (h1 : TanOK k1 a2) (h2 : TanOK k4 a6) :
    interp4 (lorentz_boost_beta3.ret k0 k1 k2 k3 k4) (lorentz_boost_beta3.eval k0 k1 k2 k3 k4 a0 a1 a2 a3 a4 a5 a6)
      = interp4 (lorentz_boost_beta3.ret .xy .z k2 .xy .z)
          (lorentz_boost_beta3.eval .xy .z k2 .xy .z (xOf k0 a0 a1) (yOf k0 a0 a1) (zOf k0 k1 a0 a1 a2) a3
            (xOf k3 a4 a5) (yOf k3 a4 a5) (zOf k3 k4 a4 a5 a6)) := by
  have hz1 := refine_spatial_z k0 k1 a0 a1 a2 h1
  have hz2 := refine_spatial_z k3 k4 a4 a5 a6 h2
  cases k0 <;> cases k1 <;> cases k2 <;> cases k3 <;> cases k4 <;> simp only [spatial_z.eval] at hz1 hz2 <;>
    simp only [d_lorentz_boost_beta3,
      hz1, hz2, conv_x_rhophi, conv_y_rhophi, conv_x_xy, conv_y_xy, conv_z_xy_z] <;>
    simp only [xOf, yOf, zOf]

/-- the all-Cartesian `t` key is the general boost with `γ = 1/√(1 − |β|²)`, `u = γβ` (C02) -/
theorem refine_lorentz_boost_beta3_cart_t (x y z t bx by' bz : ℝ) :
    lorentz_boost_beta3.eval .xy .z .t .xy .z x y z t bx by' bz
      = boostU (1 / sqrt (1 - (bx ^ 2 + by' ^ 2 + bz ^ 2))) (1 / sqrt (1 - (bx ^ 2 + by' ^ 2 + bz ^ 2)) * bx)
          (1 / sqrt (1 - (bx ^ 2 + by' ^ 2 + bz ^ 2)) * by') (1 / sqrt (1 - (bx ^ 2 + by' ^ 2 + bz ^ 2)) * bz)
          (x, y, z, t) := by
  simp only [d_lorentz_boost_beta3, d_lorentz_transform4D, boostU, Prod.mk.injEq]
  exact ⟨by ring, by ring, by ring, trivial⟩

theorem refine_lorentz_boost_beta3_tau (x y z τ bx by' bz : ℝ) (hβ : bx ^ 2 + by' ^ 2 + bz ^ 2 < 1) (hτ : 0 ≤ τ) :
    interp4 (lorentz_boost_beta3.ret .xy .z .tau .xy .z) (lorentz_boost_beta3.eval .xy .z .tau .xy .z x y z τ bx by' bz)
      = interp4 (lorentz_boost_beta3.ret .xy .z .t .xy .z)
          (lorentz_boost_beta3.eval .xy .z .t .xy .z x y z (tOf .xy .z .tau x y z τ) bx by' bz) := by
  have hT : lorentz_t.xy_z_tau x y z τ = tOf .xy .z .tau x y z τ := lorentz_t_eq_tOf .xy .z .tau x y z τ trivial hτ
  have hpos : 0 < 1 - (bx ^ 2 + by' ^ 2 + bz ^ 2) := by linarith
  have hs0 : 0 < sqrt (1 - (bx ^ 2 + by' ^ 2 + bz ^ 2)) := sqrt_pos.mpr hpos
  have hs2 : sqrt (1 - (bx ^ 2 + by' ^ 2 + bz ^ 2)) ^ 2 = 1 - (bx ^ 2 + by' ^ 2 + bz ^ 2) := sq_sqrt hpos.le
  have hG0 : 0 < 1 / sqrt (1 - (bx ^ 2 + by' ^ 2 + bz ^ 2)) := by positivity
  have hG : (1 / sqrt (1 - (bx ^ 2 + by' ^ 2 + bz ^ 2))) ^ 2 = 1 + ((1 / sqrt (1 - (bx ^ 2 + by' ^ 2 + bz ^ 2)) * bx) ^ 2
      + (1 / sqrt (1 - (bx ^ 2 + by' ^ 2 + bz ^ 2)) * by') ^ 2 + (1 / sqrt (1 - (bx ^ 2 + by' ^ 2 + bz ^ 2)) * bz) ^ 2) := by
    field_simp
    linear_combination -hs2
  have hTsq : tOf .xy .z .tau x y z τ ^ 2 = τ ^ 2 + (x ^ 2 + y ^ 2 + z ^ 2) := by
    simp only [tOf, mag2Of, xOf, yOf, zOf]; rw [sq_sqrt (by positivity)]
  have e := L.boostU_time _ _ _ _ x y z _ (τ ^ 2) hG hG0 (by simp only [tOf]; exact sqrt_nonneg _) hTsq (sq_nonneg τ)
  rw [refine_lorentz_boost_beta3_cart_t]
  simp only [d_lorentz_boost_beta3, d_lorentz_transform4D, planar_x.xy, planar_y.xy, spatial_z.xy_z, hT, interp4, retAz,
    retLon, retTmp, boostU, cart4, xOf, yOf, zOf, tOf_t, Option.some.injEq, Prod.mk.injEq]
  refine ⟨by ring, by ring, by ring, ?_⟩
  rw [← e]
  simp only [tOf, mag2Of, xOf, yOf, zOf]
  congr 1; ring

/-- C01 for `boost_beta3`: every key denotes the all-Cartesian-`t` result on the denotations of the operands. -/
theorem refine_lorentz_boost_beta3_cart (k0 : Az) (k1 : Lon) (k2 : Tmp) (k3 : Az) (k4 : Lon) (a0 a1 a2 a3 a4 a5 a6 : ℝ)
    (h1 : TanOK k1 a2) (h2 : TanOK k4 a6) (hd : CanonTmp k2 a3) (hβ : k2 = .tau → mag2Of k3 k4 a4 a5 a6 < 1) :
    interp4 (lorentz_boost_beta3.ret k0 k1 k2 k3 k4) (lorentz_boost_beta3.eval k0 k1 k2 k3 k4 a0 a1 a2 a3 a4 a5 a6)
      = interp4 (lorentz_boost_beta3.ret .xy .z .t .xy .z)
          (lorentz_boost_beta3.eval .xy .z .t .xy .z (xOf k0 a0 a1) (yOf k0 a0 a1) (zOf k0 k1 a0 a1 a2)
            (tOf k0 k1 k2 a0 a1 a2 a3) (xOf k3 a4 a5) (yOf k3 a4 a5) (zOf k3 k4 a4 a5 a6)) := by
  rw [refine_lorentz_boost_beta3 k0 k1 k2 k3 k4 a0 a1 a2 a3 a4 a5 a6 h1 h2]
  cases k2
  · rw [tOf_t]
  · rw [refine_lorentz_boost_beta3_tau _ _ _ a3 _ _ _ (hβ rfl) hd, tOf_cart]

/-- C01 + C02 for `boost_beta3`: every key denotes the general boost of the denotation. -/
theorem refine_lorentz_boost_beta3_spec (k0 : Az) (k1 : Lon) (k2 : Tmp) (k3 : Az) (k4 : Lon) (a0 a1 a2 a3 a4 a5 a6 : ℝ)
    (h1 : TanOK k1 a2) (h2 : TanOK k4 a6) (hd : CanonTmp k2 a3) (hβ : mag2Of k3 k4 a4 a5 a6 < 1) :
    interp4 (lorentz_boost_beta3.ret k0 k1 k2 k3 k4) (lorentz_boost_beta3.eval k0 k1 k2 k3 k4 a0 a1 a2 a3 a4 a5 a6)
      = some (boostU (1 / sqrt (1 - mag2Of k3 k4 a4 a5 a6)) (1 / sqrt (1 - mag2Of k3 k4 a4 a5 a6) * xOf k3 a4 a5)
          (1 / sqrt (1 - mag2Of k3 k4 a4 a5 a6) * yOf k3 a4 a5) (1 / sqrt (1 - mag2Of k3 k4 a4 a5 a6) * zOf k3 k4 a4 a5 a6)
          (cart4 k0 k1 k2 a0 a1 a2 a3)) := by
  rw [refine_lorentz_boost_beta3_cart k0 k1 k2 k3 k4 a0 a1 a2 a3 a4 a5 a6 h1 h2 hd (fun _ => hβ), refine_lorentz_boost_beta3_cart_t]
  rfl

set_option maxHeartbeats 1000000 in
set_option linter.unusedSimpArgs false in
/-- τ-keys, without any assumption on the boost vector: the spatial part is that of the Cartesian-`t` result … -/
theorem refine_lorentz_boost_beta3_tau_spatial (k0 : Az) (k1 : Lon) (k3 : Az) (k4 : Lon) (a0 a1 a2 a3 a4 a5 a6 : ℝ)
    (h1 : TanOK k1 a2) (h2 : TanOK k4 a6) (hd : 0 ≤ a3) :
    let r := lorentz_boost_beta3.eval k0 k1 .tau k3 k4 a0 a1 a2 a3 a4 a5 a6
    let r' := lorentz_boost_beta3.eval .xy .z .t .xy .z (xOf k0 a0 a1) (yOf k0 a0 a1) (zOf k0 k1 a0 a1 a2)
      (tOf k0 k1 .tau a0 a1 a2 a3) (xOf k3 a4 a5) (yOf k3 a4 a5) (zOf k3 k4 a4 a5 a6)
    interp3 (lorentz_boost_beta3.ret k0 k1 .tau k3 k4) (r.1, r.2.1, r.2.2.1) = some (r'.1, r'.2.1, r'.2.2.1) := by
  have hz1 := refine_spatial_z k0 k1 a0 a1 a2 h1
  have hz2 := refine_spatial_z k3 k4 a4 a5 a6 h2
  have hT : lorentz_t.xy_z_tau (xOf k0 a0 a1) (yOf k0 a0 a1) (zOf k0 k1 a0 a1 a2) a3 = tOf k0 k1 .tau a0 a1 a2 a3 :=
    (lorentz_t_eq_tOf .xy .z .tau _ _ _ a3 trivial hd).trans (tOf_cart k0 k1 .tau a0 a1 a2 a3)
  cases k0 <;> cases k1 <;> cases k3 <;> cases k4 <;> simp only [spatial_z.eval] at hz1 hz2 <;>
    simp only [xOf, yOf, zOf] at hT <;>
    simp only [d_lorentz_boost_beta3, d_lorentz_transform4D, hz1, hz2, conv_x_rhophi, conv_y_rhophi, conv_x_xy, conv_y_xy,
      conv_z_xy_z, interp3, retAz, retLon] <;>
    simp only [cart3, xOf, yOf, zOf, hT]

/-- … and the returned τ is the stored τ. -/
theorem refine_lorentz_boost_beta3_tau_stored (k0 : Az) (k1 : Lon) (k3 : Az) (k4 : Lon) (a0 a1 a2 a3 a4 a5 a6 : ℝ) :
    (lorentz_boost_beta3.eval k0 k1 .tau k3 k4 a0 a1 a2 a3 a4 a5 a6).2.2.2 = a3 := by
  cases k0 <;> cases k1 <;> cases k3 <;> cases k4 <;> rfl

example : mag2Of .xy .z (1 / 2) 0 0 < 1 := by norm_num [mag2Of, xOf, yOf, zOf]

/-! ### boost_p4 (144 keys) -/

set_option maxHeartbeats 4000000 in
set_option linter.unusedSimpArgs false in
/-- C01 for `boost_p4`, all 144 keys: same denotation as the all-Cartesian key of the same temporal kinds. -/
theorem refine_lorentz_boost_p4 (k0 : Az) (k1 : Lon) (k2 : Tmp) (k3 : Az) (k4 : Lon) (k5 : Tmp)
    (a0 a1 a2 a3 a4 a5 a6 a7 : ℝ) (h1 : TanOK k1 a2) (h2 : TanOK k4 a6) (hs2 : SinOK k4 a6) :
    interp4 (lorentz_boost_p4.ret k0 k1 k2 k3 k4 k5) (lorentz_boost_p4.eval k0 k1 k2 k3 k4 k5 a0 a1 a2 a3 a4 a5 a6 a7)
      = interp4 (lorentz_boost_p4.ret .xy .z k2 .xy .z k5)
          (lorentz_boost_p4.eval .xy .z k2 .xy .z k5 (xOf k0 a0 a1) (yOf k0 a0 a1) (zOf k0 k1 a0 a1 a2) a3
            (xOf k3 a4 a5) (yOf k3 a4 a5) (zOf k3 k4 a4 a5 a6) a7) := by
  have hz1 := refine_spatial_z k0 k1 a0 a1 a2 h1
  have hz2 := refine_spatial_z k3 k4 a4 a5 a6 h2
  have hm := refine_spatial_mag2 k3 k4 a4 a5 a6 hs2
  cases k0 <;> cases k1 <;> cases k2 <;> cases k3 <;> cases k4 <;> cases k5 <;>
    simp only [spatial_z.eval, spatial_mag2.eval] at hz1 hz2 hm <;>
    simp only [d_lorentz_boost_p4, hz1, hz2, hm, conv_x_rhophi, conv_y_rhophi, conv_x_xy, conv_y_xy, conv_z_xy_z] <;>
    simp only [spatial_mag2.xy_z, mag2Of, xOf, yOf, zOf]

/-- the boost vector stored with τ (`τ₂ ≥ 0`) gives the same raw result as the one stored with `t₂ = √(τ₂² + |p₂|²)` -/
theorem refine_lorentz_boost_p4_tau2 (k2 : Tmp) (x1 y1 z1 d x2 y2 z2 τ2 : ℝ) (hτ : 0 ≤ τ2) :
    lorentz_boost_p4.eval .xy .z k2 .xy .z .tau x1 y1 z1 d x2 y2 z2 τ2
      = lorentz_boost_p4.eval .xy .z k2 .xy .z .t x1 y1 z1 d x2 y2 z2 (tOf .xy .z .tau x2 y2 z2 τ2) := by
  have hE : sqrt (τ2 ^ 2 + spatial_mag2.xy_z x2 y2 z2) = tOf .xy .z .tau x2 y2 z2 τ2 := rfl
  have hm2 : tOf .xy .z .tau x2 y2 z2 τ2 ^ 2 - spatial_mag2.xy_z x2 y2 z2 = τ2 ^ 2 := by
    rw [← hE, sq_sqrt (by simp only [spatial_mag2.xy_z]; positivity)]; ring
  have hm : sqrt (τ2 ^ 2) = τ2 := sqrt_sq hτ
  cases k2 <;>
    simp only [lorentz_boost_p4.eval, lorentz_boost_p4.k_xy_z_tau_xy_z_t, lorentz_boost_p4.k_xy_z_tau_xy_z_tau,
      lorentz_boost_p4.cartesian_t_xy_z_t, lorentz_boost_p4.cartesian_t_xy_z_tau, lorentz_boost_p4.cartesian_tau_xy_z_t,
      lorentz_boost_p4.cartesian_tau_xy_z_tau, hE, hm2, hm]

/-- the all-Cartesian `t`,`t` key is the general boost with four-velocity `p₂ / M`, `M = √(t₂² − |p₂|²)` (C02) -/
theorem refine_lorentz_boost_p4_cart_t (x1 y1 z1 t1 x2 y2 z2 t2 : ℝ) (hM : 0 < t2 ^ 2 - (x2 ^ 2 + y2 ^ 2 + z2 ^ 2)) :
    lorentz_boost_p4.eval .xy .z .t .xy .z .t x1 y1 z1 t1 x2 y2 z2 t2
      = boostU (t2 / sqrt (t2 ^ 2 - (x2 ^ 2 + y2 ^ 2 + z2 ^ 2))) (x2 / sqrt (t2 ^ 2 - (x2 ^ 2 + y2 ^ 2 + z2 ^ 2)))
          (y2 / sqrt (t2 ^ 2 - (x2 ^ 2 + y2 ^ 2 + z2 ^ 2))) (z2 / sqrt (t2 ^ 2 - (x2 ^ 2 + y2 ^ 2 + z2 ^ 2)))
          (x1, y1, z1, t1) := by
  have hMM : t2 ^ 2 - (x2 ^ 2 + y2 ^ 2 + z2 ^ 2) = sqrt (t2 ^ 2 - (x2 ^ 2 + y2 ^ 2 + z2 ^ 2)) ^ 2 := (sq_sqrt hM.le).symm
  simp only [lorentz_boost_p4.eval, lorentz_boost_p4.cartesian_t_xy_z_t, lorentz_boost_p4.cartesian_t,
    d_lorentz_transform4D, d_spatial_mag2, boostU, Prod.mk.injEq]
  generalize sqrt (t2 ^ 2 - (x2 ^ 2 + y2 ^ 2 + z2 ^ 2)) = M at hMM ⊢
  simp only [hMM]
  generalize t2 / M + 1 = W
  exact ⟨by ring, by ring, by ring, trivial⟩

theorem refine_lorentz_boost_p4_tau1 (x1 y1 z1 τ1 x2 y2 z2 t2 : ℝ) (hτ : 0 ≤ τ1)
    (hM : 0 < t2 ^ 2 - (x2 ^ 2 + y2 ^ 2 + z2 ^ 2)) (ht2 : 0 < t2) :
    interp4 (lorentz_boost_p4.ret .xy .z .tau .xy .z .t) (lorentz_boost_p4.eval .xy .z .tau .xy .z .t x1 y1 z1 τ1 x2 y2 z2 t2)
      = interp4 (lorentz_boost_p4.ret .xy .z .t .xy .z .t)
          (lorentz_boost_p4.eval .xy .z .t .xy .z .t x1 y1 z1 (tOf .xy .z .tau x1 y1 z1 τ1) x2 y2 z2 t2) := by
  have hT : lorentz_t.xy_z_tau x1 y1 z1 τ1 = tOf .xy .z .tau x1 y1 z1 τ1 := lorentz_t_eq_tOf .xy .z .tau x1 y1 z1 τ1 trivial hτ
  have hMM : t2 ^ 2 - (x2 ^ 2 + y2 ^ 2 + z2 ^ 2) = sqrt (t2 ^ 2 - (x2 ^ 2 + y2 ^ 2 + z2 ^ 2)) ^ 2 := (sq_sqrt hM.le).symm
  have hM0 : 0 < sqrt (t2 ^ 2 - (x2 ^ 2 + y2 ^ 2 + z2 ^ 2)) := sqrt_pos.mpr hM
  have hTsq : tOf .xy .z .tau x1 y1 z1 τ1 ^ 2 = τ1 ^ 2 + (x1 ^ 2 + y1 ^ 2 + z1 ^ 2) := by
    simp only [tOf, mag2Of, xOf, yOf, zOf]; rw [sq_sqrt (by positivity)]
  have hT0 : 0 ≤ tOf .xy .z .tau x1 y1 z1 τ1 := by simp only [tOf]; exact sqrt_nonneg _
  rw [refine_lorentz_boost_p4_cart_t _ _ _ _ _ _ _ _ hM]
  simp only [lorentz_boost_p4.eval, lorentz_boost_p4.ret, lorentz_boost_p4.k_xy_z_tau_xy_z_t,
    lorentz_boost_p4.cartesian_tau_xy_z_t, lorentz_boost_p4.cartesian_tau,
    d_lorentz_transform4D, d_spatial_mag2, planar_x.xy, planar_y.xy, spatial_z.xy_z, hT, interp4, retAz,
    retLon, retTmp, boostU, cart4, xOf, yOf, zOf, tOf_t, Option.some.injEq, Prod.mk.injEq]
  generalize sqrt (t2 ^ 2 - (x2 ^ 2 + y2 ^ 2 + z2 ^ 2)) = M at hMM hM0 ⊢
  have hG : (t2 / M) ^ 2 = 1 + ((x2 / M) ^ 2 + (y2 / M) ^ 2 + (z2 / M) ^ 2) := by
    field_simp
    linear_combination hMM
  have e := L.boostU_time (t2 / M) (x2 / M) (y2 / M) (z2 / M) x1 y1 z1 _ (τ1 ^ 2) hG (by positivity) hT0 hTsq (sq_nonneg τ1)
  simp only [hMM]
  generalize t2 / M + 1 = W at e ⊢
  refine ⟨by ring, by ring, by ring, ?_⟩
  rw [← e]
  simp only [tOf, mag2Of, xOf, yOf, zOf]
  congr 1; ring

/-- C01 for `boost_p4`: every key denotes the all-Cartesian-`t`,`t` result on the denotations of the operands.
For a τ-stored first operand the boost vector must be a physical momentum (time-like, positive energy). -/
theorem refine_lorentz_boost_p4_cart (k0 : Az) (k1 : Lon) (k2 : Tmp) (k3 : Az) (k4 : Lon) (k5 : Tmp)
    (a0 a1 a2 a3 a4 a5 a6 a7 : ℝ) (h1 : TanOK k1 a2) (h2 : TanOK k4 a6) (hs2 : SinOK k4 a6)
    (hd1 : CanonTmp k2 a3) (hd2 : CanonTmp k5 a7)
    (hp : k2 = .tau → 0 < tOf k3 k4 k5 a4 a5 a6 a7 ^ 2 - mag2Of k3 k4 a4 a5 a6 ∧ 0 < tOf k3 k4 k5 a4 a5 a6 a7) :
    interp4 (lorentz_boost_p4.ret k0 k1 k2 k3 k4 k5) (lorentz_boost_p4.eval k0 k1 k2 k3 k4 k5 a0 a1 a2 a3 a4 a5 a6 a7)
      = interp4 (lorentz_boost_p4.ret .xy .z .t .xy .z .t)
          (lorentz_boost_p4.eval .xy .z .t .xy .z .t (xOf k0 a0 a1) (yOf k0 a0 a1) (zOf k0 k1 a0 a1 a2)
            (tOf k0 k1 k2 a0 a1 a2 a3) (xOf k3 a4 a5) (yOf k3 a4 a5) (zOf k3 k4 a4 a5 a6) (tOf k3 k4 k5 a4 a5 a6 a7)) := by
  rw [refine_lorentz_boost_p4 k0 k1 k2 k3 k4 k5 a0 a1 a2 a3 a4 a5 a6 a7 h1 h2 hs2]
  have e5 : interp4 (lorentz_boost_p4.ret .xy .z k2 .xy .z k5)
        (lorentz_boost_p4.eval .xy .z k2 .xy .z k5 (xOf k0 a0 a1) (yOf k0 a0 a1) (zOf k0 k1 a0 a1 a2) a3
          (xOf k3 a4 a5) (yOf k3 a4 a5) (zOf k3 k4 a4 a5 a6) a7)
      = interp4 (lorentz_boost_p4.ret .xy .z k2 .xy .z .t)
        (lorentz_boost_p4.eval .xy .z k2 .xy .z .t (xOf k0 a0 a1) (yOf k0 a0 a1) (zOf k0 k1 a0 a1 a2) a3
          (xOf k3 a4 a5) (yOf k3 a4 a5) (zOf k3 k4 a4 a5 a6) (tOf k3 k4 k5 a4 a5 a6 a7)) := by
    cases k5
    · rw [tOf_t]
    · rw [refine_lorentz_boost_p4_tau2 k2 _ _ _ a3 _ _ _ a7 hd2, tOf_cart]
      cases k2 <;> rfl
  rw [e5]
  cases k2
  · rw [tOf_t]
  · obtain ⟨hm, ht⟩ := hp rfl
    rw [refine_lorentz_boost_p4_tau1 _ _ _ a3 _ _ _ _ hd1 hm ht, tOf_cart]

/-- C01 + C02 for `boost_p4`: every key denotes the general boost of the first operand with the four-velocity
`p₂ / M` of the second -/
theorem refine_lorentz_boost_p4_spec (k0 : Az) (k1 : Lon) (k2 : Tmp) (k3 : Az) (k4 : Lon) (k5 : Tmp)
    (a0 a1 a2 a3 a4 a5 a6 a7 : ℝ) (h1 : TanOK k1 a2) (h2 : TanOK k4 a6) (hs2 : SinOK k4 a6)
    (hd1 : CanonTmp k2 a3) (hd2 : CanonTmp k5 a7)
    (hm : 0 < tOf k3 k4 k5 a4 a5 a6 a7 ^ 2 - mag2Of k3 k4 a4 a5 a6) (ht : 0 < tOf k3 k4 k5 a4 a5 a6 a7) :
    interp4 (lorentz_boost_p4.ret k0 k1 k2 k3 k4 k5) (lorentz_boost_p4.eval k0 k1 k2 k3 k4 k5 a0 a1 a2 a3 a4 a5 a6 a7)
      = some (boostU (tOf k3 k4 k5 a4 a5 a6 a7 / sqrt (tOf k3 k4 k5 a4 a5 a6 a7 ^ 2 - mag2Of k3 k4 a4 a5 a6))
          (xOf k3 a4 a5 / sqrt (tOf k3 k4 k5 a4 a5 a6 a7 ^ 2 - mag2Of k3 k4 a4 a5 a6))
          (yOf k3 a4 a5 / sqrt (tOf k3 k4 k5 a4 a5 a6 a7 ^ 2 - mag2Of k3 k4 a4 a5 a6))
          (zOf k3 k4 a4 a5 a6 / sqrt (tOf k3 k4 k5 a4 a5 a6 a7 ^ 2 - mag2Of k3 k4 a4 a5 a6))
          (cart4 k0 k1 k2 a0 a1 a2 a3)) := by
  rw [refine_lorentz_boost_p4_cart k0 k1 k2 k3 k4 k5 a0 a1 a2 a3 a4 a5 a6 a7 h1 h2 hs2 hd1 hd2 (fun _ => ⟨hm, ht⟩),
    refine_lorentz_boost_p4_cart_t _ _ _ _ _ _ _ _ hm]
  rfl

set_option maxHeartbeats 4000000 in
set_option linter.unusedSimpArgs false in
/-- τ-stored first operand, without any assumption on the boost vector beyond representability: the spatial part is that
of the Cartesian-`t` result … -/
theorem refine_lorentz_boost_p4_tau_spatial (k0 : Az) (k1 : Lon) (k3 : Az) (k4 : Lon) (k5 : Tmp)
    (a0 a1 a2 a3 a4 a5 a6 a7 : ℝ) (h1 : TanOK k1 a2) (h2 : TanOK k4 a6) (hs2 : SinOK k4 a6) (hd : 0 ≤ a3) :
    let r := lorentz_boost_p4.eval k0 k1 .tau k3 k4 k5 a0 a1 a2 a3 a4 a5 a6 a7
    let r' := lorentz_boost_p4.eval .xy .z .t .xy .z k5 (xOf k0 a0 a1) (yOf k0 a0 a1) (zOf k0 k1 a0 a1 a2)
      (tOf k0 k1 .tau a0 a1 a2 a3) (xOf k3 a4 a5) (yOf k3 a4 a5) (zOf k3 k4 a4 a5 a6) a7
    interp3 (lorentz_boost_p4.ret k0 k1 .tau k3 k4 k5) (r.1, r.2.1, r.2.2.1) = some (r'.1, r'.2.1, r'.2.2.1) := by
  have hz1 := refine_spatial_z k0 k1 a0 a1 a2 h1
  have hz2 := refine_spatial_z k3 k4 a4 a5 a6 h2
  have hm := refine_spatial_mag2 k3 k4 a4 a5 a6 hs2
  have hT : lorentz_t.xy_z_tau (xOf k0 a0 a1) (yOf k0 a0 a1) (zOf k0 k1 a0 a1 a2) a3 = tOf k0 k1 .tau a0 a1 a2 a3 :=
    (lorentz_t_eq_tOf .xy .z .tau _ _ _ a3 trivial hd).trans (tOf_cart k0 k1 .tau a0 a1 a2 a3)
  cases k0 <;> cases k1 <;> cases k3 <;> cases k4 <;> cases k5 <;>
    simp only [spatial_z.eval, spatial_mag2.eval] at hz1 hz2 hm <;>
    simp only [xOf, yOf, zOf] at hT <;>
    simp only [d_lorentz_boost_p4, d_lorentz_transform4D, hz1, hz2, hm, conv_x_rhophi, conv_y_rhophi, conv_x_xy, conv_y_xy,
      conv_z_xy_z, interp3, retAz, retLon] <;>
    simp only [cart3, spatial_mag2.xy_z, mag2Of, xOf, yOf, zOf, hT]

/-- … and the returned τ is the stored τ. -/
theorem refine_lorentz_boost_p4_tau_stored (k0 : Az) (k1 : Lon) (k3 : Az) (k4 : Lon) (k5 : Tmp)
    (a0 a1 a2 a3 a4 a5 a6 a7 : ℝ) :
    (lorentz_boost_p4.eval k0 k1 .tau k3 k4 k5 a0 a1 a2 a3 a4 a5 a6 a7).2.2.2 = a3 := by
  cases k0 <;> cases k1 <;> cases k3 <;> cases k4 <;> cases k5 <;> rfl

example : 0 < tOf .xy .z .t 0 0 0 1 ^ 2 - mag2Of .xy .z 0 0 0 ∧ 0 < tOf .xy .z .t 0 0 0 1 := by
  norm_num [tOf, mag2Of, xOf, yOf, zOf]

/-! ### dot: the Minkowski product of the denotations, metric (−,−,−,+) (C01 + C02, 144 keys) -/

/-- all 144 closures are `t₁·t₂ − p₁·p₂` with the accessors of the respective keys -/
theorem lorentz_dot_eval_eq (k0 : Az) (k1 : Lon) (k2 : Tmp) (k3 : Az) (k4 : Lon) (k5 : Tmp) (a0 a1 a2 a3 a4 a5 a6 a7 : ℝ) :
    lorentz_dot.eval k0 k1 k2 k3 k4 k5 a0 a1 a2 a3 a4 a5 a6 a7
      = lorentz_t.eval k0 k1 k2 a0 a1 a2 a3 * lorentz_t.eval k3 k4 k5 a4 a5 a6 a7
        - spatial_dot.eval k0 k1 k3 k4 a0 a1 a2 a4 a5 a6 := by
  cases k0 <;> cases k1 <;> cases k2 <;> cases k3 <;> cases k4 <;> cases k5 <;> rfl

/-- `dot` computes the Minkowski product of the denotations for all 144 keys -/
theorem refine_lorentz_dot (k0 : Az) (k1 : Lon) (k2 : Tmp) (k3 : Az) (k4 : Lon) (k5 : Tmp)
    (a0 a1 a2 a3 a4 a5 a6 a7 : ℝ) (h1 : TanOK k1 a2) (h2 : TanOK k4 a6) (hs1 : SinOK k1 a2) (hs2 : SinOK k4 a6)
    (hd1 : CanonTmp k2 a3) (hd2 : CanonTmp k5 a7) :
    lorentz_dot.eval k0 k1 k2 k3 k4 k5 a0 a1 a2 a3 a4 a5 a6 a7
      = mdot (cart4 k0 k1 k2 a0 a1 a2 a3) (cart4 k3 k4 k5 a4 a5 a6 a7) := by
  rw [lorentz_dot_eval_eq, lorentz_t_eq_tOf k0 k1 k2 a0 a1 a2 a3 hs1 hd1, lorentz_t_eq_tOf k3 k4 k5 a4 a5 a6 a7 hs2 hd2,
    refine_spatial_dot k0 k1 k3 k4 a0 a1 a2 a4 a5 a6 h1 h2]
  simp only [mdot, dot3, cart3, cart4]
  ring

example : TanOK .theta 1 ∧ SinOK .theta 1 ∧ CanonTmp .tau 2 :=
  ⟨ne_of_gt cos_one_pos, (sin_pos_of_pos_of_lt_pi one_pos (by linarith [two_le_pi])).ne', by show (0 : ℝ) ≤ 2; norm_num⟩

/-! ### scale -/

/-- interpretation through a result type declared in the operand's own system -/
theorem interp3_same (k0 : Az) (k1 : Lon) (v : ℝ × ℝ × ℝ) :
    interp3 (Ret.vec [RP.az k0, RP.lon k1]) v = some (cart3 k0 k1 v.1 v.2.1 v.2.2) := rfl
theorem interp4_same (k0 : Az) (k1 : Lon) (k2 : Tmp) (v : ℝ × ℝ × ℝ × ℝ) :
    interp4 (Ret.vec [RP.az k0, RP.lon k1, RP.tmp k2]) v = some (cart4 k0 k1 k2 v.1 v.2.1 v.2.2.1 v.2.2.2) := rfl

/-- a 4-vector whose stored spatial part denotes `f·p` and whose stored temporal coordinate is `f·d` denotes `f·(p, t)`;
for τ storage this needs `0 ≤ f` (a τ-stored vector always has `t ≥ 0`) -/
theorem cart4_of_scaled (k0 : Az) (k1 : Lon) (k2 : Tmp) (f a b c d a' b' c' : ℝ)
    (hC : cart3 k0 k1 a' b' c' = smul3 f (cart3 k0 k1 a b c)) (hf : k2 = .tau → 0 ≤ f) :
    cart4 k0 k1 k2 a' b' c' (d * f) = smul4 f (cart4 k0 k1 k2 a b c d) := by
  simp only [cart3, smul3, Prod.mk.injEq] at hC
  obtain ⟨hx, hy, hz⟩ := hC
  cases k2
  · simp only [cart4, smul4, tOf_t, hx, hy, hz, mul_comm d f]
  · have h0 := hf rfl
    have ht : tOf k0 k1 .tau a' b' c' (d * f) = f * tOf k0 k1 .tau a b c d := by
      have e : ∀ (k0 : Az) (k1 : Lon) (a b c d : ℝ),
          tOf k0 k1 .tau a b c d = sqrt (d ^ 2 + (xOf k0 a b ^ 2 + yOf k0 a b ^ 2 + zOf k0 k1 a b c ^ 2)) := by
        intro k0 k1 a b c d; cases k0 <;> cases k1 <;> rfl
      rw [e, e, hx, hy, hz, ← sqrt_sq h0, ← sqrt_mul (sq_nonneg f), sqrt_sq h0]
      congr 1; ring
    simp only [cart4, smul4, hx, hy, hz, ht]

theorem lorentz_scale_eval_eq (k0 : Az) (k1 : Lon) (k2 : Tmp) (f a b c d : ℝ) :
    lorentz_scale.eval k0 k1 k2 f a b c d
      = ((spatial_scale.eval k0 k1 f a b c).1, (spatial_scale.eval k0 k1 f a b c).2.1,
          (spatial_scale.eval k0 k1 f a b c).2.2, d * f) := by
  cases k0 <;> cases k1 <;> cases k2 <;> rfl

/-- `scale` multiplies the denoted 4-vector by the factor; for τ storage only for `0 ≤ f` (see
`refine_lorentz_scale_defect`). `ThetaRange`: the stored θ lies in `[0, π]` (implied by `CanonLon`). -/
theorem refine_lorentz_scale_partial (k0 : Az) (k1 : Lon) (k2 : Tmp) (f a b c d : ℝ) (h : ThetaRange k1 c)
    (hf : k2 = .tau → 0 ≤ f) :
    interp4 (lorentz_scale.ret k0 k1 k2) (lorentz_scale.eval k0 k1 k2 f a b c d)
      = some (smul4 f (cart4 k0 k1 k2 a b c d)) := by
  have hS := refine_spatial_scale k0 k1 f a b c h
  have hr : spatial_scale.ret k0 k1 = Ret.vec [RP.az k0, RP.lon k1] := by cases k0 <;> cases k1 <;> rfl
  have hr4 : lorentz_scale.ret k0 k1 k2 = Ret.vec [RP.az k0, RP.lon k1, RP.tmp k2] := by
    cases k0 <;> cases k1 <;> cases k2 <;> rfl
  rw [hr, interp3_same, Option.some.injEq] at hS
  rw [hr4, interp4_same, lorentz_scale_eval_eq]
  exact congrArg some (cart4_of_scaled k0 k1 k2 f a b c d _ _ _ hS hf)

example : ThetaRange .theta 1 := ⟨by norm_num, by linarith [two_le_pi]⟩

/-! ### add / subtract (144 keys each)

The result system is the one declared by `spatial_add` / `spatial_subtract`; the temporal coordinate of the result is
`t₁ ± t₂`, except for the 36 τ,τ keys, which return `τ' = lorentz_tau(result, t₁ ± t₂)`. -/

/-- declared azimuthal / longitudinal system of a result type -/
def azOfRet (r : Ret) : Az := (retAz r).getD .xy
def lonOfRet (r : Ret) : Lon := (retLon r).getD .z

/-- the code's `tau` accessor for `t` storage: `copysign(√|s|, s)`, `s = t² − |p|²` -/
theorem lorentz_tau_t_eq (k0 : Az) (k1 : Lon) (a b c t : ℝ) (hs : SinOK k1 c) :
    lorentz_tau.eval k0 k1 .t a b c t
      = P.copysign (sqrt |t ^ 2 - mag2Of k0 k1 a b c|) (t ^ 2 - mag2Of k0 k1 a b c) := by
  have hm := refine_spatial_mag2 k0 k1 a b c hs
  cases k0 <;> cases k1 <;> simp only [spatial_mag2.eval] at hm <;>
    simp only [d_lorentz_tau, d_lorentz_tau2, hm]

/-- a result stored as (spatial part denoting `P`, `τ' = tau(…, T)`) denotes `(P, T)` when `(P, T)` is causal and
future-directed ("exact result representable in τ storage") -/
theorem cart4_tau_of_causal (az : Az) (lon : Lon) (a b c T : ℝ) (q : ℝ × ℝ × ℝ) (hA : cart3 az lon a b c = q)
    (hs : SinOK lon c) (hT : 0 ≤ T) (hc : q.1 ^ 2 + q.2.1 ^ 2 + q.2.2 ^ 2 ≤ T ^ 2) :
    cart4 az lon .tau a b c (lorentz_tau.eval az lon .t a b c T) = (q.1, q.2.1, q.2.2, T) := by
  subst hA
  have hm : mag2Of az lon a b c = xOf az a b ^ 2 + yOf az a b ^ 2 + zOf az lon a b c ^ 2 := rfl
  have hs0 : 0 ≤ T ^ 2 - mag2Of az lon a b c := by rw [hm]; simp only [cart3] at hc; linarith
  have hτ : lorentz_tau.eval az lon .t a b c T = sqrt (T ^ 2 - mag2Of az lon a b c) := by
    rw [lorentz_tau_t_eq az lon a b c T hs]
    unfold P.copysign
    rw [if_pos hs0, abs_of_nonneg hs0, abs_of_nonneg (sqrt_nonneg _)]
  have ht : tOf az lon .tau a b c (sqrt (T ^ 2 - mag2Of az lon a b c)) = T := by
    have e : tOf az lon .tau a b c (sqrt (T ^ 2 - mag2Of az lon a b c))
        = sqrt (sqrt (T ^ 2 - mag2Of az lon a b c) ^ 2 + mag2Of az lon a b c) := by
      cases az <;> cases lon <;> rfl
    rw [e, sq_sqrt hs0, sub_add_cancel, sqrt_sq hT]
  rw [hτ]
  simp only [cart4, cart3, ht]

/-- `θ` produced from an off-axis Cartesian / cylindrical point has `sin θ ≠ 0` -/
theorem sin_theta_xy_z_ne (x y z : ℝ) (h : 0 < x ^ 2 + y ^ 2) : sin (spatial_theta.xy_z x y z) ≠ 0 := by
  have hr : 0 < rhoOf .xy x y := sqrt_pos.mpr h
  have := refine_spatial_theta_mem .xy .z x y z hr trivial
  exact (sin_pos_of_pos_of_lt_pi this.1 this.2).ne'
theorem sin_theta_rhophi_z_ne (r p z : ℝ) (h : 0 < r) : sin (spatial_theta.rhophi_z r p z) ≠ 0 := by
  have := refine_spatial_theta_mem .rhophi .z r p z h trivial
  exact (sin_pos_of_pos_of_lt_pi this.1 this.2).ne'

/-- polar sum / difference: the computed `ρ` is positive when the exact result is off the origin -/
theorem planar_add_rho_pos (r1 p1 r2 p2 : ℝ)
    (h : 0 < (xOf .rhophi r1 p1 + xOf .rhophi r2 p2) ^ 2 + (yOf .rhophi r1 p1 + yOf .rhophi r2 p2) ^ 2) :
    0 < (planar_add.rhophi_rhophi r1 p1 r2 p2).1 := by
  have e := refine_planar_add .rhophi .rhophi r1 p1 r2 p2
  simp only [planar_add.eval, planar_add.ret, interp2, retAz, Option.map, cart2, add2, Option.some.injEq,
    Prod.mk.injEq] at e
  have h0 : 0 ≤ (planar_add.rhophi_rhophi r1 p1 r2 p2).1 := by
    simp only [planar_add.rhophi_rhophi]; exact sqrt_nonneg _
  rcases eq_or_lt_of_le h0 with h1 | h1
  · exfalso
    simp only [xOf, yOf] at e h
    rw [← h1, zero_mul, zero_mul] at e
    rw [← e.1, ← e.2] at h
    norm_num at h
  · exact h1
theorem planar_subtract_rho_pos (r1 p1 r2 p2 : ℝ)
    (h : 0 < (xOf .rhophi r1 p1 - xOf .rhophi r2 p2) ^ 2 + (yOf .rhophi r1 p1 - yOf .rhophi r2 p2) ^ 2) :
    0 < (planar_subtract.rhophi_rhophi r1 p1 r2 p2).1 := by
  have e := refine_planar_subtract .rhophi .rhophi r1 p1 r2 p2
  simp only [planar_subtract.eval, planar_subtract.ret, interp2, retAz, Option.map, cart2, sub2, Option.some.injEq,
    Prod.mk.injEq] at e
  have h0 : 0 ≤ (planar_subtract.rhophi_rhophi r1 p1 r2 p2).1 := by
    simp only [planar_subtract.rhophi_rhophi]; exact sqrt_nonneg _
  rcases eq_or_lt_of_le h0 with h1 | h1
  · exfalso
    simp only [xOf, yOf] at e h
    rw [← h1, zero_mul, zero_mul] at e
    rw [← e.1, ← e.2] at h
    norm_num at h
  · exact h1

/-- the longitudinal coordinate of a representable `spatial_add` result satisfies `SinOK` -/
theorem spatial_add_sinOK (k0 : Az) (k1 : Lon) (k3 : Az) (k4 : Lon) (a0 a1 a2 a4 a5 a6 : ℝ)
    (hrep : Representable3 (spatial_add.ret k0 k1 k3 k4) (add3 (cart3 k0 k1 a0 a1 a2) (cart3 k3 k4 a4 a5 a6))) :
    SinOK (lonOfRet (spatial_add.ret k0 k1 k3 k4)) (spatial_add.eval k0 k1 k3 k4 a0 a1 a2 a4 a5 a6).2.2 := by
  cases k0 <;> cases k1 <;> cases k3 <;> cases k4 <;> try exact trivial
  all_goals
    simp only [Representable3, spatial_add.ret, retLon, add3, cart3, Option.some.injEq, reduceCtorEq, false_or] at hrep
  · exact sin_theta_xy_z_ne _ _ _ hrep
  · exact sin_theta_rhophi_z_ne _ _ _ (planar_add_rho_pos _ _ _ _ hrep)

theorem spatial_subtract_sinOK (k0 : Az) (k1 : Lon) (k3 : Az) (k4 : Lon) (a0 a1 a2 a4 a5 a6 : ℝ)
    (hrep : Representable3 (spatial_subtract.ret k0 k1 k3 k4) (sub3 (cart3 k0 k1 a0 a1 a2) (cart3 k3 k4 a4 a5 a6))) :
    SinOK (lonOfRet (spatial_subtract.ret k0 k1 k3 k4)) (spatial_subtract.eval k0 k1 k3 k4 a0 a1 a2 a4 a5 a6).2.2 := by
  cases k0 <;> cases k1 <;> cases k3 <;> cases k4 <;> try exact trivial
  all_goals
    simp only [Representable3, spatial_subtract.ret, retLon, sub3, cart3, Option.some.injEq, reduceCtorEq, false_or] at hrep
  · exact sin_theta_xy_z_ne _ _ _ hrep
  · exact sin_theta_rhophi_z_ne _ _ _ (planar_subtract_rho_pos _ _ _ _ hrep)

theorem tOf_tau_eq (k0 : Az) (k1 : Lon) (a b c d : ℝ) :
    tOf k0 k1 .tau a b c d = sqrt (d ^ 2 + (xOf k0 a b ^ 2 + yOf k0 a b ^ 2 + zOf k0 k1 a b c ^ 2)) := by
  cases k0 <;> cases k1 <;> rfl

/-- the sum of two future-directed causal vectors is future-directed causal -/
theorem L.causal_add (x1 y1 z1 s1 x2 y2 z2 s2 : ℝ) (h1 : 0 ≤ s1) (h2 : 0 ≤ s2) :
    0 ≤ sqrt (s1 + (x1 ^ 2 + y1 ^ 2 + z1 ^ 2)) + sqrt (s2 + (x2 ^ 2 + y2 ^ 2 + z2 ^ 2)) ∧
    (x1 + x2) ^ 2 + (y1 + y2) ^ 2 + (z1 + z2) ^ 2
      ≤ (sqrt (s1 + (x1 ^ 2 + y1 ^ 2 + z1 ^ 2)) + sqrt (s2 + (x2 ^ 2 + y2 ^ 2 + z2 ^ 2))) ^ 2 := by
  have e1 : sqrt (s1 + (x1 ^ 2 + y1 ^ 2 + z1 ^ 2)) ^ 2 = s1 + (x1 ^ 2 + y1 ^ 2 + z1 ^ 2) := sq_sqrt (by positivity)
  have e2 : sqrt (s2 + (x2 ^ 2 + y2 ^ 2 + z2 ^ 2)) ^ 2 = s2 + (x2 ^ 2 + y2 ^ 2 + z2 ^ 2) := sq_sqrt (by positivity)
  have n1 := sqrt_nonneg (s1 + (x1 ^ 2 + y1 ^ 2 + z1 ^ 2))
  have n2 := sqrt_nonneg (s2 + (x2 ^ 2 + y2 ^ 2 + z2 ^ 2))
  generalize sqrt (s1 + (x1 ^ 2 + y1 ^ 2 + z1 ^ 2)) = T1 at e1 n1 ⊢
  generalize sqrt (s2 + (x2 ^ 2 + y2 ^ 2 + z2 ^ 2)) = T2 at e2 n2 ⊢
  refine ⟨by positivity, ?_⟩
  have hcs : (x1 * x2 + y1 * y2 + z1 * z2) ^ 2 ≤ (T1 * T2) ^ 2 := by
    have c1 : (x1 * x2 + y1 * y2 + z1 * z2) ^ 2 ≤ (x1 ^ 2 + y1 ^ 2 + z1 ^ 2) * (x2 ^ 2 + y2 ^ 2 + z2 ^ 2) := by
      nlinarith [sq_nonneg (x1 * y2 - y1 * x2), sq_nonneg (x1 * z2 - z1 * x2), sq_nonneg (y1 * z2 - z1 * y2)]
    have c2 : (x1 ^ 2 + y1 ^ 2 + z1 ^ 2) * (x2 ^ 2 + y2 ^ 2 + z2 ^ 2) ≤ T1 ^ 2 * T2 ^ 2 := by
      apply mul_le_mul <;> first | positivity | linarith
    rw [mul_pow]; linarith
  have := abs_le_of_sq_le_sq hcs (by positivity)
  have := le_abs_self (x1 * x2 + y1 * y2 + z1 * z2)
  nlinarith

theorem lorentz_add_eval_eq (k0 : Az) (k1 : Lon) (k2 : Tmp) (k3 : Az) (k4 : Lon) (k5 : Tmp) (a0 a1 a2 a3 a4 a5 a6 a7 : ℝ) :
    lorentz_add.eval k0 k1 k2 k3 k4 k5 a0 a1 a2 a3 a4 a5 a6 a7
      = ((spatial_add.eval k0 k1 k3 k4 a0 a1 a2 a4 a5 a6).1, (spatial_add.eval k0 k1 k3 k4 a0 a1 a2 a4 a5 a6).2.1,
          (spatial_add.eval k0 k1 k3 k4 a0 a1 a2 a4 a5 a6).2.2,
          match k2, k5 with
          | .tau, .tau => lorentz_tau.eval (azOfRet (spatial_add.ret k0 k1 k3 k4)) (lonOfRet (spatial_add.ret k0 k1 k3 k4)) .t
              (spatial_add.eval k0 k1 k3 k4 a0 a1 a2 a4 a5 a6).1 (spatial_add.eval k0 k1 k3 k4 a0 a1 a2 a4 a5 a6).2.1
              (spatial_add.eval k0 k1 k3 k4 a0 a1 a2 a4 a5 a6).2.2
              (lorentz_t.eval k0 k1 k2 a0 a1 a2 a3 + lorentz_t.eval k3 k4 k5 a4 a5 a6 a7)
          | _, _ => lorentz_t.eval k0 k1 k2 a0 a1 a2 a3 + lorentz_t.eval k3 k4 k5 a4 a5 a6 a7) := by
  cases k0 <;> cases k1 <;> cases k2 <;> cases k3 <;> cases k4 <;> cases k5 <;> rfl

theorem lorentz_add_ret_eq (k0 : Az) (k1 : Lon) (k2 : Tmp) (k3 : Az) (k4 : Lon) (k5 : Tmp) :
    lorentz_add.ret k0 k1 k2 k3 k4 k5
      = Ret.vec [RP.az (azOfRet (spatial_add.ret k0 k1 k3 k4)), RP.lon (lonOfRet (spatial_add.ret k0 k1 k3 k4)),
          RP.tmp (match k2, k5 with | .tau, .tau => .tau | _, _ => .t)] := by
  cases k0 <;> cases k1 <;> cases k2 <;> cases k3 <;> cases k4 <;> cases k5 <;> rfl

theorem spatial_add_ret_eq (k0 : Az) (k1 : Lon) (k3 : Az) (k4 : Lon) :
    spatial_add.ret k0 k1 k3 k4
      = Ret.vec [RP.az (azOfRet (spatial_add.ret k0 k1 k3 k4)), RP.lon (lonOfRet (spatial_add.ret k0 k1 k3 k4))] := by
  cases k0 <;> cases k1 <;> cases k3 <;> cases k4 <;> rfl

/-- `add` denotes the sum of the denoted 4-vectors, for all 144 keys. `Representable3`: results declared with a θ/η
longitudinal coordinate must be off the z axis. (For the τ,τ keys the exact sum is automatically representable in
τ storage: the sum of two future-directed causal vectors is one.) -/
theorem refine_lorentz_add (k0 : Az) (k1 : Lon) (k2 : Tmp) (k3 : Az) (k4 : Lon) (k5 : Tmp) (a0 a1 a2 a3 a4 a5 a6 a7 : ℝ)
    (h1 : TanOK k1 a2) (h2 : TanOK k4 a6) (hs1 : SinOK k1 a2) (hs2 : SinOK k4 a6)
    (hd1 : CanonTmp k2 a3) (hd2 : CanonTmp k5 a7)
    (hrep : Representable3 (spatial_add.ret k0 k1 k3 k4) (add3 (cart3 k0 k1 a0 a1 a2) (cart3 k3 k4 a4 a5 a6))) :
    interp4 (lorentz_add.ret k0 k1 k2 k3 k4 k5) (lorentz_add.eval k0 k1 k2 k3 k4 k5 a0 a1 a2 a3 a4 a5 a6 a7)
      = some (add4 (cart4 k0 k1 k2 a0 a1 a2 a3) (cart4 k3 k4 k5 a4 a5 a6 a7)) := by
  have hS := refine_spatial_add k0 k1 k3 k4 a0 a1 a2 a4 a5 a6 h1 h2 hrep
  have hso := spatial_add_sinOK k0 k1 k3 k4 a0 a1 a2 a4 a5 a6 hrep
  rw [spatial_add_ret_eq, interp3_same, Option.some.injEq] at hS
  rw [lorentz_add_eval_eq, lorentz_add_ret_eq, interp4_same,
    lorentz_t_eq_tOf k0 k1 k2 a0 a1 a2 a3 hs1 hd1, lorentz_t_eq_tOf k3 k4 k5 a4 a5 a6 a7 hs2 hd2]
  apply congrArg some
  generalize azOfRet (spatial_add.ret k0 k1 k3 k4) = az at hS hso ⊢
  generalize lonOfRet (spatial_add.ret k0 k1 k3 k4) = lon at hS hso ⊢
  generalize spatial_add.eval k0 k1 k3 k4 a0 a1 a2 a4 a5 a6 = A at hS hso ⊢
  have hxyz := hS
  simp only [cart3, add3, Prod.mk.injEq] at hxyz
  obtain ⟨hx, hy, hz⟩ := hxyz
  cases k2 <;> cases k5
  case tau.tau =>
    have hd1' : (0 : ℝ) ≤ a3 := hd1
    have hd2' : (0 : ℝ) ≤ a7 := hd2
    have hc := L.causal_add (xOf k0 a0 a1) (yOf k0 a0 a1) (zOf k0 k1 a0 a1 a2) (a3 ^ 2)
      (xOf k3 a4 a5) (yOf k3 a4 a5) (zOf k3 k4 a4 a5 a6) (a7 ^ 2) (sq_nonneg _) (sq_nonneg _)
    rw [← tOf_tau_eq, ← tOf_tau_eq] at hc
    simp only []
    rw [cart4_tau_of_causal az lon _ _ _ _ _ hS hso hc.1 (by simpa only [add3, cart3] using hc.2)]
    simp only [add4, add3, cart4, cart3]
  all_goals simp only [cart4, add4, tOf_t, hx, hy, hz]

example : Representable3 (spatial_add.ret .xy .eta .xy .eta) (add3 (cart3 .xy .eta 1 0 1) (cart3 .xy .eta 1 0 1)) :=
  Or.inr (by norm_num [add3, cart3, xOf, yOf])

theorem lorentz_subtract_eval_eq (k0 : Az) (k1 : Lon) (k2 : Tmp) (k3 : Az) (k4 : Lon) (k5 : Tmp)
    (a0 a1 a2 a3 a4 a5 a6 a7 : ℝ) :
    lorentz_subtract.eval k0 k1 k2 k3 k4 k5 a0 a1 a2 a3 a4 a5 a6 a7
      = ((spatial_subtract.eval k0 k1 k3 k4 a0 a1 a2 a4 a5 a6).1, (spatial_subtract.eval k0 k1 k3 k4 a0 a1 a2 a4 a5 a6).2.1,
          (spatial_subtract.eval k0 k1 k3 k4 a0 a1 a2 a4 a5 a6).2.2,
          match k2, k5 with
          | .tau, .tau => lorentz_tau.eval (azOfRet (spatial_subtract.ret k0 k1 k3 k4))
              (lonOfRet (spatial_subtract.ret k0 k1 k3 k4)) .t
              (spatial_subtract.eval k0 k1 k3 k4 a0 a1 a2 a4 a5 a6).1 (spatial_subtract.eval k0 k1 k3 k4 a0 a1 a2 a4 a5 a6).2.1
              (spatial_subtract.eval k0 k1 k3 k4 a0 a1 a2 a4 a5 a6).2.2
              (lorentz_t.eval k0 k1 k2 a0 a1 a2 a3 - lorentz_t.eval k3 k4 k5 a4 a5 a6 a7)
          | _, _ => lorentz_t.eval k0 k1 k2 a0 a1 a2 a3 - lorentz_t.eval k3 k4 k5 a4 a5 a6 a7) := by
  cases k0 <;> cases k1 <;> cases k2 <;> cases k3 <;> cases k4 <;> cases k5 <;> rfl

theorem lorentz_subtract_ret_eq (k0 : Az) (k1 : Lon) (k2 : Tmp) (k3 : Az) (k4 : Lon) (k5 : Tmp) :
    lorentz_subtract.ret k0 k1 k2 k3 k4 k5
      = Ret.vec [RP.az (azOfRet (spatial_subtract.ret k0 k1 k3 k4)), RP.lon (lonOfRet (spatial_subtract.ret k0 k1 k3 k4)),
          RP.tmp (match k2, k5 with | .tau, .tau => .tau | _, _ => .t)] := by
  cases k0 <;> cases k1 <;> cases k2 <;> cases k3 <;> cases k4 <;> cases k5 <;> rfl

theorem spatial_subtract_ret_eq (k0 : Az) (k1 : Lon) (k3 : Az) (k4 : Lon) :
    spatial_subtract.ret k0 k1 k3 k4
      = Ret.vec [RP.az (azOfRet (spatial_subtract.ret k0 k1 k3 k4)), RP.lon (lonOfRet (spatial_subtract.ret k0 k1 k3 k4))] := by
  cases k0 <;> cases k1 <;> cases k3 <;> cases k4 <;> rfl

/-- `subtract` denotes the difference of the denoted 4-vectors, for all 144 keys. For the 36 τ,τ keys the exact
difference must be representable in τ storage (`hc`: future-directed and causal) — a difference of two time-like
vectors need not be. -/
theorem refine_lorentz_subtract (k0 : Az) (k1 : Lon) (k2 : Tmp) (k3 : Az) (k4 : Lon) (k5 : Tmp)
    (a0 a1 a2 a3 a4 a5 a6 a7 : ℝ)
    (h1 : TanOK k1 a2) (h2 : TanOK k4 a6) (hs1 : SinOK k1 a2) (hs2 : SinOK k4 a6)
    (hd1 : CanonTmp k2 a3) (hd2 : CanonTmp k5 a7)
    (hrep : Representable3 (spatial_subtract.ret k0 k1 k3 k4) (sub3 (cart3 k0 k1 a0 a1 a2) (cart3 k3 k4 a4 a5 a6)))
    (hc : k2 = .tau → k5 = .tau →
      0 ≤ tOf k0 k1 k2 a0 a1 a2 a3 - tOf k3 k4 k5 a4 a5 a6 a7 ∧
      (xOf k0 a0 a1 - xOf k3 a4 a5) ^ 2 + (yOf k0 a0 a1 - yOf k3 a4 a5) ^ 2 + (zOf k0 k1 a0 a1 a2 - zOf k3 k4 a4 a5 a6) ^ 2
        ≤ (tOf k0 k1 k2 a0 a1 a2 a3 - tOf k3 k4 k5 a4 a5 a6 a7) ^ 2) :
    interp4 (lorentz_subtract.ret k0 k1 k2 k3 k4 k5) (lorentz_subtract.eval k0 k1 k2 k3 k4 k5 a0 a1 a2 a3 a4 a5 a6 a7)
      = some (sub4 (cart4 k0 k1 k2 a0 a1 a2 a3) (cart4 k3 k4 k5 a4 a5 a6 a7)) := by
  have hS := refine_spatial_subtract k0 k1 k3 k4 a0 a1 a2 a4 a5 a6 h1 h2 hrep
  have hso := spatial_subtract_sinOK k0 k1 k3 k4 a0 a1 a2 a4 a5 a6 hrep
  rw [spatial_subtract_ret_eq, interp3_same, Option.some.injEq] at hS
  rw [lorentz_subtract_eval_eq, lorentz_subtract_ret_eq, interp4_same,
    lorentz_t_eq_tOf k0 k1 k2 a0 a1 a2 a3 hs1 hd1, lorentz_t_eq_tOf k3 k4 k5 a4 a5 a6 a7 hs2 hd2]
  apply congrArg some
  generalize azOfRet (spatial_subtract.ret k0 k1 k3 k4) = az at hS hso ⊢
  generalize lonOfRet (spatial_subtract.ret k0 k1 k3 k4) = lon at hS hso ⊢
  generalize spatial_subtract.eval k0 k1 k3 k4 a0 a1 a2 a4 a5 a6 = A at hS hso ⊢
  have hxyz := hS
  simp only [cart3, sub3, Prod.mk.injEq] at hxyz
  obtain ⟨hx, hy, hz⟩ := hxyz
  cases k2 <;> cases k5
  case tau.tau =>
    obtain ⟨hc1, hc2⟩ := hc rfl rfl
    simp only []
    rw [cart4_tau_of_causal az lon _ _ _ _ _ hS hso hc1 (by simpa only [sub3, cart3] using hc2)]
    simp only [sub4, sub3, cart4, cart3]
  all_goals simp only [cart4, sub4, tOf_t, hx, hy, hz]

example : (0 : ℝ) ≤ tOf .xy .z .tau 0 0 0 2 - tOf .xy .z .tau 0 0 0 1 := by
  simp only [tOf, mag2Of, xOf, yOf, zOf]; norm_num

/-! ### unit: `p / √|t² − |p|²|` (12 keys) -/

theorem lorentz_tau2_t_eq (k0 : Az) (k1 : Lon) (a b c t : ℝ) (hs : SinOK k1 c) :
    lorentz_tau2.eval k0 k1 .t a b c t = t ^ 2 - mag2Of k0 k1 a b c := by
  have hm := refine_spatial_mag2 k0 k1 a b c hs
  cases k0 <;> cases k1 <;> simp only [spatial_mag2.eval] at hm <;> simp only [d_lorentz_tau2, hm]

/-- dividing the length-like stored coordinates by `n > 0` divides the denoted vector by `n` -/
theorem cart3_div (k0 : Az) (k1 : Lon) (a b c n : ℝ) (hn : 0 < n) :
    cart3 k0 k1 (a / n) (match k0 with | .xy => b / n | .rhophi => b) (match k1 with | .z => c / n | _ => c)
      = smul3 (1 / n) (cart3 k0 k1 a b c) := by
  have hr : sqrt ((a / n) ^ 2 + (b / n) ^ 2) = sqrt (a ^ 2 + b ^ 2) / n := by
    have : (a / n) ^ 2 + (b / n) ^ 2 = (a ^ 2 + b ^ 2) / n ^ 2 := by field_simp
    rw [this, sqrt_div (by positivity), sqrt_sq hn.le]
  cases k0 <;> cases k1 <;> simp only [cart3, smul3, xOf, yOf, zOf, rhoOf, hr, Prod.mk.injEq] <;>
    exact ⟨by ring, by ring, by ring⟩

/-- the normalisation and the temporal coordinate the code computes -/
noncomputable def unitNorm (k0 : Az) (k1 : Lon) (k2 : Tmp) (a b c d : ℝ) : ℝ :=
  match k2 with | .t => sqrt |lorentz_tau2.eval k0 k1 .t a b c d| | .tau => |d|
noncomputable def unitLast (k0 : Az) (k1 : Lon) (k2 : Tmp) (a b c d : ℝ) : ℝ :=
  match k2 with | .t => d / unitNorm k0 k1 .t a b c d | .tau => P.copysign 1 d

theorem lorentz_unit_eval_eq (k0 : Az) (k1 : Lon) (k2 : Tmp) (a b c d : ℝ) :
    lorentz_unit.eval k0 k1 k2 a b c d
      = (a / unitNorm k0 k1 k2 a b c d,
         (match k0 with | .xy => b / unitNorm k0 k1 k2 a b c d | .rhophi => b),
         (match k1 with | .z => c / unitNorm k0 k1 k2 a b c d | _ => c),
         unitLast k0 k1 k2 a b c d) := by
  cases k0 <;> cases k1 <;> cases k2 <;> rfl

/-- `unit` divides the denoted 4-vector by `√|t² − |p|²|`, for every key, provided the vector is not light-like -/
theorem refine_lorentz_unit (k0 : Az) (k1 : Lon) (k2 : Tmp) (a b c d : ℝ) (hs : SinOK k1 c) (hd : CanonTmp k2 d)
    (hm : tOf k0 k1 k2 a b c d ^ 2 - mag2Of k0 k1 a b c ≠ 0) :
    interp4 (lorentz_unit.ret k0 k1 k2) (lorentz_unit.eval k0 k1 k2 a b c d)
      = some (smul4 (1 / sqrt |tOf k0 k1 k2 a b c d ^ 2 - mag2Of k0 k1 a b c|) (cart4 k0 k1 k2 a b c d)) := by
  have hr4 : lorentz_unit.ret k0 k1 k2 = Ret.vec [RP.az k0, RP.lon k1, RP.tmp k2] := by
    cases k0 <;> cases k1 <;> cases k2 <;> rfl
  have hn : 0 < sqrt |tOf k0 k1 k2 a b c d ^ 2 - mag2Of k0 k1 a b c| := sqrt_pos.mpr (abs_pos.mpr hm)
  have hnorm : unitNorm k0 k1 k2 a b c d = sqrt |tOf k0 k1 k2 a b c d ^ 2 - mag2Of k0 k1 a b c| := by
    cases k2
    · simp only [unitNorm, lorentz_tau2_t_eq k0 k1 a b c d hs, tOf_t]
    · have h0 : (0 : ℝ) ≤ d := hd
      simp only [unitNorm, tOf_tau_eq]
      rw [sq_sqrt (by positivity)]
      have : d ^ 2 + (xOf k0 a b ^ 2 + yOf k0 a b ^ 2 + zOf k0 k1 a b c ^ 2) - mag2Of k0 k1 a b c = d ^ 2 := by
        unfold mag2Of; ring
      rw [this, abs_of_nonneg (sq_nonneg d), sqrt_sq h0, abs_of_nonneg h0]
  have hlast : unitLast k0 k1 k2 a b c d = d * (1 / unitNorm k0 k1 k2 a b c d) := by
    cases k2
    · simp only [unitLast]; ring
    · have h0 : (0 : ℝ) ≤ d := hd
      have hd0 : d ≠ 0 := by
        intro e; rw [← hnorm, e] at hn
        simp only [unitNorm, abs_zero] at hn
        exact lt_irrefl _ hn
      simp only [unitLast, unitNorm, abs_of_nonneg h0, P.copysign, if_pos h0, abs_one]
      field_simp
  rw [hr4, interp4_same, lorentz_unit_eval_eq, hlast]
  apply congrArg some
  rw [← hnorm] at hn ⊢
  generalize unitNorm k0 k1 k2 a b c d = n at hn ⊢
  exact cart4_of_scaled k0 k1 k2 (1 / n) a b c d _ _ _ (cart3_div k0 k1 a b c n hn) (fun _ => by positivity)

example : tOf .xy .z .t 0 0 0 1 ^ 2 - mag2Of .xy .z 0 0 0 ≠ 0 := by norm_num [tOf, mag2Of, xOf, yOf, zOf]

/-! ### deltaRapidityPhi2 / deltaRapidityPhi (144 keys each): `Δφ² + Δy²` and its square root -/

theorem lorentz_rapidity_eq (k0 : Az) (k1 : Lon) (k2 : Tmp) (a b c d : ℝ)
    (h : TanOK k1 c) (hs : SinOK k1 c) (hd : CanonTmp k2 d) :
    lorentz_rapidity.eval k0 k1 k2 a b c d = rapidityOf (cart4 k0 k1 k2 a b c d) := by
  have e : lorentz_rapidity.eval k0 k1 k2 a b c d
      = 0.5 * Real.log ((lorentz_t.eval k0 k1 k2 a b c d + spatial_z.eval k0 k1 a b c)
          / (lorentz_t.eval k0 k1 k2 a b c d - spatial_z.eval k0 k1 a b c)) := by
    cases k0 <;> cases k1 <;> cases k2 <;> rfl
  rw [e, lorentz_t_eq_tOf k0 k1 k2 a b c d hs hd, refine_spatial_z k0 k1 a b c h]
  simp only [rapidityOf, cart4]
  norm_num

theorem lorentz_deltaRapidityPhi2_eval_eq (k0 : Az) (k1 : Lon) (k2 : Tmp) (k3 : Az) (k4 : Lon) (k5 : Tmp)
    (a0 a1 a2 a3 a4 a5 a6 a7 : ℝ) :
    lorentz_deltaRapidityPhi2.eval k0 k1 k2 k3 k4 k5 a0 a1 a2 a3 a4 a5 a6 a7
      = planar_deltaphi.eval k0 k3 a0 a1 a4 a5 ^ 2
        + (lorentz_rapidity.eval k0 k1 k2 a0 a1 a2 a3 - lorentz_rapidity.eval k3 k4 k5 a4 a5 a6 a7) ^ 2 := by
  cases k0 <;> cases k1 <;> cases k2 <;> cases k3 <;> cases k4 <;> cases k5 <;> rfl

theorem lorentz_deltaRapidityPhi_eval_eq (k0 : Az) (k1 : Lon) (k2 : Tmp) (k3 : Az) (k4 : Lon) (k5 : Tmp)
    (a0 a1 a2 a3 a4 a5 a6 a7 : ℝ) :
    lorentz_deltaRapidityPhi.eval k0 k1 k2 k3 k4 k5 a0 a1 a2 a3 a4 a5 a6 a7
      = sqrt (lorentz_deltaRapidityPhi2.eval k0 k1 k2 k3 k4 k5 a0 a1 a2 a3 a4 a5 a6 a7) := by
  cases k0 <;> cases k1 <;> cases k2 <;> cases k3 <;> cases k4 <;> cases k5 <;> rfl

/-- `deltaRapidityPhi2 = Δφ² + (y₁ − y₂)²` with `Δφ` the planar `deltaphi` of the azimuthal parts (characterised by
`refine_planar_deltaphi`) and `y` the rapidity of the denoted 4-vectors. `|z| < t`: the rapidity is defined. -/
theorem refine_lorentz_deltaRapidityPhi2 (k0 : Az) (k1 : Lon) (k2 : Tmp) (k3 : Az) (k4 : Lon) (k5 : Tmp)
    (a0 a1 a2 a3 a4 a5 a6 a7 : ℝ)
    (h1 : TanOK k1 a2) (h2 : TanOK k4 a6) (hs1 : SinOK k1 a2) (hs2 : SinOK k4 a6)
    (hd1 : CanonTmp k2 a3) (hd2 : CanonTmp k5 a7)
    (_hz1 : |zOf k0 k1 a0 a1 a2| < tOf k0 k1 k2 a0 a1 a2 a3) (_hz2 : |zOf k3 k4 a4 a5 a6| < tOf k3 k4 k5 a4 a5 a6 a7) :
    lorentz_deltaRapidityPhi2.eval k0 k1 k2 k3 k4 k5 a0 a1 a2 a3 a4 a5 a6 a7
      = planar_deltaphi.eval k0 k3 a0 a1 a4 a5 ^ 2
        + (rapidityOf (cart4 k0 k1 k2 a0 a1 a2 a3) - rapidityOf (cart4 k3 k4 k5 a4 a5 a6 a7)) ^ 2 := by
  rw [lorentz_deltaRapidityPhi2_eval_eq, lorentz_rapidity_eq k0 k1 k2 a0 a1 a2 a3 h1 hs1 hd1,
    lorentz_rapidity_eq k3 k4 k5 a4 a5 a6 a7 h2 hs2 hd2]

theorem refine_lorentz_deltaRapidityPhi (k0 : Az) (k1 : Lon) (k2 : Tmp) (k3 : Az) (k4 : Lon) (k5 : Tmp)
    (a0 a1 a2 a3 a4 a5 a6 a7 : ℝ)
    (h1 : TanOK k1 a2) (h2 : TanOK k4 a6) (hs1 : SinOK k1 a2) (hs2 : SinOK k4 a6)
    (hd1 : CanonTmp k2 a3) (hd2 : CanonTmp k5 a7)
    (hz1 : |zOf k0 k1 a0 a1 a2| < tOf k0 k1 k2 a0 a1 a2 a3) (hz2 : |zOf k3 k4 a4 a5 a6| < tOf k3 k4 k5 a4 a5 a6 a7) :
    lorentz_deltaRapidityPhi.eval k0 k1 k2 k3 k4 k5 a0 a1 a2 a3 a4 a5 a6 a7
      = sqrt (planar_deltaphi.eval k0 k3 a0 a1 a4 a5 ^ 2
        + (rapidityOf (cart4 k0 k1 k2 a0 a1 a2 a3) - rapidityOf (cart4 k3 k4 k5 a4 a5 a6 a7)) ^ 2) := by
  rw [lorentz_deltaRapidityPhi_eval_eq,
    refine_lorentz_deltaRapidityPhi2 k0 k1 k2 k3 k4 k5 a0 a1 a2 a3 a4 a5 a6 a7 h1 h2 hs1 hs2 hd1 hd2 hz1 hz2]

example : |zOf .xy .z 0 0 1| < tOf .xy .z .t 0 0 1 2 := by norm_num [zOf, tOf]

end VR
