/-
Refinement theorems for the binary / transforming Lorentz (4D) compute modules
(theorem prefix `refine_lorentz_`):

* boosts (`boostX/Y/Z_beta`, `boostX/Y/Z_gamma`, `boost_beta3`, `boost_p4`) and `transform4D` — C01: the value
  computed under EVERY coordinate-system key denotes the same Cartesian 4-vector as the Cartesian-`t` variant
  applied to the denotations of the operands;
* `dot`, `scale`, `add`, `subtract`, `unit` — C01 + C02: the value denotes `Spec.mdot / smul4 / add4 / sub4 / …`
  of the denotations.

Hypotheses: `TanOK` (the code divides by `tan θ`), `SinOK` (the code divides by `sin² θ` when it needs `|p|²` of a
θ-stored vector, i.e. for τ-stored time), `CanonTmp` (`0 ≤ τ`), and for the τ-keys of the boosts a physical boost
parameter (`|β| < 1`, `1 ≤ |γ|`): the τ-variants return the STORED τ, which denotes the boosted time component only
because a Lorentz boost preserves the invariant mass.
-/
import VectorModel.Spec.Basic
import VectorModel.Spec.LorentzBin
import VectorModel.Lemmas.Real
import VectorModel.Refine.Planar
import VectorModel.Refine.SpatialZ
import VectorModel.Refine.SpatialAcc
import VectorModel.Gen.Real.lorentz_t
import VectorModel.Gen.Real.lorentz_boostX_beta
import VectorModel.Gen.Real.lorentz_boostY_beta
import VectorModel.Gen.Real.lorentz_boostZ_beta
import VectorModel.Gen.Real.lorentz_boostX_gamma
import VectorModel.Gen.Real.lorentz_boostY_gamma
import VectorModel.Gen.Real.lorentz_boostZ_gamma
import VectorModel.Gen.Real.lorentz_transform4D
import VectorModel.Gen.Real.lorentz_boost_beta3
import VectorModel.Gen.Real.lorentz_boost_p4
import VectorModel.Gen.Real.lorentz_dot
import VectorModel.Gen.Real.lorentz_scale
import VectorModel.Gen.Real.lorentz_add
import VectorModel.Gen.Real.lorentz_subtract
import VectorModel.Gen.Real.lorentz_unit
import VectorModel.Gen.Real.lorentz_deltaRapidityPhi
import VectorModel.Gen.Real.lorentz_deltaRapidityPhi2
import Mathlib.Tactic.NormNum

namespace VR
open VK Spec Real

/-! ### auxiliary real identities -/

namespace L

/-- a boost with `γ² − (βγ)² = 1`, `|βγ| ≤ γ` maps the time component `T = √(s + u²)` to `βγ·u + γ·T ≥ 0`, and the
invariant `T² − u²` is preserved -/
theorem boost_time_core (g bg u T s : ℝ) (hg : g ^ 2 - bg ^ 2 = 1) (hg0 : |bg| ≤ g)
    (hT0 : 0 ≤ T) (hT : T ^ 2 = s + u ^ 2) (hs : 0 ≤ s) :
    sqrt (s + (g * u + bg * T) ^ 2) = bg * u + g * T := by
  have hu : |u| ≤ T := by
    apply abs_le_of_sq_le_sq _ hT0
    rw [hT]; linarith
  have h1 : |bg * u| ≤ g * T := by
    rw [abs_mul]; exact mul_le_mul hg0 hu (abs_nonneg _) (le_trans (abs_nonneg _) hg0)
  have h2 : 0 ≤ bg * u + g * T := by linarith [neg_abs_le (bg * u)]
  rw [sqrt_eq_iff_mul_self_eq (by positivity) h2]
  linear_combination (-(T ^ 2 - u ^ 2)) * hg - hT

/-- the code's `γ = (1 − β²) ** −0.5`, `βγ = β·γ` for `|β| < 1` -/
theorem gam_beta {β : ℝ} (h : |β| < 1) :
    (P.rpow (1 - β ^ 2) (-0.5)) ^ 2 - (β * P.rpow (1 - β ^ 2) (-0.5)) ^ 2 = 1
      ∧ |β * P.rpow (1 - β ^ 2) (-0.5)| ≤ P.rpow (1 - β ^ 2) (-0.5) := by
  have hb : β ^ 2 < 1 := by
    have := abs_nonneg β
    rw [← sq_abs]; nlinarith
  have hpos : 0 < 1 - β ^ 2 := by linarith
  set g := P.rpow (1 - β ^ 2) (-0.5) with hgdef
  have hg0 : 0 < g := Real.rpow_pos_of_pos hpos _
  have hg2 : g ^ 2 = (1 - β ^ 2)⁻¹ := by
    rw [hgdef]; unfold P.rpow
    show ((1 - β ^ 2) ^ (-0.5 : ℝ)) ^ 2 = _
    rw [← Real.rpow_natCast, ← Real.rpow_mul hpos.le]
    norm_num
    exact Real.rpow_neg_one _
  constructor
  · rw [mul_pow, hg2]; field_simp
  · rw [abs_mul, abs_of_pos hg0]
    nlinarith [abs_nonneg β]

/-- the code's `γ = |gamma|`, `βγ = copysign(√(γ² − 1), gamma)` for `1 ≤ |gamma|` -/
theorem gam_gamma {γ : ℝ} (h : 1 ≤ |γ|) :
    |γ| ^ 2 - (P.copysign (sqrt (|γ| ^ 2 - 1)) γ) ^ 2 = 1
      ∧ |P.copysign (sqrt (|γ| ^ 2 - 1)) γ| ≤ |γ| := by
  have h1 : 0 ≤ |γ| ^ 2 - 1 := by nlinarith
  have hc : |P.copysign (sqrt (|γ| ^ 2 - 1)) γ| = sqrt (|γ| ^ 2 - 1) := by
    unfold P.copysign; split_ifs
    · rw [abs_abs, abs_of_nonneg (sqrt_nonneg _)]
    · rw [abs_neg, abs_abs, abs_of_nonneg (sqrt_nonneg _)]
  constructor
  · rw [← sq_abs (P.copysign _ _), hc, sq_sqrt h1]; ring
  · rw [hc]; apply sqrt_le_iff.mpr; constructor
    · exact abs_nonneg _
    · linarith

/-- general boost with four-velocity `(u, G)`, `G² = 1 + |u|²`: the time component `T = √(s + |p|²)` is mapped to
`u·p + G·T ≥ 0` and the invariant `T² − |p|²` is preserved -/
theorem boostU_time (G ux uy uz x y z T s : ℝ) (hG : G ^ 2 = 1 + (ux ^ 2 + uy ^ 2 + uz ^ 2)) (hG0 : 0 < G)
    (hT0 : 0 ≤ T) (hT : T ^ 2 = s + (x ^ 2 + y ^ 2 + z ^ 2)) (hs : 0 ≤ s) :
    sqrt (s + ((x + ((ux * x + uy * y + uz * z) / (G + 1) + T) * ux) ^ 2
      + (y + ((ux * x + uy * y + uz * z) / (G + 1) + T) * uy) ^ 2
      + (z + ((ux * x + uy * y + uz * z) / (G + 1) + T) * uz) ^ 2)) = (ux * x + uy * y + uz * z) + G * T := by
  have hG1 : G + 1 ≠ 0 := by positivity
  have hcs : (ux * x + uy * y + uz * z) ^ 2 ≤ (G * T) ^ 2 := by
    have h1 : (ux * x + uy * y + uz * z) ^ 2 ≤ (ux ^ 2 + uy ^ 2 + uz ^ 2) * (x ^ 2 + y ^ 2 + z ^ 2) := by
      nlinarith [sq_nonneg (ux * y - uy * x), sq_nonneg (ux * z - uz * x), sq_nonneg (uy * z - uz * y)]
    have h2 : (ux ^ 2 + uy ^ 2 + uz ^ 2) * (x ^ 2 + y ^ 2 + z ^ 2) ≤ G ^ 2 * T ^ 2 := by
      have : x ^ 2 + y ^ 2 + z ^ 2 ≤ T ^ 2 := by linarith
      have hu : 0 ≤ ux ^ 2 + uy ^ 2 + uz ^ 2 := by positivity
      have hT2 : 0 ≤ T ^ 2 := by positivity
      nlinarith
    rw [mul_pow]; linarith
  have h0 : 0 ≤ (ux * x + uy * y + uz * z) + G * T := by
    have := abs_le_of_sq_le_sq hcs (by positivity)
    linarith [neg_abs_le (ux * x + uy * y + uz * z)]
  have key : ((ux * x + uy * y + uz * z) + G * T) ^ 2 = s + ((x + ((ux * x + uy * y + uz * z) / (G + 1) + T) * ux) ^ 2
      + (y + ((ux * x + uy * y + uz * z) / (G + 1) + T) * uy) ^ 2
      + (z + ((ux * x + uy * y + uz * z) / (G + 1) + T) * uz) ^ 2) := by
    field_simp
    linear_combination (G + 1) ^ 2 * hT + ((ux * x + uy * y + uz * z) + T * (G + 1)) ^ 2 * hG
  rw [← key, sqrt_sq h0]

end L

/-! ### the time accessor `lorentz_t` on denotations (hypotheses `SinOK`, `CanonTmp` only) -/

/-- all τ-keys of `lorentz_t`: `√max(copysign(τ²,τ) + |p|², 0)` on the denotation -/
theorem lorentz_t_tau_eq (k0 : Az) (k1 : Lon) (a b c d : ℝ) (hs : SinOK k1 c) :
    lorentz_t.eval k0 k1 .tau a b c d = sqrt (max (P.copysign (d ^ 2) d + mag2Of k0 k1 a b c) 0) := by
  have hm := refine_spatial_mag2 k0 k1 a b c hs
  cases k0 <;> cases k1 <;> simp only [spatial_mag2.eval] at hm <;>
    simp only [d_lorentz_t, d_lorentz_t2, d_lorentz_tau2, hm]

/-- every key of `lorentz_t` is the Cartesian key of the same temporal kind on the denotations -/
theorem lorentz_t_conv (k0 : Az) (k1 : Lon) (k2 : Tmp) (a b c d : ℝ) (hs : SinOK k1 c) :
    lorentz_t.eval k0 k1 k2 a b c d
      = lorentz_t.eval .xy .z k2 (xOf k0 a b) (yOf k0 a b) (zOf k0 k1 a b c) d := by
  cases k2
  · cases k0 <;> cases k1 <;> rfl
  · rw [lorentz_t_tau_eq k0 k1 a b c d hs, lorentz_t_tau_eq .xy .z _ _ _ d trivial]; rfl

/-- `lorentz_t` computes the denoted time component (like `refine_lorentz_t`, but from `SinOK` instead of `CanonLon`) -/
theorem lorentz_t_eq_tOf (k0 : Az) (k1 : Lon) (k2 : Tmp) (a b c d : ℝ) (hs : SinOK k1 c) (hd : CanonTmp k2 d) :
    lorentz_t.eval k0 k1 k2 a b c d = tOf k0 k1 k2 a b c d := by
  cases k2
  · cases k0 <;> cases k1 <;> rfl
  · have h0 : (0 : ℝ) ≤ d := hd
    rw [lorentz_t_tau_eq k0 k1 a b c d hs]
    have hm : 0 ≤ mag2Of k0 k1 a b c := by unfold mag2Of; positivity
    have : P.copysign (d ^ 2) d = d ^ 2 := by
      unfold P.copysign; rw [if_pos h0, abs_of_nonneg (by positivity)]
    rw [this, max_eq_left (by positivity)]
    cases k0 <;> cases k1 <;> rfl

theorem tOf_cart (k0 : Az) (k1 : Lon) (k2 : Tmp) (a b c d : ℝ) :
    tOf .xy .z k2 (xOf k0 a b) (yOf k0 a b) (zOf k0 k1 a b c) d = tOf k0 k1 k2 a b c d := by
  cases k2 <;> cases k0 <;> cases k1 <;> rfl

theorem tOf_t (k0 : Az) (k1 : Lon) (a b c d : ℝ) : tOf k0 k1 .t a b c d = d := by
  cases k0 <;> cases k1 <;> rfl

/-- time component of a τ-stored Cartesian vector after a boost along x / y / z -/
theorem tOf_boostX (g bg x y z τ : ℝ) (hg : g ^ 2 - bg ^ 2 = 1) (hg0 : |bg| ≤ g) :
    tOf .xy .z .tau (g * x + bg * tOf .xy .z .tau x y z τ) y z τ = bg * x + g * tOf .xy .z .tau x y z τ := by
  have hT : tOf .xy .z .tau x y z τ ^ 2 = (τ ^ 2 + y ^ 2 + z ^ 2) + x ^ 2 := by
    simp only [tOf, mag2Of, xOf, yOf, zOf]; rw [sq_sqrt (by positivity)]; ring
  rw [← L.boost_time_core g bg x _ (τ ^ 2 + y ^ 2 + z ^ 2) hg hg0 (by simp only [tOf]; exact sqrt_nonneg _) hT
    (by positivity)]
  simp only [tOf, mag2Of, xOf, yOf, zOf]; congr 1; ring

theorem tOf_boostY (g bg x y z τ : ℝ) (hg : g ^ 2 - bg ^ 2 = 1) (hg0 : |bg| ≤ g) :
    tOf .xy .z .tau x (g * y + bg * tOf .xy .z .tau x y z τ) z τ = bg * y + g * tOf .xy .z .tau x y z τ := by
  have hT : tOf .xy .z .tau x y z τ ^ 2 = (τ ^ 2 + x ^ 2 + z ^ 2) + y ^ 2 := by
    simp only [tOf, mag2Of, xOf, yOf, zOf]; rw [sq_sqrt (by positivity)]; ring
  rw [← L.boost_time_core g bg y _ (τ ^ 2 + x ^ 2 + z ^ 2) hg hg0 (by simp only [tOf]; exact sqrt_nonneg _) hT
    (by positivity)]
  simp only [tOf, mag2Of, xOf, yOf, zOf]; congr 1; ring

theorem tOf_boostZ (g bg x y z τ : ℝ) (hg : g ^ 2 - bg ^ 2 = 1) (hg0 : |bg| ≤ g) :
    tOf .xy .z .tau x y (g * z + bg * tOf .xy .z .tau x y z τ) τ = bg * z + g * tOf .xy .z .tau x y z τ := by
  have hT : tOf .xy .z .tau x y z τ ^ 2 = (τ ^ 2 + x ^ 2 + y ^ 2) + z ^ 2 := by
    simp only [tOf, mag2Of, xOf, yOf, zOf]; rw [sq_sqrt (by positivity)]; ring
  rw [← L.boost_time_core g bg z _ (τ ^ 2 + x ^ 2 + y ^ 2) hg hg0 (by simp only [tOf]; exact sqrt_nonneg _) hT
    (by positivity)]
  simp only [tOf, mag2Of, xOf, yOf, zOf]; congr 1; ring

/-! ### boosts along a coordinate axis -/

/-- C01 for `boostX_beta`, all 12 keys: same denotation as the Cartesian key of the same temporal kind. -/
theorem refine_lorentz_boostX_beta (k0 : Az) (k1 : Lon) (k2 : Tmp) (β a b c d : ℝ) (h : TanOK k1 c) (hs : SinOK k1 c) :
    interp4 (lorentz_boostX_beta.ret k0 k1 k2) (lorentz_boostX_beta.eval k0 k1 k2 β a b c d)
      = interp4 (lorentz_boostX_beta.ret .xy .z k2)
          (lorentz_boostX_beta.eval .xy .z k2 β (xOf k0 a b) (yOf k0 a b) (zOf k0 k1 a b c) d) := by
  have hz := refine_spatial_z k0 k1 a b c h
  have ht := lorentz_t_conv k0 k1 k2 a b c d hs
  cases k0 <;> cases k1 <;> cases k2 <;> simp only [spatial_z.eval, lorentz_t.eval] at hz ht <;>
    simp only [d_lorentz_boostX_beta, hz, ht, conv_x_rhophi, conv_y_rhophi, interp4, retAz, retLon, retTmp] <;>
    simp only [cart4, xOf, yOf, zOf, tOf, mag2Of, rhoOf]

/-- the Cartesian τ-key returns the stored τ; for a physical boost it denotes the boosted time component. -/
theorem refine_lorentz_boostX_beta_tau (β x y z τ : ℝ) (hβ : |β| < 1) (hτ : 0 ≤ τ) :
    interp4 (lorentz_boostX_beta.ret .xy .z .tau) (lorentz_boostX_beta.eval .xy .z .tau β x y z τ)
      = interp4 (lorentz_boostX_beta.ret .xy .z .t)
          (lorentz_boostX_beta.eval .xy .z .t β x y z (tOf .xy .z .tau x y z τ)) := by
  have hT : lorentz_t.xy_z_tau x y z τ = tOf .xy .z .tau x y z τ := lorentz_t_eq_tOf .xy .z .tau x y z τ trivial hτ
  simp only [d_lorentz_boostX_beta, hT, interp4, retAz, retLon, retTmp, cart4, xOf, yOf, zOf, tOf_t]
  rw [tOf_boostX _ _ x y z τ (L.gam_beta hβ).1 (L.gam_beta hβ).2]

/-- C01 for `boostX_beta`: every key denotes the Cartesian-`t` result on the denotation of the operand. -/
theorem refine_lorentz_boostX_beta_cart (k0 : Az) (k1 : Lon) (k2 : Tmp) (β a b c d : ℝ)
    (h : TanOK k1 c) (hs : SinOK k1 c) (hd : CanonTmp k2 d) (hβ : k2 = .tau → |β| < 1) :
    interp4 (lorentz_boostX_beta.ret k0 k1 k2) (lorentz_boostX_beta.eval k0 k1 k2 β a b c d)
      = interp4 (lorentz_boostX_beta.ret .xy .z .t)
          (lorentz_boostX_beta.eval .xy .z .t β (xOf k0 a b) (yOf k0 a b) (zOf k0 k1 a b c) (tOf k0 k1 k2 a b c d)) := by
  rw [refine_lorentz_boostX_beta k0 k1 k2 β a b c d h hs]
  cases k2
  · rw [tOf_t]
  · rw [refine_lorentz_boostX_beta_tau β _ _ _ d (hβ rfl) hd, tOf_cart]

/-- τ-keys, without any assumption on β: the spatial part is that of the Cartesian-`t` result … -/
theorem refine_lorentz_boostX_beta_tau_spatial (k0 : Az) (k1 : Lon) (β a b c d : ℝ)
    (h : TanOK k1 c) (hs : SinOK k1 c) (hd : 0 ≤ d) :
    let r := lorentz_boostX_beta.eval k0 k1 .tau β a b c d
    let r' := lorentz_boostX_beta.eval .xy .z .t β (xOf k0 a b) (yOf k0 a b) (zOf k0 k1 a b c) (tOf k0 k1 .tau a b c d)
    interp3 (lorentz_boostX_beta.ret k0 k1 .tau) (r.1, r.2.1, r.2.2.1) = some (r'.1, r'.2.1, r'.2.2.1) := by
  have hz := refine_spatial_z k0 k1 a b c h
  have ht := lorentz_t_eq_tOf k0 k1 .tau a b c d hs hd
  cases k0 <;> cases k1 <;> simp only [spatial_z.eval, lorentz_t.eval] at hz ht <;>
    simp only [d_lorentz_boostX_beta, hz, ht, conv_x_rhophi, conv_y_rhophi, interp3, retAz, retLon] <;>
    simp only [cart3, xOf, yOf, zOf, rhoOf]

/-- … and the returned τ is the stored τ. -/
theorem refine_lorentz_boostX_beta_tau_stored (k0 : Az) (k1 : Lon) (β a b c d : ℝ) :
    (lorentz_boostX_beta.eval k0 k1 .tau β a b c d).2.2.2 = d := by
  cases k0 <;> cases k1 <;> rfl

/-- C01 + C02 for `boostX_beta`: every key denotes the boost along x of the denotation. -/
theorem refine_lorentz_boostX_beta_spec (k0 : Az) (k1 : Lon) (k2 : Tmp) (β a b c d : ℝ)
    (h : TanOK k1 c) (hs : SinOK k1 c) (hd : CanonTmp k2 d) (hβ : k2 = .tau → |β| < 1) :
    interp4 (lorentz_boostX_beta.ret k0 k1 k2) (lorentz_boostX_beta.eval k0 k1 k2 β a b c d)
      = some (boostX (P.rpow (1 - β ^ 2) (-0.5)) (β * P.rpow (1 - β ^ 2) (-0.5)) (cart4 k0 k1 k2 a b c d)) := by
  rw [refine_lorentz_boostX_beta_cart k0 k1 k2 β a b c d h hs hd hβ]
  rfl

/-- C01 for `boostX_gamma`, all 12 keys: same denotation as the Cartesian key of the same temporal kind. -/
theorem refine_lorentz_boostX_gamma (k0 : Az) (k1 : Lon) (k2 : Tmp) (γ a b c d : ℝ) (h : TanOK k1 c) (hs : SinOK k1 c) :
    interp4 (lorentz_boostX_gamma.ret k0 k1 k2) (lorentz_boostX_gamma.eval k0 k1 k2 γ a b c d)
      = interp4 (lorentz_boostX_gamma.ret .xy .z k2)
          (lorentz_boostX_gamma.eval .xy .z k2 γ (xOf k0 a b) (yOf k0 a b) (zOf k0 k1 a b c) d) := by
  have hz := refine_spatial_z k0 k1 a b c h
  have ht := lorentz_t_conv k0 k1 k2 a b c d hs
  cases k0 <;> cases k1 <;> cases k2 <;> simp only [spatial_z.eval, lorentz_t.eval] at hz ht <;>
    simp only [d_lorentz_boostX_gamma, hz, ht, conv_x_rhophi, conv_y_rhophi, interp4, retAz, retLon, retTmp] <;>
    simp only [cart4, xOf, yOf, zOf, tOf, mag2Of, rhoOf]

/-- the Cartesian τ-key returns the stored τ; for a physical boost it denotes the boosted time component. -/
theorem refine_lorentz_boostX_gamma_tau (γ x y z τ : ℝ) (hγ : 1 ≤ |γ|) (hτ : 0 ≤ τ) :
    interp4 (lorentz_boostX_gamma.ret .xy .z .tau) (lorentz_boostX_gamma.eval .xy .z .tau γ x y z τ)
      = interp4 (lorentz_boostX_gamma.ret .xy .z .t)
          (lorentz_boostX_gamma.eval .xy .z .t γ x y z (tOf .xy .z .tau x y z τ)) := by
  have hT : lorentz_t.xy_z_tau x y z τ = tOf .xy .z .tau x y z τ := lorentz_t_eq_tOf .xy .z .tau x y z τ trivial hτ
  simp only [d_lorentz_boostX_gamma, hT, interp4, retAz, retLon, retTmp, cart4, xOf, yOf, zOf, tOf_t]
  rw [tOf_boostX _ _ x y z τ (L.gam_gamma hγ).1 (L.gam_gamma hγ).2]

/-- C01 for `boostX_gamma`: every key denotes the Cartesian-`t` result on the denotation of the operand. -/
theorem refine_lorentz_boostX_gamma_cart (k0 : Az) (k1 : Lon) (k2 : Tmp) (γ a b c d : ℝ)
    (h : TanOK k1 c) (hs : SinOK k1 c) (hd : CanonTmp k2 d) (hγ : k2 = .tau → 1 ≤ |γ|) :
    interp4 (lorentz_boostX_gamma.ret k0 k1 k2) (lorentz_boostX_gamma.eval k0 k1 k2 γ a b c d)
      = interp4 (lorentz_boostX_gamma.ret .xy .z .t)
          (lorentz_boostX_gamma.eval .xy .z .t γ (xOf k0 a b) (yOf k0 a b) (zOf k0 k1 a b c) (tOf k0 k1 k2 a b c d)) := by
  rw [refine_lorentz_boostX_gamma k0 k1 k2 γ a b c d h hs]
  cases k2
  · rw [tOf_t]
  · rw [refine_lorentz_boostX_gamma_tau γ _ _ _ d (hγ rfl) hd, tOf_cart]

/-- τ-keys, without any assumption on γ: the spatial part is that of the Cartesian-`t` result … -/
theorem refine_lorentz_boostX_gamma_tau_spatial (k0 : Az) (k1 : Lon) (γ a b c d : ℝ)
    (h : TanOK k1 c) (hs : SinOK k1 c) (hd : 0 ≤ d) :
    let r := lorentz_boostX_gamma.eval k0 k1 .tau γ a b c d
    let r' := lorentz_boostX_gamma.eval .xy .z .t γ (xOf k0 a b) (yOf k0 a b) (zOf k0 k1 a b c) (tOf k0 k1 .tau a b c d)
    interp3 (lorentz_boostX_gamma.ret k0 k1 .tau) (r.1, r.2.1, r.2.2.1) = some (r'.1, r'.2.1, r'.2.2.1) := by
  have hz := refine_spatial_z k0 k1 a b c h
  have ht := lorentz_t_eq_tOf k0 k1 .tau a b c d hs hd
  cases k0 <;> cases k1 <;> simp only [spatial_z.eval, lorentz_t.eval] at hz ht <;>
    simp only [d_lorentz_boostX_gamma, hz, ht, conv_x_rhophi, conv_y_rhophi, interp3, retAz, retLon] <;>
    simp only [cart3, xOf, yOf, zOf, rhoOf]

/-- … and the returned τ is the stored τ. -/
theorem refine_lorentz_boostX_gamma_tau_stored (k0 : Az) (k1 : Lon) (γ a b c d : ℝ) :
    (lorentz_boostX_gamma.eval k0 k1 .tau γ a b c d).2.2.2 = d := by
  cases k0 <;> cases k1 <;> rfl

/-- C01 + C02 for `boostX_gamma`: every key denotes the boost along x of the denotation. -/
theorem refine_lorentz_boostX_gamma_spec (k0 : Az) (k1 : Lon) (k2 : Tmp) (γ a b c d : ℝ)
    (h : TanOK k1 c) (hs : SinOK k1 c) (hd : CanonTmp k2 d) (hγ : k2 = .tau → 1 ≤ |γ|) :
    interp4 (lorentz_boostX_gamma.ret k0 k1 k2) (lorentz_boostX_gamma.eval k0 k1 k2 γ a b c d)
      = some (boostX |γ| (P.copysign (sqrt (|γ| ^ 2 - 1)) γ) (cart4 k0 k1 k2 a b c d)) := by
  rw [refine_lorentz_boostX_gamma_cart k0 k1 k2 γ a b c d h hs hd hγ]
  rfl

/-- C01 for `boostY_beta`, all 12 keys: same denotation as the Cartesian key of the same temporal kind. -/
theorem refine_lorentz_boostY_beta (k0 : Az) (k1 : Lon) (k2 : Tmp) (β a b c d : ℝ) (h : TanOK k1 c) (hs : SinOK k1 c) :
    interp4 (lorentz_boostY_beta.ret k0 k1 k2) (lorentz_boostY_beta.eval k0 k1 k2 β a b c d)
      = interp4 (lorentz_boostY_beta.ret .xy .z k2)
          (lorentz_boostY_beta.eval .xy .z k2 β (xOf k0 a b) (yOf k0 a b) (zOf k0 k1 a b c) d) := by
  have hz := refine_spatial_z k0 k1 a b c h
  have ht := lorentz_t_conv k0 k1 k2 a b c d hs
  cases k0 <;> cases k1 <;> cases k2 <;> simp only [spatial_z.eval, lorentz_t.eval] at hz ht <;>
    simp only [d_lorentz_boostY_beta, hz, ht, conv_x_rhophi, conv_y_rhophi, interp4, retAz, retLon, retTmp] <;>
    simp only [cart4, xOf, yOf, zOf, tOf, mag2Of, rhoOf]

/-- the Cartesian τ-key returns the stored τ; for a physical boost it denotes the boosted time component. -/
theorem refine_lorentz_boostY_beta_tau (β x y z τ : ℝ) (hβ : |β| < 1) (hτ : 0 ≤ τ) :
    interp4 (lorentz_boostY_beta.ret .xy .z .tau) (lorentz_boostY_beta.eval .xy .z .tau β x y z τ)
      = interp4 (lorentz_boostY_beta.ret .xy .z .t)
          (lorentz_boostY_beta.eval .xy .z .t β x y z (tOf .xy .z .tau x y z τ)) := by
  have hT : lorentz_t.xy_z_tau x y z τ = tOf .xy .z .tau x y z τ := lorentz_t_eq_tOf .xy .z .tau x y z τ trivial hτ
  simp only [d_lorentz_boostY_beta, hT, interp4, retAz, retLon, retTmp, cart4, xOf, yOf, zOf, tOf_t]
  rw [tOf_boostY _ _ x y z τ (L.gam_beta hβ).1 (L.gam_beta hβ).2]

/-- C01 for `boostY_beta`: every key denotes the Cartesian-`t` result on the denotation of the operand. -/
theorem refine_lorentz_boostY_beta_cart (k0 : Az) (k1 : Lon) (k2 : Tmp) (β a b c d : ℝ)
    (h : TanOK k1 c) (hs : SinOK k1 c) (hd : CanonTmp k2 d) (hβ : k2 = .tau → |β| < 1) :
    interp4 (lorentz_boostY_beta.ret k0 k1 k2) (lorentz_boostY_beta.eval k0 k1 k2 β a b c d)
      = interp4 (lorentz_boostY_beta.ret .xy .z .t)
          (lorentz_boostY_beta.eval .xy .z .t β (xOf k0 a b) (yOf k0 a b) (zOf k0 k1 a b c) (tOf k0 k1 k2 a b c d)) := by
  rw [refine_lorentz_boostY_beta k0 k1 k2 β a b c d h hs]
  cases k2
  · rw [tOf_t]
  · rw [refine_lorentz_boostY_beta_tau β _ _ _ d (hβ rfl) hd, tOf_cart]

/-- τ-keys, without any assumption on β: the spatial part is that of the Cartesian-`t` result … -/
theorem refine_lorentz_boostY_beta_tau_spatial (k0 : Az) (k1 : Lon) (β a b c d : ℝ)
    (h : TanOK k1 c) (hs : SinOK k1 c) (hd : 0 ≤ d) :
    let r := lorentz_boostY_beta.eval k0 k1 .tau β a b c d
    let r' := lorentz_boostY_beta.eval .xy .z .t β (xOf k0 a b) (yOf k0 a b) (zOf k0 k1 a b c) (tOf k0 k1 .tau a b c d)
    interp3 (lorentz_boostY_beta.ret k0 k1 .tau) (r.1, r.2.1, r.2.2.1) = some (r'.1, r'.2.1, r'.2.2.1) := by
  have hz := refine_spatial_z k0 k1 a b c h
  have ht := lorentz_t_eq_tOf k0 k1 .tau a b c d hs hd
  cases k0 <;> cases k1 <;> simp only [spatial_z.eval, lorentz_t.eval] at hz ht <;>
    simp only [d_lorentz_boostY_beta, hz, ht, conv_x_rhophi, conv_y_rhophi, interp3, retAz, retLon] <;>
    simp only [cart3, xOf, yOf, zOf, rhoOf]

/-- … and the returned τ is the stored τ. -/
theorem refine_lorentz_boostY_beta_tau_stored (k0 : Az) (k1 : Lon) (β a b c d : ℝ) :
    (lorentz_boostY_beta.eval k0 k1 .tau β a b c d).2.2.2 = d := by
  cases k0 <;> cases k1 <;> rfl

/-- C01 + C02 for `boostY_beta`: every key denotes the boost along y of the denotation. -/
theorem refine_lorentz_boostY_beta_spec (k0 : Az) (k1 : Lon) (k2 : Tmp) (β a b c d : ℝ)
    (h : TanOK k1 c) (hs : SinOK k1 c) (hd : CanonTmp k2 d) (hβ : k2 = .tau → |β| < 1) :
    interp4 (lorentz_boostY_beta.ret k0 k1 k2) (lorentz_boostY_beta.eval k0 k1 k2 β a b c d)
      = some (boostY (P.rpow (1 - β ^ 2) (-0.5)) (β * P.rpow (1 - β ^ 2) (-0.5)) (cart4 k0 k1 k2 a b c d)) := by
  rw [refine_lorentz_boostY_beta_cart k0 k1 k2 β a b c d h hs hd hβ]
  rfl

/-- C01 for `boostY_gamma`, all 12 keys: same denotation as the Cartesian key of the same temporal kind. -/
theorem refine_lorentz_boostY_gamma (k0 : Az) (k1 : Lon) (k2 : Tmp) (γ a b c d : ℝ) (h : TanOK k1 c) (hs : SinOK k1 c) :
    interp4 (lorentz_boostY_gamma.ret k0 k1 k2) (lorentz_boostY_gamma.eval k0 k1 k2 γ a b c d)
      = interp4 (lorentz_boostY_gamma.ret .xy .z k2)
          (lorentz_boostY_gamma.eval .xy .z k2 γ (xOf k0 a b) (yOf k0 a b) (zOf k0 k1 a b c) d) := by
  have hz := refine_spatial_z k0 k1 a b c h
  have ht := lorentz_t_conv k0 k1 k2 a b c d hs
  cases k0 <;> cases k1 <;> cases k2 <;> simp only [spatial_z.eval, lorentz_t.eval] at hz ht <;>
    simp only [d_lorentz_boostY_gamma, hz, ht, conv_x_rhophi, conv_y_rhophi, interp4, retAz, retLon, retTmp] <;>
    simp only [cart4, xOf, yOf, zOf, tOf, mag2Of, rhoOf]

/-- the Cartesian τ-key returns the stored τ; for a physical boost it denotes the boosted time component. -/
theorem refine_lorentz_boostY_gamma_tau (γ x y z τ : ℝ) (hγ : 1 ≤ |γ|) (hτ : 0 ≤ τ) :
    interp4 (lorentz_boostY_gamma.ret .xy .z .tau) (lorentz_boostY_gamma.eval .xy .z .tau γ x y z τ)
      = interp4 (lorentz_boostY_gamma.ret .xy .z .t)
          (lorentz_boostY_gamma.eval .xy .z .t γ x y z (tOf .xy .z .tau x y z τ)) := by
  have hT : lorentz_t.xy_z_tau x y z τ = tOf .xy .z .tau x y z τ := lorentz_t_eq_tOf .xy .z .tau x y z τ trivial hτ
  simp only [d_lorentz_boostY_gamma, hT, interp4, retAz, retLon, retTmp, cart4, xOf, yOf, zOf, tOf_t]
  rw [tOf_boostY _ _ x y z τ (L.gam_gamma hγ).1 (L.gam_gamma hγ).2]

/-- C01 for `boostY_gamma`: every key denotes the Cartesian-`t` result on the denotation of the operand. -/
theorem refine_lorentz_boostY_gamma_cart (k0 : Az) (k1 : Lon) (k2 : Tmp) (γ a b c d : ℝ)
    (h : TanOK k1 c) (hs : SinOK k1 c) (hd : CanonTmp k2 d) (hγ : k2 = .tau → 1 ≤ |γ|) :
    interp4 (lorentz_boostY_gamma.ret k0 k1 k2) (lorentz_boostY_gamma.eval k0 k1 k2 γ a b c d)
      = interp4 (lorentz_boostY_gamma.ret .xy .z .t)
          (lorentz_boostY_gamma.eval .xy .z .t γ (xOf k0 a b) (yOf k0 a b) (zOf k0 k1 a b c) (tOf k0 k1 k2 a b c d)) := by
  rw [refine_lorentz_boostY_gamma k0 k1 k2 γ a b c d h hs]
  cases k2
  · rw [tOf_t]
  · rw [refine_lorentz_boostY_gamma_tau γ _ _ _ d (hγ rfl) hd, tOf_cart]

/-- τ-keys, without any assumption on γ: the spatial part is that of the Cartesian-`t` result … -/
theorem refine_lorentz_boostY_gamma_tau_spatial (k0 : Az) (k1 : Lon) (γ a b c d : ℝ)
    (h : TanOK k1 c) (hs : SinOK k1 c) (hd : 0 ≤ d) :
    let r := lorentz_boostY_gamma.eval k0 k1 .tau γ a b c d
    let r' := lorentz_boostY_gamma.eval .xy .z .t γ (xOf k0 a b) (yOf k0 a b) (zOf k0 k1 a b c) (tOf k0 k1 .tau a b c d)
    interp3 (lorentz_boostY_gamma.ret k0 k1 .tau) (r.1, r.2.1, r.2.2.1) = some (r'.1, r'.2.1, r'.2.2.1) := by
  have hz := refine_spatial_z k0 k1 a b c h
  have ht := lorentz_t_eq_tOf k0 k1 .tau a b c d hs hd
  cases k0 <;> cases k1 <;> simp only [spatial_z.eval, lorentz_t.eval] at hz ht <;>
    simp only [d_lorentz_boostY_gamma, hz, ht, conv_x_rhophi, conv_y_rhophi, interp3, retAz, retLon] <;>
    simp only [cart3, xOf, yOf, zOf, rhoOf]

/-- … and the returned τ is the stored τ. -/
theorem refine_lorentz_boostY_gamma_tau_stored (k0 : Az) (k1 : Lon) (γ a b c d : ℝ) :
    (lorentz_boostY_gamma.eval k0 k1 .tau γ a b c d).2.2.2 = d := by
  cases k0 <;> cases k1 <;> rfl

/-- C01 + C02 for `boostY_gamma`: every key denotes the boost along y of the denotation. -/
theorem refine_lorentz_boostY_gamma_spec (k0 : Az) (k1 : Lon) (k2 : Tmp) (γ a b c d : ℝ)
    (h : TanOK k1 c) (hs : SinOK k1 c) (hd : CanonTmp k2 d) (hγ : k2 = .tau → 1 ≤ |γ|) :
    interp4 (lorentz_boostY_gamma.ret k0 k1 k2) (lorentz_boostY_gamma.eval k0 k1 k2 γ a b c d)
      = some (boostY |γ| (P.copysign (sqrt (|γ| ^ 2 - 1)) γ) (cart4 k0 k1 k2 a b c d)) := by
  rw [refine_lorentz_boostY_gamma_cart k0 k1 k2 γ a b c d h hs hd hγ]
  rfl

/-- C01 for `boostZ_beta`, all 12 keys: same denotation as the Cartesian key of the same temporal kind. -/
theorem refine_lorentz_boostZ_beta (k0 : Az) (k1 : Lon) (k2 : Tmp) (β a b c d : ℝ) (h : TanOK k1 c) (hs : SinOK k1 c) :
    interp4 (lorentz_boostZ_beta.ret k0 k1 k2) (lorentz_boostZ_beta.eval k0 k1 k2 β a b c d)
      = interp4 (lorentz_boostZ_beta.ret .xy .z k2)
          (lorentz_boostZ_beta.eval .xy .z k2 β (xOf k0 a b) (yOf k0 a b) (zOf k0 k1 a b c) d) := by
  have hz := refine_spatial_z k0 k1 a b c h
  have ht := lorentz_t_conv k0 k1 k2 a b c d hs
  cases k0 <;> cases k1 <;> cases k2 <;> simp only [spatial_z.eval, lorentz_t.eval] at hz ht <;>
    simp only [d_lorentz_boostZ_beta, hz, ht, interp4, retAz, retLon, retTmp] <;>
    simp only [cart4, xOf, yOf, zOf, tOf, mag2Of, rhoOf]

/-- the Cartesian τ-key returns the stored τ; for a physical boost it denotes the boosted time component. -/
theorem refine_lorentz_boostZ_beta_tau (β x y z τ : ℝ) (hβ : |β| < 1) (hτ : 0 ≤ τ) :
    interp4 (lorentz_boostZ_beta.ret .xy .z .tau) (lorentz_boostZ_beta.eval .xy .z .tau β x y z τ)
      = interp4 (lorentz_boostZ_beta.ret .xy .z .t)
          (lorentz_boostZ_beta.eval .xy .z .t β x y z (tOf .xy .z .tau x y z τ)) := by
  have hT : lorentz_t.xy_z_tau x y z τ = tOf .xy .z .tau x y z τ := lorentz_t_eq_tOf .xy .z .tau x y z τ trivial hτ
  simp only [d_lorentz_boostZ_beta, hT, interp4, retAz, retLon, retTmp, cart4, xOf, yOf, zOf, tOf_t]
  rw [tOf_boostZ _ _ x y z τ (L.gam_beta hβ).1 (L.gam_beta hβ).2]

/-- C01 for `boostZ_beta`: every key denotes the Cartesian-`t` result on the denotation of the operand. -/
theorem refine_lorentz_boostZ_beta_cart (k0 : Az) (k1 : Lon) (k2 : Tmp) (β a b c d : ℝ)
    (h : TanOK k1 c) (hs : SinOK k1 c) (hd : CanonTmp k2 d) (hβ : k2 = .tau → |β| < 1) :
    interp4 (lorentz_boostZ_beta.ret k0 k1 k2) (lorentz_boostZ_beta.eval k0 k1 k2 β a b c d)
      = interp4 (lorentz_boostZ_beta.ret .xy .z .t)
          (lorentz_boostZ_beta.eval .xy .z .t β (xOf k0 a b) (yOf k0 a b) (zOf k0 k1 a b c) (tOf k0 k1 k2 a b c d)) := by
  rw [refine_lorentz_boostZ_beta k0 k1 k2 β a b c d h hs]
  cases k2
  · rw [tOf_t]
  · rw [refine_lorentz_boostZ_beta_tau β _ _ _ d (hβ rfl) hd, tOf_cart]

/-- τ-keys, without any assumption on β: the spatial part is that of the Cartesian-`t` result … -/
theorem refine_lorentz_boostZ_beta_tau_spatial (k0 : Az) (k1 : Lon) (β a b c d : ℝ)
    (h : TanOK k1 c) (hs : SinOK k1 c) (hd : 0 ≤ d) :
    let r := lorentz_boostZ_beta.eval k0 k1 .tau β a b c d
    let r' := lorentz_boostZ_beta.eval .xy .z .t β (xOf k0 a b) (yOf k0 a b) (zOf k0 k1 a b c) (tOf k0 k1 .tau a b c d)
    interp3 (lorentz_boostZ_beta.ret k0 k1 .tau) (r.1, r.2.1, r.2.2.1) = some (r'.1, r'.2.1, r'.2.2.1) := by
  have hz := refine_spatial_z k0 k1 a b c h
  have ht := lorentz_t_eq_tOf k0 k1 .tau a b c d hs hd
  cases k0 <;> cases k1 <;> simp only [spatial_z.eval, lorentz_t.eval] at hz ht <;>
    simp only [d_lorentz_boostZ_beta, hz, ht, interp3, retAz, retLon] <;>
    simp only [cart3, xOf, yOf, zOf, rhoOf]

/-- … and the returned τ is the stored τ. -/
theorem refine_lorentz_boostZ_beta_tau_stored (k0 : Az) (k1 : Lon) (β a b c d : ℝ) :
    (lorentz_boostZ_beta.eval k0 k1 .tau β a b c d).2.2.2 = d := by
  cases k0 <;> cases k1 <;> rfl

/-- C01 + C02 for `boostZ_beta`: every key denotes the boost along z of the denotation. -/
theorem refine_lorentz_boostZ_beta_spec (k0 : Az) (k1 : Lon) (k2 : Tmp) (β a b c d : ℝ)
    (h : TanOK k1 c) (hs : SinOK k1 c) (hd : CanonTmp k2 d) (hβ : k2 = .tau → |β| < 1) :
    interp4 (lorentz_boostZ_beta.ret k0 k1 k2) (lorentz_boostZ_beta.eval k0 k1 k2 β a b c d)
      = some (boostZ (P.rpow (1 - β ^ 2) (-0.5)) (β * P.rpow (1 - β ^ 2) (-0.5)) (cart4 k0 k1 k2 a b c d)) := by
  rw [refine_lorentz_boostZ_beta_cart k0 k1 k2 β a b c d h hs hd hβ]
  rfl

/-- C01 for `boostZ_gamma`, all 12 keys: same denotation as the Cartesian key of the same temporal kind. -/
theorem refine_lorentz_boostZ_gamma (k0 : Az) (k1 : Lon) (k2 : Tmp) (γ a b c d : ℝ) (h : TanOK k1 c) (hs : SinOK k1 c) :
    interp4 (lorentz_boostZ_gamma.ret k0 k1 k2) (lorentz_boostZ_gamma.eval k0 k1 k2 γ a b c d)
      = interp4 (lorentz_boostZ_gamma.ret .xy .z k2)
          (lorentz_boostZ_gamma.eval .xy .z k2 γ (xOf k0 a b) (yOf k0 a b) (zOf k0 k1 a b c) d) := by
  have hz := refine_spatial_z k0 k1 a b c h
  have ht := lorentz_t_conv k0 k1 k2 a b c d hs
  cases k0 <;> cases k1 <;> cases k2 <;> simp only [spatial_z.eval, lorentz_t.eval] at hz ht <;>
    simp only [d_lorentz_boostZ_gamma, hz, ht, interp4, retAz, retLon, retTmp] <;>
    simp only [cart4, xOf, yOf, zOf, tOf, mag2Of, rhoOf]

/-- the Cartesian τ-key returns the stored τ; for a physical boost it denotes the boosted time component. -/
theorem refine_lorentz_boostZ_gamma_tau (γ x y z τ : ℝ) (hγ : 1 ≤ |γ|) (hτ : 0 ≤ τ) :
    interp4 (lorentz_boostZ_gamma.ret .xy .z .tau) (lorentz_boostZ_gamma.eval .xy .z .tau γ x y z τ)
      = interp4 (lorentz_boostZ_gamma.ret .xy .z .t)
          (lorentz_boostZ_gamma.eval .xy .z .t γ x y z (tOf .xy .z .tau x y z τ)) := by
  have hT : lorentz_t.xy_z_tau x y z τ = tOf .xy .z .tau x y z τ := lorentz_t_eq_tOf .xy .z .tau x y z τ trivial hτ
  simp only [d_lorentz_boostZ_gamma, hT, interp4, retAz, retLon, retTmp, cart4, xOf, yOf, zOf, tOf_t]
  rw [tOf_boostZ _ _ x y z τ (L.gam_gamma hγ).1 (L.gam_gamma hγ).2]

/-- C01 for `boostZ_gamma`: every key denotes the Cartesian-`t` result on the denotation of the operand. -/
theorem refine_lorentz_boostZ_gamma_cart (k0 : Az) (k1 : Lon) (k2 : Tmp) (γ a b c d : ℝ)
    (h : TanOK k1 c) (hs : SinOK k1 c) (hd : CanonTmp k2 d) (hγ : k2 = .tau → 1 ≤ |γ|) :
    interp4 (lorentz_boostZ_gamma.ret k0 k1 k2) (lorentz_boostZ_gamma.eval k0 k1 k2 γ a b c d)
      = interp4 (lorentz_boostZ_gamma.ret .xy .z .t)
          (lorentz_boostZ_gamma.eval .xy .z .t γ (xOf k0 a b) (yOf k0 a b) (zOf k0 k1 a b c) (tOf k0 k1 k2 a b c d)) := by
  rw [refine_lorentz_boostZ_gamma k0 k1 k2 γ a b c d h hs]
  cases k2
  · rw [tOf_t]
  · rw [refine_lorentz_boostZ_gamma_tau γ _ _ _ d (hγ rfl) hd, tOf_cart]

/-- τ-keys, without any assumption on γ: the spatial part is that of the Cartesian-`t` result … -/
theorem refine_lorentz_boostZ_gamma_tau_spatial (k0 : Az) (k1 : Lon) (γ a b c d : ℝ)
    (h : TanOK k1 c) (hs : SinOK k1 c) (hd : 0 ≤ d) :
    let r := lorentz_boostZ_gamma.eval k0 k1 .tau γ a b c d
    let r' := lorentz_boostZ_gamma.eval .xy .z .t γ (xOf k0 a b) (yOf k0 a b) (zOf k0 k1 a b c) (tOf k0 k1 .tau a b c d)
    interp3 (lorentz_boostZ_gamma.ret k0 k1 .tau) (r.1, r.2.1, r.2.2.1) = some (r'.1, r'.2.1, r'.2.2.1) := by
  have hz := refine_spatial_z k0 k1 a b c h
  have ht := lorentz_t_eq_tOf k0 k1 .tau a b c d hs hd
  cases k0 <;> cases k1 <;> simp only [spatial_z.eval, lorentz_t.eval] at hz ht <;>
    simp only [d_lorentz_boostZ_gamma, hz, ht, interp3, retAz, retLon] <;>
    simp only [cart3, xOf, yOf, zOf, rhoOf]

/-- … and the returned τ is the stored τ. -/
theorem refine_lorentz_boostZ_gamma_tau_stored (k0 : Az) (k1 : Lon) (γ a b c d : ℝ) :
    (lorentz_boostZ_gamma.eval k0 k1 .tau γ a b c d).2.2.2 = d := by
  cases k0 <;> cases k1 <;> rfl

/-- C01 + C02 for `boostZ_gamma`: every key denotes the boost along z of the denotation. -/
theorem refine_lorentz_boostZ_gamma_spec (k0 : Az) (k1 : Lon) (k2 : Tmp) (γ a b c d : ℝ)
    (h : TanOK k1 c) (hs : SinOK k1 c) (hd : CanonTmp k2 d) (hγ : k2 = .tau → 1 ≤ |γ|) :
    interp4 (lorentz_boostZ_gamma.ret k0 k1 k2) (lorentz_boostZ_gamma.eval k0 k1 k2 γ a b c d)
      = some (boostZ |γ| (P.copysign (sqrt (|γ| ^ 2 - 1)) γ) (cart4 k0 k1 k2 a b c d)) := by
  rw [refine_lorentz_boostZ_gamma_cart k0 k1 k2 γ a b c d h hs hd hγ]
  rfl

example : TanOK .eta 1 ∧ SinOK .eta 1 ∧ CanonTmp .tau 1 ∧ |(1 / 2 : ℝ)| < 1 ∧ (1 : ℝ) ≤ |(-2)| := by
  refine ⟨trivial, trivial, ?_, ?_, ?_⟩
  · show (0 : ℝ) ≤ 1; norm_num
  · rw [abs_of_pos] <;> norm_num
  · rw [abs_of_neg] <;> norm_num

/-! ### transform4D: every key denotes the matrix applied to the Cartesian denotation (C01 + C02) -/

set_option linter.unusedSimpArgs false in
theorem refine_lorentz_transform4D (k0 : Az) (k1 : Lon) (k2 : Tmp)
    (xx xy xz xt yx yy yz yt zx zy zz zt tx ty tz tt a b c d : ℝ)
    (h : TanOK k1 c) (hs : SinOK k1 c) (hd : CanonTmp k2 d) :
    interp4 (lorentz_transform4D.ret k0 k1 k2)
        (lorentz_transform4D.eval k0 k1 k2 xx xy xz xt yx yy yz yt zx zy zz zt tx ty tz tt a b c d)
      = some (transform4 xx xy xz xt yx yy yz yt zx zy zz zt tx ty tz tt (cart4 k0 k1 k2 a b c d)) := by
  have hz := refine_spatial_z k0 k1 a b c h
  have ht := lorentz_t_eq_tOf k0 k1 k2 a b c d hs hd
  cases k0 <;> cases k1 <;> cases k2 <;> simp only [spatial_z.eval, lorentz_t.eval] at hz ht <;>
    simp only [d_lorentz_transform4D, hz, ht, conv_x_rhophi, conv_y_rhophi, conv_x_xy, conv_y_xy,
      interp4, retAz, retLon, retTmp, transform4] <;>
    simp only [cart4, xOf, yOf, zOf, tOf, mag2Of, rhoOf]

/-- C01 form: every key equals the Cartesian-`t` key on the denotation -/
theorem refine_lorentz_transform4D_cart (k0 : Az) (k1 : Lon) (k2 : Tmp)
    (xx xy xz xt yx yy yz yt zx zy zz zt tx ty tz tt a b c d : ℝ)
    (h : TanOK k1 c) (hs : SinOK k1 c) (hd : CanonTmp k2 d) :
    interp4 (lorentz_transform4D.ret k0 k1 k2)
        (lorentz_transform4D.eval k0 k1 k2 xx xy xz xt yx yy yz yt zx zy zz zt tx ty tz tt a b c d)
      = interp4 (lorentz_transform4D.ret .xy .z .t)
        (lorentz_transform4D.eval .xy .z .t xx xy xz xt yx yy yz yt zx zy zz zt tx ty tz tt
          (xOf k0 a b) (yOf k0 a b) (zOf k0 k1 a b c) (tOf k0 k1 k2 a b c d)) := by
  rw [refine_lorentz_transform4D k0 k1 k2 _ _ _ _ _ _ _ _ _ _ _ _ _ _ _ _ a b c d h hs hd,
    refine_lorentz_transform4D .xy .z .t _ _ _ _ _ _ _ _ _ _ _ _ _ _ _ _ _ _ _ _ trivial trivial trivial]
  rfl

example : TanOK .theta 1 ∧ SinOK .theta 1 ∧ CanonTmp .tau 2 :=
  ⟨ne_of_gt cos_one_pos, (sin_pos_of_pos_of_lt_pi one_pos (by linarith [two_le_pi])).ne', by show (0 : ℝ) ≤ 2; norm_num⟩

/-! ### boost_beta3 (72 keys) -/

set_option maxHeartbeats 1000000 in
set_option linter.unusedSimpArgs false in
/-- C01 for `boost_beta3`, all 72 keys: same denotation as the all-Cartesian key of the same temporal kind. -/
theorem refine_lorentz_boost_beta3 (k0 : Az) (k1 : Lon) (k2 : Tmp) (k3 : Az) (k4 : Lon) (a0 a1 a2 a3 a4 a5 a6 : ℝ)
    (h1 : TanOK k1 a2) (h2 : TanOK k4 a6) :
    interp4 (lorentz_boost_beta3.ret k0 k1 k2 k3 k4) (lorentz_boost_beta3.eval k0 k1 k2 k3 k4 a0 a1 a2 a3 a4 a5 a6)
      = interp4 (lorentz_boost_beta3.ret .xy .z k2 .xy .z)
          (lorentz_boost_beta3.eval .xy .z k2 .xy .z (xOf k0 a0 a1) (yOf k0 a0 a1) (zOf k0 k1 a0 a1 a2) a3
            (xOf k3 a4 a5) (yOf k3 a4 a5) (zOf k3 k4 a4 a5 a6)) := by
  have hz1 := refine_spatial_z k0 k1 a0 a1 a2 h1
  have hz2 := refine_spatial_z k3 k4 a4 a5 a6 h2
  cases k0 <;> cases k1 <;> cases k2 <;> cases k3 <;> cases k4 <;> simp only [spatial_z.eval] at hz1 hz2 <;>
    simp only [d_lorentz_boost_beta3,
      hz1, hz2, conv_x_rhophi, conv_y_rhophi, conv_x_xy, conv_y_xy, conv_z_xy_z] <;>
    simp only [xOf, yOf, zOf]

/-- the all-Cartesian `t` key is the general boost with `γ = 1/√(1 − |β|²)`, `u = γβ` (C02) -/
theorem refine_lorentz_boost_beta3_cart_t (x y z t bx by' bz : ℝ) :
    lorentz_boost_beta3.eval .xy .z .t .xy .z x y z t bx by' bz
      = boostU (1 / sqrt (1 - (bx ^ 2 + by' ^ 2 + bz ^ 2))) (1 / sqrt (1 - (bx ^ 2 + by' ^ 2 + bz ^ 2)) * bx)
          (1 / sqrt (1 - (bx ^ 2 + by' ^ 2 + bz ^ 2)) * by') (1 / sqrt (1 - (bx ^ 2 + by' ^ 2 + bz ^ 2)) * bz)
          (x, y, z, t) := by
  simp only [d_lorentz_boost_beta3, d_lorentz_transform4D, boostU, Prod.mk.injEq]
  exact ⟨by ring, by ring, by ring, trivial⟩

theorem refine_lorentz_boost_beta3_tau (x y z τ bx by' bz : ℝ) (hβ : bx ^ 2 + by' ^ 2 + bz ^ 2 < 1) (hτ : 0 ≤ τ) :
    interp4 (lorentz_boost_beta3.ret .xy .z .tau .xy .z) (lorentz_boost_beta3.eval .xy .z .tau .xy .z x y z τ bx by' bz)
      = interp4 (lorentz_boost_beta3.ret .xy .z .t .xy .z)
          (lorentz_boost_beta3.eval .xy .z .t .xy .z x y z (tOf .xy .z .tau x y z τ) bx by' bz) := by
  have hT : lorentz_t.xy_z_tau x y z τ = tOf .xy .z .tau x y z τ := lorentz_t_eq_tOf .xy .z .tau x y z τ trivial hτ
  have hpos : 0 < 1 - (bx ^ 2 + by' ^ 2 + bz ^ 2) := by linarith
  have hs0 : 0 < sqrt (1 - (bx ^ 2 + by' ^ 2 + bz ^ 2)) := sqrt_pos.mpr hpos
  have hs2 : sqrt (1 - (bx ^ 2 + by' ^ 2 + bz ^ 2)) ^ 2 = 1 - (bx ^ 2 + by' ^ 2 + bz ^ 2) := sq_sqrt hpos.le
  have hG0 : 0 < 1 / sqrt (1 - (bx ^ 2 + by' ^ 2 + bz ^ 2)) := by positivity
  have hG : (1 / sqrt (1 - (bx ^ 2 + by' ^ 2 + bz ^ 2))) ^ 2 = 1 + ((1 / sqrt (1 - (bx ^ 2 + by' ^ 2 + bz ^ 2)) * bx) ^ 2
      + (1 / sqrt (1 - (bx ^ 2 + by' ^ 2 + bz ^ 2)) * by') ^ 2 + (1 / sqrt (1 - (bx ^ 2 + by' ^ 2 + bz ^ 2)) * bz) ^ 2) := by
    field_simp
    linear_combination -hs2
  have hTsq : tOf .xy .z .tau x y z τ ^ 2 = τ ^ 2 + (x ^ 2 + y ^ 2 + z ^ 2) := by
    simp only [tOf, mag2Of, xOf, yOf, zOf]; rw [sq_sqrt (by positivity)]
  have e := L.boostU_time _ _ _ _ x y z _ (τ ^ 2) hG hG0 (by simp only [tOf]; exact sqrt_nonneg _) hTsq (sq_nonneg τ)
  rw [refine_lorentz_boost_beta3_cart_t]
  simp only [d_lorentz_boost_beta3, d_lorentz_transform4D, planar_x.xy, planar_y.xy, spatial_z.xy_z, hT, interp4, retAz,
    retLon, retTmp, boostU, cart4, xOf, yOf, zOf, tOf_t, Option.some.injEq, Prod.mk.injEq]
  refine ⟨by ring, by ring, by ring, ?_⟩
  rw [← e]
  simp only [tOf, mag2Of, xOf, yOf, zOf]
  congr 1; ring

/-- C01 for `boost_beta3`: every key denotes the all-Cartesian-`t` result on the denotations of the operands. -/
theorem refine_lorentz_boost_beta3_cart (k0 : Az) (k1 : Lon) (k2 : Tmp) (k3 : Az) (k4 : Lon) (a0 a1 a2 a3 a4 a5 a6 : ℝ)
    (h1 : TanOK k1 a2) (h2 : TanOK k4 a6) (hd : CanonTmp k2 a3) (hβ : k2 = .tau → mag2Of k3 k4 a4 a5 a6 < 1) :
    interp4 (lorentz_boost_beta3.ret k0 k1 k2 k3 k4) (lorentz_boost_beta3.eval k0 k1 k2 k3 k4 a0 a1 a2 a3 a4 a5 a6)
      = interp4 (lorentz_boost_beta3.ret .xy .z .t .xy .z)
          (lorentz_boost_beta3.eval .xy .z .t .xy .z (xOf k0 a0 a1) (yOf k0 a0 a1) (zOf k0 k1 a0 a1 a2)
            (tOf k0 k1 k2 a0 a1 a2 a3) (xOf k3 a4 a5) (yOf k3 a4 a5) (zOf k3 k4 a4 a5 a6)) := by
  rw [refine_lorentz_boost_beta3 k0 k1 k2 k3 k4 a0 a1 a2 a3 a4 a5 a6 h1 h2]
  cases k2
  · rw [tOf_t]
  · rw [refine_lorentz_boost_beta3_tau _ _ _ a3 _ _ _ (hβ rfl) hd, tOf_cart]

/-- C01 + C02 for `boost_beta3`: every key denotes the general boost of the denotation. -/
theorem refine_lorentz_boost_beta3_spec (k0 : Az) (k1 : Lon) (k2 : Tmp) (k3 : Az) (k4 : Lon) (a0 a1 a2 a3 a4 a5 a6 : ℝ)
    (h1 : TanOK k1 a2) (h2 : TanOK k4 a6) (hd : CanonTmp k2 a3) (hβ : k2 = .tau → mag2Of k3 k4 a4 a5 a6 < 1) :
    interp4 (lorentz_boost_beta3.ret k0 k1 k2 k3 k4) (lorentz_boost_beta3.eval k0 k1 k2 k3 k4 a0 a1 a2 a3 a4 a5 a6)
      = some (boostU (1 / sqrt (1 - mag2Of k3 k4 a4 a5 a6)) (1 / sqrt (1 - mag2Of k3 k4 a4 a5 a6) * xOf k3 a4 a5)
          (1 / sqrt (1 - mag2Of k3 k4 a4 a5 a6) * yOf k3 a4 a5) (1 / sqrt (1 - mag2Of k3 k4 a4 a5 a6) * zOf k3 k4 a4 a5 a6)
          (cart4 k0 k1 k2 a0 a1 a2 a3)) := by
  rw [refine_lorentz_boost_beta3_cart k0 k1 k2 k3 k4 a0 a1 a2 a3 a4 a5 a6 h1 h2 hd hβ, refine_lorentz_boost_beta3_cart_t]
  rfl

set_option maxHeartbeats 1000000 in
set_option linter.unusedSimpArgs false in
/-- τ-keys, without any assumption on the boost vector: the spatial part is that of the Cartesian-`t` result … -/
theorem refine_lorentz_boost_beta3_tau_spatial (k0 : Az) (k1 : Lon) (k3 : Az) (k4 : Lon) (a0 a1 a2 a3 a4 a5 a6 : ℝ)
    (h1 : TanOK k1 a2) (h2 : TanOK k4 a6) (hd : 0 ≤ a3) :
    let r := lorentz_boost_beta3.eval k0 k1 .tau k3 k4 a0 a1 a2 a3 a4 a5 a6
    let r' := lorentz_boost_beta3.eval .xy .z .t .xy .z (xOf k0 a0 a1) (yOf k0 a0 a1) (zOf k0 k1 a0 a1 a2)
      (tOf k0 k1 .tau a0 a1 a2 a3) (xOf k3 a4 a5) (yOf k3 a4 a5) (zOf k3 k4 a4 a5 a6)
    interp3 (lorentz_boost_beta3.ret k0 k1 .tau k3 k4) (r.1, r.2.1, r.2.2.1) = some (r'.1, r'.2.1, r'.2.2.1) := by
  have hz1 := refine_spatial_z k0 k1 a0 a1 a2 h1
  have hz2 := refine_spatial_z k3 k4 a4 a5 a6 h2
  have hT : lorentz_t.xy_z_tau (xOf k0 a0 a1) (yOf k0 a0 a1) (zOf k0 k1 a0 a1 a2) a3 = tOf k0 k1 .tau a0 a1 a2 a3 :=
    (lorentz_t_eq_tOf .xy .z .tau _ _ _ a3 trivial hd).trans (tOf_cart k0 k1 .tau a0 a1 a2 a3)
  cases k0 <;> cases k1 <;> cases k3 <;> cases k4 <;> simp only [spatial_z.eval] at hz1 hz2 <;>
    simp only [xOf, yOf, zOf] at hT <;>
    simp only [d_lorentz_boost_beta3, d_lorentz_transform4D, hz1, hz2, conv_x_rhophi, conv_y_rhophi, conv_x_xy, conv_y_xy,
      conv_z_xy_z, interp3, retAz, retLon] <;>
    simp only [cart3, xOf, yOf, zOf, hT]

/-- … and the returned τ is the stored τ. -/
theorem refine_lorentz_boost_beta3_tau_stored (k0 : Az) (k1 : Lon) (k3 : Az) (k4 : Lon) (a0 a1 a2 a3 a4 a5 a6 : ℝ) :
    (lorentz_boost_beta3.eval k0 k1 .tau k3 k4 a0 a1 a2 a3 a4 a5 a6).2.2.2 = a3 := by
  cases k0 <;> cases k1 <;> cases k3 <;> cases k4 <;> rfl

example : mag2Of .xy .z (1 / 2) 0 0 < 1 := by norm_num [mag2Of, xOf, yOf, zOf]

/-! ### boost_p4 (144 keys) -/

set_option maxHeartbeats 4000000 in
set_option linter.unusedSimpArgs false in
/-- C01 for `boost_p4`, all 144 keys: same denotation as the all-Cartesian key of the same temporal kinds. -/
theorem refine_lorentz_boost_p4 (k0 : Az) (k1 : Lon) (k2 : Tmp) (k3 : Az) (k4 : Lon) (k5 : Tmp)
    (a0 a1 a2 a3 a4 a5 a6 a7 : ℝ) (h1 : TanOK k1 a2) (h2 : TanOK k4 a6) (hs2 : SinOK k4 a6) :
    interp4 (lorentz_boost_p4.ret k0 k1 k2 k3 k4 k5) (lorentz_boost_p4.eval k0 k1 k2 k3 k4 k5 a0 a1 a2 a3 a4 a5 a6 a7)
      = interp4 (lorentz_boost_p4.ret .xy .z k2 .xy .z k5)
          (lorentz_boost_p4.eval .xy .z k2 .xy .z k5 (xOf k0 a0 a1) (yOf k0 a0 a1) (zOf k0 k1 a0 a1 a2) a3
            (xOf k3 a4 a5) (yOf k3 a4 a5) (zOf k3 k4 a4 a5 a6) a7) := by
  have hz1 := refine_spatial_z k0 k1 a0 a1 a2 h1
  have hz2 := refine_spatial_z k3 k4 a4 a5 a6 h2
  have hm := refine_spatial_mag2 k3 k4 a4 a5 a6 hs2
  cases k0 <;> cases k1 <;> cases k2 <;> cases k3 <;> cases k4 <;> cases k5 <;>
    simp only [spatial_z.eval, spatial_mag2.eval] at hz1 hz2 hm <;>
    simp only [d_lorentz_boost_p4, hz1, hz2, hm, conv_x_rhophi, conv_y_rhophi, conv_x_xy, conv_y_xy, conv_z_xy_z] <;>
    simp only [spatial_mag2.xy_z, mag2Of, xOf, yOf, zOf]

/-- the boost vector stored with τ (`τ₂ ≥ 0`) gives the same raw result as the one stored with `t₂ = √(τ₂² + |p₂|²)` -/
theorem refine_lorentz_boost_p4_tau2 (k2 : Tmp) (x1 y1 z1 d x2 y2 z2 τ2 : ℝ) (hτ : 0 ≤ τ2) :
    lorentz_boost_p4.eval .xy .z k2 .xy .z .tau x1 y1 z1 d x2 y2 z2 τ2
      = lorentz_boost_p4.eval .xy .z k2 .xy .z .t x1 y1 z1 d x2 y2 z2 (tOf .xy .z .tau x2 y2 z2 τ2) := by
  have hE : sqrt (τ2 ^ 2 + spatial_mag2.xy_z x2 y2 z2) = tOf .xy .z .tau x2 y2 z2 τ2 := rfl
  have hm2 : tOf .xy .z .tau x2 y2 z2 τ2 ^ 2 - spatial_mag2.xy_z x2 y2 z2 = τ2 ^ 2 := by
    rw [← hE, sq_sqrt (by simp only [spatial_mag2.xy_z]; positivity)]; ring
  have hm : sqrt (τ2 ^ 2) = τ2 := sqrt_sq hτ
  cases k2 <;>
    simp only [lorentz_boost_p4.eval, lorentz_boost_p4.k_xy_z_tau_xy_z_t, lorentz_boost_p4.k_xy_z_tau_xy_z_tau,
      lorentz_boost_p4.cartesian_t_xy_z_t, lorentz_boost_p4.cartesian_t_xy_z_tau, lorentz_boost_p4.cartesian_tau_xy_z_t,
      lorentz_boost_p4.cartesian_tau_xy_z_tau, hE, hm2, hm]

/-- the all-Cartesian `t`,`t` key is the general boost with four-velocity `p₂ / M`, `M = √(t₂² − |p₂|²)` (C02) -/
theorem refine_lorentz_boost_p4_cart_t (x1 y1 z1 t1 x2 y2 z2 t2 : ℝ) (hM : 0 ≤ t2 ^ 2 - (x2 ^ 2 + y2 ^ 2 + z2 ^ 2)) :
    lorentz_boost_p4.eval .xy .z .t .xy .z .t x1 y1 z1 t1 x2 y2 z2 t2
      = boostU (t2 / sqrt (t2 ^ 2 - (x2 ^ 2 + y2 ^ 2 + z2 ^ 2))) (x2 / sqrt (t2 ^ 2 - (x2 ^ 2 + y2 ^ 2 + z2 ^ 2)))
          (y2 / sqrt (t2 ^ 2 - (x2 ^ 2 + y2 ^ 2 + z2 ^ 2))) (z2 / sqrt (t2 ^ 2 - (x2 ^ 2 + y2 ^ 2 + z2 ^ 2)))
          (x1, y1, z1, t1) := by
  have hMM : t2 ^ 2 - (x2 ^ 2 + y2 ^ 2 + z2 ^ 2) = sqrt (t2 ^ 2 - (x2 ^ 2 + y2 ^ 2 + z2 ^ 2)) ^ 2 := (sq_sqrt hM).symm
  simp only [lorentz_boost_p4.eval, lorentz_boost_p4.cartesian_t_xy_z_t, lorentz_boost_p4.cartesian_t,
    d_lorentz_transform4D, d_spatial_mag2, boostU, Prod.mk.injEq]
  generalize sqrt (t2 ^ 2 - (x2 ^ 2 + y2 ^ 2 + z2 ^ 2)) = M at hMM ⊢
  simp only [hMM]
  generalize t2 / M + 1 = W
  exact ⟨by ring, by ring, by ring, trivial⟩

theorem refine_lorentz_boost_p4_tau1 (x1 y1 z1 τ1 x2 y2 z2 t2 : ℝ) (hτ : 0 ≤ τ1)
    (hM : 0 < t2 ^ 2 - (x2 ^ 2 + y2 ^ 2 + z2 ^ 2)) (ht2 : 0 < t2) :
    interp4 (lorentz_boost_p4.ret .xy .z .tau .xy .z .t) (lorentz_boost_p4.eval .xy .z .tau .xy .z .t x1 y1 z1 τ1 x2 y2 z2 t2)
      = interp4 (lorentz_boost_p4.ret .xy .z .t .xy .z .t)
          (lorentz_boost_p4.eval .xy .z .t .xy .z .t x1 y1 z1 (tOf .xy .z .tau x1 y1 z1 τ1) x2 y2 z2 t2) := by
  have hT : lorentz_t.xy_z_tau x1 y1 z1 τ1 = tOf .xy .z .tau x1 y1 z1 τ1 := lorentz_t_eq_tOf .xy .z .tau x1 y1 z1 τ1 trivial hτ
  have hMM : t2 ^ 2 - (x2 ^ 2 + y2 ^ 2 + z2 ^ 2) = sqrt (t2 ^ 2 - (x2 ^ 2 + y2 ^ 2 + z2 ^ 2)) ^ 2 := (sq_sqrt hM.le).symm
  have hM0 : 0 < sqrt (t2 ^ 2 - (x2 ^ 2 + y2 ^ 2 + z2 ^ 2)) := sqrt_pos.mpr hM
  have hTsq : tOf .xy .z .tau x1 y1 z1 τ1 ^ 2 = τ1 ^ 2 + (x1 ^ 2 + y1 ^ 2 + z1 ^ 2) := by
    simp only [tOf, mag2Of, xOf, yOf, zOf]; rw [sq_sqrt (by positivity)]
  have hT0 : 0 ≤ tOf .xy .z .tau x1 y1 z1 τ1 := by simp only [tOf]; exact sqrt_nonneg _
  rw [refine_lorentz_boost_p4_cart_t _ _ _ _ _ _ _ _ hM.le]
  simp only [lorentz_boost_p4.eval, lorentz_boost_p4.ret, lorentz_boost_p4.k_xy_z_tau_xy_z_t,
    lorentz_boost_p4.cartesian_tau_xy_z_t, lorentz_boost_p4.cartesian_tau,
    d_lorentz_transform4D, d_spatial_mag2, planar_x.xy, planar_y.xy, spatial_z.xy_z, hT, interp4, retAz,
    retLon, retTmp, boostU, cart4, xOf, yOf, zOf, tOf_t, Option.some.injEq, Prod.mk.injEq]
  generalize sqrt (t2 ^ 2 - (x2 ^ 2 + y2 ^ 2 + z2 ^ 2)) = M at hMM hM0 ⊢
  have hG : (t2 / M) ^ 2 = 1 + ((x2 / M) ^ 2 + (y2 / M) ^ 2 + (z2 / M) ^ 2) := by
    field_simp
    linear_combination hMM
  have e := L.boostU_time (t2 / M) (x2 / M) (y2 / M) (z2 / M) x1 y1 z1 _ (τ1 ^ 2) hG (by positivity) hT0 hTsq (sq_nonneg τ1)
  simp only [hMM]
  generalize t2 / M + 1 = W at e ⊢
  refine ⟨by ring, by ring, by ring, ?_⟩
  rw [← e]
  simp only [tOf, mag2Of, xOf, yOf, zOf]
  congr 1; ring

/-- C01 for `boost_p4`: every key denotes the all-Cartesian-`t`,`t` result on the denotations of the operands.
For a τ-stored first operand the boost vector must be a physical momentum (time-like, positive energy). -/
theorem refine_lorentz_boost_p4_cart (k0 : Az) (k1 : Lon) (k2 : Tmp) (k3 : Az) (k4 : Lon) (k5 : Tmp)
    (a0 a1 a2 a3 a4 a5 a6 a7 : ℝ) (h1 : TanOK k1 a2) (h2 : TanOK k4 a6) (hs2 : SinOK k4 a6)
    (hd1 : CanonTmp k2 a3) (hd2 : CanonTmp k5 a7)
    (hp : k2 = .tau → 0 < tOf k3 k4 k5 a4 a5 a6 a7 ^ 2 - mag2Of k3 k4 a4 a5 a6 ∧ 0 < tOf k3 k4 k5 a4 a5 a6 a7) :
    interp4 (lorentz_boost_p4.ret k0 k1 k2 k3 k4 k5) (lorentz_boost_p4.eval k0 k1 k2 k3 k4 k5 a0 a1 a2 a3 a4 a5 a6 a7)
      = interp4 (lorentz_boost_p4.ret .xy .z .t .xy .z .t)
          (lorentz_boost_p4.eval .xy .z .t .xy .z .t (xOf k0 a0 a1) (yOf k0 a0 a1) (zOf k0 k1 a0 a1 a2)
            (tOf k0 k1 k2 a0 a1 a2 a3) (xOf k3 a4 a5) (yOf k3 a4 a5) (zOf k3 k4 a4 a5 a6) (tOf k3 k4 k5 a4 a5 a6 a7)) := by
  rw [refine_lorentz_boost_p4 k0 k1 k2 k3 k4 k5 a0 a1 a2 a3 a4 a5 a6 a7 h1 h2 hs2]
  have e5 : interp4 (lorentz_boost_p4.ret .xy .z k2 .xy .z k5)
        (lorentz_boost_p4.eval .xy .z k2 .xy .z k5 (xOf k0 a0 a1) (yOf k0 a0 a1) (zOf k0 k1 a0 a1 a2) a3
          (xOf k3 a4 a5) (yOf k3 a4 a5) (zOf k3 k4 a4 a5 a6) a7)
      = interp4 (lorentz_boost_p4.ret .xy .z k2 .xy .z .t)
        (lorentz_boost_p4.eval .xy .z k2 .xy .z .t (xOf k0 a0 a1) (yOf k0 a0 a1) (zOf k0 k1 a0 a1 a2) a3
          (xOf k3 a4 a5) (yOf k3 a4 a5) (zOf k3 k4 a4 a5 a6) (tOf k3 k4 k5 a4 a5 a6 a7)) := by
    cases k5
    · rw [tOf_t]
    · rw [refine_lorentz_boost_p4_tau2 k2 _ _ _ a3 _ _ _ a7 hd2, tOf_cart]
      cases k2 <;> rfl
  rw [e5]
  cases k2
  · rw [tOf_t]
  · obtain ⟨hm, ht⟩ := hp rfl
    rw [refine_lorentz_boost_p4_tau1 _ _ _ a3 _ _ _ _ hd1 hm ht, tOf_cart]

/-- C01 + C02 for `boost_p4`: every key denotes the general boost of the first operand with the four-velocity
`p₂ / M` of the second -/
theorem refine_lorentz_boost_p4_spec (k0 : Az) (k1 : Lon) (k2 : Tmp) (k3 : Az) (k4 : Lon) (k5 : Tmp)
    (a0 a1 a2 a3 a4 a5 a6 a7 : ℝ) (h1 : TanOK k1 a2) (h2 : TanOK k4 a6) (hs2 : SinOK k4 a6)
    (hd1 : CanonTmp k2 a3) (hd2 : CanonTmp k5 a7)
    (hm : 0 < tOf k3 k4 k5 a4 a5 a6 a7 ^ 2 - mag2Of k3 k4 a4 a5 a6) (ht : k2 = .tau → 0 < tOf k3 k4 k5 a4 a5 a6 a7) :
    interp4 (lorentz_boost_p4.ret k0 k1 k2 k3 k4 k5) (lorentz_boost_p4.eval k0 k1 k2 k3 k4 k5 a0 a1 a2 a3 a4 a5 a6 a7)
      = some (boostU (tOf k3 k4 k5 a4 a5 a6 a7 / sqrt (tOf k3 k4 k5 a4 a5 a6 a7 ^ 2 - mag2Of k3 k4 a4 a5 a6))
          (xOf k3 a4 a5 / sqrt (tOf k3 k4 k5 a4 a5 a6 a7 ^ 2 - mag2Of k3 k4 a4 a5 a6))
          (yOf k3 a4 a5 / sqrt (tOf k3 k4 k5 a4 a5 a6 a7 ^ 2 - mag2Of k3 k4 a4 a5 a6))
          (zOf k3 k4 a4 a5 a6 / sqrt (tOf k3 k4 k5 a4 a5 a6 a7 ^ 2 - mag2Of k3 k4 a4 a5 a6))
          (cart4 k0 k1 k2 a0 a1 a2 a3)) := by
  rw [refine_lorentz_boost_p4_cart k0 k1 k2 k3 k4 k5 a0 a1 a2 a3 a4 a5 a6 a7 h1 h2 hs2 hd1 hd2 (fun e => ⟨hm, ht e⟩),
    refine_lorentz_boost_p4_cart_t _ _ _ _ _ _ _ _ hm.le]
  rfl

set_option maxHeartbeats 4000000 in
set_option linter.unusedSimpArgs false in
/-- τ-stored first operand, without any assumption on the boost vector beyond representability: the spatial part is that
of the Cartesian-`t` result … -/
theorem refine_lorentz_boost_p4_tau_spatial (k0 : Az) (k1 : Lon) (k3 : Az) (k4 : Lon) (k5 : Tmp)
    (a0 a1 a2 a3 a4 a5 a6 a7 : ℝ) (h1 : TanOK k1 a2) (h2 : TanOK k4 a6) (hs2 : SinOK k4 a6) (hd : 0 ≤ a3) :
    let r := lorentz_boost_p4.eval k0 k1 .tau k3 k4 k5 a0 a1 a2 a3 a4 a5 a6 a7
    let r' := lorentz_boost_p4.eval .xy .z .t .xy .z k5 (xOf k0 a0 a1) (yOf k0 a0 a1) (zOf k0 k1 a0 a1 a2)
      (tOf k0 k1 .tau a0 a1 a2 a3) (xOf k3 a4 a5) (yOf k3 a4 a5) (zOf k3 k4 a4 a5 a6) a7
    interp3 (lorentz_boost_p4.ret k0 k1 .tau k3 k4 k5) (r.1, r.2.1, r.2.2.1) = some (r'.1, r'.2.1, r'.2.2.1) := by
  have hz1 := refine_spatial_z k0 k1 a0 a1 a2 h1
  have hz2 := refine_spatial_z k3 k4 a4 a5 a6 h2
  have hm := refine_spatial_mag2 k3 k4 a4 a5 a6 hs2
  have hT : lorentz_t.xy_z_tau (xOf k0 a0 a1) (yOf k0 a0 a1) (zOf k0 k1 a0 a1 a2) a3 = tOf k0 k1 .tau a0 a1 a2 a3 :=
    (lorentz_t_eq_tOf .xy .z .tau _ _ _ a3 trivial hd).trans (tOf_cart k0 k1 .tau a0 a1 a2 a3)
  cases k0 <;> cases k1 <;> cases k3 <;> cases k4 <;> cases k5 <;>
    simp only [spatial_z.eval, spatial_mag2.eval] at hz1 hz2 hm <;>
    simp only [xOf, yOf, zOf] at hT <;>
    simp only [d_lorentz_boost_p4, d_lorentz_transform4D, hz1, hz2, hm, conv_x_rhophi, conv_y_rhophi, conv_x_xy, conv_y_xy,
      conv_z_xy_z, interp3, retAz, retLon] <;>
    simp only [cart3, spatial_mag2.xy_z, mag2Of, xOf, yOf, zOf, hT]

/-- … and the returned τ is the stored τ. -/
theorem refine_lorentz_boost_p4_tau_stored (k0 : Az) (k1 : Lon) (k3 : Az) (k4 : Lon) (k5 : Tmp)
    (a0 a1 a2 a3 a4 a5 a6 a7 : ℝ) :
    (lorentz_boost_p4.eval k0 k1 .tau k3 k4 k5 a0 a1 a2 a3 a4 a5 a6 a7).2.2.2 = a3 := by
  cases k0 <;> cases k1 <;> cases k3 <;> cases k4 <;> cases k5 <;> rfl

example : 0 < tOf .xy .z .t 0 0 0 1 ^ 2 - mag2Of .xy .z 0 0 0 ∧ 0 < tOf .xy .z .t 0 0 0 1 := by
  norm_num [tOf, mag2Of, xOf, yOf, zOf]

end VR
