/-
Soundness of the cross-coordinate-system comparisons `equal` / `not_equal` (2D, 3D, 4D):
for EVERY pair of coordinate-system keys, if the generated model of the variant found under that key answers
"equal", then the two operands denote the same Cartesian vector (`Spec.cart2/3/4`); dually, operands denoting
different vectors are reported "not equal".  (A wrong converter in ONE variant of `equal` would break these.)

Hypotheses: both operands representable (`Canon2`: `0 ≤ ρ`; `CanonLon`: off the z axis and `0 < θ < π` for θ/η storage;
`CanonTmp`: `0 ≤ τ`) and `TanOK` (the code divides by `tan θ`).  Why they are needed:
* `Canon2`: the variants that compare a polar with a Cartesian azimuth compare `x`,`y` only and then the stored θ/η;
  `(ρ, φ, θ)` with `ρ < 0` and `(x, y, θ)` with `x = ρ cos φ, y = ρ sin φ` pass that test but denote opposite `z`.
* `CanonLon` for a θ operand compared with an η operand: the code converts θ ↦ η = −log tan(θ/2), which is the
  pseudorapidity of the denoted vector only for `0 < θ < π`.
* `CanonTmp`/`CanonLon` for a `t` operand compared with a `τ` operand: the code compares `lorentz_t`, which is the
  denoted time only for `0 ≤ τ` (and `sin θ ≠ 0`).
The converse (same denotation ⇒ `equal`) is false by design (`φ` and `φ + 2π` denote the same vector) and not claimed.
-/
import VectorModel.Spec.Basic
import VectorModel.Lemmas.Real
import VectorModel.Refine.Planar
import VectorModel.Refine.SpatialZ
import VectorModel.Refine.SpatialAcc
import VectorModel.Refine.LorentzBin
import VectorModel.Props.C12

namespace VR
open VK Spec Real

/-! ### planar -/

/-- `equal` is sound for all 4 key pairs (no hypotheses) -/
theorem refine_planar_equal (k0 k1 : Az) (a0 a1 a2 a3 : ℝ)
    (h : planar_equal.eval k0 k1 a0 a1 a2 a3) : cart2 k0 a0 a1 = cart2 k1 a2 a3 := by
  cases k0 <;> cases k1 <;> obtain ⟨h1, h2⟩ := h
  · exact Prod.ext h1 h2
  · exact Prod.ext h1 h2
  · exact Prod.ext h1 h2
  · subst h1; subst h2; rfl

/-- operands denoting different vectors are reported "not equal" -/
theorem refine_planar_not_equal (k0 k1 : Az) (a0 a1 a2 a3 : ℝ)
    (h : ¬ cart2 k0 a0 a1 = cart2 k1 a2 a3) : planar_not_equal.eval k0 k1 a0 a1 a2 a3 :=
  (c12_planar_ne_iff_not_eq k0 k1 a0 a1 a2 a3).mpr fun he => h (refine_planar_equal k0 k1 a0 a1 a2 a3 he)

/-- `equal` and `not_equal` never both hold -/
theorem refine_planar_equal_not_equal_excl (k0 k1 : Az) (a0 a1 a2 a3 : ℝ) :
    ¬ (planar_equal.eval k0 k1 a0 a1 a2 a3 ∧ planar_not_equal.eval k0 k1 a0 a1 a2 a3) :=
  fun ⟨he, hn⟩ => (c12_planar_ne_iff_not_eq k0 k1 a0 a1 a2 a3).mp hn he

/-! ### spatial -/

/-- the azimuthal part of every `spatial_equal` variant implies equal `x`, `y` denotations -/
private theorem spatial_equal_az (k0 : Az) (k1 : Lon) (k2 : Az) (k3 : Lon) (a0 a1 a2 a3 a4 a5 : ℝ)
    (h : spatial_equal.eval k0 k1 k2 k3 a0 a1 a2 a3 a4 a5) :
    xOf k0 a0 a1 = xOf k2 a3 a4 ∧ yOf k0 a0 a1 = yOf k2 a3 a4 := by
  cases k0 <;> cases k2 <;> cases k1 <;> cases k3 <;> obtain ⟨⟨h1, h2⟩, -⟩ := h <;>
    first
      | exact ⟨h1, h2⟩
      | (subst h1; subst h2; exact ⟨rfl, rfl⟩)

/-- the longitudinal comparison made by the variant under key `(k0,k1,k2,k3)`: same kind → stored coordinates;
`z` against θ/η → the other side converted to `z`; θ against η → the θ side converted to η -/
private def LonEq (k0 : Az) (k1 : Lon) (k2 : Az) (k3 : Lon) (a0 a1 a2 a3 a4 a5 : ℝ) : Prop :=
  match k1, k3 with
  | .z, .z => a2 = a5
  | .theta, .theta => a2 = a5
  | .eta, .eta => a2 = a5
  | .z, .theta => a2 = spatial_z.eval k2 .theta a3 a4 a5
  | .z, .eta => a2 = spatial_z.eval k2 .eta a3 a4 a5
  | .theta, .z => spatial_z.eval k0 .theta a0 a1 a2 = a5
  | .eta, .z => spatial_z.eval k0 .eta a0 a1 a2 = a5
  | .theta, .eta => spatial_eta.eval k0 .theta a0 a1 a2 = a5
  | .eta, .theta => a2 = spatial_eta.eval k2 .theta a3 a4 a5

private theorem spatial_equal_lon (k0 : Az) (k1 : Lon) (k2 : Az) (k3 : Lon) (a0 a1 a2 a3 a4 a5 : ℝ)
    (h : spatial_equal.eval k0 k1 k2 k3 a0 a1 a2 a3 a4 a5) : LonEq k0 k1 k2 k3 a0 a1 a2 a3 a4 a5 := by
  cases k0 <;> cases k2 <;> cases k1 <;> cases k3 <;> exact h.2

/-- equal `x`,`y` denotations of representable azimuthal storages have equal `ρ` -/
private theorem rho_eq_of_xy_eq {k0 k2 : Az} {a0 a1 a3 a4 : ℝ} (c0 : Canon2 k0 a0 a1) (c2 : Canon2 k2 a3 a4)
    (hx : xOf k0 a0 a1 = xOf k2 a3 a4) (hy : yOf k0 a0 a1 = yOf k2 a3 a4) : rhoOf k0 a0 a1 = rhoOf k2 a3 a4 := by
  have e0 := Spec.sq_xOf_add_sq_yOf k0 a0 a1
  have e2 := Spec.sq_xOf_add_sq_yOf k2 a3 a4
  rw [hx, hy] at e0
  have n0 := Spec.rhoOf_nonneg c0
  have n2 := Spec.rhoOf_nonneg c2
  have : rhoOf k0 a0 a1 ^ 2 = rhoOf k2 a3 a4 ^ 2 := by rw [← e0, ← e2]
  exact (sq_eq_sq₀ n0 n2).mp this

/-- `equal` is sound for all 36 key pairs -/
theorem refine_spatial_equal (k0 : Az) (k1 : Lon) (k2 : Az) (k3 : Lon) (a0 a1 a2 a3 a4 a5 : ℝ)
    (c1 : Canon3 k0 k1 a0 a1 a2) (c2 : Canon3 k2 k3 a3 a4 a5) (t1 : TanOK k1 a2) (t2 : TanOK k3 a5)
    (h : spatial_equal.eval k0 k1 k2 k3 a0 a1 a2 a3 a4 a5) :
    cart3 k0 k1 a0 a1 a2 = cart3 k2 k3 a3 a4 a5 := by
  obtain ⟨hx, hy⟩ := spatial_equal_az k0 k1 k2 k3 a0 a1 a2 a3 a4 a5 h
  have hl := spatial_equal_lon k0 k1 k2 k3 a0 a1 a2 a3 a4 a5 h
  have hr := rho_eq_of_xy_eq c1.1 c2.1 hx hy
  have hz : zOf k0 k1 a0 a1 a2 = zOf k2 k3 a3 a4 a5 := by
    cases k1 <;> cases k3 <;> simp only [LonEq] at hl
    · exact hl
    · rw [hl, refine_spatial_z k2 .theta a3 a4 a5 t2]; rfl
    · rw [hl, refine_spatial_z k2 .eta a3 a4 a5 trivial]; rfl
    · rw [← hl, refine_spatial_z k0 .theta a0 a1 a2 t1]; rfl
    · show rhoOf k0 a0 a1 * (cos a2 / sin a2) = rhoOf k2 a3 a4 * (cos a5 / sin a5)
      rw [hr, hl]
    · rw [← refine_spatial_eta_zOf k0 .theta a0 a1 a2 c1.2.1 c1.2, hl]
      show rhoOf k0 a0 a1 * sinh a5 = rhoOf k2 a3 a4 * sinh a5
      rw [hr]
    · rw [← hl, refine_spatial_z k0 .eta a0 a1 a2 trivial]; rfl
    · rw [← refine_spatial_eta_zOf k2 .theta a3 a4 a5 c2.2.1 c2.2, ← hl]
      show rhoOf k0 a0 a1 * sinh a2 = rhoOf k2 a3 a4 * sinh a2
      rw [hr]
    · show rhoOf k0 a0 a1 * sinh a2 = rhoOf k2 a3 a4 * sinh a5
      rw [hr, hl]
  simp only [cart3, hx, hy, hz]

/-- operands denoting different vectors are reported "not equal" -/
theorem refine_spatial_not_equal (k0 : Az) (k1 : Lon) (k2 : Az) (k3 : Lon) (a0 a1 a2 a3 a4 a5 : ℝ)
    (c1 : Canon3 k0 k1 a0 a1 a2) (c2 : Canon3 k2 k3 a3 a4 a5) (t1 : TanOK k1 a2) (t2 : TanOK k3 a5)
    (h : ¬ cart3 k0 k1 a0 a1 a2 = cart3 k2 k3 a3 a4 a5) :
    spatial_not_equal.eval k0 k1 k2 k3 a0 a1 a2 a3 a4 a5 :=
  (c12_spatial_ne_iff_not_eq k0 k1 k2 k3 a0 a1 a2 a3 a4 a5).mpr
    fun he => h (refine_spatial_equal k0 k1 k2 k3 a0 a1 a2 a3 a4 a5 c1 c2 t1 t2 he)

/-- `Canon2` cannot be dropped: a polar operand with `ρ < 0` compares "equal" to a Cartesian-azimuth operand that
denotes the opposite `z` -/
theorem refine_spatial_equal_needs_canon2 :
    TanOK .theta 1 ∧ spatial_equal.eval .rhophi .theta .xy .theta (-1) 0 1 (-1) 0 1
      ∧ cart3 .rhophi .theta (-1) 0 1 ≠ cart3 .xy .theta (-1) 0 1 := by
  refine ⟨ne_of_gt cos_one_pos, ?_, ?_⟩
  · simp [d_spatial_equal, d_planar_x, d_planar_y]
  · have hs : 0 < sin (1 : ℝ) := sin_pos_of_pos_of_lt_pi one_pos (by linarith [two_le_pi])
    have hc : 0 < cos (1 : ℝ) := cos_one_pos
    have hq : 0 < cos (1 : ℝ) / sin 1 := div_pos hc hs
    intro e
    simp only [cart3, xOf, yOf, zOf, rhoOf, Prod.mk.injEq] at e
    have e3 := e.2.2
    norm_num at e3
    linarith

example : Canon3 .rhophi .theta 2 1 1 ∧ Canon3 .xy .eta 3 4 0 ∧ TanOK .theta 1 ∧ TanOK .eta 0 := by
  have h : 0 < rhoOf .xy 3 4 := L.sqrt_sumsq_pos (Or.inl (by norm_num))
  refine ⟨⟨by norm_num [Canon2], ⟨by norm_num [rhoOf], one_pos, by linarith [two_le_pi]⟩⟩, ⟨trivial, h⟩,
    ne_of_gt cos_one_pos, trivial⟩

/-! ### lorentz -/

/-- every `lorentz_equal` variant is: temporal comparison ∧ `spatial_equal` of the spatial parts; the temporal comparison
is on the stored coordinate when both operands have the same temporal kind and on `lorentz_t` otherwise -/
private theorem lorentz_equal_split (k0 : Az) (k1 : Lon) (k2 : Tmp) (k3 : Az) (k4 : Lon) (k5 : Tmp)
    (a0 a1 a2 a3 a4 a5 a6 a7 : ℝ) (h : lorentz_equal.eval k0 k1 k2 k3 k4 k5 a0 a1 a2 a3 a4 a5 a6 a7) :
    (match k2, k5 with
      | .t, .t => a3 = a7
      | .tau, .tau => a3 = a7
      | _, _ => lorentz_t.eval k0 k1 k2 a0 a1 a2 a3 = lorentz_t.eval k3 k4 k5 a4 a5 a6 a7)
    ∧ spatial_equal.eval k0 k1 k3 k4 a0 a1 a2 a4 a5 a6 := by
  cases k0 <;> cases k1 <;> cases k2 <;> cases k3 <;> cases k4 <;> cases k5 <;> exact h

/-- `equal` is sound for all 144 key pairs -/
theorem refine_lorentz_equal (k0 : Az) (k1 : Lon) (k2 : Tmp) (k3 : Az) (k4 : Lon) (k5 : Tmp)
    (a0 a1 a2 a3 a4 a5 a6 a7 : ℝ)
    (c1 : Canon4 k0 k1 k2 a0 a1 a2 a3) (c2 : Canon4 k3 k4 k5 a4 a5 a6 a7) (t1 : TanOK k1 a2) (t2 : TanOK k4 a6)
    (h : lorentz_equal.eval k0 k1 k2 k3 k4 k5 a0 a1 a2 a3 a4 a5 a6 a7) :
    cart4 k0 k1 k2 a0 a1 a2 a3 = cart4 k3 k4 k5 a4 a5 a6 a7 := by
  obtain ⟨ht, hsp⟩ := lorentz_equal_split k0 k1 k2 k3 k4 k5 a0 a1 a2 a3 a4 a5 a6 a7 h
  have h3 := refine_spatial_equal k0 k1 k3 k4 a0 a1 a2 a4 a5 a6 c1.1 c2.1 t1 t2 hsp
  have hxyz := h3
  simp only [cart3, Prod.mk.injEq] at hxyz
  obtain ⟨hx, hy, hz⟩ := hxyz
  have s1 := Spec.SinOK_of_canonLon c1.1.2
  have s2 := Spec.SinOK_of_canonLon c2.1.2
  have e1 := lorentz_t_eq_tOf k0 k1 k2 a0 a1 a2 a3 s1 c1.2
  have e2 := lorentz_t_eq_tOf k3 k4 k5 a4 a5 a6 a7 s2 c2.2
  have hT : tOf k0 k1 k2 a0 a1 a2 a3 = tOf k3 k4 k5 a4 a5 a6 a7 := by
    cases k2 <;> cases k5 <;> simp only at ht
    · rw [tOf_t, tOf_t, ht]
    · rw [← e1, ← e2, ht]
    · rw [← e1, ← e2, ht]
    · rw [tOf_tau_eq, tOf_tau_eq, hx, hy, hz, ht]
  simp only [cart4, hx, hy, hz, hT]

/-- operands denoting different 4-vectors are reported "not equal" -/
theorem refine_lorentz_not_equal (k0 : Az) (k1 : Lon) (k2 : Tmp) (k3 : Az) (k4 : Lon) (k5 : Tmp)
    (a0 a1 a2 a3 a4 a5 a6 a7 : ℝ)
    (c1 : Canon4 k0 k1 k2 a0 a1 a2 a3) (c2 : Canon4 k3 k4 k5 a4 a5 a6 a7) (t1 : TanOK k1 a2) (t2 : TanOK k4 a6)
    (h : ¬ cart4 k0 k1 k2 a0 a1 a2 a3 = cart4 k3 k4 k5 a4 a5 a6 a7) :
    lorentz_not_equal.eval k0 k1 k2 k3 k4 k5 a0 a1 a2 a3 a4 a5 a6 a7 :=
  (c12_lorentz_ne_iff_not_eq k0 k1 k2 k3 k4 k5 a0 a1 a2 a3 a4 a5 a6 a7).mpr
    fun he => h (refine_lorentz_equal k0 k1 k2 k3 k4 k5 a0 a1 a2 a3 a4 a5 a6 a7 c1 c2 t1 t2 he)

example : Canon4 .rhophi .eta .tau 1 0 0 2 ∧ TanOK .eta 0 := by
  refine ⟨⟨⟨by norm_num [Canon2], by norm_num [CanonLon, rhoOf]⟩, ?_⟩, trivial⟩
  show (0 : ℝ) ≤ 2; norm_num

end VR
