/-
Refinement theorems for the binary / vector-valued spatial (3D) compute modules
`dot`, `cross`, `add`, `subtract`, `scale`, `unit`: for EVERY coordinate-system key
the generated model of the variant found under that key computes `Spec.op` of the
denotations of its operands (C01 / C02).
-/
import VectorModel.Spec.Basic
import VectorModel.Lemmas.Real
import VectorModel.Refine.Planar
import VectorModel.Refine.SpatialZ
import VectorModel.Refine.SpatialAcc
import VectorModel.Gen.Real.spatial_dot
import VectorModel.Gen.Real.spatial_cross
import VectorModel.Gen.Real.spatial_add
import VectorModel.Gen.Real.spatial_subtract
import VectorModel.Gen.Real.spatial_scale
import VectorModel.Gen.Real.spatial_unit
import Mathlib.Tactic.NormNum

namespace VR
open VK Spec Real

/-! ### real identities behind the specialised variants -/

/-- `cot (2 arctan e^{-η}) = sinh η`; no singular point (`sin (2 arctan u) ≠ 0` for `u > 0`) -/
private theorem cot_two_arctan_exp (η : ℝ) :
    cos (2 * arctan (exp (-η))) / sin (2 * arctan (exp (-η))) = sinh η := by
  have hc : 0 < cos (arctan (exp (-η))) := cos_arctan_pos _
  have hs : sin (arctan (exp (-η))) = exp (-η) * cos (arctan (exp (-η))) := by
    have := tan_mul_cos (ne_of_gt hc)
    rw [tan_arctan] at this; exact this.symm
  rw [cos_two_mul', sin_two_mul, hs, sinh_eq]
  generalize cos (arctan (exp (-η))) = c at hc ⊢
  rw [exp_neg]
  have he : 0 < exp η := exp_pos _
  field_simp

private theorem inv_tan_mul (a b : ℝ) : 1 / (tan a * tan b) = (cos a / sin a) * (cos b / sin b) := by
  rw [tan_eq_sin_div_cos, tan_eq_sin_div_cos, one_div, mul_inv, inv_div, inv_div]

private theorem half_exp_sinh (η : ℝ) : 0.5 * (1 - exp (-η) ^ 2) / exp (-η) = sinh η := by
  rw [sinh_eq, exp_neg]
  have he : 0 < exp η := exp_pos _
  field_simp
  ring

private theorem cot_theta_rhophi_eta (r p η : ℝ) :
    cos (spatial_theta.rhophi_eta r p η) / sin (spatial_theta.rhophi_eta r p η) = sinh η := by
  simp only [d_spatial_theta]; norm_num only; exact cot_two_arctan_exp η

/-! ### dot -/

/-- `dot` computes the Euclidean scalar product of the denotations, for all 36 keys (only `TanOK` for θ keys) -/
theorem refine_spatial_dot (k0 : Az) (k1 : Lon) (k2 : Az) (k3 : Lon) (a0 a1 a2 a3 a4 a5 : ℝ)
    (h1 : TanOK k1 a2) (h2 : TanOK k3 a5) :
    spatial_dot.eval k0 k1 k2 k3 a0 a1 a2 a3 a4 a5 = dot3 (cart3 k0 k1 a0 a1 a2) (cart3 k2 k3 a3 a4 a5) := by
  have z1 := refine_spatial_z k0 k1 a0 a1 a2 h1
  have z2 := refine_spatial_z k2 k3 a3 a4 a5 h2
  cases k0 <;> cases k2 <;> cases k1 <;> cases k3 <;> simp only [spatial_z.eval] at z1 z2 <;>
    simp only [d_spatial_dot, conv_x_xy, conv_x_rhophi, conv_y_xy, conv_y_rhophi, z1, z2, dot3, cart3]
  all_goals simp only [inv_tan_mul, half_exp_sinh, cot_theta_rhophi_eta, xOf, yOf, zOf, rhoOf]
  all_goals try (rw [cos_sub]; ring1)

example : TanOK .theta 1 := ne_of_gt cos_one_pos

/-! ### cross (declared result `[az xy, lon z, none]`) -/

theorem refine_spatial_cross (k0 : Az) (k1 : Lon) (k2 : Az) (k3 : Lon) (a0 a1 a2 a3 a4 a5 : ℝ)
    (h1 : TanOK k1 a2) (h2 : TanOK k3 a5) :
    interp3 (spatial_cross.ret k0 k1 k2 k3) (spatial_cross.eval k0 k1 k2 k3 a0 a1 a2 a3 a4 a5)
      = some (cross3 (cart3 k0 k1 a0 a1 a2) (cart3 k2 k3 a3 a4 a5)) := by
  have z1 := refine_spatial_z k0 k1 a0 a1 a2 h1
  have z2 := refine_spatial_z k2 k3 a3 a4 a5 h2
  cases k0 <;> cases k2 <;> cases k1 <;> cases k3 <;> simp only [spatial_z.eval] at z1 z2 <;>
    simp only [d_spatial_cross, conv_x_xy, conv_x_rhophi, conv_y_xy, conv_y_rhophi, z1, z2, cross3, cart3,
      interp3, retAz, retLon]
  all_goals rfl

/-! ### scale -/

private theorem sign_cases (f : ℝ) :
    (f < 0 ∧ P.sign f = -1 ∧ |f| = -f) ∨ (f = 0 ∧ P.sign f = 0 ∧ |f| = 0) ∨ (0 < f ∧ P.sign f = 1 ∧ |f| = f) := by
  rcases lt_trichotomy f 0 with hf | hf | hf
  · exact Or.inl ⟨hf, by simp [P.sign, Real.sign_of_neg hf], abs_of_neg hf⟩
  · subst hf; exact Or.inr (Or.inl ⟨rfl, by simp [P.sign], abs_zero⟩)
  · exact Or.inr (Or.inr ⟨hf, by simp [P.sign, Real.sign_of_pos hf], abs_of_pos hf⟩)

private theorem scale_turn (f p : ℝ) :
    |f| * cos (p + -0.5 * (P.sign f - 1) * π) = f * cos p ∧ |f| * sin (p + -0.5 * (P.sign f - 1) * π) = f * sin p := by
  rcases sign_cases f with ⟨_, hs, ha⟩ | ⟨hf, hs, ha⟩ | ⟨_, hs, ha⟩ <;> rw [hs, ha]
  · have e : p + -0.5 * (-1 - 1) * π = p + π := by ring
    rw [e, cos_add_pi, sin_add_pi]; constructor <;> ring
  · subst hf; simp
  · have e : p + -0.5 * (1 - 1) * π = p := by ring
    rw [e]; exact ⟨rfl, rfl⟩

private theorem scale_flip (f θ : ℝ) (h0 : 0 ≤ θ) (h1 : θ ≤ π) :
    |f| * (cos |θ + 0.5 * (P.sign f - 1) * π| / sin |θ + 0.5 * (P.sign f - 1) * π|) = f * (cos θ / sin θ) := by
  rcases sign_cases f with ⟨_, hs, ha⟩ | ⟨hf, hs, ha⟩ | ⟨_, hs, ha⟩ <;> rw [hs, ha]
  · have e : θ + 0.5 * (-1 - 1) * π = -(π - θ) := by ring
    rw [e, abs_neg, abs_of_nonneg (by linarith), cos_pi_sub, sin_pi_sub]; ring
  · subst hf; simp
  · have e : θ + 0.5 * (1 - 1) * π = θ := by ring
    rw [e, abs_of_nonneg h0]

private theorem scale_eta (f η : ℝ) : |f| * sinh (η * P.sign f) = f * sinh η := by
  rcases sign_cases f with ⟨_, hs, ha⟩ | ⟨hf, hs, ha⟩ | ⟨_, hs, ha⟩ <;> rw [hs, ha]
  · rw [mul_neg, mul_one, sinh_neg]; ring
  · subst hf; simp
  · rw [mul_one]

private theorem scale_rho (f a b : ℝ) : sqrt ((a * f) ^ 2 + (b * f) ^ 2) = sqrt (a ^ 2 + b ^ 2) * |f| := by
  have : (a * f) ^ 2 + (b * f) ^ 2 = (a ^ 2 + b ^ 2) * f ^ 2 := by ring
  rw [this, sqrt_mul (by positivity), sqrt_sq_eq_abs]

/-- the stored polar angle lies in `[0, π]` (implied by `CanonLon`): the code flips θ to `|θ − π|` for negative factors -/
def ThetaRange : Lon → ℝ → Prop
  | .theta, c => 0 ≤ c ∧ c ≤ π
  | _, _ => True

/-- `scale` multiplies the denoted Cartesian vector by the factor, for every factor (including `0` and negatives) -/
theorem refine_spatial_scale (k0 : Az) (k1 : Lon) (f a b c : ℝ) (h : ThetaRange k1 c) :
    interp3 (spatial_scale.ret k0 k1) (spatial_scale.eval k0 k1 f a b c) = some (smul3 f (cart3 k0 k1 a b c)) := by
  have hT := scale_turn f b
  have hE := scale_eta f c
  cases k0 <;> cases k1 <;>
    simp only [d_spatial_scale, interp3, retAz, retLon, smul3, cart3, xOf, yOf, zOf, rhoOf, L.cos_rectify, L.sin_rectify,
      scale_rho, Option.some.injEq, Prod.mk.injEq]
  · exact ⟨by ring, by ring, by ring⟩
  · have hF := scale_flip f c h.1 h.2
    exact ⟨by ring, by ring, by linear_combination (√(a ^ 2 + b ^ 2)) * hF⟩
  · exact ⟨by ring, by ring, by linear_combination (√(a ^ 2 + b ^ 2)) * hE⟩
  · exact ⟨by linear_combination a * hT.1, by linear_combination a * hT.2, by ring⟩
  · have hF := scale_flip f c h.1 h.2
    exact ⟨by linear_combination a * hT.1, by linear_combination a * hT.2, by linear_combination a * hF⟩
  · exact ⟨by linear_combination a * hT.1, by linear_combination a * hT.2, by linear_combination a * hE⟩

theorem ThetaRange_of_canonLon {k0 : Az} {k1 : Lon} {a b c : ℝ} (h : CanonLon k0 k1 a b c) : ThetaRange k1 c := by
  cases k1
  · trivial
  · exact ⟨h.2.1.le, h.2.2.le⟩
  · trivial

example : ThetaRange .theta 1 := ⟨by norm_num, by linarith [Real.one_le_pi_div_two, Real.pi_pos]⟩

/-! ### add / subtract -/

/-- the exact Cartesian result `p` is representable in the DECLARED result system `r`: results declared with a
θ/η longitudinal coordinate must be off the z axis (C01's "exact result representable") -/
def Representable3 (r : Ret) (p : ℝ × ℝ × ℝ) : Prop := retLon r = some .z ∨ 0 < p.1 ^ 2 + p.2.1 ^ 2

private theorem padd_polar (r1 p1 r2 p2 : ℝ) :
    0 ≤ (planar_add.rhophi_rhophi r1 p1 r2 p2).1 ∧
    (planar_add.rhophi_rhophi r1 p1 r2 p2).1 * cos (planar_add.rhophi_rhophi r1 p1 r2 p2).2 = r1 * cos p1 + r2 * cos p2 ∧
    (planar_add.rhophi_rhophi r1 p1 r2 p2).1 * sin (planar_add.rhophi_rhophi r1 p1 r2 p2).2 = r1 * sin p1 + r2 * sin p2 := by
  have h := refine_planar_add .rhophi .rhophi r1 p1 r2 p2
  simp only [planar_add.eval, planar_add.ret, interp2, retAz, Option.map, add2, cart2, xOf, yOf, Option.some.injEq,
    Prod.mk.injEq] at h
  exact ⟨Real.sqrt_nonneg _, h.1, h.2⟩

private theorem psub_polar (r1 p1 r2 p2 : ℝ) :
    0 ≤ (planar_subtract.rhophi_rhophi r1 p1 r2 p2).1 ∧
    (planar_subtract.rhophi_rhophi r1 p1 r2 p2).1 * cos (planar_subtract.rhophi_rhophi r1 p1 r2 p2).2 = r1 * cos p1 - r2 * cos p2 ∧
    (planar_subtract.rhophi_rhophi r1 p1 r2 p2).1 * sin (planar_subtract.rhophi_rhophi r1 p1 r2 p2).2 = r1 * sin p1 - r2 * sin p2 := by
  have h := refine_planar_subtract .rhophi .rhophi r1 p1 r2 p2
  simp only [planar_subtract.eval, planar_subtract.ret, interp2, retAz, Option.map, sub2, cart2, xOf, yOf, Option.some.injEq,
    Prod.mk.injEq] at h
  exact ⟨Real.sqrt_nonneg _, h.1, h.2⟩

private theorem polar_pos {r p X Y : ℝ} (h0 : 0 ≤ r) (hx : r * cos p = X) (hy : r * sin p = Y) (h : 0 < X ^ 2 + Y ^ 2) : 0 < r := by
  rcases h0.lt_or_eq with h0 | h0
  · exact h0
  · subst h0; rw [← hx, ← hy] at h; simp at h

private theorem reenc_xy_theta (x y z : ℝ) (h : 0 < x ^ 2 + y ^ 2) :
    cart3 .xy .theta x y (spatial_theta.xy_z x y z) = (x, y, z) := by
  have hr : 0 < rhoOf .xy x y := Real.sqrt_pos.mpr h
  simp only [cart3, spatial_theta_xy_z_zOf x y z hr, xOf, yOf]

private theorem reenc_xy_eta (x y z : ℝ) (h : 0 < x ^ 2 + y ^ 2) :
    cart3 .xy .eta x y (spatial_eta.xy_z x y z) = (x, y, z) := by
  have hr : 0 < rhoOf .xy x y := Real.sqrt_pos.mpr h
  simp only [cart3, spatial_eta_xy_z_zOf x y z hr, xOf, yOf]

private theorem reenc_rhophi_z {r p X Y : ℝ} (z : ℝ) (hx : r * cos p = X) (hy : r * sin p = Y) :
    cart3 .rhophi .z r p z = (X, Y, z) := by
  simp only [cart3, xOf, yOf, zOf, hx, hy]

private theorem reenc_rhophi_theta {r p X Y : ℝ} (z : ℝ) (h0 : 0 ≤ r) (hx : r * cos p = X) (hy : r * sin p = Y)
    (h : 0 < X ^ 2 + Y ^ 2) : cart3 .rhophi .theta r p (spatial_theta.rhophi_z r p z) = (X, Y, z) := by
  have hr : 0 < rhoOf .rhophi r p := polar_pos h0 hx hy h
  simp only [cart3, spatial_theta_rhophi_z_zOf r p z hr, xOf, yOf, hx, hy]

private theorem reenc_rhophi_eta {r p X Y : ℝ} (z : ℝ) (h0 : 0 ≤ r) (hx : r * cos p = X) (hy : r * sin p = Y)
    (h : 0 < X ^ 2 + Y ^ 2) : cart3 .rhophi .eta r p (spatial_eta.rhophi_z r p z) = (X, Y, z) := by
  have hr : 0 < rhoOf .rhophi r p := polar_pos h0 hx hy h
  simp only [cart3, spatial_eta_rhophi_z_zOf r p z hr, xOf, yOf, hx, hy]

theorem refine_spatial_add (k0 : Az) (k1 : Lon) (k2 : Az) (k3 : Lon) (a0 a1 a2 a3 a4 a5 : ℝ)
    (h1 : TanOK k1 a2) (h2 : TanOK k3 a5)
    (hrep : Representable3 (spatial_add.ret k0 k1 k2 k3) (add3 (cart3 k0 k1 a0 a1 a2) (cart3 k2 k3 a3 a4 a5))) :
    interp3 (spatial_add.ret k0 k1 k2 k3) (spatial_add.eval k0 k1 k2 k3 a0 a1 a2 a3 a4 a5)
      = some (add3 (cart3 k0 k1 a0 a1 a2) (cart3 k2 k3 a3 a4 a5)) := by
  have z1 := refine_spatial_z k0 k1 a0 a1 a2 h1
  have z2 := refine_spatial_z k2 k3 a3 a4 a5 h2
  cases k0 <;> cases k2 <;> cases k1 <;> cases k3 <;> simp only [spatial_z.eval] at z1 z2 <;>
    simp only [d_spatial_add, conv_x_rhophi, conv_y_rhophi, z1, z2, add3, cart3,
      interp3, retAz, retLon]
  all_goals try rfl
  all_goals simp only [Representable3, spatial_add.ret, retLon, add3, cart3, Option.some.injEq, reduceCtorEq, false_or] at hrep
  · exact congrArg some (reenc_xy_theta _ _ _ hrep)
  · exact congrArg some (reenc_xy_eta _ _ _ hrep)
  · obtain ⟨_, hx, hy⟩ := padd_polar a0 a1 a3 a4
    exact congrArg some (reenc_rhophi_z _ hx hy)
  · obtain ⟨h0, hx, hy⟩ := padd_polar a0 a1 a3 a4
    exact congrArg some (reenc_rhophi_theta _ h0 hx hy hrep)
  · obtain ⟨h0, hx, hy⟩ := padd_polar a0 a1 a3 a4
    exact congrArg some (reenc_rhophi_eta _ h0 hx hy hrep)
theorem refine_spatial_subtract (k0 : Az) (k1 : Lon) (k2 : Az) (k3 : Lon) (a0 a1 a2 a3 a4 a5 : ℝ)
    (h1 : TanOK k1 a2) (h2 : TanOK k3 a5)
    (hrep : Representable3 (spatial_subtract.ret k0 k1 k2 k3) (sub3 (cart3 k0 k1 a0 a1 a2) (cart3 k2 k3 a3 a4 a5))) :
    interp3 (spatial_subtract.ret k0 k1 k2 k3) (spatial_subtract.eval k0 k1 k2 k3 a0 a1 a2 a3 a4 a5)
      = some (sub3 (cart3 k0 k1 a0 a1 a2) (cart3 k2 k3 a3 a4 a5)) := by
  have z1 := refine_spatial_z k0 k1 a0 a1 a2 h1
  have z2 := refine_spatial_z k2 k3 a3 a4 a5 h2
  cases k0 <;> cases k2 <;> cases k1 <;> cases k3 <;> simp only [spatial_z.eval] at z1 z2 <;>
    simp only [d_spatial_subtract, conv_x_rhophi, conv_y_rhophi, z1, z2, sub3, cart3,
      interp3, retAz, retLon]
  all_goals try rfl
  all_goals simp only [Representable3, spatial_subtract.ret, retLon, sub3, cart3, Option.some.injEq, reduceCtorEq, false_or] at hrep
  · exact congrArg some (reenc_xy_theta _ _ _ hrep)
  · exact congrArg some (reenc_xy_eta _ _ _ hrep)
  · obtain ⟨_, hx, hy⟩ := psub_polar a0 a1 a3 a4
    exact congrArg some (reenc_rhophi_z _ hx hy)
  · obtain ⟨h0, hx, hy⟩ := psub_polar a0 a1 a3 a4
    exact congrArg some (reenc_rhophi_theta _ h0 hx hy hrep)
  · obtain ⟨h0, hx, hy⟩ := psub_polar a0 a1 a3 a4
    exact congrArg some (reenc_rhophi_eta _ h0 hx hy hrep)

example : TanOK .theta 1 ∧ Representable3 (spatial_add.ret .xy .theta .xy .theta)
    (add3 (cart3 .xy .theta 1 0 1) (cart3 .xy .theta 1 0 1)) :=
  ⟨ne_of_gt cos_one_pos, Or.inr (by norm_num [add3, cart3, xOf, yOf])⟩

/-! ### unit -/

private theorem sqrt_div_pos (a b n : ℝ) (hn : 0 < n) : sqrt ((a / n) ^ 2 + (b / n) ^ 2) = sqrt (a ^ 2 + b ^ 2) / n := by
  have : (a / n) ^ 2 + (b / n) ^ 2 = (a ^ 2 + b ^ 2) / n ^ 2 := by field_simp
  rw [this, sqrt_div (by positivity), sqrt_sq hn.le]

theorem refine_spatial_unit (k0 : Az) (k1 : Lon) (a b c : ℝ) (h : Canon3 k0 k1 a b c) (hm : 0 < mag2Of k0 k1 a b c) :
    interp3 (spatial_unit.ret k0 k1) (spatial_unit.eval k0 k1 a b c)
      = some (smul3 (1 / sqrt (mag2Of k0 k1 a b c)) (cart3 k0 k1 a b c)) := by
  have hn := refine_spatial_mag_canon k0 k1 a b c h
  have hpos : 0 < sqrt (mag2Of k0 k1 a b c) := Real.sqrt_pos.mpr hm
  generalize sqrt (mag2Of k0 k1 a b c) = n at hn hpos
  cases k0 <;> cases k1 <;> simp only [spatial_mag.eval] at hn <;>
    simp only [d_spatial_unit, hn, P.nanToNum_eq, interp3, retAz, retLon, smul3, cart3, xOf, yOf, zOf, rhoOf,
      sqrt_div_pos _ _ _ hpos, Option.some.injEq, Prod.mk.injEq]
  all_goals exact ⟨by ring, by ring, by ring⟩

example : Canon3 .rhophi .eta 1 0 0 ∧ 0 < mag2Of .rhophi .eta 1 0 0 := by
  refine ⟨⟨by norm_num [Canon2], by norm_num [CanonLon, rhoOf]⟩, ?_⟩
  norm_num [mag2Of, xOf, yOf, zOf, rhoOf]

end VR
