/-
Refinement theorems for the binary / vector-valued spatial (3D) compute modules
`dot`, `cross`, `add`, `subtract`, `scale`, `unit`: for EVERY coordinate-system key
the generated model of the variant found under that key computes `Spec.op` of the
denotations of its operands (C01 / C02).
-/
import VectorModel.Spec.Basic
import VectorModel.Lemmas.Real
import VectorModel.Refine.Planar
import VectorModel.Refine.SpatialZ
import VectorModel.Gen.Real.spatial_dot
import VectorModel.Gen.Real.spatial_cross
import VectorModel.Gen.Real.spatial_add
import VectorModel.Gen.Real.spatial_subtract
import VectorModel.Gen.Real.spatial_scale
import VectorModel.Gen.Real.spatial_unit
import Mathlib.Tactic.NormNum

namespace VR
open VK Spec Real

/-! ### real identities behind the specialised variants -/

/-- `cot (2 arctan e^{-η}) = sinh η`; no singular point (`sin (2 arctan u) ≠ 0` for `u > 0`) -/
private theorem cot_two_arctan_exp (η : ℝ) :
    cos (2 * arctan (exp (-η))) / sin (2 * arctan (exp (-η))) = sinh η := by
  have hc : 0 < cos (arctan (exp (-η))) := cos_arctan_pos _
  have hs : sin (arctan (exp (-η))) = exp (-η) * cos (arctan (exp (-η))) := by
    have := tan_mul_cos (ne_of_gt hc)
    rw [tan_arctan] at this; exact this.symm
  rw [cos_two_mul', sin_two_mul, hs, sinh_eq]
  generalize cos (arctan (exp (-η))) = c at hc ⊢
  rw [exp_neg]
  have he : 0 < exp η := exp_pos _
  field_simp

private theorem cot_arccos {ρ z m : ℝ} (hρ : 0 < ρ) (hm : m = ρ ^ 2 + z ^ 2) :
    cos (arccos (z / sqrt m)) / sin (arccos (z / sqrt m)) = z / ρ := by
  have hmpos : 0 < m := by rw [hm]; positivity
  have hs : 0 < sqrt m := sqrt_pos.mpr hmpos
  have hsq : sqrt m ^ 2 = m := sq_sqrt hmpos.le
  have hz : z ^ 2 ≤ sqrt m ^ 2 := by rw [hsq, hm]; nlinarith [sq_nonneg ρ]
  have habs : |z| ≤ sqrt m := abs_le_of_sq_le_sq' hz hs.le |> abs_le.mpr
  have h1 : -1 ≤ z / sqrt m := by rw [le_div_iff₀ hs]; linarith [(abs_le.mp habs).1]
  have h2 : z / sqrt m ≤ 1 := by rw [div_le_iff₀ hs]; linarith [(abs_le.mp habs).2]
  rw [cos_arccos h1 h2, sin_arccos]
  have : 1 - (z / sqrt m) ^ 2 = (ρ / sqrt m) ^ 2 := by
    field_simp; rw [hsq, hm]; ring
  rw [this, sqrt_sq (by positivity)]
  field_simp

private theorem inv_tan_mul (a b : ℝ) : 1 / (tan a * tan b) = (cos a / sin a) * (cos b / sin b) := by
  rw [tan_eq_sin_div_cos, tan_eq_sin_div_cos, one_div, mul_inv, inv_div, inv_div]

private theorem half_exp_sinh (η : ℝ) : 0.5 * (1 - exp (-η) ^ 2) / exp (-η) = sinh η := by
  rw [sinh_eq, exp_neg]
  have he : 0 < exp η := exp_pos _
  field_simp
  ring

private theorem cot_theta_rhophi_eta (r p η : ℝ) :
    cos (spatial_theta.rhophi_eta r p η) / sin (spatial_theta.rhophi_eta r p η) = sinh η := by
  simp only [d_spatial_theta]; norm_num only; exact cot_two_arctan_exp η

private theorem cot_theta_rhophi_z (r p z : ℝ) (hr : 0 < r) :
    cos (spatial_theta.rhophi_z r p z) / sin (spatial_theta.rhophi_z r p z) = z / r := by
  simp only [d_spatial_theta, d_spatial_costheta, d_spatial_mag, d_spatial_mag2, P.nanToNum_eq]
  exact cot_arccos hr rfl

def DotOK : Az → Lon → Az → Lon → ℝ → Prop
  | .rhophi, .eta, .rhophi, .z, r2 => 0 < r2
  | _, _, _, _, _ => True

theorem refine_spatial_dot_partial (k0 : Az) (k1 : Lon) (k2 : Az) (k3 : Lon) (a0 a1 a2 a3 a4 a5 : ℝ)
    (h1 : TanOK k1 a2) (h2 : TanOK k3 a5) (h3 : DotOK k0 k1 k2 k3 a3) :
    spatial_dot.eval k0 k1 k2 k3 a0 a1 a2 a3 a4 a5 = dot3 (cart3 k0 k1 a0 a1 a2) (cart3 k2 k3 a3 a4 a5) := by
  have z1 := refine_spatial_z k0 k1 a0 a1 a2 h1
  have z2 := refine_spatial_z k2 k3 a3 a4 a5 h2
  cases k0 <;> cases k2 <;> cases k1 <;> cases k3 <;> simp only [spatial_z.eval] at z1 z2 <;>
    simp only [d_spatial_dot, conv_x_xy, conv_x_rhophi, conv_y_xy, conv_y_rhophi, z1, z2, dot3, cart3]
  all_goals simp only [inv_tan_mul, half_exp_sinh, cot_theta_rhophi_eta, xOf, yOf, zOf, rhoOf]
  all_goals try (rw [cos_sub]; ring1)
  · simp only [DotOK] at h3
    rw [cot_theta_rhophi_z _ _ _ h3, cos_sub]
    have := ne_of_gt h3
    field_simp

theorem refine_spatial_cross (k0 : Az) (k1 : Lon) (k2 : Az) (k3 : Lon) (a0 a1 a2 a3 a4 a5 : ℝ)
    (h1 : TanOK k1 a2) (h2 : TanOK k3 a5) :
    interp3 (spatial_cross.ret k0 k1 k2 k3) (spatial_cross.eval k0 k1 k2 k3 a0 a1 a2 a3 a4 a5)
      = some (cross3 (cart3 k0 k1 a0 a1 a2) (cart3 k2 k3 a3 a4 a5)) := by
  have z1 := refine_spatial_z k0 k1 a0 a1 a2 h1
  have z2 := refine_spatial_z k2 k3 a3 a4 a5 h2
  cases k0 <;> cases k2 <;> cases k1 <;> cases k3 <;> simp only [spatial_z.eval] at z1 z2 <;>
    simp only [d_spatial_cross, conv_x_xy, conv_x_rhophi, conv_y_xy, conv_y_rhophi, z1, z2, cross3, cart3,
      interp3, retAz, retLon]
  all_goals rfl
end VR
