/-
Property C01 for WHOLE COMPUTATIONS: coordinate independence of every finite expression built from public methods
(prefix `c01e_`), by induction over an expression language.

The method-level files (`C01Method`, `MethodBin`, `MethodConv`, …) say what ONE public call denotes, for operands that
satisfy hypotheses on their STORED coordinates (`TanOKV`, `ThetaRangeV`, `RepAdd`, `UnitOK`, `FwdOK`, …).  Here the
hypotheses are on the DENOTATIONS only (`Generic3`: off the z axis, off the plane z = 0 — of the specified value of every
subexpression), and the storage hypotheses of every intermediate call are DERIVED: the stored coordinates of a result
are in range by `Props/CanonClosed.lean`, and a stored vector in range with a generic denotation satisfies every
storage hypothesis (`generic_storage_ok`).

Contents
* §1–8   3D: language `E3` (var, add, sub, scale, neg, rotateZ/X/Y, cross, unit, the six `to_<system>`), model `evalM`
         (every node is `VG.call evR K A "<name>" …` / `VG.operator … "neg"`), specification `evalS` (Cartesian lists only),
         `Generic3`, `GenericAll`, invariant `Good3` (= well-formed 3D + `StoredInRange` + not stored at a pole),
         bridge `generic_storage_ok`, one lemma per node (`add_case` …), MAIN THEOREM `c01e_eval3`.
* §9     COROLLARY `c01e_indep3` / `c01e_indep3_eq`: same denotations in ⟹ same denotation out.
* §10    scalar expressions `S3` (x y z rho rho2 phi eta theta costheta cottheta mag mag2; dot deltaphi deltaeta deltaR2
         deltaR deltaangle): `c01e_evalS3`, `c01e_indepS3`.
* §11    non-vacuity: `exE_generic` (depth 5, (x,y,z) + (x,y,θ) + (ρ,φ,η) variables, mixed backends/flavors).
* §12    2D: `E2`, `c01e_eval2`, `c01e_indep2` — genericity needed ONLY for the operand of `unit`.
* §13    4D: `E4` (var, add, sub, scale, rotateZ/X/Y, boostX/Y/Z(beta), boost_p4, unit, the twelve `to_<system>`),
         `Generic4` (spatial part generic, forward time-like), `c01e_eval4`, `c01e_indep4`; scalars `S4`
         (the 3D ones + t t2 tau tau2 beta gamma rapidity; Minkowski `dot`): `c01e_evalS4`, `c01e_indepS4`; `exE4_generic`.
* §14    ONE language `E` for all dimensions with the dimension-changing nodes (`to_Vector2D/3D`, `to_Vector3D(z/theta/eta=)`,
         `to_Vector4D(t/tau=)`, `boost_beta3`): `c01e_eval`, `c01e_indep`, scalars `c01e_evalSU`, `c01e_indepSU`, `exEU_generic`.
* §15    FINDING `c01e_phi_jump`: `v.rotateZ(0).phi` is `-π` for `(ρ, φ) = (1, π)` and `+π` for `(x, y) = (-1, 0)`.
* §16    helpers `c01e_boostX/Y/Z_timelike`, `c01e_generic4_boostX`: axis boosts with `|β| < 1` keep forward time-like-ness.

Not covered (see the final report of the task): 4D unary minus (a τ-stored vector cannot denote `t < 0`,
`c11m_neg_tau_discrepancy`), the `gamma=` forms of the axis boosts, `boostCM_of*`, `to_beta3`, `rotate_axis/euler/
quaternion`, `transform*`, `scale2D/3D` (documented exceptions), the truth-valued methods (`equal`, `isclose`,
`is_parallel`, …), lower-dimensional `to_<system>` projections (`to_xy` on a 3D vector, …), mixed 3D/4D operands of the
angular methods.
-/
import VectorModel.Props.C01Method
import VectorModel.Props.MethodBin
import VectorModel.Props.MethodConv
import VectorModel.Props.MethodLorentz
import VectorModel.Props.CanonClosed

set_option linter.unusedVariables false
set_option linter.constructorNameAsVariable false
set_option maxRecDepth 8192

namespace VR
namespace C01E
open VK VG Spec Real C01M C11M

/-! ## 1. The expression language (3D vectors) -/

/-- vector-valued expressions over variables `var i` (3D vectors) -/
inductive E3 : Type
  | var (i : Nat)
  | add (a b : E3)
  | sub (a b : E3)
  | scale (k : ℝ) (a : E3)
  | neg (a : E3)
  | rotateZ (ang : ℝ) (a : E3)
  | rotateX (ang : ℝ) (a : E3)
  | rotateY (ang : ℝ) (a : E3)
  | cross (a b : E3)
  | unit (a : E3)
  | conv (az : Az) (lon : Lon) (a : E3)   -- `to_<system>()` into the named 3D system

/-! ## 2. Running the MODEL -/

/-- a method result that must be a vector -/
def vecOf (r : Except Err (Res ℝ Prop)) : Except Err (Vec ℝ) :=
  match r with
  | .ok (.vec v) => .ok v
  | .ok _ => .error .assertionError
  | .error e => .error e

/-- unary node: evaluate the operand, then the public call -/
def un (x : Except Err (Vec ℝ)) (f : Vec ℝ → Except Err (Res ℝ Prop)) : Except Err (Vec ℝ) :=
  match x with
  | .ok v => vecOf (f v)
  | .error e => .error e

/-- binary node: evaluate the operands left to right, then the public call -/
def bin (x y : Except Err (Vec ℝ)) (f : Vec ℝ → Vec ℝ → Except Err (Res ℝ Prop)) : Except Err (Vec ℝ) :=
  match x, y with
  | .ok a, .ok b => vecOf (f a b)
  | .error e, _ => .error e
  | .ok _, .error e => .error e

/-- the public name of the conversion into the 3D system `(az, lon)` -/
def convName : Az → Lon → String
  | .xy, .z => "to_xyz" | .xy, .theta => "to_xytheta" | .xy, .eta => "to_xyeta"
  | .rhophi, .z => "to_rhophiz" | .rhophi, .theta => "to_rhophitheta" | .rhophi, .eta => "to_rhophieta"

/-- **the model**: every node is the public call on the values of the operands -/
noncomputable def evalM (K : Consts ℝ) (A : Arith ℝ) (ρ : Nat → Vec ℝ) : E3 → Except Err (Vec ℝ)
  | .var i => .ok (ρ i)
  | .add a b => bin (evalM K A ρ a) (evalM K A ρ b) fun va vb => call evR K A "add" va [.v vb]
  | .sub a b => bin (evalM K A ρ a) (evalM K A ρ b) fun va vb => call evR K A "subtract" va [.v vb]
  | .scale k a => un (evalM K A ρ a) fun va => call evR K A "scale" va [.sc k]
  | .neg a => un (evalM K A ρ a) fun va => operator evR K A "neg" va []
  | .rotateZ ang a => un (evalM K A ρ a) fun va => call evR K A "rotateZ" va [.sc ang]
  | .rotateX ang a => un (evalM K A ρ a) fun va => call evR K A "rotateX" va [.sc ang]
  | .rotateY ang a => un (evalM K A ρ a) fun va => call evR K A "rotateY" va [.sc ang]
  | .cross a b => bin (evalM K A ρ a) (evalM K A ρ b) fun va vb => call evR K A "cross" va [.v vb]
  | .unit a => un (evalM K A ρ a) fun va => call evR K A "unit" va []
  | .conv az lon a => un (evalM K A ρ a) fun va => call evR K A (convName az lon) va []

/-! ## 3. The SPECIFICATION: Cartesian components only, no reference to storage -/

noncomputable def evalS (ρS : Nat → List ℝ) : E3 → List ℝ
  | .var i => ρS i
  | .add a b => List.zipWith (· + ·) (evalS ρS a) (evalS ρS b)
  | .sub a b => List.zipWith (· - ·) (evalS ρS a) (evalS ρS b)
  | .scale k a => (evalS ρS a).map (k * ·)
  | .neg a => (evalS ρS a).map (fun x => -x)
  | .rotateZ ang a => onSpatial (rotZ ang) (evalS ρS a)
  | .rotateX ang a => onSpatial (rotX ang) (evalS ρS a)
  | .rotateY ang a => onSpatial (rotY ang) (evalS ρS a)
  | .cross a b => crossL (evalS ρS a) (evalS ρS b)
  | .unit a => (evalS ρS a).map (fun x => 1 / normL (evalS ρS a) * x)
  | .conv _ _ a => evalS ρS a

/-! ## 4. Genericity: a predicate on DENOTATIONS only -/

/-- a point off the z axis and off the transverse plane -/
def Generic3 (p : List ℝ) : Prop := ∃ x y z, p = [x, y, z] ∧ 0 < x ^ 2 + y ^ 2 ∧ z ≠ 0

/-- the specified value of EVERY subexpression (the expression itself included) is generic -/
def GenericAll (ρS : Nat → List ℝ) : E3 → Prop
  | .var i => Generic3 (ρS i)
  | .add a b => (GenericAll ρS a ∧ GenericAll ρS b) ∧ Generic3 (evalS ρS (.add a b))
  | .sub a b => (GenericAll ρS a ∧ GenericAll ρS b) ∧ Generic3 (evalS ρS (.sub a b))
  | .scale k a => GenericAll ρS a ∧ Generic3 (evalS ρS (.scale k a))
  | .neg a => GenericAll ρS a ∧ Generic3 (evalS ρS (.neg a))
  | .rotateZ ang a => GenericAll ρS a ∧ Generic3 (evalS ρS (.rotateZ ang a))
  | .rotateX ang a => GenericAll ρS a ∧ Generic3 (evalS ρS (.rotateX ang a))
  | .rotateY ang a => GenericAll ρS a ∧ Generic3 (evalS ρS (.rotateY ang a))
  | .cross a b => (GenericAll ρS a ∧ GenericAll ρS b) ∧ Generic3 (evalS ρS (.cross a b))
  | .unit a => GenericAll ρS a ∧ Generic3 (evalS ρS (.unit a))
  | .conv az lon a => GenericAll ρS a ∧ Generic3 (evalS ρS (.conv az lon a))

theorem genericAll_self {ρS : Nat → List ℝ} {e : E3} (h : GenericAll ρS e) : Generic3 (evalS ρS e) := by
  cases e <;> first | exact h | exact h.2

/-! ## 5. Stored coordinates in range (the OUTPUT of `Props/CanonClosed.lean`) -/

/-- `0 ≤ ρ`, `-π ≤ φ ≤ π` for polar storage; `0 ≤ θ ≤ π` for θ storage; `0 ≤ τ` for τ storage -/
def StoredInRange (v : Vec ℝ) : Prop :=
  AzOK v.ty.az (c3 v).1 (c3 v).2.1 ∧ LonOK (lonOf v) (c3 v).2.2 ∧ InTmp (C11M.tmpOf v) (C11M.c4 v)

/-- the invariant of the induction: a well-formed 3D vector whose stored coordinates are in range, and (θ storage) not
stored AT a pole `sin θ = 0`, where the documented meaning `z = ρ cot θ` is undefined -/
structure Good3 (v : Vec ℝ) : Prop where
  wf : C01M.WFV v
  dim : v.ty.dim = 3
  rng : StoredInRange v
  sin : SinOKAll v

theorem good3_cases {v : Vec ℝ} (h : Good3 v) :
    ∃ be mom az l a b c, v = C11M.V3 be mom az l a b c ∧ AzOK az a b ∧ LonOK l c ∧ SinOK l c := by
  obtain ⟨hv, hd, hr, hs⟩ := h
  rcases wfv_cases hv with ⟨be, mom, az, a, b, rfl⟩ | ⟨be, mom, az, l, a, b, c, rfl⟩ |
    ⟨be, mom, az, l, t, a, b, c, d, rfl⟩
  · simp [VT.dim] at hd
  · exact ⟨be, mom, az, l, a, b, c, rfl, hr.1, hr.2.1, hs⟩
  · simp [VT.dim] at hd

theorem good3_mk (be : Backend) (mom : Bool) (az : Az) (l : Lon) (a b c : ℝ) (hA : AzOK az a b) (hL : LonOK l c)
    (hS : SinOK l c) : Good3 (C11M.V3 be mom az l a b c) :=
  ⟨⟨by simp, rfl⟩, rfl, ⟨hA, hL, trivial⟩, hS⟩

/-- a Cartesian 3D vector is in range whatever its coordinates are -/
theorem good3_xyz {v : Vec ℝ} (hv : C01M.WFV v) (haz : v.ty.az = .xy) (hl : v.ty.lon = some .z) (ht : v.ty.tmp = none) :
    Good3 v := by
  rcases wfv_cases hv with ⟨be, mom, az, a, b, rfl⟩ | ⟨be, mom, az, l, a, b, c, rfl⟩ |
    ⟨be, mom, az, l, t, a, b, c, d, rfl⟩
  · simp at hl
  · simp only at haz hl
    cases haz; cases hl
    exact good3_mk be mom .xy .z a b c trivial trivial trivial
  · simp at ht

/-! ## 6. The bridge: in-range storage + generic denotation ⟹ every storage hypothesis -/

theorem denote_V3_eq {be mom az l} {a b c : ℝ} {p : List ℝ} (hd : denote (C11M.V3 be mom az l a b c) = some p) :
    p = [xOf az a b, yOf az a b, zOf az l a b c] := by
  simp only [denote, Option.some.injEq] at hd
  exact hd.symm

theorem generic3_iff (x y z : ℝ) : Generic3 [x, y, z] ↔ 0 < x ^ 2 + y ^ 2 ∧ z ≠ 0 := by
  constructor
  · rintro ⟨x', y', z', e, h1, h2⟩
    simp only [List.cons.injEq, and_true] at e
    obtain ⟨rfl, rfl, rfl⟩ := e
    exact ⟨h1, h2⟩
  · rintro ⟨h1, h2⟩
    exact ⟨x, y, z, rfl, h1, h2⟩

/-- the facts on the raw stored coordinates -/
theorem core3 {az : Az} {l : Lon} {a b c : ℝ} (hA : AzOK az a b) (hL : LonOK l c) (hS : SinOK l c)
    (hg : 0 < xOf az a b ^ 2 + yOf az a b ^ 2) (hz : zOf az l a b c ≠ 0) :
    0 < rhoOf az a b ∧ Canon2 az a b ∧ TanOK l c ∧ CanonLon az l a b c ∧ ThetaRange l c ∧
      0 < mag2Of az l a b c := by
  have h2 : Canon2 az a b := by
    cases az
    · trivial
    · exact hA.1
  have hr : 0 < rhoOf az a b := by
    rw [Spec.sq_xOf_add_sq_yOf] at hg
    rcases (Spec.rhoOf_nonneg h2).lt_or_eq with h | h
    · exact h
    · rw [← h] at hg; simp at hg
  refine ⟨hr, h2, ?_, ?_, ?_, ?_⟩
  · cases l
    · trivial
    · intro hc; apply hz; simp only [zOf, hc, zero_div, mul_zero]
    · trivial
  · cases l
    · trivial
    · have hs : sin c ≠ 0 := hS
      refine ⟨hr, ?_, ?_⟩
      · rcases hL.1.lt_or_eq with h | h
        · exact h
        · exfalso; apply hs; rw [← h, sin_zero]
      · rcases hL.2.lt_or_eq with h | h
        · exact h
        · exfalso; apply hs; rw [h, sin_pi]
    · exact hr
  · cases l
    · trivial
    · exact hL
    · trivial
  · rw [Spec.mag2Of_eq]
    have := pow_pos hr 2
    nlinarith [sq_nonneg (zOf az l a b c)]

/-- a θ-stored vector that denotes a point with `z ≠ 0` is not stored at a pole (there `ρ·(cos θ / sin θ)` is `ρ·(c/0)`) -/
theorem sinOK_of_z_ne {az : Az} {l : Lon} {a b c : ℝ} (hz : zOf az l a b c ≠ 0) : SinOK l c := by
  cases l
  · trivial
  · intro hs; apply hz; simp only [zOf, hs, div_zero, mul_zero]
  · trivial

/-- **bridge lemma**: a good stored vector whose denotation is generic satisfies the storage hypotheses of all the
single-call theorems (`TanOKV`, `SinOKV`, `CanonTmpV`, `ThetaRangeV`, `UnitOK`, `Canon3`, `0 < ρ`, `0 < |p|²`) -/
theorem generic_storage_ok {v : Vec ℝ} {p : List ℝ} (hv : Good3 v) (hd : denote v = some p) (hg : Generic3 p) :
    TanOKV v ∧ SinOKV v ∧ CanonTmpV v ∧ ThetaRangeV v ∧ UnitOK v ∧
      Stored3 (fun k l a b c => 0 < rhoOf k a b ∧ Canon3 k l a b c ∧ TanOK l c ∧ SinOK l c ∧ 0 < mag2Of k l a b c) v := by
  obtain ⟨be, mom, az, l, a, b, c, rfl, hA, hL, hS⟩ := good3_cases hv
  have e := denote_V3_eq hd
  subst e
  obtain ⟨h1, h2⟩ := (generic3_iff _ _ _).1 hg
  obtain ⟨hr, hc2, hT, hCL, hθ, hm⟩ := core3 hA hL hS h1 h2
  exact ⟨hT, fun _ => hS, trivial, hθ, ⟨⟨hc2, hCL⟩, hm⟩, hr, ⟨hc2, hCL⟩, hT, hS, hm⟩

/-! ## 7. One lemma per node -/

theorem outCanon3_parts {a : Az} {l : Lon} {v : ℝ × ℝ × ℝ} (h : OutCanon3 (.vec [.az a, .lon l]) v) :
    AzOK a v.1 v.2.1 ∧ LonOK l v.2.2 := by
  simp only [OutCanon3, OutCanonR, OutCanonL, and_true] at h
  exact h

theorem outCanon2_parts {a : Az} {v : ℝ × ℝ} (h : OutCanon2 (.vec [.az a]) v) : AzOK a v.1 v.2 := by
  simp only [OutCanon2, OutCanonR, OutCanonL, and_true] at h
  exact h

theorem vec_inj {r r' : Vec ℝ} (h : (Except.ok (Res.vec r) : Except Err (Res ℝ Prop)) = .ok (.vec r')) : r = r' :=
  Res.vec.inj (Except.ok.inj h)

/-- a result in explicit form, with in-range stored coordinates and a generic denotation, is good -/
theorem good3_result {be mom az l} {a b c : ℝ} {p : List ℝ} (hA : AzOK az a b) (hL : LonOK l c)
    (hd : denote (C11M.V3 be mom az l a b c) = some p) (hg : Generic3 p) : Good3 (C11M.V3 be mom az l a b c) := by
  have e := denote_V3_eq hd
  subst e
  exact good3_mk _ _ _ _ _ _ _ hA hL (sinOK_of_z_ne ((generic3_iff _ _ _).1 hg).2)

theorem add_case (K : Consts ℝ) (A : Arith ℝ) {va vb : Vec ℝ} {pa pb : List ℝ} (ha : Good3 va) (hb : Good3 vb)
    (da : denote va = some pa) (db : denote vb = some pb) (ga : Generic3 pa) (gb : Generic3 pb)
    (gr : Generic3 (List.zipWith (· + ·) pa pb)) :
    ∃ r, call evR K A "add" va [.v vb] = .ok (.vec r) ∧ Good3 r ∧ denote r = some (List.zipWith (· + ·) pa pb) := by
  obtain ⟨hTa, hSa, hCa, -, -, -⟩ := generic_storage_ok ha da ga
  obtain ⟨hTb, hSb, hCb, -, -, -⟩ := generic_storage_ok hb db gb
  obtain ⟨be1, mom1, az1, l1, a0, a1, a2, rfl, hA1, hL1, hS1⟩ := good3_cases ha
  obtain ⟨be2, mom2, az2, l2, b0, b1, b2, rfl, hA2, hL2, hS2⟩ := good3_cases hb
  have ea := denote_V3_eq da
  have eb := denote_V3_eq db
  subst ea; subst eb
  have hrep : RepAdd (C11M.V3 be1 mom1 az1 l1 a0 a1 a2) (C11M.V3 be2 mom2 az2 l2 b0 b1 b2) :=
    fun _ => Or.inr ((generic3_iff _ _ _).1 gr).1
  obtain ⟨r, p, q, hcall, -, -, -, -, -, hp, hq, hden⟩ :=
    c11m_add K A (C11M.V3 be1 mom1 az1 l1 a0 a1 a2) (C11M.V3 be2 mom2 az2 l2 b0 b1 b2) ha.wf hb.wf rfl hTa hTb hSa hSb hCa hCb hrep
  rw [da] at hp; rw [db] at hq
  cases hp; cases hq
  refine ⟨r, hcall, ?_, hden⟩
  have he := add_eval3 K A be1 mom1 az1 l1 be2 mom2 az2 l2 a0 a1 a2 b0 b1 b2
  rw [hcall] at he
  have := vec_inj he
  subst this
  have hc := c13c_spatial_add az1 l1 az2 l2 a0 a1 a2 b0 b1 b2
  rw [spatial_add_ret_eq] at hc
  exact good3_result (outCanon3_parts hc).1 (outCanon3_parts hc).2 hden gr

theorem sub_case (K : Consts ℝ) (A : Arith ℝ) {va vb : Vec ℝ} {pa pb : List ℝ} (ha : Good3 va) (hb : Good3 vb)
    (da : denote va = some pa) (db : denote vb = some pb) (ga : Generic3 pa) (gb : Generic3 pb)
    (gr : Generic3 (List.zipWith (· - ·) pa pb)) :
    ∃ r, call evR K A "subtract" va [.v vb] = .ok (.vec r) ∧ Good3 r ∧
      denote r = some (List.zipWith (· - ·) pa pb) := by
  obtain ⟨hTa, hSa, hCa, -, -, -⟩ := generic_storage_ok ha da ga
  obtain ⟨hTb, hSb, hCb, -, -, -⟩ := generic_storage_ok hb db gb
  obtain ⟨be1, mom1, az1, l1, a0, a1, a2, rfl, hA1, hL1, hS1⟩ := good3_cases ha
  obtain ⟨be2, mom2, az2, l2, b0, b1, b2, rfl, hA2, hL2, hS2⟩ := good3_cases hb
  have ea := denote_V3_eq da
  have eb := denote_V3_eq db
  subst ea; subst eb
  have hrep : RepSub (C11M.V3 be1 mom1 az1 l1 a0 a1 a2) (C11M.V3 be2 mom2 az2 l2 b0 b1 b2) :=
    fun _ => Or.inr ((generic3_iff _ _ _).1 gr).1
  obtain ⟨r, p, q, hcall, -, -, -, -, -, hp, hq, hden⟩ :=
    c11m_subtract K A (C11M.V3 be1 mom1 az1 l1 a0 a1 a2) (C11M.V3 be2 mom2 az2 l2 b0 b1 b2) ha.wf hb.wf rfl hTa hTb hSa hSb hCa hCb hrep (fun h => by cases h)
  rw [da] at hp; rw [db] at hq
  cases hp; cases hq
  refine ⟨r, hcall, ?_, hden⟩
  have he := subtract_eval3 K A be1 mom1 az1 l1 be2 mom2 az2 l2 a0 a1 a2 b0 b1 b2
  rw [hcall] at he
  have := vec_inj he
  subst this
  have hc := c13c_spatial_subtract az1 l1 az2 l2 a0 a1 a2 b0 b1 b2
  rw [spatial_subtract_ret_eq] at hc
  exact good3_result (outCanon3_parts hc).1 (outCanon3_parts hc).2 hden gr

theorem scale_case (K : Consts ℝ) (A : Arith ℝ) (k : ℝ) {va : Vec ℝ} {pa : List ℝ} (ha : Good3 va)
    (da : denote va = some pa) (ga : Generic3 pa) (gr : Generic3 (pa.map (k * ·))) :
    ∃ r, call evR K A "scale" va [.sc k] = .ok (.vec r) ∧ Good3 r ∧ denote r = some (pa.map (k * ·)) := by
  obtain ⟨-, -, -, hθ, -, -⟩ := generic_storage_ok ha da ga
  obtain ⟨be, mom, az, l, a, b, c, rfl, hA, hL, hS⟩ := good3_cases ha
  obtain ⟨r, p, hcall, -, -, hp, hden⟩ := c11m_scale K A _ ha.wf k hθ (fun h => by cases h)
  rw [da] at hp
  cases hp
  refine ⟨r, hcall, ?_, hden⟩
  have he := scale_eval3 K A be mom az l k a b c
  rw [hcall] at he
  have := vec_inj he
  subst this
  have hc := c13c_spatial_scale az l k a b c hA hL
  rw [spatial_scale_ret_eq] at hc
  exact good3_result (outCanon3_parts hc).1 (outCanon3_parts hc).2 hden gr

theorem planar_rotateZ_ret_eq (k : Az) : planar_rotateZ.ret k = .vec [.az k] := by cases k <;> rfl

theorem rotateZ_case (K : Consts ℝ) (A : Arith ℝ) (ang : ℝ) {va : Vec ℝ} {pa : List ℝ} (ha : Good3 va)
    (da : denote va = some pa) (ga : Generic3 pa) (gr : Generic3 (onSpatial (rotZ ang) pa)) :
    ∃ r, call evR K A "rotateZ" va [.sc ang] = .ok (.vec r) ∧ Good3 r ∧ denote r = some (onSpatial (rotZ ang) pa) := by
  obtain ⟨be, mom, az, l, a, b, c, rfl, hA, hL, hS⟩ := good3_cases ha
  obtain ⟨r, hcall, -, -, hden⟩ := c01m_rotateZ_spatial K A _ ha.wf (by simp [VT.dim]) ang
  rw [da] at hden
  refine ⟨r, hcall, ?_, hden⟩
  have he := rotateZ_eval3 K A be mom az l ang a b c
  rw [hcall] at he
  have := vec_inj he
  subst this
  have hc := c13c_planar_rotateZ az ang a b hA
  rw [planar_rotateZ_ret_eq] at hc
  exact good3_result (outCanon2_parts hc) hL hden gr


theorem good3_tmp {v : Vec ℝ} (h : Good3 v) : v.ty.tmp = none := by
  obtain ⟨be, mom, az, l, a, b, c, rfl, -, -, -⟩ := good3_cases h
  rfl

theorem neg_case (K : Consts ℝ) (A : Arith ℝ) (hK : K.negOne = -1) {va : Vec ℝ} {pa : List ℝ} (ha : Good3 va)
    (da : denote va = some pa) (ga : Generic3 pa) (gr : Generic3 (pa.map (fun x => -x))) :
    ∃ r, operator evR K A "neg" va [] = .ok (.vec r) ∧ Good3 r ∧ denote r = some (pa.map (fun x => -x)) := by
  have e : pa.map (fun x => -x) = pa.map (-1 * ·) := List.map_congr_left (fun x _ => by ring)
  rw [e] at gr ⊢
  rw [(c11m_neg evR K A va 0).1, hK]
  exact scale_case K A (-1) ha da ga gr

theorem rotateX_case (K : Consts ℝ) (A : Arith ℝ) (ang : ℝ) {va : Vec ℝ} {pa : List ℝ} (ha : Good3 va)
    (da : denote va = some pa) (ga : Generic3 pa) (gr : Generic3 (onSpatial (rotX ang) pa)) :
    ∃ r, call evR K A "rotateX" va [.sc ang] = .ok (.vec r) ∧ Good3 r ∧ denote r = some (onSpatial (rotX ang) pa) := by
  obtain ⟨hT, -, -, -, -, -⟩ := generic_storage_ok ha da ga
  obtain ⟨w, hcall, hty, hwf, hden⟩ := c01m_rotateX K A va ha.wf ha.dim.ge hT ang
  rw [da] at hden
  exact ⟨w, hcall, good3_xyz hwf (by rw [hty]) (by rw [hty]) (by rw [hty]; exact good3_tmp ha), hden⟩

theorem rotateY_case (K : Consts ℝ) (A : Arith ℝ) (ang : ℝ) {va : Vec ℝ} {pa : List ℝ} (ha : Good3 va)
    (da : denote va = some pa) (ga : Generic3 pa) (gr : Generic3 (onSpatial (rotY ang) pa)) :
    ∃ r, call evR K A "rotateY" va [.sc ang] = .ok (.vec r) ∧ Good3 r ∧ denote r = some (onSpatial (rotY ang) pa) := by
  obtain ⟨hT, -, -, -, -, -⟩ := generic_storage_ok ha da ga
  obtain ⟨w, hcall, hty, hwf, hden⟩ := c01m_rotateY K A va ha.wf ha.dim.ge hT ang
  rw [da] at hden
  exact ⟨w, hcall, good3_xyz hwf (by rw [hty]) (by rw [hty]) (by rw [hty]; exact good3_tmp ha), hden⟩

theorem cross_case (K : Consts ℝ) (A : Arith ℝ) {va vb : Vec ℝ} {pa pb : List ℝ} (ha : Good3 va) (hb : Good3 vb)
    (da : denote va = some pa) (db : denote vb = some pb) (ga : Generic3 pa) (gb : Generic3 pb)
    (gr : Generic3 (crossL pa pb)) :
    ∃ r, call evR K A "cross" va [.v vb] = .ok (.vec r) ∧ Good3 r ∧ denote r = some (crossL pa pb) := by
  obtain ⟨hTa, -, -, -, -, -⟩ := generic_storage_ok ha da ga
  obtain ⟨hTb, -, -, -, -, -⟩ := generic_storage_ok hb db gb
  obtain ⟨r, p, q, hcall, hwf, hty, hp, hq, hden⟩ := c11m_cross K A va vb ha.wf hb.wf ha.dim hb.dim hTa hTb
  rw [da] at hp; rw [db] at hq
  cases hp; cases hq
  exact ⟨r, hcall, good3_xyz hwf (by rw [hty]) (by rw [hty]) (by rw [hty]), hden⟩

theorem unit_case (K : Consts ℝ) (A : Arith ℝ) {va : Vec ℝ} {pa : List ℝ} (ha : Good3 va)
    (da : denote va = some pa) (ga : Generic3 pa) (gr : Generic3 (pa.map (fun x => 1 / normL pa * x))) :
    ∃ r, call evR K A "unit" va [] = .ok (.vec r) ∧ Good3 r ∧
      denote r = some (pa.map (fun x => 1 / normL pa * x)) := by
  obtain ⟨-, -, -, -, hU, -⟩ := generic_storage_ok ha da ga
  obtain ⟨be, mom, az, l, a, b, c, rfl, hA, hL, hS⟩ := good3_cases ha
  obtain ⟨r, p, u, hcall, -, -, hp, -, hden, hu, -⟩ := c11m_unit K A _ ha.wf hU
  rw [da] at hp
  cases hp
  subst hu
  refine ⟨r, hcall, ?_, hden⟩
  have he := unit_eval3 K A be mom az l a b c
  rw [hcall] at he
  have := vec_inj he
  subst this
  have hU' : Canon3 az l a b c ∧ 0 < mag2Of az l a b c := hU
  have hn : 0 < spatial_mag.eval az l a b c := by
    rw [refine_spatial_mag_canon az l a b c hU'.1]
    exact sqrt_pos.mpr hU'.2
  have hc := c13c_spatial_unit az l a b c hA hL hn
  rw [spatial_unit_ret_eq] at hc
  exact good3_result (outCanon3_parts hc).1 (outCanon3_parts hc).2 hden gr

/-! #### conversions -/

theorem convName_target (az : Az) (l : Lon) : C04.toTarget (convName az l) = some (az, some l, none) := by
  cases az <;> cases l <;> decide

/-- a `to_<system>` call is `toSystem` into the target of its name -/
theorem call_of_target (K : Consts ℝ) (A : Arith ℝ) (n : String) (az : Az) (lon : Option Lon) (tmp : Option Tmp)
    (hn : C04.toTarget n = some (az, lon, tmp)) (v : Vec ℝ) :
    call evR K A n v [] = (toSystem evR K.zeroF v az lon tmp none none).map .vec := by
  unfold C04.toTarget at hn
  cases he : toTable.find? (·.1 == n) with
  | none => simp [he] at hn
  | some e =>
    simp only [he, Option.map_some, Option.some.injEq, Prod.mk.injEq] at hn
    obtain ⟨rfl, rfl, rfl⟩ := hn
    exact c04_call_to evR K A n v e he

/-- the converted coordinates are in range (`ρ = √… ≥ 0` or the stored ρ; `φ = arctan2 ∈ (-π, π]` or the stored φ;
`θ ∈ (0, π)`) -/
theorem conv_range {az0 az : Az} {l0 l : Lon} {a b c : ℝ} (hA : AzOK az0 a b) (hr : 0 < rhoOf az0 a b)
    (hCL : CanonLon az0 l0 a b c) :
    AzOK az (C04M.conv2 az0 az a b).1 (C04M.conv2 az0 az a b).2 ∧ LonOK l (C04M.convLon az0 l0 l a b c) := by
  constructor
  · cases az
    · trivial
    · cases az0
      · have h := c13_planar_phi_xy_range a b
        exact ⟨c13_planar_rho_xy_nonneg a b, h.1.le, h.2⟩
      · exact hA
  · cases l
    · trivial
    · have h := refine_spatial_theta_mem az0 l0 a b c hr hCL
      exact ⟨h.1.le, h.2.le⟩
    · trivial

theorem conv_case (K : Consts ℝ) (A : Arith ℝ) (az : Az) (l : Lon) {va : Vec ℝ} {pa : List ℝ} (ha : Good3 va)
    (da : denote va = some pa) (ga : Generic3 pa) :
    ∃ r, call evR K A (convName az l) va [] = .ok (.vec r) ∧ Good3 r ∧ denote r = some pa := by
  obtain ⟨-, -, -, -, -, hr, hC3, hT, -, -⟩ := generic_storage_ok ha da ga
  obtain ⟨be, mom, az0, l0, a, b, c, rfl, hA, hL, hS⟩ := good3_cases ha
  have hr' : 0 < rhoOf az0 a b := hr
  have hC3' : Canon3 az0 l0 a b c := hC3
  have hT' : TanOK l0 c := hT
  have hF : C04M.FwdOK (C11M.V3 be mom az0 l0 a b c) (some l) none := by
    show C04M.LonOK az0 l0 l a b c
    cases l
    · exact hT'
    · exact hr'
    · exact ⟨hr', hC3'.2⟩
  obtain ⟨r, hcall, -, -, hden⟩ :=
    C04M.c04m_to_denote_name K A (convName az l) az (some l) none (convName_target az l) _ ha.wf rfl rfl hF
  rw [da] at hden
  refine ⟨r, hcall, ?_, hden⟩
  have he := call_of_target K A (convName az l) az (some l) none (convName_target az l) (C11M.V3 be mom az0 l0 a b c)
  rw [hcall, C04M.toSystem_eval3] at he
  have := vec_inj he
  subst this
  obtain ⟨h1, h2⟩ := conv_range (az := az) (l := l) hA hr' hC3'.2
  exact good3_result h1 h2 hden ga

/-! ## 8. MAIN THEOREM -/

/-- **coordinate independence of every generic expression** -/
theorem c01e_eval3 (K : Consts ℝ) (A : Arith ℝ) (hK : K.negOne = -1) (ρ : Nat → Vec ℝ) (ρS : Nat → List ℝ)
    (hρ : ∀ i, Good3 (ρ i)) (hS : ∀ i, denote (ρ i) = some (ρS i)) (e : E3) (hg : GenericAll ρS e) :
    ∃ v, evalM K A ρ e = .ok v ∧ Good3 v ∧ denote v = some (evalS ρS e) := by
  induction e with
  | var i => exact ⟨ρ i, rfl, hρ i, hS i⟩
  | add a b iha ihb =>
    obtain ⟨⟨ga, gb⟩, gr⟩ := hg
    obtain ⟨va, ea, ha, da⟩ := iha ga
    obtain ⟨vb, eb, hb, db⟩ := ihb gb
    obtain ⟨r, hc, hr, hd⟩ := add_case K A ha hb da db (genericAll_self ga) (genericAll_self gb) gr
    exact ⟨r, by simp only [evalM, ea, eb, bin, hc, vecOf], hr, hd⟩
  | sub a b iha ihb =>
    obtain ⟨⟨ga, gb⟩, gr⟩ := hg
    obtain ⟨va, ea, ha, da⟩ := iha ga
    obtain ⟨vb, eb, hb, db⟩ := ihb gb
    obtain ⟨r, hc, hr, hd⟩ := sub_case K A ha hb da db (genericAll_self ga) (genericAll_self gb) gr
    exact ⟨r, by simp only [evalM, ea, eb, bin, hc, vecOf], hr, hd⟩
  | scale k a iha =>
    obtain ⟨ga, gr⟩ := hg
    obtain ⟨va, ea, ha, da⟩ := iha ga
    obtain ⟨r, hc, hr, hd⟩ := scale_case K A k ha da (genericAll_self ga) gr
    exact ⟨r, by simp only [evalM, ea, un, hc, vecOf], hr, hd⟩
  | rotateZ ang a iha =>
    obtain ⟨ga, gr⟩ := hg
    obtain ⟨va, ea, ha, da⟩ := iha ga
    obtain ⟨r, hc, hr, hd⟩ := rotateZ_case K A ang ha da (genericAll_self ga) gr
    exact ⟨r, by simp only [evalM, ea, un, hc, vecOf], hr, hd⟩
  | neg a iha =>
    obtain ⟨ga, gr⟩ := hg
    obtain ⟨va, ea, ha, da⟩ := iha ga
    obtain ⟨r, hc, hr, hd⟩ := neg_case K A hK ha da (genericAll_self ga) gr
    exact ⟨r, by simp only [evalM, ea, un, hc, vecOf], hr, hd⟩
  | rotateX ang a iha =>
    obtain ⟨ga, gr⟩ := hg
    obtain ⟨va, ea, ha, da⟩ := iha ga
    obtain ⟨r, hc, hr, hd⟩ := rotateX_case K A ang ha da (genericAll_self ga) gr
    exact ⟨r, by simp only [evalM, ea, un, hc, vecOf], hr, hd⟩
  | rotateY ang a iha =>
    obtain ⟨ga, gr⟩ := hg
    obtain ⟨va, ea, ha, da⟩ := iha ga
    obtain ⟨r, hc, hr, hd⟩ := rotateY_case K A ang ha da (genericAll_self ga) gr
    exact ⟨r, by simp only [evalM, ea, un, hc, vecOf], hr, hd⟩
  | cross a b iha ihb =>
    obtain ⟨⟨ga, gb⟩, gr⟩ := hg
    obtain ⟨va, ea, ha, da⟩ := iha ga
    obtain ⟨vb, eb, hb, db⟩ := ihb gb
    obtain ⟨r, hc, hr, hd⟩ := cross_case K A ha hb da db (genericAll_self ga) (genericAll_self gb) gr
    exact ⟨r, by simp only [evalM, ea, eb, bin, hc, vecOf], hr, hd⟩
  | unit a iha =>
    obtain ⟨ga, gr⟩ := hg
    obtain ⟨va, ea, ha, da⟩ := iha ga
    obtain ⟨r, hc, hr, hd⟩ := unit_case K A ha da (genericAll_self ga) gr
    exact ⟨r, by simp only [evalM, ea, un, hc, vecOf], hr, hd⟩
  | conv az l a iha =>
    obtain ⟨ga, gr⟩ := hg
    obtain ⟨va, ea, ha, da⟩ := iha ga
    obtain ⟨r, hc, hr, hd⟩ := conv_case K A az l ha da (genericAll_self ga)
    exact ⟨r, by simp only [evalM, ea, un, hc, vecOf], hr, hd⟩

/-! ## 9. COROLLARY: property C01 in its literal form -/

theorem good3_denote {v : Vec ℝ} (h : Good3 v) : ∃ p, denote v = some p := by
  obtain ⟨be, mom, az, l, a, b, c, rfl, -, -, -⟩ := good3_cases h
  exact ⟨_, rfl⟩

/-- the specification environment of a model environment: the Cartesian components the variables denote -/
noncomputable def specEnv (ρ : Nat → Vec ℝ) : Nat → List ℝ := fun i => (denote (ρ i)).getD []

theorem denote_specEnv {ρ : Nat → Vec ℝ} (hρ : ∀ i, Good3 (ρ i)) (i : Nat) : denote (ρ i) = some (specEnv ρ i) := by
  obtain ⟨p, hp⟩ := good3_denote (hρ i)
  simp only [specEnv, hp, Option.getD_some]

/-- **C01 for whole computations**: two environments holding THE SAME geometric vectors — stored in any coordinate
systems, any flavors and backends — give results with the same denotation (namely the specified value), for every
generic expression -/
theorem c01e_indep3 (K : Consts ℝ) (A : Arith ℝ) (hK : K.negOne = -1) (ρ₁ ρ₂ : Nat → Vec ℝ)
    (h₁ : ∀ i, Good3 (ρ₁ i)) (h₂ : ∀ i, Good3 (ρ₂ i)) (hd : ∀ i, denote (ρ₁ i) = denote (ρ₂ i)) (e : E3)
    (hg : GenericAll (specEnv ρ₁) e) :
    ∃ v₁ v₂, evalM K A ρ₁ e = .ok v₁ ∧ evalM K A ρ₂ e = .ok v₂ ∧ denote v₁ = denote v₂ ∧
      denote v₁ = some (evalS (specEnv ρ₁) e) := by
  obtain ⟨v₁, e₁, -, d₁⟩ := c01e_eval3 K A hK ρ₁ (specEnv ρ₁) h₁ (denote_specEnv h₁) e hg
  obtain ⟨v₂, e₂, -, d₂⟩ :=
    c01e_eval3 K A hK ρ₂ (specEnv ρ₁) h₂ (fun i => by rw [← hd i]; exact denote_specEnv h₁ i) e hg
  exact ⟨v₁, v₂, e₁, e₂, by rw [d₁, d₂], d₁⟩

/-- the same as one equation between the two runs -/
theorem c01e_indep3_eq (K : Consts ℝ) (A : Arith ℝ) (hK : K.negOne = -1) (ρ₁ ρ₂ : Nat → Vec ℝ)
    (h₁ : ∀ i, Good3 (ρ₁ i)) (h₂ : ∀ i, Good3 (ρ₂ i)) (hd : ∀ i, denote (ρ₁ i) = denote (ρ₂ i)) (e : E3)
    (hg : GenericAll (specEnv ρ₁) e) :
    (evalM K A ρ₁ e).toOption.bind denote = (evalM K A ρ₂ e).toOption.bind denote ∧
      ((evalM K A ρ₁ e).toOption.bind denote).isSome := by
  obtain ⟨v₁, v₂, e₁, e₂, h, h'⟩ := c01e_indep3 K A hK ρ₁ ρ₂ h₁ h₂ hd e hg
  rw [e₁, e₂]
  refine ⟨h, ?_⟩
  show (denote v₁).isSome = true
  rw [h']; rfl

/-! ## 10. Scalar expressions -/

/-- accessor-like properties of one 3D vector -/
inductive UnS | x | y | z | rho | rho2 | phi | eta | theta | costheta | cottheta | mag | mag2

/-- scalar-valued methods of two 3D vectors -/
inductive BinS | dot | deltaphi | deltaeta | deltaR2 | deltaR | deltaangle

def UnS.name : UnS → String
  | .x => "x" | .y => "y" | .z => "z" | .rho => "rho" | .rho2 => "rho2" | .phi => "phi" | .eta => "eta"
  | .theta => "theta" | .costheta => "costheta" | .cottheta => "cottheta" | .mag => "mag" | .mag2 => "mag2"

def BinS.name : BinS → String
  | .dot => "dot" | .deltaphi => "deltaphi" | .deltaeta => "deltaeta" | .deltaR2 => "deltaR2" | .deltaR => "deltaR"
  | .deltaangle => "deltaangle"

inductive S3 : Type
  | un (f : UnS) (a : E3)
  | bi (f : BinS) (a b : E3)

def unS (x : Except Err (Vec ℝ)) (f : Vec ℝ → Except Err (Res ℝ Prop)) : Except Err (Res ℝ Prop) :=
  match x with
  | .ok v => f v
  | .error e => .error e

def binS (x y : Except Err (Vec ℝ)) (f : Vec ℝ → Vec ℝ → Except Err (Res ℝ Prop)) : Except Err (Res ℝ Prop) :=
  match x, y with
  | .ok a, .ok b => f a b
  | .error e, _ => .error e
  | .ok _, .error e => .error e

/-- the model of a scalar expression: the public property / method on the values of the operands -/
noncomputable def evalMS (K : Consts ℝ) (A : Arith ℝ) (ρ : Nat → Vec ℝ) : S3 → Except Err (Res ℝ Prop)
  | .un f a => unS (evalM K A ρ a) fun va => call evR K A f.name va []
  | .bi f a b => binS (evalM K A ρ a) (evalM K A ρ b) fun va vb => call evR K A f.name va [.v vb]

/-- the specification of the one-vector properties, on Cartesian components -/
noncomputable def uspec : UnS → ℝ → ℝ → ℝ → ℝ
  | .x, x, _, _ => x
  | .y, _, y, _ => y
  | .z, _, _, z => z
  | .rho, x, y, _ => sqrt (x ^ 2 + y ^ 2)
  | .rho2, x, y, _ => x ^ 2 + y ^ 2
  | .phi, x, y, _ => P.arctan2 y x
  | .eta, x, y, z => arsinh (z / sqrt (x ^ 2 + y ^ 2))
  | .theta, x, y, z => arccos (z / sqrt (x ^ 2 + y ^ 2 + z ^ 2))
  | .costheta, x, y, z => z / sqrt (x ^ 2 + y ^ 2 + z ^ 2)
  | .cottheta, x, y, z => z / sqrt (x ^ 2 + y ^ 2)
  | .mag, x, y, z => sqrt (x ^ 2 + y ^ 2 + z ^ 2)
  | .mag2, x, y, z => x ^ 2 + y ^ 2 + z ^ 2

/-- the specification of the two-vector methods, on Cartesian components -/
noncomputable def bspec : BinS → ℝ → ℝ → ℝ → ℝ → ℝ → ℝ → ℝ
  | .dot, x₁, y₁, z₁, x₂, y₂, z₂ => x₁ * x₂ + y₁ * y₂ + z₁ * z₂
  | .deltaphi, x₁, y₁, _, x₂, y₂, _ => P.mod (P.arctan2 y₁ x₁ - P.arctan2 y₂ x₂ + π) (2 * π) - π
  | .deltaeta, x₁, y₁, z₁, x₂, y₂, z₂ =>
    arsinh (z₁ / sqrt (x₁ ^ 2 + y₁ ^ 2)) - arsinh (z₂ / sqrt (x₂ ^ 2 + y₂ ^ 2))
  | .deltaR2, x₁, y₁, z₁, x₂, y₂, z₂ =>
    (P.mod (P.arctan2 y₁ x₁ - P.arctan2 y₂ x₂ + π) (2 * π) - π) ^ 2
      + (arsinh (z₁ / sqrt (x₁ ^ 2 + y₁ ^ 2)) - arsinh (z₂ / sqrt (x₂ ^ 2 + y₂ ^ 2))) ^ 2
  | .deltaR, x₁, y₁, z₁, x₂, y₂, z₂ =>
    sqrt ((P.mod (P.arctan2 y₁ x₁ - P.arctan2 y₂ x₂ + π) (2 * π) - π) ^ 2
      + (arsinh (z₁ / sqrt (x₁ ^ 2 + y₁ ^ 2)) - arsinh (z₂ / sqrt (x₂ ^ 2 + y₂ ^ 2))) ^ 2)
  | .deltaangle, x₁, y₁, z₁, x₂, y₂, z₂ =>
    arccos (max (-1) (min 1 ((x₁ * x₂ + y₁ * y₂ + z₁ * z₂)
      / sqrt (x₁ ^ 2 + y₁ ^ 2 + z₁ ^ 2) / sqrt (x₂ ^ 2 + y₂ ^ 2 + z₂ ^ 2))))

noncomputable def on3 (f : ℝ → ℝ → ℝ → ℝ) : List ℝ → ℝ
  | [x, y, z] => f x y z
  | _ => 0

noncomputable def on33 (f : ℝ → ℝ → ℝ → ℝ → ℝ → ℝ → ℝ) : List ℝ → List ℝ → ℝ
  | [x₁, y₁, z₁], [x₂, y₂, z₂] => f x₁ y₁ z₁ x₂ y₂ z₂
  | _, _ => 0

/-- **the specification** of a scalar expression -/
noncomputable def evalSS (ρS : Nat → List ℝ) : S3 → ℝ
  | .un f a => on3 (uspec f) (evalS ρS a)
  | .bi f a b => on33 (bspec f) (evalS ρS a) (evalS ρS b)

/-- off the half line `y = 0, x < 0`, where the azimuth jumps: a polar vector may be stored there with `φ = -π`
(`c13c_planar_rotateZ_pi`: `rectify` yields `[-π, π)`) while `arctan2` gives `+π` -/
def PhiOK : List ℝ → Prop
  | [x, y, _] => ¬ (y = 0 ∧ x < 0)
  | _ => True

/-- genericity of a scalar expression: all operands generic; for `phi` additionally off the half line of the jump -/
def GenericS (ρS : Nat → List ℝ) : S3 → Prop
  | .un f a => GenericAll ρS a ∧ (f = .phi → PhiOK (evalS ρS a))
  | .bi _ a b => GenericAll ρS a ∧ GenericAll ρS b

theorem canonPhi_of {az : Az} {a b : ℝ} (hA : AzOK az a b) (hr : 0 < rhoOf az a b)
    (h : ¬ (yOf az a b = 0 ∧ xOf az a b < 0)) : CanonPhi az a b := by
  cases az
  · trivial
  · refine ⟨lt_of_le_of_ne hA.2.1 ?_, hA.2.2⟩
    intro e
    apply h
    subst e
    have ha : 0 < a := hr
    simp only [xOf, yOf, sin_neg, sin_pi, cos_neg, cos_pi]
    constructor
    · simp
    · linarith

theorem un_case (K : Consts ℝ) (A : Arith ℝ) (f : UnS) {va : Vec ℝ} {x y z : ℝ} (ha : Good3 va)
    (da : denote va = some [x, y, z]) (ga : Generic3 [x, y, z]) (hphi : f = .phi → ¬ (y = 0 ∧ x < 0)) :
    call evR K A f.name va [] = .ok (.scalar (uspec f x y z)) := by
  obtain ⟨hT, -, -, -, -, hr, hC3, hT', hS, hm⟩ := generic_storage_ok ha da ga
  cases f
  · exact c01m_acc_x K A va ha.wf x y [z] da
  · exact c01m_acc_y K A va ha.wf x y [z] da
  · exact c01m_acc_z K A va ha.wf hT' x y z [] da
  · exact c01m_acc_rho K A va ha.wf hC3.1 x y [z] da
  · exact c01m_acc_rho2 K A va ha.wf x y [z] da
  · refine c01m_acc_phi K A va ha.wf ⟨hr, ?_⟩ x y [z] da
    obtain ⟨be, mom, az, l, a, b, c, rfl, hA, hL, hS⟩ := good3_cases ha
    have e := denote_V3_eq da
    simp only [List.cons.injEq, and_true] at e
    obtain ⟨rfl, rfl, rfl⟩ := e
    exact canonPhi_of hA hr (hphi rfl)
  · exact c01m_acc_eta K A va ha.wf ⟨hr, hC3.2⟩ x y z [] da
  · exact c01m_acc_theta K A va ha.wf ⟨hC3, hm⟩ x y z [] da
  · exact c01m_acc_costheta K A va ha.wf ⟨hC3, hm⟩ x y z [] da
  · exact c01m_acc_cottheta K A va ha.wf ⟨hr, hT'⟩ x y z [] da
  · exact c01m_acc_mag K A va ha.wf ⟨hC3.1, hS⟩ x y z [] da
  · exact c01m_acc_mag2 K A va ha.wf hS x y z [] da

theorem bi_case (K : Consts ℝ) (A : Arith ℝ) (f : BinS) {va vb : Vec ℝ} {x₁ y₁ z₁ x₂ y₂ z₂ : ℝ} (ha : Good3 va)
    (hb : Good3 vb) (da : denote va = some [x₁, y₁, z₁]) (db : denote vb = some [x₂, y₂, z₂])
    (ga : Generic3 [x₁, y₁, z₁]) (gb : Generic3 [x₂, y₂, z₂]) :
    call evR K A f.name va [.v vb] = .ok (.scalar (bspec f x₁ y₁ z₁ x₂ y₂ z₂)) := by
  obtain ⟨hTa, hSa, hCa, -, -, hra, hC3a, hTa', hSa', hma⟩ := generic_storage_ok ha da ga
  obtain ⟨hTb, hSb, hCb, -, -, hrb, hC3b, hTb', hSb', hmb⟩ := generic_storage_ok hb db gb
  cases f
  · obtain ⟨p, q, hp, hq, hcall⟩ :=
      c11m_dot K A va vb ha.wf hb.wf (by rw [ha.dim, hb.dim]) hTa hTb hSa hSb hCa hCb
    rw [da] at hp; rw [db] at hq
    cases hp; cases hq
    exact hcall
  · show call evR K A "deltaphi" va [.v vb] = _
    rw [C04M.deltaphi_eval K A va vb ha.wf hb.wf, refine_spatial_deltaphi_key _ _ _ _ _ _ hra hrb,
      ← (denote_planar ha.wf da).1, ← (denote_planar ha.wf da).2, ← (denote_planar hb.wf db).1,
      ← (denote_planar hb.wf db).2]
    rfl
  · exact C04M.c04m_deltaeta K A va vb ha.wf hb.wf ⟨hra, hC3a.2⟩ ⟨hrb, hC3b.2⟩ _ _ _ _ _ _ [] [] da db
  · exact C04M.c04m_deltaR2 K A va vb ha.wf hb.wf ⟨hra, hC3a.2⟩ ⟨hrb, hC3b.2⟩ _ _ _ _ _ _ [] [] da db
  · exact C04M.c04m_deltaR K A va vb ha.wf hb.wf ⟨hra, hC3a.2⟩ ⟨hrb, hC3b.2⟩ _ _ _ _ _ _ [] [] da db
  · exact C04M.c04m_deltaangle K A va vb ha.wf hb.wf ⟨hC3a.1, hTa', hSa'⟩ ⟨hC3b.1, hTb', hSb'⟩ _ _ _ _ _ _ [] [] da db

/-- **scalar expressions**: the model returns the specified scalar -/
theorem c01e_evalS3 (K : Consts ℝ) (A : Arith ℝ) (hK : K.negOne = -1) (ρ : Nat → Vec ℝ) (ρS : Nat → List ℝ)
    (hρ : ∀ i, Good3 (ρ i)) (hS : ∀ i, denote (ρ i) = some (ρS i)) (s : S3) (hg : GenericS ρS s) :
    evalMS K A ρ s = .ok (.scalar (evalSS ρS s)) := by
  cases s with
  | un f a =>
    obtain ⟨ga, hphi⟩ := hg
    obtain ⟨va, ea, ha, da⟩ := c01e_eval3 K A hK ρ ρS hρ hS a ga
    have g := genericAll_self ga
    obtain ⟨x, y, z, e, -, -⟩ := id g
    rw [e] at da g hphi
    simp only [evalMS, evalSS, ea, unS, e, on3]
    exact un_case K A f ha da g hphi
  | bi f a b =>
    obtain ⟨ga, gb⟩ := hg
    obtain ⟨va, ea, ha, da⟩ := c01e_eval3 K A hK ρ ρS hρ hS a ga
    obtain ⟨vb, eb, hb, db⟩ := c01e_eval3 K A hK ρ ρS hρ hS b gb
    have g₁ := genericAll_self ga
    have g₂ := genericAll_self gb
    obtain ⟨x₁, y₁, z₁, e₁, -, -⟩ := id g₁
    obtain ⟨x₂, y₂, z₂, e₂, -, -⟩ := id g₂
    rw [e₁] at da g₁
    rw [e₂] at db g₂
    simp only [evalMS, evalSS, ea, eb, binS, e₁, e₂, on33]
    exact bi_case K A f ha hb da db g₁ g₂

/-- **C01 for scalar expressions**: the same geometric vectors in any storages give the same number -/
theorem c01e_indepS3 (K : Consts ℝ) (A : Arith ℝ) (hK : K.negOne = -1) (ρ₁ ρ₂ : Nat → Vec ℝ)
    (h₁ : ∀ i, Good3 (ρ₁ i)) (h₂ : ∀ i, Good3 (ρ₂ i)) (hd : ∀ i, denote (ρ₁ i) = denote (ρ₂ i)) (s : S3)
    (hg : GenericS (specEnv ρ₁) s) :
    evalMS K A ρ₁ s = evalMS K A ρ₂ s ∧ evalMS K A ρ₁ s = .ok (.scalar (evalSS (specEnv ρ₁) s)) := by
  have e₁ := c01e_evalS3 K A hK ρ₁ (specEnv ρ₁) h₁ (denote_specEnv h₁) s hg
  have e₂ := c01e_evalS3 K A hK ρ₂ (specEnv ρ₁) h₂ (fun i => by rw [← hd i]; exact denote_specEnv h₁ i) s hg
  exact ⟨by rw [e₁, e₂], e₁⟩

/-! ## 11. Non-vacuity: a depth-5 expression mixing (x, y, z), (x, y, θ) and (ρ, φ, η) variables -/

/-- variable 0: `(x, y, z) = (1, 2, 3)`; variable 1: a numpy momentum vector `(x, y, θ) = (1, 0, π/4)`, the point `(1, 0, 1)`;
the others: an object momentum vector `(ρ, φ, η) = (2, 0, arsinh 1)`, the point `(2, 0, 2)` -/
noncomputable def exEnv : Nat → Vec ℝ
  | 0 => C11M.V3 .obj false .xy .z 1 2 3
  | 1 => C11M.V3 .np true .xy .theta 1 0 (π / 4)
  | _ => C11M.V3 .obj true .rhophi .eta 2 0 (arsinh 1)

/-- the same three points, all stored as Cartesian object vectors -/
noncomputable def exEnv' : Nat → Vec ℝ
  | 0 => C11M.V3 .obj false .xy .z 1 2 3
  | 1 => C11M.V3 .obj false .xy .z 1 0 1
  | _ => C11M.V3 .obj false .xy .z 2 0 2

def exSpec : Nat → List ℝ
  | 0 => [1, 2, 3]
  | 1 => [1, 0, 1]
  | _ => [2, 0, 2]

/-- `to_rhophitheta( (2·v₁ + v₂) × (rotateX(π, v₀) − (−v₂)) )` -/
noncomputable def exE : E3 :=
  .conv .rhophi .theta (.cross (.add (.scale 2 (.var 1)) (.var 2)) (.sub (.rotateX π (.var 0)) (.neg (.var 2))))

theorem exEnv_good : ∀ i, Good3 (exEnv i) := by
  intro i
  have hpi := pi_pos
  match i with
  | 0 => exact good3_mk _ _ _ _ _ _ _ trivial trivial trivial
  | 1 =>
    refine good3_mk _ _ _ _ _ _ _ trivial ⟨by positivity, by linarith⟩ ?_
    show sin (π / 4) ≠ 0
    rw [sin_pi_div_four]; positivity
  | (n + 2) => exact good3_mk _ _ _ _ _ _ _ ⟨by norm_num, by linarith, by linarith⟩ trivial trivial

theorem exEnv'_good : ∀ i, Good3 (exEnv' i) := by
  intro i
  match i with
  | 0 => exact good3_mk _ _ _ _ _ _ _ trivial trivial trivial
  | 1 => exact good3_mk _ _ _ _ _ _ _ trivial trivial trivial
  | (n + 2) => exact good3_mk _ _ _ _ _ _ _ trivial trivial trivial

theorem exEnv_denote : ∀ i, denote (exEnv i) = some (exSpec i) := by
  intro i
  match i with
  | 0 => rfl
  | 1 =>
    have h1 : sqrt ((1 : ℝ) ^ 2 + 0 ^ 2) = 1 := by norm_num
    have h2 : cos (π / 4) / sin (π / 4) = 1 := by
      rw [cos_pi_div_four, sin_pi_div_four]; exact div_self (by positivity)
    simp only [exEnv, exSpec, denote, xOf, yOf, zOf, rhoOf, h1, h2, mul_one]
  | (n + 2) =>
    simp only [exEnv, exSpec, denote, xOf, yOf, zOf, rhoOf, cos_zero, sin_zero, sinh_arsinh, mul_one, mul_zero]

theorem exEnv'_denote : ∀ i, denote (exEnv' i) = some (exSpec i) := by
  intro i
  match i with
  | 0 => rfl
  | 1 => rfl
  | (n + 2) => rfl

/-- **`GenericAll` is satisfiable** for the depth-5 expression `exE` over the mixed-storage environment -/
theorem exE_generic : GenericAll exSpec exE := by
  simp only [exE, GenericAll, evalS, exSpec, List.map_cons, List.map_nil, List.zipWith_cons_cons, List.zipWith_nil_right,
    crossL, onSpatial, rotX, cos_pi, sin_pi, generic3_iff]
  norm_num

example (K : Consts ℝ) (A : Arith ℝ) (hK : K.negOne = -1) :
    ∃ v, evalM K A exEnv exE = .ok v ∧ Good3 v ∧ denote v = some (evalS exSpec exE) :=
  c01e_eval3 K A hK exEnv exSpec exEnv_good exEnv_denote exE exE_generic

/-- the specified value of `exE` is the point `(8, 16, -8)` -/
example : evalS exSpec exE = [8, 16, -8] := by
  simp only [exE, evalS, exSpec, List.map_cons, List.map_nil, List.zipWith_cons_cons, List.zipWith_nil_right,
    crossL, onSpatial, rotX, cos_pi, sin_pi]
  norm_num

/-- the mixed-storage run and the all-Cartesian run of `exE` denote the same point -/
example (K : Consts ℝ) (A : Arith ℝ) (hK : K.negOne = -1) :
    ∃ v₁ v₂, evalM K A exEnv exE = .ok v₁ ∧ evalM K A exEnv' exE = .ok v₂ ∧ denote v₁ = denote v₂ := by
  have hs : specEnv exEnv = exSpec := by
    funext i; simp only [specEnv, exEnv_denote i, Option.getD_some]
  obtain ⟨v₁, v₂, e₁, e₂, h, -⟩ := c01e_indep3 K A hK exEnv exEnv' exEnv_good exEnv'_good
    (fun i => by rw [exEnv_denote, exEnv'_denote]) exE (hs ▸ exE_generic)
  exact ⟨v₁, v₂, e₁, e₂, h⟩

/-- a generic scalar expression over the same environment: `deltaR(2·v₁ + v₂, v₀)` and `phi(v₀ × v₁)` -/
example : GenericS exSpec (.bi .deltaR (.add (.scale 2 (.var 1)) (.var 2)) (.var 0)) ∧
    GenericS exSpec (.un .phi (.cross (.var 0) (.var 1))) := by
  simp only [GenericS, GenericAll, evalS, exSpec, List.map_cons, List.map_nil, List.zipWith_cons_cons,
    List.zipWith_nil_right, crossL, generic3_iff, PhiOK]
  norm_num

/-! ## 12. The same for 2D vectors

In 2D nothing can go wrong except at the origin: genericity (`0 < x² + y²`) is needed only for the operand of `unit`
and for the azimuth-valued scalars `phi` / `deltaphi`. -/

inductive E2 : Type
  | var (i : Nat)
  | add (a b : E2)
  | sub (a b : E2)
  | scale (k : ℝ) (a : E2)
  | neg (a : E2)
  | rotateZ (ang : ℝ) (a : E2)
  | unit (a : E2)
  | conv (az : Az) (a : E2)   -- `to_xy()` / `to_rhophi()`

def convName2 : Az → String
  | .xy => "to_xy" | .rhophi => "to_rhophi"

noncomputable def evalM2 (K : Consts ℝ) (A : Arith ℝ) (ρ : Nat → Vec ℝ) : E2 → Except Err (Vec ℝ)
  | .var i => .ok (ρ i)
  | .add a b => bin (evalM2 K A ρ a) (evalM2 K A ρ b) fun va vb => call evR K A "add" va [.v vb]
  | .sub a b => bin (evalM2 K A ρ a) (evalM2 K A ρ b) fun va vb => call evR K A "subtract" va [.v vb]
  | .scale k a => un (evalM2 K A ρ a) fun va => call evR K A "scale" va [.sc k]
  | .neg a => un (evalM2 K A ρ a) fun va => operator evR K A "neg" va []
  | .rotateZ ang a => un (evalM2 K A ρ a) fun va => call evR K A "rotateZ" va [.sc ang]
  | .unit a => un (evalM2 K A ρ a) fun va => call evR K A "unit" va []
  | .conv az a => un (evalM2 K A ρ a) fun va => call evR K A (convName2 az) va []

noncomputable def evalS2 (ρS : Nat → List ℝ) : E2 → List ℝ
  | .var i => ρS i
  | .add a b => List.zipWith (· + ·) (evalS2 ρS a) (evalS2 ρS b)
  | .sub a b => List.zipWith (· - ·) (evalS2 ρS a) (evalS2 ρS b)
  | .scale k a => (evalS2 ρS a).map (k * ·)
  | .neg a => (evalS2 ρS a).map (fun x => -x)
  | .rotateZ ang a => onPlanar (rotZ2 ang) (evalS2 ρS a)
  | .unit a => (evalS2 ρS a).map (fun x => 1 / normL (evalS2 ρS a) * x)
  | .conv _ a => evalS2 ρS a

/-- a point of the plane other than the origin -/
def Generic2 (p : List ℝ) : Prop := ∃ x y, p = [x, y] ∧ 0 < x ^ 2 + y ^ 2

/-- the operand of every `unit` node is not the origin -/
def GenericAll2 (ρS : Nat → List ℝ) : E2 → Prop
  | .var _ => True
  | .add a b => GenericAll2 ρS a ∧ GenericAll2 ρS b
  | .sub a b => GenericAll2 ρS a ∧ GenericAll2 ρS b
  | .scale _ a => GenericAll2 ρS a
  | .neg a => GenericAll2 ρS a
  | .rotateZ _ a => GenericAll2 ρS a
  | .unit a => GenericAll2 ρS a ∧ Generic2 (evalS2 ρS a)
  | .conv _ a => GenericAll2 ρS a

structure Good2 (v : Vec ℝ) : Prop where
  wf : C01M.WFV v
  dim : v.ty.dim = 2
  rng : StoredInRange v

theorem good2_cases {v : Vec ℝ} (h : Good2 v) : ∃ be mom az a b, v = C11M.V2 be mom az a b ∧ AzOK az a b := by
  obtain ⟨hv, hd, hr⟩ := h
  rcases wfv_cases hv with ⟨be, mom, az, a, b, rfl⟩ | ⟨be, mom, az, l, a, b, c, rfl⟩ |
    ⟨be, mom, az, l, t, a, b, c, d, rfl⟩
  · exact ⟨be, mom, az, a, b, rfl, hr.1⟩
  · simp [VT.dim] at hd
  · simp [VT.dim] at hd

theorem good2_mk (be : Backend) (mom : Bool) (az : Az) (a b : ℝ) (hA : AzOK az a b) : Good2 (C11M.V2 be mom az a b) :=
  ⟨⟨by simp, rfl⟩, rfl, ⟨hA, trivial, trivial⟩⟩

theorem denote_V2_eq {be mom az} {a b : ℝ} {p : List ℝ} (hd : denote (C11M.V2 be mom az a b) = some p) :
    p = [xOf az a b, yOf az a b] := by
  simp only [denote, Option.some.injEq] at hd
  exact hd.symm

theorem generic2_iff (x y : ℝ) : Generic2 [x, y] ↔ 0 < x ^ 2 + y ^ 2 := by
  constructor
  · rintro ⟨x', y', e, h1⟩
    simp only [List.cons.injEq, and_true] at e
    obtain ⟨rfl, rfl⟩ := e
    exact h1
  · rintro h1
    exact ⟨x, y, rfl, h1⟩

theorem canon2_of_azOK {az : Az} {a b : ℝ} (hA : AzOK az a b) : Canon2 az a b := by
  cases az
  · trivial
  · exact hA.1

theorem rho_pos_of {az : Az} {a b : ℝ} (hA : AzOK az a b) (hg : 0 < xOf az a b ^ 2 + yOf az a b ^ 2) :
    0 < rhoOf az a b := by
  rw [Spec.sq_xOf_add_sq_yOf] at hg
  rcases (Spec.rhoOf_nonneg (canon2_of_azOK hA)).lt_or_eq with h | h
  · exact h
  · rw [← h] at hg; simp at hg

theorem add2_case (K : Consts ℝ) (A : Arith ℝ) {va vb : Vec ℝ} {pa pb : List ℝ} (ha : Good2 va) (hb : Good2 vb)
    (da : denote va = some pa) (db : denote vb = some pb) :
    ∃ r, call evR K A "add" va [.v vb] = .ok (.vec r) ∧ Good2 r ∧ denote r = some (List.zipWith (· + ·) pa pb) := by
  obtain ⟨be1, mom1, az1, a0, a1, rfl, hA1⟩ := good2_cases ha
  obtain ⟨be2, mom2, az2, b0, b1, rfl, hA2⟩ := good2_cases hb
  obtain ⟨r, p, q, hcall, -, -, -, -, -, hp, hq, hden⟩ :=
    c11m_add K A (C11M.V2 be1 mom1 az1 a0 a1) (C11M.V2 be2 mom2 az2 b0 b1) ha.wf hb.wf rfl trivial trivial
      (fun h => by cases h) (fun h => by cases h) trivial trivial (fun h => by cases h)
  rw [da] at hp; rw [db] at hq
  cases hp; cases hq
  refine ⟨r, hcall, ?_, hden⟩
  have he := add_eval2 K A be1 mom1 az1 be2 mom2 az2 a0 a1 b0 b1
  rw [hcall] at he
  have := vec_inj he
  subst this
  have hc := c13c_planar_add az1 az2 a0 a1 b0 b1
  rw [planar_add_ret_eq] at hc
  exact good2_mk _ _ _ _ _ (outCanon2_parts hc)

theorem sub2_case (K : Consts ℝ) (A : Arith ℝ) {va vb : Vec ℝ} {pa pb : List ℝ} (ha : Good2 va) (hb : Good2 vb)
    (da : denote va = some pa) (db : denote vb = some pb) :
    ∃ r, call evR K A "subtract" va [.v vb] = .ok (.vec r) ∧ Good2 r ∧
      denote r = some (List.zipWith (· - ·) pa pb) := by
  obtain ⟨be1, mom1, az1, a0, a1, rfl, hA1⟩ := good2_cases ha
  obtain ⟨be2, mom2, az2, b0, b1, rfl, hA2⟩ := good2_cases hb
  obtain ⟨r, p, q, hcall, -, -, -, -, -, hp, hq, hden⟩ :=
    c11m_subtract K A (C11M.V2 be1 mom1 az1 a0 a1) (C11M.V2 be2 mom2 az2 b0 b1) ha.wf hb.wf rfl trivial trivial
      (fun h => by cases h) (fun h => by cases h) trivial trivial (fun h => by cases h) (fun h => by cases h)
  rw [da] at hp; rw [db] at hq
  cases hp; cases hq
  refine ⟨r, hcall, ?_, hden⟩
  have he := subtract_eval2 K A be1 mom1 az1 be2 mom2 az2 a0 a1 b0 b1
  rw [hcall] at he
  have := vec_inj he
  subst this
  have hc := c13c_planar_subtract az1 az2 a0 a1 b0 b1
  rw [planar_subtract_ret_eq] at hc
  exact good2_mk _ _ _ _ _ (outCanon2_parts hc)

theorem scale2_case (K : Consts ℝ) (A : Arith ℝ) (k : ℝ) {va : Vec ℝ} {pa : List ℝ} (ha : Good2 va)
    (da : denote va = some pa) :
    ∃ r, call evR K A "scale" va [.sc k] = .ok (.vec r) ∧ Good2 r ∧ denote r = some (pa.map (k * ·)) := by
  obtain ⟨be, mom, az, a, b, rfl, hA⟩ := good2_cases ha
  obtain ⟨r, p, hcall, -, -, hp, hden⟩ := c11m_scale K A (C11M.V2 be mom az a b) ha.wf k trivial (fun h => by cases h)
  rw [da] at hp
  cases hp
  refine ⟨r, hcall, ?_, hden⟩
  have he := scale_eval2 K A be mom az k a b
  rw [hcall] at he
  have := vec_inj he
  subst this
  have hc := c13c_planar_scale az k a b hA
  rw [planar_scale_ret_eq] at hc
  exact good2_mk _ _ _ _ _ (outCanon2_parts hc)

theorem neg2_case (K : Consts ℝ) (A : Arith ℝ) (hK : K.negOne = -1) {va : Vec ℝ} {pa : List ℝ} (ha : Good2 va)
    (da : denote va = some pa) :
    ∃ r, operator evR K A "neg" va [] = .ok (.vec r) ∧ Good2 r ∧ denote r = some (pa.map (fun x => -x)) := by
  have e : pa.map (fun x => -x) = pa.map (-1 * ·) := List.map_congr_left (fun x _ => by ring)
  rw [e, (c11m_neg evR K A va 0).1, hK]
  exact scale2_case K A (-1) ha da

theorem rotateZ2_case (K : Consts ℝ) (A : Arith ℝ) (ang : ℝ) {va : Vec ℝ} {pa : List ℝ} (ha : Good2 va)
    (da : denote va = some pa) :
    ∃ r, call evR K A "rotateZ" va [.sc ang] = .ok (.vec r) ∧ Good2 r ∧ denote r = some (onPlanar (rotZ2 ang) pa) := by
  obtain ⟨be, mom, az, a, b, rfl, hA⟩ := good2_cases ha
  obtain ⟨r, hcall, -, -, hden⟩ := c01m_rotateZ K A (C11M.V2 be mom az a b) ha.wf ang
  rw [da] at hden
  refine ⟨r, hcall, ?_, hden⟩
  have he := rotateZ_eval2 K A be mom az ang a b
  rw [hcall] at he
  have := vec_inj he
  subst this
  have hc := c13c_planar_rotateZ az ang a b hA
  rw [planar_rotateZ_ret_eq] at hc
  exact good2_mk _ _ _ _ _ (outCanon2_parts hc)

theorem unit2_case (K : Consts ℝ) (A : Arith ℝ) {va : Vec ℝ} {pa : List ℝ} (ha : Good2 va)
    (da : denote va = some pa) (ga : Generic2 pa) :
    ∃ r, call evR K A "unit" va [] = .ok (.vec r) ∧ Good2 r ∧
      denote r = some (pa.map (fun x => 1 / normL pa * x)) := by
  obtain ⟨be, mom, az, a, b, rfl, hA⟩ := good2_cases ha
  have e := denote_V2_eq da
  subst e
  have hr : 0 < rhoOf az a b := rho_pos_of hA ((generic2_iff _ _).1 ga)
  obtain ⟨r, p, u, hcall, -, -, hp, -, hden, hu, -⟩ := c11m_unit K A (C11M.V2 be mom az a b) ha.wf hr
  rw [da] at hp
  cases hp
  subst hu
  refine ⟨r, hcall, ?_, hden⟩
  have he := unit_eval2 K A be mom az a b
  rw [hcall] at he
  have := vec_inj he
  subst this
  have hc := c13c_planar_unit az a b hA
  rw [planar_unit_ret_eq] at hc
  exact good2_mk _ _ _ _ _ (outCanon2_parts hc)

theorem convName2_target (az : Az) : C04.toTarget (convName2 az) = some (az, none, none) := by
  cases az <;> decide

theorem conv_range_az {az0 az : Az} {a b : ℝ} (hA : AzOK az0 a b) :
    AzOK az (C04M.conv2 az0 az a b).1 (C04M.conv2 az0 az a b).2 := by
  cases az
  · trivial
  · cases az0
    · have h := c13_planar_phi_xy_range a b
      exact ⟨c13_planar_rho_xy_nonneg a b, h.1.le, h.2⟩
    · exact hA

theorem conv2_case (K : Consts ℝ) (A : Arith ℝ) (az : Az) {va : Vec ℝ} {pa : List ℝ} (ha : Good2 va)
    (da : denote va = some pa) :
    ∃ r, call evR K A (convName2 az) va [] = .ok (.vec r) ∧ Good2 r ∧ denote r = some pa := by
  obtain ⟨be, mom, az0, a, b, rfl, hA⟩ := good2_cases ha
  obtain ⟨r, hcall, -, -, hden⟩ :=
    C04M.c04m_to_denote_name K A (convName2 az) az none none (convName2_target az) _ ha.wf rfl rfl trivial
  rw [da] at hden
  refine ⟨r, hcall, ?_, hden⟩
  have he := call_of_target K A (convName2 az) az none none (convName2_target az) (C11M.V2 be mom az0 a b)
  rw [hcall, C04M.toSystem_eval2] at he
  have := vec_inj he
  subst this
  exact good2_mk _ _ _ _ _ (conv_range_az hA)

/-- **main theorem, 2D** -/
theorem c01e_eval2 (K : Consts ℝ) (A : Arith ℝ) (hK : K.negOne = -1) (ρ : Nat → Vec ℝ) (ρS : Nat → List ℝ)
    (hρ : ∀ i, Good2 (ρ i)) (hS : ∀ i, denote (ρ i) = some (ρS i)) (e : E2) (hg : GenericAll2 ρS e) :
    ∃ v, evalM2 K A ρ e = .ok v ∧ Good2 v ∧ denote v = some (evalS2 ρS e) := by
  induction e with
  | var i => exact ⟨ρ i, rfl, hρ i, hS i⟩
  | add a b iha ihb =>
    obtain ⟨va, ea, ha, da⟩ := iha hg.1
    obtain ⟨vb, eb, hb, db⟩ := ihb hg.2
    obtain ⟨r, hc, hr, hd⟩ := add2_case K A ha hb da db
    exact ⟨r, by simp only [evalM2, ea, eb, bin, hc, vecOf], hr, hd⟩
  | sub a b iha ihb =>
    obtain ⟨va, ea, ha, da⟩ := iha hg.1
    obtain ⟨vb, eb, hb, db⟩ := ihb hg.2
    obtain ⟨r, hc, hr, hd⟩ := sub2_case K A ha hb da db
    exact ⟨r, by simp only [evalM2, ea, eb, bin, hc, vecOf], hr, hd⟩
  | scale k a iha =>
    obtain ⟨va, ea, ha, da⟩ := iha hg
    obtain ⟨r, hc, hr, hd⟩ := scale2_case K A k ha da
    exact ⟨r, by simp only [evalM2, ea, un, hc, vecOf], hr, hd⟩
  | neg a iha =>
    obtain ⟨va, ea, ha, da⟩ := iha hg
    obtain ⟨r, hc, hr, hd⟩ := neg2_case K A hK ha da
    exact ⟨r, by simp only [evalM2, ea, un, hc, vecOf], hr, hd⟩
  | rotateZ ang a iha =>
    obtain ⟨va, ea, ha, da⟩ := iha hg
    obtain ⟨r, hc, hr, hd⟩ := rotateZ2_case K A ang ha da
    exact ⟨r, by simp only [evalM2, ea, un, hc, vecOf], hr, hd⟩
  | unit a iha =>
    obtain ⟨va, ea, ha, da⟩ := iha hg.1
    obtain ⟨r, hc, hr, hd⟩ := unit2_case K A ha da hg.2
    exact ⟨r, by simp only [evalM2, ea, un, hc, vecOf], hr, hd⟩
  | conv az a iha =>
    obtain ⟨va, ea, ha, da⟩ := iha hg
    obtain ⟨r, hc, hr, hd⟩ := conv2_case K A az ha da
    exact ⟨r, by simp only [evalM2, ea, un, hc, vecOf], hr, hd⟩

theorem good2_denote {v : Vec ℝ} (h : Good2 v) : ∃ p, denote v = some p := by
  obtain ⟨be, mom, az, a, b, rfl, -⟩ := good2_cases h
  exact ⟨_, rfl⟩

theorem denote_specEnv2 {ρ : Nat → Vec ℝ} (hρ : ∀ i, Good2 (ρ i)) (i : Nat) : denote (ρ i) = some (specEnv ρ i) := by
  obtain ⟨p, hp⟩ := good2_denote (hρ i)
  simp only [specEnv, hp, Option.getD_some]

/-- **C01 for 2D computations** -/
theorem c01e_indep2 (K : Consts ℝ) (A : Arith ℝ) (hK : K.negOne = -1) (ρ₁ ρ₂ : Nat → Vec ℝ)
    (h₁ : ∀ i, Good2 (ρ₁ i)) (h₂ : ∀ i, Good2 (ρ₂ i)) (hd : ∀ i, denote (ρ₁ i) = denote (ρ₂ i)) (e : E2)
    (hg : GenericAll2 (specEnv ρ₁) e) :
    ∃ v₁ v₂, evalM2 K A ρ₁ e = .ok v₁ ∧ evalM2 K A ρ₂ e = .ok v₂ ∧ denote v₁ = denote v₂ ∧
      denote v₁ = some (evalS2 (specEnv ρ₁) e) := by
  obtain ⟨v₁, e₁, -, d₁⟩ := c01e_eval2 K A hK ρ₁ (specEnv ρ₁) h₁ (denote_specEnv2 h₁) e hg
  obtain ⟨v₂, e₂, -, d₂⟩ :=
    c01e_eval2 K A hK ρ₂ (specEnv ρ₁) h₂ (fun i => by rw [← hd i]; exact denote_specEnv2 h₁ i) e hg
  exact ⟨v₁, v₂, e₁, e₂, by rw [d₁, d₂], d₁⟩

/-- satisfiable: `unit(rotateZ(1, 3·v₀ − v₁)).to_rhophi()` with `v₀ = (ρ, φ) = (2, 0)`, `v₁ = (x, y) = (1, 1)`
(the operand of `unit` is a rotation of `(5, -1)`) -/
example : GenericAll2 (fun i => if i = 0 then [2, 0] else [1, 1])
    (.conv .rhophi (.unit (.rotateZ 1 (.sub (.scale 3 (.var 0)) (.var 1))))) := by
  simp only [GenericAll2, evalS2, if_true, if_false, one_ne_zero, List.map_cons, List.map_nil, List.zipWith_cons_cons,
    List.zipWith_nil_right, onPlanar, rotZ2, generic2_iff, true_and, and_true]
  have h := cos_sq_add_sin_sq (1 : ℝ)
  nlinarith [sq_nonneg (cos 1), sq_nonneg (sin 1)]

/-! ## 13. 4D vectors: generic = spatial part generic, forward time-like -/

inductive E4 : Type
  | var (i : Nat)
  | add (a b : E4)
  | scale (k : ℝ) (a : E4)
  | rotateZ (ang : ℝ) (a : E4)
  | rotateX (ang : ℝ) (a : E4)
  | rotateY (ang : ℝ) (a : E4)
  | boostX (β : ℝ) (a : E4)
  | boostY (β : ℝ) (a : E4)
  | boostZ (β : ℝ) (a : E4)
  | boost_p4 (a b : E4)       -- `a.boost_p4(b)`
  | sub (a b : E4)
  | unit (a : E4)
  | conv (az : Az) (lon : Lon) (tmp : Tmp) (a : E4)   -- `to_<system>()` into the named 4D system

/-- the public name of the conversion into the 4D system `(az, lon, tmp)` -/
def convName4 : Az → Lon → Tmp → String
  | .xy, .z, .t => "to_xyzt" | .xy, .z, .tau => "to_xyztau"
  | .xy, .theta, .t => "to_xythetat" | .xy, .theta, .tau => "to_xythetatau"
  | .xy, .eta, .t => "to_xyetat" | .xy, .eta, .tau => "to_xyetatau"
  | .rhophi, .z, .t => "to_rhophizt" | .rhophi, .z, .tau => "to_rhophiztau"
  | .rhophi, .theta, .t => "to_rhophithetat" | .rhophi, .theta, .tau => "to_rhophithetatau"
  | .rhophi, .eta, .t => "to_rhophietat" | .rhophi, .eta, .tau => "to_rhophietatau"

noncomputable def evalM4 (K : Consts ℝ) (A : Arith ℝ) (ρ : Nat → Vec ℝ) : E4 → Except Err (Vec ℝ)
  | .var i => .ok (ρ i)
  | .add a b => bin (evalM4 K A ρ a) (evalM4 K A ρ b) fun va vb => call evR K A "add" va [.v vb]
  | .scale k a => un (evalM4 K A ρ a) fun va => call evR K A "scale" va [.sc k]
  | .rotateZ ang a => un (evalM4 K A ρ a) fun va => call evR K A "rotateZ" va [.sc ang]
  | .rotateX ang a => un (evalM4 K A ρ a) fun va => call evR K A "rotateX" va [.sc ang]
  | .rotateY ang a => un (evalM4 K A ρ a) fun va => call evR K A "rotateY" va [.sc ang]
  | .boostX β a => un (evalM4 K A ρ a) fun va => call evR K A "boostX" va [.kw "beta" β]
  | .boostY β a => un (evalM4 K A ρ a) fun va => call evR K A "boostY" va [.kw "beta" β]
  | .boostZ β a => un (evalM4 K A ρ a) fun va => call evR K A "boostZ" va [.kw "beta" β]
  | .boost_p4 a b => bin (evalM4 K A ρ a) (evalM4 K A ρ b) fun va vb => call evR K A "boost_p4" va [.v vb]
  | .sub a b => bin (evalM4 K A ρ a) (evalM4 K A ρ b) fun va vb => call evR K A "subtract" va [.v vb]
  | .unit a => un (evalM4 K A ρ a) fun va => call evR K A "unit" va []
  | .conv az lon tmp a => un (evalM4 K A ρ a) fun va => call evR K A (convName4 az lon tmp) va []

/-- `boost_p4` on component lists: the Cartesian kernel `bp4` of Props/C09 -/
noncomputable def bp4L : List ℝ → List ℝ → List ℝ
  | [x, y, z, t], [px, py, pz, E] => l4 (bp4 (x, y, z, t) (px, py, pz, E))
  | p, _ => p

/-- the specification: rotations act on the spatial part; the boosts are the Cartesian kernels `bXβ`, `bYβ`, `bZβ`, `bp4`
(the library's formulas on `(x, y, z, t)` components, Props/C09 proves them to be Lorentz transformations) -/
noncomputable def evalS4 (ρS : Nat → List ℝ) : E4 → List ℝ
  | .var i => ρS i
  | .add a b => List.zipWith (· + ·) (evalS4 ρS a) (evalS4 ρS b)
  | .scale k a => (evalS4 ρS a).map (k * ·)
  | .rotateZ ang a => onSpatial (rotZ ang) (evalS4 ρS a)
  | .rotateX ang a => onSpatial (rotX ang) (evalS4 ρS a)
  | .rotateY ang a => onSpatial (rotY ang) (evalS4 ρS a)
  | .boostX β a => on4 (bXβ β) (evalS4 ρS a)
  | .boostY β a => on4 (bYβ β) (evalS4 ρS a)
  | .boostZ β a => on4 (bZβ β) (evalS4 ρS a)
  | .boost_p4 a b => bp4L (evalS4 ρS a) (evalS4 ρS b)
  | .sub a b => List.zipWith (· - ·) (evalS4 ρS a) (evalS4 ρS b)
  | .unit a => (evalS4 ρS a).map (fun x => 1 / normL (evalS4 ρS a) * x)
  | .conv _ _ _ a => evalS4 ρS a

/-- spatial part generic (off the z axis, off the plane `z = 0`), forward time-like: `√(x²+y²+z²) < t` -/
def Generic4 (p : List ℝ) : Prop :=
  ∃ x y z t, p = [x, y, z, t] ∧ 0 < x ^ 2 + y ^ 2 ∧ z ≠ 0 ∧ x ^ 2 + y ^ 2 + z ^ 2 < t ^ 2 ∧ 0 < t

/-- every subexpression's specified value is generic; boost parameters are subluminal -/
def GenericAll4 (ρS : Nat → List ℝ) : E4 → Prop
  | .var i => Generic4 (ρS i)
  | .add a b => (GenericAll4 ρS a ∧ GenericAll4 ρS b) ∧ Generic4 (evalS4 ρS (.add a b))
  | .scale k a => GenericAll4 ρS a ∧ Generic4 (evalS4 ρS (.scale k a))
  | .rotateZ ang a => GenericAll4 ρS a ∧ Generic4 (evalS4 ρS (.rotateZ ang a))
  | .rotateX ang a => GenericAll4 ρS a ∧ Generic4 (evalS4 ρS (.rotateX ang a))
  | .rotateY ang a => GenericAll4 ρS a ∧ Generic4 (evalS4 ρS (.rotateY ang a))
  | .boostX β a => (GenericAll4 ρS a ∧ |β| < 1) ∧ Generic4 (evalS4 ρS (.boostX β a))
  | .boostY β a => (GenericAll4 ρS a ∧ |β| < 1) ∧ Generic4 (evalS4 ρS (.boostY β a))
  | .boostZ β a => (GenericAll4 ρS a ∧ |β| < 1) ∧ Generic4 (evalS4 ρS (.boostZ β a))
  | .boost_p4 a b => (GenericAll4 ρS a ∧ GenericAll4 ρS b) ∧ Generic4 (evalS4 ρS (.boost_p4 a b))
  | .sub a b => (GenericAll4 ρS a ∧ GenericAll4 ρS b) ∧ Generic4 (evalS4 ρS (.sub a b))
  | .unit a => GenericAll4 ρS a ∧ Generic4 (evalS4 ρS (.unit a))
  | .conv az lon tmp a => GenericAll4 ρS a ∧ Generic4 (evalS4 ρS (.conv az lon tmp a))

theorem genericAll4_self {ρS : Nat → List ℝ} {e : E4} (h : GenericAll4 ρS e) : Generic4 (evalS4 ρS e) := by
  cases e <;> first | exact h | exact h.2

structure Good4 (v : Vec ℝ) : Prop where
  wf : C01M.WFV v
  dim : v.ty.dim = 4
  rng : StoredInRange v
  sin : SinOKAll v

theorem good4_cases {v : Vec ℝ} (h : Good4 v) :
    ∃ be mom az l tm a b c d, v = C11M.V4 be mom az l tm a b c d ∧ AzOK az a b ∧ LonOK l c ∧ InTmp tm d ∧ SinOK l c := by
  obtain ⟨hv, hd, hr, hs⟩ := h
  rcases wfv_cases hv with ⟨be, mom, az, a, b, rfl⟩ | ⟨be, mom, az, l, a, b, c, rfl⟩ |
    ⟨be, mom, az, l, t, a, b, c, d, rfl⟩
  · simp [VT.dim] at hd
  · simp [VT.dim] at hd
  · exact ⟨be, mom, az, l, t, a, b, c, d, rfl, hr.1, hr.2.1, hr.2.2, hs⟩

theorem good4_mk (be : Backend) (mom : Bool) (az : Az) (l : Lon) (tm : Tmp) (a b c d : ℝ) (hA : AzOK az a b)
    (hL : LonOK l c) (hT : InTmp tm d) (hS : SinOK l c) : Good4 (C11M.V4 be mom az l tm a b c d) :=
  ⟨⟨by simp, rfl⟩, rfl, ⟨hA, hL, hT⟩, hS⟩

theorem denote_V4_eq {be mom az l tm} {a b c d : ℝ} {p : List ℝ}
    (hd : denote (C11M.V4 be mom az l tm a b c d) = some p) :
    p = [xOf az a b, yOf az a b, zOf az l a b c, tOf az l tm a b c d] := by
  simp only [denote, Option.some.injEq] at hd
  exact hd.symm

theorem generic4_iff (x y z t : ℝ) :
    Generic4 [x, y, z, t] ↔ 0 < x ^ 2 + y ^ 2 ∧ z ≠ 0 ∧ x ^ 2 + y ^ 2 + z ^ 2 < t ^ 2 ∧ 0 < t := by
  constructor
  · rintro ⟨x', y', z', t', e, h⟩
    simp only [List.cons.injEq, and_true] at e
    obtain ⟨rfl, rfl, rfl, rfl⟩ := e
    exact h
  · rintro h
    exact ⟨x, y, z, t, rfl, h⟩

theorem canonTmp_of_inTmp {tm : Tmp} {d : ℝ} (h : InTmp tm d) : CanonTmp tm d := by
  cases tm
  · trivial
  · exact h

/-- **bridge lemma, 4D** -/
theorem generic_storage_ok4 {v : Vec ℝ} {p : List ℝ} (hv : Good4 v) (hd : denote v = some p) (hg : Generic4 p) :
    TanOKV v ∧ SinOKV v ∧ CanonTmpV v ∧ ThetaRangeV v ∧ BoostOK v ∧
      Stored4 (fun _ l t _ _ c d => TanOK l c ∧ CanonTmp t d) v := by
  obtain ⟨be, mom, az, l, tm, a, b, c, d, rfl, hA, hL, hTm, hS⟩ := good4_cases hv
  have e := denote_V4_eq hd
  subst e
  obtain ⟨h1, h2, -, -⟩ := (generic4_iff _ _ _ _).1 hg
  obtain ⟨hr, hc2, hT, hCL, hθ, hm⟩ := core3 hA hL hS h1 h2
  have hC := canonTmp_of_inTmp hTm
  exact ⟨hT, fun _ => hS, hC, hθ, ⟨hT, hS, hC⟩, ⟨hT, hC⟩⟩

theorem outCanon4_parts {a : Az} {l : Lon} {t : Tmp} {v : ℝ × ℝ × ℝ × ℝ}
    (h : OutCanon4 (.vec [.az a, .lon l, .tmp t]) v) : AzOK a v.1 v.2.1 ∧ LonOK l v.2.2.1 ∧ InTmp t v.2.2.2 := by
  simp only [OutCanon4, OutCanonR, OutCanonL, and_true] at h
  exact h

theorem good4_result {be mom az l tm} {a b c d : ℝ} {p : List ℝ} (hA : AzOK az a b) (hL : LonOK l c) (hT : InTmp tm d)
    (hd : denote (C11M.V4 be mom az l tm a b c d) = some p) (hg : Generic4 p) :
    Good4 (C11M.V4 be mom az l tm a b c d) := by
  have e := denote_V4_eq hd
  subst e
  exact good4_mk _ _ _ _ _ _ _ _ _ hA hL hT (sinOK_of_z_ne ((generic4_iff _ _ _ _).1 hg).2.1)

theorem add4_case (K : Consts ℝ) (A : Arith ℝ) {va vb : Vec ℝ} {pa pb : List ℝ} (ha : Good4 va) (hb : Good4 vb)
    (da : denote va = some pa) (db : denote vb = some pb) (ga : Generic4 pa) (gb : Generic4 pb)
    (gr : Generic4 (List.zipWith (· + ·) pa pb)) :
    ∃ r, call evR K A "add" va [.v vb] = .ok (.vec r) ∧ Good4 r ∧ denote r = some (List.zipWith (· + ·) pa pb) := by
  obtain ⟨hTa, hSa, hCa, -, -, -⟩ := generic_storage_ok4 ha da ga
  obtain ⟨hTb, hSb, hCb, -, -, -⟩ := generic_storage_ok4 hb db gb
  obtain ⟨be1, mom1, az1, l1, t1, a0, a1, a2, a3, rfl, hA1, hL1, hT1, hS1⟩ := good4_cases ha
  obtain ⟨be2, mom2, az2, l2, t2, b0, b1, b2, b3, rfl, hA2, hL2, hT2, hS2⟩ := good4_cases hb
  have ea := denote_V4_eq da
  have eb := denote_V4_eq db
  subst ea; subst eb
  have hrep' : Representable3 (spatial_add.ret az1 l1 az2 l2)
      (Spec.add3 (Spec.cart3 az1 l1 a0 a1 a2) (Spec.cart3 az2 l2 b0 b1 b2)) :=
    Or.inr ((generic4_iff _ _ _ _).1 gr).1
  have hrep : RepAdd (C11M.V4 be1 mom1 az1 l1 t1 a0 a1 a2 a3) (C11M.V4 be2 mom2 az2 l2 t2 b0 b1 b2 b3) := fun _ => hrep'
  obtain ⟨r, p, q, hcall, -, -, -, -, -, hp, hq, hden⟩ :=
    c11m_add K A (C11M.V4 be1 mom1 az1 l1 t1 a0 a1 a2 a3) (C11M.V4 be2 mom2 az2 l2 t2 b0 b1 b2 b3) ha.wf hb.wf rfl
      hTa hTb hSa hSb hCa hCb hrep
  rw [da] at hp; rw [db] at hq
  cases hp; cases hq
  refine ⟨r, hcall, ?_, hden⟩
  have he := add_eval4 K A be1 mom1 az1 l1 t1 be2 mom2 az2 l2 t2 a0 a1 a2 a3 b0 b1 b2 b3
  rw [hcall] at he
  have := vec_inj he
  subst this
  have hc := c13c_lorentz_add az1 l1 t1 az2 l2 t2 a0 a1 a2 a3 b0 b1 b2 b3 hTa hTb hS1 hS2 hT1 hT2 hrep'
  rw [lorentz_add_ret_eq] at hc
  obtain ⟨h1, h2, h3⟩ := outCanon4_parts hc
  cases t1 <;> cases t2 <;> exact good4_result h1 h2 h3 hden gr

theorem scale4_case (K : Consts ℝ) (A : Arith ℝ) (k : ℝ) {va : Vec ℝ} {pa : List ℝ} (ha : Good4 va)
    (da : denote va = some pa) (ga : Generic4 pa) (gr : Generic4 (pa.map (k * ·))) :
    ∃ r, call evR K A "scale" va [.sc k] = .ok (.vec r) ∧ Good4 r ∧ denote r = some (pa.map (k * ·)) := by
  obtain ⟨-, -, -, hθ, -, -⟩ := generic_storage_ok4 ha da ga
  obtain ⟨be, mom, az, l, tm, a, b, c, d, rfl, hA, hL, hTm, hS⟩ := good4_cases ha
  have ea := denote_V4_eq da
  subst ea
  have hk : 0 ≤ k := by
    have h1 := ((generic4_iff _ _ _ _).1 ga).2.2.2
    have h2 : 0 < k * tOf az l tm a b c d := ((generic4_iff _ _ _ _).1 gr).2.2.2
    by_contra hneg
    have hk' : k < 0 := not_le.mp hneg
    nlinarith
  obtain ⟨r, p, hcall, -, -, hp, hden⟩ := c11m_scale K A (C11M.V4 be mom az l tm a b c d) ha.wf k hθ (fun _ => hk)
  rw [da] at hp
  cases hp
  refine ⟨r, hcall, ?_, hden⟩
  have he := scale_eval4 K A be mom az l tm k a b c d
  rw [hcall] at he
  have := vec_inj he
  subst this
  have hc := c13c_lorentz_scale az l tm k a b c d hA hL hTm hk
  rw [lorentz_scale_ret_eq] at hc
  obtain ⟨h1, h2, h3⟩ := outCanon4_parts hc
  exact good4_result h1 h2 h3 hden gr

theorem rotateZ4_case (K : Consts ℝ) (A : Arith ℝ) (ang : ℝ) {va : Vec ℝ} {pa : List ℝ} (ha : Good4 va)
    (da : denote va = some pa) (ga : Generic4 pa) (gr : Generic4 (onSpatial (rotZ ang) pa)) :
    ∃ r, call evR K A "rotateZ" va [.sc ang] = .ok (.vec r) ∧ Good4 r ∧ denote r = some (onSpatial (rotZ ang) pa) := by
  obtain ⟨be, mom, az, l, tm, a, b, c, d, rfl, hA, hL, hTm, hS⟩ := good4_cases ha
  obtain ⟨r, hcall, -, -, hden⟩ := c01m_rotateZ_spatial K A _ ha.wf (by simp [VT.dim]) ang
  rw [da] at hden
  refine ⟨r, hcall, ?_, hden⟩
  have he := rotateZ_eval4 K A be mom az l tm ang a b c d
  rw [hcall] at he
  have := vec_inj he
  subst this
  have hc := c13c_planar_rotateZ az ang a b hA
  rw [planar_rotateZ_ret_eq] at hc
  exact good4_result (outCanon2_parts hc) hL hTm hden gr

theorem rotateX4_case (K : Consts ℝ) (A : Arith ℝ) (ang : ℝ) {va : Vec ℝ} {pa : List ℝ} (ha : Good4 va)
    (da : denote va = some pa) (ga : Generic4 pa) (gr : Generic4 (onSpatial (rotX ang) pa)) :
    ∃ r, call evR K A "rotateX" va [.sc ang] = .ok (.vec r) ∧ Good4 r ∧ denote r = some (onSpatial (rotX ang) pa) := by
  obtain ⟨hT, -, -, -, -, -⟩ := generic_storage_ok4 ha da ga
  obtain ⟨w, hcall, -, -, hden⟩ := c01m_rotateX K A va ha.wf (by rw [ha.dim]; decide) hT ang
  rw [da] at hden
  refine ⟨w, hcall, ?_, hden⟩
  have he := rotateX_eval K A va ha.wf (by rw [ha.dim]; decide) ang
  rw [hcall] at he
  have := vec_inj he
  subst this
  obtain ⟨be, mom, az, l, tm, a, b, c, d, rfl, hA, hL, hTm, hS⟩ := good4_cases ha
  exact good4_result (be := be) (mom := mom) (az := .xy) (l := .z) (tm := tm) trivial trivial hTm hden gr

theorem rotateY4_case (K : Consts ℝ) (A : Arith ℝ) (ang : ℝ) {va : Vec ℝ} {pa : List ℝ} (ha : Good4 va)
    (da : denote va = some pa) (ga : Generic4 pa) (gr : Generic4 (onSpatial (rotY ang) pa)) :
    ∃ r, call evR K A "rotateY" va [.sc ang] = .ok (.vec r) ∧ Good4 r ∧ denote r = some (onSpatial (rotY ang) pa) := by
  obtain ⟨hT, -, -, -, -, -⟩ := generic_storage_ok4 ha da ga
  obtain ⟨w, hcall, -, -, hden⟩ := c01m_rotateY K A va ha.wf (by rw [ha.dim]; decide) hT ang
  rw [da] at hden
  refine ⟨w, hcall, ?_, hden⟩
  have he := rotateY_eval K A va ha.wf (by rw [ha.dim]; decide) ang
  rw [hcall] at he
  have := vec_inj he
  subst this
  obtain ⟨be, mom, az, l, tm, a, b, c, d, rfl, hA, hL, hTm, hS⟩ := good4_cases ha
  exact good4_result (be := be) (mom := mom) (az := .xy) (l := .z) (tm := tm) trivial trivial hTm hden gr

theorem boostX4_case (K : Consts ℝ) (A : Arith ℝ) (β : ℝ) (hβ : |β| < 1) {va : Vec ℝ} {pa : List ℝ} (ha : Good4 va)
    (da : denote va = some pa) (ga : Generic4 pa) (gr : Generic4 (on4 (bXβ β) pa)) :
    ∃ r, call evR K A "boostX" va [.kw "beta" β] = .ok (.vec r) ∧ Good4 r ∧ denote r = some (on4 (bXβ β) pa) := by
  obtain ⟨-, -, -, -, hB, -⟩ := generic_storage_ok4 ha da ga
  obtain ⟨w, hcall, -, -, -, hden⟩ := c09m_boostX_beta K A va ha.wf ha.dim hB β (fun _ => hβ)
  rw [da] at hden
  refine ⟨w, hcall, ?_, hden⟩
  obtain ⟨be, mom, az, l, tm, a, b, c, d, rfl, hA, hL, hTm, hS⟩ := good4_cases ha
  have he := (boostX_beta_eval K A be mom az l tm a b c d β).1
  rw [hcall, (c13c_lorentz_boostXY_ret az l tm).1] at he
  have := vec_inj he
  subst this
  have hc := c13c_lorentz_boostX_beta az l tm β a b c d hTm
  rw [(c13c_lorentz_boostXY_ret az l tm).1] at hc
  obtain ⟨h1, h2, h3⟩ := outCanon4_parts hc
  exact good4_result (be := be) (mom := mom) h1 h2 h3 hden gr

theorem boostY4_case (K : Consts ℝ) (A : Arith ℝ) (β : ℝ) (hβ : |β| < 1) {va : Vec ℝ} {pa : List ℝ} (ha : Good4 va)
    (da : denote va = some pa) (ga : Generic4 pa) (gr : Generic4 (on4 (bYβ β) pa)) :
    ∃ r, call evR K A "boostY" va [.kw "beta" β] = .ok (.vec r) ∧ Good4 r ∧ denote r = some (on4 (bYβ β) pa) := by
  obtain ⟨-, -, -, -, hB, -⟩ := generic_storage_ok4 ha da ga
  obtain ⟨w, hcall, -, -, -, hden⟩ := c09m_boostY_beta K A va ha.wf ha.dim hB β (fun _ => hβ)
  rw [da] at hden
  refine ⟨w, hcall, ?_, hden⟩
  obtain ⟨be, mom, az, l, tm, a, b, c, d, rfl, hA, hL, hTm, hS⟩ := good4_cases ha
  have he := (boostY_beta_eval K A be mom az l tm a b c d β).1
  rw [hcall, (c13c_lorentz_boostXY_ret az l tm).2.2.1] at he
  have := vec_inj he
  subst this
  have hc := c13c_lorentz_boostY_beta az l tm β a b c d hTm
  rw [(c13c_lorentz_boostXY_ret az l tm).2.2.1] at hc
  obtain ⟨h1, h2, h3⟩ := outCanon4_parts hc
  exact good4_result (be := be) (mom := mom) h1 h2 h3 hden gr

theorem boostZ4_case (K : Consts ℝ) (A : Arith ℝ) (β : ℝ) (hβ : |β| < 1) {va : Vec ℝ} {pa : List ℝ} (ha : Good4 va)
    (da : denote va = some pa) (ga : Generic4 pa) (gr : Generic4 (on4 (bZβ β) pa)) :
    ∃ r, call evR K A "boostZ" va [.kw "beta" β] = .ok (.vec r) ∧ Good4 r ∧ denote r = some (on4 (bZβ β) pa) := by
  obtain ⟨-, -, -, -, hB, -⟩ := generic_storage_ok4 ha da ga
  obtain ⟨w, hcall, -, -, -, hden⟩ := c09m_boostZ_beta K A va ha.wf ha.dim hB β (fun _ => hβ)
  rw [da] at hden
  refine ⟨w, hcall, ?_, hden⟩
  obtain ⟨be, mom, az, l, tm, a, b, c, d, rfl, hA, hL, hTm, hS⟩ := good4_cases ha
  have he := (boostZ_beta_eval K A be mom az l tm a b c d β).1
  rw [hcall, (c13c_lorentz_boostZ_ret az l tm).1] at he
  have := vec_inj he
  subst this
  have hc := c13c_lorentz_boostZ_beta az l tm β a b c d hA hTm
  rw [(c13c_lorentz_boostZ_ret az l tm).1] at hc
  obtain ⟨h1, h2, h3⟩ := outCanon4_parts hc
  exact good4_result (be := be) (mom := mom) h1 h2 h3 hden gr

theorem boost_p4_case (K : Consts ℝ) (A : Arith ℝ) {va vb : Vec ℝ} {pa pb : List ℝ} (ha : Good4 va) (hb : Good4 vb)
    (da : denote va = some pa) (db : denote vb = some pb) (ga : Generic4 pa) (gb : Generic4 pb)
    (gr : Generic4 (bp4L pa pb)) :
    ∃ r, call evR K A "boost_p4" va [.v vb] = .ok (.vec r) ∧ Good4 r ∧ denote r = some (bp4L pa pb) := by
  obtain ⟨-, -, -, -, -, hSa⟩ := generic_storage_ok4 ha da ga
  obtain ⟨-, -, -, -, hBb, -⟩ := generic_storage_ok4 hb db gb
  obtain ⟨x, y, z, t, rfl, -, -, -, -⟩ := id ga
  obtain ⟨px, py, pz, E, rfl, -, -, hE1, hE2⟩ := id gb
  obtain ⟨w, hcall, -, -, hden⟩ := c09m_boost_p4 K A va vb ha.wf ha.dim hb.wf hb.dim hSa hBb x y z t px py pz E da db
    (fun _ => ⟨hE1, hE2⟩)
  refine ⟨w, hcall, ?_, hden⟩
  obtain ⟨be1, mom1, az1, l1, t1, a0, a1, a2, a3, rfl, hA1, hL1, hT1, hS1⟩ := good4_cases ha
  obtain ⟨be2, mom2, az2, l2, t2, b0, b1, b2, b3, rfl, hA2, hL2, hT2, hS2⟩ := good4_cases hb
  have he := boost_p4_eval K A be1 mom1 az1 l1 t1 a0 a1 a2 a3 be2 mom2 az2 l2 t2 b0 b1 b2 b3
  rw [hcall] at he
  have := vec_inj he
  subst this
  have hc := c13c_lorentz_boost_p4 az1 l1 t1 az2 l2 t2 a0 a1 a2 a3 b0 b1 b2 b3 hT1
  rw [c13c_lorentz_boost_p4_ret] at hc
  obtain ⟨h1, h2, h3⟩ := outCanon4_parts hc
  exact good4_result (be := C01M.hbe be1 be2) (mom := mom1 || mom2) h1 h2 h3 hden gr


/-- the difference must again be generic — in particular forward time-like, which is exactly the condition
(`SubCausal`) under which a τ,τ-stored difference is representable (`c13c_lorentz_subtract_tau_nonneg_iff`) -/
theorem sub4_case (K : Consts ℝ) (A : Arith ℝ) {va vb : Vec ℝ} {pa pb : List ℝ} (ha : Good4 va) (hb : Good4 vb)
    (da : denote va = some pa) (db : denote vb = some pb) (ga : Generic4 pa) (gb : Generic4 pb)
    (gr : Generic4 (List.zipWith (· - ·) pa pb)) :
    ∃ r, call evR K A "subtract" va [.v vb] = .ok (.vec r) ∧ Good4 r ∧
      denote r = some (List.zipWith (· - ·) pa pb) := by
  obtain ⟨hTa, hSa, hCa, -, -, -⟩ := generic_storage_ok4 ha da ga
  obtain ⟨hTb, hSb, hCb, -, -, -⟩ := generic_storage_ok4 hb db gb
  obtain ⟨be1, mom1, az1, l1, t1, a0, a1, a2, a3, rfl, hA1, hL1, hT1, hS1⟩ := good4_cases ha
  obtain ⟨be2, mom2, az2, l2, t2, b0, b1, b2, b3, rfl, hA2, hL2, hT2, hS2⟩ := good4_cases hb
  have ea := denote_V4_eq da
  have eb := denote_V4_eq db
  subst ea; subst eb
  obtain ⟨g1, g2, g3, g4⟩ := (generic4_iff _ _ _ _).1 gr
  have hrep' : Representable3 (spatial_subtract.ret az1 l1 az2 l2)
      (Spec.sub3 (Spec.cart3 az1 l1 a0 a1 a2) (Spec.cart3 az2 l2 b0 b1 b2)) := Or.inr g1
  have hrep : RepSub (C11M.V4 be1 mom1 az1 l1 t1 a0 a1 a2 a3) (C11M.V4 be2 mom2 az2 l2 t2 b0 b1 b2 b3) := fun _ => hrep'
  have hcaus : SubCausal (C11M.V4 be1 mom1 az1 l1 t1 a0 a1 a2 a3) (C11M.V4 be2 mom2 az2 l2 t2 b0 b1 b2 b3) :=
    fun _ _ => ⟨g4.le, g3.le⟩
  obtain ⟨r, p, q, hcall, -, -, -, -, -, hp, hq, hden⟩ :=
    c11m_subtract K A (C11M.V4 be1 mom1 az1 l1 t1 a0 a1 a2 a3) (C11M.V4 be2 mom2 az2 l2 t2 b0 b1 b2 b3) ha.wf hb.wf rfl
      hTa hTb hSa hSb hCa hCb hrep hcaus
  rw [da] at hp; rw [db] at hq
  cases hp; cases hq
  refine ⟨r, hcall, ?_, hden⟩
  have he := subtract_eval4 K A be1 mom1 az1 l1 t1 be2 mom2 az2 l2 t2 a0 a1 a2 a3 b0 b1 b2 b3
  rw [hcall] at he
  have := vec_inj he
  subst this
  have hc := c13c_lorentz_subtract az1 l1 t1 az2 l2 t2 a0 a1 a2 a3 b0 b1 b2 b3 hTa hTb hS1 hS2 hT1 hT2 hrep'
    (fun e1 e2 => by subst e1; subst e2; exact g3.le)
  rw [lorentz_subtract_ret_eq] at hc
  obtain ⟨h1, h2, h3⟩ := outCanon4_parts hc
  cases t1 <;> cases t2 <;> exact good4_result h1 h2 h3 hden gr

theorem unit4_case (K : Consts ℝ) (A : Arith ℝ) {va : Vec ℝ} {pa : List ℝ} (ha : Good4 va)
    (da : denote va = some pa) (ga : Generic4 pa) (gr : Generic4 (pa.map (fun x => 1 / normL pa * x))) :
    ∃ r, call evR K A "unit" va [] = .ok (.vec r) ∧ Good4 r ∧
      denote r = some (pa.map (fun x => 1 / normL pa * x)) := by
  obtain ⟨be, mom, az, l, tm, a, b, c, d, rfl, hA, hL, hTm, hS⟩ := good4_cases ha
  have ea := denote_V4_eq da
  subst ea
  obtain ⟨g1, g2, g3, g4⟩ := (generic4_iff _ _ _ _).1 ga
  obtain ⟨hr, hc2, hT, hCL, hθ, hm⟩ := core3 hA hL hS g1 g2
  have hC := canonTmp_of_inTmp hTm
  have hlt : mag2Of az l a b c < tOf az l tm a b c d ^ 2 := g3
  have hne : tOf az l tm a b c d ^ 2 - mag2Of az l a b c ≠ 0 := ne_of_gt (sub_pos.mpr hlt)
  have hU : UnitOK (C11M.V4 be mom az l tm a b c d) := ⟨hS, hC, hne⟩
  obtain ⟨r, p, u, hcall, -, -, hp, -, hden, hu, -⟩ := c11m_unit K A (C11M.V4 be mom az l tm a b c d) ha.wf hU
  rw [da] at hp
  cases hp
  subst hu
  refine ⟨r, hcall, ?_, hden⟩
  have he := unit_eval4 K A be mom az l tm a b c d
  rw [hcall] at he
  have := vec_inj he
  subst this
  have hn : lorentz_tau2.eval az l tm a b c d ≠ 0 := by
    rw [refine_lorentz_tau2 az l tm a b c d hCL hC]; exact hne
  have hc := c13c_lorentz_unit az l tm a b c d hA hL hTm hn
  rw [lorentz_unit_ret_eq] at hc
  obtain ⟨h1, h2, h3⟩ := outCanon4_parts hc
  exact good4_result h1 h2 h3 hden gr

theorem convName4_target (az : Az) (l : Lon) (tm : Tmp) :
    C04.toTarget (convName4 az l tm) = some (az, some l, some tm) := by
  cases az <;> cases l <;> cases tm <;> decide

/-- the converted temporal coordinate is in range: `τ = sign(s)√|s| ≥ 0` for a causal vector -/
theorem convTmp_range {az0 : Az} {l0 : Lon} {t0 tm : Tmp} {a b c d : ℝ} (hCL : CanonLon az0 l0 a b c)
    (hC : CanonTmp t0 d) (hs : mag2Of az0 l0 a b c ≤ tOf az0 l0 t0 a b c d ^ 2) :
    InTmp tm (C04M.convTmp az0 l0 t0 tm a b c d) := by
  cases tm
  · trivial
  · show 0 ≤ lorentz_tau.eval az0 l0 t0 a b c d
    rw [refine_lorentz_tau az0 l0 t0 a b c d hCL hC]
    exact C04M.sign_mul_sqrt_abs_nonneg (by linarith)

theorem conv4_case (K : Consts ℝ) (A : Arith ℝ) (az : Az) (l : Lon) (tm : Tmp) {va : Vec ℝ} {pa : List ℝ}
    (ha : Good4 va) (da : denote va = some pa) (ga : Generic4 pa) :
    ∃ r, call evR K A (convName4 az l tm) va [] = .ok (.vec r) ∧ Good4 r ∧ denote r = some pa := by
  obtain ⟨be, mom, az0, l0, t0, a, b, c, d, rfl, hA, hL, hTm, hS⟩ := good4_cases ha
  have ea := denote_V4_eq da
  subst ea
  obtain ⟨g1, g2, g3, g4⟩ := (generic4_iff _ _ _ _).1 ga
  obtain ⟨hr, hc2, hT, hCL, hθ, hm⟩ := core3 hA hL hS g1 g2
  have hC := canonTmp_of_inTmp hTm
  have hlt : mag2Of az0 l0 a b c < tOf az0 l0 t0 a b c d ^ 2 := g3
  have hF : C04M.FwdOK (C11M.V4 be mom az0 l0 t0 a b c d) (some l) (some tm) := by
    show C04M.LonOK az0 l0 l a b c ∧ C04M.TmpOK az0 l0 t0 tm a b c d
    refine ⟨?_, ?_⟩
    · cases l
      · exact hT
      · exact hr
      · exact ⟨hr, hCL⟩
    · cases t0 <;> cases tm
      · trivial
      · exact ⟨hCL, le_of_lt g4, le_of_lt hlt⟩
      · exact ⟨hCL, hTm⟩
      · trivial
  obtain ⟨r, hcall, -, -, hden⟩ :=
    C04M.c04m_to_denote_name K A (convName4 az l tm) az (some l) (some tm) (convName4_target az l tm) _ ha.wf rfl rfl hF
  rw [da] at hden
  refine ⟨r, hcall, ?_, hden⟩
  have he := call_of_target K A (convName4 az l tm) az (some l) (some tm) (convName4_target az l tm)
    (C11M.V4 be mom az0 l0 t0 a b c d)
  rw [hcall, C04M.toSystem_eval4] at he
  have := vec_inj he
  subst this
  obtain ⟨h1, h2⟩ := conv_range (az := az) (l := l) hA hr hCL
  exact good4_result h1 h2 (convTmp_range hCL hC hlt.le) hden ga

/-- **main theorem, 4D** -/
theorem c01e_eval4 (K : Consts ℝ) (A : Arith ℝ) (ρ : Nat → Vec ℝ) (ρS : Nat → List ℝ)
    (hρ : ∀ i, Good4 (ρ i)) (hS : ∀ i, denote (ρ i) = some (ρS i)) (e : E4) (hg : GenericAll4 ρS e) :
    ∃ v, evalM4 K A ρ e = .ok v ∧ Good4 v ∧ denote v = some (evalS4 ρS e) := by
  induction e with
  | var i => exact ⟨ρ i, rfl, hρ i, hS i⟩
  | add a b iha ihb =>
    obtain ⟨⟨ga, gb⟩, gr⟩ := hg
    obtain ⟨va, ea, ha, da⟩ := iha ga
    obtain ⟨vb, eb, hb, db⟩ := ihb gb
    obtain ⟨r, hc, hr, hd⟩ := add4_case K A ha hb da db (genericAll4_self ga) (genericAll4_self gb) gr
    exact ⟨r, by simp only [evalM4, ea, eb, bin, hc, vecOf], hr, hd⟩
  | scale k a iha =>
    obtain ⟨ga, gr⟩ := hg
    obtain ⟨va, ea, ha, da⟩ := iha ga
    obtain ⟨r, hc, hr, hd⟩ := scale4_case K A k ha da (genericAll4_self ga) gr
    exact ⟨r, by simp only [evalM4, ea, un, hc, vecOf], hr, hd⟩
  | rotateZ ang a iha =>
    obtain ⟨ga, gr⟩ := hg
    obtain ⟨va, ea, ha, da⟩ := iha ga
    obtain ⟨r, hc, hr, hd⟩ := rotateZ4_case K A ang ha da (genericAll4_self ga) gr
    exact ⟨r, by simp only [evalM4, ea, un, hc, vecOf], hr, hd⟩
  | rotateX ang a iha =>
    obtain ⟨ga, gr⟩ := hg
    obtain ⟨va, ea, ha, da⟩ := iha ga
    obtain ⟨r, hc, hr, hd⟩ := rotateX4_case K A ang ha da (genericAll4_self ga) gr
    exact ⟨r, by simp only [evalM4, ea, un, hc, vecOf], hr, hd⟩
  | rotateY ang a iha =>
    obtain ⟨ga, gr⟩ := hg
    obtain ⟨va, ea, ha, da⟩ := iha ga
    obtain ⟨r, hc, hr, hd⟩ := rotateY4_case K A ang ha da (genericAll4_self ga) gr
    exact ⟨r, by simp only [evalM4, ea, un, hc, vecOf], hr, hd⟩
  | boostX β a iha =>
    obtain ⟨⟨ga, hβ⟩, gr⟩ := hg
    obtain ⟨va, ea, ha, da⟩ := iha ga
    obtain ⟨r, hc, hr, hd⟩ := boostX4_case K A β hβ ha da (genericAll4_self ga) gr
    exact ⟨r, by simp only [evalM4, ea, un, hc, vecOf], hr, hd⟩
  | boostY β a iha =>
    obtain ⟨⟨ga, hβ⟩, gr⟩ := hg
    obtain ⟨va, ea, ha, da⟩ := iha ga
    obtain ⟨r, hc, hr, hd⟩ := boostY4_case K A β hβ ha da (genericAll4_self ga) gr
    exact ⟨r, by simp only [evalM4, ea, un, hc, vecOf], hr, hd⟩
  | boostZ β a iha =>
    obtain ⟨⟨ga, hβ⟩, gr⟩ := hg
    obtain ⟨va, ea, ha, da⟩ := iha ga
    obtain ⟨r, hc, hr, hd⟩ := boostZ4_case K A β hβ ha da (genericAll4_self ga) gr
    exact ⟨r, by simp only [evalM4, ea, un, hc, vecOf], hr, hd⟩
  | boost_p4 a b iha ihb =>
    obtain ⟨⟨ga, gb⟩, gr⟩ := hg
    obtain ⟨va, ea, ha, da⟩ := iha ga
    obtain ⟨vb, eb, hb, db⟩ := ihb gb
    obtain ⟨r, hc, hr, hd⟩ := boost_p4_case K A ha hb da db (genericAll4_self ga) (genericAll4_self gb) gr
    exact ⟨r, by simp only [evalM4, ea, eb, bin, hc, vecOf], hr, hd⟩
  | sub a b iha ihb =>
    obtain ⟨⟨ga, gb⟩, gr⟩ := hg
    obtain ⟨va, ea, ha, da⟩ := iha ga
    obtain ⟨vb, eb, hb, db⟩ := ihb gb
    obtain ⟨r, hc, hr, hd⟩ := sub4_case K A ha hb da db (genericAll4_self ga) (genericAll4_self gb) gr
    exact ⟨r, by simp only [evalM4, ea, eb, bin, hc, vecOf], hr, hd⟩
  | unit a iha =>
    obtain ⟨ga, gr⟩ := hg
    obtain ⟨va, ea, ha, da⟩ := iha ga
    obtain ⟨r, hc, hr, hd⟩ := unit4_case K A ha da (genericAll4_self ga) gr
    exact ⟨r, by simp only [evalM4, ea, un, hc, vecOf], hr, hd⟩
  | conv az l tm a iha =>
    obtain ⟨ga, gr⟩ := hg
    obtain ⟨va, ea, ha, da⟩ := iha ga
    obtain ⟨r, hc, hr, hd⟩ := conv4_case K A az l tm ha da (genericAll4_self ga)
    exact ⟨r, by simp only [evalM4, ea, un, hc, vecOf], hr, hd⟩

theorem good4_denote {v : Vec ℝ} (h : Good4 v) : ∃ p, denote v = some p := by
  obtain ⟨be, mom, az, l, tm, a, b, c, d, rfl, -, -, -, -⟩ := good4_cases h
  exact ⟨_, rfl⟩

theorem denote_specEnv4 {ρ : Nat → Vec ℝ} (hρ : ∀ i, Good4 (ρ i)) (i : Nat) : denote (ρ i) = some (specEnv ρ i) := by
  obtain ⟨p, hp⟩ := good4_denote (hρ i)
  simp only [specEnv, hp, Option.getD_some]

/-- **C01 for 4D computations** (any of the 12 storages per variable, any flavors/backends) -/
theorem c01e_indep4 (K : Consts ℝ) (A : Arith ℝ) (ρ₁ ρ₂ : Nat → Vec ℝ)
    (h₁ : ∀ i, Good4 (ρ₁ i)) (h₂ : ∀ i, Good4 (ρ₂ i)) (hd : ∀ i, denote (ρ₁ i) = denote (ρ₂ i)) (e : E4)
    (hg : GenericAll4 (specEnv ρ₁) e) :
    ∃ v₁ v₂, evalM4 K A ρ₁ e = .ok v₁ ∧ evalM4 K A ρ₂ e = .ok v₂ ∧ denote v₁ = denote v₂ ∧
      denote v₁ = some (evalS4 (specEnv ρ₁) e) := by
  obtain ⟨v₁, e₁, -, d₁⟩ := c01e_eval4 K A ρ₁ (specEnv ρ₁) h₁ (denote_specEnv4 h₁) e hg
  obtain ⟨v₂, e₂, -, d₂⟩ :=
    c01e_eval4 K A ρ₂ (specEnv ρ₁) h₂ (fun i => by rw [← hd i]; exact denote_specEnv4 h₁ i) e hg
  exact ⟨v₁, v₂, e₁, e₂, by rw [d₁, d₂], d₁⟩

/-! ### non-vacuity, 4D: `boostX(3/5, 2·rotateZ(π, v₀) + v₁ + v₂)` over (x,y,z,t), (ρ,φ,η,τ) and (x,y,θ,t) variables -/

/-- `v₀ = (x, y, z, t) = (1, 1, 1, 3)`; `v₁ = (ρ, φ, η, τ) = (2, 0, arsinh ½, 2)`, the point `(2, 0, 1, 3)`;
`v₂ = (x, y, θ, t) = (1, 0, π/4, 5)`, the point `(1, 0, 1, 5)` -/
noncomputable def exEnv4 : Nat → Vec ℝ
  | 0 => C11M.V4 .obj false .xy .z .t 1 1 1 3
  | 1 => C11M.V4 .obj true .rhophi .eta .tau 2 0 (arsinh (1 / 2)) 2
  | _ => C11M.V4 .np true .xy .theta .t 1 0 (π / 4) 5

def exSpec4 : Nat → List ℝ
  | 0 => [1, 1, 1, 3]
  | 1 => [2, 0, 1, 3]
  | _ => [1, 0, 1, 5]

noncomputable def exE4 : E4 :=
  .boostX (3 / 5) (.add (.add (.scale 2 (.rotateZ π (.var 0))) (.var 1)) (.var 2))

theorem exEnv4_good : ∀ i, Good4 (exEnv4 i) := by
  intro i
  have hpi := pi_pos
  match i with
  | 0 => exact good4_mk _ _ _ _ _ _ _ _ _ trivial trivial trivial trivial
  | 1 =>
    exact good4_mk _ _ _ _ _ _ _ _ _ ⟨by norm_num, by linarith, by linarith⟩ trivial (show (0 : ℝ) ≤ 2 by norm_num) trivial
  | (n + 2) =>
    refine good4_mk _ _ _ _ _ _ _ _ _ trivial ⟨by positivity, by linarith⟩ trivial ?_
    show sin (π / 4) ≠ 0
    rw [sin_pi_div_four]; positivity

theorem exEnv4_denote : ∀ i, denote (exEnv4 i) = some (exSpec4 i) := by
  intro i
  match i with
  | 0 => rfl
  | 1 =>
    have h9 : sqrt ((2 : ℝ) ^ 2 + ((2 * 1) ^ 2 + (2 * 0) ^ 2 + (2 * (1 / 2)) ^ 2)) = 3 := by
      rw [show (2 : ℝ) ^ 2 + ((2 * 1) ^ 2 + (2 * 0) ^ 2 + (2 * (1 / 2)) ^ 2) = 3 ^ 2 by norm_num]
      exact sqrt_sq (by norm_num)
    simp only [exEnv4, exSpec4, denote, xOf, yOf, zOf, tOf, mag2Of, rhoOf, cos_zero, sin_zero, sinh_arsinh, h9]
    norm_num
  | (n + 2) =>
    have h1 : sqrt ((1 : ℝ) ^ 2 + 0 ^ 2) = 1 := by norm_num
    have h2 : cos (π / 4) / sin (π / 4) = 1 := by
      rw [cos_pi_div_four, sin_pi_div_four]; exact div_self (by positivity)
    simp only [exEnv4, exSpec4, denote, xOf, yOf, zOf, tOf, rhoOf, h1, h2, mul_one]

theorem gam35 : P.rpow (1 - (3 / 5 : ℝ) ^ 2) (-(0.5 : ℝ)) = 5 / 4 := by
  have h : (1 - (3 / 5 : ℝ) ^ 2) = (4 / 5 : ℝ) ^ (2 : ℝ) := by rw [Real.rpow_two]; norm_num
  show (1 - (3 / 5 : ℝ) ^ 2) ^ (-(0.5 : ℝ)) = 5 / 4
  rw [h, ← Real.rpow_mul (by norm_num)]
  norm_num [Real.rpow_neg_one]

/-- **`GenericAll4` is satisfiable** (depth 6; the boost is a genuine one, `γ = 5/4`) -/
theorem exE4_generic : GenericAll4 exSpec4 exE4 := by
  simp only [exE4, GenericAll4, evalS4, exSpec4, List.map_cons, List.map_nil, List.zipWith_cons_cons,
    List.zipWith_nil_right, onSpatial, rotZ, cos_pi, sin_pi, on4, l4, bXβ, lorentz_boostX_beta.eval,
    lorentz_boostX_beta.xy_z_t, gam35, generic4_iff]
  norm_num [abs_lt]

example (K : Consts ℝ) (A : Arith ℝ) :
    ∃ v, evalM4 K A exEnv4 exE4 = .ok v ∧ Good4 v ∧ denote v = some (evalS4 exSpec4 exE4) :=
  c01e_eval4 K A exEnv4 exSpec4 exEnv4_good exEnv4_denote exE4 exE4_generic

/-! ### scalar expressions over 4D vectors -/

/-- properties of one 4D vector: the planar / spatial ones of its spatial part, and the temporal ones -/
inductive UnS4
  | sp (f : UnS)
  | t | t2 | tau | tau2 | beta | gamma | rapidity

def UnS4.name : UnS4 → String
  | .sp f => f.name
  | .t => "t" | .t2 => "t2" | .tau => "tau" | .tau2 => "tau2" | .beta => "beta" | .gamma => "gamma"
  | .rapidity => "rapidity"

inductive S4 : Type
  | un (f : UnS4) (a : E4)
  | bi (f : BinS) (a b : E4)

noncomputable def evalMS4 (K : Consts ℝ) (A : Arith ℝ) (ρ : Nat → Vec ℝ) : S4 → Except Err (Res ℝ Prop)
  | .un f a => unS (evalM4 K A ρ a) fun va => call evR K A f.name va []
  | .bi f a b => binS (evalM4 K A ρ a) (evalM4 K A ρ b) fun va vb => call evR K A f.name va [.v vb]

/-- specification on `(x, y, z, t)`; for the (forward time-like) generic vectors `τ = √(t² − |p|²)` -/
noncomputable def uspec4 : UnS4 → ℝ → ℝ → ℝ → ℝ → ℝ
  | .sp f, x, y, z, _ => uspec f x y z
  | .t, _, _, _, t => t
  | .t2, _, _, _, t => t ^ 2
  | .tau, x, y, z, t => sqrt (t ^ 2 - (x ^ 2 + y ^ 2 + z ^ 2))
  | .tau2, x, y, z, t => t ^ 2 - (x ^ 2 + y ^ 2 + z ^ 2)
  | .beta, x, y, z, t => sqrt (x ^ 2 + y ^ 2 + z ^ 2) / t
  | .gamma, x, y, z, t => t / sqrt (t ^ 2 - (x ^ 2 + y ^ 2 + z ^ 2))
  | .rapidity, _, _, z, t => 1 / 2 * Real.log ((t + z) / (t - z))

/-- `dot` is the Minkowski product; the angular methods act on the spatial parts -/
noncomputable def bspec4 : BinS → ℝ → ℝ → ℝ → ℝ → ℝ → ℝ → ℝ → ℝ → ℝ
  | .dot, x₁, y₁, z₁, t₁, x₂, y₂, z₂, t₂ => t₁ * t₂ - x₁ * x₂ - y₁ * y₂ - z₁ * z₂
  | .deltaphi, x₁, y₁, z₁, _, x₂, y₂, z₂, _ => bspec .deltaphi x₁ y₁ z₁ x₂ y₂ z₂
  | .deltaeta, x₁, y₁, z₁, _, x₂, y₂, z₂, _ => bspec .deltaeta x₁ y₁ z₁ x₂ y₂ z₂
  | .deltaR2, x₁, y₁, z₁, _, x₂, y₂, z₂, _ => bspec .deltaR2 x₁ y₁ z₁ x₂ y₂ z₂
  | .deltaR, x₁, y₁, z₁, _, x₂, y₂, z₂, _ => bspec .deltaR x₁ y₁ z₁ x₂ y₂ z₂
  | .deltaangle, x₁, y₁, z₁, _, x₂, y₂, z₂, _ => bspec .deltaangle x₁ y₁ z₁ x₂ y₂ z₂

noncomputable def on4s (f : ℝ → ℝ → ℝ → ℝ → ℝ) : List ℝ → ℝ
  | [x, y, z, t] => f x y z t
  | _ => 0

noncomputable def on44 (f : ℝ → ℝ → ℝ → ℝ → ℝ → ℝ → ℝ → ℝ → ℝ) : List ℝ → List ℝ → ℝ
  | [x₁, y₁, z₁, t₁], [x₂, y₂, z₂, t₂] => f x₁ y₁ z₁ t₁ x₂ y₂ z₂ t₂
  | _, _ => 0

noncomputable def evalSS4 (ρS : Nat → List ℝ) : S4 → ℝ
  | .un f a => on4s (uspec4 f) (evalS4 ρS a)
  | .bi f a b => on44 (bspec4 f) (evalS4 ρS a) (evalS4 ρS b)

def PhiOK4 : List ℝ → Prop
  | [x, y, _, _] => ¬ (y = 0 ∧ x < 0)
  | _ => True

def GenericS4 (ρS : Nat → List ℝ) : S4 → Prop
  | .un f a => GenericAll4 ρS a ∧ (f = .sp .phi → PhiOK4 (evalS4 ρS a))
  | .bi _ a b => GenericAll4 ρS a ∧ GenericAll4 ρS b

/-- the storage facts of a good 4D vector with a generic denotation, in the `Stored3` and `Stored4` forms -/
theorem facts4 {v : Vec ℝ} {x y z t : ℝ} (hv : Good4 v) (hd : denote v = some [x, y, z, t])
    (hg : Generic4 [x, y, z, t]) :
    Stored3 (fun k l a b c => 0 < rhoOf k a b ∧ Canon3 k l a b c ∧ TanOK l c ∧ SinOK l c ∧ 0 < mag2Of k l a b c) v ∧
    Stored4 (fun k l tm a b c d => Canon3 k l a b c ∧ TanOK l c ∧ SinOK l c ∧ CanonTmp tm d) v := by
  obtain ⟨be, mom, az, l, tm, a, b, c, d, rfl, hA, hL, hTm, hS⟩ := good4_cases hv
  have e := denote_V4_eq hd
  simp only [List.cons.injEq, and_true] at e
  obtain ⟨rfl, rfl, rfl, rfl⟩ := e
  obtain ⟨g1, g2, -, -⟩ := (generic4_iff _ _ _ _).1 hg
  obtain ⟨hr, hc2, hT, hCL, hθ, hm⟩ := core3 hA hL hS g1 g2
  exact ⟨⟨hr, ⟨hc2, hCL⟩, hT, hS, hm⟩, ⟨hc2, hCL⟩, hT, hS, canonTmp_of_inTmp hTm⟩

theorem un4_case (K : Consts ℝ) (A : Arith ℝ) (f : UnS4) {va : Vec ℝ} {x y z t : ℝ} (ha : Good4 va)
    (da : denote va = some [x, y, z, t]) (ga : Generic4 [x, y, z, t]) (hphi : f = .sp .phi → ¬ (y = 0 ∧ x < 0)) :
    call evR K A f.name va [] = .ok (.scalar (uspec4 f x y z t)) := by
  obtain ⟨⟨hr, hC3, hT', hS, hm⟩, hC3', hT4, hS4, hCt⟩ := facts4 ha da ga
  obtain ⟨g1, g2, g3, g4⟩ := (generic4_iff _ _ _ _).1 ga
  have hs : 0 < t ^ 2 - (x ^ 2 + y ^ 2 + z ^ 2) := sub_pos.mpr g3
  cases f with
  | sp f =>
    cases f
    · exact c01m_acc_x K A va ha.wf x y [z, t] da
    · exact c01m_acc_y K A va ha.wf x y [z, t] da
    · exact c01m_acc_z K A va ha.wf hT' x y z [t] da
    · exact c01m_acc_rho K A va ha.wf hC3.1 x y [z, t] da
    · exact c01m_acc_rho2 K A va ha.wf x y [z, t] da
    · refine c01m_acc_phi K A va ha.wf ⟨hr, ?_⟩ x y [z, t] da
      obtain ⟨be, mom, az, l, tm, a, b, c, d, rfl, hA, hL, hTm, hS⟩ := good4_cases ha
      have e := denote_V4_eq da
      simp only [List.cons.injEq, and_true] at e
      obtain ⟨rfl, rfl, rfl, rfl⟩ := e
      exact canonPhi_of hA hr (hphi rfl)
    · exact c01m_acc_eta K A va ha.wf ⟨hr, hC3.2⟩ x y z [t] da
    · exact c01m_acc_theta K A va ha.wf ⟨hC3, hm⟩ x y z [t] da
    · exact c01m_acc_costheta K A va ha.wf ⟨hC3, hm⟩ x y z [t] da
    · exact c01m_acc_cottheta K A va ha.wf ⟨hr, hT'⟩ x y z [t] da
    · exact c01m_acc_mag K A va ha.wf ⟨hC3.1, hS⟩ x y z [t] da
    · exact c01m_acc_mag2 K A va ha.wf hS x y z [t] da
  | t => exact c09m_acc_t K A va ha.wf ⟨hS4, hCt⟩ x y z t da
  | t2 => exact c09m_acc_t2 K A va ha.wf ⟨hC3'.2, hCt⟩ x y z t da
  | tau => exact c09m_acc_tau_timelike K A va ha.wf ⟨hC3'.2, hCt⟩ x y z t da hs
  | tau2 => exact c09m_acc_tau2 K A va ha.wf ⟨hC3'.2, hCt⟩ x y z t da
  | beta => exact c09m_acc_beta K A va ha.wf ⟨hC3', hCt⟩ x y z t da g4.ne'
  | gamma => exact c09m_acc_gamma K A va ha.wf ⟨hC3'.2, hCt⟩ x y z t da hs
  | rapidity =>
    refine c09m_acc_rapidity K A va ha.wf ⟨hC3'.2, hT4, hCt⟩ x y z t da ?_
    rw [abs_lt]
    constructor <;> nlinarith [sq_nonneg x, sq_nonneg y, sq_nonneg (t + z), sq_nonneg (t - z)]

theorem bi4_case (K : Consts ℝ) (A : Arith ℝ) (f : BinS) {va vb : Vec ℝ} {x₁ y₁ z₁ t₁ x₂ y₂ z₂ t₂ : ℝ} (ha : Good4 va)
    (hb : Good4 vb) (da : denote va = some [x₁, y₁, z₁, t₁]) (db : denote vb = some [x₂, y₂, z₂, t₂])
    (ga : Generic4 [x₁, y₁, z₁, t₁]) (gb : Generic4 [x₂, y₂, z₂, t₂]) :
    call evR K A f.name va [.v vb] = .ok (.scalar (bspec4 f x₁ y₁ z₁ t₁ x₂ y₂ z₂ t₂)) := by
  obtain ⟨hTa, hSa, hCa, -, -, -⟩ := generic_storage_ok4 ha da ga
  obtain ⟨hTb, hSb, hCb, -, -, -⟩ := generic_storage_ok4 hb db gb
  obtain ⟨⟨hra, hC3a, hTa', hSa', hma⟩, -⟩ := facts4 ha da ga
  obtain ⟨⟨hrb, hC3b, hTb', hSb', hmb⟩, -⟩ := facts4 hb db gb
  cases f
  · obtain ⟨p, q, hp, hq, hcall⟩ :=
      c11m_dot K A va vb ha.wf hb.wf (by rw [ha.dim, hb.dim]) hTa hTb hSa hSb hCa hCb
    rw [da] at hp; rw [db] at hq
    cases hp; cases hq
    exact hcall
  · show call evR K A "deltaphi" va [.v vb] = _
    rw [C04M.deltaphi_eval K A va vb ha.wf hb.wf, refine_spatial_deltaphi_key _ _ _ _ _ _ hra hrb,
      ← (denote_planar ha.wf da).1, ← (denote_planar ha.wf da).2, ← (denote_planar hb.wf db).1,
      ← (denote_planar hb.wf db).2]
    rfl
  · exact C04M.c04m_deltaeta K A va vb ha.wf hb.wf ⟨hra, hC3a.2⟩ ⟨hrb, hC3b.2⟩ _ _ _ _ _ _ [t₁] [t₂] da db
  · exact C04M.c04m_deltaR2 K A va vb ha.wf hb.wf ⟨hra, hC3a.2⟩ ⟨hrb, hC3b.2⟩ _ _ _ _ _ _ [t₁] [t₂] da db
  · exact C04M.c04m_deltaR K A va vb ha.wf hb.wf ⟨hra, hC3a.2⟩ ⟨hrb, hC3b.2⟩ _ _ _ _ _ _ [t₁] [t₂] da db
  · exact C04M.c04m_deltaangle K A va vb ha.wf hb.wf ⟨hC3a.1, hTa', hSa'⟩ ⟨hC3b.1, hTb', hSb'⟩ _ _ _ _ _ _ [t₁] [t₂]
      da db

/-- **scalar expressions over 4D vectors**: the model returns the specified scalar -/
theorem c01e_evalS4 (K : Consts ℝ) (A : Arith ℝ) (ρ : Nat → Vec ℝ) (ρS : Nat → List ℝ)
    (hρ : ∀ i, Good4 (ρ i)) (hS : ∀ i, denote (ρ i) = some (ρS i)) (s : S4) (hg : GenericS4 ρS s) :
    evalMS4 K A ρ s = .ok (.scalar (evalSS4 ρS s)) := by
  cases s with
  | un f a =>
    obtain ⟨ga, hphi⟩ := hg
    obtain ⟨va, ea, ha, da⟩ := c01e_eval4 K A ρ ρS hρ hS a ga
    have g := genericAll4_self ga
    obtain ⟨x, y, z, t, e, -⟩ := id g
    rw [e] at da g hphi
    simp only [evalMS4, evalSS4, ea, unS, e, on4s]
    exact un4_case K A f ha da g hphi
  | bi f a b =>
    obtain ⟨ga, gb⟩ := hg
    obtain ⟨va, ea, ha, da⟩ := c01e_eval4 K A ρ ρS hρ hS a ga
    obtain ⟨vb, eb, hb, db⟩ := c01e_eval4 K A ρ ρS hρ hS b gb
    have g₁ := genericAll4_self ga
    have g₂ := genericAll4_self gb
    obtain ⟨x₁, y₁, z₁, t₁, e₁, -⟩ := id g₁
    obtain ⟨x₂, y₂, z₂, t₂, e₂, -⟩ := id g₂
    rw [e₁] at da g₁
    rw [e₂] at db g₂
    simp only [evalMS4, evalSS4, ea, eb, binS, e₁, e₂, on44]
    exact bi4_case K A f ha hb da db g₁ g₂

/-- **C01 for scalar expressions over 4D vectors** -/
theorem c01e_indepS4 (K : Consts ℝ) (A : Arith ℝ) (ρ₁ ρ₂ : Nat → Vec ℝ)
    (h₁ : ∀ i, Good4 (ρ₁ i)) (h₂ : ∀ i, Good4 (ρ₂ i)) (hd : ∀ i, denote (ρ₁ i) = denote (ρ₂ i)) (s : S4)
    (hg : GenericS4 (specEnv ρ₁) s) :
    evalMS4 K A ρ₁ s = evalMS4 K A ρ₂ s ∧ evalMS4 K A ρ₁ s = .ok (.scalar (evalSS4 (specEnv ρ₁) s)) := by
  have e₁ := c01e_evalS4 K A ρ₁ (specEnv ρ₁) h₁ (denote_specEnv4 h₁) s hg
  have e₂ := c01e_evalS4 K A ρ₂ (specEnv ρ₁) h₂ (fun i => by rw [← hd i]; exact denote_specEnv4 h₁ i) s hg
  exact ⟨by rw [e₁, e₂], e₁⟩

/-! ## 14. ONE language for all dimensions, with the dimension-changing nodes

`to_Vector2D`, `to_Vector3D` (projection), `to_Vector3D(z= / theta= / eta=)`, `to_Vector4D(t= / tau=)` (embeddings) and
`boost_beta3` (4D by a 3D velocity) join the three languages above.  The model and the specification are both
dimension-agnostic; well-dimensionedness of an expression is part of `GenericAllU` (a condition on the LENGTHS of the
specified values). -/

inductive E : Type
  | var (i : Nat)
  | add (a b : E)
  | sub (a b : E)
  | scale (k : ℝ) (a : E)
  | unit (a : E)
  | rotateZ (ang : ℝ) (a : E)
  | rotateX (ang : ℝ) (a : E)
  | rotateY (ang : ℝ) (a : E)
  | cross (a b : E)
  | boostX (β : ℝ) (a : E)
  | boostY (β : ℝ) (a : E)
  | boostZ (β : ℝ) (a : E)
  | boost_p4 (a b : E)
  | boost_beta3 (a b : E)
  | conv2 (az : Az) (a : E)
  | conv3 (az : Az) (lon : Lon) (a : E)
  | conv4 (az : Az) (lon : Lon) (tmp : Tmp) (a : E)
  | to2D (a : E)                          -- `to_Vector2D()`
  | to3D (a : E)                          -- `to_Vector3D()` of a 3D / 4D vector
  | to3D_kw (l : Lon) (s : ℝ) (a : E)     -- `to_Vector3D(z=s)` / `(theta=s)` / `(eta=s)` of a 2D vector
  | to4D_kw (tm : Tmp) (s : ℝ) (a : E)    -- `to_Vector4D(t=s)` / `(tau=s)` of a 3D vector

def lonKw : Lon → String | .z => "z" | .theta => "theta" | .eta => "eta"
def tmpKw : Tmp → String | .t => "t" | .tau => "tau"

noncomputable def evalMU (K : Consts ℝ) (A : Arith ℝ) (ρ : Nat → Vec ℝ) : E → Except Err (Vec ℝ)
  | .var i => .ok (ρ i)
  | .add a b => bin (evalMU K A ρ a) (evalMU K A ρ b) fun va vb => call evR K A "add" va [.v vb]
  | .sub a b => bin (evalMU K A ρ a) (evalMU K A ρ b) fun va vb => call evR K A "subtract" va [.v vb]
  | .scale k a => un (evalMU K A ρ a) fun va => call evR K A "scale" va [.sc k]
  | .unit a => un (evalMU K A ρ a) fun va => call evR K A "unit" va []
  | .rotateZ ang a => un (evalMU K A ρ a) fun va => call evR K A "rotateZ" va [.sc ang]
  | .rotateX ang a => un (evalMU K A ρ a) fun va => call evR K A "rotateX" va [.sc ang]
  | .rotateY ang a => un (evalMU K A ρ a) fun va => call evR K A "rotateY" va [.sc ang]
  | .cross a b => bin (evalMU K A ρ a) (evalMU K A ρ b) fun va vb => call evR K A "cross" va [.v vb]
  | .boostX β a => un (evalMU K A ρ a) fun va => call evR K A "boostX" va [.kw "beta" β]
  | .boostY β a => un (evalMU K A ρ a) fun va => call evR K A "boostY" va [.kw "beta" β]
  | .boostZ β a => un (evalMU K A ρ a) fun va => call evR K A "boostZ" va [.kw "beta" β]
  | .boost_p4 a b => bin (evalMU K A ρ a) (evalMU K A ρ b) fun va vb => call evR K A "boost_p4" va [.v vb]
  | .boost_beta3 a b => bin (evalMU K A ρ a) (evalMU K A ρ b) fun va vb => call evR K A "boost_beta3" va [.v vb]
  | .conv2 az a => un (evalMU K A ρ a) fun va => call evR K A (convName2 az) va []
  | .conv3 az l a => un (evalMU K A ρ a) fun va => call evR K A (convName az l) va []
  | .conv4 az l tm a => un (evalMU K A ρ a) fun va => call evR K A (convName4 az l tm) va []
  | .to2D a => un (evalMU K A ρ a) fun va => call evR K A "to_Vector2D" va []
  | .to3D a => un (evalMU K A ρ a) fun va => call evR K A "to_Vector3D" va []
  | .to3D_kw l s a => un (evalMU K A ρ a) fun va => call evR K A "to_Vector3D" va [.kw (lonKw l) s]
  | .to4D_kw tm s a => un (evalMU K A ρ a) fun va => call evR K A "to_Vector4D" va [.kw (tmpKw tm) s]

/-- `boost_beta3` on component lists: the Cartesian kernel `bβ3` of Props/C09 -/
noncomputable def bβ3L : List ℝ → List ℝ → List ℝ
  | [x, y, z, t], [bx, by', bz] => l4 (bβ3 (x, y, z, t) (bx, by', bz))
  | p, _ => p

/-- the `z` a longitudinal keyword value denotes, given the transverse length -/
noncomputable def zKw : Lon → ℝ → ℝ → ℝ
  | .z, _, s => s
  | .theta, r, s => r * (cos s / sin s)
  | .eta, r, s => r * sinh s

/-- the `t` a temporal keyword value denotes, given `|p|²` -/
noncomputable def tKw : Tmp → ℝ → ℝ → ℝ
  | .t, _, s => s
  | .tau, m, s => sqrt (s ^ 2 + m)

noncomputable def embL (l : Lon) (s : ℝ) : List ℝ → List ℝ
  | [x, y] => [x, y, zKw l (sqrt (x ^ 2 + y ^ 2)) s]
  | p => p

noncomputable def embT (tm : Tmp) (s : ℝ) : List ℝ → List ℝ
  | [x, y, z] => [x, y, z, tKw tm (x ^ 2 + y ^ 2 + z ^ 2) s]
  | p => p

noncomputable def evalSU (ρS : Nat → List ℝ) : E → List ℝ
  | .var i => ρS i
  | .add a b => List.zipWith (· + ·) (evalSU ρS a) (evalSU ρS b)
  | .sub a b => List.zipWith (· - ·) (evalSU ρS a) (evalSU ρS b)
  | .scale k a => (evalSU ρS a).map (k * ·)
  | .unit a => (evalSU ρS a).map (fun x => 1 / normL (evalSU ρS a) * x)
  | .rotateZ ang a => onPlanar (rotZ2 ang) (evalSU ρS a)
  | .rotateX ang a => onSpatial (rotX ang) (evalSU ρS a)
  | .rotateY ang a => onSpatial (rotY ang) (evalSU ρS a)
  | .cross a b => crossL (evalSU ρS a) (evalSU ρS b)
  | .boostX β a => on4 (bXβ β) (evalSU ρS a)
  | .boostY β a => on4 (bYβ β) (evalSU ρS a)
  | .boostZ β a => on4 (bZβ β) (evalSU ρS a)
  | .boost_p4 a b => bp4L (evalSU ρS a) (evalSU ρS b)
  | .boost_beta3 a b => bβ3L (evalSU ρS a) (evalSU ρS b)
  | .conv2 _ a => evalSU ρS a
  | .conv3 _ _ a => evalSU ρS a
  | .conv4 _ _ _ a => evalSU ρS a
  | .to2D a => (evalSU ρS a).take 2
  | .to3D a => (evalSU ρS a).take 3
  | .to3D_kw l s a => embL l s (evalSU ρS a)
  | .to4D_kw tm s a => embT tm s (evalSU ρS a)

/-- generic in its own dimension (the dimension is the length of the component list) -/
def Generic (p : List ℝ) : Prop := Generic2 p ∨ Generic3 p ∨ Generic4 p

/-- a longitudinal keyword value in range: `0 < θ < π` -/
def LonParamOK : Lon → ℝ → Prop
  | .theta, s => 0 < s ∧ s < π
  | _, _ => True

/-- a temporal keyword value in range: `0 ≤ τ` -/
def TmpParamOK : Tmp → ℝ → Prop
  | .tau, s => 0 ≤ s
  | _, _ => True

/-- subluminal velocity -/
def SubLum : List ℝ → Prop
  | [bx, by', bz] => bx ^ 2 + by' ^ 2 + bz ^ 2 < 1
  | _ => False

/-- every subexpression's specified value is generic in its dimension, the expression is well-dimensioned (conditions on
the lengths of the specified values), and the parameters are in range (`|β| < 1`, `0 < θ < π`, `0 ≤ τ`, `|β⃗| < 1`) -/
def GenericAllU (ρS : Nat → List ℝ) : E → Prop
  | .var i => Generic (ρS i)
  | .add a b => (GenericAllU ρS a ∧ GenericAllU ρS b) ∧ (evalSU ρS a).length = (evalSU ρS b).length ∧
      Generic (evalSU ρS (.add a b))
  | .sub a b => (GenericAllU ρS a ∧ GenericAllU ρS b) ∧ (evalSU ρS a).length = (evalSU ρS b).length ∧
      Generic (evalSU ρS (.sub a b))
  | .scale k a => GenericAllU ρS a ∧ True ∧ Generic (evalSU ρS (.scale k a))
  | .unit a => GenericAllU ρS a ∧ True ∧ Generic (evalSU ρS (.unit a))
  | .rotateZ ang a => GenericAllU ρS a ∧ True ∧ Generic (evalSU ρS (.rotateZ ang a))
  | .rotateX ang a => GenericAllU ρS a ∧ 3 ≤ (evalSU ρS a).length ∧ Generic (evalSU ρS (.rotateX ang a))
  | .rotateY ang a => GenericAllU ρS a ∧ 3 ≤ (evalSU ρS a).length ∧ Generic (evalSU ρS (.rotateY ang a))
  | .cross a b => (GenericAllU ρS a ∧ GenericAllU ρS b) ∧
      ((evalSU ρS a).length = 3 ∧ (evalSU ρS b).length = 3) ∧ Generic (evalSU ρS (.cross a b))
  | .boostX β a => GenericAllU ρS a ∧ ((evalSU ρS a).length = 4 ∧ |β| < 1) ∧ Generic (evalSU ρS (.boostX β a))
  | .boostY β a => GenericAllU ρS a ∧ ((evalSU ρS a).length = 4 ∧ |β| < 1) ∧ Generic (evalSU ρS (.boostY β a))
  | .boostZ β a => GenericAllU ρS a ∧ ((evalSU ρS a).length = 4 ∧ |β| < 1) ∧ Generic (evalSU ρS (.boostZ β a))
  | .boost_p4 a b => (GenericAllU ρS a ∧ GenericAllU ρS b) ∧
      ((evalSU ρS a).length = 4 ∧ (evalSU ρS b).length = 4) ∧ Generic (evalSU ρS (.boost_p4 a b))
  | .boost_beta3 a b => (GenericAllU ρS a ∧ GenericAllU ρS b) ∧
      ((evalSU ρS a).length = 4 ∧ SubLum (evalSU ρS b)) ∧ Generic (evalSU ρS (.boost_beta3 a b))
  | .conv2 az a => GenericAllU ρS a ∧ (evalSU ρS a).length = 2 ∧ Generic (evalSU ρS (.conv2 az a))
  | .conv3 az l a => GenericAllU ρS a ∧ (evalSU ρS a).length = 3 ∧ Generic (evalSU ρS (.conv3 az l a))
  | .conv4 az l tm a => GenericAllU ρS a ∧ (evalSU ρS a).length = 4 ∧ Generic (evalSU ρS (.conv4 az l tm a))
  | .to2D a => GenericAllU ρS a ∧ True ∧ Generic (evalSU ρS (.to2D a))
  | .to3D a => GenericAllU ρS a ∧ 3 ≤ (evalSU ρS a).length ∧ Generic (evalSU ρS (.to3D a))
  | .to3D_kw l s a => GenericAllU ρS a ∧ ((evalSU ρS a).length = 2 ∧ LonParamOK l s) ∧
      Generic (evalSU ρS (.to3D_kw l s a))
  | .to4D_kw tm s a => GenericAllU ρS a ∧ ((evalSU ρS a).length = 3 ∧ TmpParamOK tm s) ∧
      Generic (evalSU ρS (.to4D_kw tm s a))

theorem genericAllU_self {ρS : Nat → List ℝ} {e : E} (h : GenericAllU ρS e) : Generic (evalSU ρS e) := by
  cases e <;> first | exact h | exact h.2.2

/-- the dimension-free invariant -/
def Good (v : Vec ℝ) : Prop := C01M.WFV v ∧ StoredInRange v ∧ SinOKAll v

theorem generic_length {p : List ℝ} (h : Generic p) : p.length = 2 ∨ p.length = 3 ∨ p.length = 4 := by
  rcases h with ⟨x, y, rfl, _⟩ | ⟨x, y, z, rfl, _⟩ | ⟨x, y, z, t, rfl, _⟩
  · exact Or.inl rfl
  · exact Or.inr (Or.inl rfl)
  · exact Or.inr (Or.inr rfl)

theorem generic_len2 {p : List ℝ} (h : Generic p) (hl : p.length = 2) : Generic2 p := by
  rcases h with h | ⟨x, y, z, rfl, _⟩ | ⟨x, y, z, t, rfl, _⟩
  · exact h
  · simp at hl
  · simp at hl

theorem generic_len3 {p : List ℝ} (h : Generic p) (hl : p.length = 3) : Generic3 p := by
  rcases h with ⟨x, y, rfl, _⟩ | h | ⟨x, y, z, t, rfl, _⟩
  · simp at hl
  · exact h
  · simp at hl

theorem generic_len4 {p : List ℝ} (h : Generic p) (hl : p.length = 4) : Generic4 p := by
  rcases h with ⟨x, y, rfl, _⟩ | ⟨x, y, z, rfl, _⟩ | h
  · simp at hl
  · simp at hl
  · exact h

theorem dim_of_denote {v : Vec ℝ} {p : List ℝ} (hv : C01M.WFV v) (hd : denote v = some p) : v.ty.dim = p.length := by
  rcases wfv_cases hv with ⟨be, mom, az, a, b, rfl⟩ | ⟨be, mom, az, l, a, b, c, rfl⟩ |
    ⟨be, mom, az, l, t, a, b, c, d, rfl⟩
  · rw [denote_V2_eq hd]; rfl
  · rw [denote_V3_eq hd]; rfl
  · rw [denote_V4_eq hd]; rfl

theorem good_to2 {v : Vec ℝ} {p : List ℝ} (h : Good v) (hd : denote v = some p) (hl : p.length = 2) : Good2 v :=
  ⟨h.1, by rw [dim_of_denote h.1 hd, hl], h.2.1⟩
theorem good_to3 {v : Vec ℝ} {p : List ℝ} (h : Good v) (hd : denote v = some p) (hl : p.length = 3) : Good3 v :=
  ⟨h.1, by rw [dim_of_denote h.1 hd, hl], h.2.1, h.2.2⟩
theorem good_to4 {v : Vec ℝ} {p : List ℝ} (h : Good v) (hd : denote v = some p) (hl : p.length = 4) : Good4 v :=
  ⟨h.1, by rw [dim_of_denote h.1 hd, hl], h.2.1, h.2.2⟩

theorem good_of2 {v : Vec ℝ} (h : Good2 v) : Good v := by
  obtain ⟨be, mom, az, a, b, rfl, -⟩ := good2_cases h
  exact ⟨h.wf, h.rng, trivial⟩
theorem good_of3 {v : Vec ℝ} (h : Good3 v) : Good v := ⟨h.wf, h.rng, h.sin⟩
theorem good_of4 {v : Vec ℝ} (h : Good4 v) : Good v := ⟨h.wf, h.rng, h.sin⟩

theorem onPlanar_length (f : ℝ × ℝ → ℝ × ℝ) : ∀ p : List ℝ, (onPlanar f p).length = p.length
  | [] => rfl
  | [_] => rfl
  | _ :: _ :: _ => rfl

theorem onSpatial_length (f : ℝ × ℝ × ℝ → ℝ × ℝ × ℝ) : ∀ p : List ℝ, (onSpatial f p).length = p.length
  | [] => rfl
  | [_] => rfl
  | [_, _] => rfl
  | _ :: _ :: _ :: _ => rfl

theorem on4_length (f : ℝ × ℝ × ℝ × ℝ → ℝ × ℝ × ℝ × ℝ) : ∀ p : List ℝ, (on4 f p).length = p.length
  | [] => rfl
  | [_] => rfl
  | [_, _] => rfl
  | [_, _, _] => rfl
  | [_, _, _, _] => rfl
  | _ :: _ :: _ :: _ :: _ :: _ => rfl

/-- lifting the per-dimension lemmas of a dimension-preserving unary node -/
theorem un_lift (C : Vec ℝ → Except Err (Res ℝ Prop)) (F : List ℝ → List ℝ) {va : Vec ℝ} {pa : List ℝ}
    (hlen : (F pa).length = pa.length)
    (h2 : Good2 va → Generic2 pa → Generic2 (F pa) → ∃ r, C va = .ok (.vec r) ∧ Good2 r ∧ denote r = some (F pa))
    (h3 : Good3 va → Generic3 pa → Generic3 (F pa) → ∃ r, C va = .ok (.vec r) ∧ Good3 r ∧ denote r = some (F pa))
    (h4 : Good4 va → Generic4 pa → Generic4 (F pa) → ∃ r, C va = .ok (.vec r) ∧ Good4 r ∧ denote r = some (F pa))
    (ha : Good va) (da : denote va = some pa) (ga : Generic pa) (gr : Generic (F pa)) :
    ∃ r, C va = .ok (.vec r) ∧ Good r ∧ denote r = some (F pa) := by
  rcases generic_length ga with hl | hl | hl
  · obtain ⟨r, h1, hg, hd⟩ := h2 (good_to2 ha da hl) (generic_len2 ga hl) (generic_len2 gr (by rw [hlen, hl]))
    exact ⟨r, h1, good_of2 hg, hd⟩
  · obtain ⟨r, h1, hg, hd⟩ := h3 (good_to3 ha da hl) (generic_len3 ga hl) (generic_len3 gr (by rw [hlen, hl]))
    exact ⟨r, h1, good_of3 hg, hd⟩
  · obtain ⟨r, h1, hg, hd⟩ := h4 (good_to4 ha da hl) (generic_len4 ga hl) (generic_len4 gr (by rw [hlen, hl]))
    exact ⟨r, h1, good_of4 hg, hd⟩

/-- the same for a binary node on operands of equal dimension -/
theorem bin_lift (C : Vec ℝ → Vec ℝ → Except Err (Res ℝ Prop)) (F : List ℝ → List ℝ → List ℝ) {va vb : Vec ℝ}
    {pa pb : List ℝ} (hl : pa.length = pb.length) (hlen : (F pa pb).length = pa.length)
    (h2 : Good2 va → Good2 vb → Generic2 pa → Generic2 pb → Generic2 (F pa pb) →
      ∃ r, C va vb = .ok (.vec r) ∧ Good2 r ∧ denote r = some (F pa pb))
    (h3 : Good3 va → Good3 vb → Generic3 pa → Generic3 pb → Generic3 (F pa pb) →
      ∃ r, C va vb = .ok (.vec r) ∧ Good3 r ∧ denote r = some (F pa pb))
    (h4 : Good4 va → Good4 vb → Generic4 pa → Generic4 pb → Generic4 (F pa pb) →
      ∃ r, C va vb = .ok (.vec r) ∧ Good4 r ∧ denote r = some (F pa pb))
    (ha : Good va) (hb : Good vb) (da : denote va = some pa) (db : denote vb = some pb) (ga : Generic pa)
    (gb : Generic pb) (gr : Generic (F pa pb)) :
    ∃ r, C va vb = .ok (.vec r) ∧ Good r ∧ denote r = some (F pa pb) := by
  rcases generic_length ga with hla | hla | hla
  · have hlb : pb.length = 2 := by rw [← hl, hla]
    obtain ⟨r, h1, hg, hd⟩ := h2 (good_to2 ha da hla) (good_to2 hb db hlb) (generic_len2 ga hla) (generic_len2 gb hlb)
      (generic_len2 gr (by rw [hlen, hla]))
    exact ⟨r, h1, good_of2 hg, hd⟩
  · have hlb : pb.length = 3 := by rw [← hl, hla]
    obtain ⟨r, h1, hg, hd⟩ := h3 (good_to3 ha da hla) (good_to3 hb db hlb) (generic_len3 ga hla) (generic_len3 gb hlb)
      (generic_len3 gr (by rw [hlen, hla]))
    exact ⟨r, h1, good_of3 hg, hd⟩
  · have hlb : pb.length = 4 := by rw [← hl, hla]
    obtain ⟨r, h1, hg, hd⟩ := h4 (good_to4 ha da hla) (good_to4 hb db hlb) (generic_len4 ga hla) (generic_len4 gb hlb)
      (generic_len4 gr (by rw [hlen, hla]))
    exact ⟨r, h1, good_of4 hg, hd⟩

theorem un_ok {x : Except Err (Vec ℝ)} {f : Vec ℝ → Except Err (Res ℝ Prop)} {v r : Vec ℝ} (ea : x = .ok v)
    (hc : f v = .ok (.vec r)) : un x f = .ok r := by
  rw [ea]; simp only [un, hc, vecOf]

theorem bin_ok {x y : Except Err (Vec ℝ)} {f : Vec ℝ → Vec ℝ → Except Err (Res ℝ Prop)} {v w r : Vec ℝ}
    (ea : x = .ok v) (eb : y = .ok w) (hc : f v w = .ok (.vec r)) : bin x y f = .ok r := by
  rw [ea, eb]; simp only [bin, hc, vecOf]

/-! #### the dimension-changing nodes -/

theorem boost_beta3_case (K : Consts ℝ) (A : Arith ℝ) {va vb : Vec ℝ} {pa pb : List ℝ} (ha : Good4 va) (hb : Good3 vb)
    (da : denote va = some pa) (db : denote vb = some pb) (ga : Generic4 pa) (gb : Generic3 pb) (hsub : SubLum pb)
    (gr : Generic4 (bβ3L pa pb)) :
    ∃ r, call evR K A "boost_beta3" va [.v vb] = .ok (.vec r) ∧ Good4 r ∧ denote r = some (bβ3L pa pb) := by
  obtain ⟨-, -, -, -, -, hSa⟩ := generic_storage_ok4 ha da ga
  obtain ⟨-, -, -, -, -, -, -, hTb, -, -⟩ := generic_storage_ok hb db gb
  obtain ⟨x, y, z, t, rfl, -, -, -, -⟩ := id ga
  obtain ⟨bx, by', bz, rfl, -, -⟩ := id gb
  obtain ⟨w, hcall, -, -, hden⟩ := c09m_boost_beta3 K A va vb ha.wf ha.dim hb.wf hb.dim hSa hTb x y z t bx by' bz da db
    (fun _ => hsub)
  refine ⟨w, hcall, ?_, hden⟩
  obtain ⟨be1, mom1, az1, l1, t1, a0, a1, a2, a3, rfl, hA1, hL1, hT1, hS1⟩ := good4_cases ha
  obtain ⟨be2, mom2, az2, l2, b0, b1, b2, rfl, hA2, hL2, hS2⟩ := good3_cases hb
  have he := boost_beta3_eval K A be1 mom1 az1 l1 t1 a0 a1 a2 a3 be2 mom2 az2 l2 b0 b1 b2
  rw [hcall] at he
  have := vec_inj he
  subst this
  have hc := c13c_lorentz_boost_beta3 az1 l1 t1 az2 l2 a0 a1 a2 a3 b0 b1 b2 hT1
  rw [c13c_lorentz_boost_beta3_ret] at hc
  obtain ⟨h1, h2, h3⟩ := outCanon4_parts hc
  exact good4_result (be := C01M.hbe be1 be2) (mom := mom1 || mom2) h1 h2 h3 hden gr

/-- `to_Vector2D()`: the stored azimuthal coordinates are kept — no hypothesis beyond the invariant -/
theorem to2D_case (K : Consts ℝ) (A : Arith ℝ) {va : Vec ℝ} {pa : List ℝ} (ha : Good va) (da : denote va = some pa) :
    ∃ r, call evR K A "to_Vector2D" va [] = .ok (.vec r) ∧ Good2 r ∧ denote r = some (pa.take 2) := by
  obtain ⟨hv, hr, hs⟩ := ha
  rcases wfv_cases hv with ⟨be, mom, az, a, b, rfl⟩ | ⟨be, mom, az, l, a, b, c, rfl⟩ |
    ⟨be, mom, az, l, t, a, b, c, d, rfl⟩
  · rw [denote_V2_eq da]
    exact ⟨C11M.V2 be mom az a b, rfl, good2_mk _ _ _ _ _ hr.1, rfl⟩
  · rw [denote_V3_eq da]
    exact ⟨C11M.V2 be mom az a b, rfl, good2_mk _ _ _ _ _ hr.1, rfl⟩
  · rw [denote_V4_eq da]
    exact ⟨C11M.V2 be mom az a b, rfl, good2_mk _ _ _ _ _ hr.1, rfl⟩

/-- `to_Vector3D()` of a 3D / 4D vector: the stored azimuthal and longitudinal coordinates are kept -/
theorem to3D_case (K : Consts ℝ) (A : Arith ℝ) {va : Vec ℝ} {pa : List ℝ} (ha : Good va) (da : denote va = some pa)
    (hl : 3 ≤ pa.length) :
    ∃ r, call evR K A "to_Vector3D" va [] = .ok (.vec r) ∧ Good3 r ∧ denote r = some (pa.take 3) := by
  obtain ⟨hv, hr, hs⟩ := ha
  rcases wfv_cases hv with ⟨be, mom, az, a, b, rfl⟩ | ⟨be, mom, az, l, a, b, c, rfl⟩ |
    ⟨be, mom, az, l, t, a, b, c, d, rfl⟩
  · rw [denote_V2_eq da] at hl; simp at hl
  · rw [denote_V3_eq da]
    exact ⟨C11M.V3 be mom az l a b c, rfl, good3_mk _ _ _ _ _ _ _ hr.1 hr.2.1 hs, rfl⟩
  · rw [denote_V4_eq da]
    exact ⟨C11M.V3 be mom az l a b c, rfl, good3_mk _ _ _ _ _ _ _ hr.1 hr.2.1 hs, rfl⟩

/-- `to_Vector3D(z=s)` / `(theta=s)` / `(eta=s)` of a 2D vector: the keyword value is STORED as given (it must be in range:
`0 < θ < π`) and denotes `z = s`, `ρ cot s`, `ρ sinh s` -/
theorem to3D_kw_case (K : Consts ℝ) (A : Arith ℝ) (l : Lon) (s : ℝ) (hs : LonParamOK l s) {va : Vec ℝ} {pa : List ℝ}
    (ha : Good2 va) (da : denote va = some pa) :
    ∃ r, call evR K A "to_Vector3D" va [.kw (lonKw l) s] = .ok (.vec r) ∧ Good3 r ∧ denote r = some (embL l s pa) := by
  obtain ⟨be, mom, az, a, b, rfl, hA⟩ := good2_cases ha
  have e := denote_V2_eq da
  subst e
  have hρ := rhoOf_eq_sqrt (canon2_of_azOK hA)
  have hcall : call evR K A "to_Vector3D" (C11M.V2 be mom az a b) [.kw (lonKw l) s] =
      .ok (.vec (C11M.V3 be mom az l a b s)) := by
    cases l
    · exact to_Vector3D_kw_eval K A be mom az a b s ("z", .z) (by simp)
    · exact to_Vector3D_kw_eval K A be mom az a b s ("theta", .theta) (by simp)
    · exact to_Vector3D_kw_eval K A be mom az a b s ("eta", .eta) (by simp)
  refine ⟨_, hcall, ?_, ?_⟩
  · refine good3_mk _ _ _ _ _ _ _ hA ?_ ?_
    · cases l
      · trivial
      · exact ⟨hs.1.le, hs.2.le⟩
      · trivial
    · cases l
      · trivial
      · exact (sin_pos_of_pos_of_lt_pi hs.1 hs.2).ne'
      · trivial
  · cases l <;> simp only [denote, embL, zKw, zOf, hρ]

/-- `to_Vector4D(t=s)` / `(tau=s)` of a 3D vector (`0 ≤ τ`) -/
theorem to4D_kw_case (K : Consts ℝ) (A : Arith ℝ) (tm : Tmp) (s : ℝ) (hs : TmpParamOK tm s) {va : Vec ℝ} {pa : List ℝ}
    (ha : Good3 va) (da : denote va = some pa) :
    ∃ r, call evR K A "to_Vector4D" va [.kw (tmpKw tm) s] = .ok (.vec r) ∧ Good4 r ∧ denote r = some (embT tm s pa) := by
  obtain ⟨be, mom, az, l, a, b, c, rfl, hA, hL, hS⟩ := good3_cases ha
  have e := denote_V3_eq da
  subst e
  have hcall : call evR K A "to_Vector4D" (C11M.V3 be mom az l a b c) [.kw (tmpKw tm) s] =
      .ok (.vec (C11M.V4 be mom az l tm a b c s)) := by
    cases tm
    · exact to_Vector4D_kw_eval K A be mom az l a b c s ("t", .t) (by simp)
    · exact to_Vector4D_kw_eval K A be mom az l a b c s ("tau", .tau) (by simp)
  refine ⟨_, hcall, ?_, ?_⟩
  · refine good4_mk _ _ _ _ _ _ _ _ _ hA hL ?_ hS
    cases tm
    · trivial
    · exact hs
  · cases tm <;> rfl

/-! #### MAIN THEOREM, all dimensions -/

theorem c01e_eval (K : Consts ℝ) (A : Arith ℝ) (ρ : Nat → Vec ℝ) (ρS : Nat → List ℝ)
    (hρ : ∀ i, Good (ρ i)) (hS : ∀ i, denote (ρ i) = some (ρS i)) (e : E) (hg : GenericAllU ρS e) :
    ∃ v, evalMU K A ρ e = .ok v ∧ Good v ∧ denote v = some (evalSU ρS e) := by
  induction e with
  | var i => exact ⟨ρ i, rfl, hρ i, hS i⟩
  | add a b iha ihb =>
    obtain ⟨⟨ga, gb⟩, hl, gr⟩ := hg
    obtain ⟨va, ea, ha, da⟩ := iha ga
    obtain ⟨vb, eb, hb, db⟩ := ihb gb
    obtain ⟨r, hc, hr, hd⟩ := bin_lift (fun v w => call evR K A "add" v [.v w]) (List.zipWith (· + ·)) hl
      (by rw [List.length_zipWith, hl, min_self])
      (fun h2 h2' _ _ _ => add2_case K A h2 h2' da db) (fun h3 h3' g g' g'' => add_case K A h3 h3' da db g g' g'')
      (fun h4 h4' g g' g'' => add4_case K A h4 h4' da db g g' g'') ha hb da db (genericAllU_self ga)
      (genericAllU_self gb) gr
    exact ⟨r, bin_ok ea eb hc, hr, hd⟩
  | sub a b iha ihb =>
    obtain ⟨⟨ga, gb⟩, hl, gr⟩ := hg
    obtain ⟨va, ea, ha, da⟩ := iha ga
    obtain ⟨vb, eb, hb, db⟩ := ihb gb
    obtain ⟨r, hc, hr, hd⟩ := bin_lift (fun v w => call evR K A "subtract" v [.v w]) (List.zipWith (· - ·)) hl
      (by rw [List.length_zipWith, hl, min_self])
      (fun h2 h2' _ _ _ => sub2_case K A h2 h2' da db) (fun h3 h3' g g' g'' => sub_case K A h3 h3' da db g g' g'')
      (fun h4 h4' g g' g'' => sub4_case K A h4 h4' da db g g' g'') ha hb da db (genericAllU_self ga)
      (genericAllU_self gb) gr
    exact ⟨r, bin_ok ea eb hc, hr, hd⟩
  | scale k a iha =>
    obtain ⟨ga, -, gr⟩ := hg
    obtain ⟨va, ea, ha, da⟩ := iha ga
    obtain ⟨r, hc, hr, hd⟩ := un_lift (fun v => call evR K A "scale" v [.sc k]) (fun p => p.map (k * ·))
      (List.length_map _)
      (fun h2 _ _ => scale2_case K A k h2 da) (fun h3 g g' => scale_case K A k h3 da g g')
      (fun h4 g g' => scale4_case K A k h4 da g g') ha da (genericAllU_self ga) gr
    exact ⟨r, un_ok ea hc, hr, hd⟩
  | unit a iha =>
    obtain ⟨ga, -, gr⟩ := hg
    obtain ⟨va, ea, ha, da⟩ := iha ga
    obtain ⟨r, hc, hr, hd⟩ := un_lift (fun v => call evR K A "unit" v []) (fun p => p.map (fun x => 1 / normL p * x))
      (List.length_map _)
      (fun h2 g _ => unit2_case K A h2 da g) (fun h3 g g' => unit_case K A h3 da g g')
      (fun h4 g g' => unit4_case K A h4 da g g') ha da (genericAllU_self ga) gr
    exact ⟨r, un_ok ea hc, hr, hd⟩
  | rotateZ ang a iha =>
    obtain ⟨ga, -, gr⟩ := hg
    obtain ⟨va, ea, ha, da⟩ := iha ga
    obtain ⟨r, hc, hr, hd⟩ := un_lift (fun v => call evR K A "rotateZ" v [.sc ang]) (onPlanar (rotZ2 ang))
      (onPlanar_length _ _)
      (fun h2 _ _ => rotateZ2_case K A ang h2 da)
      (fun h3 g g' => by
        obtain ⟨x, y, z, e, -⟩ := id g
        rw [e] at da g g' ⊢
        exact rotateZ_case K A ang h3 da g g')
      (fun h4 g g' => by
        obtain ⟨x, y, z, t, e, -⟩ := id g
        rw [e] at da g g' ⊢
        exact rotateZ4_case K A ang h4 da g g') ha da (genericAllU_self ga) gr
    exact ⟨r, un_ok ea hc, hr, hd⟩
  | rotateX ang a iha =>
    obtain ⟨ga, hl, gr⟩ := hg
    obtain ⟨va, ea, ha, da⟩ := iha ga
    obtain ⟨r, hc, hr, hd⟩ := un_lift (fun v => call evR K A "rotateX" v [.sc ang]) (onSpatial (rotX ang))
      (onSpatial_length _ _)
      (fun _ g _ => by obtain ⟨x, y, e, -⟩ := g; rw [e] at hl; simp at hl)
      (fun h3 g g' => rotateX_case K A ang h3 da g g') (fun h4 g g' => rotateX4_case K A ang h4 da g g')
      ha da (genericAllU_self ga) gr
    exact ⟨r, un_ok ea hc, hr, hd⟩
  | rotateY ang a iha =>
    obtain ⟨ga, hl, gr⟩ := hg
    obtain ⟨va, ea, ha, da⟩ := iha ga
    obtain ⟨r, hc, hr, hd⟩ := un_lift (fun v => call evR K A "rotateY" v [.sc ang]) (onSpatial (rotY ang))
      (onSpatial_length _ _)
      (fun _ g _ => by obtain ⟨x, y, e, -⟩ := g; rw [e] at hl; simp at hl)
      (fun h3 g g' => rotateY_case K A ang h3 da g g') (fun h4 g g' => rotateY4_case K A ang h4 da g g')
      ha da (genericAllU_self ga) gr
    exact ⟨r, un_ok ea hc, hr, hd⟩
  | cross a b iha ihb =>
    obtain ⟨⟨ga, gb⟩, ⟨hla, hlb⟩, gr⟩ := hg
    obtain ⟨va, ea, ha, da⟩ := iha ga
    obtain ⟨vb, eb, hb, db⟩ := ihb gb
    have g₁ := generic_len3 (genericAllU_self ga) hla
    have g₂ := generic_len3 (genericAllU_self gb) hlb
    have g₃ : Generic3 (crossL (evalSU ρS a) (evalSU ρS b)) := by
      obtain ⟨x₁, y₁, z₁, e₁, -⟩ := id g₁
      obtain ⟨x₂, y₂, z₂, e₂, -⟩ := id g₂
      refine generic_len3 gr ?_
      show (crossL (evalSU ρS a) (evalSU ρS b)).length = 3
      rw [e₁, e₂]; rfl
    obtain ⟨r, hc, hr, hd⟩ := cross_case K A (good_to3 ha da hla) (good_to3 hb db hlb) da db g₁ g₂ g₃
    exact ⟨r, bin_ok ea eb hc, good_of3 hr, hd⟩
  | boostX β a iha =>
    obtain ⟨ga, ⟨hl, hβ⟩, gr⟩ := hg
    obtain ⟨va, ea, ha, da⟩ := iha ga
    obtain ⟨r, hc, hr, hd⟩ := boostX4_case K A β hβ (good_to4 ha da hl) da (generic_len4 (genericAllU_self ga) hl)
      (generic_len4 gr (by show (on4 _ _).length = 4; rw [on4_length, hl]))
    exact ⟨r, un_ok ea hc, good_of4 hr, hd⟩
  | boostY β a iha =>
    obtain ⟨ga, ⟨hl, hβ⟩, gr⟩ := hg
    obtain ⟨va, ea, ha, da⟩ := iha ga
    obtain ⟨r, hc, hr, hd⟩ := boostY4_case K A β hβ (good_to4 ha da hl) da (generic_len4 (genericAllU_self ga) hl)
      (generic_len4 gr (by show (on4 _ _).length = 4; rw [on4_length, hl]))
    exact ⟨r, un_ok ea hc, good_of4 hr, hd⟩
  | boostZ β a iha =>
    obtain ⟨ga, ⟨hl, hβ⟩, gr⟩ := hg
    obtain ⟨va, ea, ha, da⟩ := iha ga
    obtain ⟨r, hc, hr, hd⟩ := boostZ4_case K A β hβ (good_to4 ha da hl) da (generic_len4 (genericAllU_self ga) hl)
      (generic_len4 gr (by show (on4 _ _).length = 4; rw [on4_length, hl]))
    exact ⟨r, un_ok ea hc, good_of4 hr, hd⟩
  | boost_p4 a b iha ihb =>
    obtain ⟨⟨ga, gb⟩, ⟨hla, hlb⟩, gr⟩ := hg
    obtain ⟨va, ea, ha, da⟩ := iha ga
    obtain ⟨vb, eb, hb, db⟩ := ihb gb
    have g₁ := generic_len4 (genericAllU_self ga) hla
    have g₂ := generic_len4 (genericAllU_self gb) hlb
    have g₃ : Generic4 (bp4L (evalSU ρS a) (evalSU ρS b)) := by
      obtain ⟨x₁, y₁, z₁, t₁, e₁, -⟩ := id g₁
      obtain ⟨x₂, y₂, z₂, t₂, e₂, -⟩ := id g₂
      refine generic_len4 gr ?_
      show (bp4L (evalSU ρS a) (evalSU ρS b)).length = 4
      rw [e₁, e₂]; rfl
    obtain ⟨r, hc, hr, hd⟩ := boost_p4_case K A (good_to4 ha da hla) (good_to4 hb db hlb) da db g₁ g₂ g₃
    exact ⟨r, bin_ok ea eb hc, good_of4 hr, hd⟩
  | boost_beta3 a b iha ihb =>
    obtain ⟨⟨ga, gb⟩, ⟨hla, hsub⟩, gr⟩ := hg
    obtain ⟨va, ea, ha, da⟩ := iha ga
    obtain ⟨vb, eb, hb, db⟩ := ihb gb
    have hlb : (evalSU ρS b).length = 3 := by
      revert hsub
      generalize evalSU ρS b = q
      intro hsub
      match q, hsub with
      | [_, _, _], _ => rfl
    have g₁ := generic_len4 (genericAllU_self ga) hla
    have g₂ := generic_len3 (genericAllU_self gb) hlb
    have g₃ : Generic4 (bβ3L (evalSU ρS a) (evalSU ρS b)) := by
      obtain ⟨x₁, y₁, z₁, t₁, e₁, -⟩ := id g₁
      obtain ⟨x₂, y₂, z₂, e₂, -⟩ := id g₂
      refine generic_len4 gr ?_
      show (bβ3L (evalSU ρS a) (evalSU ρS b)).length = 4
      rw [e₁, e₂]; rfl
    obtain ⟨r, hc, hr, hd⟩ := boost_beta3_case K A (good_to4 ha da hla) (good_to3 hb db hlb) da db g₁ g₂ hsub g₃
    exact ⟨r, bin_ok ea eb hc, good_of4 hr, hd⟩
  | conv2 az a iha =>
    obtain ⟨ga, hl, gr⟩ := hg
    obtain ⟨va, ea, ha, da⟩ := iha ga
    obtain ⟨r, hc, hr, hd⟩ := conv2_case K A az (good_to2 ha da hl) da
    exact ⟨r, un_ok ea hc, good_of2 hr, hd⟩
  | conv3 az l a iha =>
    obtain ⟨ga, hl, gr⟩ := hg
    obtain ⟨va, ea, ha, da⟩ := iha ga
    obtain ⟨r, hc, hr, hd⟩ := conv_case K A az l (good_to3 ha da hl) da (generic_len3 (genericAllU_self ga) hl)
    exact ⟨r, un_ok ea hc, good_of3 hr, hd⟩
  | conv4 az l tm a iha =>
    obtain ⟨ga, hl, gr⟩ := hg
    obtain ⟨va, ea, ha, da⟩ := iha ga
    obtain ⟨r, hc, hr, hd⟩ := conv4_case K A az l tm (good_to4 ha da hl) da (generic_len4 (genericAllU_self ga) hl)
    exact ⟨r, un_ok ea hc, good_of4 hr, hd⟩
  | to2D a iha =>
    obtain ⟨ga, -, gr⟩ := hg
    obtain ⟨va, ea, ha, da⟩ := iha ga
    obtain ⟨r, hc, hr, hd⟩ := to2D_case K A ha da
    exact ⟨r, un_ok ea hc, good_of2 hr, hd⟩
  | to3D a iha =>
    obtain ⟨ga, hl, gr⟩ := hg
    obtain ⟨va, ea, ha, da⟩ := iha ga
    obtain ⟨r, hc, hr, hd⟩ := to3D_case K A ha da hl
    exact ⟨r, un_ok ea hc, good_of3 hr, hd⟩
  | to3D_kw l s a iha =>
    obtain ⟨ga, ⟨hl, hs⟩, gr⟩ := hg
    obtain ⟨va, ea, ha, da⟩ := iha ga
    obtain ⟨r, hc, hr, hd⟩ := to3D_kw_case K A l s hs (good_to2 ha da hl) da
    exact ⟨r, un_ok ea hc, good_of3 hr, hd⟩
  | to4D_kw tm s a iha =>
    obtain ⟨ga, ⟨hl, hs⟩, gr⟩ := hg
    obtain ⟨va, ea, ha, da⟩ := iha ga
    obtain ⟨r, hc, hr, hd⟩ := to4D_kw_case K A tm s hs (good_to3 ha da hl) da
    exact ⟨r, un_ok ea hc, good_of4 hr, hd⟩

theorem good_denote {v : Vec ℝ} (h : Good v) : ∃ p, denote v = some p := by
  rcases wfv_cases h.1 with ⟨be, mom, az, a, b, rfl⟩ | ⟨be, mom, az, l, a, b, c, rfl⟩ |
    ⟨be, mom, az, l, t, a, b, c, d, rfl⟩ <;> exact ⟨_, rfl⟩

theorem denote_specEnvU {ρ : Nat → Vec ℝ} (hρ : ∀ i, Good (ρ i)) (i : Nat) : denote (ρ i) = some (specEnv ρ i) := by
  obtain ⟨p, hp⟩ := good_denote (hρ i)
  simp only [specEnv, hp, Option.getD_some]

/-- **C01 for whole computations, all dimensions**: variables of any dimension in any of the 2 / 6 / 12 storages, any
flavors and backends -/
theorem c01e_indep (K : Consts ℝ) (A : Arith ℝ) (ρ₁ ρ₂ : Nat → Vec ℝ)
    (h₁ : ∀ i, Good (ρ₁ i)) (h₂ : ∀ i, Good (ρ₂ i)) (hd : ∀ i, denote (ρ₁ i) = denote (ρ₂ i)) (e : E)
    (hg : GenericAllU (specEnv ρ₁) e) :
    ∃ v₁ v₂, evalMU K A ρ₁ e = .ok v₁ ∧ evalMU K A ρ₂ e = .ok v₂ ∧ denote v₁ = denote v₂ ∧
      denote v₁ = some (evalSU (specEnv ρ₁) e) := by
  obtain ⟨v₁, e₁, -, d₁⟩ := c01e_eval K A ρ₁ (specEnv ρ₁) h₁ (denote_specEnvU h₁) e hg
  obtain ⟨v₂, e₂, -, d₂⟩ :=
    c01e_eval K A ρ₂ (specEnv ρ₁) h₂ (fun i => by rw [← hd i]; exact denote_specEnvU h₁ i) e hg
  exact ⟨v₁, v₂, e₁, e₂, by rw [d₁, d₂], d₁⟩

theorem generic_iff2 (x y : ℝ) : Generic [x, y] ↔ 0 < x ^ 2 + y ^ 2 := by
  constructor
  · intro h; exact (generic2_iff _ _).1 (generic_len2 h rfl)
  · intro h; exact Or.inl ((generic2_iff _ _).2 h)

theorem generic_iff3 (x y z : ℝ) : Generic [x, y, z] ↔ 0 < x ^ 2 + y ^ 2 ∧ z ≠ 0 := by
  constructor
  · intro h; exact (generic3_iff _ _ _).1 (generic_len3 h rfl)
  · intro h; exact Or.inr (Or.inl ((generic3_iff _ _ _).2 h))

theorem generic_iff4 (x y z t : ℝ) :
    Generic [x, y, z, t] ↔ 0 < x ^ 2 + y ^ 2 ∧ z ≠ 0 ∧ x ^ 2 + y ^ 2 + z ^ 2 < t ^ 2 ∧ 0 < t := by
  constructor
  · intro h; exact (generic4_iff _ _ _ _).1 (generic_len4 h rfl)
  · intro h; exact Or.inr (Or.inr ((generic4_iff _ _ _ _).2 h))

/-! #### non-vacuity: a depth-5 expression over a 4D, a 3D and a 2D variable -/

/-- `v₀ = (x, y, z, t) = (1, 1, 1, 3)` (4D), `v₁ = (x, y, θ) = (1, 0, π/4)` (3D, the point `(1, 0, 1)`),
`v₂ = (ρ, φ) = (2, π/2)` (2D, the point `(0, 2)`) -/
noncomputable def exEnvU : Nat → Vec ℝ
  | 0 => C11M.V4 .obj false .xy .z .t 1 1 1 3
  | 1 => C11M.V3 .np true .xy .theta 1 0 (π / 4)
  | _ => C11M.V2 .obj true .rhophi 2 (π / 2)

def exSpecU : Nat → List ℝ
  | 0 => [1, 1, 1, 3]
  | 1 => [1, 0, 1]
  | _ => [0, 2]

/-- `to_Vector4D(t=4)` of `v₀.to_Vector3D() + v₁ × v₂.to_Vector3D(eta=arsinh 1)` -/
noncomputable def exEU : E :=
  .to4D_kw .t 4 (.add (.to3D (.var 0)) (.cross (.var 1) (.to3D_kw .eta (arsinh 1) (.var 2))))

theorem exEnvU_good : ∀ i, Good (exEnvU i) := by
  intro i
  have hpi := pi_pos
  match i with
  | 0 => exact good_of4 (good4_mk _ _ _ _ _ _ _ _ _ trivial trivial trivial trivial)
  | 1 =>
    refine good_of3 (good3_mk _ _ _ _ _ _ _ trivial ⟨by positivity, by linarith⟩ ?_)
    show sin (π / 4) ≠ 0
    rw [sin_pi_div_four]; positivity
  | (n + 2) => exact good_of2 (good2_mk _ _ _ _ _ ⟨by norm_num, by linarith, by linarith⟩)

theorem exEnvU_denote : ∀ i, denote (exEnvU i) = some (exSpecU i) := by
  intro i
  match i with
  | 0 => rfl
  | 1 =>
    have h1 : sqrt ((1 : ℝ) ^ 2 + 0 ^ 2) = 1 := by norm_num
    have h2 : cos (π / 4) / sin (π / 4) = 1 := by
      rw [cos_pi_div_four, sin_pi_div_four]; exact div_self (by positivity)
    simp only [exEnvU, exSpecU, denote, xOf, yOf, zOf, rhoOf, h1, h2, mul_one]
  | (n + 2) =>
    simp only [exEnvU, exSpecU, denote, xOf, yOf, cos_pi_div_two, sin_pi_div_two, mul_zero, mul_one]

/-- **`GenericAllU` is satisfiable** for a well-dimensioned expression mixing the three dimensions -/
theorem exEU_generic : GenericAllU exSpecU exEU := by
  have h2 : sqrt ((0 : ℝ) ^ 2 + 2 ^ 2) = 2 := by
    rw [show (0 : ℝ) ^ 2 + 2 ^ 2 = 2 ^ 2 by norm_num]; exact sqrt_sq (by norm_num)
  simp only [exEU, GenericAllU, evalSU, exSpecU, List.take, List.zipWith_cons_cons, List.zipWith_nil_right, crossL,
    embL, embT, zKw, tKw, h2, sinh_arsinh, generic_iff2, generic_iff3, generic_iff4, List.length_cons, List.length_nil,
    LonParamOK, TmpParamOK]
  norm_num

example (K : Consts ℝ) (A : Arith ℝ) :
    ∃ v, evalMU K A exEnvU exEU = .ok v ∧ Good v ∧ denote v = some (evalSU exSpecU exEU) :=
  c01e_eval K A exEnvU exSpecU exEnvU_good exEnvU_denote exEU exEU_generic

/-! #### scalar expressions over the unified language -/

/-- the planar properties exist in every dimension -/
def UnS.planar : UnS → Prop
  | .x | .y | .rho | .rho2 | .phi => True
  | _ => False

/-- the dimensions on which a property exists: planar ones everywhere, spatial ones on 3D / 4D, temporal ones on 4D -/
def UnS4.dimOK : UnS4 → Nat → Prop
  | .sp f, n => f.planar ∨ 3 ≤ n
  | _, n => n = 4

inductive SU : Type
  | un (f : UnS4) (a : E)
  | bi (f : BinS) (a b : E)

noncomputable def evalMSU (K : Consts ℝ) (A : Arith ℝ) (ρ : Nat → Vec ℝ) : SU → Except Err (Res ℝ Prop)
  | .un f a => unS (evalMU K A ρ a) fun va => call evR K A f.name va []
  | .bi f a b => binS (evalMU K A ρ a) (evalMU K A ρ b) fun va vb => call evR K A f.name va [.v vb]

noncomputable def unSpecL (f : UnS4) : List ℝ → ℝ
  | [x, y] => uspec4 f x y 0 0
  | [x, y, z] => uspec4 f x y z 0
  | [x, y, z, t] => uspec4 f x y z t
  | _ => 0

/-- two 2D vectors: `dot` and `deltaphi` -/
noncomputable def bspec2 : BinS → ℝ → ℝ → ℝ → ℝ → ℝ
  | .dot, x₁, y₁, x₂, y₂ => x₁ * x₂ + y₁ * y₂
  | .deltaphi, x₁, y₁, x₂, y₂ => P.mod (P.arctan2 y₁ x₁ - P.arctan2 y₂ x₂ + π) (2 * π) - π
  | _, _, _, _, _ => 0

noncomputable def biSpecL (f : BinS) : List ℝ → List ℝ → ℝ
  | [x₁, y₁], [x₂, y₂] => bspec2 f x₁ y₁ x₂ y₂
  | [x₁, y₁, z₁], [x₂, y₂, z₂] => bspec f x₁ y₁ z₁ x₂ y₂ z₂
  | [x₁, y₁, z₁, t₁], [x₂, y₂, z₂, t₂] => bspec4 f x₁ y₁ z₁ t₁ x₂ y₂ z₂ t₂
  | _, _ => 0

noncomputable def evalSSU (ρS : Nat → List ℝ) : SU → ℝ
  | .un f a => unSpecL f (evalSU ρS a)
  | .bi f a b => biSpecL f (evalSU ρS a) (evalSU ρS b)

def PhiOKU : List ℝ → Prop
  | x :: y :: _ => ¬ (y = 0 ∧ x < 0)
  | _ => True

/-- operands generic and of a dimension on which the property / method exists (two operands: of equal dimension; 2D:
`dot`, `deltaphi`); for `phi`, off the half line of the jump -/
def GenericSU (ρS : Nat → List ℝ) : SU → Prop
  | .un f a => GenericAllU ρS a ∧ f.dimOK (evalSU ρS a).length ∧ (f = .sp .phi → PhiOKU (evalSU ρS a))
  | .bi f a b => (GenericAllU ρS a ∧ GenericAllU ρS b) ∧ (evalSU ρS a).length = (evalSU ρS b).length ∧
      ((evalSU ρS a).length = 2 → f = .dot ∨ f = .deltaphi)

theorem un2_case (K : Consts ℝ) (A : Arith ℝ) (f : UnS) (hf : f.planar) {va : Vec ℝ} {x y : ℝ} (ha : Good2 va)
    (da : denote va = some [x, y]) (ga : Generic2 [x, y]) (hphi : f = .phi → ¬ (y = 0 ∧ x < 0)) :
    call evR K A f.name va [] = .ok (.scalar (uspec f x y 0)) := by
  obtain ⟨be, mom, az, a, b, rfl, hA⟩ := good2_cases ha
  have e := denote_V2_eq da
  simp only [List.cons.injEq, and_true] at e
  obtain ⟨rfl, rfl⟩ := e
  have hr : 0 < rhoOf az a b := rho_pos_of hA ((generic2_iff _ _).1 ga)
  cases f
  · exact c01m_acc_x K A _ ha.wf _ _ [] da
  · exact c01m_acc_y K A _ ha.wf _ _ [] da
  · exact hf.elim
  · exact c01m_acc_rho K A _ ha.wf (canon2_of_azOK hA) _ _ [] da
  · exact c01m_acc_rho2 K A _ ha.wf _ _ [] da
  · exact c01m_acc_phi K A _ ha.wf ⟨hr, canonPhi_of hA hr (hphi rfl)⟩ _ _ [] da
  all_goals exact hf.elim

theorem bi2_case (K : Consts ℝ) (A : Arith ℝ) (f : BinS) (hf : f = .dot ∨ f = .deltaphi) {va vb : Vec ℝ}
    {x₁ y₁ x₂ y₂ : ℝ} (ha : Good2 va) (hb : Good2 vb) (da : denote va = some [x₁, y₁]) (db : denote vb = some [x₂, y₂])
    (ga : Generic2 [x₁, y₁]) (gb : Generic2 [x₂, y₂]) :
    call evR K A f.name va [.v vb] = .ok (.scalar (bspec2 f x₁ y₁ x₂ y₂)) := by
  obtain ⟨be1, mom1, az1, a0, a1, rfl, hA1⟩ := good2_cases ha
  obtain ⟨be2, mom2, az2, b0, b1, rfl, hA2⟩ := good2_cases hb
  have e₁ := denote_V2_eq da
  have e₂ := denote_V2_eq db
  simp only [List.cons.injEq, and_true] at e₁ e₂
  obtain ⟨rfl, rfl⟩ := e₁
  obtain ⟨rfl, rfl⟩ := e₂
  have hr1 : 0 < rhoOf az1 a0 a1 := rho_pos_of hA1 ((generic2_iff _ _).1 ga)
  have hr2 : 0 < rhoOf az2 b0 b1 := rho_pos_of hA2 ((generic2_iff _ _).1 gb)
  rcases hf with rfl | rfl
  · obtain ⟨p, q, hp, hq, hcall⟩ :=
      c11m_dot K A (C11M.V2 be1 mom1 az1 a0 a1) (C11M.V2 be2 mom2 az2 b0 b1) ha.wf hb.wf rfl trivial trivial
        (fun h => by cases h) (fun h => by cases h) trivial trivial
    rw [da] at hp; rw [db] at hq
    cases hp; cases hq
    exact hcall
  · show call evR K A "deltaphi" _ [.v _] = _
    rw [C04M.deltaphi_eval K A _ _ ha.wf hb.wf]
    show Except.ok (Res.scalar (planar_deltaphi.eval az1 az2 a0 a1 b0 b1)) = _
    rw [refine_spatial_deltaphi_key _ _ _ _ _ _ hr1 hr2]
    rfl

/-- **scalar expressions, all dimensions** -/
theorem c01e_evalSU (K : Consts ℝ) (A : Arith ℝ) (ρ : Nat → Vec ℝ) (ρS : Nat → List ℝ)
    (hρ : ∀ i, Good (ρ i)) (hS : ∀ i, denote (ρ i) = some (ρS i)) (s : SU) (hg : GenericSU ρS s) :
    evalMSU K A ρ s = .ok (.scalar (evalSSU ρS s)) := by
  cases s with
  | un f a =>
    obtain ⟨ga, hdim, hphi⟩ := hg
    obtain ⟨va, ea, ha, da⟩ := c01e_eval K A ρ ρS hρ hS a ga
    have g := genericAllU_self ga
    simp only [evalMSU, evalSSU, ea, unS]
    rcases generic_length g with hl | hl | hl
    · have g2 := generic_len2 g hl
      obtain ⟨x, y, e, -⟩ := id g2
      rw [e] at da g2 hphi hdim ⊢
      cases f with
      | sp f' =>
        have hp : f'.planar := by
          rcases hdim with h | h
          · exact h
          · simp at h
        exact un2_case K A f' hp (good_to2 ha da rfl) da g2 (fun e' => hphi (by rw [e']))
      | _ => simp [UnS4.dimOK] at hdim
    · have g3 := generic_len3 g hl
      obtain ⟨x, y, z, e, -⟩ := id g3
      rw [e] at da g3 hphi hdim ⊢
      cases f with
      | sp f' => exact un_case K A f' (good_to3 ha da rfl) da g3 (fun e' => hphi (by rw [e']))
      | _ => simp [UnS4.dimOK] at hdim
    · have g4 := generic_len4 g hl
      obtain ⟨x, y, z, t, e, -⟩ := id g4
      rw [e] at da g4 hphi ⊢
      exact un4_case K A f (good_to4 ha da rfl) da g4 hphi
  | bi f a b =>
    obtain ⟨⟨ga, gb⟩, hl, h2D⟩ := hg
    obtain ⟨va, ea, ha, da⟩ := c01e_eval K A ρ ρS hρ hS a ga
    obtain ⟨vb, eb, hb, db⟩ := c01e_eval K A ρ ρS hρ hS b gb
    have g₁ := genericAllU_self ga
    have g₂ := genericAllU_self gb
    simp only [evalMSU, evalSSU, ea, eb, binS]
    rcases generic_length g₁ with hla | hla | hla
    · have hlb : (evalSU ρS b).length = 2 := by rw [← hl, hla]
      have g2a := generic_len2 g₁ hla
      have g2b := generic_len2 g₂ hlb
      have hf := h2D hla
      obtain ⟨x₁, y₁, e₁, -⟩ := id g2a
      obtain ⟨x₂, y₂, e₂, -⟩ := id g2b
      rw [e₁] at da g2a ⊢
      rw [e₂] at db g2b ⊢
      exact bi2_case K A f hf (good_to2 ha da rfl) (good_to2 hb db rfl) da db g2a g2b
    · have hlb : (evalSU ρS b).length = 3 := by rw [← hl, hla]
      have g3a := generic_len3 g₁ hla
      have g3b := generic_len3 g₂ hlb
      obtain ⟨x₁, y₁, z₁, e₁, -⟩ := id g3a
      obtain ⟨x₂, y₂, z₂, e₂, -⟩ := id g3b
      rw [e₁] at da g3a ⊢
      rw [e₂] at db g3b ⊢
      exact bi_case K A f (good_to3 ha da rfl) (good_to3 hb db rfl) da db g3a g3b
    · have hlb : (evalSU ρS b).length = 4 := by rw [← hl, hla]
      have g4a := generic_len4 g₁ hla
      have g4b := generic_len4 g₂ hlb
      obtain ⟨x₁, y₁, z₁, t₁, e₁, -⟩ := id g4a
      obtain ⟨x₂, y₂, z₂, t₂, e₂, -⟩ := id g4b
      rw [e₁] at da g4a ⊢
      rw [e₂] at db g4b ⊢
      exact bi4_case K A f (good_to4 ha da rfl) (good_to4 hb db rfl) da db g4a g4b

/-- **C01 for scalar expressions, all dimensions** -/
theorem c01e_indepSU (K : Consts ℝ) (A : Arith ℝ) (ρ₁ ρ₂ : Nat → Vec ℝ)
    (h₁ : ∀ i, Good (ρ₁ i)) (h₂ : ∀ i, Good (ρ₂ i)) (hd : ∀ i, denote (ρ₁ i) = denote (ρ₂ i)) (s : SU)
    (hg : GenericSU (specEnv ρ₁) s) :
    evalMSU K A ρ₁ s = evalMSU K A ρ₂ s ∧ evalMSU K A ρ₁ s = .ok (.scalar (evalSSU (specEnv ρ₁) s)) := by
  have e₁ := c01e_evalSU K A ρ₁ (specEnv ρ₁) h₁ (denote_specEnvU h₁) s hg
  have e₂ := c01e_evalSU K A ρ₂ (specEnv ρ₁) h₂ (fun i => by rw [← hd i]; exact denote_specEnvU h₁ i) s hg
  exact ⟨by rw [e₁, e₂], e₁⟩

/-- satisfiable: the invariant mass `tau` of the 4D example expression, and `deltaphi` of the two 2D projections -/
example : GenericSU exSpecU (.un .tau exEU) ∧ GenericSU exSpecU (.bi .deltaphi (.to2D (.var 0)) (.var 2)) := by
  refine ⟨⟨exEU_generic, ?_, fun h => by cases h⟩, ?_⟩
  · simp only [UnS4.dimOK, exEU, evalSU, exSpecU, List.take, List.zipWith_cons_cons, List.zipWith_nil_right, crossL,
      embL, embT, List.length_cons, List.length_nil]
  · simp only [GenericSU, GenericAllU, evalSU, exSpecU, List.take, generic_iff2, generic_iff4, List.length_cons,
      List.length_nil]
    norm_num

/-! ## 15. FINDING: `phi` is NOT coordinate independent on the half line `y = 0, x < 0` (why `PhiOK` is needed)

The operations produce polar azimuths through `rectify`, i.e. in `[-π, π)`; the accessor `phi` of a Cartesian vector uses
`arctan2`, i.e. `(-π, π]`.  For the SAME geometric vector `(-1, 0)`, stored as `(ρ, φ) = (1, π)` resp. `(x, y) = (-1, 0)`
— both inside the documented ranges —, the expression `v.rotateZ(0).phi` evaluates to `-π` resp. `+π`. -/
theorem c01e_phi_jump (K : Consts ℝ) (A : Arith ℝ) :
    ∃ ρ₁ ρ₂ : Nat → Vec ℝ, (∀ i, Good (ρ₁ i)) ∧ (∀ i, Good (ρ₂ i)) ∧ (∀ i, denote (ρ₁ i) = denote (ρ₂ i)) ∧
      GenericAllU (specEnv ρ₁) (.rotateZ 0 (.var 0)) ∧
      evalMSU K A ρ₁ (.un (.sp .phi) (.rotateZ 0 (.var 0))) = .ok (.scalar (-π)) ∧
      evalMSU K A ρ₂ (.un (.sp .phi) (.rotateZ 0 (.var 0))) = .ok (.scalar π) ∧ (-π : ℝ) ≠ π := by
  have hpi := pi_pos
  have hd1 : denote (C11M.V2 .obj false .rhophi 1 π) = some [-1, 0] := by
    simp only [denote, xOf, yOf, cos_pi, sin_pi, mul_zero, mul_neg, mul_one]
  have hd2 : denote (C11M.V2 .obj false .xy (-1) 0) = some [-1, 0] := rfl
  have hg1 : Good (C11M.V2 .obj false .rhophi 1 π) := good_of2 (good2_mk _ _ _ _ _ ⟨by norm_num, by linarith, le_rfl⟩)
  have hg2 : Good (C11M.V2 .obj false .xy (-1) 0) := good_of2 (good2_mk _ _ _ _ _ trivial)
  have hs : specEnv (fun _ => C11M.V2 .obj false .rhophi 1 π) = fun _ => [-1, 0] := by
    funext i; simp only [specEnv, hd1, Option.getD_some]
  have hatan : P.arctan2 0 (-1) = π := by
    have h := L.arctan2_polar (r := 1) (p := π) one_pos (by linarith) le_rfl
    simpa [sin_pi, cos_pi] using h
  refine ⟨fun _ => C11M.V2 .obj false .rhophi 1 π, fun _ => C11M.V2 .obj false .xy (-1) 0, fun _ => hg1, fun _ => hg2,
    fun _ => by rw [hd1, hd2], ?_, ?_, ?_, by linarith⟩
  · rw [hs]
    simp only [GenericAllU, evalSU, onPlanar, rotZ2, cos_zero, sin_zero, generic_iff2]
    norm_num
  · have e1 : call evR K A "rotateZ" (C11M.V2 .obj false .rhophi 1 π) [.sc 0] =
        .ok (.vec (C11M.V2 .obj false .rhophi 1 (-π))) := by
      rw [rotateZ_eval2, c13c_planar_rotateZ_pi]
    have e2 : call evR K A "phi" (C11M.V2 .obj false .rhophi 1 (-π)) [] = .ok (.scalar (-π)) := by
      rw [acc_phi_eval K A _ ⟨by simp, rfl⟩]; rfl
    simp only [evalMSU, evalMU, un, unS, e1, vecOf]
    exact e2
  · have h0 : planar_rotateZ.eval .xy 0 (-1) 0 = (-1, 0) := by
      simp only [planar_rotateZ.eval, planar_rotateZ.xy, cos_zero, sin_zero]; norm_num
    have e1 : call evR K A "rotateZ" (C11M.V2 .obj false .xy (-1) 0) [.sc 0] =
        .ok (.vec (C11M.V2 .obj false .xy (-1) 0)) := by
      rw [rotateZ_eval2, h0]
    have e2 : call evR K A "phi" (C11M.V2 .obj false .xy (-1) 0) [] = .ok (.scalar π) := by
      rw [acc_phi_eval K A _ ⟨by simp, rfl⟩]
      show Except.ok (Res.scalar (P.arctan2 0 (-1))) = _
      rw [hatan]
    simp only [evalMSU, evalMU, un, unS, e1, vecOf]
    exact e2

/-! ## 16. Helper for discharging `GenericAll4`: axis boosts with `|β| < 1` preserve forward time-like-ness

(so at a boost node only the spatial genericity of the boosted value has to be checked) -/

private theorem boost_t_pos {g β u t : ℝ} (hg : 0 < g) (hβ : |β| < 1) (hu : u ^ 2 < t ^ 2) (ht : 0 < t) :
    0 < β * g * u + g * t := by
  have hu' : |u| < t := by
    have := abs_lt_of_sq_lt_sq hu ht.le
    exact this
  have h1 : |β * u| < t := by
    rw [abs_mul]
    calc |β| * |u| ≤ 1 * |u| := mul_le_mul_of_nonneg_right hβ.le (abs_nonneg u)
      _ = |u| := one_mul _
      _ < t := hu'
  have h2 : 0 < β * u + t := by linarith [(abs_lt.mp h1).1]
  have := mul_pos hg h2
  nlinarith

theorem c01e_boostX_timelike (β : ℝ) (hβ : |β| < 1) (x y z t : ℝ) (h : x ^ 2 + y ^ 2 + z ^ 2 < t ^ 2) (ht : 0 < t) :
    (bXβ β (x, y, z, t)).1 ^ 2 + (bXβ β (x, y, z, t)).2.1 ^ 2 + (bXβ β (x, y, z, t)).2.2.1 ^ 2
        < (bXβ β (x, y, z, t)).2.2.2 ^ 2 ∧ 0 < (bXβ β (x, y, z, t)).2.2.2 := by
  have hm := c09_boostX_beta_mdot β (x, y, z, t) (x, y, z, t) hβ
  simp only [VR.mdot] at hm
  have hβ2 : β ^ 2 < 1 := by
    have := abs_lt.mp hβ
    nlinarith
  have hg : 0 < P.rpow (1 - β ^ 2) (-(0.5 : ℝ)) := Real.rpow_pos_of_pos (by linarith) _
  have htp : 0 < (bXβ β (x, y, z, t)).2.2.2 := by
    show 0 < β * P.rpow (1 - β ^ 2) (-(0.5 : ℝ)) * x + P.rpow (1 - β ^ 2) (-(0.5 : ℝ)) * t
    exact boost_t_pos hg hβ (by nlinarith [sq_nonneg y, sq_nonneg z]) ht
  exact ⟨by nlinarith, htp⟩

theorem c01e_boostY_timelike (β : ℝ) (hβ : |β| < 1) (x y z t : ℝ) (h : x ^ 2 + y ^ 2 + z ^ 2 < t ^ 2) (ht : 0 < t) :
    (bYβ β (x, y, z, t)).1 ^ 2 + (bYβ β (x, y, z, t)).2.1 ^ 2 + (bYβ β (x, y, z, t)).2.2.1 ^ 2
        < (bYβ β (x, y, z, t)).2.2.2 ^ 2 ∧ 0 < (bYβ β (x, y, z, t)).2.2.2 := by
  have hm := c09_boostY_beta_mdot β (x, y, z, t) (x, y, z, t) hβ
  simp only [VR.mdot] at hm
  have hβ2 : β ^ 2 < 1 := by
    have := abs_lt.mp hβ
    nlinarith
  have hg : 0 < P.rpow (1 - β ^ 2) (-(0.5 : ℝ)) := Real.rpow_pos_of_pos (by linarith) _
  have htp : 0 < (bYβ β (x, y, z, t)).2.2.2 := by
    show 0 < β * P.rpow (1 - β ^ 2) (-(0.5 : ℝ)) * y + P.rpow (1 - β ^ 2) (-(0.5 : ℝ)) * t
    exact boost_t_pos hg hβ (by nlinarith [sq_nonneg x, sq_nonneg z]) ht
  exact ⟨by nlinarith, htp⟩

theorem c01e_boostZ_timelike (β : ℝ) (hβ : |β| < 1) (x y z t : ℝ) (h : x ^ 2 + y ^ 2 + z ^ 2 < t ^ 2) (ht : 0 < t) :
    (bZβ β (x, y, z, t)).1 ^ 2 + (bZβ β (x, y, z, t)).2.1 ^ 2 + (bZβ β (x, y, z, t)).2.2.1 ^ 2
        < (bZβ β (x, y, z, t)).2.2.2 ^ 2 ∧ 0 < (bZβ β (x, y, z, t)).2.2.2 := by
  have hm := c09_boostZ_beta_mdot β (x, y, z, t) (x, y, z, t) hβ
  simp only [VR.mdot] at hm
  have hβ2 : β ^ 2 < 1 := by
    have := abs_lt.mp hβ
    nlinarith
  have hg : 0 < P.rpow (1 - β ^ 2) (-(0.5 : ℝ)) := Real.rpow_pos_of_pos (by linarith) _
  have htp : 0 < (bZβ β (x, y, z, t)).2.2.2 := by
    show 0 < β * P.rpow (1 - β ^ 2) (-(0.5 : ℝ)) * z + P.rpow (1 - β ^ 2) (-(0.5 : ℝ)) * t
    exact boost_t_pos hg hβ (by nlinarith [sq_nonneg x, sq_nonneg y]) ht
  exact ⟨by nlinarith, htp⟩

/-- hence: at a `boostX` node of `E4` the time-like part of `Generic4` comes for free -/
theorem c01e_generic4_boostX (β : ℝ) (hβ : |β| < 1) {p : List ℝ} (hp : Generic4 p)
    (hs : ∀ x y z t, p = [x, y, z, t] → 0 < (bXβ β (x, y, z, t)).1 ^ 2 + (bXβ β (x, y, z, t)).2.1 ^ 2) :
    Generic4 (on4 (bXβ β) p) := by
  obtain ⟨x, y, z, t, rfl, h1, h2, h3, h4⟩ := hp
  obtain ⟨h5, h6⟩ := c01e_boostX_timelike β hβ x y z t h3 h4
  exact ⟨_, _, _, _, rfl, hs x y z t rfl, h2, h5, h6⟩

end C01E
end VR
