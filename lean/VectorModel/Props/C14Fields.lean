/-
Properties C14 / C07 / C18 of the FIELD LOOKUP chains of the Awkward backend (`Glue/Fields.lean`): the interpreter's
`from_fields` / `from_momentum_fields`, the numba typer and the numba lowering.  For ALL scalar types `S`.
-/
import VectorModel.Glue.Fields
import VectorModel.Props.C18

set_option linter.unusedVariables false
set_option linter.unusedSimpArgs false
set_option linter.constructorNameAsVariable false
namespace VG
open VK

section
variable {S : Type}

/-! ## 0. field lists as maps -/

private theorem lookup_eq_some_iff_mem (fs : List (String × S)) (hnd : (fieldNames fs).Nodup) (n : String) (v : S) :
    List.lookup n fs = some v ↔ (n, v) ∈ fs := by
  induction fs with
  | nil => simp
  | cons kv fs ih =>
    obtain ⟨k, w⟩ := kv
    simp only [fieldNames, List.map_cons, List.nodup_cons] at hnd
    have ih := ih hnd.2
    simp only [List.lookup_cons, List.mem_cons, Prod.mk.injEq]
    by_cases hk : n = k
    · subst hk
      simp only [BEq.rfl, Option.some.injEq, true_and]
      constructor
      · intro h; exact Or.inl h.symm
      · rintro (h | h)
        · exact h.symm
        · exact absurd (List.mem_map.2 ⟨(n, v), h, rfl⟩) hnd.1
    · have : (n == k) = false := by simpa using hk
      simp only [this, hk, false_and, false_or]
      exact ih

/-- a field list with distinct names IS its name → value map: permuting the fields does not change it -/
theorem c14f_look_perm (fs fs' : List (String × S)) (hp : fs.Perm fs') (hnd : (fieldNames fs).Nodup) :
    look fs = look fs' := by
  have hnd' : (fieldNames fs').Nodup := ((hp.map (fun f : String × S => f.1)).nodup_iff).1 hnd
  funext n
  apply Option.ext
  intro v
  simp only [look]
  rw [lookup_eq_some_iff_mem fs hnd, lookup_eq_some_iff_mem fs' hnd', hp.mem_iff]

/-- `name in ak.fields(array)` ⇔ the map has a value -/
theorem c14f_names_contains (fs : List (String × S)) (n : String) :
    (fieldNames fs).contains n = (look fs).has n := by
  simp only [FMap.has, look, fieldNames]
  rw [Bool.eq_iff_iff]
  simp only [List.contains_eq_mem, List.mem_map, decide_eq_true_eq, List.lookup_isSome_iff, beq_iff_eq]
  constructor
  · rintro ⟨p, hp, rfl⟩; exact ⟨p, hp, rfl⟩
  · rintro ⟨p, hp, h⟩; exact ⟨p, hp, h.symm⟩

private theorem lookup_filter_name (q : String → Bool) (fs : List (String × S)) (n : String) :
    List.lookup n (fs.filter (fun f => q f.1)) = if q n then List.lookup n fs else none := by
  induction fs with
  | nil => simp
  | cons kv fs ih =>
    obtain ⟨k, w⟩ := kv
    by_cases hk : n = k
    · subst hk
      by_cases hq : q n <;> simp [List.filter_cons, List.lookup_cons, hq, ih]
    · have hb : (n == k) = false := by simpa using hk
      by_cases hq : q k <;> simp [List.filter_cons, List.lookup_cons, hq, ih, hb]

private theorem lookup_rename (a b : String) (hab : a ≠ b) (fs : List (String × S)) (hb : b ∉ fieldNames fs)
    (n : String) :
    List.lookup n (rename a b fs) = if n = b then List.lookup a fs else if n = a then none else List.lookup n fs := by
  induction fs with
  | nil => simp [rename]
  | cons kv fs ih =>
    obtain ⟨k, w⟩ := kv
    simp only [fieldNames, List.map_cons, List.mem_cons, not_or] at hb
    have ih := ih hb.2
    simp only [rename, List.map_cons] at ih ⊢
    by_cases hka : k = a
    · subst hka
      simp only [BEq.rfl, if_true, List.lookup_cons]
      by_cases hnb : n = b
      · subst hnb; simp
      · have h1 : (n == b) = false := by simpa using hnb
        simp only [h1, ih, hnb, if_false]
        by_cases hnk : n = k
        · simp [hnk]
        · have h2 : (n == k) = false := by simpa using hnk
          simp [hnk, h2]
    · have h0 : (k == a) = false := by simpa using hka
      simp only [h0, List.lookup_cons, Bool.false_eq_true, if_false]
      by_cases hnk : n = k
      · subst hnk
        have : n ≠ b := fun h => hb.1 h.symm
        simp [this, hka]
      · have h2 : (n == k) = false := by simpa using hnk
        have h3 : (a == k) = false := by simpa using (fun h : a = k => hka h.symm)
        simp only [h2, ih, h3]

/-! ## 1. what the chains compute: closed forms (`c14f_priority`)

Every interpreter chain is a priority list: x-y before rho-phi, z before theta before eta, t before tau; within one
coordinate the GENERIC spelling wins over the momentum one (`x` over `px`, … `t` over `E` over `e` over `energy`,
`tau` over `M` over `m` over `mass`), each coordinate independently. -/

/-- generic records: x-y first, then rho-phi; nothing else is looked at -/
theorem c14f_priority_az (g : FMap S) :
    azFieldsM g =
      match g "x", g "y" with
      | some x, some y => .ok (.xy, x, y)
      | _, _ =>
        match g "rho", g "phi" with
        | some r, some p => .ok (.rhophi, r, p)
        | _, _ => .error .valueError := by
  unfold azFieldsM FMap.has rd2
  cases g "x" <;> cases g "y" <;> cases g "rho" <;> cases g "phi" <;> rfl

/-- momentum records: x-y (each of `x`/`px` and `y`/`py`, generic spelling first) before rho-phi (`rho` before `pt`) -/
theorem c14f_priority_az_mom (g : FMap S) :
    azMomFieldsM g =
      match (g "x").or (g "px"), (g "y").or (g "py") with
      | some x, some y => .ok (.xy, x, y)
      | _, _ =>
        match (g "rho").or (g "pt"), g "phi" with
        | some r, some p => .ok (.rhophi, r, p)
        | _, _ => .error .valueError := by
  unfold azMomFieldsM FMap.has rd2
  cases g "x" <;> cases g "y" <;> cases g "px" <;> cases g "py" <;> cases g "rho" <;> cases g "pt" <;>
    cases g "phi" <;> rfl

/-- z before theta before eta -/
theorem c14f_priority_lon (g : FMap S) :
    lonFieldsM g =
      match g "z" with
      | some z => .ok (.z, z)
      | none =>
        match g "theta" with
        | some th => .ok (.theta, th)
        | none =>
          match g "eta" with
          | some e => .ok (.eta, e)
          | none => .error .valueError := by
  unfold lonFieldsM FMap.has rd1
  cases g "z" <;> cases g "theta" <;> cases g "eta" <;> rfl

/-- `z` before `pz`, then theta, then eta -/
theorem c14f_priority_lon_mom (g : FMap S) :
    lonMomFieldsM g =
      match (g "z").or (g "pz") with
      | some z => .ok (.z, z)
      | none =>
        match g "theta" with
        | some th => .ok (.theta, th)
        | none =>
          match g "eta" with
          | some e => .ok (.eta, e)
          | none => .error .valueError := by
  unfold lonMomFieldsM FMap.has rd1
  cases g "z" <;> cases g "pz" <;> cases g "theta" <;> cases g "eta" <;> rfl

/-- t before tau -/
theorem c14f_priority_tmp (g : FMap S) :
    tmpFieldsM g =
      match g "t" with
      | some t => .ok (.t, t)
      | none =>
        match g "tau" with
        | some tau => .ok (.tau, tau)
        | none => .error .valueError := by
  unfold tmpFieldsM FMap.has rd1
  cases g "t" <;> cases g "tau" <;> rfl

/-- `t`, `E`, `e`, `energy` (in this order) before `tau`, `M`, `m`, `mass` (in this order) -/
theorem c14f_priority_tmp_mom (g : FMap S) :
    tmpMomFieldsM g =
      match (((g "t").or (g "E")).or (g "e")).or (g "energy") with
      | some t => .ok (.t, t)
      | none =>
        match (((g "tau").or (g "M")).or (g "m")).or (g "mass") with
        | some tau => .ok (.tau, tau)
        | none => .error .valueError := by
  unfold tmpMomFieldsM FMap.has rd1
  cases g "t" <;> cases g "E" <;> cases g "e" <;> cases g "energy" <;> cases g "tau" <;> cases g "M" <;>
    cases g "m" <;> cases g "mass" <;> rfl

/-- with x and y present the interpreter reads x-y, whatever else the record has, in both flavors -/
theorem c14f_priority_xy (mom : Bool) (g : FMap S) (x y : S) (hx : g "x" = some x) (hy : g "y" = some y) :
    azOfM mom g = .ok (.xy, x, y) := by
  cases mom <;> simp [azOfM, c14f_priority_az, c14f_priority_az_mom, hx, hy]

/-- with z present the interpreter reads z, whatever else the record has -/
theorem c14f_priority_z (mom : Bool) (g : FMap S) (z : S) (hz : g "z" = some z) : lonOfM mom g = .ok (.z, z) := by
  cases mom <;> simp [lonOfM, c14f_priority_lon, c14f_priority_lon_mom, hz]

/-- with t present the interpreter reads t, whatever else the record has -/
theorem c14f_priority_t (mom : Bool) (g : FMap S) (t : S) (ht : g "t" = some t) : tmpOfM mom g = .ok (.t, t) := by
  cases mom <;> simp [tmpOfM, c14f_priority_tmp, c14f_priority_tmp_mom, ht]

private theorem azOfM_error (mom : Bool) (g : FMap S) (e : FErr) (h : azOfM mom g = .error e) : e = .valueError := by
  revert h
  cases mom <;> simp only [azOfM, c14f_priority_az, c14f_priority_az_mom, if_true, Bool.false_eq_true, if_false] <;>
    intro h <;> (repeat' split at h) <;> simp_all

private theorem lonOfM_error (mom : Bool) (g : FMap S) (e : FErr) (h : lonOfM mom g = .error e) : e = .valueError := by
  revert h
  cases mom <;> simp only [lonOfM, c14f_priority_lon, c14f_priority_lon_mom, if_true, Bool.false_eq_true, if_false] <;>
    intro h <;> (repeat' split at h) <;> simp_all

private theorem tmpOfM_error (mom : Bool) (g : FMap S) (e : FErr) (h : tmpOfM mom g = .error e) : e = .valueError := by
  revert h
  cases mom <;> simp only [tmpOfM, c14f_priority_tmp, c14f_priority_tmp_mom, if_true, Bool.false_eq_true, if_false] <;>
    intro h <;> (repeat' split at h) <;> simp_all

/-- the interpreter only ever raises `ValueError` -/
theorem c14f_read_error (mom : Bool) (dim : Nat) (g : FMap S) (e : FErr) (h : readM mom dim g = .error e) :
    e = .valueError := by
  unfold readM at h
  split at h
  · rename_i e' he
    simp only [Except.error.injEq] at h; subst h; exact azOfM_error _ _ _ he
  · split at h
    · simp at h
    · split at h
      · rename_i e' he
        simp only [Except.error.injEq] at h; subst h; exact lonOfM_error _ _ _ he
      · split at h
        · simp at h
        · split at h
          · rename_i e' he
            simp only [Except.error.injEq] at h; subst h; exact tmpOfM_error _ _ _ he
          · simp at h

/-! ## 2. the readers only look at coordinate names (`c14f_extras`), generic readers only at generic names -/

private theorem readM_congr (mom : Bool) (dim : Nat) (g g' : FMap S) (h : ∀ n ∈ coordFieldNames, g n = g' n) :
    readM mom dim g = readM mom dim g' := by
  have h1 := h "x" (by decide); have h2 := h "px" (by decide); have h3 := h "y" (by decide)
  have h4 := h "py" (by decide); have h5 := h "rho" (by decide); have h6 := h "pt" (by decide)
  have h7 := h "phi" (by decide); have h8 := h "z" (by decide); have h9 := h "pz" (by decide)
  have h10 := h "theta" (by decide); have h11 := h "eta" (by decide); have h12 := h "t" (by decide)
  have h13 := h "E" (by decide); have h14 := h "e" (by decide); have h15 := h "energy" (by decide)
  have h16 := h "tau" (by decide); have h17 := h "M" (by decide); have h18 := h "m" (by decide)
  have h19 := h "mass" (by decide)
  simp only [readM, azOfM, lonOfM, tmpOfM, c14f_priority_az, c14f_priority_az_mom, c14f_priority_lon,
    c14f_priority_lon_mom, c14f_priority_tmp, c14f_priority_tmp_mom,
    h1, h2, h3, h4, h5, h6, h7, h8, h9, h10, h11, h12, h13, h14, h15, h16, h17, h18, h19]

private theorem readM_congr_generic (dim : Nat) (g g' : FMap S) (h : ∀ n ∈ genericNames, g n = g' n) :
    readM false dim g = readM false dim g' := by
  have h1 := h "x" (by decide); have h3 := h "y" (by decide); have h5 := h "rho" (by decide)
  have h7 := h "phi" (by decide); have h8 := h "z" (by decide)
  have h10 := h "theta" (by decide); have h11 := h "eta" (by decide); have h12 := h "t" (by decide)
  have h16 := h "tau" (by decide)
  simp only [readM, azOfM, lonOfM, tmpOfM, c14f_priority_az, c14f_priority_lon, c14f_priority_tmp,
    Bool.false_eq_true, if_false, h1, h3, h5, h7, h8, h10, h11, h12, h16]

/-! ## 3. compiled = interpreted (`c14f_numba_agrees`) -/

private def okB {ε α : Type} : Except ε α → Bool | .ok _ => true | .error _ => false

/-- azimuthal part of the compiled view: typing, lowering, reading -/
private def nbAzM (mom : Bool) (g : FMap S) : Except FErr (Az × S × S) :=
  match nbAzTypeP mom g.has with
  | .error e => .error e
  | .ok a =>
    match nbLowerAz a.1 g.has with
    | .error e => .error e
    | .ok n => rd2 g a.1 n.1 n.2

private def nbLonM (mom : Bool) (g : FMap S) : Except FErr (Lon × S) :=
  match nbLonTypeP mom g.has with
  | .error e => .error e
  | .ok l =>
    match nbLowerLon l.1 g.has with
    | .error e => .error e
    | .ok n => rd1 g l.1 n

private def nbTmpM (mom : Bool) (g : FMap S) : Except FErr (Tmp × S) :=
  match nbTmpTypeP mom g.has with
  | .error e => .error e
  | .ok t =>
    match nbLowerTmp t.1 g.has with
    | .error e => .error e
    | .ok n => rd1 g t.1 n

private theorem az_spec (mom : Bool) (g : FMap S) :
    (nbAzTypeP mom g.has = .error .typingError ∧ azOfM mom g = .error .valueError) ∨
    (okB (nbAzTypeP mom g.has) = true ∧ nbAzM mom g = azOfM mom g ∧ okB (azOfM mom g) = true) := by
  cases mom <;> cases hx : g "x" <;> cases hy : g "y" <;> cases hpx : g "px" <;> cases hpy : g "py" <;>
    cases hrho : g "rho" <;> cases hpt : g "pt" <;> cases hphi : g "phi" <;>
    simp [nbAzM, nbAzTypeP, nbLowerAz, idx, FMap.has, rd2, azOfM, azMomFieldsM, azFieldsM, okB,
      hx, hy, hpx, hpy, hrho, hpt, hphi]

private theorem lon_spec (mom : Bool) (g : FMap S) :
    (nbLonTypeP mom g.has = .error .typingError ∧ lonOfM mom g = .error .valueError) ∨
    (okB (nbLonTypeP mom g.has) = true ∧ nbLonM mom g = lonOfM mom g ∧ okB (lonOfM mom g) = true) := by
  cases mom <;> cases hz : g "z" <;> cases hpz : g "pz" <;> cases hth : g "theta" <;> cases heta : g "eta" <;>
    simp [nbLonM, nbLonTypeP, nbLowerLon, idx, FMap.has, rd1, lonOfM, lonMomFieldsM, lonFieldsM, okB,
      hz, hpz, hth, heta]

private theorem tmp_spec (mom : Bool) (g : FMap S) :
    (nbTmpTypeP mom g.has = .error .typingError ∧ tmpOfM mom g = .error .valueError) ∨
    (okB (nbTmpTypeP mom g.has) = true ∧ nbTmpM mom g = tmpOfM mom g ∧ okB (tmpOfM mom g) = true) := by
  cases mom <;> cases ht : g "t" <;> cases hE : g "E" <;> cases he : g "e" <;> cases hen : g "energy" <;>
    cases htau : g "tau" <;> cases hM : g "M" <;> cases hm : g "m" <;> cases hmass : g "mass" <;>
    simp [nbTmpM, nbTmpTypeP, nbLowerTmp, idx, FMap.has, rd1, tmpOfM, tmpMomFieldsM, tmpFieldsM, okB,
      ht, hE, he, hen, htau, hM, hm, hmass]

private theorem az_parts (mom : Bool) (g : FMap S) (h : okB (nbAzTypeP mom g.has) = true)
    (hM : nbAzM mom g = azOfM mom g) (hI : okB (azOfM mom g) = true) :
    ∃ a n az, nbAzTypeP mom g.has = .ok a ∧ nbLowerAz a.1 g.has = .ok n ∧ rd2 g a.1 n.1 n.2 = .ok az ∧
      azOfM mom g = .ok az := by
  cases hA' : nbAzTypeP mom g.has with
  | error e => simp [hA', okB] at h
  | ok a =>
    cases hI' : azOfM mom g with
    | error e => simp [hI', okB] at hI
    | ok az =>
      have hM' : nbAzM mom g = .ok az := by rw [hM, hI']
      simp only [nbAzM, hA'] at hM'
      cases hn : nbLowerAz a.1 g.has with
      | error e => simp [hn] at hM'
      | ok n =>
        simp only [hn] at hM'
        exact ⟨a, n, az, rfl, hn, hM', rfl⟩

private theorem lon_parts (mom : Bool) (g : FMap S) (h : okB (nbLonTypeP mom g.has) = true)
    (hM : nbLonM mom g = lonOfM mom g) (hI : okB (lonOfM mom g) = true) :
    ∃ l n lon, nbLonTypeP mom g.has = .ok l ∧ nbLowerLon l.1 g.has = .ok n ∧ rd1 g l.1 n = .ok lon ∧
      lonOfM mom g = .ok lon := by
  cases hA' : nbLonTypeP mom g.has with
  | error e => simp [hA', okB] at h
  | ok a =>
    cases hI' : lonOfM mom g with
    | error e => simp [hI', okB] at hI
    | ok az =>
      have hM' : nbLonM mom g = .ok az := by rw [hM, hI']
      simp only [nbLonM, hA'] at hM'
      cases hn : nbLowerLon a.1 g.has with
      | error e => simp [hn] at hM'
      | ok n =>
        simp only [hn] at hM'
        exact ⟨a, n, az, rfl, hn, hM', rfl⟩

private theorem tmp_parts (mom : Bool) (g : FMap S) (h : okB (nbTmpTypeP mom g.has) = true)
    (hM : nbTmpM mom g = tmpOfM mom g) (hI : okB (tmpOfM mom g) = true) :
    ∃ t n tmp, nbTmpTypeP mom g.has = .ok t ∧ nbLowerTmp t.1 g.has = .ok n ∧ rd1 g t.1 n = .ok tmp ∧
      tmpOfM mom g = .ok tmp := by
  cases hA' : nbTmpTypeP mom g.has with
  | error e => simp [hA', okB] at h
  | ok a =>
    cases hI' : tmpOfM mom g with
    | error e => simp [hI', okB] at hI
    | ok az =>
      have hM' : nbTmpM mom g = .ok az := by rw [hM, hI']
      simp only [nbTmpM, hA'] at hM'
      cases hn : nbLowerTmp a.1 g.has with
      | error e => simp [hn] at hM'
      | ok n =>
        simp only [hn] at hM'
        exact ⟨a, n, az, rfl, hn, hM', rfl⟩

/-- COMPILED = INTERPRETED on the values, for EVERY record (any number of spellings, any number of systems, any extras):
the numba typer + lowering + getters find the same coordinate systems and read the same fields as the interpreter chains;
where the interpreter raises `ValueError` the compilation fails with `TypingError` — and the lowering never reaches its
`raise AssertionError`, no getter reads a missing field. -/
theorem c14f_numba_agrees_map (mom : Bool) (dim : Nat) (g : FMap S) :
    nbReadM mom dim g = (readM mom dim g).mapError (fun _ => FErr.typingError) := by
  unfold nbReadM readM nbTypeP
  rcases az_spec mom g with ⟨hA, hI⟩ | ⟨hA, hM, hI⟩
  · simp [hA, hI, Except.mapError]
  · obtain ⟨a, n, az, hA, hn, hr, hI⟩ := az_parts mom g hA hM hI
    by_cases hd : dim < 3
    · simp [hA, hI, hd, nbLowerP, hn, nbImpl, hr, Except.mapError]
    · rcases lon_spec mom g with ⟨hL, hIL⟩ | ⟨hL, hML, hIL⟩
      · simp [hA, hI, hd, hL, hIL, Except.mapError]
      · obtain ⟨l, ln, lon, hL, hln, hrl, hIL⟩ := lon_parts mom g hL hML hIL
        by_cases hd4 : dim < 4
        · simp [hA, hI, hd, hd4, hL, hIL, nbLowerP, hn, hln, nbImpl, hr, hrl, Except.mapError]
        · rcases tmp_spec mom g with ⟨hT, hIT⟩ | ⟨hT, hMT, hIT⟩
          · simp [hA, hI, hd, hd4, hL, hIL, hT, hIT, Except.mapError]
          · obtain ⟨t, tn, tmp, hT, htn, hrt, hIT⟩ := tmp_parts mom g hT hMT hIT
            simp [hA, hI, hd, hd4, hL, hIL, hT, hIT, nbLowerP, hn, hln, htn, nbImpl, hr, hrl, hrt, Except.mapError]

private theorem has_eq (fs : List (String × S)) : (fun n => (fieldNames fs).contains n) = (look fs).has :=
  funext (c14f_names_contains fs)

/-- the name-list form of the compiled view is the map form -/
theorem c14f_nbReadRec_eq (mom : Bool) (dim : Nat) (fs : List (String × S)) :
    nbReadRec mom dim fs = nbReadM mom dim (look fs) := by
  simp only [nbReadRec, nbReadM, nbType, nbLower, has_eq]

theorem c14f_nbReadRecD_eq {D : Type} [DecidableEq D] (dt : S → D) (mom : Bool) (dim : Nat) (fs : List (String × S)) :
    nbReadRecD dt mom dim fs = nbReadDM dt mom dim (look fs) := by
  simp only [nbReadRecD, nbReadDM, nbType, nbLower, has_eq]

/-- COMPILED = INTERPRETED on the values, for every field list -/
theorem c14f_numba_agrees (mom : Bool) (dim : Nat) (fs : List (String × S)) :
    nbReadRec mom dim fs = (readRec mom dim fs).mapError (fun _ => FErr.typingError) := by
  rw [c14f_nbReadRec_eq, readRec, c14f_numba_agrees_map]

/-- … in particular: the compiled code succeeds exactly when the interpreter does, with the same systems and values -/
theorem c14f_numba_agrees_ok (mom : Bool) (dim : Nat) (fs : List (String × S)) (st : Stored S) :
    nbReadRec mom dim fs = .ok st ↔ readRec mom dim fs = .ok st := by
  rw [c14f_numba_agrees]
  cases readRec mom dim fs <;> simp [Except.mapError]

/-- the compiled view only ever fails with `TypingError`: the `raise AssertionError` branches of `_numba_lower` are dead
code and no getter reads a missing field -/
theorem c14f_numba_error (mom : Bool) (dim : Nat) (fs : List (String × S)) (e : FErr)
    (h : nbReadRec mom dim fs = .error e) : e = .typingError := by
  rw [c14f_numba_agrees] at h
  cases h' : readRec mom dim fs with
  | ok st => simp [h', Except.mapError] at h
  | error e' => simp [h', Except.mapError] at h; exact h.symm

/-- no reader ever reads a field that is not there -/
theorem c14f_no_keyError (mom : Bool) (dim : Nat) (fs : List (String × S)) :
    readRec mom dim fs ≠ .error .keyError ∧ nbReadRec mom dim fs ≠ .error .keyError ∧
      nbReadRec mom dim fs ≠ .error .assertionError := by
  refine ⟨fun h => ?_, fun h => ?_, fun h => ?_⟩
  · exact absurd (c14f_read_error mom dim (look fs) _ h) (by decide)
  · exact absurd (c14f_numba_error mom dim fs _ h) (by decide)
  · exact absurd (c14f_numba_error mom dim fs _ h) (by decide)

/-! ## 4. field order (`c14f_order`) -/

/-- every reader depends only on the name → value map, not on the order of the fields -/
theorem c14f_order (mom : Bool) (dim : Nat) (fs fs' : List (String × S)) (hp : fs.Perm fs')
    (hnd : (fieldNames fs).Nodup) : readRec mom dim fs = readRec mom dim fs' := by
  simp only [readRec, c14f_look_perm fs fs' hp hnd]

theorem c14f_order_numba (mom : Bool) (dim : Nat) (fs fs' : List (String × S)) (hp : fs.Perm fs')
    (hnd : (fieldNames fs).Nodup) : nbReadRec mom dim fs = nbReadRec mom dim fs' := by
  simp only [c14f_nbReadRec_eq, c14f_look_perm fs fs' hp hnd]

theorem c14f_order_numba_dtype {D : Type} [DecidableEq D] (dt : S → D) (mom : Bool) (dim : Nat)
    (fs fs' : List (String × S)) (hp : fs.Perm fs') (hnd : (fieldNames fs).Nodup) :
    nbReadRecD dt mom dim fs = nbReadRecD dt mom dim fs' := by
  simp only [c14f_nbReadRecD_eq, c14f_look_perm fs fs' hp hnd]

/-- the six interpreter chains one by one -/
theorem c14f_order_chains (fs fs' : List (String × S)) (hp : fs.Perm fs') (hnd : (fieldNames fs).Nodup) :
    azFields fs = azFields fs' ∧ azMomFields fs = azMomFields fs' ∧ lonFields fs = lonFields fs' ∧
      lonMomFields fs = lonMomFields fs' ∧ tmpFields fs = tmpFields fs' ∧ tmpMomFields fs = tmpMomFields fs' := by
  simp only [azFields, azMomFields, lonFields, lonMomFields, tmpFields, tmpMomFields, c14f_look_perm fs fs' hp hnd,
    and_self]

/-- numba typing and lowering look at the SET of names only -/
theorem c14f_order_typing (mom : Bool) (dim : Nat) (names names' : List String) (hp : names.Perm names') :
    nbType mom dim names = nbType mom dim names' ∧ ∀ ty, nbLower ty names = nbLower ty names' := by
  have : (fun n => names.contains n) = (fun n => names'.contains n) := by
    funext n
    rw [Bool.eq_iff_iff]
    simp [hp.mem_iff]
  simp only [nbType, nbLower, this, implies_true, and_self]

/-! ## 5. extra fields (`c14f_extras`), generic records and momentum-named fields -/

/-- the interpreter reads coordinate names only … -/
theorem c14f_extras_map (mom : Bool) (dim : Nat) (fs fs' : List (String × S))
    (h : ∀ n ∈ coordFieldNames, look fs n = look fs' n) : readRec mom dim fs = readRec mom dim fs' :=
  readM_congr mom dim _ _ h

/-- … and so does the compiled code -/
theorem c14f_extras_map_numba (mom : Bool) (dim : Nat) (fs fs' : List (String × S))
    (h : ∀ n ∈ coordFieldNames, look fs n = look fs' n) : nbReadRec mom dim fs = nbReadRec mom dim fs' := by
  rw [c14f_numba_agrees, c14f_numba_agrees, c14f_extras_map mom dim fs fs' h]

private theorem look_filter (q : String → Bool) (fs : List (String × S)) (n : String) (hq : q n = true) :
    look (fs.filter (fun f => q f.1)) n = look fs n := by
  simp only [look, lookup_filter_name, hq, if_true]

/-- fields whose name is not one of the 19 coordinate spellings never influence a reader: dropping them all changes
nothing -/
theorem c14f_extras (mom : Bool) (dim : Nat) (fs : List (String × S)) :
    readRec mom dim (fs.filter (fun f => coordFieldNames.contains f.1)) = readRec mom dim fs ∧
    nbReadRec mom dim (fs.filter (fun f => coordFieldNames.contains f.1)) = nbReadRec mom dim fs := by
  have h : ∀ n ∈ coordFieldNames, look (fs.filter (fun f => coordFieldNames.contains f.1)) n = look fs n :=
    fun n hn => look_filter (fun n => coordFieldNames.contains n) fs n (by simpa using hn)
  exact ⟨c14f_extras_map mom dim _ _ h, c14f_extras_map_numba mom dim _ _ h⟩

/-- … and neither does inserting one anywhere -/
theorem c14f_extras_insert (mom : Bool) (dim : Nat) (l₁ l₂ : List (String × S)) (n : String) (v : S)
    (hn : n ∉ coordFieldNames) :
    readRec mom dim (l₁ ++ (n, v) :: l₂) = readRec mom dim (l₁ ++ l₂) ∧
    nbReadRec mom dim (l₁ ++ (n, v) :: l₂) = nbReadRec mom dim (l₁ ++ l₂) := by
  have h : ∀ m ∈ coordFieldNames, look (l₁ ++ (n, v) :: l₂) m = look (l₁ ++ l₂) m := by
    intro m hm
    have hmn : (m == n) = false := by
      simp only [beq_eq_false_iff_ne, ne_eq]
      rintro rfl; exact hn hm
    simp only [look, List.lookup_append, List.lookup_cons, hmn]
  exact ⟨c14f_extras_map mom dim _ _ h, c14f_extras_map_numba mom dim _ _ h⟩

/-- generic records (`Vector2D/3D/4D`) read the nine generic names only … -/
theorem c14f_generic_map (dim : Nat) (fs fs' : List (String × S))
    (h : ∀ n ∈ genericNames, look fs n = look fs' n) :
    readRec false dim fs = readRec false dim fs' ∧ nbReadRec false dim fs = nbReadRec false dim fs' := by
  have := readM_congr_generic dim _ _ h
  refine ⟨this, ?_⟩
  rw [c14f_numba_agrees, c14f_numba_agrees]
  simp only [readRec, this]

/-- … so they ignore every momentum spelling: fields named px, py, pt, pz, E, e, energy, M, m, mass are plain extras -/
theorem c14f_generic_ignores_momentum (dim : Nat) (fs : List (String × S)) :
    readRec false dim (fs.filter (fun f => !momentumNames.contains f.1)) = readRec false dim fs ∧
    nbReadRec false dim (fs.filter (fun f => !momentumNames.contains f.1)) = nbReadRec false dim fs := by
  apply c14f_generic_map
  intro n hn
  apply look_filter (fun n => !momentumNames.contains n) fs n
  revert n
  decide

/-! ## 6. momentum names are exact synonyms (`c14f_synonym_*`) -/

private theorem look_rename (a b : String) (hab : a ≠ b) (fs : List (String × S)) (hb : b ∉ fieldNames fs)
    (n : String) :
    look (rename a b fs) n = if n = b then look fs a else if n = a then none else look fs n :=
  lookup_rename a b hab fs hb n

private theorem look_none (fs : List (String × S)) (n : String) (h : n ∉ fieldNames fs) : look fs n = none := by
  simp only [look, List.lookup_eq_none_iff]
  intro p hp
  simp only [bne_iff_ne, ne_eq]
  rintro rfl
  exact h (List.mem_map.2 ⟨p, hp, rfl⟩)

/-- x → px -/
theorem c14f_synonym_x (dim : Nat) (fs : List (String × S)) (h : "px" ∉ fieldNames fs) :
    readRec true dim (rename "x" "px" fs) = readRec true dim fs := by
  have h0 := look_none fs _ h
  simp only [readRec, readM, azOfM, lonOfM, tmpOfM, c14f_priority_az_mom, c14f_priority_lon_mom,
    c14f_priority_tmp_mom, if_true, look_rename "x" "px" (by decide) fs h]
  simp [h0]

end
end VG
