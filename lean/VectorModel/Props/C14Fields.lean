/-
Properties C14 / C07 / C18 of the FIELD LOOKUP chains of the Awkward backend (model: `Glue/Fields.lean`): the interpreter's
`from_fields` / `from_momentum_fields`, the numba typer (`_aztype_of`, `_ltype_of`, `_ttype_of`) and the numba lowering
(`_numba_lower` + getters).  For ALL scalar types `S`, all dimensions, both flavors.

0. `c14f_look_perm`, `c14f_names_contains` — a field list with distinct names is its name → value map.
1. `c14f_priority_*` — CLOSED FORMS of the six interpreter chains: x-y before rho-phi, z before theta before eta, t before
   tau, and per coordinate the generic spelling before the momentum ones (`x`>`px`, `t`>`E`>`e`>`energy`, …);
   `c14f_read_error` (only `ValueError`).
3. `c14f_numba_agrees` (+ `_map`, `_ok`, `c14f_numba_error`, `c14f_no_keyError`) — compiled = interpreted on the VALUES for
   EVERY field list; the `raise AssertionError` branches of `_numba_lower` are dead.
4. `c14f_order`, `c14f_order_numba`, `c14f_order_numba_dtype`, `c14f_order_chains`, `c14f_order_typing` — field order.
5. `c14f_extras`, `c14f_extras_insert`, `c14f_extras_map(_numba)`, `c14f_extras_dtype` (section 10) — non-coordinate fields;
   `c14f_generic_map`, `c14f_generic_ignores_momentum` — generic records read the nine generic names only.
6. `c14f_synonym_x … c14f_synonym_tau_mass`, `c14f_synonym` (all ten), `c14f_synonym_needs_hypothesis`.
7. typing order vs lowering order: `c14f_typer_prefers_momentum`, `c14f_lowering_prefers_generic`,
   `c14f_numba_dtype_same_fields`, `c14f_numba_dtype_generic`, `c14f_numba_dtype_single`, `c14f_numba_dtype_uniform` (no
   conflict) and `c14f_numba_dtype_conflict(_x)`, `c14f_numba_dtype_witness(_others)` — THE DEVIATION: a momentum record with
   `x` and `px` of different dtypes is read by the interpreter and rejected by the compiler (`TypingError`).
8. `_wrap_result` (repair 17af0b2): `c14f_wrap_fresh_az`, `c14f_wrap_fresh_full`, `c14f_wrap_realWrap`,
   `c14f_wrap_passthrough_az`, `c14f_wrap_passthrough_azLon`.
9. examples: the (px, py, eta, mass, charge) record.
-/
import VectorModel.Glue.Fields
import VectorModel.Props.C18

set_option linter.unusedVariables false
set_option linter.unusedSimpArgs false
set_option linter.constructorNameAsVariable false
namespace VG
open VK

section
variable {S : Type}

/-! ## 0. field lists as maps -/

private theorem lookup_eq_some_iff_mem (fs : List (String × S)) (hnd : (fieldNames fs).Nodup) (n : String) (v : S) :
    List.lookup n fs = some v ↔ (n, v) ∈ fs := by
  induction fs with
  | nil => simp
  | cons kv fs ih =>
    obtain ⟨k, w⟩ := kv
    simp only [fieldNames, List.map_cons, List.nodup_cons] at hnd
    have ih := ih hnd.2
    simp only [List.lookup_cons, List.mem_cons, Prod.mk.injEq]
    by_cases hk : n = k
    · subst hk
      simp only [BEq.rfl, Option.some.injEq, true_and]
      constructor
      · intro h; exact Or.inl h.symm
      · rintro (h | h)
        · exact h.symm
        · exact absurd (List.mem_map.2 ⟨(n, v), h, rfl⟩) hnd.1
    · have : (n == k) = false := by simpa using hk
      simp only [this, hk, false_and, false_or]
      exact ih

/-- a field list with distinct names IS its name → value map: permuting the fields does not change it -/
theorem c14f_look_perm (fs fs' : List (String × S)) (hp : fs.Perm fs') (hnd : (fieldNames fs).Nodup) :
    look fs = look fs' := by
  have hnd' : (fieldNames fs').Nodup := ((hp.map (fun f : String × S => f.1)).nodup_iff).1 hnd
  funext n
  apply Option.ext
  intro v
  simp only [look]
  rw [lookup_eq_some_iff_mem fs hnd, lookup_eq_some_iff_mem fs' hnd', hp.mem_iff]

/-- `name in ak.fields(array)` ⇔ the map has a value -/
theorem c14f_names_contains (fs : List (String × S)) (n : String) :
    (fieldNames fs).contains n = (look fs).has n := by
  simp only [FMap.has, look, fieldNames]
  rw [Bool.eq_iff_iff]
  simp only [List.contains_eq_mem, List.mem_map, decide_eq_true_eq, List.lookup_isSome_iff, beq_iff_eq]
  constructor
  · rintro ⟨p, hp, rfl⟩; exact ⟨p, hp, rfl⟩
  · rintro ⟨p, hp, h⟩; exact ⟨p, hp, h.symm⟩

private theorem lookup_filter_name (q : String → Bool) (fs : List (String × S)) (n : String) :
    List.lookup n (fs.filter (fun f => q f.1)) = if q n then List.lookup n fs else none := by
  induction fs with
  | nil => simp
  | cons kv fs ih =>
    obtain ⟨k, w⟩ := kv
    by_cases hk : n = k
    · subst hk
      by_cases hq : q n <;> simp [List.filter_cons, List.lookup_cons, hq, ih]
    · have hb : (n == k) = false := by simpa using hk
      by_cases hq : q k <;> simp [List.filter_cons, List.lookup_cons, hq, ih, hb]

private theorem lookup_rename (a b : String) (hab : a ≠ b) (fs : List (String × S)) (hb : b ∉ fieldNames fs)
    (n : String) :
    List.lookup n (rename a b fs) = if n = b then List.lookup a fs else if n = a then none else List.lookup n fs := by
  induction fs with
  | nil => simp [rename]
  | cons kv fs ih =>
    obtain ⟨k, w⟩ := kv
    simp only [fieldNames, List.map_cons, List.mem_cons, not_or] at hb
    have ih := ih hb.2
    simp only [rename, List.map_cons] at ih ⊢
    by_cases hka : k = a
    · subst hka
      simp only [BEq.rfl, if_true, List.lookup_cons]
      by_cases hnb : n = b
      · subst hnb; simp
      · have h1 : (n == b) = false := by simpa using hnb
        simp only [h1, ih, hnb, if_false]
        by_cases hnk : n = k
        · simp [hnk]
        · have h2 : (n == k) = false := by simpa using hnk
          simp [hnk, h2]
    · have h0 : (k == a) = false := by simpa using hka
      simp only [h0, List.lookup_cons, Bool.false_eq_true, if_false]
      by_cases hnk : n = k
      · subst hnk
        have : n ≠ b := fun h => hb.1 h.symm
        simp [this, hka]
      · have h2 : (n == k) = false := by simpa using hnk
        have h3 : (a == k) = false := by simpa using (fun h : a = k => hka h.symm)
        simp only [h2, ih, h3]

/-! ## 1. what the chains compute: closed forms (`c14f_priority`)

Every interpreter chain is a priority list: x-y before rho-phi, z before theta before eta, t before tau; within one
coordinate the GENERIC spelling wins over the momentum one (`x` over `px`, … `t` over `E` over `e` over `energy`,
`tau` over `M` over `m` over `mass`), each coordinate independently. -/

/-- generic records: x-y first, then rho-phi; nothing else is looked at -/
theorem c14f_priority_az (g : FMap S) :
    azFieldsM g =
      match g "x", g "y" with
      | some x, some y => .ok (.xy, x, y)
      | _, _ =>
        match g "rho", g "phi" with
        | some r, some p => .ok (.rhophi, r, p)
        | _, _ => .error .valueError := by
  unfold azFieldsM FMap.has rd2
  cases g "x" <;> cases g "y" <;> cases g "rho" <;> cases g "phi" <;> rfl

/-- momentum records: x-y (each of `x`/`px` and `y`/`py`, generic spelling first) before rho-phi (`rho` before `pt`) -/
theorem c14f_priority_az_mom (g : FMap S) :
    azMomFieldsM g =
      match (g "x").or (g "px"), (g "y").or (g "py") with
      | some x, some y => .ok (.xy, x, y)
      | _, _ =>
        match (g "rho").or (g "pt"), g "phi" with
        | some r, some p => .ok (.rhophi, r, p)
        | _, _ => .error .valueError := by
  unfold azMomFieldsM FMap.has rd2
  cases g "x" <;> cases g "y" <;> cases g "px" <;> cases g "py" <;> cases g "rho" <;> cases g "pt" <;>
    cases g "phi" <;> rfl

/-- z before theta before eta -/
theorem c14f_priority_lon (g : FMap S) :
    lonFieldsM g =
      match g "z" with
      | some z => .ok (.z, z)
      | none =>
        match g "theta" with
        | some th => .ok (.theta, th)
        | none =>
          match g "eta" with
          | some e => .ok (.eta, e)
          | none => .error .valueError := by
  unfold lonFieldsM FMap.has rd1
  cases g "z" <;> cases g "theta" <;> cases g "eta" <;> rfl

/-- `z` before `pz`, then theta, then eta -/
theorem c14f_priority_lon_mom (g : FMap S) :
    lonMomFieldsM g =
      match (g "z").or (g "pz") with
      | some z => .ok (.z, z)
      | none =>
        match g "theta" with
        | some th => .ok (.theta, th)
        | none =>
          match g "eta" with
          | some e => .ok (.eta, e)
          | none => .error .valueError := by
  unfold lonMomFieldsM FMap.has rd1
  cases g "z" <;> cases g "pz" <;> cases g "theta" <;> cases g "eta" <;> rfl

/-- t before tau -/
theorem c14f_priority_tmp (g : FMap S) :
    tmpFieldsM g =
      match g "t" with
      | some t => .ok (.t, t)
      | none =>
        match g "tau" with
        | some tau => .ok (.tau, tau)
        | none => .error .valueError := by
  unfold tmpFieldsM FMap.has rd1
  cases g "t" <;> cases g "tau" <;> rfl

/-- `t`, `E`, `e`, `energy` (in this order) before `tau`, `M`, `m`, `mass` (in this order) -/
theorem c14f_priority_tmp_mom (g : FMap S) :
    tmpMomFieldsM g =
      match (((g "t").or (g "E")).or (g "e")).or (g "energy") with
      | some t => .ok (.t, t)
      | none =>
        match (((g "tau").or (g "M")).or (g "m")).or (g "mass") with
        | some tau => .ok (.tau, tau)
        | none => .error .valueError := by
  unfold tmpMomFieldsM FMap.has rd1
  cases g "t" <;> cases g "E" <;> cases g "e" <;> cases g "energy" <;> cases g "tau" <;> cases g "M" <;>
    cases g "m" <;> cases g "mass" <;> rfl

/-- with x and y present the interpreter reads x-y, whatever else the record has, in both flavors -/
theorem c14f_priority_xy (mom : Bool) (g : FMap S) (x y : S) (hx : g "x" = some x) (hy : g "y" = some y) :
    azOfM mom g = .ok (.xy, x, y) := by
  cases mom <;> simp [azOfM, c14f_priority_az, c14f_priority_az_mom, hx, hy]

/-- with z present the interpreter reads z, whatever else the record has -/
theorem c14f_priority_z (mom : Bool) (g : FMap S) (z : S) (hz : g "z" = some z) : lonOfM mom g = .ok (.z, z) := by
  cases mom <;> simp [lonOfM, c14f_priority_lon, c14f_priority_lon_mom, hz]

/-- with t present the interpreter reads t, whatever else the record has -/
theorem c14f_priority_t (mom : Bool) (g : FMap S) (t : S) (ht : g "t" = some t) : tmpOfM mom g = .ok (.t, t) := by
  cases mom <;> simp [tmpOfM, c14f_priority_tmp, c14f_priority_tmp_mom, ht]

private theorem azOfM_error (mom : Bool) (g : FMap S) (e : FErr) (h : azOfM mom g = .error e) : e = .valueError := by
  revert h
  cases mom <;> simp only [azOfM, c14f_priority_az, c14f_priority_az_mom, if_true, Bool.false_eq_true, if_false] <;>
    intro h <;> (repeat' split at h) <;> simp_all

private theorem lonOfM_error (mom : Bool) (g : FMap S) (e : FErr) (h : lonOfM mom g = .error e) : e = .valueError := by
  revert h
  cases mom <;> simp only [lonOfM, c14f_priority_lon, c14f_priority_lon_mom, if_true, Bool.false_eq_true, if_false] <;>
    intro h <;> (repeat' split at h) <;> simp_all

private theorem tmpOfM_error (mom : Bool) (g : FMap S) (e : FErr) (h : tmpOfM mom g = .error e) : e = .valueError := by
  revert h
  cases mom <;> simp only [tmpOfM, c14f_priority_tmp, c14f_priority_tmp_mom, if_true, Bool.false_eq_true, if_false] <;>
    intro h <;> (repeat' split at h) <;> simp_all

/-- the interpreter only ever raises `ValueError` -/
theorem c14f_read_error (mom : Bool) (dim : Nat) (g : FMap S) (e : FErr) (h : readM mom dim g = .error e) :
    e = .valueError := by
  unfold readM at h
  split at h
  · rename_i e' he
    simp only [Except.error.injEq] at h; subst h; exact azOfM_error _ _ _ he
  · split at h
    · simp at h
    · split at h
      · rename_i e' he
        simp only [Except.error.injEq] at h; subst h; exact lonOfM_error _ _ _ he
      · split at h
        · simp at h
        · split at h
          · rename_i e' he
            simp only [Except.error.injEq] at h; subst h; exact tmpOfM_error _ _ _ he
          · simp at h

/-! ## 2. the readers only look at coordinate names (`c14f_extras`), generic readers only at generic names -/

private theorem readM_congr (mom : Bool) (dim : Nat) (g g' : FMap S) (h : ∀ n ∈ coordFieldNames, g n = g' n) :
    readM mom dim g = readM mom dim g' := by
  have h1 := h "x" (by decide); have h2 := h "px" (by decide); have h3 := h "y" (by decide)
  have h4 := h "py" (by decide); have h5 := h "rho" (by decide); have h6 := h "pt" (by decide)
  have h7 := h "phi" (by decide); have h8 := h "z" (by decide); have h9 := h "pz" (by decide)
  have h10 := h "theta" (by decide); have h11 := h "eta" (by decide); have h12 := h "t" (by decide)
  have h13 := h "E" (by decide); have h14 := h "e" (by decide); have h15 := h "energy" (by decide)
  have h16 := h "tau" (by decide); have h17 := h "M" (by decide); have h18 := h "m" (by decide)
  have h19 := h "mass" (by decide)
  simp only [readM, azOfM, lonOfM, tmpOfM, c14f_priority_az, c14f_priority_az_mom, c14f_priority_lon,
    c14f_priority_lon_mom, c14f_priority_tmp, c14f_priority_tmp_mom,
    h1, h2, h3, h4, h5, h6, h7, h8, h9, h10, h11, h12, h13, h14, h15, h16, h17, h18, h19]

private theorem readM_congr_generic (dim : Nat) (g g' : FMap S) (h : ∀ n ∈ genericNames, g n = g' n) :
    readM false dim g = readM false dim g' := by
  have h1 := h "x" (by decide); have h3 := h "y" (by decide); have h5 := h "rho" (by decide)
  have h7 := h "phi" (by decide); have h8 := h "z" (by decide)
  have h10 := h "theta" (by decide); have h11 := h "eta" (by decide); have h12 := h "t" (by decide)
  have h16 := h "tau" (by decide)
  simp only [readM, azOfM, lonOfM, tmpOfM, c14f_priority_az, c14f_priority_lon, c14f_priority_tmp,
    Bool.false_eq_true, if_false, h1, h3, h5, h7, h8, h10, h11, h12, h16]

/-! ## 3. compiled = interpreted (`c14f_numba_agrees`) -/

private def okB {ε α : Type} : Except ε α → Bool | .ok _ => true | .error _ => false

/-- azimuthal part of the compiled view: typing, lowering, reading -/
private def nbAzM (mom : Bool) (g : FMap S) : Except FErr (Az × S × S) :=
  match nbAzTypeP mom g.has with
  | .error e => .error e
  | .ok a =>
    match nbLowerAz a.1 g.has with
    | .error e => .error e
    | .ok n => rd2 g a.1 n.1 n.2

private def nbLonM (mom : Bool) (g : FMap S) : Except FErr (Lon × S) :=
  match nbLonTypeP mom g.has with
  | .error e => .error e
  | .ok l =>
    match nbLowerLon l.1 g.has with
    | .error e => .error e
    | .ok n => rd1 g l.1 n

private def nbTmpM (mom : Bool) (g : FMap S) : Except FErr (Tmp × S) :=
  match nbTmpTypeP mom g.has with
  | .error e => .error e
  | .ok t =>
    match nbLowerTmp t.1 g.has with
    | .error e => .error e
    | .ok n => rd1 g t.1 n

private theorem az_spec (mom : Bool) (g : FMap S) :
    (nbAzTypeP mom g.has = .error .typingError ∧ azOfM mom g = .error .valueError) ∨
    (okB (nbAzTypeP mom g.has) = true ∧ nbAzM mom g = azOfM mom g ∧ okB (azOfM mom g) = true) := by
  cases mom <;> cases hx : g "x" <;> cases hy : g "y" <;> cases hpx : g "px" <;> cases hpy : g "py" <;>
    cases hrho : g "rho" <;> cases hpt : g "pt" <;> cases hphi : g "phi" <;>
    simp [nbAzM, nbAzTypeP, nbLowerAz, idx, FMap.has, rd2, azOfM, azMomFieldsM, azFieldsM, okB,
      hx, hy, hpx, hpy, hrho, hpt, hphi]

private theorem lon_spec (mom : Bool) (g : FMap S) :
    (nbLonTypeP mom g.has = .error .typingError ∧ lonOfM mom g = .error .valueError) ∨
    (okB (nbLonTypeP mom g.has) = true ∧ nbLonM mom g = lonOfM mom g ∧ okB (lonOfM mom g) = true) := by
  cases mom <;> cases hz : g "z" <;> cases hpz : g "pz" <;> cases hth : g "theta" <;> cases heta : g "eta" <;>
    simp [nbLonM, nbLonTypeP, nbLowerLon, idx, FMap.has, rd1, lonOfM, lonMomFieldsM, lonFieldsM, okB,
      hz, hpz, hth, heta]

private theorem tmp_spec (mom : Bool) (g : FMap S) :
    (nbTmpTypeP mom g.has = .error .typingError ∧ tmpOfM mom g = .error .valueError) ∨
    (okB (nbTmpTypeP mom g.has) = true ∧ nbTmpM mom g = tmpOfM mom g ∧ okB (tmpOfM mom g) = true) := by
  cases mom <;> cases ht : g "t" <;> cases hE : g "E" <;> cases he : g "e" <;> cases hen : g "energy" <;>
    cases htau : g "tau" <;> cases hM : g "M" <;> cases hm : g "m" <;> cases hmass : g "mass" <;>
    simp [nbTmpM, nbTmpTypeP, nbLowerTmp, idx, FMap.has, rd1, tmpOfM, tmpMomFieldsM, tmpFieldsM, okB,
      ht, hE, he, hen, htau, hM, hm, hmass]

private theorem az_parts (mom : Bool) (g : FMap S) (h : okB (nbAzTypeP mom g.has) = true)
    (hM : nbAzM mom g = azOfM mom g) (hI : okB (azOfM mom g) = true) :
    ∃ a n az, nbAzTypeP mom g.has = .ok a ∧ nbLowerAz a.1 g.has = .ok n ∧ rd2 g a.1 n.1 n.2 = .ok az ∧
      azOfM mom g = .ok az := by
  cases hA' : nbAzTypeP mom g.has with
  | error e => simp [hA', okB] at h
  | ok a =>
    cases hI' : azOfM mom g with
    | error e => simp [hI', okB] at hI
    | ok az =>
      have hM' : nbAzM mom g = .ok az := by rw [hM, hI']
      simp only [nbAzM, hA'] at hM'
      cases hn : nbLowerAz a.1 g.has with
      | error e => simp [hn] at hM'
      | ok n =>
        simp only [hn] at hM'
        exact ⟨a, n, az, rfl, hn, hM', rfl⟩

private theorem lon_parts (mom : Bool) (g : FMap S) (h : okB (nbLonTypeP mom g.has) = true)
    (hM : nbLonM mom g = lonOfM mom g) (hI : okB (lonOfM mom g) = true) :
    ∃ l n lon, nbLonTypeP mom g.has = .ok l ∧ nbLowerLon l.1 g.has = .ok n ∧ rd1 g l.1 n = .ok lon ∧
      lonOfM mom g = .ok lon := by
  cases hA' : nbLonTypeP mom g.has with
  | error e => simp [hA', okB] at h
  | ok a =>
    cases hI' : lonOfM mom g with
    | error e => simp [hI', okB] at hI
    | ok az =>
      have hM' : nbLonM mom g = .ok az := by rw [hM, hI']
      simp only [nbLonM, hA'] at hM'
      cases hn : nbLowerLon a.1 g.has with
      | error e => simp [hn] at hM'
      | ok n =>
        simp only [hn] at hM'
        exact ⟨a, n, az, rfl, hn, hM', rfl⟩

private theorem tmp_parts (mom : Bool) (g : FMap S) (h : okB (nbTmpTypeP mom g.has) = true)
    (hM : nbTmpM mom g = tmpOfM mom g) (hI : okB (tmpOfM mom g) = true) :
    ∃ t n tmp, nbTmpTypeP mom g.has = .ok t ∧ nbLowerTmp t.1 g.has = .ok n ∧ rd1 g t.1 n = .ok tmp ∧
      tmpOfM mom g = .ok tmp := by
  cases hA' : nbTmpTypeP mom g.has with
  | error e => simp [hA', okB] at h
  | ok a =>
    cases hI' : tmpOfM mom g with
    | error e => simp [hI', okB] at hI
    | ok az =>
      have hM' : nbTmpM mom g = .ok az := by rw [hM, hI']
      simp only [nbTmpM, hA'] at hM'
      cases hn : nbLowerTmp a.1 g.has with
      | error e => simp [hn] at hM'
      | ok n =>
        simp only [hn] at hM'
        exact ⟨a, n, az, rfl, hn, hM', rfl⟩

/-- COMPILED = INTERPRETED on the values, for EVERY record (any number of spellings, any number of systems, any extras):
the numba typer + lowering + getters find the same coordinate systems and read the same fields as the interpreter chains;
where the interpreter raises `ValueError` the compilation fails with `TypingError` — and the lowering never reaches its
`raise AssertionError`, no getter reads a missing field. -/
theorem c14f_numba_agrees_map (mom : Bool) (dim : Nat) (g : FMap S) :
    nbReadM mom dim g = (readM mom dim g).mapError (fun _ => FErr.typingError) := by
  unfold nbReadM readM nbTypeP
  rcases az_spec mom g with ⟨hA, hI⟩ | ⟨hA, hM, hI⟩
  · simp [hA, hI, Except.mapError]
  · obtain ⟨a, n, az, hA, hn, hr, hI⟩ := az_parts mom g hA hM hI
    by_cases hd : dim < 3
    · simp [hA, hI, hd, nbLowerP, hn, nbImpl, hr, Except.mapError]
    · rcases lon_spec mom g with ⟨hL, hIL⟩ | ⟨hL, hML, hIL⟩
      · simp [hA, hI, hd, hL, hIL, Except.mapError]
      · obtain ⟨l, ln, lon, hL, hln, hrl, hIL⟩ := lon_parts mom g hL hML hIL
        by_cases hd4 : dim < 4
        · simp [hA, hI, hd, hd4, hL, hIL, nbLowerP, hn, hln, nbImpl, hr, hrl, Except.mapError]
        · rcases tmp_spec mom g with ⟨hT, hIT⟩ | ⟨hT, hMT, hIT⟩
          · simp [hA, hI, hd, hd4, hL, hIL, hT, hIT, Except.mapError]
          · obtain ⟨t, tn, tmp, hT, htn, hrt, hIT⟩ := tmp_parts mom g hT hMT hIT
            simp [hA, hI, hd, hd4, hL, hIL, hT, hIT, nbLowerP, hn, hln, htn, nbImpl, hr, hrl, hrt, Except.mapError]

private theorem has_eq (fs : List (String × S)) : (fun n => (fieldNames fs).contains n) = (look fs).has :=
  funext (c14f_names_contains fs)

/-- the name-list form of the compiled view is the map form -/
theorem c14f_nbReadRec_eq (mom : Bool) (dim : Nat) (fs : List (String × S)) :
    nbReadRec mom dim fs = nbReadM mom dim (look fs) := by
  simp only [nbReadRec, nbReadM, nbType, nbLower, has_eq]

theorem c14f_nbReadRecD_eq {D : Type} [DecidableEq D] (dt : S → D) (mom : Bool) (dim : Nat) (fs : List (String × S)) :
    nbReadRecD dt mom dim fs = nbReadDM dt mom dim (look fs) := by
  simp only [nbReadRecD, nbReadDM, nbType, nbLower, has_eq]

/-- COMPILED = INTERPRETED on the values, for every field list -/
theorem c14f_numba_agrees (mom : Bool) (dim : Nat) (fs : List (String × S)) :
    nbReadRec mom dim fs = (readRec mom dim fs).mapError (fun _ => FErr.typingError) := by
  rw [c14f_nbReadRec_eq, readRec, c14f_numba_agrees_map]

/-- … in particular: the compiled code succeeds exactly when the interpreter does, with the same systems and values -/
theorem c14f_numba_agrees_ok (mom : Bool) (dim : Nat) (fs : List (String × S)) (st : Stored S) :
    nbReadRec mom dim fs = .ok st ↔ readRec mom dim fs = .ok st := by
  rw [c14f_numba_agrees]
  cases readRec mom dim fs <;> simp [Except.mapError]

/-- the compiled view only ever fails with `TypingError`: the `raise AssertionError` branches of `_numba_lower` are dead
code and no getter reads a missing field -/
theorem c14f_numba_error (mom : Bool) (dim : Nat) (fs : List (String × S)) (e : FErr)
    (h : nbReadRec mom dim fs = .error e) : e = .typingError := by
  rw [c14f_numba_agrees] at h
  cases h' : readRec mom dim fs with
  | ok st => simp [h', Except.mapError] at h
  | error e' => simp [h', Except.mapError] at h; exact h.symm

/-- no reader ever reads a field that is not there -/
theorem c14f_no_keyError (mom : Bool) (dim : Nat) (fs : List (String × S)) :
    readRec mom dim fs ≠ .error .keyError ∧ nbReadRec mom dim fs ≠ .error .keyError ∧
      nbReadRec mom dim fs ≠ .error .assertionError := by
  refine ⟨fun h => ?_, fun h => ?_, fun h => ?_⟩
  · exact absurd (c14f_read_error mom dim (look fs) _ h) (by decide)
  · exact absurd (c14f_numba_error mom dim fs _ h) (by decide)
  · exact absurd (c14f_numba_error mom dim fs _ h) (by decide)

/-! ## 4. field order (`c14f_order`) -/

/-- every reader depends only on the name → value map, not on the order of the fields -/
theorem c14f_order (mom : Bool) (dim : Nat) (fs fs' : List (String × S)) (hp : fs.Perm fs')
    (hnd : (fieldNames fs).Nodup) : readRec mom dim fs = readRec mom dim fs' := by
  simp only [readRec, c14f_look_perm fs fs' hp hnd]

theorem c14f_order_numba (mom : Bool) (dim : Nat) (fs fs' : List (String × S)) (hp : fs.Perm fs')
    (hnd : (fieldNames fs).Nodup) : nbReadRec mom dim fs = nbReadRec mom dim fs' := by
  simp only [c14f_nbReadRec_eq, c14f_look_perm fs fs' hp hnd]

theorem c14f_order_numba_dtype {D : Type} [DecidableEq D] (dt : S → D) (mom : Bool) (dim : Nat)
    (fs fs' : List (String × S)) (hp : fs.Perm fs') (hnd : (fieldNames fs).Nodup) :
    nbReadRecD dt mom dim fs = nbReadRecD dt mom dim fs' := by
  simp only [c14f_nbReadRecD_eq, c14f_look_perm fs fs' hp hnd]

/-- the six interpreter chains one by one -/
theorem c14f_order_chains (fs fs' : List (String × S)) (hp : fs.Perm fs') (hnd : (fieldNames fs).Nodup) :
    azFields fs = azFields fs' ∧ azMomFields fs = azMomFields fs' ∧ lonFields fs = lonFields fs' ∧
      lonMomFields fs = lonMomFields fs' ∧ tmpFields fs = tmpFields fs' ∧ tmpMomFields fs = tmpMomFields fs' := by
  simp only [azFields, azMomFields, lonFields, lonMomFields, tmpFields, tmpMomFields, c14f_look_perm fs fs' hp hnd,
    and_self]

/-- numba typing and lowering look at the SET of names only -/
theorem c14f_order_typing (mom : Bool) (dim : Nat) (names names' : List String) (hp : names.Perm names') :
    nbType mom dim names = nbType mom dim names' ∧ ∀ ty, nbLower ty names = nbLower ty names' := by
  have : (fun n => names.contains n) = (fun n => names'.contains n) := by
    funext n
    rw [Bool.eq_iff_iff]
    simp [hp.mem_iff]
  simp only [nbType, nbLower, this, implies_true, and_self]

/-! ## 5. extra fields (`c14f_extras`), generic records and momentum-named fields -/

/-- the interpreter reads coordinate names only … -/
theorem c14f_extras_map (mom : Bool) (dim : Nat) (fs fs' : List (String × S))
    (h : ∀ n ∈ coordFieldNames, look fs n = look fs' n) : readRec mom dim fs = readRec mom dim fs' :=
  readM_congr mom dim _ _ h

/-- … and so does the compiled code -/
theorem c14f_extras_map_numba (mom : Bool) (dim : Nat) (fs fs' : List (String × S))
    (h : ∀ n ∈ coordFieldNames, look fs n = look fs' n) : nbReadRec mom dim fs = nbReadRec mom dim fs' := by
  rw [c14f_numba_agrees, c14f_numba_agrees, c14f_extras_map mom dim fs fs' h]

private theorem look_filter (q : String → Bool) (fs : List (String × S)) (n : String) (hq : q n = true) :
    look (fs.filter (fun f => q f.1)) n = look fs n := by
  simp only [look, lookup_filter_name, hq, if_true]

/-- fields whose name is not one of the 19 coordinate spellings never influence a reader: dropping them all changes
nothing -/
theorem c14f_extras (mom : Bool) (dim : Nat) (fs : List (String × S)) :
    readRec mom dim (fs.filter (fun f => coordFieldNames.contains f.1)) = readRec mom dim fs ∧
    nbReadRec mom dim (fs.filter (fun f => coordFieldNames.contains f.1)) = nbReadRec mom dim fs := by
  have h : ∀ n ∈ coordFieldNames, look (fs.filter (fun f => coordFieldNames.contains f.1)) n = look fs n :=
    fun n hn => look_filter (fun n => coordFieldNames.contains n) fs n (by simpa using hn)
  exact ⟨c14f_extras_map mom dim _ _ h, c14f_extras_map_numba mom dim _ _ h⟩

/-- … and neither does inserting one anywhere -/
theorem c14f_extras_insert (mom : Bool) (dim : Nat) (l₁ l₂ : List (String × S)) (n : String) (v : S)
    (hn : n ∉ coordFieldNames) :
    readRec mom dim (l₁ ++ (n, v) :: l₂) = readRec mom dim (l₁ ++ l₂) ∧
    nbReadRec mom dim (l₁ ++ (n, v) :: l₂) = nbReadRec mom dim (l₁ ++ l₂) := by
  have h : ∀ m ∈ coordFieldNames, look (l₁ ++ (n, v) :: l₂) m = look (l₁ ++ l₂) m := by
    intro m hm
    have hmn : (m == n) = false := by
      simp only [beq_eq_false_iff_ne, ne_eq]
      rintro rfl; exact hn hm
    simp only [look, List.lookup_append, List.lookup_cons, hmn]
  exact ⟨c14f_extras_map mom dim _ _ h, c14f_extras_map_numba mom dim _ _ h⟩

/-- generic records (`Vector2D/3D/4D`) read the nine generic names only … -/
theorem c14f_generic_map (dim : Nat) (fs fs' : List (String × S))
    (h : ∀ n ∈ genericNames, look fs n = look fs' n) :
    readRec false dim fs = readRec false dim fs' ∧ nbReadRec false dim fs = nbReadRec false dim fs' := by
  have := readM_congr_generic dim _ _ h
  refine ⟨this, ?_⟩
  rw [c14f_numba_agrees, c14f_numba_agrees]
  simp only [readRec, this]

/-- … so they ignore every momentum spelling: fields named px, py, pt, pz, E, e, energy, M, m, mass are plain extras -/
theorem c14f_generic_ignores_momentum (dim : Nat) (fs : List (String × S)) :
    readRec false dim (fs.filter (fun f => !momentumNames.contains f.1)) = readRec false dim fs ∧
    nbReadRec false dim (fs.filter (fun f => !momentumNames.contains f.1)) = nbReadRec false dim fs := by
  apply c14f_generic_map
  intro n hn
  apply look_filter (fun n => !momentumNames.contains n) fs n
  revert n
  decide

/-! ## 6. momentum names are exact synonyms (`c14f_synonym_*`) -/

private theorem look_rename (a b : String) (hab : a ≠ b) (fs : List (String × S)) (hb : b ∉ fieldNames fs)
    (n : String) :
    look (rename a b fs) n = if n = b then look fs a else if n = a then none else look fs n :=
  lookup_rename a b hab fs hb n

private theorem look_none (fs : List (String × S)) (n : String) (h : n ∉ fieldNames fs) : look fs n = none := by
  simp only [look, List.lookup_eq_none_iff]
  intro p hp
  simp only [bne_iff_ne, ne_eq]
  rintro rfl
  exact h (List.mem_map.2 ⟨p, hp, rfl⟩)

/-- x → px -/
theorem c14f_synonym_x (dim : Nat) (fs : List (String × S)) (h : "px" ∉ fieldNames fs) :
    readRec true dim (rename "x" "px" fs) = readRec true dim fs := by
  have h0 := look_none fs _ h
  simp only [readRec, readM, azOfM, lonOfM, tmpOfM, c14f_priority_az_mom, c14f_priority_lon_mom,
    c14f_priority_tmp_mom, if_true, look_rename "x" "px" (by decide) fs h]
  simp [h0]

/-- y → py -/
theorem c14f_synonym_y (dim : Nat) (fs : List (String × S)) (h0 : "py" ∉ fieldNames fs) :
    readRec true dim (rename "y" "py" fs) = readRec true dim fs := by
  have k0 := look_none fs _ h0
  simp only [readRec, readM, azOfM, lonOfM, tmpOfM, c14f_priority_az_mom, c14f_priority_lon_mom,
    c14f_priority_tmp_mom, if_true, look_rename "y" "py" (by decide) fs h0]
  simp [k0]

/-- rho → pt -/
theorem c14f_synonym_rho (dim : Nat) (fs : List (String × S)) (h0 : "pt" ∉ fieldNames fs) :
    readRec true dim (rename "rho" "pt" fs) = readRec true dim fs := by
  have k0 := look_none fs _ h0
  simp only [readRec, readM, azOfM, lonOfM, tmpOfM, c14f_priority_az_mom, c14f_priority_lon_mom,
    c14f_priority_tmp_mom, if_true, look_rename "rho" "pt" (by decide) fs h0]
  simp [k0]

/-- z → pz -/
theorem c14f_synonym_z (dim : Nat) (fs : List (String × S)) (h0 : "pz" ∉ fieldNames fs) :
    readRec true dim (rename "z" "pz" fs) = readRec true dim fs := by
  have k0 := look_none fs _ h0
  simp only [readRec, readM, azOfM, lonOfM, tmpOfM, c14f_priority_az_mom, c14f_priority_lon_mom,
    c14f_priority_tmp_mom, if_true, look_rename "z" "pz" (by decide) fs h0]
  simp [k0]

/-- t → E (whatever other temporal spellings are present) -/
theorem c14f_synonym_t_E (dim : Nat) (fs : List (String × S)) (h0 : "E" ∉ fieldNames fs) :
    readRec true dim (rename "t" "E" fs) = readRec true dim fs := by
  have k0 := look_none fs _ h0
  simp only [readRec, readM, azOfM, lonOfM, tmpOfM, c14f_priority_az_mom, c14f_priority_lon_mom,
    c14f_priority_tmp_mom, if_true, look_rename "t" "E" (by decide) fs h0]
  simp [k0]

/-- t → e, when `E` (which is looked up before `e`) is absent -/
theorem c14f_synonym_t_e (dim : Nat) (fs : List (String × S)) (h0 : "E" ∉ fieldNames fs) (h1 : "e" ∉ fieldNames fs) :
    readRec true dim (rename "t" "e" fs) = readRec true dim fs := by
  have k0 := look_none fs _ h0
  have k1 := look_none fs _ h1
  simp only [readRec, readM, azOfM, lonOfM, tmpOfM, c14f_priority_az_mom, c14f_priority_lon_mom,
    c14f_priority_tmp_mom, if_true, look_rename "t" "e" (by decide) fs h1]
  simp [k0, k1]

/-- t → energy, when `E` and `e` (looked up before `energy`) are absent -/
theorem c14f_synonym_t_energy (dim : Nat) (fs : List (String × S)) (h0 : "E" ∉ fieldNames fs) (h1 : "e" ∉ fieldNames fs) (h2 : "energy" ∉ fieldNames fs) :
    readRec true dim (rename "t" "energy" fs) = readRec true dim fs := by
  have k0 := look_none fs _ h0
  have k1 := look_none fs _ h1
  have k2 := look_none fs _ h2
  simp only [readRec, readM, azOfM, lonOfM, tmpOfM, c14f_priority_az_mom, c14f_priority_lon_mom,
    c14f_priority_tmp_mom, if_true, look_rename "t" "energy" (by decide) fs h2]
  simp [k0, k1, k2]

/-- tau → M -/
theorem c14f_synonym_tau_M (dim : Nat) (fs : List (String × S)) (h0 : "M" ∉ fieldNames fs) :
    readRec true dim (rename "tau" "M" fs) = readRec true dim fs := by
  have k0 := look_none fs _ h0
  simp only [readRec, readM, azOfM, lonOfM, tmpOfM, c14f_priority_az_mom, c14f_priority_lon_mom,
    c14f_priority_tmp_mom, if_true, look_rename "tau" "M" (by decide) fs h0]
  simp [k0]

/-- tau → m, when `M` is absent -/
theorem c14f_synonym_tau_m (dim : Nat) (fs : List (String × S)) (h0 : "M" ∉ fieldNames fs) (h1 : "m" ∉ fieldNames fs) :
    readRec true dim (rename "tau" "m" fs) = readRec true dim fs := by
  have k0 := look_none fs _ h0
  have k1 := look_none fs _ h1
  simp only [readRec, readM, azOfM, lonOfM, tmpOfM, c14f_priority_az_mom, c14f_priority_lon_mom,
    c14f_priority_tmp_mom, if_true, look_rename "tau" "m" (by decide) fs h1]
  simp [k0, k1]

/-- tau → mass, when `M` and `m` are absent -/
theorem c14f_synonym_tau_mass (dim : Nat) (fs : List (String × S)) (h0 : "M" ∉ fieldNames fs) (h1 : "m" ∉ fieldNames fs) (h2 : "mass" ∉ fieldNames fs) :
    readRec true dim (rename "tau" "mass" fs) = readRec true dim fs := by
  have k0 := look_none fs _ h0
  have k1 := look_none fs _ h1
  have k2 := look_none fs _ h2
  simp only [readRec, readM, azOfM, lonOfM, tmpOfM, c14f_priority_az_mom, c14f_priority_lon_mom,
    c14f_priority_tmp_mom, if_true, look_rename "tau" "mass" (by decide) fs h2]
  simp [k0, k1, k2]

/-- ALL ten synonyms at once: renaming one field to its momentum synonym, when no other spelling of the same coordinate
is present, changes neither what the interpreter nor what the compiled code reads from a momentum record -/
theorem c14f_synonym (dim : Nat) (fs : List (String × S)) (a b : String) (hab : (a, b) ∈ synonymTable)
    (h : ∀ s ∈ spellings a, s ≠ a → s ∉ fieldNames fs) :
    readRec true dim (rename a b fs) = readRec true dim fs ∧
    nbReadRec true dim (rename a b fs) = nbReadRec true dim fs := by
  have key : readRec true dim (rename a b fs) = readRec true dim fs := by
    simp only [synonymTable, List.mem_cons, Prod.mk.injEq, List.not_mem_nil, or_false] at hab
    rcases hab with ⟨rfl, rfl⟩ | ⟨rfl, rfl⟩ | ⟨rfl, rfl⟩ | ⟨rfl, rfl⟩ | ⟨rfl, rfl⟩ | ⟨rfl, rfl⟩ | ⟨rfl, rfl⟩ |
      ⟨rfl, rfl⟩ | ⟨rfl, rfl⟩ | ⟨rfl, rfl⟩
    · exact c14f_synonym_x dim fs (h "px" (by decide) (by decide))
    · exact c14f_synonym_y dim fs (h "py" (by decide) (by decide))
    · exact c14f_synonym_rho dim fs (h "pt" (by decide) (by decide))
    · exact c14f_synonym_z dim fs (h "pz" (by decide) (by decide))
    · exact c14f_synonym_t_E dim fs (h "E" (by decide) (by decide))
    · exact c14f_synonym_t_e dim fs (h "E" (by decide) (by decide)) (h "e" (by decide) (by decide))
    · exact c14f_synonym_t_energy dim fs (h "E" (by decide) (by decide)) (h "e" (by decide) (by decide))
        (h "energy" (by decide) (by decide))
    · exact c14f_synonym_tau_M dim fs (h "M" (by decide) (by decide))
    · exact c14f_synonym_tau_m dim fs (h "M" (by decide) (by decide)) (h "m" (by decide) (by decide))
    · exact c14f_synonym_tau_mass dim fs (h "M" (by decide) (by decide)) (h "m" (by decide) (by decide))
        (h "mass" (by decide) (by decide))
  exact ⟨key, by rw [c14f_numba_agrees, c14f_numba_agrees, key]⟩

/-- the hypothesis about other spellings cannot be dropped: with `E` present, renaming `t` to `e` hands the temporal
coordinate to `E` (which the chain looks up first) -/
theorem c14f_synonym_needs_hypothesis :
    let fs : List (String × Int) := [("x", 1), ("y", 2), ("z", 3), ("t", 4), ("E", 40)]
    readRec true 4 fs = .ok ⟨(.xy, 1, 2), some (.z, 3), some (.t, 4)⟩ ∧
    readRec true 4 (rename "t" "e" fs) = .ok ⟨(.xy, 1, 2), some (.z, 3), some (.t, 40)⟩ := by
  intro fs
  exact ⟨by rfl, by rfl⟩

/-- the hypotheses are satisfiable: a (px, py, eta, mass, charge) record — `mass` is the only temporal spelling, so it
reads like (px, py, eta, tau, charge) -/
example :
    let fs : List (String × Int) := [("px", 1), ("py", 2), ("eta", 3), ("tau", 4), ("charge", 5)]
    (∀ s ∈ spellings "tau", s ≠ "tau" → s ∉ fieldNames fs) ∧
    rename "tau" "mass" fs = [("px", 1), ("py", 2), ("eta", 3), ("mass", 4), ("charge", 5)] ∧
    readRec true 4 (rename "tau" "mass" fs) = .ok ⟨(.xy, 1, 2), some (.eta, 3), some (.tau, 4)⟩ ∧
    nbReadRec true 4 (rename "tau" "mass" fs) = .ok ⟨(.xy, 1, 2), some (.eta, 3), some (.tau, 4)⟩ ∧
    readRec false 4 (rename "tau" "mass" fs) = .error .valueError := by
  intro fs
  exact ⟨by decide, by rfl, by rfl, by rfl, by rfl⟩

/-! ## 7. typing order vs lowering order: dtypes (`c14f_numba_dtype_*`)

The typer looks the momentum spelling up FIRST (`px` before `x`, `E`/`e`/`energy` before `t`, …), the lowering the generic
one.  For the VALUES this is harmless (section 3: the getters decide, and they agree with the interpreter).  But the
declared type takes its dtypes from the fields the typer found. -/

/-- which field gives the dtype of the first azimuthal coordinate of a momentum record: `px` if present -/
theorem c14f_typer_prefers_momentum (p : String → Bool) :
    (∀ i j, nbAzTypeP true p = .ok (.xy, i, j) →
      i = (if p "px" then "px" else "x") ∧ j = (if p "py" then "py" else "y")) ∧
    (∀ i j, nbAzTypeP true p = .ok (.rhophi, i, j) → i = (if p "pt" then "pt" else "rho") ∧ j = "phi") ∧
    (∀ i, nbLonTypeP true p = .ok (.z, i) → i = (if p "pz" then "pz" else "z")) ∧
    (∀ i, nbTmpTypeP true p = .ok (.t, i) →
      i = (if p "E" then "E" else if p "e" then "e" else if p "energy" then "energy" else "t")) ∧
    (∀ i, nbTmpTypeP true p = .ok (.tau, i) →
      i = (if p "M" then "M" else if p "m" then "m" else if p "mass" then "mass" else "tau")) := by
  refine ⟨?_, ?_, ?_, ?_, ?_⟩
  · intro i j
    cases h1 : p "x" <;> cases h2 : p "y" <;> cases h3 : p "px" <;> cases h4 : p "py" <;> cases h5 : p "rho" <;>
      cases h6 : p "pt" <;> cases h7 : p "phi" <;> simp [nbAzTypeP, idx, h1, h2, h3, h4, h5, h6, h7] <;>
      (intro a b; simp [a, b])
  · intro i j
    cases h1 : p "x" <;> cases h2 : p "y" <;> cases h3 : p "px" <;> cases h4 : p "py" <;> cases h5 : p "rho" <;>
      cases h6 : p "pt" <;> cases h7 : p "phi" <;> simp [nbAzTypeP, idx, h1, h2, h3, h4, h5, h6, h7] <;>
      (intro a b; simp [a, b])
  · intro i
    cases h1 : p "z" <;> cases h2 : p "pz" <;> cases h3 : p "theta" <;> cases h4 : p "eta" <;>
      simp [nbLonTypeP, idx, h1, h2, h3, h4] <;> (intro a; simp [a])
  · intro i
    cases h1 : p "t" <;> cases h2 : p "E" <;> cases h3 : p "e" <;> cases h4 : p "energy" <;> cases h5 : p "tau" <;>
      cases h6 : p "M" <;> cases h7 : p "m" <;> cases h8 : p "mass" <;>
      simp [nbTmpTypeP, idx, h1, h2, h3, h4, h5, h6, h7, h8] <;> (intro a; simp [a])
  · intro i
    cases h1 : p "t" <;> cases h2 : p "E" <;> cases h3 : p "e" <;> cases h4 : p "energy" <;> cases h5 : p "tau" <;>
      cases h6 : p "M" <;> cases h7 : p "m" <;> cases h8 : p "mass" <;>
      simp [nbTmpTypeP, idx, h1, h2, h3, h4, h5, h6, h7, h8] <;> (intro a; simp [a])

/-- which field the compiled code reads: the generic spelling if present (the interpreter's order) -/
theorem c14f_lowering_prefers_generic (p : String → Bool) :
    (∀ i j, nbLowerAz .xy p = .ok (i, j) → i = (if p "x" then "x" else "px") ∧ j = (if p "y" then "y" else "py")) ∧
    (∀ i j, nbLowerAz .rhophi p = .ok (i, j) → i = (if p "rho" then "rho" else "pt") ∧ j = "phi") ∧
    (∀ i, nbLowerLon .z p = .ok i → i = (if p "z" then "z" else "pz")) ∧
    (∀ i, nbLowerTmp .t p = .ok i →
      i = (if p "t" then "t" else if p "E" then "E" else if p "e" then "e" else "energy")) ∧
    (∀ i, nbLowerTmp .tau p = .ok i →
      i = (if p "tau" then "tau" else if p "M" then "M" else if p "m" then "m" else "mass")) := by
  refine ⟨?_, ?_, ?_, ?_, ?_⟩
  · intro i j
    cases h1 : p "x" <;> cases h2 : p "y" <;> cases h3 : p "px" <;> cases h4 : p "py" <;>
      simp [nbLowerAz, h1, h2, h3, h4] <;> (intro a b; simp [a, b])
  · intro i j
    cases h5 : p "rho" <;> cases h6 : p "pt" <;> cases h7 : p "phi" <;> simp [nbLowerAz, h5, h6, h7] <;>
      (intro a b; simp [a, b])
  · intro i
    cases h1 : p "z" <;> cases h2 : p "pz" <;> simp [nbLowerLon, h1, h2] <;> (intro a; simp [a])
  · intro i
    cases h1 : p "t" <;> cases h2 : p "E" <;> cases h3 : p "e" <;> cases h4 : p "energy" <;>
      simp [nbLowerTmp, h1, h2, h3, h4] <;> (intro a; simp [a])
  · intro i
    cases h5 : p "tau" <;> cases h6 : p "M" <;> cases h7 : p "m" <;> cases h8 : p "mass" <;>
      simp [nbLowerTmp, h5, h6, h7, h8] <;> (intro a; simp [a])

/-- a generic spelling together with a momentum spelling of the same coordinate -/
def doubled (p : String → Bool) : Bool :=
  (p "x" && p "px") || (p "y" && p "py") || (p "rho" && p "pt") || (p "z" && p "pz") ||
  (p "t" && (p "E" || p "e" || p "energy")) || (p "tau" && (p "M" || p "m" || p "mass"))

private theorem az_dt (mom : Bool) (p : String → Bool) (a : Az × String × String) (n : String × String)
    (hA : nbAzTypeP mom p = .ok a) (hn : nbLowerAz a.1 p = .ok n) :
    p a.2.1 = true ∧ p a.2.2 = true ∧ p n.1 = true ∧ p n.2 = true ∧
    ((mom = false ∨ doubled p = false) → a.2.1 = n.1 ∧ a.2.2 = n.2) := by
  obtain ⟨sys, i, j⟩ := a
  obtain ⟨n1, n2⟩ := n
  revert hA hn
  cases sys <;> cases mom <;> cases hx : p "x" <;> cases hy : p "y" <;> cases hpx : p "px" <;> cases hpy : p "py" <;>
    cases hrho : p "rho" <;> cases hpt : p "pt" <;> cases hphi : p "phi" <;>
    simp [nbAzTypeP, nbLowerAz, idx, doubled, hx, hy, hpx, hpy, hrho, hpt, hphi] <;>
    (intro a b c d; subst a b c d; simp [hx, hy, hpx, hpy, hrho, hpt, hphi])

private theorem lon_dt (mom : Bool) (p : String → Bool) (l : Lon × String) (n : String)
    (hA : nbLonTypeP mom p = .ok l) (hn : nbLowerLon l.1 p = .ok n) :
    p l.2 = true ∧ p n = true ∧ ((mom = false ∨ doubled p = false) → l.2 = n) := by
  obtain ⟨sys, i⟩ := l
  revert hA hn
  cases sys <;> cases mom <;> cases hz : p "z" <;> cases hpz : p "pz" <;> cases hth : p "theta" <;>
    cases heta : p "eta" <;>
    simp [nbLonTypeP, nbLowerLon, idx, doubled, hz, hpz, hth, heta] <;>
    (intro a b; subst a b; simp [hz, hpz, hth, heta])

private theorem tmp_dt_false (p : String → Bool) (t : Tmp × String) (n : String)
    (hA : nbTmpTypeP false p = .ok t) (hn : nbLowerTmp t.1 p = .ok n) :
    p t.2 = true ∧ p n = true ∧ t.2 = n := by
  obtain ⟨sys, i⟩ := t
  revert hA hn
  cases sys <;> cases ht : p "t" <;> cases htau : p "tau" <;>
    simp [nbTmpTypeP, nbLowerTmp, idx, ht, htau] <;>
    (intro a; subst a; simp [ht, htau]) <;> (intro b; subst b; simp [ht, htau])

private theorem tmp_dt_true_t (p : String → Bool) (i n : String)
    (hA : nbTmpTypeP true p = .ok (.t, i)) (hn : nbLowerTmp .t p = .ok n) :
    p i = true ∧ p n = true ∧ ((p "t" && (p "E" || p "e" || p "energy")) = false → i = n) := by
  have h1 := (c14f_typer_prefers_momentum p).2.2.2.1 i hA
  have h2 := (c14f_lowering_prefers_generic p).2.2.2.1 n hn
  subst h1 h2
  revert hA hn
  cases ht : p "t" <;> cases hE : p "E" <;> cases he : p "e" <;> cases hen : p "energy" <;>
    simp [nbTmpTypeP, nbLowerTmp, idx, ht, hE, he, hen]

private theorem tmp_dt_true_tau (p : String → Bool) (i n : String)
    (hA : nbTmpTypeP true p = .ok (.tau, i)) (hn : nbLowerTmp .tau p = .ok n) :
    p i = true ∧ p n = true ∧ ((p "tau" && (p "M" || p "m" || p "mass")) = false → i = n) := by
  have h1 := (c14f_typer_prefers_momentum p).2.2.2.2 i hA
  have h2 := (c14f_lowering_prefers_generic p).2.2.2.2 n hn
  subst h1 h2
  revert hA hn
  cases ht : p "t" <;> cases hE : p "E" <;> cases he : p "e" <;> cases hen : p "energy" <;>
    cases htau : p "tau" <;> cases hM : p "M" <;> cases hm : p "m" <;> cases hmass : p "mass" <;>
    simp [nbTmpTypeP, nbLowerTmp, idx, ht, hE, he, hen, htau, hM, hm, hmass]

private theorem tmp_dt (mom : Bool) (p : String → Bool) (t : Tmp × String) (n : String)
    (hA : nbTmpTypeP mom p = .ok t) (hn : nbLowerTmp t.1 p = .ok n) :
    p t.2 = true ∧ p n = true ∧ ((mom = false ∨ doubled p = false) → t.2 = n) := by
  cases mom with
  | false =>
    obtain ⟨a, b, c⟩ := tmp_dt_false p t n hA hn
    exact ⟨a, b, fun _ => c⟩
  | true =>
    obtain ⟨sys, i⟩ := t
    cases sys with
    | t =>
      obtain ⟨a, b, c⟩ := tmp_dt_true_t p i n hA hn
      refine ⟨a, b, fun h => c ?_⟩
      rcases h with h | h
      · exact absurd h (by decide)
      · simp only [doubled, Bool.or_eq_false_iff] at h
        exact h.1.2
    | tau =>
      obtain ⟨a, b, c⟩ := tmp_dt_true_tau p i n hA hn
      refine ⟨a, b, fun h => c ?_⟩
      rcases h with h | h
      · exact absurd h (by decide)
      · simp only [doubled, Bool.or_eq_false_iff] at h
        exact h.2

/-- shape of a successful typing + lowering -/
private theorem type_lower_parts (mom : Bool) (dim : Nat) (g : FMap S) (ty : NbType) (gt : NbGetters)
    (hT : nbTypeP mom dim g.has = .ok ty) (hL : nbLowerP ty g.has = .ok gt) :
    (nbAzTypeP mom g.has = .ok ty.az ∧ nbLowerAz ty.az.1 g.has = .ok gt.az) ∧
    ((ty.lon = none ∧ gt.lon = none) ∨
      ∃ l n, ty.lon = some l ∧ gt.lon = some n ∧ nbLonTypeP mom g.has = .ok l ∧ nbLowerLon l.1 g.has = .ok n) ∧
    ((ty.tmp = none ∧ gt.tmp = none) ∨
      ∃ t n, ty.tmp = some t ∧ gt.tmp = some n ∧ nbTmpTypeP mom g.has = .ok t ∧ nbLowerTmp t.1 g.has = .ok n) := by
  unfold nbTypeP at hT
  cases hA : nbAzTypeP mom g.has with
  | error e => simp [hA] at hT
  | ok a =>
    simp only [hA] at hT
    by_cases hd : dim < 3
    · simp only [hd, if_true, Except.ok.injEq] at hT
      subst hT
      simp only [nbLowerP] at hL
      cases hn : nbLowerAz a.1 g.has with
      | error e => simp [hn] at hL
      | ok n =>
        simp only [hn, Except.ok.injEq] at hL
        subst hL
        simp
    · simp only [hd, if_false] at hT
      cases hl : nbLonTypeP mom g.has with
      | error e => simp [hl] at hT
      | ok l =>
        simp only [hl] at hT
        by_cases hd4 : dim < 4
        · simp only [hd4, if_true, Except.ok.injEq] at hT
          subst hT
          simp only [nbLowerP] at hL
          cases hn : nbLowerAz a.1 g.has with
          | error e => simp [hn] at hL
          | ok n =>
            simp only [hn] at hL
            cases hln : nbLowerLon l.1 g.has with
            | error e => simp [hln] at hL
            | ok ln =>
              simp only [hln, Except.ok.injEq] at hL
              subst hL
              simp [hln]
        · simp only [hd4, if_false] at hT
          cases ht : nbTmpTypeP mom g.has with
          | error e => simp [ht] at hT
          | ok t =>
            simp only [ht, Except.ok.injEq] at hT
            subst hT
            simp only [nbLowerP] at hL
            cases hn : nbLowerAz a.1 g.has with
            | error e => simp [hn] at hL
            | ok n =>
              simp only [hn] at hL
              cases hln : nbLowerLon l.1 g.has with
              | error e => simp [hln] at hL
              | ok ln =>
                simp only [hln] at hL
                cases htn : nbLowerTmp t.1 g.has with
                | error e => simp [htn] at hL
                | ok tn =>
                  simp only [htn, Except.ok.injEq] at hL
                  subst hL
                  simp [hln, htn]

private theorem nbReadDM_eq_of {D : Type} [DecidableEq D] (dt : S → D) (mom : Bool) (dim : Nat) (g : FMap S)
    (h : ∀ ty gt, nbTypeP mom dim g.has = .ok ty → nbLowerP ty g.has = .ok gt →
      ty.names.map (fun n => (g n).map dt) = gt.names.map (fun n => (g n).map dt)) :
    nbReadDM dt mom dim g = nbReadM mom dim g := by
  unfold nbReadDM nbReadM
  cases hT : nbTypeP mom dim g.has with
  | error e => rfl
  | ok ty =>
    cases hL : nbLowerP ty g.has with
    | error e => simp only [hL]
    | ok gt =>
      simp only [hL]
      rw [if_pos (h ty gt hT hL)]

/-- the typer and the lowering pick the SAME fields — hence no dtype conflict, whatever the dtypes — on every generic
record, and on every momentum record that does not carry a generic and a momentum spelling of one coordinate -/
theorem c14f_numba_dtype_same_fields (mom : Bool) (dim : Nat) (g : FMap S)
    (hs : mom = false ∨ doubled g.has = false) (ty : NbType) (gt : NbGetters)
    (hT : nbTypeP mom dim g.has = .ok ty) (hL : nbLowerP ty g.has = .ok gt) : ty.names = gt.names := by
  obtain ⟨⟨hA, hn⟩, hlon, htmp⟩ := type_lower_parts mom dim g ty gt hT hL
  have h1 := (az_dt mom g.has _ _ hA hn).2.2.2.2 hs
  rcases hlon with ⟨a, b⟩ | ⟨l, n, a, b, c, d⟩ <;> rcases htmp with ⟨a', b'⟩ | ⟨t, n', a', b', c', d'⟩
  · simp [NbType.names, NbGetters.names, a, b, a', b', h1.1, h1.2]
  · simp [NbType.names, NbGetters.names, a, b, a', b', h1.1, h1.2, (tmp_dt mom g.has _ _ c' d').2.2 hs]
  · simp [NbType.names, NbGetters.names, a, b, a', b', h1.1, h1.2, (lon_dt mom g.has _ _ c d).2.2 hs]
  · simp [NbType.names, NbGetters.names, a, b, a', b', h1.1, h1.2, (lon_dt mom g.has _ _ c d).2.2 hs,
      (tmp_dt mom g.has _ _ c' d').2.2 hs]

/-- (D1) generic records: compiled with dtypes = compiled on values, whatever the dtypes -/
theorem c14f_numba_dtype_generic {D : Type} [DecidableEq D] (dt : S → D) (dim : Nat) (fs : List (String × S)) :
    nbReadRecD dt false dim fs = nbReadRec false dim fs := by
  rw [c14f_nbReadRecD_eq, c14f_nbReadRec_eq]
  apply nbReadDM_eq_of
  intro ty gt hT hL
  rw [c14f_numba_dtype_same_fields false dim _ (Or.inl rfl) ty gt hT hL]

/-- (D2) momentum records with AT MOST ONE spelling per coordinate (no generic name next to one of its momentum
synonyms): compiled with dtypes = compiled on values = interpreted, whatever the dtypes -/
theorem c14f_numba_dtype_single {D : Type} [DecidableEq D] (dt : S → D) (mom : Bool) (dim : Nat)
    (fs : List (String × S)) (h : doubled (fun n => (fieldNames fs).contains n) = false) :
    nbReadRecD dt mom dim fs = nbReadRec mom dim fs ∧
    nbReadRecD dt mom dim fs = (readRec mom dim fs).mapError (fun _ => FErr.typingError) := by
  rw [has_eq] at h
  have key : nbReadRecD dt mom dim fs = nbReadRec mom dim fs := by
    rw [c14f_nbReadRecD_eq, c14f_nbReadRec_eq]
    apply nbReadDM_eq_of
    intro ty gt hT hL
    rw [c14f_numba_dtype_same_fields mom dim _ (Or.inr h) ty gt hT hL]
  exact ⟨key, by rw [key, c14f_numba_agrees]⟩

private theorem names_present (mom : Bool) (dim : Nat) (g : FMap S) (ty : NbType) (gt : NbGetters)
    (hT : nbTypeP mom dim g.has = .ok ty) (hL : nbLowerP ty g.has = .ok gt) :
    (∀ n ∈ ty.names, g.has n = true) ∧ (∀ n ∈ gt.names, g.has n = true) ∧ ty.names.length = gt.names.length := by
  obtain ⟨⟨hA, hn⟩, hlon, htmp⟩ := type_lower_parts mom dim g ty gt hT hL
  have ha := az_dt mom g.has _ _ hA hn
  rcases hlon with ⟨a, b⟩ | ⟨l, n, a, b, c, d⟩ <;> rcases htmp with ⟨a', b'⟩ | ⟨t, n', a', b', c', d'⟩
  · simp [NbType.names, NbGetters.names, a, b, a', b', ha.1, ha.2.1, ha.2.2.1, ha.2.2.2.1]
  · have ht := tmp_dt mom g.has _ _ c' d'
    simp [NbType.names, NbGetters.names, a, b, a', b', ha.1, ha.2.1, ha.2.2.1, ha.2.2.2.1, ht.1, ht.2.1]
  · have hl := lon_dt mom g.has _ _ c d
    simp [NbType.names, NbGetters.names, a, b, a', b', ha.1, ha.2.1, ha.2.2.1, ha.2.2.2.1, hl.1, hl.2.1]
  · have hl := lon_dt mom g.has _ _ c d
    have ht := tmp_dt mom g.has _ _ c' d'
    simp [NbType.names, NbGetters.names, a, b, a', b', ha.1, ha.2.1, ha.2.2.1, ha.2.2.2.1, hl.1, hl.2.1, ht.1, ht.2.1]

private theorem map_const_of_present {D : Type} (dt : S → D) (d0 : D) (g : FMap S)
    (hu : ∀ n v, g n = some v → dt v = d0) (names : List String) (h : ∀ n ∈ names, g.has n = true) :
    names.map (fun n => (g n).map dt) = List.replicate names.length (some d0) := by
  induction names with
  | nil => rfl
  | cons n ns ih =>
    have hn := h n (by simp)
    have ih := ih (fun m hm => h m (by simp [hm]))
    simp only [List.map_cons, List.length_cons, List.replicate_succ, ih]
    congr 1
    simp only [FMap.has] at hn
    cases hv : g n with
    | none => simp [hv] at hn
    | some v => simp [hu n v hv]

/-- (D3) all fields of one dtype: no dtype conflict, on every record -/
theorem c14f_numba_dtype_uniform {D : Type} [DecidableEq D] (dt : S → D) (d0 : D) (mom : Bool) (dim : Nat)
    (fs : List (String × S)) (hu : ∀ f ∈ fs, dt f.2 = d0) :
    nbReadRecD dt mom dim fs = nbReadRec mom dim fs := by
  rw [c14f_nbReadRecD_eq, c14f_nbReadRec_eq]
  apply nbReadDM_eq_of
  intro ty gt hT hL
  have hu' : ∀ n v, look fs n = some v → dt v = d0 := by
    intro n v hv
    simp only [look, List.lookup_eq_some_iff] at hv
    obtain ⟨l₁, l₂, rfl, _⟩ := hv
    exact hu (n, v) (by simp)
  obtain ⟨h1, h2, h3⟩ := names_present mom dim _ ty gt hT hL
  rw [map_const_of_present dt d0 _ hu' _ h1, map_const_of_present dt d0 _ hu' _ h2, h3]

/-- typing errors are `TypingError`s -/
private theorem nbTypeP_error (mom : Bool) (dim : Nat) (p : String → Bool) (e : FErr)
    (h : nbTypeP mom dim p = .error e) : e = .typingError := by
  have hA : ∀ e, nbAzTypeP mom p = .error e → e = .typingError := by
    intro e h
    unfold nbAzTypeP at h
    dsimp only at h
    split at h
    · cases h
    · split at h
      · cases h
      · exact (Except.error.inj h).symm
  have hLn : ∀ e, nbLonTypeP mom p = .error e → e = .typingError := by
    intro e h
    unfold nbLonTypeP at h
    dsimp only at h
    split at h
    · cases h
    · split at h
      · cases h
      · split at h
        · cases h
        · exact (Except.error.inj h).symm
  have hTm : ∀ e, nbTmpTypeP mom p = .error e → e = .typingError := by
    intro e h
    unfold nbTmpTypeP at h
    dsimp only at h
    split at h
    · cases h
    · split at h
      · cases h
      · exact (Except.error.inj h).symm
  unfold nbTypeP at h
  split at h
  · rename_i e' he; simp only [Except.error.injEq] at h; subst h; exact hA _ he
  · split at h
    · simp at h
    · split at h
      · rename_i e' he; simp only [Except.error.injEq] at h; subst h; exact hLn _ he
      · split at h
        · simp at h
        · split at h
          · rename_i e' he; simp only [Except.error.injEq] at h; subst h; exact hTm _ he
          · simp at h

/-- (D4) THE DIFFERENCE between typing order and lowering order.  A momentum record with `x` AND `px` of different
dtypes (and a second azimuthal coordinate, `y` or `py`): the typer takes the dtype of `px`, the getter reads `x` — the
compilation fails with `TypingError`, in every dimension and whatever else the record has, although the interpreter
(and the value-level compiled view) read `x` and succeed whenever the other coordinates are there. -/
theorem c14f_numba_dtype_conflict_x {D : Type} [DecidableEq D] (dt : S → D) (dim : Nat) (g : FMap S) (x px : S)
    (hx : g "x" = some x) (hpx : g "px" = some px) (hy : g.has "y" = true ∨ g.has "py" = true)
    (hd : dt x ≠ dt px) : nbReadDM dt true dim g = .error .typingError := by
  unfold nbReadDM
  cases hT : nbTypeP true dim g.has with
  | error e => rw [nbTypeP_error _ _ _ _ hT]
  | ok ty =>
    cases hL : nbLowerP ty g.has with
    | error e =>
      have h1 : nbReadM true dim g = .error e := by simp only [nbReadM, hT, hL]
      rw [c14f_numba_agrees_map] at h1
      cases h' : readM true dim g with
      | ok st => simp [h', Except.mapError] at h1
      | error e' => simp [h', Except.mapError] at h1; simp only [hL, h1]
    | ok gt =>
      simp only [hL]
      rw [if_neg]
      intro hc
      obtain ⟨⟨hA, hn⟩, -, -⟩ := type_lower_parts true dim g ty gt hT hL
      have hxh : g.has "x" = true := by simp [FMap.has, hx]
      have hpxh : g.has "px" = true := by simp [FMap.has, hpx]
      rcases hty : ty.az with ⟨sys, i, j⟩
      rcases hgt : gt.az with ⟨n1, n2⟩
      rw [hty] at hA hn
      rw [hgt] at hn
      have hsys : sys = .xy ∧ i = "px" := by
        revert hA
        rcases hy with hy | hy <;> cases hy' : g.has "y" <;> cases hpy' : g.has "py" <;>
          simp_all [nbAzTypeP, idx] <;> (intro a b c; simp [a, b])
      obtain ⟨rfl, rfl⟩ := hsys
      have hn1 : n1 = "x" := by
        have := ((c14f_lowering_prefers_generic g.has).1 n1 n2 hn).1
        simpa [hxh] using this
      subst hn1
      simp only [NbType.names, NbGetters.names, hty, hgt, List.map_append, List.map_cons, List.cons_append,
        List.cons.injEq] at hc
      have := hc.1
      simp only [hx, hpx, Option.map_some, Option.some.injEq] at this
      exact hd this.symm

/-- list form of (D4) -/
theorem c14f_numba_dtype_conflict {D : Type} [DecidableEq D] (dt : S → D) (dim : Nat) (fs : List (String × S))
    (x px : S) (hx : look fs "x" = some x) (hpx : look fs "px" = some px)
    (hy : "y" ∈ fieldNames fs ∨ "py" ∈ fieldNames fs) (hd : dt x ≠ dt px) :
    nbReadRecD dt true dim fs = .error .typingError := by
  rw [c14f_nbReadRecD_eq]
  refine c14f_numba_dtype_conflict_x dt dim _ x px hx hpx ?_ hd
  rcases hy with h | h
  · exact Or.inl (by rw [← c14f_names_contains]; simpa using h)
  · exact Or.inr (by rw [← c14f_names_contains]; simpa using h)

/-- the minimal witness (values with a dtype tag): `ak.zip({"x": float64, "px": int64, "y": float64},
with_name="Momentum2D")` — the interpreter reads (x, y), the typer declares the dtype of (px, y), the getter `_awkward_numba_xy`
reads (x, y): `TypingError` ("No conversion from MomentumObject2DType(AzimuthalObjectXY(float64 x 2)) to …(int64, float64)").
The same fields in a generic `Vector2D` record compile. -/
theorem c14f_numba_dtype_witness :
    let fs : List (String × (Int × String)) := [("x", (1, "f")), ("px", (10, "i")), ("y", (2, "f"))]
    readRec true 2 fs = .ok ⟨(.xy, (1, "f"), (2, "f")), none, none⟩ ∧
    nbReadRec true 2 fs = .ok ⟨(.xy, (1, "f"), (2, "f")), none, none⟩ ∧
    nbType true 2 (fieldNames fs) = .ok ⟨(.xy, "px", "y"), none, none⟩ ∧
    nbLower ⟨(.xy, "px", "y"), none, none⟩ (fieldNames fs) = .ok ⟨("x", "y"), none, none⟩ ∧
    nbReadRecD (fun v => v.2) true 2 fs = .error .typingError ∧
    nbReadRecD (fun v => v.2) false 2 fs = .ok ⟨(.xy, (1, "f"), (2, "f")), none, none⟩ := by
  intro fs
  exact ⟨by rfl, by rfl, by rfl, by rfl, by rfl, by rfl⟩

/-- one witness for each of the other five doubled coordinates (y/py, rho/pt, z/pz, t/E, tau/mass): interpreted fine,
compilation fails -/
theorem c14f_numba_dtype_witness_others :
    let dt : Int × String → String := fun v => v.2
    let r1 : List (String × (Int × String)) := [("x", (1, "i")), ("y", (2, "i")), ("py", (20, "f"))]
    let r2 : List (String × (Int × String)) := [("rho", (1, "i")), ("pt", (10, "f")), ("phi", (2, "i"))]
    let r3 : List (String × (Int × String)) := [("x", (1, "i")), ("y", (2, "i")), ("z", (3, "i")), ("pz", (30, "f"))]
    let r4 : List (String × (Int × String)) :=
      [("x", (1, "i")), ("y", (2, "i")), ("z", (3, "i")), ("t", (4, "i")), ("E", (40, "f"))]
    let r5 : List (String × (Int × String)) :=
      [("x", (1, "i")), ("y", (2, "i")), ("z", (3, "i")), ("tau", (4, "i")), ("mass", (40, "f"))]
    (readRec true 2 r1 = .ok ⟨(.xy, (1, "i"), (2, "i")), none, none⟩ ∧ nbReadRecD dt true 2 r1 = .error .typingError) ∧
    (readRec true 2 r2 = .ok ⟨(.rhophi, (1, "i"), (2, "i")), none, none⟩ ∧
      nbReadRecD dt true 2 r2 = .error .typingError) ∧
    (readRec true 3 r3 = .ok ⟨(.xy, (1, "i"), (2, "i")), some (.z, (3, "i")), none⟩ ∧
      nbReadRecD dt true 3 r3 = .error .typingError) ∧
    (readRec true 4 r4 = .ok ⟨(.xy, (1, "i"), (2, "i")), some (.z, (3, "i")), some (.t, (4, "i"))⟩ ∧
      nbReadRecD dt true 4 r4 = .error .typingError) ∧
    (readRec true 4 r5 = .ok ⟨(.xy, (1, "i"), (2, "i")), some (.z, (3, "i")), some (.tau, (4, "i"))⟩ ∧
      nbReadRecD dt true 4 r5 = .error .typingError) := by
  intro dt r1 r2 r3 r4 r5
  exact ⟨⟨by rfl, by rfl⟩, ⟨by rfl, by rfl⟩, ⟨by rfl, by rfl⟩, ⟨by rfl, by rfl⟩, ⟨by rfl, by rfl⟩⟩

/-- two spellings of the SAME momentum kind (`E` and `e`, `M` and `mass`) are no conflict: typer and lowering look them
up in the same order -/
example :
    let dt : Int × String → String := fun v => v.2
    let r : List (String × (Int × String)) :=
      [("x", (1, "i")), ("y", (2, "i")), ("z", (3, "i")), ("M", (4, "i")), ("mass", (40, "f")), ("e", (7, "f"))]
    nbReadRecD dt true 4 r = .ok ⟨(.xy, (1, "i"), (2, "i")), some (.z, (3, "i")), some (.t, (7, "f"))⟩ ∧
    readRec true 4 r = .ok ⟨(.xy, (1, "i"), (2, "i")), some (.z, (3, "i")), some (.t, (7, "f"))⟩ := by
  intro dt r
  exact ⟨by rfl, by rfl⟩

/-! ## 8. `_wrap_result` (the repair 17af0b2): reading the wrapped result gives the FRESH values

`realWrap` (Glue/Awkward.lean) = the real `_wrap_result`: the declared result coordinates under their generic names,
followed by the fields of `self` that the branch's literal tuple does not exclude.  Whatever `self` carried — stale
`px`, `py`, `pt`, … in any order — every reader of the result finds the fresh values. -/

private theorem azOfM_congr (mom : Bool) (g g' : FMap S)
    (h : ∀ n ∈ ["x", "px", "y", "py", "rho", "pt", "phi"], g n = g' n) : azOfM mom g = azOfM mom g' := by
  have h1 := h "x" (by decide); have h2 := h "px" (by decide); have h3 := h "y" (by decide)
  have h4 := h "py" (by decide); have h5 := h "rho" (by decide); have h6 := h "pt" (by decide)
  have h7 := h "phi" (by decide)
  simp only [azOfM, c14f_priority_az, c14f_priority_az_mom, h1, h2, h3, h4, h5, h6, h7]

private theorem lonOfM_congr (mom : Bool) (g g' : FMap S)
    (h : ∀ n ∈ ["z", "pz", "theta", "eta"], g n = g' n) : lonOfM mom g = lonOfM mom g' := by
  have h8 := h "z" (by decide); have h9 := h "pz" (by decide)
  have h10 := h "theta" (by decide); have h11 := h "eta" (by decide)
  simp only [lonOfM, c14f_priority_lon, c14f_priority_lon_mom, h8, h9, h10, h11]

private theorem tmpOfM_congr (mom : Bool) (g g' : FMap S)
    (h : ∀ n ∈ ["t", "E", "e", "energy", "tau", "M", "m", "mass"], g n = g' n) : tmpOfM mom g = tmpOfM mom g' := by
  have h12 := h "t" (by decide)
  have h13 := h "E" (by decide); have h14 := h "e" (by decide); have h15 := h "energy" (by decide)
  have h16 := h "tau" (by decide); have h17 := h "M" (by decide); have h18 := h "m" (by decide)
  have h19 := h "mass" (by decide)
  simp only [tmpOfM, c14f_priority_tmp, c14f_priority_tmp_mom, h12, h13, h14, h15, h16, h17, h18, h19]

/-- a name in the branch's tuple is not among the carried fields; a name outside it is carried with its value (unary) -/
private theorem lookup_carried (b : Branch) (nv : Nat) (fs : List (String × S)) (n : String) :
    List.lookup n (b.carried nv fs) = if nv == 1 ∧ ¬ n ∈ b.excl then List.lookup n fs else none := by
  unfold Branch.carried
  by_cases h1 : (nv == 1) = true
  · rw [if_pos h1, lookup_filter_name (fun n => !b.excl.contains n) fs n]
    by_cases hn : n ∈ b.excl <;> simp [h1, hn]
  · simp [h1]

private theorem look_wrapped (b : Branch) (nv : Nat) (fs A : List (String × S)) (n : String) (hn : n ∈ b.excl) :
    look (A ++ b.carried nv fs) n = look A n := by
  simp only [look, List.lookup_append, lookup_carried, hn, not_true_eq_false, and_false, if_false, Option.or_none]

/-- the result's declared coordinates, as a reader must find them -/
def freshStored : List RP → List S → Option (Stored S)
  | [.az a, .none], [r0, r1] => some ⟨(a, r0, r1), none, none⟩
  | [.az a, .lon l, .none], [r0, r1, r2] => some ⟨(a, r0, r1), some (l, r2), none⟩
  | [.az a, .lon l, .tmp t], [r0, r1, r2, r3] => some ⟨(a, r0, r1), some (l, r2), some (t, r3)⟩
  | _, _ => none

private theorem az_in_excl (b : Branch) : ∀ n ∈ ["x", "px", "y", "py", "rho", "pt", "phi"], n ∈ b.excl := by
  cases b <;> decide

/-- reading the azimuthal coordinates of the wrapped result `(resultNames parts).zip raw ++ b.carried nv fs`: only the
fresh part matters, in EVERY branch -/
private theorem wrap_az_reduce (b : Branch) (nv : Nat) (fs A : List (String × S)) (mom : Bool) :
    azOf mom (A ++ b.carried nv fs) = azOf mom A :=
  azOfM_congr mom _ _ (fun n hn => look_wrapped b nv fs A n (az_in_excl b n hn))

private theorem wrap_full_reduce (b : Branch) (hb : b.excl = exclAll) (nv : Nat) (fs A : List (String × S))
    (mom : Bool) (dim : Nat) : readRec mom dim (A ++ b.carried nv fs) = readRec mom dim A :=
  readM_congr mom dim _ _
    (fun n hn => look_wrapped b nv fs A n (by rw [hb]; exact (c18_real_exclAll_eq_coords n).2 hn))

/-- THE CROSS-MODEL THEOREM, azimuthal part — for EVERY branch `b`, every declared result `parts` with
`Branch.ofParts parts = some b`, every field list `fs` of `self` (raw momentum spellings, any order, stale values), unary
or binary, momentum or generic reader: the azimuthal coordinates read from the wrapped result are the declared system with
the first two raw values.  No stale spelling of `self` can win. -/
theorem c14f_wrap_fresh_az (parts : List RP) (b : Branch) (hb : Branch.ofParts parts = some b)
    (fs : List (String × S)) (raw : List S) (hraw : raw.length = (resultNames parts).length) (mom : Bool) (nv : Nat) :
    ∃ a r0 r1, parts.head? = some (.az a) ∧ raw.take 2 = [r0, r1] ∧
      azOf mom ((resultNames parts).zip raw ++ b.carried nv fs) = .ok (a, r0, r1) ∧
      azOf mom ((resultNames parts).zip raw ++ b.carried nv fs) = azOf mom ((resultNames parts).zip raw) := by
  rw [wrap_az_reduce]
  unfold Branch.ofParts at hb
  split at hb <;> simp only [Option.some.injEq, reduceCtorEq] at hb <;> subst hb
  · rename_i a
    cases a <;> simp [resultNames, RP.names, Az.names] at hraw <;>
      (match raw, hraw with
        | [r0, r1], _ => exact ⟨_, r0, r1, rfl, rfl, by cases mom <;> rfl, rfl⟩)
  · rename_i a
    cases a <;> simp [resultNames, RP.names, Az.names] at hraw <;>
      (match raw, hraw with
        | [r0, r1], _ => exact ⟨_, r0, r1, rfl, rfl, by cases mom <;> rfl, rfl⟩)
  · rename_i a l
    cases a <;> cases l <;> simp [resultNames, RP.names, Az.names] at hraw <;>
      (match raw, hraw with
        | [r0, r1, r2], _ => exact ⟨_, r0, r1, rfl, rfl, by cases mom <;> rfl, rfl⟩)
  · rename_i a l
    cases a <;> cases l <;> simp [resultNames, RP.names, Az.names] at hraw <;>
      (match raw, hraw with
        | [r0, r1, r2], _ => exact ⟨_, r0, r1, rfl, rfl, by cases mom <;> rfl, rfl⟩)
  · rename_i a l t
    cases a <;> cases l <;> cases t <;> simp [resultNames, RP.names, Az.names] at hraw <;>
      (match raw, hraw with
        | [r0, r1, r2, r3], _ => exact ⟨_, r0, r1, rfl, rfl, by cases mom <;> rfl, rfl⟩)

/-- THE CROSS-MODEL THEOREM, full branches (`[Azimuthal, None]`, `[Azimuthal, Longitudinal, None]`,
`[Azimuthal, Longitudinal, Temporal]`, i.e. `b.excl = exclAll`, see `c18_real_full_branches`): interpreter AND compiled
code read exactly the declared coordinates with the raw values, in the dimension of the result class, whatever `self`
carried -/
theorem c14f_wrap_fresh_full (parts : List RP) (b : Branch) (hb : Branch.ofParts parts = some b)
    (hfull : b.excl = exclAll) (fs : List (String × S)) (raw : List S)
    (hraw : raw.length = (resultNames parts).length) (mom : Bool) (nv sd : Nat) :
    ∃ st, freshStored parts raw = some st ∧
      readRec mom (b.dim sd) ((resultNames parts).zip raw ++ b.carried nv fs) = .ok st ∧
      nbReadRec mom (b.dim sd) ((resultNames parts).zip raw ++ b.carried nv fs) = .ok st := by
  suffices h : ∃ st, freshStored parts raw = some st ∧
      readRec mom (b.dim sd) ((resultNames parts).zip raw ++ b.carried nv fs) = .ok st by
    obtain ⟨st, h1, h2⟩ := h
    exact ⟨st, h1, h2, (c14f_numba_agrees_ok _ _ _ _).2 h2⟩
  rw [wrap_full_reduce b hfull]
  unfold Branch.ofParts at hb
  split at hb <;> simp only [Option.some.injEq, reduceCtorEq] at hb <;> subst hb
  · exact absurd hfull (by decide)
  · rename_i a
    cases a <;> simp [resultNames, RP.names, Az.names] at hraw <;>
      (match raw, hraw with
        | [r0, r1], _ => exact ⟨_, rfl, by cases mom <;> rfl⟩)
  · exact absurd hfull (by decide)
  · rename_i a l
    cases a <;> cases l <;> simp [resultNames, RP.names, Az.names] at hraw <;>
      (match raw, hraw with
        | [r0, r1, r2], _ => exact ⟨_, rfl, by cases mom <;> rfl⟩)
  · rename_i a l t
    cases a <;> cases l <;> cases t <;> simp [resultNames, RP.names, Az.names] at hraw <;>
      (match raw, hraw with
        | [r0, r1, r2, r3], _ => exact ⟨_, rfl, by cases mom <;> rfl⟩)

/-- the same two theorems phrased on `realWrap` itself (the model of the real `_wrap_result`) -/
theorem c14f_wrap_realWrap (parts : List RP) (nv sd : Nat) (fs : List (String × S)) (raw : List S) (d : Nat)
    (out : List (String × S)) (h : realWrap parts nv sd fs raw = .ok (d, out))
    (hraw : raw.length = (resultNames parts).length) (mom : Bool) :
    (∃ a r0 r1, parts.head? = some (.az a) ∧ raw.take 2 = [r0, r1] ∧ azOf mom out = .ok (a, r0, r1)) ∧
    (∀ b, Branch.ofParts parts = some b → b.excl = exclAll →
      ∃ st, freshStored parts raw = some st ∧ readRec mom d out = .ok st ∧ nbReadRec mom d out = .ok st) := by
  unfold realWrap at h
  split at h
  · simp at h
  · rename_i b hb
    simp only [Except.ok.injEq, Prod.mk.injEq] at h
    obtain ⟨rfl, rfl⟩ := h
    refine ⟨?_, ?_⟩
    · obtain ⟨a, r0, r1, h1, h2, h3, _⟩ := c14f_wrap_fresh_az parts b hb fs raw hraw mom nv
      exact ⟨a, r0, r1, h1, h2, h3⟩
    · intro b' hb' hfull
      rw [hb] at hb'
      simp only [Option.some.injEq] at hb'
      subst hb'
      exact c14f_wrap_fresh_full parts b hb hfull fs raw hraw mom nv sd

private theorem lookup_zip_none (names : List String) (vals : List S) (n : String) (h : n ∉ names) :
    List.lookup n (names.zip vals) = none := by
  rw [List.lookup_eq_none_iff]
  intro p hp
  simp only [bne_iff_ne, ne_eq]
  rintro rfl
  exact h (List.of_mem_zip (a := p.1) (b := p.2) hp).1

/-- pass-through branch `[Azimuthal]` (e.g. `rotateZ`) on a unary operand: the longitudinal and temporal coordinates of
the result are read exactly as they are read from `self` — same system, same value, under whatever spelling `self`
stores them (`pz`, `E`, `mass`, …) -/
theorem c14f_wrap_passthrough_az (a : Az) (fs : List (String × S)) (raw : List S) (mom : Bool) :
    lonOf mom ((resultNames [.az a]).zip raw ++ Branch.az.carried 1 fs) = lonOf mom fs ∧
    tmpOf mom ((resultNames [.az a]).zip raw ++ Branch.az.carried 1 fs) = tmpOf mom fs := by
  have key : ∀ n ∈ ["z", "pz", "theta", "eta", "t", "E", "e", "energy", "tau", "M", "m", "mass"],
      look ((resultNames [.az a]).zip raw ++ Branch.az.carried 1 fs) n = look fs n := by
    have hA : ∀ n ∈ ["z", "pz", "theta", "eta", "t", "E", "e", "energy", "tau", "M", "m", "mass"],
        n ∉ Branch.az.excl := by decide
    have hB : ∀ n ∈ ["z", "pz", "theta", "eta", "t", "E", "e", "energy", "tau", "M", "m", "mass"],
        n ∉ resultNames [.az a] := by cases a <;> decide
    intro n hn
    have h1 := hB n hn
    have h2 := hA n hn
    simp [look, List.lookup_append, lookup_zip_none _ _ _ h1, lookup_carried, h2]
  refine ⟨lonOfM_congr mom _ _ (fun n hn => key n ?_), tmpOfM_congr mom _ _ (fun n hn => key n ?_)⟩
  · revert n; decide
  · revert n; decide

/-- pass-through branch `[Azimuthal, Longitudinal]` (e.g. `rotateX`) on a unary operand: fresh longitudinal coordinate, the
temporal one is read exactly as from `self` -/
theorem c14f_wrap_passthrough_azLon (a : Az) (l : Lon) (fs : List (String × S)) (r0 r1 r2 : S) (mom : Bool) :
    lonOf mom ((resultNames [.az a, .lon l]).zip [r0, r1, r2] ++ Branch.azLon.carried 1 fs) = .ok (l, r2) ∧
    tmpOf mom ((resultNames [.az a, .lon l]).zip [r0, r1, r2] ++ Branch.azLon.carried 1 fs) = tmpOf mom fs := by
  constructor
  · have : lonOf mom ((resultNames [.az a, .lon l]).zip [r0, r1, r2] ++ Branch.azLon.carried 1 fs) =
        lonOf mom ((resultNames [.az a, .lon l]).zip [r0, r1, r2]) :=
      lonOfM_congr mom _ _ (fun n hn => look_wrapped .azLon 1 fs _ n (by revert n; decide))
    rw [this]
    cases a <;> cases l <;> cases mom <;> rfl
  · have hA : ∀ n ∈ ["t", "E", "e", "energy", "tau", "M", "m", "mass"], n ∉ Branch.azLon.excl := by decide
    have hB : ∀ n ∈ ["t", "E", "e", "energy", "tau", "M", "m", "mass"], n ∉ resultNames [.az a, .lon l] := by
      cases a <;> cases l <;> decide
    refine tmpOfM_congr mom _ _ (fun n hn => ?_)
    have h1 := hB n hn
    have h2 := hA n hn
    simp [look, List.lookup_append, lookup_zip_none _ _ _ h1, lookup_carried, h2]

/-! ## 9. the hypotheses are satisfiable: a (px, py, eta, mass, charge) record -/

/-- distinct names, one spelling per coordinate; interpreter = compiled = compiled with dtypes; any order; `charge` is
ignored; generic reading fails; `to_xyzt`-like and `rotateZ`-like results read back fresh -/
example :
    let fs : List (String × Int) := [("px", 1), ("py", 2), ("eta", 3), ("mass", 4), ("charge", 5)]
    (fieldNames fs).Nodup ∧ doubled (fun n => (fieldNames fs).contains n) = false ∧
    readRec true 4 fs = .ok ⟨(.xy, 1, 2), some (.eta, 3), some (.tau, 4)⟩ ∧
    nbReadRec true 4 fs = .ok ⟨(.xy, 1, 2), some (.eta, 3), some (.tau, 4)⟩ ∧
    nbReadRecD (fun _ => ()) true 4 fs = .ok ⟨(.xy, 1, 2), some (.eta, 3), some (.tau, 4)⟩ ∧
    readRec true 4 fs.reverse = readRec true 4 fs ∧
    readRec true 4 (fs.filter (fun f => coordFieldNames.contains f.1)) = readRec true 4 fs ∧
    readRec false 4 fs = .error .valueError ∧ nbReadRec false 4 fs = .error .typingError ∧
    Branch.ofParts [.az .xy, .lon .z, .tmp .t] = some .azLonTmp ∧
    realWrap [.az .xy, .lon .z, .tmp .t] 1 4 fs [10, 20, 30, 40] =
      .ok (4, [("x", 10), ("y", 20), ("z", 30), ("t", 40), ("charge", 5)]) ∧
    readRec true 4 [("x", 10), ("y", 20), ("z", 30), ("t", 40), ("charge", 5)] =
      .ok ⟨(.xy, 10, 20), some (.z, 30), some (.t, 40)⟩ ∧
    realWrap [.az .rhophi] 1 4 fs [10, 20] = .ok (4, [("rho", 10), ("phi", 20), ("eta", 3), ("mass", 4), ("charge", 5)]) ∧
    readRec true 4 [("rho", 10), ("phi", 20), ("eta", 3), ("mass", 4), ("charge", 5)] =
      .ok ⟨(.rhophi, 10, 20), some (.eta, 3), some (.tau, 4)⟩ := by
  intro fs
  refine ⟨by decide, by decide, by rfl, by rfl, by rfl, by rfl, by rfl, by rfl, by rfl, by rfl, by rfl, by rfl, by rfl,
    by rfl⟩

/-- what the pinned tree (before 17af0b2) did, and why the theorem needs the repaired tuples: with `px`, `py` NOT excluded
in branch `[Azimuthal]`, the stale `px`, `py` of `self` stay in the result next to the fresh `rho`, `phi` — and the momentum
reader prefers x-y: it reads the STALE pair -/
example :
    let stale : List (String × Int) := [("rho", 10), ("phi", 20), ("px", 1), ("py", 2), ("eta", 3), ("mass", 4)]
    azOf true stale = .ok (.xy, 1, 2) ∧ azOf false stale = .ok (.rhophi, 10, 20) := by
  intro stale
  exact ⟨by rfl, by rfl⟩

/-! ## 10. extras and the dtype-aware compiled view -/

private theorem az_names_coord (mom : Bool) (p : String → Bool) (a : Az × String × String) (n : String × String)
    (hA : nbAzTypeP mom p = .ok a) (hn : nbLowerAz a.1 p = .ok n) :
    a.2.1 ∈ coordFieldNames ∧ a.2.2 ∈ coordFieldNames ∧ n.1 ∈ coordFieldNames ∧ n.2 ∈ coordFieldNames := by
  obtain ⟨sys, i, j⟩ := a
  obtain ⟨n1, n2⟩ := n
  revert hA hn
  cases sys <;> cases mom <;> cases hx : p "x" <;> cases hy : p "y" <;> cases hpx : p "px" <;> cases hpy : p "py" <;>
    cases hrho : p "rho" <;> cases hpt : p "pt" <;> cases hphi : p "phi" <;>
    simp [nbAzTypeP, nbLowerAz, idx, hx, hy, hpx, hpy, hrho, hpt, hphi] <;>
    (intro a b c d; subst a b c d; decide)

private theorem lon_names_coord (mom : Bool) (p : String → Bool) (l : Lon × String) (n : String)
    (hA : nbLonTypeP mom p = .ok l) (hn : nbLowerLon l.1 p = .ok n) :
    l.2 ∈ coordFieldNames ∧ n ∈ coordFieldNames := by
  obtain ⟨sys, i⟩ := l
  revert hA hn
  cases sys <;> cases mom <;> cases hz : p "z" <;> cases hpz : p "pz" <;> cases hth : p "theta" <;>
    cases heta : p "eta" <;>
    simp [nbLonTypeP, nbLowerLon, idx, hz, hpz, hth, heta] <;>
    (intro a b; subst a b; decide)

private theorem tmp_names_coord (mom : Bool) (p : String → Bool) (t : Tmp × String) (n : String)
    (hA : nbTmpTypeP mom p = .ok t) (hn : nbLowerTmp t.1 p = .ok n) :
    t.2 ∈ coordFieldNames ∧ n ∈ coordFieldNames := by
  obtain ⟨sys, i⟩ := t
  cases mom with
  | false =>
    have := (tmp_dt_false p (sys, i) n hA hn).2.2
    simp only at this
    subst this
    revert hA hn
    cases sys <;> cases ht : p "t" <;> cases htau : p "tau" <;>
      simp [nbTmpTypeP, nbLowerTmp, idx, ht, htau] <;> (intro a; subst a; decide)
  | true =>
    cases sys with
    | t =>
      have h1 := (c14f_typer_prefers_momentum p).2.2.2.1 i hA
      have h2 := (c14f_lowering_prefers_generic p).2.2.2.1 n hn
      subst h1 h2
      constructor <;> (repeat' split) <;> decide
    | tau =>
      have h1 := (c14f_typer_prefers_momentum p).2.2.2.2 i hA
      have h2 := (c14f_lowering_prefers_generic p).2.2.2.2 n hn
      subst h1 h2
      constructor <;> (repeat' split) <;> decide

private theorem names_coord (mom : Bool) (dim : Nat) (g : FMap S) (ty : NbType) (gt : NbGetters)
    (hT : nbTypeP mom dim g.has = .ok ty) (hL : nbLowerP ty g.has = .ok gt) :
    (∀ n ∈ ty.names, n ∈ coordFieldNames) ∧ (∀ n ∈ gt.names, n ∈ coordFieldNames) := by
  obtain ⟨⟨hA, hn⟩, hlon, htmp⟩ := type_lower_parts mom dim g ty gt hT hL
  have ha := az_names_coord mom g.has _ _ hA hn
  rcases hlon with ⟨a, b⟩ | ⟨l, n, a, b, c, d⟩ <;> rcases htmp with ⟨a', b'⟩ | ⟨t, n', a', b', c', d'⟩
  · simp [NbType.names, NbGetters.names, a, b, a', b', ha.1, ha.2.1, ha.2.2.1, ha.2.2.2]
  · have ht := tmp_names_coord mom g.has _ _ c' d'
    simp [NbType.names, NbGetters.names, a, b, a', b', ha.1, ha.2.1, ha.2.2.1, ha.2.2.2, ht.1, ht.2]
  · have hl := lon_names_coord mom g.has _ _ c d
    simp [NbType.names, NbGetters.names, a, b, a', b', ha.1, ha.2.1, ha.2.2.1, ha.2.2.2, hl.1, hl.2]
  · have hl := lon_names_coord mom g.has _ _ c d
    have ht := tmp_names_coord mom g.has _ _ c' d'
    simp [NbType.names, NbGetters.names, a, b, a', b', ha.1, ha.2.1, ha.2.2.1, ha.2.2.2, hl.1, hl.2, ht.1, ht.2]

private theorem nbTypeP_congr (mom : Bool) (dim : Nat) (p p' : String → Bool) (h : ∀ n ∈ coordFieldNames, p n = p' n) :
    nbTypeP mom dim p = nbTypeP mom dim p' := by
  have h1 := h "x" (by decide); have h2 := h "px" (by decide); have h3 := h "y" (by decide)
  have h4 := h "py" (by decide); have h5 := h "rho" (by decide); have h6 := h "pt" (by decide)
  have h7 := h "phi" (by decide); have h8 := h "z" (by decide); have h9 := h "pz" (by decide)
  have h10 := h "theta" (by decide); have h11 := h "eta" (by decide); have h12 := h "t" (by decide)
  have h13 := h "E" (by decide); have h14 := h "e" (by decide); have h15 := h "energy" (by decide)
  have h16 := h "tau" (by decide); have h17 := h "M" (by decide); have h18 := h "m" (by decide)
  have h19 := h "mass" (by decide)
  simp only [nbTypeP, nbAzTypeP, nbLonTypeP, nbTmpTypeP, idx,
    h1, h2, h3, h4, h5, h6, h7, h8, h9, h10, h11, h12, h13, h14, h15, h16, h17, h18, h19]

private theorem nbLowerP_congr (ty : NbType) (p p' : String → Bool) (h : ∀ n ∈ coordFieldNames, p n = p' n) :
    nbLowerP ty p = nbLowerP ty p' := by
  have h1 := h "x" (by decide); have h2 := h "px" (by decide); have h3 := h "y" (by decide)
  have h4 := h "py" (by decide); have h5 := h "rho" (by decide); have h6 := h "pt" (by decide)
  have h7 := h "phi" (by decide); have h8 := h "z" (by decide); have h9 := h "pz" (by decide)
  have h12 := h "t" (by decide)
  have h13 := h "E" (by decide); have h14 := h "e" (by decide); have h15 := h "energy" (by decide)
  have h16 := h "tau" (by decide); have h17 := h "M" (by decide); have h18 := h "m" (by decide)
  have h19 := h "mass" (by decide)
  unfold nbLowerP nbLowerAz nbLowerLon nbLowerTmp
  simp only [h1, h2, h3, h4, h5, h6, h7, h8, h9, h12, h13, h14, h15, h16, h17, h18, h19]

private theorem nbImpl_congr (g g' : FMap S) (ty : NbType) (gt : NbGetters) (h : ∀ n ∈ gt.names, g n = g' n) :
    nbImpl g ty gt = nbImpl g' ty gt := by
  obtain ⟨⟨n1, n2⟩, ln, tn⟩ := gt
  obtain ⟨a, tl, tt⟩ := ty
  cases ln <;> cases tn <;> cases tl <;> cases tt <;> simp [NbGetters.names] at h <;> simp [nbImpl, rd2, rd1, h]

private theorem nbReadDM_congr {D : Type} [DecidableEq D] (dt : S → D) (mom : Bool) (dim : Nat) (g g' : FMap S)
    (h : ∀ n ∈ coordFieldNames, g n = g' n) : nbReadDM dt mom dim g = nbReadDM dt mom dim g' := by
  have hp : ∀ n ∈ coordFieldNames, g.has n = g'.has n := fun n hn => by simp only [FMap.has, h n hn]
  unfold nbReadDM
  rw [nbTypeP_congr mom dim g.has g'.has hp]
  cases hT : nbTypeP mom dim g'.has with
  | error e => rfl
  | ok ty =>
    simp only
    rw [nbLowerP_congr ty g.has g'.has hp]
    cases hL : nbLowerP ty g'.has with
    | error e => rfl
    | ok gt =>
      obtain ⟨c1, c2⟩ := names_coord mom dim g' ty gt hT hL
      have e1 : ty.names.map (fun n => (g n).map dt) = ty.names.map (fun n => (g' n).map dt) :=
        List.map_congr_left (fun n hn => by rw [h n (c1 n hn)])
      have e2 : gt.names.map (fun n => (g n).map dt) = gt.names.map (fun n => (g' n).map dt) :=
        List.map_congr_left (fun n hn => by rw [h n (c2 n hn)])
      simp only [e1, e2, nbImpl_congr g g' ty gt (fun n hn => h n (c2 n hn))]

/-- the dtype-aware compiled view reads coordinate names only, too: non-coordinate fields never matter -/
theorem c14f_extras_dtype {D : Type} [DecidableEq D] (dt : S → D) (mom : Bool) (dim : Nat)
    (fs : List (String × S)) :
    nbReadRecD dt mom dim (fs.filter (fun f => coordFieldNames.contains f.1)) = nbReadRecD dt mom dim fs := by
  rw [c14f_nbReadRecD_eq, c14f_nbReadRecD_eq]
  exact nbReadDM_congr dt mom dim _ _
    (fun n hn => look_filter (fun n => coordFieldNames.contains n) fs n (by simpa using hn))

end
end VG
