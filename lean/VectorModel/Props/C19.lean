/-
Property C19 — "NumPy vector arrays behave as arrays of vectors".

A NumPy vector array with index set `ι` (any shape) over element scalars `X` is modelled as `Vec (ι → X)`
(`Glue/Arrays.lean`): ONE vector type (backend, flavor, coordinate system) and one column per stored coordinate.
* integer index            `index a i`      = `a.map (· i)`
* slice / mask / fancy index / reshape / transpose / view / copy / pickle round trip
                           `reindex r a`    = `a.map (· ∘ r)`   (`r` : position of the new array ↦ position shown)
* a single vector as array `asArray v`
* name index `a["x"]`      `column a c`     = the stored column named `c`.
The statements below are about this model for ALL `ι`, `X` (and all compute layers `ev` where one occurs); the facts
needed about the compute layer are the identity accessors `IdLaws` of `Props/C15.lean`, proved there for the
generated compute layer at every scalar type — in particular at columns.
-/
import VectorModel.Props.C15
import VectorModel.Glue.Arrays

set_option linter.unusedVariables false
set_option linter.constructorNameAsVariable false
namespace VG
open VK

section
variable {ι κ μ X B Bx : Type}

/-! ### integer index -/

/-- an element has the array's vector type: same flavor (momentum or not), same azimuthal / longitudinal / temporal
coordinate system, same dimension.  (The model keeps the backend tag too — it marks "element of a NumPy array"; see
`elemObj` / `c03_array_vs_object` in `Props/C03.lean` for the relabelling to an object-backend vector.) -/
theorem c19_index_ty (a : Vec (ι → X)) (i : ι) :
    (index a i).ty = a.ty ∧ (index a i).ty.mom = a.ty.mom ∧ (index a i).ty.az = a.ty.az ∧
      (index a i).ty.lon = a.ty.lon ∧ (index a i).ty.tmp = a.ty.tmp ∧ (index a i).ty.dim = a.ty.dim :=
  ⟨rfl, rfl, rfl, rfl, rfl, rfl⟩

/-- … and exactly the element's coordinates: position `i` of every column, in storage order -/
theorem c19_index_coords (a : Vec (ι → X)) (i : ι) :
    (index a i).c = a.c.map (· i) ∧ (index a i).c.length = a.c.length ∧
      ∀ p : Nat, (index a i).c[p]? = (a.c[p]?).map (· i) :=
  ⟨rfl, by simp [index], fun p => by simp [index]⟩

/-- the coordinate groups of the element are the element's positions of the groups' columns -/
theorem c19_index_groups (a : Vec (ι → X)) (i : ι) :
    (index a i).azEl = a.azEl.map (· i) ∧ (index a i).lonEl = a.lonEl.map (· i) ∧
      (index a i).tmpEl = a.tmpEl.map (· i) :=
  ⟨Vec.map_azEl _ a, Vec.map_lonEl _ a, Vec.map_tmpEl _ a⟩

/-- elements of a well-formed array are well-formed vectors -/
theorem c19_index_wfv {a : Vec (ι → X)} (ha : WFV a) (i : ι) : WFV (index a i) :=
  ⟨ha.1, by simpa [index] using ha.2⟩

/-- an array IS its elements: two arrays of the same vector type (and as many columns) with equal elements are equal -/
theorem c19_ext {a b : Vec (ι → X)} (hty : a.ty = b.ty) (hlen : a.c.length = b.c.length)
    (h : ∀ i, index a i = index b i) : a = b := by
  apply Vec.ext' hty
  apply List.ext_getElem hlen
  intro n h1 h2
  funext i
  have := congrArg (fun v => v.c[n]?) (h i)
  simpa [index, List.getElem?_eq_getElem h1, List.getElem?_eq_getElem h2] using this

/-! ### slices, masks, reshapes, views, copies -/

/-- a slice / mask / reshape / view has the same vector type (coordinate system, flavor, dimension) -/
theorem c19_reindex_ty (r : κ → ι) (a : Vec (ι → X)) :
    (reindex r a).ty = a.ty ∧ (reindex r a).c.length = a.c.length := ⟨rfl, by simp [reindex]⟩

/-- element `j` of the slice is the element of the original array that position `j` shows -/
theorem c19_index_reindex (r : κ → ι) (a : Vec (ι → X)) (j : κ) : index (reindex r a) j = index a (r j) := by
  simp [index, reindex, Function.comp_def]

/-- slicing a slice is one slicing -/
theorem c19_reindex_reindex (r : κ → ι) (s : μ → κ) (a : Vec (ι → X)) :
    reindex s (reindex r a) = reindex (r ∘ s) a := by
  simp [reindex, Function.comp_def]

/-- a pickle / `copy()` / `a[...]` / `a[:]` round trip (the identity reindexing) gives the same array -/
theorem c19_reindex_id (a : Vec (ι → X)) : reindex id a = a := by
  obtain ⟨ty, c⟩ := a
  simp [reindex, Vec.map, Function.comp_def]

/-- a reshape / transpose and back (or any reindexing undone by another) gives the same array -/
theorem c19_reindex_roundtrip (r : κ → ι) (s : ι → κ) (h : ∀ i, r (s i) = i) (a : Vec (ι → X)) :
    reindex s (reindex r a) = a := by
  rw [c19_reindex_reindex, show r ∘ s = id from funext h, c19_reindex_id]

/-- a slice of a well-formed array is well-formed -/
theorem c19_reindex_wfv {a : Vec (ι → X)} (ha : WFV a) (r : κ → ι) : WFV (reindex r a) :=
  ⟨ha.1, by simpa [reindex] using ha.2⟩

/-! ### a single vector as an array -/

theorem c19_asArray (v : Vec X) : (asArray v).ty = v.ty ∧ index (asArray v) () = v := by
  obtain ⟨ty, c⟩ := v
  exact ⟨rfl, by simp [index, asArray, Vec.map, Function.comp_def]⟩

/-- every reindexing of a one-element array shows that one element: a broadcast -/
theorem c19_reindex_asArray (v : Vec X) (r : κ → Unit) (j : κ) : index (reindex r (asArray v)) j = v := by
  rw [c19_index_reindex]; exact (c19_asArray v).2

/-- a broadcast vector is an array all of whose elements are the vector, of the vector's type -/
theorem c19_bcast (v : Vec X) (i : ι) : (bcast ι v).ty = v.ty ∧ index (bcast ι v) i = v :=
  ⟨rfl, index_bcast v i⟩

/-! ### name index -/

/-- `colPos` is the position `CName.pos` of `Props/C15.lean`, defined exactly on the names the type stores -/
theorem c19_colPos_eq (ty : VT) (c : CName) :
    colPos ty c = if c ∈ coordNames ty then some c.pos else none := by
  obtain ⟨be, mom, az, lon, tmp⟩ := ty
  cases c <;> rcases az with _ | _ <;> rcases lon with _ | (_ | _ | _) <;> rcases tmp with _ | (_ | _) <;>
    simp [colPos, coordNames, azCNames, lonCName, tmpCName, CName.pos]

/-- the name index returns a column exactly for the names the coordinate system stores (on a well-formed array) -/
theorem c19_column_isSome {a : Vec (ι → X)} (ha : WFV a) (c : CName) :
    (column a c).isSome ↔ c ∈ coordNames a.ty := by
  simp only [column, Vec.stored, c19_colPos_eq]
  constructor
  · intro h
    by_cases hc : c ∈ coordNames a.ty
    · exact hc
    · simp [hc] at h
  · intro hc
    obtain ⟨s, hs⟩ := c15_stored_pos ha hc
    simp [hc, hs]

/-- name index and integer index commute: position `i` of the column named `c` is the stored coordinate `c` of
element `i` -/
theorem c19_column_index (a : Vec (ι → X)) (c : CName) (i : ι) :
    (column a c).map (· i) = (index a i).stored c := by
  simp only [column, Vec.stored, index, Vec.map_ty, Vec.map_c]
  cases colPos a.ty c with
  | none => rfl
  | some p => simp

/-- name index and slicing commute -/
theorem c19_column_reindex (a : Vec (ι → X)) (c : CName) (r : κ → ι) :
    column (reindex r a) c = (column a c).map (· ∘ r) := by
  simp only [column, Vec.stored, reindex, Vec.map_ty, Vec.map_c]
  cases colPos a.ty c with
  | none => rfl
  | some p => simp

/-- the column named `c`, read through the PROPERTY of that name (`a.x`, `a.rho`, …: `getS` at the column type), is the
stored column — exactly, no arithmetic — whenever the compute layer's identity accessors are identities -/
theorem c19_name_index {ev : Ev (ι → X) B} (hid : IdLaws ev) {a : Vec (ι → X)} (ha : WFV a) {c : CName}
    {col : ι → X} (hc : column a c = some col) : getS ev c.acc a = .ok col := by
  have hmem : c ∈ coordNames a.ty := (c19_column_isSome ha c).mp (by simp [hc])
  simp only [column, Vec.stored, c19_colPos_eq, hmem, if_true, Option.bind_some] at hc
  exact c15_get_stored hid ha hmem hc

/-- … and at every position it is the stored coordinate of the element there, which is also what the element's own
property of that name returns -/
theorem c19_name_index_elem {evo : Ev X Bx} (hid : IdLaws evo) {a : Vec (ι → X)} (ha : WFV a) {c : CName}
    {col : ι → X} (hc : column a c = some col) (i : ι) :
    (index a i).stored c = some (col i) ∧ getS evo c.acc (index a i) = .ok (col i) := by
  have h1 : (index a i).stored c = some (col i) := by rw [← c19_column_index, hc]; rfl
  refine ⟨h1, ?_⟩
  have hmem : c ∈ coordNames a.ty := (c19_column_isSome ha c).mp (by simp [hc])
  have h2 := h1
  simp only [Vec.stored, c19_colPos_eq, index, Vec.map_ty, hmem, if_true, Option.bind_some] at h2
  exact c15_get_stored hid (c19_index_wfv ha i) hmem h2

/-- a name the coordinate system does not store is not a column of the array (NumPy raises on `a["rho"]` for a
Cartesian array), although the PROPERTY `a.rho` exists and is computed -/
theorem c19_column_none {a : Vec (ι → X)} {c : CName} (hc : c ∉ coordNames a.ty) : column a c = none := by
  simp [column, Vec.stored, c19_colPos_eq, hc]

end

/-! ### the generated compute layer; examples -/

section
open VE
variable {ι X : Type} [Scalar X]

/-- the identity accessors hold for the generated compute layer at COLUMNS (`c15_idLaws_exec` at `S := ι → X`) -/
theorem c19_idLaws_columns : IdLaws (execEv (ι → X)) := c15_idLaws_exec

/-- name index on the generated compute layer, unconditionally -/
theorem c19_exec_name_index {a : Vec (ι → X)} (ha : WFV a) {c : CName} {col : ι → X} (hc : column a c = some col)
    (i : ι) : getS (execEv (ι → X)) c.acc a = .ok col ∧ getS (execEv X) c.acc (index a i) = .ok (col i) :=
  ⟨c19_name_index c19_idLaws_columns ha hc, (c19_name_index_elem c15_idLaws_exec ha hc i).2⟩

/-- a concrete array of 4D momentum vectors (pt, phi, eta, mass) with index set `ι` -/
def exArr (pt phi eta m : ι → X) : Vec (ι → X) :=
  ⟨{ be := .np, mom := true, az := .rhophi, lon := some .eta, tmp := some .tau }, [pt, phi, eta, m]⟩

example (pt phi eta m : ι → X) : WFV (exArr pt phi eta m) := ⟨fun _ => rfl, rfl⟩

/-- integer index: the element, in the array's coordinate system and flavor -/
example (pt phi eta m : ι → X) (i : ι) :
    index (exArr pt phi eta m) i =
      ⟨{ be := .np, mom := true, az := .rhophi, lon := some .eta, tmp := some .tau }, [pt i, phi i, eta i, m i]⟩ := rfl

/-- a slice `a[1:]` of a flat array of length `n + 1`: position `j` shows position `j + 1` -/
example {n : Nat} (pt phi eta m : Fin (n + 1) → X) (j : Fin n) :
    index (reindex Fin.succ (exArr pt phi eta m)) j = index (exArr pt phi eta m) j.succ := c19_index_reindex _ _ _

/-- name index: `a["eta"]` is the eta column; `a["x"]` is not a column of a polar array -/
example (pt phi eta m : ι → X) :
    column (exArr pt phi eta m) .eta = some eta ∧ column (exArr pt phi eta m) .tau = some m ∧
      column (exArr pt phi eta m) .x = none := ⟨rfl, rfl, rfl⟩

/-- … and `a.eta` (the property) returns it exactly -/
example (pt phi eta m : ι → X) : getS (execEv (ι → X)) .eta (exArr pt phi eta m) = .ok eta := rfl

end
end VG
