/-
Property C03 — "Object, NumPy and Awkward backends compute the same values".

The glue model is polymorphic in the scalar type; an array of vectors stored column-wise is the glue at a column
type (`Glue/Arrays.lean`).  This file proves NATURALITY of the glue: every operation of the glue commutes with every
scalar map `f : S → T` (and truth-value map `g : B → C`) that the compute layer commutes with (`Ev.Natural`, the
explicit hypothesis: NumPy's ufunc contract for `f := (· i)`).  The property is the corollary at `S := ι → X`,
`f := (· i)`.
-/
import Lean.Elab.Tactic
import Lean.Elab.Command
import VectorModel.Gen.Exec.All
import VectorModel.Glue.Arrays

set_option linter.unusedVariables false
set_option linter.unusedSimpArgs false
set_option linter.constructorNameAsVariable false
namespace VG
open VK

section
variable {S T B C : Type}

/-- both sides are the same decision tree: split it, reducing the other side with the case hypotheses -/
local macro "nsplit" : tactic =>
  `(tactic| repeat' (split <;> (try simp only [*, ↓reduceIte, reduceCtorEq, Bool.false_eq_true]) <;> (try rfl)))

/-! ### `_wrap_result` -/

theorem c03_wrapVec (f : S → T) (self : Vec S) (be : Backend) (mom : Bool) (raw : List S) (parts : List RP) :
    (wrapVec self be mom raw parts).map (Vec.map f) = wrapVec (self.map f) be mom (raw.map f) parts := by
  simp only [wrapVec, Vec.map_lonEl, Vec.map_tmpEl]
  split <;> (try split) <;> simp_all [Except.map, Vec.map, List.map_take]

theorem c03_wrapResult (f : S → T) (g : B → C) (self : Vec S) (be : Backend) (mom : Bool) (out : Out S B) (ret : Ret) :
    (wrapResult self be mom out ret).map (Res.map f g) =
      wrapResult (self.map f) be mom (out.map f g) ret := by
  cases ret with
  | float =>
    cases out with
    | truth b => rfl
    | vals l =>
      match l with
      | [] => rfl
      | [s] => rfl
      | _ :: _ :: _ => rfl
  | bool => cases out <;> rfl
  | vec parts =>
    cases out with
    | truth b => rfl
    | vals raw =>
      have h := c03_wrapVec f self be mom raw parts
      simp only [wrapResult, Out.map]
      rw [← h]
      cases wrapVec self be mom raw parts <;> rfl

/-! ### `dispatch()` -/

private theorem operandKey_map (f : S → T) (v : Vec S) (n : Nat) :
    operandKey (v.map f) n = (operandKey v n).map (Prod.map id (List.map f)) := by
  simp only [operandKey, Vec.map_azEl, Vec.map_lonEl, Vec.map_tmpEl]
  split <;> simp

private theorem mapM_zip_map {α β γ δ : Type} (φ : α → β) (ψ : γ → δ) (k : α × Nat → Option γ) (k' : β × Nat → Option δ)
    (hk : ∀ v n, k' (φ v, n) = (k (v, n)).map ψ) : ∀ (ops : List α) (slots : List Nat),
    ((ops.map φ).zip slots).mapM k' = ((ops.zip slots).mapM k).map (List.map ψ)
  | [], _ => by simp
  | _ :: _, [] => by simp
  | v :: ops, n :: slots => by
    simp only [List.map_cons, List.zip_cons_cons, List.mapM_cons, hk, mapM_zip_map φ ψ k k' hk ops slots]
    cases k (v, n) <;> simp
    cases (ops.zip slots).mapM k <;> simp

private theorem handlerOf_go_map (f : S → T) : ∀ (vs : List (Vec S)) (h : Option (Vec S)),
    (vs.map (Vec.map f)).foldl (fun h v => match h with
      | none => some v
      | some h => if v.ty.be.prio > h.ty.be.prio then some v else some h) (h.map (Vec.map f)) =
    (vs.foldl (fun h v => match h with
      | none => some v
      | some h => if v.ty.be.prio > h.ty.be.prio then some v else some h) h).map (Vec.map f)
  | [], h => rfl
  | v :: vs, h => by
    simp only [List.map_cons, List.foldl_cons]
    rw [← handlerOf_go_map f vs]
    congr 1
    cases h with
    | none => rfl
    | some h => simp only [Option.map_some]; split <;> simp [*]

/-- the handler of the mapped operands is the mapped handler -/
theorem c03_handlerOf (f : S → T) (vs : List (Vec S)) :
    handlerOf (vs.map (Vec.map f)) = (handlerOf vs).map (Vec.map f) :=
  handlerOf_go_map f vs none

private theorem any_mom_map (f : S → T) (vs : List (Vec S)) :
    (vs.map (Vec.map f)).any (·.ty.mom) = vs.any (·.ty.mom) := by
  simp [List.any_map, Function.comp_def]

/-- NATURALITY of `dispatch()`: key, handler, flavor and result class do not look at the scalars; the coordinates are
moved, never inspected -/
theorem c03_dispatch {f : S → T} {g : B → C} {ev : Ev S B} {ev' : Ev T C} (hev : Ev.Natural f g ev ev')
    (m : ModuleId) (scalars : List S) (ord : Option Ord) (ops counted : List (Vec S)) :
    (dispatch ev m scalars ord ops counted).map (Res.map f g) =
      dispatch ev' m (scalars.map f) ord (ops.map (Vec.map f)) (counted.map (Vec.map f)) := by
  simp only [dispatch, List.length_map, c03_handlerOf, any_mom_map]
  rw [mapM_zip_map (Vec.map f) (Prod.map id (List.map f)) (fun (v, n) => operandKey v n) _
    (fun v n => operandKey_map f v n)]
  split
  · rfl
  · cases (ops.zip (operandSlots m.info.shape)).mapM (fun (v, n) => operandKey v n) with
    | none => rfl
    | some parts =>
      have hk : (List.map (·.1) (List.map (Prod.map id (List.map f)) parts)) = List.map (·.1) parts := by
        simp [List.map_map, Function.comp_def]
      have ha : List.map f scalars ++ (List.map (·.2) (List.map (Prod.map id (List.map f)) parts)).flatten =
          List.map f (scalars ++ (List.map (·.2) parts).flatten) := by
        simp [List.map_map, List.map_flatten, Function.comp_def]
      simp only [Option.map_some]
      rw [hk, ha, hev]
      cases ev m _ _ with
      | none => rfl
      | some p =>
        obtain ⟨out, ret⟩ := p
        simp only [Option.map_some, Prod.map, id]
        cases handlerOf counted with
        | none => rfl
        | some h => exact c03_wrapResult f g h h.ty.be _ out ret

/-! ### accessors, `scale` -/

theorem c03_getAcc {f : S → T} {g : B → C} {ev : Ev S B} {ev' : Ev T C} (hev : Ev.Natural f g ev ev')
    (a : Acc) (v : Vec S) : (getAcc ev a v).map (Res.map f g) = getAcc ev' a (v.map f) := by
  simp only [getAcc]
  nsplit
  exact c03_dispatch hev _ [] none [v] [v]

theorem c03_getS {f : S → T} {g : B → C} {ev : Ev S B} {ev' : Ev T C} (hev : Ev.Natural f g ev ev')
    (a : Acc) (v : Vec S) : (getS ev a v).map f = getS ev' a (v.map f) := by
  simp only [getS, ← c03_getAcc hev]
  cases getAcc ev a v with
  | error e => rfl
  | ok r => cases r <;> rfl

theorem c03_scaleN {f : S → T} {g : B → C} {ev : Ev S B} {ev' : Ev T C} (hev : Ev.Natural f g ev ev')
    (n : Nat) (s : S) (v : Vec S) : (scaleN ev n s v).map (Res.map f g) = scaleN ev' n (f s) (v.map f) := by
  simp only [scaleN]
  nsplit
  exact c03_dispatch hev _ [s] none [v] [v]

theorem c03_negN {f : S → T} {g : B → C} {ev : Ev S B} {ev' : Ev T C} (hev : Ev.Natural f g ev ev')
    (K : Consts S) (n : Nat) (v : Vec S) :
    (negN ev K n v).map (Res.map f g) = negN ev' (K.map f) n (v.map f) :=
  c03_scaleN hev n K.negOne v

/-! ### binary methods -/

theorem c03_binary {f : S → T} {g : B → C} {ev : Ev S B} {ev' : Ev T C} (hev : Ev.Natural f g ev ev')
    (K : Consts S) (b : Bin) (self o : Vec S) (extra : List S) :
    (binary ev K b self o extra).map (Res.map f g) =
      binary ev' (K.map f) b (self.map f) (o.map f) (extra.map f) := by
  have hd := fun m sc => c03_dispatch hev m sc none [self, o] [self, o]
  cases b
  case boostCM_of_p4 | boostCM_of_beta3 | boostCM_of =>
    simp only [binary, ← c03_negN hev]
    split
    · rfl
    split
    · rfl
    cases negN ev K 3 o with
    | error e => rfl
    | ok r =>
      cases r with
      | scalar s => rfl
      | truth t => rfl
      | vec n => exact c03_dispatch hev _ [] none [self, n] [self, n]
  all_goals
    simp only [binary, List.isEmpty_map]
    nsplit
    all_goals first
      | exact hd _ _
      | trace_state

/-! ### conversions -/

/-- `to_Vector2D/3D/4D`, `like`: keyword values and the default `0.0` are moved like coordinates -/
theorem c03_toDim (f : S → T) (zeroF : S) (target : Nat) (v : Vec S) (lonKw : List (Lon × S))
    (tmpKw : List (Tmp × S)) (otherKw : Nat) :
    (toDim zeroF target v lonKw tmpKw otherKw).map (Vec.map f) =
      toDim (f zeroF) target (v.map f) (lonKw.map (Prod.map id f)) (tmpKw.map (Prod.map id f)) otherKw := by
  rcases lonKw with _ | ⟨⟨l, ls⟩, lonKw⟩ <;> rcases tmpKw with _ | ⟨⟨t, ts⟩, tmpKw⟩ <;>
    simp only [toDim, List.map_cons, List.map_nil, Prod.map, id, List.isEmpty_cons, List.isEmpty_nil, List.length_cons,
      List.length_nil, List.length_map, Vec.map_azEl, Vec.map_lonEl, Vec.map_tmpEl] <;>
    nsplit <;> simp [Except.map]

private theorem mapM_except_map {α β γ : Type} (f : β → γ) (k : α → Except Err β) (k' : α → Except Err γ)
    (hk : ∀ x, k' x = (k x).map f) : ∀ l : List α, l.mapM k' = (l.mapM k).map (List.map f)
  | [] => rfl
  | a :: l => by
    simp only [List.mapM_cons, hk, mapM_except_map f k k' hk l]
    cases k a with
    | error e => rfl
    | ok b => cases l.mapM k <;> rfl

/-- `to_<system>`: every output coordinate is an accessor (natural) or an imputed keyword value / `0.0` (moved) -/
theorem c03_toSystem {f : S → T} {g : B → C} {ev : Ev S B} {ev' : Ev T C} (hev : Ev.Natural f g ev ev')
    (zeroF : S) (v : Vec S) (az : Az) (lon : Option Lon) (tmp : Option Tmp) (kl kt : Option S) :
    (toSystem ev zeroF v az lon tmp kl kt).map (Vec.map f) =
      toSystem ev' (f zeroF) (v.map f) az lon tmp (kl.map f) (kt.map f) := by
  simp only [toSystem, ← c03_getS hev]
  rw [mapM_except_map f (fun n : CName => getS ev n.acc v) (fun n : CName => Except.map f (getS ev n.acc v))
    (fun _ => rfl)]
  have hkl : (kl.map f).getD (f zeroF) = f (kl.getD zeroF) := by cases kl <;> rfl
  have hkt : (kt.map f).getD (f zeroF) = f (kt.getD zeroF) := by cases kt <;> rfl
  rw [hkl, hkt]
  cases (azCNames az).mapM (fun n => getS ev n.acc v) with
  | error e => rfl
  | ok azv =>
    cases lon with
    | none =>
      cases tmp with
      | none => simp [bind, Except.bind, pure, Except.pure, Except.map]
      | some t =>
        by_cases h4 : v.ty.dim ≥ 4
        · simp only [h4]
          cases getS ev (tmpCName t).acc v <;> simp [bind, Except.bind, pure, Except.pure, Except.map]
        · simp [h4, bind, Except.bind, pure, Except.pure, Except.map]
    | some l =>
      by_cases h3 : v.ty.dim ≥ 3
      · simp only [h3]
        cases getS ev (lonCName l).acc v with
        | error e => simp [bind, Except.bind, pure, Except.pure, Except.map]
        | ok lv =>
          cases tmp with
          | none => simp [bind, Except.bind, pure, Except.pure, Except.map]
          | some t =>
            by_cases h4 : v.ty.dim ≥ 4
            · simp only [h4]
              cases getS ev (tmpCName t).acc v <;> simp [bind, Except.bind, pure, Except.pure, Except.map]
            · simp [h4, bind, Except.bind, pure, Except.pure, Except.map]
      · cases tmp with
        | none => simp [h3, bind, Except.bind, pure, Except.pure, Except.map]
        | some t =>
          by_cases h4 : v.ty.dim ≥ 4
          · simp only [h4]
            cases getS ev (tmpCName t).acc v <;> simp [h3, bind, Except.bind, pure, Except.pure, Except.map]
          · simp [h3, h4, bind, Except.bind, pure, Except.pure, Except.map]

/-! ### the state machine: coordinate assignment, `_replace_data`, in-place operators -/

theorem c03_setC {f : S → T} {g : B → C} {ev : Ev S B} {ev' : Ev T C} (hev : Ev.Natural f g ev ev')
    (c : CName) (a : S) (v : Vec S) : (setC ev c a v).map (Vec.map f) = setC ev' c (f a) (v.map f) := by
  cases c <;> simp only [setC, ← c03_getS hev, Vec.map_azEl, Vec.map_lonEl, Vec.map_tmpEl]
  case x => cases getS ev .y v <;> simp [bind, Except.bind, pure, Except.pure, Except.map]
  case y => cases getS ev .x v <;> simp [bind, Except.bind, pure, Except.pure, Except.map]
  case rho => cases getS ev .phi v <;> simp [bind, Except.bind, pure, Except.pure, Except.map]
  case phi => cases getS ev .rho v <;> simp [bind, Except.bind, pure, Except.pure, Except.map]
  all_goals split <;> simp [pure, Except.pure, Except.map]

theorem c03_replaceData {f : S → T} {g : B → C} {ev : Ev S B} {ev' : Ev T C} (hev : Ev.Natural f g ev ev')
    (self r : Vec S) : (replaceData ev self r).map (Vec.map f) = replaceData ev' (self.map f) (r.map f) := by
  simp only [replaceData, ← c03_getS hev]
  rw [mapM_except_map f (fun n : CName => getS ev n.acc r) (fun n : CName => Except.map f (getS ev n.acc r))
    (fun _ => rfl)]
  cases (azCNames self.ty.az).mapM (fun n => getS ev n.acc r) with
  | error e => rfl
  | ok azv =>
    cases self.ty.lon with
    | none =>
      cases self.ty.tmp with
      | none => simp [bind, Except.bind, pure, Except.pure, Except.map]
      | some t =>
        dsimp only
        cases getS ev (tmpCName t).acc r <;> simp [bind, Except.bind, pure, Except.pure, Except.map]
    | some l =>
      dsimp only
      cases getS ev (lonCName l).acc r with
      | error e => simp [bind, Except.bind, pure, Except.pure, Except.map]
      | ok lv =>
        cases self.ty.tmp with
        | none => simp [bind, Except.bind, pure, Except.pure, Except.map]
        | some t =>
          dsimp only
          cases getS ev (tmpCName t).acc r <;> simp [bind, Except.bind, pure, Except.pure, Except.map]

/-- the functional result behind an in-place operator; `A.inv` (the `1 / f` of `/=`) is the only arithmetic the glue
performs here, so it has to commute with `f` as well -/
theorem c03_iopResult {f : S → T} {g : B → C} {ev : Ev S B} {ev' : Ev T C} (hev : Ev.Natural f g ev ev')
    (K : Consts S) {A : Arith S} {A' : Arith T} (hinv : ∀ s, A'.inv (f s) = f (A.inv s)) (v : Vec S) (st : Step S) :
    (iopResult ev K A v st).map (Res.map f g) = iopResult ev' (K.map f) A' (v.map f) (st.map f) := by
  cases st with
  | set c a => rfl
  | setReadOnly => rfl
  | setOther => rfl
  | iopV op o =>
    cases op
    case add => exact c03_binary hev K .add v o []
    case sub => exact c03_binary hev K .subtract v o []
    all_goals rfl
  | iopS op s =>
    cases op
    case mul => exact c03_scaleN hev _ s v
    case div => simp only [iopResult, Step.map, hinv]; exact c03_scaleN hev _ _ v
    all_goals rfl

theorem c03_stepE {f : S → T} {g : B → C} {ev : Ev S B} {ev' : Ev T C} (hev : Ev.Natural f g ev ev')
    (K : Consts S) {A : Arith S} {A' : Arith T} (hinv : ∀ s, A'.inv (f s) = f (A.inv s)) (v : Vec S) (st : Step S) :
    (stepE ev K A v st).map (Vec.map f) = stepE ev' (K.map f) A' (v.map f) (st.map f) := by
  have hi := c03_iopResult hev K hinv v
  cases st with
  | set c a => exact c03_setC hev c a v
  | setReadOnly => rfl
  | setOther => rfl
  | iopV op o =>
    have h := hi (.iopV op o)
    simp only [stepE, Step.map] at h ⊢
    rw [← h]
    cases iopResult ev K A v (.iopV op o) with
    | error e => rfl
    | ok r => cases r <;> first | rfl | exact c03_replaceData hev v _
  | iopS op s =>
    have h := hi (.iopS op s)
    simp only [stepE, Step.map] at h ⊢
    rw [← h]
    cases iopResult ev K A v (.iopS op s) with
    | error e => rfl
    | ok r => cases r <;> first | rfl | exact c03_replaceData hev v _

/-- one step of a history: the new state is the mapped state, the raised error (if any) is the same -/
theorem c03_step {f : S → T} {g : B → C} {ev : Ev S B} {ev' : Ev T C} (hev : Ev.Natural f g ev ev')
    (K : Consts S) {A : Arith S} {A' : Arith T} (hinv : ∀ s, A'.inv (f s) = f (A.inv s)) (v : Vec S) (st : Step S) :
    step ev' (K.map f) A' (v.map f) (st.map f) = ((step ev K A v st).1.map f, (step ev K A v st).2) := by
  simp only [step, ← c03_stepE hev K hinv]
  cases stepE ev K A v st <;> rfl

/-- whole histories: every intermediate state and every raised error -/
theorem c03_run {f : S → T} {g : B → C} {ev : Ev S B} {ev' : Ev T C} (hev : Ev.Natural f g ev ev')
    (K : Consts S) {A : Arith S} {A' : Arith T} (hinv : ∀ s, A'.inv (f s) = f (A.inv s)) :
    ∀ (steps : List (Step S)) (v : Vec S),
      run ev' (K.map f) A' (v.map f) (steps.map (Step.map f)) =
        (run ev K A v steps).map (Prod.map (Vec.map f) id)
  | [], v => rfl
  | st :: rest, v => by
    simp only [List.map_cons, run, c03_step hev K hinv, c03_run hev K hinv rest]
    rfl

theorem c03_runFinal {f : S → T} {g : B → C} {ev : Ev S B} {ev' : Ev T C} (hev : Ev.Natural f g ev ev')
    (K : Consts S) {A : Arith S} {A' : Arith T} (hinv : ∀ s, A'.inv (f s) = f (A.inv s)) :
    ∀ (steps : List (Step S)) (v : Vec S),
      runFinal ev' (K.map f) A' (v.map f) (steps.map (Step.map f)) = (runFinal ev K A v steps).map f
  | [], v => rfl
  | st :: rest, v => by
    simp only [List.map_cons, runFinal, c03_step hev K hinv, c03_runFinal hev K hinv rest]

end

/-! ### the backend tag

`index a i` keeps the whole vector type of the array, including the backend tag; the element the user gets is an
OBJECT-backend vector.  The tag only selects the handler and labels the result: relabelling all operands (whenever
that does not change WHICH operand is the handler, e.g. when they share one backend) relabels the result. -/

section
variable {S B : Type}

private theorem wrapVec_setBe (b be : Backend) (self : Vec S) (mom : Bool) (raw : List S) (parts : List RP) :
    wrapVec (self.setBe b) b mom raw parts = (wrapVec self be mom raw parts).map (Vec.setBe b) := by
  have h1 : (self.setBe b).lonEl = self.lonEl := rfl
  have h2 : (self.setBe b).tmpEl = self.tmpEl := rfl
  have h3 : (self.setBe b).ty.lon = self.ty.lon := rfl
  have h4 : (self.setBe b).ty.tmp = self.ty.tmp := rfl
  have h5 : (self.setBe b).ty.dim = self.ty.dim := rfl
  simp only [wrapVec, h1, h2, h3, h4, h5]
  split <;> (try split) <;> rfl

private theorem wrapResult_setBe (b be : Backend) (self : Vec S) (mom : Bool) (out : Out S B) (ret : Ret) :
    wrapResult (self.setBe b) b mom out ret = (wrapResult self be mom out ret).map (Res.setBe b) := by
  cases ret with
  | float =>
    cases out with
    | truth t => rfl
    | vals l =>
      match l with
      | [] => rfl
      | [s] => rfl
      | _ :: _ :: _ => rfl
  | bool => cases out <;> rfl
  | vec parts =>
    cases out with
    | truth t => rfl
    | vals raw =>
      simp only [wrapResult, wrapVec_setBe b be]
      cases wrapVec self be mom raw parts <;> rfl

private theorem operandKey_setBe (b : Backend) (v : Vec S) (n : Nat) : operandKey (v.setBe b) n = operandKey v n := rfl

/-- when all counted operands share one backend, the handler is the first of them … -/
theorem c03_handlerOf_uniform {b0 : Backend} : ∀ {vs : List (Vec S)}, (∀ v ∈ vs, v.ty.be = b0) → handlerOf vs = vs.head?
  | [], _ => rfl
  | v :: vs, h => by
    have hv : v.ty.be = b0 := h v (by simp)
    have key : ∀ (ws : List (Vec S)), (∀ w ∈ ws, w.ty.be = b0) →
        ws.foldl (fun h v => match h with
          | none => some v
          | some h => if v.ty.be.prio > h.ty.be.prio then some v else some h) (some v) = some v := by
      intro ws
      induction ws with
      | nil => intro _; rfl
      | cons w ws ih =>
        intro hw
        have : w.ty.be = b0 := hw w (by simp)
        simp only [List.foldl_cons, this, hv, Nat.lt_irrefl, gt_iff_lt, ↓reduceIte]
        exact ih (fun x hx => hw x (by simp [hx]))
    exact key vs (fun w hw => h w (by simp [hw]))

/-- … so relabelling all of them does not change which operand handles -/
theorem c03_handlerOf_setBe_uniform {b0 : Backend} (b : Backend) {vs : List (Vec S)} (h : ∀ v ∈ vs, v.ty.be = b0) :
    handlerOf (vs.map (Vec.setBe b)) = (handlerOf vs).map (Vec.setBe b) := by
  rw [c03_handlerOf_uniform h, c03_handlerOf_uniform (b0 := b) (by simp [Vec.setBe])]
  cases vs <;> rfl

/-- the backend tag does not influence any computed value -/
theorem c03_dispatch_setBe (ev : Ev S B) (m : ModuleId) (scalars : List S) (ord : Option Ord)
    (ops counted : List (Vec S)) (b : Backend)
    (hh : handlerOf (counted.map (Vec.setBe b)) = (handlerOf counted).map (Vec.setBe b)) :
    dispatch ev m scalars ord (ops.map (Vec.setBe b)) (counted.map (Vec.setBe b)) =
      (dispatch ev m scalars ord ops counted).map (Res.setBe b) := by
  simp only [dispatch, List.length_map, hh]
  rw [mapM_zip_map (Vec.setBe b) id (fun (v, n) => operandKey v n) _ (fun v n => by simp [operandKey_setBe])]
  have hmom : (counted.map (Vec.setBe b)).any (·.ty.mom) = counted.any (·.ty.mom) := by
    simp [List.any_map, Function.comp_def, Vec.setBe]
  rw [hmom]
  split
  · rfl
  · cases (ops.zip (operandSlots m.info.shape)).mapM (fun (v, n) => operandKey v n) with
    | none => rfl
    | some parts =>
      simp only [Option.map_some, List.map_id]
      cases ev m _ _ with
      | none => rfl
      | some p =>
        obtain ⟨out, ret⟩ := p
        cases handlerOf counted with
        | none => rfl
        | some h => exact wrapResult_setBe b h.ty.be h _ out ret

end

/-! ## The property: arrays of vectors, element by element

`S := ι → X` (columns over the index set `ι` of the array), `f := (· i)`, `g := (· i)`.  Every operation of the glue
at the column type returns columns over the SAME index set `ι` — the shape / list structure of the array result is
that of the operands by construction (it is part of the TYPE `Vec (ι → X)`, `Res (ι → X) (ι → Bx)`), so there is
nothing to prove about it beyond the fact that the statements below type-check. -/

section
variable {ι X Bx : Type}

private theorem map_eq_error_iff {α β : Type} {F : α → β} {x : Except Err α} {y : Except Err β} {e : Err}
    (h : x.map F = y) : x = .error e ↔ y = .error e := by
  subst h; cases x <;> simp [Except.map]

private theorem map_eq_ok {α β : Type} {F : α → β} {x : Except Err α} {y : Except Err β} {r : α}
    (h : x.map F = y) (hx : x = .ok r) : y = .ok (F r) := by
  subst h hx; rfl

/-- element `i` of the array result of `dispatch` is the result of `dispatch` on the elements `i` of all operands
(scalar arguments are columns too: element `i` of each) -/
theorem c03_elem_dispatch {ev : Ev (ι → X) (ι → Bx)} {evo : Ev X Bx} (h : Ev.Elementwise ev evo) (i : ι)
    (m : ModuleId) (scalars : List (ι → X)) (ord : Option Ord) (ops counted : List (Vec (ι → X))) :
    (dispatch ev m scalars ord ops counted).map (Res.at · i) =
      dispatch evo m (scalars.map (· i)) ord (ops.map (index · i)) (counted.map (index · i)) :=
  c03_dispatch (h i) m scalars ord ops counted

/-- properties (`x`, `rho`, `mag`, `tau`, …) of an array -/
theorem c03_elem_getAcc {ev : Ev (ι → X) (ι → Bx)} {evo : Ev X Bx} (h : Ev.Elementwise ev evo) (i : ι)
    (a : Acc) (arr : Vec (ι → X)) : (getAcc ev a arr).map (Res.at · i) = getAcc evo a (index arr i) :=
  c03_getAcc (h i) a arr

/-- `scale` of an array by a column of factors, element by element -/
theorem c03_elem_scaleN {ev : Ev (ι → X) (ι → Bx)} {evo : Ev X Bx} (h : Ev.Elementwise ev evo) (i : ι)
    (n : Nat) (s : ι → X) (arr : Vec (ι → X)) :
    (scaleN ev n s arr).map (Res.at · i) = scaleN evo n (s i) (index arr i) :=
  c03_scaleN (h i) n s arr

/-- BROADCASTING a scalar: `arr * s` with a Python / NumPy scalar `s` is `scale` with the constant column -/
theorem c03_bcast_scalar_scaleN {ev : Ev (ι → X) (ι → Bx)} {evo : Ev X Bx} (h : Ev.Elementwise ev evo) (i : ι)
    (n : Nat) (s : X) (arr : Vec (ι → X)) :
    (scaleN ev n (bcastS ι s) arr).map (Res.at · i) = scaleN evo n s (index arr i) :=
  c03_scaleN (h i) n (bcastS ι s) arr

/-- binary methods and operators on two arrays (the method layer's literal constants are constant columns) -/
theorem c03_elem_binary {ev : Ev (ι → X) (ι → Bx)} {evo : Ev X Bx} (h : Ev.Elementwise ev evo) (i : ι)
    (K : Consts X) (b : Bin) (arr arr' : Vec (ι → X)) (extra : List (ι → X)) :
    (binary ev (Consts.bcast ι K) b arr arr' extra).map (Res.at · i) =
      binary evo K b (index arr i) (index arr' i) (extra.map (· i)) :=
  c03_binary (h i) (Consts.bcast ι K) b arr arr' extra

/-- BROADCASTING a single vector object on the right: `arr.method(obj)` is, at every position, `arr[i].method(obj)` -/
theorem c03_bcast_object_right {ev : Ev (ι → X) (ι → Bx)} {evo : Ev X Bx} (h : Ev.Elementwise ev evo) (i : ι)
    (K : Consts X) (b : Bin) (arr : Vec (ι → X)) (o : Vec X) (extra : List X) :
    (binary ev (Consts.bcast ι K) b arr (bcast ι o) (extra.map (bcastS ι))).map (Res.at · i) =
      binary evo K b (index arr i) o extra := by
  have := c03_binary (h i) (Consts.bcast ι K) b arr (bcast ι o) (extra.map (bcastS ι))
  have he : (extra.map (bcastS ι)).map (· i) = extra := by simp [Function.comp_def, bcastS]
  have ho : (bcast ι o).map (· i) = o := index_bcast o i
  rw [he, ho] at this
  exact this

/-- BROADCASTING a single vector object on the left: `obj.method(arr)` is, at every position, `obj.method(arr[i])` -/
theorem c03_bcast_object_left {ev : Ev (ι → X) (ι → Bx)} {evo : Ev X Bx} (h : Ev.Elementwise ev evo) (i : ι)
    (K : Consts X) (b : Bin) (o : Vec X) (arr : Vec (ι → X)) (extra : List X) :
    (binary ev (Consts.bcast ι K) b (bcast ι o) arr (extra.map (bcastS ι))).map (Res.at · i) =
      binary evo K b o (index arr i) extra := by
  have := c03_binary (h i) (Consts.bcast ι K) b (bcast ι o) arr (extra.map (bcastS ι))
  have he : (extra.map (bcastS ι)).map (· i) = extra := by simp [Function.comp_def, bcastS]
  have ho : (bcast ι o).map (· i) = o := index_bcast o i
  rw [he, ho] at this
  exact this

/-- conversions of arrays: dimension changes (keyword values are columns, the default `0.0` a constant column) … -/
theorem c03_elem_toDim (i : ι) (zeroF : X) (target : Nat) (arr : Vec (ι → X)) (lonKw : List (Lon × (ι → X)))
    (tmpKw : List (Tmp × (ι → X))) (otherKw : Nat) :
    (toDim (bcastS ι zeroF) target arr lonKw tmpKw otherKw).map (index · i) =
      toDim zeroF target (index arr i) (lonKw.map (Prod.map id (· i))) (tmpKw.map (Prod.map id (· i))) otherKw :=
  c03_toDim (· i) (bcastS ι zeroF) target arr lonKw tmpKw otherKw

/-- … and coordinate-system changes -/
theorem c03_elem_toSystem {ev : Ev (ι → X) (ι → Bx)} {evo : Ev X Bx} (h : Ev.Elementwise ev evo) (i : ι)
    (zeroF : X) (arr : Vec (ι → X)) (az : Az) (lon : Option Lon) (tmp : Option Tmp) (kl kt : Option (ι → X)) :
    (toSystem ev (bcastS ι zeroF) arr az lon tmp kl kt).map (index · i) =
      toSystem evo zeroF (index arr i) az lon tmp (kl.map (· i)) (kt.map (· i)) :=
  c03_toSystem (h i) (bcastS ι zeroF) arr az lon tmp kl kt

/-- an array operation raises exactly the error the object operation raises on (any) element, and succeeds exactly
when it does: errors depend on the TYPES only -/
theorem c03_elem_binary_raises {ev : Ev (ι → X) (ι → Bx)} {evo : Ev X Bx} (h : Ev.Elementwise ev evo) (i : ι)
    (K : Consts X) (b : Bin) (arr arr' : Vec (ι → X)) (extra : List (ι → X)) (e : Err) :
    binary ev (Consts.bcast ι K) b arr arr' extra = .error e ↔
      binary evo K b (index arr i) (index arr' i) (extra.map (· i)) = .error e :=
  map_eq_error_iff (c03_elem_binary h i K b arr arr' extra)

/-- if the array operation returns `r`, the object operation on the elements `i` returns element `i` of `r` -/
theorem c03_elem_binary_ok {ev : Ev (ι → X) (ι → Bx)} {evo : Ev X Bx} (h : Ev.Elementwise ev evo) (i : ι)
    (K : Consts X) (b : Bin) (arr arr' : Vec (ι → X)) (extra : List (ι → X)) (r : Res (ι → X) (ι → Bx))
    (hr : binary ev (Consts.bcast ι K) b arr arr' extra = .ok r) :
    binary evo K b (index arr i) (index arr' i) (extra.map (· i)) = .ok (r.at i) :=
  map_eq_ok (F := (Res.at · i)) (c03_elem_binary h i K b arr arr' extra) hr

/-- a vector-valued array result is ONE vector type for all elements, with element `i` of every coordinate column -/
theorem c03_elem_vec_result (r : Vec (ι → X)) (i : ι) :
    (Res.vec r : Res (ι → X) (ι → Bx)).at i = .vec (index r i) ∧ (index r i).ty = r.ty ∧
      (index r i).c = r.c.map (· i) := ⟨rfl, rfl, rfl⟩

/-- a scalar-valued array result is a column; element `i` of the result is its value at `i` (same for truth values) -/
theorem c03_elem_scalar_result (s : ι → X) (t : ι → Bx) (i : ι) :
    (Res.scalar s : Res (ι → X) (ι → Bx)).at i = .scalar (s i) ∧
    (Res.truth t : Res (ι → X) (ι → Bx)).at i = .truth (t i) := ⟨rfl, rfl⟩

/-- arrays against PLAIN OBJECTS: when the operands that count share one backend (all NumPy, or all Awkward), element
`i` of the array result, as an object-backend value, is the result of the operation on the object-backend elements -/
theorem c03_array_vs_object {ev : Ev (ι → X) (ι → Bx)} {evo : Ev X Bx} (h : Ev.Elementwise ev evo) (i : ι)
    (m : ModuleId) (scalars : List (ι → X)) (ord : Option Ord) (ops counted : List (Vec (ι → X))) {b0 : Backend}
    (hb : ∀ v ∈ counted, v.ty.be = b0) :
    (dispatch ev m scalars ord ops counted).map (fun r => (r.at i).setBe .obj) =
      dispatch evo m (scalars.map (· i)) ord (ops.map (elemObj · i)) (counted.map (elemObj · i)) := by
  have h1 := c03_elem_dispatch h i m scalars ord ops counted
  have hb' : ∀ v ∈ counted.map (index · i), v.ty.be = b0 := by
    intro v hv
    obtain ⟨w, hw, rfl⟩ := List.mem_map.mp hv
    exact hb w hw
  have h2 := c03_dispatch_setBe evo m (scalars.map (· i)) ord (ops.map (index · i)) (counted.map (index · i)) .obj
    (c03_handlerOf_setBe_uniform .obj hb')
  simp only [List.map_map] at h2
  rw [show (fun a : Vec (ι → X) => elemObj a i) = Vec.setBe .obj ∘ (index · i) from rfl, h2, ← h1]
  cases dispatch ev m scalars ord ops counted <;> rfl

end

/-! ## The hypothesis holds for the generated compute layer

`Ev.Elementwise` is NumPy's contract for the compute layer.  For the GENERATED executable copy of vector's compute
functions it is a theorem: at the column scalar type `ι → X` (`colScalar`: every primitive acts position by position)
each of the 82 compute modules, on every key and every argument list, returns at position `i` what it returns on the
elements at position `i`.  (The compute functions are straight-line code over the primitives, so after fixing the key
the two sides are definitionally equal.) -/

section
open VE Lean Elab Tactic Meta

/-- `cases` on the OLDEST local hypothesis whose type is one of the given constants -/
local elab "cases_oldest" ns:ident+ : tactic => withMainContext do
  let names ← ns.mapM fun n => realizeGlobalConstNoOverloadWithInfo n
  for d in (← getLCtx) do
    if d.isImplementationDetail then continue
    let ty ← whnfR (← instantiateMVars d.type)
    if names.any (ty.isConstOf ·) then
      let gs ← (← getMainGoal).cases d.fvarId
      replaceMainGoal (gs.map (·.mvarId)).toList
      return
  throwError "cases_oldest: no such hypothesis"

/-- `cases` on the argument list (the hypothesis of type `List _` that is not the key `List KA`) -/
local elab "cases_arglist" : tactic => withMainContext do
  for d in (← getLCtx) do
    if d.isImplementationDetail then continue
    let ty ← whnfR (← instantiateMVars d.type)
    if ty.isAppOfArity ``List 1 && !(ty.appArg!.isConstOf ``VK.KA) then
      let gs ← (← getMainGoal).cases d.fvarId
      replaceMainGoal (gs.map (·.mvarId)).toList
      return
  throwError "cases_arglist: no such hypothesis"

/-- fix the length of the key, then the kind of every key atom (first to last), then the coordinate systems -/
local syntax "nat_keys" : tactic
local macro_rules
  | `(tactic| nat_keys) => `(tactic|
      first
      | rfl
      | (cases ‹List KA› <;> nat_keys)
      | (cases_oldest VK.KA <;> nat_keys)
      | (cases_oldest VK.Az VK.Lon VK.Tmp VK.Ord <;> nat_keys))

/-- fix the length of the argument list (no module takes more than 20 arguments), then the key -/
local macro "nat_mod" : tactic => `(tactic|
  (iterate 21 (all_goals try cases_arglist)
   all_goals (simp only [List.map]; nat_keys)))

/-- one lemma `c03_exec_<module>` per constructor of `ModuleId` -/
local elab "exec_natural_lemmas" : command => do
  let some (.inductInfo iv) := (← getEnv).find? ``VK.ModuleId | throwError "ModuleId not found"
  for c in iv.ctors do
    let s := c.getString!
    let thm := mkIdent (Name.mkSimple s!"c03_exec_{s}")
    let ev := mkIdent (`VE ++ Name.mkSimple s ++ `evalL)
    Command.elabCommand (← `(command|
      set_option maxRecDepth 8192 in
      theorem $thm {ι X : Type} [Scalar X] (i : ι) (k : List KA) (a : List (ι → X)) :
          $ev (S := X) k (a.map (fun c => c i)) =
            (($ev (S := ι → X) k a).map
              (Prod.map (Out.map (fun c => c i) (fun (c : ι → VE.B X) => c i)) id)) := by
        nat_mod))

exec_natural_lemmas

/-- close a goal about `Compute.eval <module>` with the lemma of that module -/
local elab "exec_lemma" : tactic => withMainContext do
  let t ← instantiateMVars (← (← getMainGoal).getType)
  let some c := t.find? (fun e => e.isConst && e.constName!.getPrefix == ``VK.ModuleId)
    | throwError "exec_lemma: no module"
  let nm := mkIdent (`VG ++ Name.mkSimple s!"c03_exec_{c.constName!.getString!}")
  evalTactic (← `(tactic| exact $nm _ _ _))

variable {ι X : Type} [Scalar X]

/-- the generated executable compute layer, as the glue sees it, at the scalar type `S` -/
abbrev genEv (S : Type) [Scalar S] : Ev S (VE.B S) := fun m k a => Compute.eval (S := S) m k a

/-- the generated compute layer at columns acts element by element: NumPy's ufunc contract, proved for all 82 modules,
all keys and all argument lists, for every element scalar type -/
theorem c03_exec_elementwise : Ev.Elementwise (Bx := VE.B X) (genEv (ι → X)) (genEv X) := by
  intro i m k a
  cases m <;> exec_lemma

/-- the property, unconditionally, for the generated compute layer: binary methods on two arrays … -/
theorem c03_exec_elem_binary (i : ι) (K : Consts X) (b : Bin) (arr arr' : Vec (ι → X)) (extra : List (ι → X)) :
    (binary (genEv (ι → X)) (Consts.bcast ι K) b arr arr' extra).map (Res.at (Bx := VE.B X) · i) =
      binary (genEv X) K b (index arr i) (index arr' i) (extra.map (· i)) :=
  c03_elem_binary c03_exec_elementwise i K b arr arr' extra

/-- … an array against a single (broadcast) vector object … -/
theorem c03_exec_bcast_object (i : ι) (K : Consts X) (b : Bin) (arr : Vec (ι → X)) (o : Vec X) (extra : List X) :
    (binary (genEv (ι → X)) (Consts.bcast ι K) b arr (bcast ι o) (extra.map (bcastS ι))).map
        (Res.at (Bx := VE.B X) · i) =
      binary (genEv X) K b (index arr i) o extra :=
  c03_bcast_object_right c03_exec_elementwise i K b arr o extra

/-- … properties of arrays, and scaling by a (broadcast) scalar -/
theorem c03_exec_elem_getAcc (i : ι) (a : Acc) (arr : Vec (ι → X)) :
    (getAcc (genEv (ι → X)) a arr).map (Res.at (Bx := VE.B X) · i) = getAcc (genEv X) a (index arr i) :=
  c03_elem_getAcc c03_exec_elementwise i a arr

theorem c03_exec_bcast_scalar (i : ι) (n : Nat) (s : X) (arr : Vec (ι → X)) :
    (scaleN (genEv (ι → X)) n (bcastS ι s) arr).map (Res.at (Bx := VE.B X) · i) =
      scaleN (genEv X) n s (index arr i) :=
  c03_bcast_scalar_scaleN c03_exec_elementwise i n s arr

/-! ### examples: the hypotheses are satisfiable, the statements are not vacuous -/

/-- `Ev.Natural` / `Ev.Elementwise` are satisfiable: by the generated compute layer (above) and by the identity -/
example (ev : Ev X (VE.B X)) : Ev.Natural (fun s => s) (fun b => b) ev ev := Ev.Natural.id ev

/-- the side condition on `A.inv` of `c03_stepE` holds for the position-wise reciprocal -/
example (A : Arith X) (i : ι) :
    let A' : Arith (ι → X) := ⟨fun c j => A.inv (c j), fun c p j => A.pow (c j) (p j), fun _ => A.quarter,
      fun _ => A.sixth, fun _ => false⟩
    ∀ s : ι → X, A.inv (s i) = (A'.inv s) i := fun _ => rfl

/-- two arrays (index set `Fin 3`, or any `ι`) of Cartesian 2D vectors: `+` adds the columns, one result type -/
example (K : Consts (ι → X)) (x y x' y' : ι → X) :
    binary (genEv (ι → X)) K .add ⟨{ be := .np, mom := false, az := .xy, lon := none, tmp := none }, [x, y]⟩
        ⟨{ be := .np, mom := false, az := .xy, lon := none, tmp := none }, [x', y']⟩ [] =
      .ok (.vec ⟨{ be := .np, mom := false, az := .xy, lon := none, tmp := none }, [x + x', y + y']⟩) := rfl

/-- … and at position `i` this is the sum of the two elements -/
example (x y x' y' : ι → X) (i : ι) : (x + x') i = x i + x' i ∧ (y + y') i = y i + y' i := ⟨rfl, rfl⟩

/-- a NumPy array times a Python scalar: the scalar is a constant column; the polar array keeps its system -/
example (rho phi : ι → X) (s : X) :
    scaleN (genEv (ι → X)) 2 (bcastS ι s) ⟨{ be := .np, mom := true, az := .rhophi, lon := none, tmp := none }, [rho, phi]⟩ =
      .ok (.vec ⟨{ be := .np, mom := true, az := .rhophi, lon := none, tmp := none },
        (planar_scale.rhophi (bcastS ι s) rho phi).1 :: [(planar_scale.rhophi (bcastS ι s) rho phi).2]⟩) := rfl

/-- an array error is the object error: adding a 2D array and a 3D array raises `TypeError`, like the elements do -/
example (K : Consts (ι → X)) (x y x' y' z' : ι → X) (i : ι) :
    binary (genEv (ι → X)) K .add ⟨{ be := .np, mom := false, az := .xy, lon := none, tmp := none }, [x, y]⟩
        ⟨{ be := .np, mom := false, az := .xy, lon := some .z, tmp := none }, [x', y', z']⟩ [] = .error .typeError ∧
    binary (genEv X) (K.map (· i)) .add ⟨{ be := .np, mom := false, az := .xy, lon := none, tmp := none }, [x i, y i]⟩
        ⟨{ be := .np, mom := false, az := .xy, lon := some .z, tmp := none }, [x' i, y' i, z' i]⟩ [] =
      .error .typeError := ⟨rfl, rfl⟩

end
end VG
